import ParryModel.Field
import ParryModel.C18.ModelFill3
import ParryModel.C18.LemmasFill
/-!
# C18 lemmas for the 3-D voxelizer model: the fill pass

3-D port of `LemmasFill.lean`: grid access through coordinates (`getC3`/`setC3`, `voxel_index(i, j, k)` injective and
in bounds), the flood-fill specification `Reach3` (6-connectivity), the six `mark_outside_surface` calls
(`markBorder3_get`), the invariant `FInv3`/`Closed3` of the outside propagation and its preservation by the six walks
(`walk_ray3`, `walks3_inv`), by the loop body (`propCell3_inv`), by a sweep and by the whole loop; the fixpoint is the
specification (`fixpoint_spec3`); counting argument for the fuel (`propagate3_fuel`).
-/
set_option linter.unusedSectionVars false
set_option linter.unusedVariables false
set_option linter.unusedSimpArgs false
namespace C18
open Model Model.Vox Model.Vox3

/-- the value of cell `(i, j, k)` -/
def getC3 (ni nj : Nat) (g : Array VV) (p : Nat × Nat × Nat) : VV := g.getD (idx3 ni nj p.1 p.2.1 p.2.2) .undef
def setC3 (ni nj : Nat) (g : Array VV) (p : Nat × Nat × Nat) (v : VV) : Array VV :=
  g.setIfInBounds (idx3 ni nj p.1 p.2.1 p.2.2) v

/-- the 3-D grid is a 2-D grid with rows `j + k * nj` -/
theorem idx3_eq (ni nj i j k : Nat) : idx3 ni nj i j k = idx ni i (idx nj j k) := by
  unfold idx3 idx; ring

/-- `voxel_index(i, j, k)` is in bounds -/
theorem idx3_lt {ni nj nk i j k : Nat} (hi : i < ni) (hj : j < nj) (hk : k < nk) : idx3 ni nj i j k < ni * nj * nk := by
  rw [idx3_eq, Nat.mul_assoc]
  exact idx_lt hi (idx_lt hj hk)

/-- `voxel_index(i, j, k)` is injective on in-range columns / rows -/
theorem idx3_inj {ni nj i j k i' j' k' : Nat} (hi : i < ni) (hi' : i' < ni) (hj : j < nj) (hj' : j' < nj)
    (h : idx3 ni nj i j k = idx3 ni nj i' j' k') : i = i' ∧ j = j' ∧ k = k' := by
  rw [idx3_eq, idx3_eq] at h
  obtain ⟨e1, e2⟩ := idx_inj hi hi' h
  exact ⟨e1, idx_inj hj hj' e2⟩

theorem getC3_setC3 {ni nj nk : Nat} {g : Array VV} (hs : g.size = ni * nj * nk) {p q : Nat × Nat × Nat} (v : VV)
    (hp : p.1 < ni ∧ p.2.1 < nj ∧ p.2.2 < nk) (hq : q.1 < ni ∧ q.2.1 < nj) :
    getC3 ni nj (setC3 ni nj g p v) q = if p = q then v else getC3 ni nj g q := by
  unfold getC3 setC3
  split_ifs with h
  · subst h
    have := idx3_lt hp.1 hp.2.1 hp.2.2
    simp [Array.getD, Array.size_setIfInBounds, hs, this]
  · have hne : idx3 ni nj p.1 p.2.1 p.2.2 ≠ idx3 ni nj q.1 q.2.1 q.2.2 := by
      intro e
      have := idx3_inj hp.1 hq.1 hp.2.1 hq.2 e
      exact h (Prod.ext this.1 (Prod.ext this.2.1 this.2.2))
    simp only [Array.getD_eq_getD_getElem?, Array.getElem?_setIfInBounds]
    rw [if_neg hne]

theorem size_setC3 (ni nj : Nat) (g : Array VV) (p : Nat × Nat × Nat) (v : VV) : (setC3 ni nj g p v).size = g.size := by
  simp [setC3]

theorem mem_cellsIn3 {i0 j0 k0 i1 j1 k1 : Nat} {p : Nat × Nat × Nat} :
    p ∈ cellsIn3 i0 j0 k0 i1 j1 k1 ↔
      (i0 ≤ p.1 ∧ p.1 < i1) ∧ (j0 ≤ p.2.1 ∧ p.2.1 < j1) ∧ (k0 ≤ p.2.2 ∧ p.2.2 < k1) := by
  unfold cellsIn3
  simp only [List.mem_flatMap, List.mem_range', List.mem_map]
  constructor
  · rintro ⟨i, ⟨a, ha, rfl⟩, j, ⟨b, hb, rfl⟩, k, ⟨c, hc, rfl⟩, rfl⟩
    simp; omega
  · rintro ⟨⟨h1, h2⟩, ⟨h3, h4⟩, ⟨h5, h6⟩⟩
    refine ⟨p.1, ⟨p.1 - i0, by omega, by omega⟩, p.2.1, ⟨p.2.1 - j0, by omega, by omega⟩,
      p.2.2, ⟨p.2.2 - k0, by omega, by omega⟩, rfl⟩

/-! ### the flood-fill specification (3-D) -/
section
variable (ni nj nk : Nat) (S : Nat × Nat × Nat → Prop)

/-- cell `p` is inside the `ni × nj × nk` grid -/
def InB3 (p : Nat × Nat × Nat) : Prop := p.1 < ni ∧ p.2.1 < nj ∧ p.2.2 < nk
/-- 6-neighbourhood: two coordinates equal, the third differs by one -/
def Adj3 (p q : Nat × Nat × Nat) : Prop :=
  (p.1 = q.1 ∧ p.2.1 = q.2.1 ∧ (q.2.2 = p.2.2 + 1 ∨ p.2.2 = q.2.2 + 1)) ∨
  (p.1 = q.1 ∧ p.2.2 = q.2.2 ∧ (q.2.1 = p.2.1 + 1 ∨ p.2.1 = q.2.1 + 1)) ∨
  (p.2.1 = q.2.1 ∧ p.2.2 = q.2.2 ∧ (q.1 = p.1 + 1 ∨ p.1 = q.1 + 1))
/-- one of the six faces of the grid -/
def OnBorder3 (p : Nat × Nat × Nat) : Prop :=
  p.1 = 0 ∨ p.2.1 = 0 ∨ p.2.2 = 0 ∨ p.1 + 1 = ni ∨ p.2.1 + 1 = nj ∨ p.2.2 + 1 = nk

instance (p : Nat × Nat × Nat) : Decidable (InB3 ni nj nk p) :=
  inferInstanceAs (Decidable (p.1 < ni ∧ p.2.1 < nj ∧ p.2.2 < nk))
instance (p : Nat × Nat × Nat) : Decidable (OnBorder3 ni nj nk p) :=
  inferInstanceAs (Decidable (p.1 = 0 ∨ p.2.1 = 0 ∨ p.2.2 = 0 ∨ p.1 + 1 = ni ∨ p.2.1 + 1 = nj ∨ p.2.2 + 1 = nk))

/-- **flood-fill specification** (3-D): the non-surface cells connected to a non-surface cell of one of the six faces of
the grid through non-surface cells (6-connectivity); `S` = "is a surface cell". -/
inductive Reach3 : Nat × Nat × Nat → Prop
  | border {p} : InB3 ni nj nk p → OnBorder3 ni nj nk p → ¬ S p → Reach3 p
  | step {p q} : Reach3 p → Adj3 p q → InB3 ni nj nk q → ¬ S q → Reach3 q

theorem getC3_setC3' {g : Array VV} (hs : g.size = ni * nj * nk) {p q : Nat × Nat × Nat} (v : VV)
    (hp : InB3 ni nj nk p) (hq : InB3 ni nj nk q) :
    getC3 ni nj (setC3 ni nj g p v) q = if p = q then v else getC3 ni nj g q :=
  getC3_setC3 hs v hp ⟨hq.1, hq.2.1⟩

/-! ### `mark_outside_surface` -/

theorem markStep3_eq (g : Array VV) (c : Nat × Nat × Nat) :
    (if g.getD (idx3 ni nj c.1 c.2.1 c.2.2) .undef = .undef then g.setIfInBounds (idx3 ni nj c.1 c.2.1 c.2.2) .outWalk else g)
      = if getC3 ni nj g c = .undef then setC3 ni nj g c .outWalk else g := rfl

/-- `mark_outside_surface` over a list of in-grid cells: `undef` cells of the list become `outWalk`, nothing else changes -/
theorem markList3_get : ∀ (l : List (Nat × Nat × Nat)) (g : Array VV), g.size = ni * nj * nk → (∀ p ∈ l, InB3 ni nj nk p) →
    (l.foldl (fun g c => if g.getD (idx3 ni nj c.1 c.2.1 c.2.2) .undef = .undef
        then g.setIfInBounds (idx3 ni nj c.1 c.2.1 c.2.2) .outWalk else g) g).size = ni * nj * nk ∧
    ∀ q, InB3 ni nj nk q →
      getC3 ni nj (l.foldl (fun g c => if g.getD (idx3 ni nj c.1 c.2.1 c.2.2) .undef = .undef
        then g.setIfInBounds (idx3 ni nj c.1 c.2.1 c.2.2) .outWalk else g) g) q
        = if q ∈ l ∧ getC3 ni nj g q = .undef then .outWalk else getC3 ni nj g q
  | [], g, hs, _ => ⟨hs, fun q _ => by simp⟩
  | p :: l, g, hs, hl => by
    rw [List.foldl_cons, markStep3_eq]
    have hp := hl p List.mem_cons_self
    have hl' : ∀ x ∈ l, InB3 ni nj nk x := fun x hx => hl x (List.mem_cons_of_mem _ hx)
    by_cases hv : getC3 ni nj g p = .undef
    · rw [if_pos hv]
      obtain ⟨a1, a2⟩ := markList3_get l (setC3 ni nj g p .outWalk) (by rw [size_setC3]; exact hs) hl'
      refine ⟨a1, fun q hq => ?_⟩
      rw [a2 q hq, getC3_setC3' ni nj nk hs .outWalk hp hq]
      by_cases e : p = q
      · subst e
        simp [hv]
      · simp only [if_neg e, List.mem_cons]
        have : (q = p) = False := by simp; exact fun x => e x.symm
        simp [this]
    · rw [if_neg hv]
      obtain ⟨a1, a2⟩ := markList3_get l g hs hl'
      refine ⟨a1, fun q hq => ?_⟩
      rw [a2 q hq]
      by_cases e : q = p
      · subst e; simp [hv]
      · simp [e]

/-- one `mark_outside_surface(i0, j0, k0, i1, j1, k1)` call -/
theorem markOutside3_get (g : Array VV) (hs : g.size = ni * nj * nk) (i0 j0 k0 i1 j1 k1 : Nat)
    (h1 : i1 ≤ ni) (h2 : j1 ≤ nj) (h3 : k1 ≤ nk) :
    (markOutside3 ni nj g i0 j0 k0 i1 j1 k1).size = ni * nj * nk ∧
    ∀ q, InB3 ni nj nk q → getC3 ni nj (markOutside3 ni nj g i0 j0 k0 i1 j1 k1) q
      = if ((i0 ≤ q.1 ∧ q.1 < i1) ∧ (j0 ≤ q.2.1 ∧ q.2.1 < j1) ∧ (k0 ≤ q.2.2 ∧ q.2.2 < k1)) ∧ getC3 ni nj g q = .undef
        then .outWalk else getC3 ni nj g q := by
  unfold markOutside3
  obtain ⟨a1, a2⟩ := markList3_get ni nj nk (cellsIn3 i0 j0 k0 i1 j1 k1) g hs (fun p hp => by
    have := mem_cellsIn3.mp hp
    exact ⟨by omega, by omega, by omega⟩)
  refine ⟨a1, fun q hq => ?_⟩
  rw [a2 q hq]
  simp only [mem_cellsIn3]

/-- two successive marking steps are one marking step over the union -/
theorem markStep_twice (c1 c2 : Prop) [Decidable c1] [Decidable c2] (v : VV) :
    (if c2 ∧ (if c1 ∧ v = .undef then VV.outWalk else v) = .undef then VV.outWalk
      else (if c1 ∧ v = .undef then VV.outWalk else v))
      = if (c1 ∨ c2) ∧ v = .undef then VV.outWalk else v := by
  by_cases h1 : c1 <;> by_cases h2 : c2 <;> by_cases hv : v = .undef <;> simp [h1, h2, hv]

/-- the six `mark_outside_surface` calls mark exactly the `undef` cells of the six faces -/
theorem markBorder3_get (g : Array VV) (hs : g.size = ni * nj * nk) (hi : 1 ≤ ni) (hj : 1 ≤ nj) (hk : 1 ≤ nk) :
    (markBorder3 ni nj nk g).size = ni * nj * nk ∧
    ∀ q, InB3 ni nj nk q → getC3 ni nj (markBorder3 ni nj nk g) q
      = if OnBorder3 ni nj nk q ∧ getC3 ni nj g q = .undef then .outWalk else getC3 ni nj g q := by
  unfold markBorder3
  simp only []
  obtain ⟨a1, a2⟩ := markOutside3_get ni nj nk g hs 0 0 0 ni nj 1 (le_refl _) (le_refl _) hk
  obtain ⟨b1, b2⟩ := markOutside3_get ni nj nk _ a1 0 0 (nk - 1) ni nj nk (le_refl _) (le_refl _) (le_refl _)
  obtain ⟨c1, c2⟩ := markOutside3_get ni nj nk _ b1 0 0 0 ni 1 nk (le_refl _) hj (le_refl _)
  obtain ⟨d1, d2⟩ := markOutside3_get ni nj nk _ c1 0 (nj - 1) 0 ni nj nk (le_refl _) (le_refl _) (le_refl _)
  obtain ⟨e1, e2⟩ := markOutside3_get ni nj nk _ d1 0 0 0 1 nj nk hi (le_refl _) (le_refl _)
  obtain ⟨f1, f2⟩ := markOutside3_get ni nj nk _ e1 (ni - 1) 0 0 ni nj nk (le_refl _) (le_refl _) (le_refl _)
  refine ⟨f1, fun q hq => ?_⟩
  rw [f2 q hq, e2 q hq, d2 q hq, c2 q hq, b2 q hq, a2 q hq]
  simp only [markStep_twice]
  obtain ⟨q1, q2, q3⟩ := q
  obtain ⟨h1, h2, h3⟩ := hq
  simp only at h1 h2 h3
  refine if_congr (and_congr ?_ Iff.rfl) rfl rfl
  unfold OnBorder3
  simp only
  omega
end

/-! ### the invariant of the outside propagation -/
section
variable (ni nj nk : Nat) (S : Nat × Nat × Nat → Prop)

/-- invariant of the outside propagation (`FillMode::FloodFill { detect_cavities: false }`) -/
structure FInv3 (g : Array VV) : Prop where
  size : g.size = ni * nj * nk
  vals : ∀ p, InB3 ni nj nk p → getC3 ni nj g p = .undef ∨ getC3 ni nj g p = .outWalk ∨ getC3 ni nj g p = .outside ∨ getC3 ni nj g p = .surf
  surf : ∀ p, InB3 ni nj nk p → (getC3 ni nj g p = .surf ↔ S p)
  sound : ∀ p, InB3 ni nj nk p → (getC3 ni nj g p = .outWalk ∨ getC3 ni nj g p = .outside) → Reach3 ni nj nk S p
  border : ∀ p, InB3 ni nj nk p → OnBorder3 ni nj nk p → getC3 ni nj g p ≠ .undef

/-- every neighbour of an `outside` cell has been looked at -/
def Closed3 (g : Array VV) : Prop :=
  ∀ p q, InB3 ni nj nk p → InB3 ni nj nk q → Adj3 p q → getC3 ni nj g p = .outside → getC3 ni nj g q ≠ .undef

/-- what a walk may do to a cell: nothing, or `undef → outWalk` -/
def Frame3 (g g' : Array VV) : Prop :=
  ∀ q, InB3 ni nj nk q → getC3 ni nj g' q = getC3 ni nj g q ∨ (getC3 ni nj g q = .undef ∧ getC3 ni nj g' q = .outWalk)

theorem Frame3.refl (g : Array VV) : Frame3 ni nj nk g g := fun _ _ => Or.inl rfl

theorem Frame3.trans {g g1 g2 : Array VV} (h1 : Frame3 ni nj nk g g1) (h2 : Frame3 ni nj nk g1 g2) : Frame3 ni nj nk g g2 := by
  intro q hq
  rcases h1 q hq with a | ⟨a1, a2⟩ <;> rcases h2 q hq with b | ⟨b1, b2⟩
  · left; rw [b, a]
  · right; exact ⟨by rw [← a]; exact b1, b2⟩
  · right; exact ⟨a1, by rw [b]; exact a2⟩
  · rw [a2] at b1; cases b1

theorem FInv3.congr {g g' : Array VV} (h : FInv3 ni nj nk S g) (hs : g'.size = g.size)
    (he : ∀ q, InB3 ni nj nk q → getC3 ni nj g' q = getC3 ni nj g q) : FInv3 ni nj nk S g' where
  size := by rw [hs]; exact h.size
  vals := fun p hp => by rw [he p hp]; exact h.vals p hp
  surf := fun p hp => by rw [he p hp]; exact h.surf p hp
  sound := fun p hp => by rw [he p hp]; exact h.sound p hp
  border := fun p hp hb => by rw [he p hp]; exact h.border p hp hb

/-- a ray: consecutive cells, each adjacent to the previous one, starting next to `src` -/
def RayFrom3 (src : Nat × Nat × Nat) : List (Nat × Nat × Nat) → Prop
  | [] => True
  | c :: cs => Adj3 src c ∧ RayFrom3 c cs

theorem walkCells_cons3 (u sv : VV) (g : Array VV) (c : Nat × Nat × Nat) (rest : List Nat) :
    walkCells u sv g (idx3 ni nj c.1 c.2.1 c.2.2 :: rest) =
      if getC3 ni nj g c = .undef then walkCells u sv (setC3 ni nj g c u) rest
      else if getC3 ni nj g c = .surf then setC3 ni nj g c sv else g := rfl

/-- writing the value a cell already has changes nothing observable -/
theorem getC3_setC3_same {g : Array VV} (hs : g.size = ni * nj * nk) {c : Nat × Nat × Nat} (hc : InB3 ni nj nk c) {v : VV}
    (hv : getC3 ni nj g c = v) (q : Nat × Nat × Nat) (hq : InB3 ni nj nk q) :
    getC3 ni nj (setC3 ni nj g c v) q = getC3 ni nj g q := by
  rw [getC3_setC3' ni nj nk hs v hc hq]
  split_ifs with h
  · subst h; exact hv.symm
  · rfl

/-- `walk_forward` / `walk_backward` along a ray that starts next to an already reached cell keep the invariant, only
turn `undef` cells into `outWalk`, and leave the first cell of the ray not `undef`. -/
theorem walk_ray3 (cells : List (Nat × Nat × Nat)) : ∀ (src : Nat × Nat × Nat) (g : Array VV),
    FInv3 ni nj nk S g → InB3 ni nj nk src → (getC3 ni nj g src = .outWalk ∨ getC3 ni nj g src = .outside) →
    RayFrom3 src cells → (∀ c ∈ cells, InB3 ni nj nk c) →
    FInv3 ni nj nk S (walkCells .outWalk .surf g (cells.map fun p => idx3 ni nj p.1 p.2.1 p.2.2)) ∧
    Frame3 ni nj nk g (walkCells .outWalk .surf g (cells.map fun p => idx3 ni nj p.1 p.2.1 p.2.2)) ∧
    (∀ c cs, cells = c :: cs →
      getC3 ni nj (walkCells .outWalk .surf g (cells.map fun p => idx3 ni nj p.1 p.2.1 p.2.2)) c ≠ .undef) := by
  induction cells with
  | nil => intro src g h _ _ _ _; exact ⟨h, Frame3.refl ni nj nk g, fun c cs e => by cases e⟩
  | cons c cs ih =>
    intro src g h hsrc hv hray hin
    have hc : InB3 ni nj nk c := hin c (List.mem_cons_self)
    obtain ⟨hadj, hray'⟩ := hray
    rw [List.map_cons, walkCells_cons3]
    by_cases h1 : getC3 ni nj g c = .undef
    · rw [if_pos h1]
      -- the cell becomes `outWalk`; it is reached from `src`
      have hnS : ¬ S c := fun hS => by have := (h.surf c hc).mpr hS; rw [h1] at this; cases this
      have hreach : Reach3 ni nj nk S c := Reach3.step (h.sound src hsrc hv) hadj hc hnS
      have hg1 : ∀ q, InB3 ni nj nk q →
          getC3 ni nj (setC3 ni nj g c .outWalk) q = if c = q then .outWalk else getC3 ni nj g q :=
        fun q hq => getC3_setC3' ni nj nk h.size .outWalk hc hq
      have inv1 : FInv3 ni nj nk S (setC3 ni nj g c .outWalk) := by
        refine ⟨by rw [size_setC3]; exact h.size, ?_, ?_, ?_, ?_⟩
        · intro p hp; rw [hg1 p hp]; split_ifs with e
          · right; left; rfl
          · exact h.vals p hp
        · intro p hp; rw [hg1 p hp]; split_ifs with e
          · subst e; constructor
            · intro x; cases x
            · intro x; exact absurd x hnS
          · exact h.surf p hp
        · intro p hp; rw [hg1 p hp]; split_ifs with e
          · subst e; intro _; exact hreach
          · exact h.sound p hp
        · intro p hp hb; rw [hg1 p hp]; split_ifs with e
          · intro x; cases x
          · exact h.border p hp hb
      have fr1 : Frame3 ni nj nk g (setC3 ni nj g c .outWalk) := by
        intro q hq; rw [hg1 q hq]; split_ifs with e
        · subst e; right; exact ⟨h1, rfl⟩
        · left; rfl
      have hvc : getC3 ni nj (setC3 ni nj g c .outWalk) c = .outWalk ∨ getC3 ni nj (setC3 ni nj g c .outWalk) c = .outside := by
        left; rw [hg1 c hc, if_pos rfl]
      obtain ⟨i1, i2, i3⟩ := ih c (setC3 ni nj g c .outWalk) inv1 hc hvc hray' (fun x hx => hin x (List.mem_cons_of_mem _ hx))
      refine ⟨i1, Frame3.trans ni nj nk fr1 i2, ?_⟩
      intro c' cs' e
      have e1 : c' = c := (List.cons.inj e).1.symm
      rw [e1]
      rcases i2 c hc with a | ⟨a1, a2⟩
      · rw [a, hg1 c hc, if_pos rfl]; intro x; cases x
      · rw [a2]; intro x; cases x
    · rw [if_neg h1]
      by_cases h2 : getC3 ni nj g c = .surf
      · rw [if_pos h2]
        have same := getC3_setC3_same ni nj nk h.size hc h2
        refine ⟨h.congr ni nj nk S (size_setC3 ni nj g c .surf) same, fun q hq => Or.inl (same q hq), ?_⟩
        intro c' cs' e
        have e1 : c' = c := (List.cons.inj e).1.symm
        rw [e1, same c hc, h2]; intro x; cases x
      · rw [if_neg h2]
        refine ⟨h, Frame3.refl ni nj nk g, ?_⟩
        intro c' cs' e
        have e1 : c' = c := (List.cons.inj e).1.symm
        rw [e1]; exact h1

theorem Frame3.ne_undef {g g' : Array VV} (h : Frame3 ni nj nk g g') {q : Nat × Nat × Nat} (hq : InB3 ni nj nk q)
    (hv : getC3 ni nj g q ≠ .undef) : getC3 ni nj g' q ≠ .undef := by
  rcases h q hq with a | ⟨a1, a2⟩
  · rw [a]; exact hv
  · rw [a2]; intro x; cases x

theorem Frame3.keep {g g' : Array VV} (h : Frame3 ni nj nk g g') {q : Nat × Nat × Nat} (hq : InB3 ni nj nk q)
    (hv : getC3 ni nj g q ≠ .undef) : getC3 ni nj g' q = getC3 ni nj g q := by
  rcases h q hq with a | ⟨a1, a2⟩
  · exact a
  · exact absurd a1 hv

theorem Frame3.outside_iff {g g' : Array VV} (h : Frame3 ni nj nk g g') {q : Nat × Nat × Nat} (hq : InB3 ni nj nk q) :
    getC3 ni nj g' q = .outside ↔ getC3 ni nj g q = .outside := by
  rcases h q hq with a | ⟨a1, a2⟩
  · rw [a]
  · rw [a1, a2]; constructor <;> intro x <;> cases x

/-! the six rays of `walkLists3`, in coordinates -/
def ray3a (nk i j k : Nat) : List (Nat × Nat × Nat) :=
  (List.range' (k + 1) (min walkDistance (nk - (k + 1)))).map fun k' => (i, j, k')
def ray3b (i j k : Nat) : List (Nat × Nat × Nat) := (List.range (min walkDistance k)).map fun d => (i, j, k - 1 - d)
def ray3c (nj i j k : Nat) : List (Nat × Nat × Nat) :=
  (List.range' (j + 1) (min walkDistance (nj - (j + 1)))).map fun j' => (i, j', k)
def ray3d (i j k : Nat) : List (Nat × Nat × Nat) := (List.range (min walkDistance j)).map fun d => (i, j - 1 - d, k)
def ray3e (ni i j k : Nat) : List (Nat × Nat × Nat) :=
  (List.range' (i + 1) (min walkDistance (ni - (i + 1)))).map fun i' => (i', j, k)
def ray3f (i j k : Nat) : List (Nat × Nat × Nat) := (List.range (min walkDistance i)).map fun d => (i - 1 - d, j, k)

theorem walkLists3_eq (i j k : Nat) :
    walkLists3 ni nj nk i j k =
      [(ray3a nk i j k).map fun p => idx3 ni nj p.1 p.2.1 p.2.2, (ray3b i j k).map fun p => idx3 ni nj p.1 p.2.1 p.2.2,
       (ray3c nj i j k).map fun p => idx3 ni nj p.1 p.2.1 p.2.2, (ray3d i j k).map fun p => idx3 ni nj p.1 p.2.1 p.2.2,
       (ray3e ni i j k).map fun p => idx3 ni nj p.1 p.2.1 p.2.2, (ray3f i j k).map fun p => idx3 ni nj p.1 p.2.1 p.2.2] := by
  simp only [walkLists3, ray3a, ray3b, ray3c, ray3d, ray3e, ray3f, List.map_map]
  rfl

/-- an increasing ray along a coordinate line `f` -/
theorem rayFrom3_inc (f : Nat → Nat × Nat × Nat) (hadj : ∀ n, Adj3 (f n) (f (n + 1))) :
    ∀ (n s : Nat), RayFrom3 (f s) ((List.range' (s + 1) n).map f)
  | 0, _ => trivial
  | n + 1, s => by
    rw [List.range'_succ, List.map_cons]
    exact ⟨hadj s, rayFrom3_inc f hadj n (s + 1)⟩

/-- a decreasing ray along a coordinate line `f` -/
theorem rayFrom3_dec (f : Nat → Nat × Nat × Nat) (hadj : ∀ n, Adj3 (f (n + 1)) (f n)) :
    ∀ (n s : Nat), n ≤ s → RayFrom3 (f s) ((List.range n).map fun d => f (s - 1 - d))
  | 0, _, _ => trivial
  | n + 1, s, h => by
    obtain ⟨t, rfl⟩ : ∃ t, s = t + 1 := ⟨s - 1, by omega⟩
    rw [List.range_succ_eq_map, List.map_cons, List.map_map]
    refine ⟨by simpa using hadj t, ?_⟩
    have := rayFrom3_dec f hadj n t (by omega)
    have e : ((fun d => f (t + 1 - 1 - d)) ∘ Nat.succ) = fun d => f (t - 1 - d) := by
      funext d
      show f (t + 1 - 1 - (d + 1)) = f (t - 1 - d)
      congr 1; omega
    rw [e]; exact this

theorem head3_inc (f : Nat → Nat × Nat × Nat) (s : Nat) : ∀ n, 0 < n → ∃ cs, (List.range' (s + 1) n).map f = f (s + 1) :: cs
  | n + 1, _ => ⟨_, by rw [List.range'_succ, List.map_cons]⟩

theorem head3_dec (f : Nat → Nat × Nat × Nat) (t : Nat) :
    ∀ n, 0 < n → ∃ cs, (List.range n).map (fun d => f (t + 1 - 1 - d)) = f t :: cs
  | n + 1, _ => ⟨(List.map Nat.succ (List.range n)).map (fun d => f (t + 1 - 1 - d)), by
      rw [List.range_succ_eq_map, List.map_cons]; simp⟩

theorem min_wd_pos {x : Nat} (h : 0 < x) : 0 < min walkDistance x := by unfold walkDistance; omega

theorem ray3a_inB {i j k : Nat} (hp : InB3 ni nj nk (i, j, k)) : ∀ c ∈ ray3a nk i j k, InB3 ni nj nk c := by
  intro c hc
  simp only [ray3a, List.mem_map, List.mem_range'] at hc
  obtain ⟨k', ⟨d, hd, rfl⟩, rfl⟩ := hc
  exact ⟨hp.1, hp.2.1, by simp only; omega⟩
theorem ray3b_inB {i j k : Nat} (hp : InB3 ni nj nk (i, j, k)) : ∀ c ∈ ray3b i j k, InB3 ni nj nk c := by
  intro c hc
  simp only [ray3b, List.mem_map, List.mem_range] at hc
  obtain ⟨d, hd, rfl⟩ := hc
  exact ⟨hp.1, hp.2.1, by have := hp.2.2; simp only at this ⊢; omega⟩
theorem ray3c_inB {i j k : Nat} (hp : InB3 ni nj nk (i, j, k)) : ∀ c ∈ ray3c nj i j k, InB3 ni nj nk c := by
  intro c hc
  simp only [ray3c, List.mem_map, List.mem_range'] at hc
  obtain ⟨j', ⟨d, hd, rfl⟩, rfl⟩ := hc
  exact ⟨hp.1, by simp only; omega, hp.2.2⟩
theorem ray3d_inB {i j k : Nat} (hp : InB3 ni nj nk (i, j, k)) : ∀ c ∈ ray3d i j k, InB3 ni nj nk c := by
  intro c hc
  simp only [ray3d, List.mem_map, List.mem_range] at hc
  obtain ⟨d, hd, rfl⟩ := hc
  exact ⟨hp.1, by have := hp.2.1; simp only at this ⊢; omega, hp.2.2⟩
theorem ray3e_inB {i j k : Nat} (hp : InB3 ni nj nk (i, j, k)) : ∀ c ∈ ray3e ni i j k, InB3 ni nj nk c := by
  intro c hc
  simp only [ray3e, List.mem_map, List.mem_range'] at hc
  obtain ⟨i', ⟨d, hd, rfl⟩, rfl⟩ := hc
  exact ⟨by simp only; omega, hp.2.1, hp.2.2⟩
theorem ray3f_inB {i j k : Nat} (hp : InB3 ni nj nk (i, j, k)) : ∀ c ∈ ray3f i j k, InB3 ni nj nk c := by
  intro c hc
  simp only [ray3f, List.mem_map, List.mem_range] at hc
  obtain ⟨d, hd, rfl⟩ := hc
  exact ⟨by have := hp.1; simp only at this ⊢; omega, hp.2.1, hp.2.2⟩

/-- every in-grid neighbour of `(i, j, k)` is the first cell of one of the six rays -/
theorem nbr_is_head3 {i j k : Nat} {q : Nat × Nat × Nat} (hq : InB3 ni nj nk q) (ha : Adj3 (i, j, k) q) :
    (∃ cs, ray3a nk i j k = q :: cs) ∨ (∃ cs, ray3b i j k = q :: cs) ∨ (∃ cs, ray3c nj i j k = q :: cs) ∨
    (∃ cs, ray3d i j k = q :: cs) ∨ (∃ cs, ray3e ni i j k = q :: cs) ∨ (∃ cs, ray3f i j k = q :: cs) := by
  obtain ⟨q1, q2, q3⟩ := q
  obtain ⟨h1, h2, h3⟩ := hq
  simp only [Adj3] at ha
  simp only at h1 h2 h3
  rcases ha with ⟨rfl, rfl, (rfl | rfl)⟩ | ⟨rfl, rfl, (rfl | rfl)⟩ | ⟨rfl, rfl, (rfl | rfl)⟩
  · left
    obtain ⟨cs, e⟩ := head3_inc (fun x => (i, j, x)) k _ (min_wd_pos (x := nk - (k + 1)) (by omega))
    exact ⟨cs, e⟩
  · right; left
    obtain ⟨cs, e⟩ := head3_dec (fun x => (i, j, x)) q3 _ (min_wd_pos (x := q3 + 1) (by omega))
    exact ⟨cs, e⟩
  · right; right; left
    obtain ⟨cs, e⟩ := head3_inc (fun x => (i, x, k)) j _ (min_wd_pos (x := nj - (j + 1)) (by omega))
    exact ⟨cs, e⟩
  · right; right; right; left
    obtain ⟨cs, e⟩ := head3_dec (fun x => (i, x, k)) q2 _ (min_wd_pos (x := q2 + 1) (by omega))
    exact ⟨cs, e⟩
  · right; right; right; right; left
    obtain ⟨cs, e⟩ := head3_inc (fun x => (x, j, k)) i _ (min_wd_pos (x := ni - (i + 1)) (by omega))
    exact ⟨cs, e⟩
  · right; right; right; right; right
    obtain ⟨cs, e⟩ := head3_dec (fun x => (x, j, k)) q1 _ (min_wd_pos (x := q1 + 1) (by omega))
    exact ⟨cs, e⟩
end

section
variable (ni nj nk : Nat) (S : Nat × Nat × Nat → Prop)

/-- the six walks from a reached cell `p`: invariant kept, only `undef → outWalk`, all neighbours of `p` looked at -/
theorem walks3_inv {g : Array VV} {p : Nat × Nat × Nat} (h : FInv3 ni nj nk S g) (hp : InB3 ni nj nk p)
    (hv : getC3 ni nj g p = .outside) :
    FInv3 ni nj nk S (walks3 ni nj nk .outWalk .surf g p) ∧ Frame3 ni nj nk g (walks3 ni nj nk .outWalk .surf g p) ∧
    (∀ q, InB3 ni nj nk q → Adj3 p q → getC3 ni nj (walks3 ni nj nk .outWalk .surf g p) q ≠ .undef) := by
  obtain ⟨i, j, k⟩ := p
  have hne : getC3 ni nj g (i, j, k) ≠ .undef := by rw [hv]; intro x; cases x
  unfold walks3
  rw [walkLists3_eq]
  simp only [List.foldl_cons, List.foldl_nil]
  obtain ⟨a1, a2, a3⟩ := walk_ray3 ni nj nk S (ray3a nk i j k) (i, j, k) g h hp (Or.inr hv)
    (by unfold ray3a; exact rayFrom3_inc (fun x => (i, j, x)) (fun n => Or.inl ⟨rfl, rfl, Or.inl rfl⟩) _ k)
    (ray3a_inB ni nj nk hp)
  set g1 := walkCells .outWalk .surf g ((ray3a nk i j k).map fun p => idx3 ni nj p.1 p.2.1 p.2.2) with hg1
  have hv1 : getC3 ni nj g1 (i, j, k) = .outside := by rw [a2.keep ni nj nk hp hne]; exact hv
  have hne1 : getC3 ni nj g1 (i, j, k) ≠ .undef := by rw [hv1]; intro x; cases x
  obtain ⟨b1, b2, b3⟩ := walk_ray3 ni nj nk S (ray3b i j k) (i, j, k) g1 a1 hp (Or.inr hv1)
    (by unfold ray3b; exact rayFrom3_dec (fun x => (i, j, x)) (fun n => Or.inl ⟨rfl, rfl, Or.inr rfl⟩) _ k (Nat.min_le_right _ _))
    (ray3b_inB ni nj nk hp)
  set g2 := walkCells .outWalk .surf g1 ((ray3b i j k).map fun p => idx3 ni nj p.1 p.2.1 p.2.2) with hg2
  have hv2 : getC3 ni nj g2 (i, j, k) = .outside := by rw [b2.keep ni nj nk hp hne1]; exact hv1
  have hne2 : getC3 ni nj g2 (i, j, k) ≠ .undef := by rw [hv2]; intro x; cases x
  obtain ⟨c1, c2, c3⟩ := walk_ray3 ni nj nk S (ray3c nj i j k) (i, j, k) g2 b1 hp (Or.inr hv2)
    (by unfold ray3c; exact rayFrom3_inc (fun x => (i, x, k)) (fun n => Or.inr (Or.inl ⟨rfl, rfl, Or.inl rfl⟩)) _ j)
    (ray3c_inB ni nj nk hp)
  set g3 := walkCells .outWalk .surf g2 ((ray3c nj i j k).map fun p => idx3 ni nj p.1 p.2.1 p.2.2) with hg3
  have hv3 : getC3 ni nj g3 (i, j, k) = .outside := by rw [c2.keep ni nj nk hp hne2]; exact hv2
  have hne3 : getC3 ni nj g3 (i, j, k) ≠ .undef := by rw [hv3]; intro x; cases x
  obtain ⟨d1, d2, d3⟩ := walk_ray3 ni nj nk S (ray3d i j k) (i, j, k) g3 c1 hp (Or.inr hv3)
    (by unfold ray3d; exact rayFrom3_dec (fun x => (i, x, k)) (fun n => Or.inr (Or.inl ⟨rfl, rfl, Or.inr rfl⟩)) _ j (Nat.min_le_right _ _))
    (ray3d_inB ni nj nk hp)
  set g4 := walkCells .outWalk .surf g3 ((ray3d i j k).map fun p => idx3 ni nj p.1 p.2.1 p.2.2) with hg4
  have hv4 : getC3 ni nj g4 (i, j, k) = .outside := by rw [d2.keep ni nj nk hp hne3]; exact hv3
  have hne4 : getC3 ni nj g4 (i, j, k) ≠ .undef := by rw [hv4]; intro x; cases x
  obtain ⟨e1, e2, e3⟩ := walk_ray3 ni nj nk S (ray3e ni i j k) (i, j, k) g4 d1 hp (Or.inr hv4)
    (by unfold ray3e; exact rayFrom3_inc (fun x => (x, j, k)) (fun n => Or.inr (Or.inr ⟨rfl, rfl, Or.inl rfl⟩)) _ i)
    (ray3e_inB ni nj nk hp)
  set g5 := walkCells .outWalk .surf g4 ((ray3e ni i j k).map fun p => idx3 ni nj p.1 p.2.1 p.2.2) with hg5
  have hv5 : getC3 ni nj g5 (i, j, k) = .outside := by rw [e2.keep ni nj nk hp hne4]; exact hv4
  obtain ⟨f1, f2, f3⟩ := walk_ray3 ni nj nk S (ray3f i j k) (i, j, k) g5 e1 hp (Or.inr hv5)
    (by unfold ray3f; exact rayFrom3_dec (fun x => (x, j, k)) (fun n => Or.inr (Or.inr ⟨rfl, rfl, Or.inr rfl⟩)) _ i (Nat.min_le_right _ _))
    (ray3f_inB ni nj nk hp)
  set g6 := walkCells .outWalk .surf g5 ((ray3f i j k).map fun p => idx3 ni nj p.1 p.2.1 p.2.2) with hg6
  refine ⟨f1, ((((a2.trans ni nj nk b2).trans ni nj nk c2).trans ni nj nk d2).trans ni nj nk e2).trans ni nj nk f2, ?_⟩
  intro q hq hadj
  rcases nbr_is_head3 ni nj nk hq hadj with ⟨cs, e⟩ | ⟨cs, e⟩ | ⟨cs, e⟩ | ⟨cs, e⟩ | ⟨cs, e⟩ | ⟨cs, e⟩
  · exact ((((b2.trans ni nj nk c2).trans ni nj nk d2).trans ni nj nk e2).trans ni nj nk f2).ne_undef ni nj nk hq (a3 q cs e)
  · exact (((c2.trans ni nj nk d2).trans ni nj nk e2).trans ni nj nk f2).ne_undef ni nj nk hq (b3 q cs e)
  · exact ((d2.trans ni nj nk e2).trans ni nj nk f2).ne_undef ni nj nk hq (c3 q cs e)
  · exact (e2.trans ni nj nk f2).ne_undef ni nj nk hq (d3 q cs e)
  · exact f2.ne_undef ni nj nk hq (e3 q cs e)
  · exact f3 q cs e

theorem propCell3_eq (toWalk toSet : VV) (surfWalk : Option VV) (sSet : VV) (st : PSt) (p : Nat × Nat × Nat) :
    propCell3 ni nj nk toWalk toSet surfWalk sSet st p =
      if getC3 ni nj st.g p = toWalk then ⟨walks3 ni nj nk toWalk sSet (setC3 ni nj st.g p toSet) p, st.walked + 1, true⟩
      else if some (getC3 ni nj st.g p) ≠ surfWalk then st
      else ⟨walks3 ni nj nk toWalk sSet st.g p, st.walked, st.once⟩ := rfl

/-- body of the `propagate_values` loop (outside pass of the plain flood fill) keeps the invariant -/
theorem propCell3_inv {st : PSt} {p : Nat × Nat × Nat} (h : FInv3 ni nj nk S st.g) (hc : Closed3 ni nj nk st.g)
    (hp : InB3 ni nj nk p) :
    FInv3 ni nj nk S (propCell3 ni nj nk .outWalk .outside none .surf st p).g ∧
    Closed3 ni nj nk (propCell3 ni nj nk .outWalk .outside none .surf st p).g := by
  rw [propCell3_eq]
  by_cases hv : getC3 ni nj st.g p = .outWalk
  · rw [if_pos hv]
    simp only []
    have hnS : ¬ S p := fun hS => by have := (h.surf p hp).mpr hS; rw [hv] at this; cases this
    have hg1 : ∀ q, InB3 ni nj nk q →
        getC3 ni nj (setC3 ni nj st.g p .outside) q = if p = q then .outside else getC3 ni nj st.g q :=
      fun q hq => getC3_setC3' ni nj nk h.size .outside hp hq
    have inv1 : FInv3 ni nj nk S (setC3 ni nj st.g p .outside) := by
      refine ⟨by rw [size_setC3]; exact h.size, ?_, ?_, ?_, ?_⟩
      · intro q hq; rw [hg1 q hq]; split_ifs with e
        · right; right; left; rfl
        · exact h.vals q hq
      · intro q hq; rw [hg1 q hq]; split_ifs with e
        · subst e; constructor
          · intro x; cases x
          · intro x; exact absurd x hnS
        · exact h.surf q hq
      · intro q hq; rw [hg1 q hq]; split_ifs with e
        · subst e; intro _; exact h.sound p hp (Or.inl hv)
        · exact h.sound q hq
      · intro q hq hb; rw [hg1 q hq]; split_ifs with e
        · intro x; cases x
        · exact h.border q hq hb
    have hvp : getC3 ni nj (setC3 ni nj st.g p .outside) p = .outside := by rw [hg1 p hp, if_pos rfl]
    obtain ⟨w1, w2, w3⟩ := walks3_inv ni nj nk S inv1 hp hvp
    refine ⟨w1, ?_⟩
    intro a b ha hb hab hva
    rw [w2.outside_iff ni nj nk ha, hg1 a ha] at hva
    by_cases e : p = a
    · subst e; exact w3 b hb hab
    · rw [if_neg e] at hva
      have := hc a b ha hb hab hva
      apply w2.ne_undef ni nj nk hb
      rw [hg1 b hb]; split_ifs with e2
      · intro x; cases x
      · exact this
  · rw [if_neg hv, if_pos (by simp)]
    exact ⟨h, hc⟩

theorem mem_cellsIn3_inB {p : Nat × Nat × Nat} (hp : p ∈ cellsIn3 0 0 0 ni nj nk) : InB3 ni nj nk p := by
  have := mem_cellsIn3.mp hp
  exact ⟨this.1.2, this.2.1.2, this.2.2.2⟩

/-- one sweep keeps the invariant -/
theorem sweep3_inv {g : Array VV} (once : Bool) (h : FInv3 ni nj nk S g) (hc : Closed3 ni nj nk g) :
    FInv3 ni nj nk S (sweep3 ni nj nk .outWalk .outside none .surf g once).g ∧
    Closed3 ni nj nk (sweep3 ni nj nk .outWalk .outside none .surf g once).g := by
  unfold sweep3
  apply foldl_inv (fun st : PSt => FInv3 ni nj nk S st.g ∧ Closed3 ni nj nk st.g)
  · intro st p hp hst
    exact propCell3_inv ni nj nk S hst.1 hst.2 (mem_cellsIn3_inB ni nj nk hp)
  · exact ⟨h, hc⟩

/-- a sweep that walked nothing changed nothing, and there was nothing left to walk -/
theorem foldl3_zero : ∀ (l : List (Nat × Nat × Nat)) (st : PSt),
    st.walked ≤ (l.foldl (propCell3 ni nj nk .outWalk .outside none .surf) st).walked ∧
    ((l.foldl (propCell3 ni nj nk .outWalk .outside none .surf) st).walked = st.walked →
      (l.foldl (propCell3 ni nj nk .outWalk .outside none .surf) st).g = st.g ∧ ∀ p ∈ l, getC3 ni nj st.g p ≠ .outWalk)
  | [], st => ⟨le_refl _, fun _ => ⟨rfl, fun p hp => by cases hp⟩⟩
  | p :: l, st => by
    rw [List.foldl_cons]
    obtain ⟨ih1, ih2⟩ := foldl3_zero l (propCell3 ni nj nk .outWalk .outside none .surf st p)
    rw [propCell3_eq] at ih1 ih2 ⊢
    by_cases hv : getC3 ni nj st.g p = .outWalk
    · rw [if_pos hv] at ih1 ih2 ⊢
      simp only [] at ih1 ih2 ⊢
      exact ⟨by omega, fun e => by omega⟩
    · rw [if_neg hv, if_pos (by simp)] at ih1 ih2 ⊢
      refine ⟨ih1, fun e => ?_⟩
      obtain ⟨e1, e2⟩ := ih2 e
      refine ⟨e1, ?_⟩
      intro q hq
      rcases List.mem_cons.mp hq with rfl | hq
      · exact hv
      · exact e2 q hq

theorem sweep3_zero {g : Array VV} (once : Bool) (hw : (sweep3 ni nj nk .outWalk .outside none .surf g once).walked = 0) :
    (sweep3 ni nj nk .outWalk .outside none .surf g once).g = g ∧ ∀ p, InB3 ni nj nk p → getC3 ni nj g p ≠ .outWalk := by
  unfold sweep3 at hw ⊢
  obtain ⟨_, h2⟩ := foldl3_zero ni nj nk (cellsIn3 0 0 0 ni nj nk) ⟨g, 0, once⟩
  obtain ⟨e1, e2⟩ := h2 hw
  exact ⟨e1, fun p hp => e2 p (mem_cellsIn3.mpr
    ⟨⟨Nat.zero_le _, hp.1⟩, ⟨Nat.zero_le _, hp.2.1⟩, ⟨Nat.zero_le _, hp.2.2⟩⟩)⟩

/-- `propagate_values` (outside pass of the plain flood fill): if it returns (fuel not exhausted), the invariant holds
and no `outWalk` cell is left -/
theorem propagate3_inv : ∀ (fuel : Nat) (g : Array VV) (once : Bool), FInv3 ni nj nk S g → Closed3 ni nj nk g →
    (propagate3 ni nj nk .outWalk .outside none .surf fuel g once).2.2 = true →
    FInv3 ni nj nk S (propagate3 ni nj nk .outWalk .outside none .surf fuel g once).1 ∧
    Closed3 ni nj nk (propagate3 ni nj nk .outWalk .outside none .surf fuel g once).1 ∧
    ∀ p, InB3 ni nj nk p → getC3 ni nj (propagate3 ni nj nk .outWalk .outside none .surf fuel g once).1 p ≠ .outWalk
  | 0, g, once, _, _, hok => by simp [propagate3] at hok
  | fuel + 1, g, once, h, hc, hok => by
    unfold propagate3 at hok ⊢
    simp only [] at hok ⊢
    by_cases hw : (sweep3 ni nj nk .outWalk .outside none .surf g once).walked = 0
    · rw [if_pos hw] at hok ⊢
      obtain ⟨e1, e2⟩ := sweep3_zero ni nj nk once hw
      simp only []
      rw [e1]
      exact ⟨h, hc, e2⟩
    · rw [if_neg hw] at hok ⊢
      obtain ⟨s1, s2⟩ := sweep3_inv ni nj nk S once h hc
      exact propagate3_inv fuel _ _ s1 s2 hok

/-- **the fixpoint is the specification**: once the propagation has stopped, `outside` = reachable -/
theorem fixpoint_spec3 {g : Array VV} (h : FInv3 ni nj nk S g) (hc : Closed3 ni nj nk g)
    (hno : ∀ p, InB3 ni nj nk p → getC3 ni nj g p ≠ .outWalk) (p : Nat × Nat × Nat) (hp : InB3 ni nj nk p) :
    getC3 ni nj g p = .outside ↔ Reach3 ni nj nk S p := by
  constructor
  · intro hv; exact h.sound p hp (Or.inr hv)
  · intro hr
    induction hr with
    | border hb hbd hs =>
      rcases h.vals _ hb with v | v | v | v
      · exact absurd v (h.border _ hb hbd)
      · exact absurd v (hno _ hb)
      · exact v
      · exact absurd ((h.surf _ hb).mp v) hs
    | step hr' hadj hq hs ih =>
      rename_i a b
      have hain : InB3 ni nj nk a := by
        cases hr' with
        | border x _ _ => exact x
        | step _ _ x _ => exact x
      rcases h.vals _ hq with v | v | v | v
      · exact absurd v (hc a b hain hq hadj (ih hain))
      · exact absurd v (hno _ hq)
      · exact v
      · exact absurd ((h.surf _ hq).mp v) hs
end

/-! ### fuel -/

theorem cnt_walks3 (ni nj nk : Nat) (w u sv : VV) (hu : w ≠ u) (hs : w ≠ sv) (h0 : w ≠ .undef) (h8 : w ≠ .surf)
    (g : Array VV) (p : Nat × Nat × Nat) :
    cnt w (walks3 ni nj nk u sv g p) = cnt w g ∧ (walks3 ni nj nk u sv g p).size = g.size := by
  unfold walks3
  generalize walkLists3 ni nj nk p.1 p.2.1 p.2.2 = ls
  induction ls generalizing g with
  | nil => exact ⟨rfl, rfl⟩
  | cons l ls ih =>
    rw [List.foldl_cons]
    obtain ⟨a1, a2⟩ := cnt_walkCells w u sv hu hs h0 h8 l g
    obtain ⟨b1, b2⟩ := ih (walkCells u sv g l)
    exact ⟨by rw [b1, a1], by rw [b2, a2]⟩

section
variable (ni nj nk : Nat) (toWalk toSet : VV) (surfWalk : Option VV) (sSet : VV)

/-- the loop body of `propagate_values` adds exactly one `toSet` cell per walked voxel -/
theorem cnt_propCell3 (h1 : toSet ≠ toWalk) (h2 : toSet ≠ sSet) (h0 : toSet ≠ .undef) (h8 : toSet ≠ .surf)
    (st : PSt) (p : Nat × Nat × Nat) (hp : idx3 ni nj p.1 p.2.1 p.2.2 < st.g.size) :
    cnt toSet (propCell3 ni nj nk toWalk toSet surfWalk sSet st p).g + st.walked
        = cnt toSet st.g + (propCell3 ni nj nk toWalk toSet surfWalk sSet st p).walked ∧
    (propCell3 ni nj nk toWalk toSet surfWalk sSet st p).g.size = st.g.size := by
  unfold propCell3
  simp only []
  by_cases hv : st.g.getD (idx3 ni nj p.1 p.2.1 p.2.2) .undef = toWalk
  · rw [if_pos hv]
    simp only []
    obtain ⟨a1, a2⟩ := cnt_walks3 ni nj nk toSet toWalk sSet h1 h2 h0 h8 (st.g.setIfInBounds (idx3 ni nj p.1 p.2.1 p.2.2) toSet) p
    have := cnt_set toSet toSet st.g _ hp
    rw [hv, if_neg (Ne.symm h1), if_pos rfl] at this
    exact ⟨by omega, by rw [a2]; simp⟩
  · rw [if_neg hv]
    by_cases hs : some (st.g.getD (idx3 ni nj p.1 p.2.1 p.2.2) .undef) ≠ surfWalk
    · rw [if_pos hs]; exact ⟨rfl, rfl⟩
    · rw [if_neg hs]
      simp only []
      obtain ⟨a1, a2⟩ := cnt_walks3 ni nj nk toSet toWalk sSet h1 h2 h0 h8 st.g p
      exact ⟨by omega, a2⟩

theorem cnt_foldl3 (h1 : toSet ≠ toWalk) (h2 : toSet ≠ sSet) (h0 : toSet ≠ .undef) (h8 : toSet ≠ .surf) :
    ∀ (l : List (Nat × Nat × Nat)) (st : PSt), st.g.size = ni * nj * nk → (∀ p ∈ l, InB3 ni nj nk p) →
    cnt toSet (l.foldl (propCell3 ni nj nk toWalk toSet surfWalk sSet) st).g + st.walked
        = cnt toSet st.g + (l.foldl (propCell3 ni nj nk toWalk toSet surfWalk sSet) st).walked ∧
    (l.foldl (propCell3 ni nj nk toWalk toSet surfWalk sSet) st).g.size = ni * nj * nk
  | [], st, hs, _ => ⟨rfl, hs⟩
  | p :: l, st, hs, hl => by
    rw [List.foldl_cons]
    have hp := hl p List.mem_cons_self
    obtain ⟨a1, a2⟩ := cnt_propCell3 ni nj nk toWalk toSet surfWalk sSet h1 h2 h0 h8 st p
      (by rw [hs]; exact idx3_lt hp.1 hp.2.1 hp.2.2)
    obtain ⟨b1, b2⟩ := cnt_foldl3 h1 h2 h0 h8 l (propCell3 ni nj nk toWalk toSet surfWalk sSet st p) (by rw [a2]; exact hs)
      (fun q hq => hl q (List.mem_cons_of_mem _ hq))
    exact ⟨by omega, b2⟩

theorem cnt_sweep3 (h1 : toSet ≠ toWalk) (h2 : toSet ≠ sSet) (h0 : toSet ≠ .undef) (h8 : toSet ≠ .surf)
    (g : Array VV) (once : Bool) (hs : g.size = ni * nj * nk) :
    cnt toSet (sweep3 ni nj nk toWalk toSet surfWalk sSet g once).g
        = cnt toSet g + (sweep3 ni nj nk toWalk toSet surfWalk sSet g once).walked ∧
    (sweep3 ni nj nk toWalk toSet surfWalk sSet g once).g.size = ni * nj * nk := by
  unfold sweep3
  obtain ⟨a1, a2⟩ := cnt_foldl3 ni nj nk toWalk toSet surfWalk sSet h1 h2 h0 h8 (cellsIn3 0 0 0 ni nj nk) ⟨g, 0, once⟩ hs
    (fun p hp => mem_cellsIn3_inB ni nj nk hp)
  exact ⟨by simpa using a1, a2⟩

/-- **the fuel of `propagate_values` suffices** (3-D): every sweep that walks a voxel creates a `toSet` cell that is
never overwritten, so there are at most `#cells` such sweeps -/
theorem propagate3_fuel (h1 : toSet ≠ toWalk) (h2 : toSet ≠ sSet) (h0 : toSet ≠ .undef) (h8 : toSet ≠ .surf) :
    ∀ (fuel : Nat) (g : Array VV) (once : Bool), g.size = ni * nj * nk → g.size - cnt toSet g < fuel →
    (propagate3 ni nj nk toWalk toSet surfWalk sSet fuel g once).2.2 = true ∧
    (propagate3 ni nj nk toWalk toSet surfWalk sSet fuel g once).1.size = ni * nj * nk
  | 0, g, once, _, hf => by omega
  | fuel + 1, g, once, hs, hf => by
    unfold propagate3
    simp only []
    obtain ⟨a1, a2⟩ := cnt_sweep3 ni nj nk toWalk toSet surfWalk sSet h1 h2 h0 h8 g once hs
    by_cases hw : (sweep3 ni nj nk toWalk toSet surfWalk sSet g once).walked = 0
    · rw [if_pos hw]; exact ⟨rfl, a2⟩
    · rw [if_neg hw]
      have hle := cnt_le toSet (sweep3 ni nj nk toWalk toSet surfWalk sSet g once).g
      exact propagate3_fuel h1 h2 h0 h8 fuel _ _ a2 (by rw [a2] at hle ⊢; rw [hs] at hf; omega)
end

/-- value of `(g.map f)` at an in-grid cell -/
theorem getC3_map (ni nj nk : Nat) (g : Array VV) (f : VV → VV) (hs : g.size = ni * nj * nk) (p : Nat × Nat × Nat)
    (hp : InB3 ni nj nk p) : getC3 ni nj (g.map f) p = f (getC3 ni nj g p) := by
  unfold getC3
  have h := idx3_lt hp.1 hp.2.1 hp.2.2
  rw [Array.getD_eq_getD_getElem?, Array.getD_eq_getD_getElem?, Array.getElem?_map]
  have : g[idx3 ni nj p.1 p.2.1 p.2.2]? = some (g[idx3 ni nj p.1 p.2.1 p.2.2]'(by rw [hs]; exact h)) := by
    simp [hs, h]
  rw [this]; rfl

/-! ### `detect_cavities`: the class of surface cells is invariant; fuel of the alternation -/

theorem sc_walks3 (ni nj nk : Nat) (u sv : VV) (hu : isSC u = false) (hs : isSC sv = true) (g : Array VV) (p : Nat × Nat × Nat) :
    SameClass g (walks3 ni nj nk u sv g p) := by
  unfold walks3
  generalize walkLists3 ni nj nk p.1 p.2.1 p.2.2 = ls
  induction ls generalizing g with
  | nil => exact SameClass.refl g
  | cons l ls ih => rw [List.foldl_cons]; exact (sc_walkCells u sv hu hs l g).trans (ih _)

theorem sc_propCell3 (ni nj nk : Nat) (toWalk toSet : VV) (surfWalk : Option VV) (sSet : VV)
    (h1 : isSC toWalk = false) (h2 : isSC toSet = false) (h3 : isSC sSet = true) (st : PSt) (p : Nat × Nat × Nat) :
    SameClass st.g (propCell3 ni nj nk toWalk toSet surfWalk sSet st p).g := by
  unfold propCell3
  simp only []
  by_cases hv : st.g.getD (idx3 ni nj p.1 p.2.1 p.2.2) .undef = toWalk
  · rw [if_pos hv]
    exact (sc_set st.g _ toSet (by rw [h2, hv, h1])).trans (sc_walks3 ni nj nk toWalk sSet h1 h3 _ p)
  · rw [if_neg hv]
    by_cases hs : some (st.g.getD (idx3 ni nj p.1 p.2.1 p.2.2) .undef) ≠ surfWalk
    · rw [if_pos hs]; exact SameClass.refl _
    · rw [if_neg hs]; exact sc_walks3 ni nj nk toWalk sSet h1 h3 _ p

theorem sc_sweep3 (ni nj nk : Nat) (toWalk toSet : VV) (surfWalk : Option VV) (sSet : VV)
    (h1 : isSC toWalk = false) (h2 : isSC toSet = false) (h3 : isSC sSet = true) (g : Array VV) (once : Bool) :
    SameClass g (sweep3 ni nj nk toWalk toSet surfWalk sSet g once).g := by
  unfold sweep3
  generalize cellsIn3 0 0 0 ni nj nk = l
  have gen : ∀ (l : List (Nat × Nat × Nat)) (st : PSt), SameClass st.g (l.foldl (propCell3 ni nj nk toWalk toSet surfWalk sSet) st).g := by
    intro l
    induction l with
    | nil => intro st; exact SameClass.refl _
    | cons p l ih => intro st; rw [List.foldl_cons]; exact (sc_propCell3 ni nj nk toWalk toSet surfWalk sSet h1 h2 h3 st p).trans (ih _)
  exact gen l ⟨g, 0, once⟩

theorem sc_propagate3 (ni nj nk : Nat) (toWalk toSet : VV) (surfWalk : Option VV) (sSet : VV)
    (h1 : isSC toWalk = false) (h2 : isSC toSet = false) (h3 : isSC sSet = true) :
    ∀ (fuel : Nat) (g : Array VV) (once : Bool), SameClass g (propagate3 ni nj nk toWalk toSet surfWalk sSet fuel g once).1
  | 0, g, _ => SameClass.refl g
  | fuel + 1, g, once => by
    unfold propagate3
    simp only []
    split_ifs
    · exact sc_sweep3 ni nj nk toWalk toSet surfWalk sSet h1 h2 h3 g once
    · exact (sc_sweep3 ni nj nk toWalk toSet surfWalk sSet h1 h2 h3 g once).trans (sc_propagate3 ni nj nk toWalk toSet surfWalk sSet h1 h2 h3 fuel _ _)

theorem sc_cavityLoop3 (ni nj nk : Nat) : ∀ (fuel : Nat) (g : Array VV), SameClass g (cavityLoop3 ni nj nk fuel g).1
  | 0, g => SameClass.refl g
  | fuel + 1, g => by
    unfold cavityLoop3
    simp only []
    have a := sc_propagate3 ni nj nk .inWalk .inside (some .surfWalk1) .surfWalk2 rfl rfl rfl (ni * nj * nk + 1) g false
    split_ifs
    · exact a
    · exact a
    · exact a.trans (sc_propagate3 ni nj nk .outWalk .outside (some .surfWalk2) .surfWalk1 rfl rfl rfl (ni * nj * nk + 1) _ false)
    · exact a.trans (sc_propagate3 ni nj nk .outWalk .outside (some .surfWalk2) .surfWalk1 rfl rfl rfl (ni * nj * nk + 1) _ false)
    · exact (a.trans (sc_propagate3 ni nj nk .outWalk .outside (some .surfWalk2) .surfWalk1 rfl rfl rfl (ni * nj * nk + 1) _ false)).trans
        (sc_cavityLoop3 ni nj nk fuel _)

theorem size_walks3 (ni nj nk : Nat) (u sv : VV) (g : Array VV) (p : Nat × Nat × Nat) : (walks3 ni nj nk u sv g p).size = g.size := by
  unfold walks3
  generalize walkLists3 ni nj nk p.1 p.2.1 p.2.2 = ls
  induction ls generalizing g with
  | nil => rfl
  | cons l ls ih => rw [List.foldl_cons, ih, size_walkCells]

section
variable (ni nj nk : Nat) (toWalk toSet : VV) (surfWalk : Option VV) (sSet : VV)

/-- a value the pass neither reads nor writes keeps its number of cells -/
theorem cnt_propCell3_other (w : VV) (hw1 : w ≠ toWalk) (hw2 : w ≠ toSet) (hw3 : w ≠ sSet) (hw0 : w ≠ .undef) (hw8 : w ≠ .surf)
    (st : PSt) (p : Nat × Nat × Nat) (hp : idx3 ni nj p.1 p.2.1 p.2.2 < st.g.size) :
    cnt w (propCell3 ni nj nk toWalk toSet surfWalk sSet st p).g = cnt w st.g := by
  unfold propCell3
  simp only []
  by_cases hv : st.g.getD (idx3 ni nj p.1 p.2.1 p.2.2) .undef = toWalk
  · rw [if_pos hv]
    simp only []
    obtain ⟨a1, _⟩ := cnt_walks3 ni nj nk w toWalk sSet hw1 hw3 hw0 hw8 (st.g.setIfInBounds (idx3 ni nj p.1 p.2.1 p.2.2) toSet) p
    have := cnt_set w toSet st.g _ hp
    rw [hv, if_neg (Ne.symm hw1), if_neg (Ne.symm hw2)] at this
    omega
  · rw [if_neg hv]
    by_cases hs : some (st.g.getD (idx3 ni nj p.1 p.2.1 p.2.2) .undef) ≠ surfWalk
    · rw [if_pos hs]
    · rw [if_neg hs]
      simp only []
      exact (cnt_walks3 ni nj nk w toWalk sSet hw1 hw3 hw0 hw8 st.g p).1

theorem propCell3_size (st : PSt) (p : Nat × Nat × Nat) :
    (propCell3 ni nj nk toWalk toSet surfWalk sSet st p).g.size = st.g.size := by
  unfold propCell3
  simp only []
  split_ifs
  · simp only []
    rw [(size_walks3 ni nj nk toWalk sSet _ p)]; simp
  · rfl
  · exact size_walks3 ni nj nk toWalk sSet _ p

theorem cnt_foldl3_other (w : VV) (hw1 : w ≠ toWalk) (hw2 : w ≠ toSet) (hw3 : w ≠ sSet) (hw0 : w ≠ .undef) (hw8 : w ≠ .surf) :
    ∀ (l : List (Nat × Nat × Nat)) (st : PSt), st.g.size = ni * nj * nk → (∀ p ∈ l, InB3 ni nj nk p) →
    cnt w (l.foldl (propCell3 ni nj nk toWalk toSet surfWalk sSet) st).g = cnt w st.g
  | [], _, _, _ => rfl
  | p :: l, st, hs, hl => by
    rw [List.foldl_cons]
    have hp := hl p List.mem_cons_self
    rw [cnt_foldl3_other w hw1 hw2 hw3 hw0 hw8 l _ (by rw [propCell3_size]; exact hs) (fun q hq => hl q (List.mem_cons_of_mem _ hq))]
    exact cnt_propCell3_other ni nj nk toWalk toSet surfWalk sSet w hw1 hw2 hw3 hw0 hw8 st p (by rw [hs]; exact idx3_lt hp.1 hp.2.1 hp.2.2)

theorem cnt_sweep3_other (w : VV) (hw1 : w ≠ toWalk) (hw2 : w ≠ toSet) (hw3 : w ≠ sSet) (hw0 : w ≠ .undef) (hw8 : w ≠ .surf)
    (g : Array VV) (once : Bool) (hs : g.size = ni * nj * nk) :
    cnt w (sweep3 ni nj nk toWalk toSet surfWalk sSet g once).g = cnt w g := by
  unfold sweep3
  exact cnt_foldl3_other ni nj nk toWalk toSet surfWalk sSet w hw1 hw2 hw3 hw0 hw8 (cellsIn3 0 0 0 ni nj nk) ⟨g, 0, once⟩ hs
    (fun p hp => mem_cellsIn3_inB ni nj nk hp)

theorem propCell3_walked_mono (st : PSt) (p : Nat × Nat × Nat) :
    st.walked ≤ (propCell3 ni nj nk toWalk toSet surfWalk sSet st p).walked := by
  unfold propCell3; simp only []; split_ifs <;> simp

theorem propCell3_once (st : PSt) (p : Nat × Nat × Nat) (h : (propCell3 ni nj nk toWalk toSet surfWalk sSet st p).once = true) :
    st.once = true ∨ st.walked < (propCell3 ni nj nk toWalk toSet surfWalk sSet st p).walked := by
  unfold propCell3 at h ⊢
  simp only [] at h ⊢
  split_ifs at h ⊢
  · right; simp
  · left; exact h
  · left; exact h

theorem foldl3_walked_mono : ∀ (l : List (Nat × Nat × Nat)) (st : PSt),
    st.walked ≤ (l.foldl (propCell3 ni nj nk toWalk toSet surfWalk sSet) st).walked
  | [], _ => le_refl _
  | p :: l, st => by
    rw [List.foldl_cons]
    exact le_trans (propCell3_walked_mono ni nj nk toWalk toSet surfWalk sSet st p) (foldl3_walked_mono l _)

/-- `walked_at_least_once` can only become true in a sweep that walked a voxel -/
theorem foldl3_once : ∀ (l : List (Nat × Nat × Nat)) (st : PSt),
    (l.foldl (propCell3 ni nj nk toWalk toSet surfWalk sSet) st).once = true →
      st.once = true ∨ st.walked < (l.foldl (propCell3 ni nj nk toWalk toSet surfWalk sSet) st).walked
  | [], st, h => Or.inl h
  | p :: l, st, h => by
    rw [List.foldl_cons] at h ⊢
    rcases foldl3_once l _ h with h1 | h1
    · rcases propCell3_once ni nj nk toWalk toSet surfWalk sSet st p h1 with h2 | h2
      · left; exact h2
      · right; exact lt_of_lt_of_le h2 (foldl3_walked_mono ni nj nk toWalk toSet surfWalk sSet l _)
    · right; exact lt_of_le_of_lt (propCell3_walked_mono ni nj nk toWalk toSet surfWalk sSet st p) h1

/-- `propagate_values`: a value the pass neither reads nor writes keeps its count; the count of `toSet` never decreases and
increases if the pass reports `walked_at_least_once` -/
theorem propagate3_counts (h1 : toSet ≠ toWalk) (h2 : toSet ≠ sSet) (h0 : toSet ≠ .undef) (h8 : toSet ≠ .surf)
    (w : VV) (hw1 : w ≠ toWalk) (hw2 : w ≠ toSet) (hw3 : w ≠ sSet) (hw0 : w ≠ .undef) (hw8 : w ≠ .surf) :
    ∀ (fuel : Nat) (g : Array VV) (once : Bool), g.size = ni * nj * nk →
    cnt w (propagate3 ni nj nk toWalk toSet surfWalk sSet fuel g once).1 = cnt w g ∧
    cnt toSet g ≤ cnt toSet (propagate3 ni nj nk toWalk toSet surfWalk sSet fuel g once).1 ∧
    ((propagate3 ni nj nk toWalk toSet surfWalk sSet fuel g once).2.1 = true → once = true ∨
      cnt toSet g < cnt toSet (propagate3 ni nj nk toWalk toSet surfWalk sSet fuel g once).1)
  | 0, g, once, _ => ⟨rfl, le_refl _, fun h => Or.inl h⟩
  | fuel + 1, g, once, hs => by
    unfold propagate3
    simp only []
    obtain ⟨a1, a2⟩ := cnt_sweep3 ni nj nk toWalk toSet surfWalk sSet h1 h2 h0 h8 g once hs
    have a3 := cnt_sweep3_other ni nj nk toWalk toSet surfWalk sSet w hw1 hw2 hw3 hw0 hw8 g once hs
    have a4 : (sweep3 ni nj nk toWalk toSet surfWalk sSet g once).once = true → once = true ∨
        0 < (sweep3 ni nj nk toWalk toSet surfWalk sSet g once).walked := by
      intro h; unfold sweep3 at h ⊢
      exact foldl3_once ni nj nk toWalk toSet surfWalk sSet (cellsIn3 0 0 0 ni nj nk) ⟨g, 0, once⟩ h
    by_cases hw : (sweep3 ni nj nk toWalk toSet surfWalk sSet g once).walked = 0
    · rw [if_pos hw]
      simp only []
      refine ⟨a3, by omega, fun h => ?_⟩
      rcases a4 h with x | x
      · exact Or.inl x
      · omega
    · rw [if_neg hw]
      obtain ⟨b1, b2, b3⟩ := propagate3_counts h1 h2 h0 h8 w hw1 hw2 hw3 hw0 hw8 fuel
        (sweep3 ni nj nk toWalk toSet surfWalk sSet g once).g (sweep3 ni nj nk toWalk toSet surfWalk sSet g once).once a2
      refine ⟨by rw [b1, a3], by omega, fun h => ?_⟩
      right; omega
end

/-- **the fuel of the `detect_cavities` alternation suffices**: every completed inside/outside round turns at least two
cells into their final `inside`/`outside` value -/
theorem cavityLoop3_fuel (ni nj nk : Nat) : ∀ (fuel : Nat) (g : Array VV), g.size = ni * nj * nk →
    g.size - (cnt .inside g + cnt .outside g) < fuel → (cavityLoop3 ni nj nk fuel g).2 = true
  | 0, g, _, hf => by omega
  | fuel + 1, g, hs, hf => by
    unfold cavityLoop3
    simp only []
    obtain ⟨f1, f1s⟩ := propagate3_fuel ni nj nk .inWalk .inside (some .surfWalk1) .surfWalk2 (by decide) (by decide) (by decide) (by decide)
      (ni * nj * nk + 1) g false hs (by rw [hs]; omega)
    obtain ⟨c1, c2, c3⟩ := propagate3_counts ni nj nk .inWalk .inside (some .surfWalk1) .surfWalk2 (by decide) (by decide) (by decide) (by decide)
      .outside (by decide) (by decide) (by decide) (by decide) (by decide) (ni * nj * nk + 1) g false hs
    rw [f1]
    simp only [Bool.not_true, Bool.false_eq_true, if_false]
    by_cases ho : (propagate3 ni nj nk .inWalk .inside (some .surfWalk1) .surfWalk2 (ni * nj * nk + 1) g false).2.1 = true
    · rw [ho]
      simp only [Bool.not_true, Bool.false_eq_true, if_false]
      set g1 := (propagate3 ni nj nk .inWalk .inside (some .surfWalk1) .surfWalk2 (ni * nj * nk + 1) g false).1 with hg1
      obtain ⟨f2, f2s⟩ := propagate3_fuel ni nj nk .outWalk .outside (some .surfWalk2) .surfWalk1 (by decide) (by decide) (by decide) (by decide)
        (ni * nj * nk + 1) g1 false f1s (by rw [f1s]; omega)
      obtain ⟨d1, d2, d3⟩ := propagate3_counts ni nj nk .outWalk .outside (some .surfWalk2) .surfWalk1 (by decide) (by decide) (by decide) (by decide)
        .inside (by decide) (by decide) (by decide) (by decide) (by decide) (ni * nj * nk + 1) g1 false f1s
      rw [f2]
      simp only [Bool.not_true, Bool.false_eq_true, if_false]
      by_cases ho2 : (propagate3 ni nj nk .outWalk .outside (some .surfWalk2) .surfWalk1 (ni * nj * nk + 1) g1 false).2.1 = true
      · rw [ho2]
        simp only [Bool.not_true, Bool.false_eq_true, if_false]
        set g2 := (propagate3 ni nj nk .outWalk .outside (some .surfWalk2) .surfWalk1 (ni * nj * nk + 1) g1 false).1 with hg2
        have hle := cnt_two_le .inside .outside (by decide) g2
        have e1 : cnt .inside g < cnt .inside g1 := by
          rcases c3 ho with x | x
          · cases x
          · exact x
        have e2 : cnt .outside g1 < cnt .outside g2 := by
          rcases d3 ho2 with x | x
          · cases x
          · exact x
        apply cavityLoop3_fuel ni nj nk fuel g2 f2s
        rw [f2s] at hle ⊢
        rw [hs] at hf
        omega
      · have : (propagate3 ni nj nk .outWalk .outside (some .surfWalk2) .surfWalk1 (ni * nj * nk + 1) g1 false).2.1 = false := by simpa using ho2
        rw [this]; simp
    · have : (propagate3 ni nj nk .inWalk .inside (some .surfWalk1) .surfWalk2 (ni * nj * nk + 1) g false).2.1 = false := by simpa using ho
      rw [this]; simp

theorem sc_markOutside3 (ni nj : Nat) (g : Array VV) (i0 j0 k0 i1 j1 k1 : Nat) :
    SameClass g (markOutside3 ni nj g i0 j0 k0 i1 j1 k1) := by
  unfold markOutside3
  generalize cellsIn3 i0 j0 k0 i1 j1 k1 = l
  induction l generalizing g with
  | nil => exact SameClass.refl g
  | cons c l ih =>
    rw [List.foldl_cons]
    by_cases h : g.getD (idx3 ni nj c.1 c.2.1 c.2.2) .undef = .undef
    · rw [if_pos h]; exact (sc_set g _ .outWalk (by rw [h]; rfl)).trans (ih _)
    · rw [if_neg h]; exact ih _

theorem sc_markBorder3 (ni nj nk : Nat) (g : Array VV) : SameClass g (markBorder3 ni nj nk g) := by
  unfold markBorder3
  exact (((((sc_markOutside3 ni nj g _ _ _ _ _ _).trans (sc_markOutside3 ni nj _ _ _ _ _ _ _)).trans
    (sc_markOutside3 ni nj _ _ _ _ _ _ _)).trans (sc_markOutside3 ni nj _ _ _ _ _ _ _)).trans
    (sc_markOutside3 ni nj _ _ _ _ _ _ _)).trans (sc_markOutside3 ni nj _ _ _ _ _ _ _)

/-- **`detect_cavities` (3-D): the fill never changes which cells are surface cells**, and turns every one of them back
into `PrimitiveOnSurface` at the end -/
theorem fill3_cav_surf_getD (ni nj nk : Nat) (g : Array VV) (k : Nat) :
    (fill3 true true ni nj nk g).1.getD k .undef = .surf ↔ isSC (g.getD k .undef) = true := by
  have e : fill3 true true ni nj nk g =
      ((cavityLoop3 ni nj nk (ni * nj * nk + 1) (propagate3 ni nj nk .outWalk .outside none .surfWalk1 (ni * nj * nk + 1) (markBorder3 ni nj nk g) false).1).1.map
          (fun v => if v = .surfWalk1 ∨ v = .surfWalk2 ∨ v = .surfNoWalk then .surf else v),
        (propagate3 ni nj nk .outWalk .outside none .surfWalk1 (ni * nj * nk + 1) (markBorder3 ni nj nk g) false).2.2 &&
        (cavityLoop3 ni nj nk (ni * nj * nk + 1) (propagate3 ni nj nk .outWalk .outside none .surfWalk1 (ni * nj * nk + 1) (markBorder3 ni nj nk g) false).1).2) := by
    unfold fill3; simp
  rw [e]
  simp only []
  have sc := ((sc_markBorder3 ni nj nk g).trans
    (sc_propagate3 ni nj nk .outWalk .outside none .surfWalk1 rfl rfl rfl (ni * nj * nk + 1) (markBorder3 ni nj nk g) false)).trans
    (sc_cavityLoop3 ni nj nk (ni * nj * nk + 1) _)
  rw [← sc.2 k]
  generalize (cavityLoop3 ni nj nk (ni * nj * nk + 1) (propagate3 ni nj nk .outWalk .outside none .surfWalk1 (ni * nj * nk + 1) (markBorder3 ni nj nk g) false).1).1 = G
  simp only [Array.getD_eq_getD_getElem?, Array.getElem?_map]
  cases hG : G[k]? with
  | none => simp [isSC]
  | some v => cases v <;> simp [isSC]

/-- **every loop of the 3-D fill pass stays within its fuel**, in every `FillMode` -/
theorem fill3_fuel_all' (flood cav : Bool) (ni nj nk : Nat) (g : Array VV) (hs : g.size = ni * nj * nk) :
    (fill3 flood cav ni nj nk g).2 = true := by
  unfold fill3
  by_cases hf : flood = true
  · have hsb : (markBorder3 ni nj nk g).size = ni * nj * nk := by rw [(sc_markBorder3 ni nj nk g).1]; exact hs
    by_cases hc : cav = true
    · simp only [hf, hc, Bool.not_true, Bool.false_eq_true, if_false, if_true]
      obtain ⟨f0, f0s⟩ := propagate3_fuel ni nj nk .outWalk .outside none .surfWalk1 (by decide) (by decide) (by decide) (by decide)
        (ni * nj * nk + 1) (markBorder3 ni nj nk g) false hsb (by rw [hsb]; omega)
      rw [f0, cavityLoop3_fuel ni nj nk (ni * nj * nk + 1) _ f0s (by rw [f0s]; omega)]
      rfl
    · have hc' : cav = false := by simpa using hc
      simp only [hf, hc', Bool.not_true, Bool.false_eq_true, if_false]
      exact (propagate3_fuel ni nj nk .outWalk .outside none .surf (by decide) (by decide) (by decide) (by decide)
        (ni * nj * nk + 1) (markBorder3 ni nj nk g) false hsb (by rw [hsb]; omega)).1
  · have hf' : flood = false := by simpa using hf
    simp [hf']

end C18
