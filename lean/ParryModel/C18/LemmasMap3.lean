import ParryModel.C18.LemmasSet3
/-!
# C18 lemmas for the 3-D voxelizer with `keep_voxel_to_primitives_map = true` (`ModelMap3.lean`)

The marking loop with the map is run in lock step with the loop without it (`markTri3`): the grid and the panic flag are
the same (`markTris3K_spec`), the per-cell counters count the entries of `primitive_intersections` (`KInv.cnt`), and
`primitive_intersections` is, triangle after triangle, the list of the candidate cells with a positive test
(`triPairs3`).  `hitB3` is the decidable form of `Hit3`.
-/
set_option linter.unusedSectionVars false
set_option linter.unusedVariables false
set_option linter.unusedSimpArgs false
namespace C18
open Model Model.Vox Model.Vox3

section
variable {K : Type} [Num K] [Cast K]

/-- the enumerated index buffer `indices.iter().enumerate()` as `(tri_id, tri)` -/
def enumTris (tris : List (Nat × Nat × Nat)) : List (Nat × (Nat × Nat × Nat)) := tris.zipIdx.map fun e => (e.2, e.1)

theorem enumTris_map_snd (tris : List (Nat × Nat × Nat)) : (enumTris tris).map (·.2) = tris := by
  unfold enumTris
  rw [List.map_map]
  have : ((fun x : Nat × (Nat × Nat × Nat) => x.2) ∘ fun e : (Nat × Nat × Nat) × Nat => (e.2, e.1)) = Prod.fst := rfl
  rw [this]
  exact List.zipIdx_map_fst _ _

theorem mem_enumTris {tris : List (Nat × Nat × Nat)} {e : Nat × (Nat × Nat × Nat)} :
    e ∈ enumTris tris ↔ tris[e.1]? = some e.2 := by
  unfold enumTris
  constructor
  · intro h
    obtain ⟨x, hx, rfl⟩ := List.mem_map.mp h
    have := List.mem_zipIdx_iff_getElem?.mp hx
    simpa using this
  · intro h
    exact List.mem_map.mpr ⟨(e.2, e.1), List.mem_zipIdx_iff_getElem?.mpr (by simpa using h), rfl⟩

/-- the `(voxel id, primitive id)` pairs triangle `e = (tri_id, tri)` pushes on `primitive_intersections`: its candidate
cells with a positive test, in loop order -/
def triPairs3 (pts : Array (V3 K)) (O : V3 K) (INV : K) (ni nj nk : Nat) (e : Nat × (Nat × Nat × Nat)) : List (Nat × Nat) :=
  match pts[e.2.1]?, pts[e.2.2.1]?, pts[e.2.2.2]? with
  | some p0, some p1, some p2 =>
    ((triCells3 ni nj nk (gridPt3 O INV p0) (gridPt3 O INV p1) (gridPt3 O INV p2)).filter
      (cellHit3 (gridPt3 O INV p0) (gridPt3 O INV p1) (gridPt3 O INV p2))).map
        (fun q => (idx3 ni nj q.1 q.2.1 q.2.2, e.1))
  | _, _, _ => []

/-- decidable form of `Hit3`: triangle `e.2` has cell `w` in its candidate range with a positive test -/
def hitB3 (pts : Array (V3 K)) (O : V3 K) (INV : K) (ni nj nk : Nat) (e : Nat × (Nat × Nat × Nat)) (w : Nat × Nat × Nat) : Bool :=
  match pts[e.2.1]?, pts[e.2.2.1]?, pts[e.2.2.2]? with
  | some p0, some p1, some p2 =>
    decide (w ∈ triCells3 ni nj nk (gridPt3 O INV p0) (gridPt3 O INV p1) (gridPt3 O INV p2)) &&
      cellHit3 (gridPt3 O INV p0) (gridPt3 O INV p1) (gridPt3 O INV p2) w
  | _, _, _ => false

theorem hitB3_iff (pts : Array (V3 K)) (O : V3 K) (INV : K) (ni nj nk : Nat) (e : Nat × (Nat × Nat × Nat)) (w : Nat × Nat × Nat) :
    hitB3 pts O INV ni nj nk e w = true ↔ Hit3 pts O INV ni nj nk e.2 w := by
  unfold hitB3 Hit3
  cases h0 : pts[e.2.1]? with
  | none => simp
  | some p0 =>
    cases h1 : pts[e.2.2.1]? with
    | none => simp
    | some p1 =>
      cases h2 : pts[e.2.2.2]? with
      | none => simp
      | some p2 =>
        simp only [Bool.and_eq_true, decide_eq_true_eq, mem_triCells3]
        constructor
        · rintro ⟨r1, r2⟩
          exact ⟨p0, p1, p2, rfl, rfl, rfl, r1, r2⟩
        · rintro ⟨a, b, c, ha, hb, hc, r1, r2⟩
          cases ha; cases hb; cases hc
          exact ⟨r1, r2⟩

theorem setIfInBounds_same (g : Array VV) (i : Nat) (v : VV) (h : g.getD i .undef = v) (hi : i < g.size) :
    g.setIfInBounds i v = g := by
  apply Array.ext (by simp)
  intro j h1 h2
  rw [Array.getElem_setIfInBounds]
  split_ifs with e
  · subst e
    simp only [Array.getD_eq_getD_getElem?, Array.getElem?_eq_getElem hi, Option.getD_some] at h
    exact h.symm
  · rfl

/-- the marking step for one cell with the map kept -/
theorem markCell3K_eq (ni nj : Nat) (a b c : V3 K) (k : Nat) (st : Mark3K) (q : Nat × Nat × Nat) :
    markCell3K ni nj a b c k st q =
      if cellHit3 a b c q = true then
        { st with g := setC3 ni nj st.g q .surf,
                  num := st.num.setIfInBounds (idx3 ni nj q.1 q.2.1 q.2.2) (st.num.getD (idx3 ni nj q.1 q.2.1 q.2.2) 0 + 1),
                  prims := st.prims.push (idx3 ni nj q.1 q.2.1 q.2.2, k) }
      else st := rfl

/-- invariant of the marking loop with the map: the grid invariant of the plain loop, and the per-cell counters count the
entries of `primitive_intersections` -/
structure KInv (NI NJ NK : Nat) (st : Mark3K) : Prop where
  good : MGood3 NI NJ NK st.g
  nsize : st.num.size = NI * NJ * NK
  cnt : ∀ id, st.num.getD id 0 = (st.prims.toList.filter (fun pr => pr.1 = id)).length

theorem markCell3K_step (NI NJ NK : Nat) (a b c : V3 K) (k : Nat) (st : Mark3K) (h : KInv NI NJ NK st)
    (q : Nat × Nat × Nat) (hq : InB3 NI NJ NK q) :
    KInv NI NJ NK (markCell3K NI NJ a b c k st q) ∧
    (markCell3K NI NJ a b c k st q).g = markCell3 NI NJ a b c st.g q ∧
    (markCell3K NI NJ a b c k st q).panic = st.panic ∧
    (markCell3K NI NJ a b c k st q).prims.toList =
      st.prims.toList ++ (if cellHit3 a b c q = true then [(idx3 NI NJ q.1 q.2.1 q.2.2, k)] else []) := by
  rw [markCell3K_eq, markCell3_eq]
  by_cases hh : cellHit3 a b c q = true
  · rw [if_pos hh, if_pos hh]
    have hget : ∀ p, InB3 NI NJ NK p → getC3 NI NJ (setC3 NI NJ st.g q .surf) p = if q = p then .surf else getC3 NI NJ st.g p :=
      fun p hp => getC3_setC3' NI NJ NK h.good.size .surf hq hp
    have hidx : idx3 NI NJ q.1 q.2.1 q.2.2 < st.num.size := by rw [h.nsize]; exact idx3_lt hq.1 hq.2.1 hq.2.2
    refine ⟨⟨⟨by simp only []; rw [size_setC3]; exact h.good.size, ?_⟩, by simp [h.nsize], ?_⟩, ?_, rfl, by simp⟩
    · intro p hp
      simp only []
      rw [hget p hp]
      split_ifs
      · right; rfl
      · exact h.good.vals p hp
    · intro id
      simp only [Array.toList_push, List.filter_append, List.length_append]
      rw [getD_setIfInBounds_nat]
      by_cases e : idx3 NI NJ q.1 q.2.1 q.2.2 = id
      · subst e; rw [if_pos ⟨rfl, hidx⟩, h.cnt]; simp
      · rw [if_neg (fun x => e x.1), h.cnt]; simp [e]
    · simp only []
      by_cases hu : getC3 NI NJ st.g q = .undef
      · rw [if_pos ⟨hu, hh⟩]
      · rw [if_neg (fun x => hu x.1)]
        have hs : getC3 NI NJ st.g q = .surf := (h.good.vals q hq).resolve_left hu
        unfold setC3
        apply setIfInBounds_same
        · exact hs
        · rw [h.good.size]; exact idx3_lt hq.1 hq.2.1 hq.2.2
  · rw [if_neg hh, if_neg hh]
    refine ⟨h, ?_, rfl, by simp⟩
    rw [if_neg (fun x => hh x.2)]

theorem markCells3K_spec (NI NJ NK : Nat) (a b c : V3 K) (k : Nat) :
    ∀ (l : List (Nat × Nat × Nat)) (st : Mark3K), KInv NI NJ NK st → (∀ q ∈ l, InB3 NI NJ NK q) →
    KInv NI NJ NK (l.foldl (markCell3K NI NJ a b c k) st) ∧
    (l.foldl (markCell3K NI NJ a b c k) st).g = l.foldl (markCell3 NI NJ a b c) st.g ∧
    (l.foldl (markCell3K NI NJ a b c k) st).panic = st.panic ∧
    (l.foldl (markCell3K NI NJ a b c k) st).prims.toList =
      st.prims.toList ++ (l.filter (cellHit3 a b c)).map (fun q => (idx3 NI NJ q.1 q.2.1 q.2.2, k))
  | [], st, h, _ => ⟨h, rfl, rfl, by simp⟩
  | q :: l, st, h, hl => by
    rw [List.foldl_cons, List.foldl_cons]
    obtain ⟨s1, s2, s3, s4⟩ := markCell3K_step NI NJ NK a b c k st h q (hl q List.mem_cons_self)
    obtain ⟨i1, i2, i3, i4⟩ := markCells3K_spec NI NJ NK a b c k l _ s1 (fun x hx => hl x (List.mem_cons_of_mem _ hx))
    refine ⟨i1, by rw [i2, s2], by rw [i3, s3], ?_⟩
    rw [i4, s4, List.filter_cons]
    by_cases hh : cellHit3 a b c q = true
    · simp [hh]
    · simp [hh]

theorem markTri3K_panic (ni nj nk : Nat) (origin : V3 K) (invScale : K) (pts : Array (V3 K)) (st : Mark3K)
    (hp : st.panic = true) (e : Nat × (Nat × Nat × Nat)) : markTri3K ni nj nk origin invScale pts st e = st := by
  unfold markTri3K; simp [hp]

theorem foldl3K_panic (ni nj nk : Nat) (origin : V3 K) (invScale : K) (pts : Array (V3 K)) :
    ∀ (es : List (Nat × (Nat × Nat × Nat))) (st : Mark3K), st.panic = true →
      es.foldl (markTri3K ni nj nk origin invScale pts) st = st
  | [], _, _ => rfl
  | e :: es, st, hp => by
    rw [List.foldl_cons, markTri3K_panic ni nj nk origin invScale pts st hp]
    exact foldl3K_panic ni nj nk origin invScale pts es st hp

theorem markTri3K_some (ni nj nk : Nat) (origin : V3 K) (invScale : K) (pts : Array (V3 K)) (st : Mark3K)
    (hp : st.panic = false) (e : Nat × (Nat × Nat × Nat)) (p0 p1 p2 : V3 K)
    (h0 : pts[e.2.1]? = some p0) (h1 : pts[e.2.2.1]? = some p1) (h2 : pts[e.2.2.2]? = some p2) :
    markTri3K ni nj nk origin invScale pts st e =
      if InB3 ni nj nk (cellOf3 (gridPt3 origin invScale p0)) ∧ InB3 ni nj nk (cellOf3 (gridPt3 origin invScale p1)) ∧
          InB3 ni nj nk (cellOf3 (gridPt3 origin invScale p2)) then
        List.foldl (markCell3K ni nj (gridPt3 origin invScale p0) (gridPt3 origin invScale p1) (gridPt3 origin invScale p2) e.1) st
          (triCells3 ni nj nk (gridPt3 origin invScale p0) (gridPt3 origin invScale p1) (gridPt3 origin invScale p2))
      else { st with panic := true } := by
  unfold markTri3K
  simp only [hp, Bool.false_eq_true, if_false, h0, h1, h2]
  unfold InB3 gridPt3
  split_ifs with c1 c2 c2
  · exfalso; simp at c1; omega
  · rfl
  · rfl
  · exfalso; simp at c1; omega

theorem KInv.setPanic {NI NJ NK : Nat} {st : Mark3K} (h : KInv NI NJ NK st) : KInv NI NJ NK { st with panic := true } :=
  ⟨h.good, h.nsize, h.cnt⟩

/-- one triangle: the loop with the map and the loop without it stay in lock step -/
theorem markTri3K_step (NI NJ NK : Nat) (O : V3 K) (INV : K) (pts : Array (V3 K)) (sK : Mark3K) (s : Mark3)
    (hinv : KInv NI NJ NK sK) (hg : sK.g = s.g) (hp : sK.panic = s.panic) (e : Nat × (Nat × Nat × Nat)) :
    KInv NI NJ NK (markTri3K NI NJ NK O INV pts sK e) ∧
    (markTri3K NI NJ NK O INV pts sK e).g = (markTri3 NI NJ NK O INV pts s e.2).g ∧
    (markTri3K NI NJ NK O INV pts sK e).panic = (markTri3 NI NJ NK O INV pts s e.2).panic ∧
    ((markTri3K NI NJ NK O INV pts sK e).panic = false →
      (markTri3K NI NJ NK O INV pts sK e).prims.toList = sK.prims.toList ++ triPairs3 pts O INV NI NJ NK e) := by
  by_cases hpk : sK.panic = true
  · have hps : s.panic = true := by rw [← hp]; exact hpk
    rw [markTri3K_panic NI NJ NK O INV pts sK hpk, markTri3_panic NI NJ NK O INV pts s hps]
    exact ⟨hinv, hg, hp, fun h => by rw [hpk] at h; cases h⟩
  · have hpk' : sK.panic = false := by simpa using hpk
    have hps' : s.panic = false := by rw [← hp]; exact hpk'
    have bad : ∀ (rK : Mark3K) (r : Mark3), rK = { sK with panic := true } → r = { s with panic := true } →
        KInv NI NJ NK rK ∧ rK.g = r.g ∧ rK.panic = r.panic ∧ (rK.panic = false → rK.prims.toList = sK.prims.toList ++ triPairs3 pts O INV NI NJ NK e) := by
      intro rK r e1 e2
      subst e1; subst e2
      exact ⟨hinv.setPanic, hg, rfl, fun h => by cases h⟩
    cases h0 : pts[e.2.1]? with
    | none =>
      apply bad
      · unfold markTri3K; simp [hpk', h0]
      · unfold markTri3; simp [hps', h0]
    | some p0 =>
      cases h1 : pts[e.2.2.1]? with
      | none =>
        apply bad
        · unfold markTri3K; simp [hpk', h0, h1]
        · unfold markTri3; simp [hps', h0, h1]
      | some p1 =>
        cases h2 : pts[e.2.2.2]? with
        | none =>
          apply bad
          · unfold markTri3K; simp [hpk', h0, h1, h2]
          · unfold markTri3; simp [hps', h0, h1, h2]
        | some p2 =>
          rw [markTri3K_some NI NJ NK O INV pts sK hpk' e p0 p1 p2 h0 h1 h2,
            markTri3_some NI NJ NK O INV pts s hps' e.2 p0 p1 p2 h0 h1 h2]
          by_cases hok : InB3 NI NJ NK (cellOf3 (gridPt3 O INV p0)) ∧ InB3 NI NJ NK (cellOf3 (gridPt3 O INV p1)) ∧
              InB3 NI NJ NK (cellOf3 (gridPt3 O INV p2))
          · rw [if_pos hok, if_pos hok]
            obtain ⟨i1, i2, i3, i4⟩ := markCells3K_spec NI NJ NK (gridPt3 O INV p0) (gridPt3 O INV p1) (gridPt3 O INV p2) e.1
              (triCells3 NI NJ NK (gridPt3 O INV p0) (gridPt3 O INV p1) (gridPt3 O INV p2)) sK hinv (triCells3_inB NI NJ NK _ _ _)
            refine ⟨i1, ?_, ?_, fun _ => ?_⟩
            · rw [i2, hg]
            · rw [i3]; exact hp
            · rw [i4]
              unfold triPairs3
              simp only [h0, h1, h2]
          · rw [if_neg hok, if_neg hok]
            exact ⟨hinv.setPanic, hg, rfl, fun h => by cases h⟩

/-- the whole loop over the triangles, in lock step with the loop without the map -/
theorem markTris3K_spec (NI NJ NK : Nat) (O : V3 K) (INV : K) (pts : Array (V3 K)) :
    ∀ (es : List (Nat × (Nat × Nat × Nat))) (sK : Mark3K) (s : Mark3), KInv NI NJ NK sK → sK.g = s.g → sK.panic = s.panic →
    KInv NI NJ NK (es.foldl (markTri3K NI NJ NK O INV pts) sK) ∧
    (es.foldl (markTri3K NI NJ NK O INV pts) sK).g = ((es.map (·.2)).foldl (markTri3 NI NJ NK O INV pts) s).g ∧
    (es.foldl (markTri3K NI NJ NK O INV pts) sK).panic = ((es.map (·.2)).foldl (markTri3 NI NJ NK O INV pts) s).panic ∧
    ((es.foldl (markTri3K NI NJ NK O INV pts) sK).panic = false →
      (es.foldl (markTri3K NI NJ NK O INV pts) sK).prims.toList = sK.prims.toList ++ es.flatMap (triPairs3 pts O INV NI NJ NK))
  | [], sK, s, h, hg, hp => ⟨h, hg, hp, fun _ => by simp⟩
  | e :: es, sK, s, h, hg, hp => by
    rw [List.foldl_cons, List.map_cons, List.foldl_cons]
    obtain ⟨s1, s2, s3, s4⟩ := markTri3K_step NI NJ NK O INV pts sK s h hg hp e
    obtain ⟨i1, i2, i3, i4⟩ := markTris3K_spec NI NJ NK O INV pts es _ _ s1 s2 s3
    refine ⟨i1, i2, i3, fun hfin => ?_⟩
    have hmid : (markTri3K NI NJ NK O INV pts sK e).panic = false := by
      by_contra hc
      have hc' : (markTri3K NI NJ NK O INV pts sK e).panic = true := by simpa using hc
      rw [foldl3K_panic NI NJ NK O INV pts es _ hc'] at hfin
      rw [hc'] at hfin; cases hfin
    rw [i4 hfin, s4 hmid, List.flatMap_cons, List.append_assoc]

/-- the marking loop with the map started from the freshly allocated volume -/
def markFrom3K (pts : Array (V3 K)) (es : List (Nat × (Nat × Nat × Nat))) (O : V3 K) (INV : K) (NI NJ NK : Nat) : Mark3K :=
  es.foldl (markTri3K NI NJ NK O INV pts)
    ⟨Array.replicate (NI * NJ * NK) .undef, Array.replicate (NI * NJ * NK) 0, #[], false⟩

theorem markFrom3K_spec (pts : Array (V3 K)) (tris : List (Nat × Nat × Nat)) (O : V3 K) (INV : K) (NI NJ NK : Nat) :
    KInv NI NJ NK (markFrom3K pts (enumTris tris) O INV NI NJ NK) ∧
    (markFrom3K pts (enumTris tris) O INV NI NJ NK).g = (markFrom3 pts tris O INV NI NJ NK).g ∧
    (markFrom3K pts (enumTris tris) O INV NI NJ NK).panic = (markFrom3 pts tris O INV NI NJ NK).panic ∧
    ((markFrom3K pts (enumTris tris) O INV NI NJ NK).panic = false →
      (markFrom3K pts (enumTris tris) O INV NI NJ NK).prims.toList = (enumTris tris).flatMap (triPairs3 pts O INV NI NJ NK)) := by
  have h0 : KInv NI NJ NK (⟨Array.replicate (NI * NJ * NK) .undef, Array.replicate (NI * NJ * NK) 0, #[], false⟩ : Mark3K) := by
    refine ⟨replicate_good3 NI NJ NK, by simp, ?_⟩
    intro id
    simp only [Array.getD_eq_getD_getElem?, Array.getElem?_replicate]
    split_ifs <;> simp
  obtain ⟨i1, i2, i3, i4⟩ := markTris3K_spec NI NJ NK O INV pts (enumTris tris) _
    (⟨Array.replicate (NI * NJ * NK) .undef, false⟩ : Mark3) h0 rfl rfl
  rw [enumTris_map_snd] at i2 i3
  exact ⟨i1, i2, i3, fun h => by simpa [markFrom3K] using i4 h⟩

theorem markAll3K_eq (res : Nat) (p0 : V3 K) (ps : List (V3 K)) (tris : List (Nat × Nat × Nat)) :
    markAll3K res p0 ps tris =
      ⟨(cloudAabb3 p0 ps).1, (gridParams3 res (cloudAabb3 p0 ps).1 (cloudAabb3 p0 ps).2).2.2.2,
        (gridParams3 res (cloudAabb3 p0 ps).1 (cloudAabb3 p0 ps).2).1, (gridParams3 res (cloudAabb3 p0 ps).1 (cloudAabb3 p0 ps).2).2.1,
        (gridParams3 res (cloudAabb3 p0 ps).1 (cloudAabb3 p0 ps).2).2.2.1,
        (markFrom3K (p0 :: ps).toArray (enumTris tris) (cloudAabb3 p0 ps).1 (invScale3 res (cloudAabb3 p0 ps).1 (cloudAabb3 p0 ps).2)
          (gridParams3 res (cloudAabb3 p0 ps).1 (cloudAabb3 p0 ps).2).1 (gridParams3 res (cloudAabb3 p0 ps).1 (cloudAabb3 p0 ps).2).2.1
          (gridParams3 res (cloudAabb3 p0 ps).1 (cloudAabb3 p0 ps).2).2.2.1).g,
        (markFrom3K (p0 :: ps).toArray (enumTris tris) (cloudAabb3 p0 ps).1 (invScale3 res (cloudAabb3 p0 ps).1 (cloudAabb3 p0 ps).2)
          (gridParams3 res (cloudAabb3 p0 ps).1 (cloudAabb3 p0 ps).2).1 (gridParams3 res (cloudAabb3 p0 ps).1 (cloudAabb3 p0 ps).2).2.1
          (gridParams3 res (cloudAabb3 p0 ps).1 (cloudAabb3 p0 ps).2).2.2.1).num,
        (markFrom3K (p0 :: ps).toArray (enumTris tris) (cloudAabb3 p0 ps).1 (invScale3 res (cloudAabb3 p0 ps).1 (cloudAabb3 p0 ps).2)
          (gridParams3 res (cloudAabb3 p0 ps).1 (cloudAabb3 p0 ps).2).1 (gridParams3 res (cloudAabb3 p0 ps).1 (cloudAabb3 p0 ps).2).2.1
          (gridParams3 res (cloudAabb3 p0 ps).1 (cloudAabb3 p0 ps).2).2.2.1).prims,
        (markFrom3K (p0 :: ps).toArray (enumTris tris) (cloudAabb3 p0 ps).1 (invScale3 res (cloudAabb3 p0 ps).1 (cloudAabb3 p0 ps).2)
          (gridParams3 res (cloudAabb3 p0 ps).1 (cloudAabb3 p0 ps).2).1 (gridParams3 res (cloudAabb3 p0 ps).1 (cloudAabb3 p0 ps).2).2.1
          (gridParams3 res (cloudAabb3 p0 ps).1 (cloudAabb3 p0 ps).2).2.2.1).panic⟩ := rfl

/-! ### reading a voxel's list out of `primitive_intersections` -/

theorem triPairs3_filter (pts : Array (V3 K)) (O : V3 K) (INV : K) (ni nj nk : Nat) (e : Nat × (Nat × Nat × Nat))
    (w : Nat × Nat × Nat) (hw : InB3 ni nj nk w) :
    ((triPairs3 pts O INV ni nj nk e).filter (fun pr => pr.1 = idx3 ni nj w.1 w.2.1 w.2.2)).map (·.2)
      = if hitB3 pts O INV ni nj nk e w then [e.1] else [] := by
  unfold triPairs3 hitB3
  cases pts[e.2.1]? with
  | none => simp
  | some p0 =>
    cases pts[e.2.2.1]? with
    | none => simp
    | some p1 =>
      cases pts[e.2.2.2]? with
      | none => simp
      | some p2 =>
        simp only []
        have := filter_cell3 ni nj nk e.1 (cellHit3 (gridPt3 O INV p0) (gridPt3 O INV p1) (gridPt3 O INV p2)) w hw
          (triCells3 ni nj nk (gridPt3 O INV p0) (gridPt3 O INV p1) (gridPt3 O INV p2)) (cellsIn3_nodupK _ _ _ _ _ _)
          (triCells3_inB ni nj nk _ _ _)
        rw [this]
        simp only [Bool.and_eq_true, decide_eq_true_eq]

theorem flatMap_filter_hits3 (pts : Array (V3 K)) (O : V3 K) (INV : K) (ni nj nk : Nat) (w : Nat × Nat × Nat)
    (hw : InB3 ni nj nk w) :
    ∀ (es : List (Nat × (Nat × Nat × Nat))),
    ((es.flatMap (triPairs3 pts O INV ni nj nk)).filter (fun pr => pr.1 = idx3 ni nj w.1 w.2.1 w.2.2)).map (·.2)
      = (es.filter (fun e => hitB3 pts O INV ni nj nk e w)).map (·.1)
  | [] => rfl
  | e :: es => by
    rw [List.flatMap_cons, List.filter_append, List.map_append, flatMap_filter_hits3 pts O INV ni nj nk w hw es,
      triPairs3_filter pts O INV ni nj nk e w hw, List.filter_cons]
    split_ifs <;> simp

/-! ### the ranges of the flattened map -/

theorem scatter_size : ∀ (P : List (Nat × Nat)) (acc : Array Nat × Array Nat), (P.foldl scatter acc).1.size = acc.1.size
  | [], _ => rfl
  | p :: P, acc => by
    rw [List.foldl_cons, scatter_size P]
    simp [scatter]

/-- **the ranges written by the first loop of `From<VoxelizedVolume>`** (map kept): `intersections` has one slot per entry of
`primitive_intersections`; the range of every surface voxel has the length of its counter and ends inside `intersections`;
the ranges of the surface voxels follow each other in voxel order without overlap. -/
theorem toVoxelSet3K_ranges {K : Type} (v : Vol3K K) (hne : v.prims.isEmpty = false) (hsz : v.num.size = v.ni * v.nj * v.nk)
    (hnum : ∀ id, v.num.getD id 0 = (v.prims.toList.filter (fun pr => pr.1 = id)).length) :
    (toVoxelSet3K v).2.size = v.prims.size ∧
    (∀ w ∈ (toVoxelSet3K v).1.toList, w.surf = true →
      w.r1 = w.r0 + v.num.getD (idx3 v.ni v.nj w.i w.j w.k) 0 ∧ w.r1 ≤ v.prims.size) ∧
    List.Pairwise (fun a b : Voxel3K => a.r1 ≤ b.r0) ((toVoxelSet3K v).1.toList.filter (·.surf)) := by
  set ni := v.ni with hni
  set nj := v.nj with hnj
  set nk := v.nk with hnk
  set P := v.prims.toList with hP
  set L := cellsIn3 0 0 0 ni nj nk with hL
  set st := L.foldl (fromCell3K ni nj v.vals true) ⟨#[], 0, v.num⟩ with hst
  have hLin : ∀ c ∈ L, InB3 ni nj nk c := fun c hc =>
    ⟨(mem_cellsIn3.mp hc).1.2, (mem_cellsIn3.mp hc).2.1.2, (mem_cellsIn3.mp hc).2.2.2⟩
  have inv0 : FromInv3 ni nj nk v.vals v.num ⟨#[], 0, v.num⟩ [] :=
    ⟨rfl, fun _ _ => rfl, by simp [SV3], by simp [SV3], by simp [SV3], by simp [SV3]⟩
  have inv : FromInv3 ni nj nk v.vals v.num st L := by
    have := fromLoop3_inv ni nj nk v.vals v.num hsz L _ [] inv0 hLin (by simp) (by simp) (cellsIn3_nodupK 0 0 0 ni nj nk)
    simpa using this
  have htv : toVoxelSet3K v = (st.voxels, (P.foldl scatter (Array.replicate v.prims.size 0, st.num)).1) := by
    unfold toVoxelSet3K
    simp only [hne, Bool.not_false, if_true]
    rw [← Array.foldl_toList]
  rw [htv]
  simp only []
  set ids := (SV3 st).map (fun w => idx3 ni nj w.i w.j w.k) with hids
  have hidsnd : ids.Nodup := by
    have h1 : ((SV3 st).map (fun w => (w.i, w.j, w.k))).Nodup := by
      rw [inv.cells]; exact (cellsIn3_nodupK 0 0 0 ni nj nk).filter _
    have h2 : ids = ((SV3 st).map (fun w => (w.i, w.j, w.k))).map (fun c => idx3 ni nj c.1 c.2.1 c.2.2) := by
      rw [hids, List.map_map]; rfl
    rw [h2]
    apply List.Nodup.map_on _ h1
    intro a ha b hb e
    rw [inv.cells] at ha hb
    have ha' := hLin a (List.mem_filter.mp ha).1
    have hb' := hLin b (List.mem_filter.mp hb).1
    have := idx3_inj ha'.1 hb'.1 ha'.2.1 hb'.2.1 e
    exact Prod.ext this.1 (Prod.ext this.2.1 this.2.2)
  have hcurr : st.curr ≤ P.length := by
    rw [inv.curr]
    have e : (SV3 st).map (fun w => v.num.getD (idx3 ni nj w.i w.j w.k) 0)
        = ids.map (fun a => (P.filter (fun pr => pr.1 = a)).length) := by
      rw [hids, List.map_map]
      apply List.map_congr_left
      intro w _
      simp only [Function.comp]
      exact hnum _
    rw [e]
    exact sum_count_le P ids hidsnd
  refine ⟨by rw [scatter_size]; simp, ?_, inv.pair⟩
  intro w hw hws
  have hwsv : w ∈ SV3 st := List.mem_filter.mpr ⟨hw, by simpa using hws⟩
  obtain ⟨e1, e2, _⟩ := inv.each w hwsv
  refine ⟨e1, ?_⟩
  have : P.length = v.prims.size := by simp [hP]
  omega

end
end C18
