import ParryModel.C18.LemmasFill3
/-!
# C18 theorems, part 5: the fill pass of the 3-D voxelizer (`parry3d-f64`) computes the flood-fill specification

`Model.Vox3.fill3` is the transliteration of the `match fill_mode { .. }` block of the `dim3` text of
`VoxelizedVolume::voxelize` (`mark_outside_surface` ×6, `propagate_values` with its six `walk_forward/backward` rays
per cell in memory order, `replace_value`).  These theorems are arithmetic-free (they hold for the grid as an array of
`VoxelValue`s); the specification `Reach3` uses 6-connectivity.
-/
set_option linter.unusedSectionVars false
set_option linter.unusedVariables false
namespace C18
open Model Model.Vox Model.Vox3

/-- **seed3_all_faces**: the exact effect of the six `mark_outside_surface` calls that seed the 3-D flood fill.  On a
grid of the right size with `ni, nj, nk ≥ 1` the size is kept and a cell becomes `PrimitiveOutsideSurfaceToWalk` iff it
was `PrimitiveUndefined` and lies on one of the **six** faces of the grid (`i = 0`, `j = 0`, `k = 0`, `i = ni-1`,
`j = nj-1`, `k = nk-1`); every other cell keeps its value.  (Dropping any of the six calls falsifies this.) -/
theorem seed3_all_faces (ni nj nk : Nat) (hi : 1 ≤ ni) (hj : 1 ≤ nj) (hk : 1 ≤ nk) (g : Array VV)
    (hs : g.size = ni * nj * nk) :
    (markBorder3 ni nj nk g).size = ni * nj * nk ∧
    ∀ p, InB3 ni nj nk p → getC3 ni nj (markBorder3 ni nj nk g) p
      = if OnBorder3 ni nj nk p ∧ getC3 ni nj g p = .undef then .outWalk else getC3 ni nj g p :=
  markBorder3_get ni nj nk g hs hi hj hk

set_option maxRecDepth 100000 in
/-- the model evaluated on the all-`undef` 3×3×3 grid: the centre cell of EACH of the six faces becomes `outWalk`
(`k = 0`, `k = 2`, `j = 0`, `j = 2`, `i = 0`, `i = 2`), the centre of the grid stays `undef` -/
example :
    let g := markBorder3 3 3 3 (Array.replicate 27 VV.undef)
    getC3 3 3 g (1, 1, 0) = .outWalk ∧ getC3 3 3 g (1, 1, 2) = .outWalk ∧
    getC3 3 3 g (1, 0, 1) = .outWalk ∧ getC3 3 3 g (1, 2, 1) = .outWalk ∧
    getC3 3 3 g (0, 1, 1) = .outWalk ∧ getC3 3 3 g (2, 1, 1) = .outWalk ∧
    getC3 3 3 g (1, 1, 1) = .undef := by
  decide

set_option maxRecDepth 100000 in
/-- same grid with a surface cell at the centre of the face `i = 2`: it is not overwritten, the other five face
centres are marked -/
example :
    let g := markBorder3 3 3 3 ((Array.replicate 27 VV.undef).setIfInBounds (idx3 3 3 2 1 1) .surf)
    getC3 3 3 g (1, 1, 0) = .outWalk ∧ getC3 3 3 g (1, 1, 2) = .outWalk ∧
    getC3 3 3 g (1, 0, 1) = .outWalk ∧ getC3 3 3 g (1, 2, 1) = .outWalk ∧
    getC3 3 3 g (0, 1, 1) = .outWalk ∧ getC3 3 3 g (2, 1, 1) = .surf := by
  decide

/-- **the fuel of every `propagate_values` loop the 3-D voxelizer runs suffices** (fuel = number of cells + 1), for the
four parameter sets the code uses (outside pass of the plain flood fill; first outside pass, inside and outside passes of
`detect_cavities`). -/
theorem propagate3_fuel_suffices (ni nj nk : Nat) (g : Array VV) (once : Bool) (hs : g.size = ni * nj * nk) :
    (propagate3 ni nj nk .outWalk .outside none .surf (ni * nj * nk + 1) g once).2.2 = true ∧
    (propagate3 ni nj nk .outWalk .outside none .surfWalk1 (ni * nj * nk + 1) g once).2.2 = true ∧
    (propagate3 ni nj nk .inWalk .inside (some .surfWalk1) .surfWalk2 (ni * nj * nk + 1) g once).2.2 = true ∧
    (propagate3 ni nj nk .outWalk .outside (some .surfWalk2) .surfWalk1 (ni * nj * nk + 1) g once).2.2 = true := by
  have hf : ∀ w, g.size - cnt w g < ni * nj * nk + 1 := fun w => by rw [hs]; omega
  refine ⟨(propagate3_fuel ni nj nk _ _ _ _ (by decide) (by decide) (by decide) (by decide) _ g once hs (hf _)).1,
    (propagate3_fuel ni nj nk _ _ _ _ (by decide) (by decide) (by decide) (by decide) _ g once hs (hf _)).1,
    (propagate3_fuel ni nj nk _ _ _ _ (by decide) (by decide) (by decide) (by decide) _ g once hs (hf _)).1,
    (propagate3_fuel ni nj nk _ _ _ _ (by decide) (by decide) (by decide) (by decide) _ g once hs (hf _)).1⟩

/-- **fill3_spec** (`FillMode::FloodFill { detect_cavities: false, .. }`, `dim3`).  Let `g0` be the grid after the
marking phase (every cell `PrimitiveUndefined` or `PrimitiveOnSurface`), `ni, nj, nk ≥ 1`.  Then the fill pass as coded
terminates within its fuel, keeps the size and, for every cell `p` of the grid,
* `p` is `PrimitiveOnSurface` after the fill iff it was before (surface cells are untouched),
* `p` is `PrimitiveOutsideSurface` iff `Reach3 p`: `p` is a non-surface cell connected to a non-surface cell of one of
  the six faces of the grid through non-surface cells (6-connectivity) — the BFS/flood-fill specification,
* `p` is `PrimitiveInsideSurface` iff it is a non-surface cell that is **not** so connected (exactly the enclosed cells),
and no other value remains. -/
theorem fill3_spec (ni nj nk : Nat) (hi : 1 ≤ ni) (hj : 1 ≤ nj) (hk : 1 ≤ nk) (g0 : Array VV)
    (hs : g0.size = ni * nj * nk)
    (hvals : ∀ p, InB3 ni nj nk p → getC3 ni nj g0 p = .undef ∨ getC3 ni nj g0 p = .surf) :
    (fill3 true false ni nj nk g0).2 = true ∧ (fill3 true false ni nj nk g0).1.size = ni * nj * nk ∧
    ∀ p, InB3 ni nj nk p →
      (getC3 ni nj (fill3 true false ni nj nk g0).1 p = .surf ↔ getC3 ni nj g0 p = .surf) ∧
      (getC3 ni nj (fill3 true false ni nj nk g0).1 p = .outside ↔
        Reach3 ni nj nk (fun q => getC3 ni nj g0 q = .surf) p) ∧
      (getC3 ni nj (fill3 true false ni nj nk g0).1 p = .inside ↔
        (getC3 ni nj g0 p ≠ .surf ∧ ¬ Reach3 ni nj nk (fun q => getC3 ni nj g0 q = .surf) p)) ∧
      (getC3 ni nj (fill3 true false ni nj nk g0).1 p = .surf ∨ getC3 ni nj (fill3 true false ni nj nk g0).1 p = .outside ∨
        getC3 ni nj (fill3 true false ni nj nk g0).1 p = .inside) := by
  set S : Nat × Nat × Nat → Prop := fun q => getC3 ni nj g0 q = .surf with hS
  obtain ⟨m1, m2⟩ := markBorder3_get ni nj nk g0 hs hi hj hk
  -- the invariant holds after `mark_outside_surface`
  have inv0 : FInv3 ni nj nk S (markBorder3 ni nj nk g0) := by
    refine ⟨m1, ?_, ?_, ?_, ?_⟩
    · intro p hp; rw [m2 p hp]; split_ifs with h
      · right; left; rfl
      · rcases hvals p hp with v | v
        · left; exact v
        · right; right; right; exact v
    · intro p hp; rw [m2 p hp]; split_ifs with h
      · constructor
        · intro x; cases x
        · intro x; rw [hS] at x; rw [h.2] at x; cases x
      · rfl
    · intro p hp; rw [m2 p hp]; split_ifs with h
      · intro _
        exact Reach3.border hp h.1 (by rw [hS]; intro x; rw [h.2] at x; cases x)
      · intro hv
        rcases hvals p hp with v | v <;> rw [v] at hv <;> rcases hv with x | x <;> cases x
    · intro p hp hb; rw [m2 p hp]; split_ifs with h
      · intro x; cases x
      · intro x; exact h ⟨hb, x⟩
  have cl0 : Closed3 ni nj nk (markBorder3 ni nj nk g0) := by
    intro p q hp _ _ hv
    rw [m2 p hp] at hv
    split_ifs at hv with h
    rcases hvals p hp with v | v <;> rw [v] at hv <;> cases hv
  have hfuel := (propagate3_fuel ni nj nk .outWalk .outside none .surf (by decide) (by decide) (by decide) (by decide)
    (ni * nj * nk + 1) (markBorder3 ni nj nk g0) false m1 (by rw [m1]; omega))
  obtain ⟨f1, f2, f3⟩ := propagate3_inv ni nj nk S (ni * nj * nk + 1) (markBorder3 ni nj nk g0) false inv0 cl0 hfuel.1
  have hfill : fill3 true false ni nj nk g0 =
      (replaceValue (propagate3 ni nj nk .outWalk .outside none .surf (ni * nj * nk + 1) (markBorder3 ni nj nk g0) false).1 .undef .inside,
       (propagate3 ni nj nk .outWalk .outside none .surf (ni * nj * nk + 1) (markBorder3 ni nj nk g0) false).2.2) := by
    unfold fill3; simp
  rw [hfill]
  set gp := (propagate3 ni nj nk .outWalk .outside none .surf (ni * nj * nk + 1) (markBorder3 ni nj nk g0) false).1 with hgp
  refine ⟨hfuel.1, by simp [replaceValue, f1.size], fun p hp => ?_⟩
  have hval : getC3 ni nj (replaceValue gp .undef .inside) p = if getC3 ni nj gp p = .undef then .inside else getC3 ni nj gp p := by
    unfold replaceValue; rw [getC3_map ni nj nk gp _ f1.size p hp]
  have hspec := fixpoint_spec3 ni nj nk S f1 f2 f3 p hp
  have hsurf := f1.surf p hp
  rcases f1.vals p hp with v | v | v | v
  · -- undef → inside: not reachable, not surface
    have hfin : getC3 ni nj (replaceValue gp .undef .inside) p = .inside := by rw [hval, if_pos v]
    rw [v] at hspec hsurf
    have nr : ¬ Reach3 ni nj nk S p := fun r => by have := hspec.mpr r; cases this
    have ns : ¬ getC3 ni nj g0 p = .surf := fun s => by have := hsurf.mpr s; cases this
    rw [hfin]
    exact ⟨⟨fun x => (by cases x), fun x => absurd x ns⟩, ⟨fun x => (by cases x), fun r => absurd r nr⟩,
      ⟨fun _ => ⟨ns, nr⟩, fun _ => rfl⟩, Or.inr (Or.inr rfl)⟩
  · exact absurd v (f3 p hp)
  · have hfin : getC3 ni nj (replaceValue gp .undef .inside) p = .outside := by
      rw [hval, if_neg (by rw [v]; intro x; cases x), v]
    rw [v] at hspec hsurf
    have r : Reach3 ni nj nk S p := hspec.mp rfl
    have ns : ¬ getC3 ni nj g0 p = .surf := fun s => by have := hsurf.mpr s; cases this
    rw [hfin]
    exact ⟨⟨fun x => (by cases x), fun x => absurd x ns⟩, ⟨fun _ => r, fun _ => rfl⟩,
      ⟨fun x => (by cases x), fun x => absurd r x.2⟩, Or.inr (Or.inl rfl)⟩
  · have hfin : getC3 ni nj (replaceValue gp .undef .inside) p = .surf := by
      rw [hval, if_neg (by rw [v]; intro x; cases x), v]
    rw [v] at hspec hsurf
    have s : getC3 ni nj g0 p = .surf := hsurf.mp rfl
    have nr : ¬ Reach3 ni nj nk S p := fun r => by have := hspec.mpr r; cases this
    rw [hfin]
    exact ⟨⟨fun _ => s, fun _ => rfl⟩, ⟨fun x => (by cases x), fun r => absurd r nr⟩,
      ⟨fun x => (by cases x), fun x => absurd s x.1⟩, Or.inl rfl⟩

/-- non-vacuity of `fill3_spec`: on the 3×3×3 grid whose 26 outer cells are surface cells the centre cell is not
`Reach3`-able (it ends up `inside`) -/
example : ¬ Reach3 3 3 3 (fun q => getC3 3 3 ((Array.replicate 27 VV.surf).setIfInBounds (idx3 3 3 1 1 1) .undef) q = .surf)
    (1, 1, 1) := by
  intro h
  generalize hp : ((1, 1, 1) : Nat × Nat × Nat) = p at h
  induction h with
  | border hb hbd _ =>
    subst hp; simp [OnBorder3] at hbd
  | step hr hadj hq hs ih =>
    rename_i a b
    subst hp
    -- the predecessor `a` is a neighbour of the centre, hence a surface cell: it cannot be reached
    obtain ⟨a1, a2, a3⟩ := a
    have hsurf : getC3 3 3 ((Array.replicate 27 VV.surf).setIfInBounds (idx3 3 3 1 1 1) .undef) (a1, a2, a3) = .surf := by
      simp only [Adj3] at hadj
      rcases hadj with ⟨h1, h2, (h3 | h3)⟩ | ⟨h1, h2, (h3 | h3)⟩ | ⟨h1, h2, (h3 | h3)⟩
      · have e1 : a1 = 1 := by omega
        have e2 : a2 = 1 := by omega
        have e3 : a3 = 0 := by omega
        subst e1 e2 e3; rfl
      · have e1 : a1 = 1 := by omega
        have e2 : a2 = 1 := by omega
        have e3 : a3 = 2 := by omega
        subst e1 e2 e3; rfl
      · have e1 : a1 = 1 := by omega
        have e2 : a2 = 0 := by omega
        have e3 : a3 = 1 := by omega
        subst e1 e2 e3; rfl
      · have e1 : a1 = 1 := by omega
        have e2 : a2 = 2 := by omega
        have e3 : a3 = 1 := by omega
        subst e1 e2 e3; rfl
      · have e1 : a1 = 0 := by omega
        have e2 : a2 = 1 := by omega
        have e3 : a3 = 1 := by omega
        subst e1 e2 e3; rfl
      · have e1 : a1 = 2 := by omega
        have e2 : a2 = 1 := by omega
        have e3 : a3 = 1 := by omega
        subst e1 e2 e3; rfl
    cases hr with
    | border _ _ x => exact x hsurf
    | step _ _ _ x => exact x hsurf

set_option maxRecDepth 1000000 in
/-- the model evaluated on that closed shell: the centre cell is filled (`inside`), the fuel suffices -/
example :
    let r := fill3 true false 3 3 3 ((Array.replicate 27 VV.surf).setIfInBounds (idx3 3 3 1 1 1) .undef)
    r.2 = true ∧ getC3 3 3 r.1 (1, 1, 1) = .inside ∧ getC3 3 3 r.1 (2, 1, 1) = .surf := by
  decide +kernel

set_option maxRecDepth 1000000 in
/-- the model evaluated on the shell with the centre of the face `i = 2` open (the face seeded by the LAST of the six
`mark_outside_surface` calls): the walk from the open face cell reaches the centre -/
example :
    let r := fill3 true false 3 3 3
      (((Array.replicate 27 VV.surf).setIfInBounds (idx3 3 3 1 1 1) .undef).setIfInBounds (idx3 3 3 2 1 1) .undef)
    r.2 = true ∧ getC3 3 3 r.1 (1, 1, 1) = .outside ∧ getC3 3 3 r.1 (2, 1, 1) = .outside ∧
      getC3 3 3 r.1 (0, 1, 1) = .surf := by
  decide +kernel

/-- **fill3_surface_only** (`FillMode::SurfaceOnly`, `dim3`): no loop runs (fuel flag `true`), the size is kept, and every
cell of the grid is `PrimitiveOnSurface` iff it was, every other cell becomes `PrimitiveOutsideSurface`. -/
theorem fill3_surface_only (detectCavities : Bool) (ni nj nk : Nat) (g : Array VV) (hs : g.size = ni * nj * nk) :
    (fill3 false detectCavities ni nj nk g).2 = true ∧ (fill3 false detectCavities ni nj nk g).1.size = ni * nj * nk ∧
    ∀ p, InB3 ni nj nk p →
      (getC3 ni nj (fill3 false detectCavities ni nj nk g).1 p = .surf ↔ getC3 ni nj g p = .surf) ∧
      (getC3 ni nj g p ≠ .surf → getC3 ni nj (fill3 false detectCavities ni nj nk g).1 p = .outside) := by
  have e : fill3 false detectCavities ni nj nk g = (g.map fun v => if v ≠ .surf then .outside else v, true) := by
    unfold fill3; simp
  rw [e]
  refine ⟨rfl, by simp [hs], fun p hp => ?_⟩
  simp only []
  rw [getC3_map ni nj nk g _ hs p hp]
  by_cases h : getC3 ni nj g p = .surf
  · simp [h]
  · simp [h]

/-- **fill3_cav_surf_iff** (`FillMode::FloodFill { detect_cavities: true }`, `dim3`): the fill never changes which cells
are surface cells — a cell is `PrimitiveOnSurface` at the end iff it held one of the four surface values
(`PrimitiveOnSurface`, `…ToWalk1`, `…ToWalk2`, `…NoWalk`) before; in particular, on a grid that comes out of the marking
phase (every cell `PrimitiveUndefined` or `PrimitiveOnSurface`), iff it was `PrimitiveOnSurface`. -/
theorem fill3_cav_surf_iff (ni nj nk : Nat) (g : Array VV) (p : Nat × Nat × Nat) :
    (getC3 ni nj (fill3 true true ni nj nk g).1 p = .surf ↔ isSC (getC3 ni nj g p) = true) ∧
    ((getC3 ni nj g p = .undef ∨ getC3 ni nj g p = .surf) →
      (getC3 ni nj (fill3 true true ni nj nk g).1 p = .surf ↔ getC3 ni nj g p = .surf)) := by
  have h := fill3_cav_surf_getD ni nj nk g (idx3 ni nj p.1 p.2.1 p.2.2)
  refine ⟨h, fun hv => ?_⟩
  unfold getC3 at hv ⊢
  rw [h]
  rcases hv with v | v <;> rw [v] <;> simp [isSC]

/-- **fill3_fuel_all**: every loop of the 3-D fill pass — the `propagate_values` sweeps and, with `detect_cavities`, the
inside/outside alternation (each completed round turns at least two cells into a final value) — stays within the fuel the
model gives it (number of cells + 1), in every `FillMode`, for every grid of the right size. -/
theorem fill3_fuel_all (flood detectCavities : Bool) (ni nj nk : Nat) (g : Array VV) (hs : g.size = ni * nj * nk) :
    (fill3 flood detectCavities ni nj nk g).2 = true := fill3_fuel_all' flood detectCavities ni nj nk g hs

end C18
