import ParryModel.C18.LemmasFill3
/-!
# C18 theorems, part 5: the fill pass of the 3-D voxelizer (`parry3d-f64`) computes the flood-fill specification

`Model.Vox3.fill3` is the transliteration of the `match fill_mode { .. }` block of the `dim3` text of
`VoxelizedVolume::voxelize` (`mark_outside_surface` ×6, `propagate_values` with its six `walk_forward/backward` rays
per cell in memory order, `replace_value`).  These theorems are arithmetic-free (they hold for the grid as an array of
`VoxelValue`s); the specification `Reach3` uses 6-connectivity.
-/
set_option linter.unusedSectionVars false
set_option linter.unusedVariables false
namespace C18
open Model Model.Vox Model.Vox3

/-- **seed3_all_faces**: the exact effect of the six `mark_outside_surface` calls that seed the 3-D flood fill.  On a
grid of the right size with `ni, nj, nk ≥ 1` the size is kept and a cell becomes `PrimitiveOutsideSurfaceToWalk` iff it
was `PrimitiveUndefined` and lies on one of the **six** faces of the grid (`i = 0`, `j = 0`, `k = 0`, `i = ni-1`,
`j = nj-1`, `k = nk-1`); every other cell keeps its value.  (Dropping any of the six calls falsifies this.) -/
theorem seed3_all_faces (ni nj nk : Nat) (hi : 1 ≤ ni) (hj : 1 ≤ nj) (hk : 1 ≤ nk) (g : Array VV)
    (hs : g.size = ni * nj * nk) :
    (markBorder3 ni nj nk g).size = ni * nj * nk ∧
    ∀ p, InB3 ni nj nk p → getC3 ni nj (markBorder3 ni nj nk g) p
      = if OnBorder3 ni nj nk p ∧ getC3 ni nj g p = .undef then .outWalk else getC3 ni nj g p :=
  markBorder3_get ni nj nk g hs hi hj hk

set_option maxRecDepth 100000 in
/-- the model evaluated on the all-`undef` 3×3×3 grid: the centre cell of EACH of the six faces becomes `outWalk`
(`k = 0`, `k = 2`, `j = 0`, `j = 2`, `i = 0`, `i = 2`), the centre of the grid stays `undef` -/
example :
    let g := markBorder3 3 3 3 (Array.replicate 27 VV.undef)
    getC3 3 3 g (1, 1, 0) = .outWalk ∧ getC3 3 3 g (1, 1, 2) = .outWalk ∧
    getC3 3 3 g (1, 0, 1) = .outWalk ∧ getC3 3 3 g (1, 2, 1) = .outWalk ∧
    getC3 3 3 g (0, 1, 1) = .outWalk ∧ getC3 3 3 g (2, 1, 1) = .outWalk ∧
    getC3 3 3 g (1, 1, 1) = .undef := by
  decide

set_option maxRecDepth 100000 in
/-- same grid with a surface cell at the centre of the face `i = 2`: it is not overwritten, the other five face
centres are marked -/
example :
    let g := markBorder3 3 3 3 ((Array.replicate 27 VV.undef).setIfInBounds (idx3 3 3 2 1 1) .surf)
    getC3 3 3 g (1, 1, 0) = .outWalk ∧ getC3 3 3 g (1, 1, 2) = .outWalk ∧
    getC3 3 3 g (1, 0, 1) = .outWalk ∧ getC3 3 3 g (1, 2, 1) = .outWalk ∧
    getC3 3 3 g (0, 1, 1) = .outWalk ∧ getC3 3 3 g (2, 1, 1) = .surf := by
  decide

/-- **the fuel of every `propagate_values` loop the 3-D voxelizer runs suffices** (fuel = number of cells + 1), for the
four parameter sets the code uses (outside pass of the plain flood fill; first outside pass, inside and outside passes of
`detect_cavities`). -/
theorem propagate3_fuel_suffices (ni nj nk : Nat) (g : Array VV) (once : Bool) (hs : g.size = ni * nj * nk) :
    (propagate3 ni nj nk .outWalk .outside none .surf (ni * nj * nk + 1) g once).2.2 = true ∧
    (propagate3 ni nj nk .outWalk .outside none .surfWalk1 (ni * nj * nk + 1) g once).2.2 = true ∧
    (propagate3 ni nj nk .inWalk .inside (some .surfWalk1) .surfWalk2 (ni * nj * nk + 1) g once).2.2 = true ∧
    (propagate3 ni nj nk .outWalk .outside (some .surfWalk2) .surfWalk1 (ni * nj * nk + 1) g once).2.2 = true := by
  have hf : ∀ w, g.size - cnt w g < ni * nj * nk + 1 := fun w => by rw [hs]; omega
  refine ⟨(propagate3_fuel ni nj nk _ _ _ _ (by decide) (by decide) (by decide) (by decide) _ g once hs (hf _)).1,
    (propagate3_fuel ni nj nk _ _ _ _ (by decide) (by decide) (by decide) (by decide) _ g once hs (hf _)).1,
    (propagate3_fuel ni nj nk _ _ _ _ (by decide) (by decide) (by decide) (by decide) _ g once hs (hf _)).1,
    (propagate3_fuel ni nj nk _ _ _ _ (by decide) (by decide) (by decide) (by decide) _ g once hs (hf _)).1⟩

/-- **fill3_spec** (`FillMode::FloodFill { detect_cavities: false, .. }`, `dim3`).  Let `g0` be the grid after the
marking phase (every cell `PrimitiveUndefined` or `PrimitiveOnSurface`), `ni, nj, nk ≥ 1`.  Then the fill pass as coded
terminates within its fuel, keeps the size and, for every cell `p` of the grid,
* `p` is `PrimitiveOnSurface` after the fill iff it was before (surface cells are untouched),
* `p` is `PrimitiveOutsideSurface` iff `Reach3 p`: `p` is a non-surface cell connected to a non-surface cell of one of
  the six faces of the grid through non-surface cells (6-connectivity) — the BFS/flood-fill specification,
* `p` is `PrimitiveInsideSurface` iff it is a non-surface cell that is **not** so connected (exactly the enclosed cells),
and no other value remains. -/
theorem fill3_spec (ni nj nk : Nat) (hi : 1 ≤ ni) (hj : 1 ≤ nj) (hk : 1 ≤ nk) (g0 : Array VV)
    (hs : g0.size = ni * nj * nk)
    (hvals : ∀ p, InB3 ni nj nk p → getC3 ni nj g0 p = .undef ∨ getC3 ni nj g0 p = .surf) :
    (fill3 true false ni nj nk g0).2 = true ∧ (fill3 true false ni nj nk g0).1.size = ni * nj * nk ∧
    ∀ p, InB3 ni nj nk p →
      (getC3 ni nj (fill3 true false ni nj nk g0).1 p = .surf ↔ getC3 ni nj g0 p = .surf) ∧
      (getC3 ni nj (fill3 true false ni nj nk g0).1 p = .outside ↔
        Reach3 ni nj nk (fun q => getC3 ni nj g0 q = .surf) p) ∧
      (getC3 ni nj (fill3 true false ni nj nk g0).1 p = .inside ↔
        (getC3 ni nj g0 p ≠ .surf ∧ ¬ Reach3 ni nj nk (fun q => getC3 ni nj g0 q = .surf) p)) ∧
      (getC3 ni nj (fill3 true false ni nj nk g0).1 p = .surf ∨ getC3 ni nj (fill3 true false ni nj nk g0).1 p = .outside ∨
        getC3 ni nj (fill3 true false ni nj nk g0).1 p = .inside) := by
  set S : Nat × Nat × Nat → Prop := fun q => getC3 ni nj g0 q = .surf with hS
  obtain ⟨m1, m2⟩ := markBorder3_get ni nj nk g0 hs hi hj hk
  -- the invariant holds after `mark_outside_surface`
  have inv0 : FInv3 ni nj nk S (markBorder3 ni nj nk g0) := by
    refine ⟨m1, ?_, ?_, ?_, ?_⟩
    · intro p hp; rw [m2 p hp]; split_ifs with h
      · right; left; rfl
      · rcases hvals p hp with v | v
        · left; exact v
        · right; right; right; exact v
    · intro p hp; rw [m2 p hp]; split_ifs with h
      · constructor
        · intro x; cases x
        · intro x; rw [hS] at x; rw [h.2] at x; cases x
      · rfl
    · intro p hp; rw [m2 p hp]; split_ifs with h
      · intro _
        exact Reach3.border hp h.1 (by rw [hS]; intro x; rw [h.2] at x; cases x)
      · intro hv
        rcases hvals p hp with v | v <;> rw [v] at hv <;> rcases hv with x | x <;> cases x
    · intro p hp hb; rw [m2 p hp]; split_ifs with h
      · intro x; cases x
      · intro x; exact h ⟨hb, x⟩
  have cl0 : Closed3 ni nj nk (markBorder3 ni nj nk g0) := by
    intro p q hp _ _ hv
    rw [m2 p hp] at hv
    split_ifs at hv with h
    rcases hvals p hp with v | v <;> rw [v] at hv <;> cases hv
  have hfuel := (propagate3_fuel ni nj nk .outWalk .outside none .surf (by decide) (by decide) (by decide) (by decide)
    (ni * nj * nk + 1) (markBorder3 ni nj nk g0) false m1 (by rw [m1]; omega))
  obtain ⟨f1, f2, f3⟩ := propagate3_inv ni nj nk S (ni * nj * nk + 1) (markBorder3 ni nj nk g0) false inv0 cl0 hfuel.1
  have hfill : fill3 true false ni nj nk g0 =
      (replaceValue (propagate3 ni nj nk .outWalk .outside none .surf (ni * nj * nk + 1) (markBorder3 ni nj nk g0) false).1 .undef .inside,
       (propagate3 ni nj nk .outWalk .outside none .surf (ni * nj * nk + 1) (markBorder3 ni nj nk g0) false).2.2) := by
    unfold fill3; simp
  rw [hfill]
  set gp := (propagate3 ni nj nk .outWalk .outside none .surf (ni * nj * nk + 1) (markBorder3 ni nj nk g0) false).1 with hgp
  refine ⟨hfuel.1, by simp [replaceValue, f1.size], fun p hp => ?_⟩
  have hval : getC3 ni nj (replaceValue gp .undef .inside) p = if getC3 ni nj gp p = .undef then .inside else getC3 ni nj gp p := by
    unfold replaceValue; rw [getC3_map ni nj nk gp _ f1.size p hp]
  have hspec := fixpoint_spec3 ni nj nk S f1 f2 f3 p hp
  have hsurf := f1.surf p hp
  rcases f1.vals p hp with v | v | v | v
  · -- undef → inside: not reachable, not surface
    have hfin : getC3 ni nj (replaceValue gp .undef .inside) p = .inside := by rw [hval, if_pos v]
    rw [v] at hspec hsurf
    have nr : ¬ Reach3 ni nj nk S p := fun r => by have := hspec.mpr r; cases this
    have ns : ¬ getC3 ni nj g0 p = .surf := fun s => by have := hsurf.mpr s; cases this
    rw [hfin]
    exact ⟨⟨fun x => (by cases x), fun x => absurd x ns⟩, ⟨fun x => (by cases x), fun r => absurd r nr⟩,
      ⟨fun _ => ⟨ns, nr⟩, fun _ => rfl⟩, Or.inr (Or.inr rfl)⟩
  · exact absurd v (f3 p hp)
  · have hfin : getC3 ni nj (replaceValue gp .undef .inside) p = .outside := by
      rw [hval, if_neg (by rw [v]; intro x; cases x), v]
    rw [v] at hspec hsurf
    have r : Reach3 ni nj nk S p := hspec.mp rfl
    have ns : ¬ getC3 ni nj g0 p = .surf := fun s => by have := hsurf.mpr s; cases this
    rw [hfin]
    exact ⟨⟨fun x => (by cases x), fun x => absurd x ns⟩, ⟨fun _ => r, fun _ => rfl⟩,
      ⟨fun x => (by cases x), fun x => absurd r x.2⟩, Or.inr (Or.inl rfl)⟩
  · have hfin : getC3 ni nj (replaceValue gp .undef .inside) p = .surf := by
      rw [hval, if_neg (by rw [v]; intro x; cases x), v]
    rw [v] at hspec hsurf
    have s : getC3 ni nj g0 p = .surf := hsurf.mp rfl
    have nr : ¬ Reach3 ni nj nk S p := fun r => by have := hspec.mpr r; cases this
    rw [hfin]
    exact ⟨⟨fun _ => s, fun _ => rfl⟩, ⟨fun x => (by cases x), fun r => absurd r nr⟩,
      ⟨fun x => (by cases x), fun x => absurd s x.1⟩, Or.inl rfl⟩

end C18
