import ParryModel.C18.ModelSet3
/-!
# C18 model, part 6: the 3-D voxelizer with `keep_voxel_to_primitives_map = true` and the voxel-to-primitive map of the
`VoxelSet` (`parry3d-f64`)

Literal transliteration of the `dim3` text of

* the marking loop of `VoxelizedVolume::voxelize` when `keep_voxel_to_primitives_map` is `true`: the guard
  `detect_self_intersections || keep_voxel_to_primitives_map || *value == PrimitiveUndefined` is then always `true`
  (`detect_self_intersections()` is the constant `false` in `dim3`), so **every** cell of the candidate range of every
  triangle goes through `intersection_test_aabb_triangle`; a positive test sets the cell to `PrimitiveOnSurface`, bumps
  `data[id].num_primitive_intersections` and pushes `(id, tri_id)` on `primitive_intersections`;
* `impl From<VoxelizedVolume> for VoxelSet` with a non-empty `primitive_intersections`: the first loop
  (`for i { for j { for k`) gives every surface voxel the range `(curr, curr + num[id])`, overwrites `num[id]` with the start
  of the range and advances `curr`; the second loop scatters the primitive ids (`vset_intersections[num[voxel_id]] = prim_id;
  num[voxel_id] += 1`) — a counting sort by voxel;
* `VoxelSet::voxelize(points, indices, resolution, fill_mode, true)`.

`scatter` and the `(voxel id, primitive id)` pairs are the dimension-free definitions of `ModelVox.lean`.
-/
namespace Model.Vox3
open Model Model.Vox
variable {K : Type} [Num K]

/-- marking state with the map kept: grid, `data[..].num_primitive_intersections`, `primitive_intersections`, panic flag -/
structure Mark3K where
  g : Array VV
  num : Array Nat
  prims : Array (Nat × Nat)
  panic : Bool

section
variable [Cast K]

/-- body of the `for i.. for j.. for k..` loop over the candidate range of triangle `triId`
(`keep_voxel_to_primitives_map = true`: the cell is tested whatever its value) -/
def markCell3K (ni nj : Nat) (a b c : V3 K) (triId : Nat) (st : Mark3K) (cell : Nat × Nat × Nat) : Mark3K :=
  let id := idx3 ni nj cell.1 cell.2.1 cell.2.2
  let bx := cellAabb3 (K := K) cell.1 cell.2.1 cell.2.2
  if testAabbTriangle bx.1 bx.2 a b c then
    { st with g := st.g.setIfInBounds id .surf,
              num := st.num.setIfInBounds id (st.num.getD id 0 + 1),
              prims := st.prims.push (id, triId) }
  else st

/-- one iteration of `for (tri_id, tri) in indices.iter().enumerate()`; `t = (tri_id, tri)` -/
def markTri3K (ni nj nk : Nat) (origin : V3 K) (invScale : K) (pts : Array (V3 K)) (st : Mark3K)
    (t : Nat × (Nat × Nat × Nat)) : Mark3K :=
  if st.panic then st else
  match pts[t.2.1]?, pts[t.2.2.1]?, pts[t.2.2.2]? with
  | some p0, some p1, some p2 =>
    let a := (p0.sub origin).smul invScale
    let b := (p1.sub origin).smul invScale
    let c := (p2.sub origin).smul invScale
    let ca := cellOf3 a; let cb := cellOf3 b; let cc := cellOf3 c
    let okc (x : Nat × Nat × Nat) : Bool := x.1 < ni && x.2.1 < nj && x.2.2 < nk
    if !(okc ca && okc cb && okc cc) then { st with panic := true } else
    let lo := (min (min ca.1 cb.1) cc.1 - 1, min (min ca.2.1 cb.2.1) cc.2.1 - 1, min (min ca.2.2 cb.2.2) cc.2.2 - 1)
    let hi := (min (max (max ca.1 cb.1) cc.1 + 1) ni, min (max (max ca.2.1 cb.2.1) cc.2.1 + 1) nj,
               min (max (max ca.2.2 cb.2.2) cc.2.2 + 1) nk)
    (cellsIn3 lo.1 lo.2.1 lo.2.2 hi.1 hi.2.1 hi.2.2).foldl (markCell3K ni nj a b c t.1) st
  | _, _, _ => { st with panic := true }

/-- `VoxelizedVolume` (`dim3`) with the map -/
structure Vol3K (K : Type) where
  origin : V3 K
  scale : K
  ni : Nat
  nj : Nat
  nk : Nat
  vals : Array VV
  /-- `data[..].num_primitive_intersections` -/
  num : Array Nat
  /-- `primitive_intersections`, in push order: (voxel id, primitive id) -/
  prims : Array (Nat × Nat)
  panic : Bool

/-- the marking phase of `VoxelizedVolume::voxelize(.., keep_voxel_to_primitives_map = true)` (`dim3`, non-empty points) -/
def markAll3K (res : Nat) (p0 : V3 K) (ps : List (V3 K)) (tris : List (Nat × Nat × Nat)) : Vol3K K :=
  let bb := cloudAabb3 p0 ps
  let gp := gridParams3 res bb.1 bb.2
  let inv := invScale3 res bb.1 bb.2
  let n := gp.1 * gp.2.1 * gp.2.2.1
  let st := (tris.zipIdx.map fun e => (e.2, e.1)).foldl (markTri3K gp.1 gp.2.1 gp.2.2.1 bb.1 inv (p0 :: ps).toArray)
    ⟨Array.replicate n .undef, Array.replicate n 0, #[], false⟩
  ⟨bb.1, gp.2.2.2, gp.1, gp.2.1, gp.2.2.1, st.g, st.num, st.prims, st.panic⟩

/-- `VoxelizedVolume::voxelize(points, indices, resolution, fill_mode, true)` (`dim3`): `(volume, fuel ok)` -/
def voxelize3K (flood detectCavities : Bool) (res : Nat) (p0 : V3 K) (ps : List (V3 K)) (tris : List (Nat × Nat × Nat)) :
    Vol3K K × Bool :=
  let m := markAll3K res p0 ps tris
  if m.panic then (m, true) else
  let r := fill3 flood detectCavities m.ni m.nj m.nk m.vals
  ({ m with vals := r.1 }, r.2)
end

/-! ## `impl From<VoxelizedVolume> for VoxelSet` with the map -/

/-- a `Voxel` of the 3-D `VoxelSet`: coordinates, `is_on_surface`, `intersections_range` -/
structure Voxel3K where
  i : Nat
  j : Nat
  k : Nat
  surf : Bool
  r0 : Nat
  r1 : Nat
deriving Repr, DecidableEq

/-- state of the first loop: voxels, `curr_intersection_index`, `data[..].num_primitive_intersections` -/
structure FromSt3 where
  voxels : Array Voxel3K
  curr : Nat
  num : Array Nat

/-- body of the `for i { for j { for k` loop of `VoxelSet::from(volume)` -/
def fromCell3K (ni nj : Nat) (vals : Array VV) (hasPrims : Bool) (st : FromSt3) (c : Nat × Nat × Nat) : FromSt3 :=
  let id := idx3 ni nj c.1 c.2.1 c.2.2
  let value := vals.getD id .undef
  if value = .inside then { st with voxels := st.voxels.push ⟨c.1, c.2.1, c.2.2, false, st.curr, st.curr⟩ }
  else if value = .surf then
    if hasPrims then
      let n := st.num.getD id 0
      ⟨st.voxels.push ⟨c.1, c.2.1, c.2.2, true, st.curr, st.curr + n⟩, st.curr + n, st.num.setIfInBounds id st.curr⟩
    else { st with voxels := st.voxels.push ⟨c.1, c.2.1, c.2.2, true, st.curr, st.curr⟩ }
  else st

/-- `VoxelSet::from(volume)`: `(voxels, intersections)` -/
def toVoxelSet3K {K : Type} (v : Vol3K K) : Array Voxel3K × Array Nat :=
  let hasPrims := !v.prims.isEmpty
  let st := (cellsIn3 0 0 0 v.ni v.nj v.nk).foldl (fromCell3K v.ni v.nj v.vals hasPrims) ⟨#[], 0, v.num⟩
  if hasPrims then
    (st.voxels, (v.prims.foldl scatter (Array.replicate v.prims.size 0, st.num)).1)
  else (st.voxels, #[])

/-- the primitives listed for a voxel: `intersections[r0..r1]` -/
def voxelPrims3 (inter : Array Nat) (v : Voxel3K) : List Nat := (inter.toList.drop v.r0).take (v.r1 - v.r0)

end Model.Vox3
