import ParryModel.C18.LemmasMark
/-!
# C18 lemmas for the 2-D voxelizer model, part 5: `impl From<VoxelizedVolume> for VoxelSet`
The counting sort that flattens `primitive_intersections` into per-voxel ranges: the scatter loop (`scatter_spec`), the
first loop that assigns the ranges (`fromLoop_inv`), and the combination (`toVoxelSet_map`).
-/
set_option linter.unusedSectionVars false
set_option linter.unusedVariables false
set_option linter.unusedSimpArgs false
namespace C18
open Model Model.Vox

theorem getD_setIfInBounds_nat (a : Array Nat) (i k x : Nat) :
    (a.setIfInBounds i x).getD k 0 = if i = k ∧ i < a.size then x else a.getD k 0 := by
  simp only [Array.getD_eq_getD_getElem?, Array.getElem?_setIfInBounds]
  by_cases e : i = k
  · subst e
    by_cases h : i < a.size
    · simp [h]
    · simp [h]
  · simp [e]

/-- **the counting-sort scatter loop** (`vset_intersections[num[voxel_id]] = prim_id; num[voxel_id] += 1`): if the blocks
`[start a, start a + n a)` of the ids are pairwise disjoint and inside the output, and `num` holds the next free slot of
every block, then after the loop block `a` holds the list `T a` (whose not yet placed tail is the sub-list of the
remaining pairs with id `a`). -/
theorem scatter_spec (ids : List Nat) (start n : Nat → Nat) (T : Nat → List Nat) (M : Nat)
    (hdisj : ∀ a ∈ ids, ∀ b ∈ ids, a ≠ b → start a + n a ≤ start b ∨ start b + n b ≤ start a)
    (hM : ∀ a ∈ ids, start a + n a ≤ M) (hT : ∀ a ∈ ids, (T a).length = n a) :
    ∀ (P : List (Nat × Nat)) (out num : Array Nat) (cnt : Nat → Nat),
      out.size = M → (∀ pr ∈ P, pr.1 ∈ ids) →
      (∀ a ∈ ids, a < num.size ∧ num.getD a 0 = start a + cnt a) →
      (∀ a ∈ ids, cnt a ≤ n a ∧ (T a).drop (cnt a) = (P.filter (fun pr => pr.1 = a)).map (·.2)) →
      (∀ a ∈ ids, ∀ j, j < cnt a → out.getD (start a + j) 0 = (T a).getD j 0) →
      (P.foldl scatter (out, num)).1.size = M ∧
      ∀ a ∈ ids, ∀ j, j < n a → (P.foldl scatter (out, num)).1.getD (start a + j) 0 = (T a).getD j 0
  | [], out, num, cnt, hsz, _, _, hcnt, hout => by
    refine ⟨hsz, fun a ha j hj => ?_⟩
    obtain ⟨c1, c2⟩ := hcnt a ha
    have : n a ≤ cnt a := by
      have := congrArg List.length c2
      simp at this
      rw [hT a ha] at this; omega
    exact hout a ha j (by omega)
  | (a0, x) :: P, out, num, cnt, hsz, hP, hnum, hcnt, hout => by
    rw [List.foldl_cons]
    have ha0 : a0 ∈ ids := hP (a0, x) List.mem_cons_self
    obtain ⟨n1, n2⟩ := hnum a0 ha0
    obtain ⟨c1, c2⟩ := hcnt a0 ha0
    have c2' : (T a0).drop (cnt a0) = x :: (P.filter (fun pr => pr.1 = a0)).map (·.2) := by
      rw [c2]; simp [List.filter_cons]
    have hlt : cnt a0 < n a0 := by
      by_contra h
      have : (T a0).drop (cnt a0) = [] := List.drop_eq_nil_of_le (by rw [hT a0 ha0]; omega)
      rw [this] at c2'; cases c2'
    have hx : (T a0).getD (cnt a0) 0 = x := by
      have h1 : ((T a0).drop (cnt a0)).getD 0 0 = x := by rw [c2']; rfl
      simpa [List.getD_eq_getElem?_getD, List.getElem?_drop] using h1
    have hdrop : (T a0).drop (cnt a0 + 1) = (P.filter (fun pr => pr.1 = a0)).map (·.2) := by
      have : (T a0).drop (cnt a0 + 1) = ((T a0).drop (cnt a0)).drop 1 := by rw [List.drop_drop]
      rw [this, c2']; rfl
    have hsc : scatter (out, num) (a0, x) = (out.setIfInBounds (start a0 + cnt a0) x, num.setIfInBounds a0 (start a0 + cnt a0 + 1)) := by
      unfold scatter; simp only []; rw [n2]
    rw [hsc]
    apply scatter_spec ids start n T M hdisj hM hT P _ _ (fun a => if a = a0 then cnt a0 + 1 else cnt a)
    · simp [hsz]
    · exact fun pr hpr => hP pr (List.mem_cons_of_mem _ hpr)
    · intro a ha
      obtain ⟨m1, m2⟩ := hnum a ha
      refine ⟨by simpa using m1, ?_⟩
      rw [getD_setIfInBounds_nat]
      by_cases e : a = a0
      · subst e; simp [n1]; omega
      · have e' : ¬ a0 = a := fun h => e h.symm
        simp [e, e', m2]
    · intro a ha
      by_cases e : a = a0
      · subst e; simp only [if_true]; exact ⟨by omega, hdrop⟩
      · simp only [if_neg e]
        obtain ⟨d1, d2⟩ := hcnt a ha
        refine ⟨d1, ?_⟩
        rw [d2, List.filter_cons]
        have : ¬ ((a0, x).1 = a) := fun h => e h.symm
        simp [this]
    · intro a ha j hj
      rw [getD_setIfInBounds_nat]
      by_cases e : a = a0
      · subst e
        simp only [if_true] at hj
        by_cases ej : j = cnt a
        · subst ej
          have : start a + cnt a < out.size := by rw [hsz]; have := hM a ha; omega
          rw [if_pos ⟨rfl, this⟩]; exact hx.symm
        · have : ¬ (start a + cnt a = start a + j ∧ start a + cnt a < out.size) := by omega
          rw [if_neg this]
          exact hout a ha j (by omega)
      · simp only [if_neg e] at hj
        obtain ⟨d1, _⟩ := hcnt a ha
        have hd := hdisj a ha a0 ha0 e
        have : ¬ (start a0 + cnt a0 = start a + j ∧ start a0 + cnt a0 < out.size) := by omega
        rw [if_neg this]
        exact hout a ha j hj

/-- the surface voxels pushed so far -/
def SV (st : FromSt) : List Voxel2 := st.voxels.toList.filter (·.surf)

/-- invariant of the first loop of `From<VoxelizedVolume>` (map kept) after the cells `L` -/
structure FromInv (ni nj : Nat) (vals : Array VV) (num0 : Array Nat) (st : FromSt) (L : List (Nat × Nat)) : Prop where
  size : st.num.size = num0.size
  keep : ∀ id, (∀ c ∈ L, getC ni vals c = .surf → idx ni c.1 c.2 ≠ id) → st.num.getD id 0 = num0.getD id 0
  pair : List.Pairwise (fun w w' : Voxel2 => w.r1 ≤ w'.r0) (SV st)
  each : ∀ w ∈ SV st, w.r1 = w.r0 + num0.getD (idx ni w.i w.j) 0 ∧ w.r1 ≤ st.curr ∧ st.num.getD (idx ni w.i w.j) 0 = w.r0
  cells : (SV st).map (fun w => (w.i, w.j)) = L.filter (fun c => getC ni vals c = .surf)
  curr : st.curr = ((SV st).map (fun w => num0.getD (idx ni w.i w.j) 0)).sum

theorem fromCell_eq (ni : Nat) (vals : Array VV) (st : FromSt) (c : Nat × Nat) :
    fromCell ni vals true st c =
      if getC ni vals c = .inside then { st with voxels := st.voxels.push ⟨c.1, c.2, false, st.curr, st.curr⟩ }
      else if getC ni vals c = .surf then
        ⟨st.voxels.push ⟨c.1, c.2, true, st.curr, st.curr + st.num.getD (idx ni c.1 c.2) 0⟩,
          st.curr + st.num.getD (idx ni c.1 c.2) 0, st.num.setIfInBounds (idx ni c.1 c.2) st.curr⟩
      else st := by
  unfold fromCell getC; simp

theorem fromLoop_inv (ni nj : Nat) (vals : Array VV) (num0 : Array Nat) (hn0 : num0.size = ni * nj) :
    ∀ (l : List (Nat × Nat)) (st : FromSt) (L : List (Nat × Nat)), FromInv ni nj vals num0 st L →
      (∀ c ∈ l, InB ni nj c) → (∀ c ∈ L, InB ni nj c) → (∀ c ∈ l, c ∉ L) → l.Nodup →
      FromInv ni nj vals num0 (l.foldl (fromCell ni vals true) st) (L ++ l)
  | [], st, L, h, _, _, _, _ => by simpa using h
  | c :: l, st, L, h, hl, hL, hnot, hnd => by
    rw [List.foldl_cons]
    have hc : InB ni nj c := hl c List.mem_cons_self
    have hcL : c ∉ L := hnot c List.mem_cons_self
    have step : FromInv ni nj vals num0 (fromCell ni vals true st c) (L ++ [c]) := by
      rw [fromCell_eq]
      by_cases h1 : getC ni vals c = .inside
      · rw [if_pos h1]
        have hsv : SV { st with voxels := st.voxels.push ⟨c.1, c.2, false, st.curr, st.curr⟩ } = SV st := by
          simp [SV, List.filter_append]
        have hns : ¬ getC ni vals c = .surf := by rw [h1]; intro x; cases x
        refine ⟨h.size, ?_, by rw [hsv]; exact h.pair, by rw [hsv]; exact h.each, ?_, by rw [hsv]; exact h.curr⟩
        · intro id hid
          exact h.keep id (fun c' hc' => hid c' (List.mem_append_left _ hc'))
        · rw [hsv, h.cells]; simp [List.filter_append, hns]
      · rw [if_neg h1]
        by_cases h2 : getC ni vals c = .surf
        · rw [if_pos h2]
          -- the counter of this cell has not been overwritten yet
          have hnum : st.num.getD (idx ni c.1 c.2) 0 = num0.getD (idx ni c.1 c.2) 0 := by
            apply h.keep
            intro c' hc' _ e
            have := idx_inj (hL c' hc').1 hc.1 e
            exact hcL (by rw [← Prod.ext this.1 this.2]; exact hc')
          have hlt : idx ni c.1 c.2 < st.num.size := by rw [h.size, hn0]; exact idx_lt hc.1 hc.2
          set w : Voxel2 := ⟨c.1, c.2, true, st.curr, st.curr + st.num.getD (idx ni c.1 c.2) 0⟩ with hw
          have hsv : SV ⟨st.voxels.push w, st.curr + st.num.getD (idx ni c.1 c.2) 0, st.num.setIfInBounds (idx ni c.1 c.2) st.curr⟩
              = SV st ++ [w] := by
            simp [SV, List.filter_append, hw]
          refine ⟨by simp [h.size], ?_, ?_, ?_, ?_, ?_⟩
          · intro id hid
            have hne : idx ni c.1 c.2 ≠ id := hid c (by simp) h2
            rw [getD_setIfInBounds_nat, if_neg (fun x => hne x.1)]
            exact h.keep id (fun c' hc' => hid c' (List.mem_append_left _ hc'))
          · rw [hsv, List.pairwise_append]
            refine ⟨h.pair, List.pairwise_singleton _ _, ?_⟩
            intro a ha b hb
            simp only [List.mem_singleton] at hb
            subst hb
            exact (h.each a ha).2.1
          · rw [hsv]
            intro a ha
            rcases List.mem_append.mp ha with ha | ha
            · obtain ⟨e1, e2, e3⟩ := h.each a ha
              refine ⟨e1, by show a.r1 ≤ st.curr + st.num.getD (idx ni c.1 c.2) 0; omega, ?_⟩
              -- `a` is an earlier surface voxel: a different cell
              have hacell : (a.i, a.j) ∈ L := by
                have : (a.i, a.j) ∈ (SV st).map (fun w => (w.i, w.j)) := List.mem_map.mpr ⟨a, ha, rfl⟩
                rw [h.cells] at this
                exact (List.mem_filter.mp this).1
              have hne : idx ni c.1 c.2 ≠ idx ni a.i a.j := by
                intro e
                have := idx_inj hc.1 (hL _ hacell).1 e
                exact hcL (by rw [Prod.ext this.1 this.2]; exact hacell)
              simp only []
              rw [getD_setIfInBounds_nat, if_neg (fun x => hne x.1)]
              exact e3
            · simp only [List.mem_singleton] at ha
              subst ha
              simp only [hw]
              refine ⟨by rw [hnum], le_refl _, ?_⟩
              rw [getD_setIfInBounds_nat, if_pos ⟨rfl, hlt⟩]
          · rw [hsv, List.map_append, h.cells]
            simp [List.filter_append, h2, hw]
          · rw [hsv, List.map_append, List.sum_append]
            simp only [hw, List.map_cons, List.map_nil, List.sum_cons, List.sum_nil]
            rw [← h.curr, hnum]; omega
        · rw [if_neg h2]
          refine ⟨h.size, ?_, h.pair, h.each, ?_, h.curr⟩
          · intro id hid
            exact h.keep id (fun c' hc' => hid c' (List.mem_append_left _ hc'))
          · rw [h.cells]; simp [List.filter_append, h2]
    have := fromLoop_inv ni nj vals num0 hn0 l (fromCell ni vals true st c) (L ++ [c]) step
      (fun x hx => hl x (List.mem_cons_of_mem _ hx))
      (fun x hx => by rcases List.mem_append.mp hx with h' | h'
                      · exact hL x h'
                      · simp at h'; subst h'; exact hc)
      (fun x hx hx' => by
        rcases List.mem_append.mp hx' with h' | h'
        · exact hnot x (List.mem_cons_of_mem _ hx) h'
        · simp at h'; subst h'; exact (List.nodup_cons.mp hnd).1 hx)
      (List.nodup_cons.mp hnd).2
    simpa [List.append_assoc] using this

theorem cellsIn_nodup (i0 j0 i1 j1 : Nat) : (cellsIn i0 j0 i1 j1).Nodup := by
  unfold cellsIn
  rw [List.nodup_flatMap]
  constructor
  · intro i _
    exact (List.nodup_range' (step := 1) (by omega)).map (fun a b h => by simpa using h)
  · apply List.Pairwise.imp _ (List.nodup_range' (s := i0) (n := i1 - i0) (step := 1) (by omega))
    intro a b hab
    simp only [Function.onFun, List.disjoint_left, List.mem_map]
    rintro x ⟨j, _, rfl⟩ ⟨j', _, h⟩
    exact hab (by simpa using (congrArg Prod.fst h).symm)

theorem sum_delta_zero (x : Nat) : ∀ (ids : List Nat), x ∉ ids → (ids.map (fun a => if x = a then 1 else 0)).sum = 0
  | [], _ => rfl
  | a :: ids, h => by
    have h1 : ¬ x = a := fun e => h (by rw [e]; exact List.mem_cons_self)
    have h2 : x ∉ ids := fun e => h (List.mem_cons_of_mem _ e)
    simp only [List.map_cons, List.sum_cons, if_neg h1, sum_delta_zero x ids h2]

theorem sum_delta_le (x : Nat) : ∀ (ids : List Nat), ids.Nodup → (ids.map (fun a => if x = a then 1 else 0)).sum ≤ 1
  | [], _ => by simp
  | a :: ids, h => by
    have hnd := List.nodup_cons.mp h
    simp only [List.map_cons, List.sum_cons]
    by_cases e : x = a
    · subst e; rw [if_pos rfl, sum_delta_zero x ids hnd.1]
    · rw [if_neg e]; have := sum_delta_le x ids hnd.2; omega

/-- distinct ids select disjoint sub-lists: the counts add up to at most the length -/
theorem sum_count_le (P : List (Nat × Nat)) : ∀ (ids : List Nat), ids.Nodup →
    (ids.map (fun a => (P.filter (fun pr => pr.1 = a)).length)).sum ≤ P.length := by
  induction P with
  | nil => intro ids _; simp
  | cons pr P ih =>
    intro ids hnd
    have hcons : ∀ a, ((pr :: P).filter (fun q => q.1 = a)).length
        = (P.filter (fun q => q.1 = a)).length + (if pr.1 = a then 1 else 0) := by
      intro a
      by_cases e : pr.1 = a
      · simp [List.filter_cons, e]
      · simp [List.filter_cons, e]
    have e1 : (ids.map (fun a => ((pr :: P).filter (fun q => q.1 = a)).length))
        = ids.map (fun a => (P.filter (fun q => q.1 = a)).length + (if pr.1 = a then 1 else 0)) :=
      List.map_congr_left (fun a _ => hcons a)
    rw [e1, List.sum_map_add]
    have := ih ids hnd
    have := sum_delta_le pr.1 ids hnd
    simp only [List.length_cons]
    omega

theorem pairwise_either {α : Type} {R : α → α → Prop} : ∀ {l : List α}, l.Pairwise R →
    ∀ a ∈ l, ∀ b ∈ l, a ≠ b → R a b ∨ R b a
  | [], _, a, ha, _, _, _ => by cases ha
  | x :: l, h, a, ha, b, hb, hab => by
    obtain ⟨h1, h2⟩ := List.pairwise_cons.mp h
    rcases List.mem_cons.mp ha with rfl | ha' <;> rcases List.mem_cons.mp hb with rfl | hb'
    · exact absurd rfl hab
    · exact Or.inl (h1 b hb')
    · exact Or.inr (h1 a ha')
    · exact pairwise_either h2 a ha' b hb' hab

theorem list_ext_getD (l1 l2 : List Nat) (hl : l1.length = l2.length) (h : ∀ j, j < l1.length → l1.getD j 0 = l2.getD j 0) :
    l1 = l2 := by
  apply List.ext_getElem hl
  intro j h1 h2
  have := h j h1
  simpa [List.getD_eq_getElem?_getD, h1, h2] using this

/-- **the flattened voxel-to-primitive map of the `VoxelSet`**.  Let `v` be a volume whose per-cell counters agree with
`primitive_intersections` (`numInter[id]` = number of entries with voxel id `id`) and whose entries all name surface cells.
Then for every surface voxel `w` of `VoxelSet::from(v)` the slice `intersections[w.range]` is exactly the list of primitive
ids of the entries of `primitive_intersections` with voxel id `voxel_index(w)`, in push order. -/
theorem toVoxelSet_map {K : Type} (v : Vol K) (hne : v.prims.isEmpty = false) (hsz : v.numInter.size = v.ni * v.nj)
    (hnum : ∀ id, v.numInter.getD id 0 = (v.prims.toList.filter (fun pr => pr.1 = id)).length)
    (hsurf : ∀ pr ∈ v.prims.toList, ∃ c, InB v.ni v.nj c ∧ pr.1 = idx v.ni c.1 c.2 ∧ getC v.ni v.vals c = .surf) :
    ∀ w ∈ (toVoxelSet v).1.toList, w.surf = true →
      voxelPrims (toVoxelSet v).2 w = (v.prims.toList.filter (fun pr => pr.1 = idx v.ni w.i w.j)).map (·.2) := by
  set ni := v.ni with hni
  set nj := v.nj with hnj
  set P := v.prims.toList with hP
  set L := cellsIn 0 0 ni nj with hL
  set st := L.foldl (fromCell ni v.vals true) ⟨#[], 0, v.numInter⟩ with hst
  have hLin : ∀ c ∈ L, InB ni nj c := fun c hc => ⟨(mem_cellsIn.mp hc).1.2, (mem_cellsIn.mp hc).2.2⟩
  have inv0 : FromInv ni nj v.vals v.numInter ⟨#[], 0, v.numInter⟩ [] :=
    ⟨rfl, fun _ _ => rfl, by simp [SV], by simp [SV], by simp [SV], by simp [SV]⟩
  have inv : FromInv ni nj v.vals v.numInter st L := by
    have := fromLoop_inv ni nj v.vals v.numInter hsz L _ [] inv0 hLin (by simp) (by simp) (cellsIn_nodup 0 0 ni nj)
    simpa using this
  have htv : toVoxelSet v = (st.voxels, (P.foldl scatter (Array.replicate v.prims.size 0, st.num)).1) := by
    unfold toVoxelSet
    simp only [hne, Bool.not_false, if_true]
    rw [← Array.foldl_toList]
  rw [htv]
  simp only []
  -- the blocks
  set ids := (SV st).map (fun w => idx ni w.i w.j) with hids
  have hcellL : ∀ w ∈ SV st, (w.i, w.j) ∈ L ∧ getC ni v.vals (w.i, w.j) = .surf := by
    intro w hw
    have : (w.i, w.j) ∈ (SV st).map (fun w => (w.i, w.j)) := List.mem_map.mpr ⟨w, hw, rfl⟩
    rw [inv.cells] at this
    have := List.mem_filter.mp this
    exact ⟨this.1, by simpa using this.2⟩
  have hidsnd : ids.Nodup := by
    have h1 : ((SV st).map (fun w => (w.i, w.j))).Nodup := by
      rw [inv.cells]; exact (cellsIn_nodup 0 0 ni nj).filter _
    have h2 : ids = ((SV st).map (fun w => (w.i, w.j))).map (fun c => idx ni c.1 c.2) := by
      rw [hids, List.map_map]; rfl
    rw [h2]
    apply List.Nodup.map_on _ h1
    intro a ha b hb e
    rw [inv.cells] at ha hb
    have ha' := hLin a (List.mem_filter.mp ha).1
    have hb' := hLin b (List.mem_filter.mp hb).1
    have := idx_inj ha'.1 hb'.1 e
    exact Prod.ext this.1 this.2
  have hsym : ∀ a ∈ SV st, ∀ b ∈ SV st, a ≠ b → a.r1 ≤ b.r0 ∨ b.r1 ≤ a.r0 := pairwise_either inv.pair
  have hmem : ∀ a ∈ ids, ∃ w ∈ SV st, idx ni w.i w.j = a := by
    intro a ha
    obtain ⟨w, hw, e⟩ := List.mem_map.mp ha
    exact ⟨w, hw, e⟩
  have hdisj : ∀ a ∈ ids, ∀ b ∈ ids, a ≠ b →
      st.num.getD a 0 + v.numInter.getD a 0 ≤ st.num.getD b 0 ∨ st.num.getD b 0 + v.numInter.getD b 0 ≤ st.num.getD a 0 := by
    intro a ha b hb hab
    obtain ⟨wa, hwa, rfl⟩ := hmem a ha
    obtain ⟨wb, hwb, rfl⟩ := hmem b hb
    have hne' : wa ≠ wb := fun e => hab (by rw [e])
    obtain ⟨a1, _, a3⟩ := inv.each wa hwa
    obtain ⟨b1, _, b3⟩ := inv.each wb hwb
    rcases hsym wa hwa wb hwb hne' with h | h
    · left; omega
    · right; omega
  have hcurr : st.curr ≤ P.length := by
    rw [inv.curr]
    have e : (SV st).map (fun w => v.numInter.getD (idx ni w.i w.j) 0)
        = ids.map (fun a => (P.filter (fun pr => pr.1 = a)).length) := by
      rw [hids, List.map_map]
      apply List.map_congr_left
      intro w _
      simp only [Function.comp]
      exact hnum _
    rw [e]
    exact sum_count_le P ids hidsnd
  have hM : ∀ a ∈ ids, st.num.getD a 0 + v.numInter.getD a 0 ≤ P.length := by
    intro a ha
    obtain ⟨w, hw, rfl⟩ := hmem a ha
    obtain ⟨a1, a2, a3⟩ := inv.each w hw
    omega
  obtain ⟨r1, r2⟩ := scatter_spec ids (fun a => st.num.getD a 0) (fun a => v.numInter.getD a 0)
    (fun a => (P.filter (fun pr => pr.1 = a)).map (·.2)) P.length hdisj hM
    (fun a _ => by simp only [List.length_map]; exact (hnum a).symm)
    P (Array.replicate v.prims.size 0) st.num (fun _ => 0)
    (by simp [hP])
    (by
      intro pr hpr
      obtain ⟨c, hc, e, hs⟩ := hsurf pr hpr
      have hcL : c ∈ L.filter (fun c => getC ni v.vals c = .surf) :=
        List.mem_filter.mpr ⟨mem_cellsIn.mpr ⟨⟨Nat.zero_le _, hc.1⟩, ⟨Nat.zero_le _, hc.2⟩⟩, by simpa using hs⟩
      rw [← inv.cells] at hcL
      obtain ⟨w, hw, ew⟩ := List.mem_map.mp hcL
      rw [e, ← ew]
      exact List.mem_map.mpr ⟨w, hw, rfl⟩)
    (by
      intro a ha
      obtain ⟨w, hw, rfl⟩ := hmem a ha
      have hin := hLin _ (hcellL w hw).1
      refine ⟨by rw [inv.size, hsz]; exact idx_lt hin.1 hin.2, by simp⟩)
    (by intro a _; exact ⟨Nat.zero_le _, by simp⟩)
    (by intro a _ j hj; omega)
  intro w hw hws
  have hwsv : w ∈ SV st := List.mem_filter.mpr ⟨hw, by simpa using hws⟩
  obtain ⟨e1, e2, e3⟩ := inv.each w hwsv
  have ha : idx ni w.i w.j ∈ ids := List.mem_map.mpr ⟨w, hwsv, rfl⟩
  set out := (P.foldl scatter (Array.replicate v.prims.size 0, st.num)).1 with hout
  unfold voxelPrims
  have hlen : ((out.toList.drop w.r0).take (w.r1 - w.r0)).length = v.numInter.getD (idx ni w.i w.j) 0 := by
    have h1 := hM _ ha
    simp only [List.length_take, List.length_drop, Array.length_toList, r1]
    omega
  apply list_ext_getD
  · rw [hlen, List.length_map]; exact hnum _
  · intro j hj
    rw [hlen] at hj
    have := r2 _ ha j hj
    rw [e3] at this
    rw [← this]
    simp only [List.getD_eq_getElem?_getD, List.getElem?_take, List.getElem?_drop, Array.getD_eq_getD_getElem?]
    rw [if_pos (by omega)]
    simp

/-- what `From<VoxelizedVolume>` keeps of a cell: inside cells as non-surface voxels, surface cells as surface voxels -/
def classify (ni : Nat) (vals : Array VV) (c : Nat × Nat) : Option ((Nat × Nat) × Bool) :=
  if getC ni vals c = .inside then some (c, false) else if getC ni vals c = .surf then some (c, true) else none

theorem fromCell_eq2 (ni : Nat) (vals : Array VV) (hp : Bool) (st : FromSt) (c : Nat × Nat) :
    fromCell ni vals hp st c =
      if getC ni vals c = .inside then { st with voxels := st.voxels.push ⟨c.1, c.2, false, st.curr, st.curr⟩ }
      else if getC ni vals c = .surf then
        if hp then
          ⟨st.voxels.push ⟨c.1, c.2, true, st.curr, st.curr + st.num.getD (idx ni c.1 c.2) 0⟩,
            st.curr + st.num.getD (idx ni c.1 c.2) 0, st.num.setIfInBounds (idx ni c.1 c.2) st.curr⟩
        else { st with voxels := st.voxels.push ⟨c.1, c.2, true, st.curr, st.curr⟩ }
      else st := rfl

theorem fromCell_voxels (ni : Nat) (vals : Array VV) (hp : Bool) (st : FromSt) (c : Nat × Nat) :
    (fromCell ni vals hp st c).voxels.toList.map (fun w => ((w.i, w.j), w.surf))
      = st.voxels.toList.map (fun w => ((w.i, w.j), w.surf)) ++ (classify ni vals c).toList := by
  rw [fromCell_eq2]
  unfold classify
  by_cases h1 : getC ni vals c = .inside
  · rw [if_pos h1, if_pos h1]; simp
  · rw [if_neg h1, if_neg h1]
    by_cases h2 : getC ni vals c = .surf
    · rw [if_pos h2, if_pos h2]
      cases hp <;> simp
    · rw [if_neg h2, if_neg h2]; simp

theorem fromLoop_voxels (ni : Nat) (vals : Array VV) (hp : Bool) : ∀ (l : List (Nat × Nat)) (st : FromSt),
    (l.foldl (fromCell ni vals hp) st).voxels.toList.map (fun w => ((w.i, w.j), w.surf))
      = st.voxels.toList.map (fun w => ((w.i, w.j), w.surf)) ++ l.filterMap (classify ni vals)
  | [], st => by simp
  | c :: l, st => by
    rw [List.foldl_cons, fromLoop_voxels ni vals hp l, fromCell_voxels, List.append_assoc, List.filterMap_cons]
    congr 1
    cases classify ni vals c <;> rfl

/-- **the voxel list of the `VoxelSet`**: the inside and surface cells of the volume, in the scan order
`for i in 0..resolution[0] { for j in 0..resolution[1] {..} }`, with `is_on_surface` set exactly on the surface cells -/
theorem toVoxelSet_voxels {K : Type} (v : Vol K) :
    (toVoxelSet v).1.toList.map (fun w => ((w.i, w.j), w.surf)) = (cellsIn 0 0 v.ni v.nj).filterMap (classify v.ni v.vals) := by
  unfold toVoxelSet
  simp only []
  split_ifs <;> simp [fromLoop_voxels]

section
variable {K : Type} [Num K] [Cast K]

/-- the per-cell counters agree with `primitive_intersections`, whose entries all name surface cells -/
structure NumInv (st : Vol K) : Prop where
  size : st.numInter.size = st.ni * st.nj
  cnt : ∀ id, st.numInter.getD id 0 = (st.prims.toList.filter (fun pr => pr.1 = id)).length
  surf : ∀ pr ∈ st.prims.toList, ∃ c, InB st.ni st.nj c ∧ pr.1 = idx st.ni c.1 c.2 ∧ getC st.ni st.vals c = .surf

/-- what the marking loop keeps: grid dimensions, `MGood`, `NumInv` -/
def MarkInv (NI NJ : Nat) (st : Vol K) : Prop := st.ni = NI ∧ st.nj = NJ ∧ MGood st ∧ NumInv st

theorem markCell_inv (cfg : Cfg) (hsi : cfg.detectSelfInter = false) (g0 g1 : V2 K) (k : Nat) (NI NJ : Nat) (st : Vol K)
    (h : MarkInv NI NJ st) (c : Nat × Nat) (hc : InB NI NJ c) : MarkInv NI NJ (markCell cfg g0 g1 k st c) := by
  obtain ⟨e1, e2, hg, hn⟩ := h
  rw [markCell_eq cfg hsi]
  by_cases hcond : (cfg.keepMap = true ∨ getC st.ni st.vals c = .undef) ∧ cellHit g0 g1 c = true
  · rw [if_pos hcond]
    have hc' : InB st.ni st.nj c := by rw [e1, e2]; exact hc
    have hget : ∀ q, InB st.ni st.nj q → getC st.ni (setC st.ni st.vals c .surf) q = if c = q then .surf else getC st.ni st.vals q :=
      fun q hq => getC_setC hg.size .surf hc' hq.1
    have hidx : idx st.ni c.1 c.2 < st.numInter.size := by rw [hn.size]; exact idx_lt hc'.1 hc'.2
    by_cases hk : cfg.keepMap = true
    · have e : markHit cfg.keepMap st c k =
          { st with numInter := st.numInter.setIfInBounds (idx st.ni c.1 c.2) (st.numInter.getD (idx st.ni c.1 c.2) 0 + 1),
                    prims := st.prims.push (idx st.ni c.1 c.2, k), vals := setC st.ni st.vals c .surf } := by
        unfold markHit; simp [hk]
      rw [e]
      refine ⟨e1, e2, ⟨by simp only []; rw [size_setC]; exact hg.size, ?_⟩, ⟨by simp only []; simp [hn.size], ?_, ?_⟩⟩
      · intro q hq; simp only [] at hq ⊢; rw [hget q hq]; split_ifs
        · right; rfl
        · exact hg.vals q hq
      · intro id
        simp only [Array.toList_push, List.filter_append, List.length_append]
        rw [getD_setIfInBounds_nat]
        by_cases e : idx st.ni c.1 c.2 = id
        · subst e; rw [if_pos ⟨rfl, hidx⟩, hn.cnt]; simp
        · rw [if_neg (fun x => e x.1), hn.cnt]; simp [e]
      · intro pr hpr
        simp only [Array.toList_push, List.mem_append, List.mem_singleton] at hpr
        rcases hpr with hpr | rfl
        · obtain ⟨q, hq, e, hs⟩ := hn.surf pr hpr
          refine ⟨q, hq, e, ?_⟩
          simp only []
          rw [hget q hq]; split_ifs
          · rfl
          · exact hs
        · exact ⟨c, hc', rfl, by simp only []; rw [hget c hc', if_pos rfl]⟩
    · have hk' : cfg.keepMap = false := by simpa using hk
      have e : markHit cfg.keepMap st c k = { st with vals := setC st.ni st.vals c .surf } := by
        unfold markHit; simp [hk']
      rw [e]
      refine ⟨e1, e2, ⟨by simp only []; rw [size_setC]; exact hg.size, ?_⟩, ⟨hn.size, hn.cnt, ?_⟩⟩
      · intro q hq; simp only [] at hq ⊢; rw [hget q hq]; split_ifs
        · right; rfl
        · exact hg.vals q hq
      · intro pr hpr
        obtain ⟨q, hq, e, hs⟩ := hn.surf pr hpr
        refine ⟨q, hq, e, ?_⟩
        simp only []
        rw [hget q hq]; split_ifs
        · rfl
        · exact hs
  · rw [if_neg hcond]; exact ⟨e1, e2, hg, hn⟩

theorem MarkInv.setPanic {NI NJ : Nat} {st : Vol K} (h : MarkInv NI NJ st) : MarkInv NI NJ { st with panic := true } :=
  ⟨h.1, h.2.1, ⟨h.2.2.1.size, h.2.2.1.vals⟩, ⟨h.2.2.2.size, h.2.2.2.cnt, h.2.2.2.surf⟩⟩

theorem markSeg_inv (cfg : Cfg) (hsi : cfg.detectSelfInter = false) (invScale : K) (pts : Array (V2 K)) (NI NJ : Nat)
    (st : Vol K) (h : MarkInv NI NJ st) (x : Nat × (Nat × Nat)) : MarkInv NI NJ (markSeg cfg invScale pts st x) := by
  unfold markSeg
  split_ifs with hp
  · exact h
  · cases ha : pts[x.2.1]? with
    | none => simp only []; exact h.setPanic
    | some a =>
      cases hb : pts[x.2.2]? with
      | none => simp only []; exact h.setPanic
      | some b =>
        simp only []
        split_ifs with hok
        · apply foldl_inv (MarkInv NI NJ) _ _ _ _ h
          intro st' c hc hst'
          have hin : InB NI NJ c := by
            have := mem_cellsIn.mp hc
            simp only [segRange] at this
            rw [h.1, h.2.1] at this
            exact ⟨by omega, by omega⟩
          exact markCell_inv cfg hsi _ _ _ NI NJ st' hst' c hin
        · exact h.setPanic

theorem markFrom_inv (cfg : Cfg) (hsi : cfg.detectSelfInter = false) (pts : Array (V2 K)) (edges : List (Nat × Nat))
    (O : V2 K) (S INV : K) (NI NJ : Nat) : MarkInv NI NJ (markFrom cfg pts edges O S INV NI NJ) := by
  unfold markFrom
  apply foldl_inv (MarkInv NI NJ)
  · intro st e _ hst; exact markSeg_inv cfg hsi INV pts NI NJ st hst _
  · refine ⟨rfl, rfl, allocate_good O S NI NJ, ⟨by simp [allocate], ?_, ?_⟩⟩
    · intro id
      simp only [allocate, Array.getD_eq_getD_getElem?, Array.getElem?_replicate]
      split_ifs <;> simp
    · intro pr hpr; simp [allocate] at hpr
end

section
variable {K : Type} [Num K] [Cast K]

/-- primitive `ek` has cell `w` in its candidate range with a positive test (decidable form of `EdgeHits`) -/
def hitB (pts : Array (V2 K)) (origin : V2 K) (invScale : K) (ni nj : Nat) (ek : (Nat × Nat) × Nat) (w : Nat × Nat) : Bool :=
  match pts[ek.1.1]?, pts[ek.1.2]? with
  | some a, some b =>
    decide (w ∈ segCells ni nj (gridPt origin invScale a) (gridPt origin invScale b)) &&
      cellHit (gridPt origin invScale a) (gridPt origin invScale b) w
  | _, _ => false

theorem filter_cell (ni nj : Nat) (k : Nat) (hit : Nat × Nat → Bool) (w : Nat × Nat) (hw : InB ni nj w) :
    ∀ (l : List (Nat × Nat)), l.Nodup → (∀ c ∈ l, InB ni nj c) →
    (((l.filter hit).map (fun c => (idx ni c.1 c.2, k))).filter (fun pr => pr.1 = idx ni w.1 w.2)).map (·.2)
      = if w ∈ l ∧ hit w = true then [k] else []
  | [], _, _ => by simp
  | c :: l, hnd, hin => by
    have hnd' := List.nodup_cons.mp hnd
    have ih := filter_cell ni nj k hit w hw l hnd'.2 (fun x hx => hin x (List.mem_cons_of_mem _ hx))
    have hc := hin c List.mem_cons_self
    by_cases e : c = w
    · subst e
      have hnl : ¬ c ∈ l := hnd'.1
      rw [if_neg (fun h => hnl h.1)] at ih
      by_cases hh : hit c = true
      · rw [if_pos ⟨List.mem_cons_self, hh⟩, List.filter_cons, if_pos hh, List.map_cons, List.filter_cons]
        simp only [decide_true, if_true, List.map_cons]
        rw [ih]
      · rw [if_neg (fun h => hh h.2), List.filter_cons, if_neg hh]
        exact ih
    · have hne : ¬ idx ni c.1 c.2 = idx ni w.1 w.2 := by
        intro h
        have := idx_inj hc.1 hw.1 h
        exact e (Prod.ext this.1 this.2)
      have hmem : (w ∈ c :: l ∧ hit w = true) ↔ (w ∈ l ∧ hit w = true) := by
        have : ¬ w = c := fun h => e h.symm
        simp [List.mem_cons, this]
      rw [if_congr hmem rfl rfl, ← ih]
      by_cases hh : hit c = true
      · rw [List.filter_cons, if_pos hh, List.map_cons, List.filter_cons]
        simp only [decide_eq_true_eq, hne, if_false]
      · rw [List.filter_cons, if_neg hh]

theorem primsOf_filter (pts : Array (V2 K)) (origin : V2 K) (invScale : K) (ni nj : Nat) (ek : (Nat × Nat) × Nat)
    (w : Nat × Nat) (hw : InB ni nj w) :
    ((primsOf true pts origin invScale ni nj ek).filter (fun pr => pr.1 = idx ni w.1 w.2)).map (·.2)
      = if hitB pts origin invScale ni nj ek w then [ek.2] else [] := by
  unfold primsOf hitB
  cases pts[ek.1.1]? with
  | none => simp
  | some a =>
    cases pts[ek.1.2]? with
    | none => simp
    | some b =>
      simp only [if_true]
      have := filter_cell ni nj ek.2 (fun c => cellHit (gridPt origin invScale a) (gridPt origin invScale b) c) w hw
        (segCells ni nj (gridPt origin invScale a) (gridPt origin invScale b)) (cellsIn_nodup _ _ _ _) (segCells_inB ni nj _ _)
      rw [this]
      simp only [Bool.and_eq_true, decide_eq_true_eq]

theorem flatMap_filter_hits (pts : Array (V2 K)) (origin : V2 K) (invScale : K) (ni nj : Nat) (w : Nat × Nat) (hw : InB ni nj w) :
    ∀ (es : List ((Nat × Nat) × Nat)),
    ((es.flatMap (primsOf true pts origin invScale ni nj)).filter (fun pr => pr.1 = idx ni w.1 w.2)).map (·.2)
      = (es.filter (fun ek => hitB pts origin invScale ni nj ek w)).map (·.2)
  | [] => rfl
  | ek :: es => by
    rw [List.flatMap_cons, List.filter_append, List.map_append, flatMap_filter_hits pts origin invScale ni nj w hw es,
      primsOf_filter pts origin invScale ni nj ek w hw, List.filter_cons]
    split_ifs <;> simp
end

end C18
