import ParryModel.C18.Model
import ParryModel.C18.ModelVox3
/-!
# C18 model, part 5: `impl From<VoxelizedVolume> for VoxelSet` and `VoxelSet::voxelize` (`dim3`,
`keep_voxel_to_primitives_map = false`: `intersections_range` stays `(0, 0)` and is not represented)
-/
namespace Model.Vox3
open Model Model.Vox
variable {K : Type} [Num K]

/-- body of the `for i { for j { for k` loop of `VoxelSet::from(volume)`: `PrimitiveInsideSurface` cells are pushed with
`is_on_surface = false`, `PrimitiveOnSurface` cells with `true`, every other value is dropped -/
def fromCell3 (ni nj : Nat) (vals : Array VV) (acc : Array Voxel) (c : Nat × Nat × Nat) : Array Voxel :=
  let value := vals.getD (idx3 ni nj c.1 c.2.1 c.2.2) .undef
  if value = .inside then acc.push ⟨c.1, c.2.1, c.2.2, false⟩
  else if value = .surf then acc.push ⟨c.1, c.2.1, c.2.2, true⟩
  else acc

/-- `VoxelSet::from(volume).voxels` -/
def toVoxelSet3 (ni nj nk : Nat) (vals : Array VV) : Array Voxel :=
  (cellsIn3 0 0 0 ni nj nk).foldl (fromCell3 ni nj vals) #[]

/-- `VoxelSet::voxelize(points, indices, resolution, fill_mode, false).voxels` -/
def voxelSet3 [Cast K] (flood detectCavities : Bool) (res : Nat) (p0 : V3 K) (ps : List (V3 K)) (tris : List (Nat × Nat × Nat)) :
    List Voxel :=
  let v := (voxelize3 flood detectCavities res p0 ps tris).1
  (toVoxelSet3 v.ni v.nj v.nk v.vals).toList

end Model.Vox3
