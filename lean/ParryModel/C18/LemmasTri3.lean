import ParryModel.C18.LemmasVox
import ParryModel.C18.ModelVox3
/-!
# C18 lemmas for the 3-D box/triangle predicate (`ModelVox3.lean`: `testAabbTriangle`)
The identity-quaternion isometry is a translation; support points of the triangle and of the box; each of the three
separating-axis passes of `intersection_test_cuboid_triangle` reports a non-positive separation when the closed box and the
closed triangle share a point.
-/
set_option linter.style.haveILetI false
set_option linter.unusedSimpArgs false
set_option linter.unusedSectionVars false
set_option linter.unusedVariables false
namespace C18
open Model Model.Vox Model.Vox3
variable {K : Type} [Field K] [LinearOrder K] [IsStrictOrderedRing K] (sq : K → K)

theorem v3_ext {a b : V3 K} (hx : a.x = b.x) (hy : a.y = b.y) (hz : a.z = b.z) : a = b := by
  cases a; cases b; simp_all

/-! ## the identity-quaternion isometry is a translation -/

theorem act_id3 (t p : V3 K) :
    letI := fieldNum K sq
    Iso3.act (⟨0, 0, 0, 1, t⟩ : Iso3 K) p = p.add t := by
  letI := fieldNum K sq
  apply v3_ext <;> simp [Iso3.act, Iso3.rot, Iso3.rotQ, Iso3.qv, V3.cross, V3.smul, V3.add]

theorem invRot_id3 (t d : V3 K) :
    letI := fieldNum K sq
    Iso3.invRot (⟨0, 0, 0, 1, t⟩ : Iso3 K) d = d := by
  letI := fieldNum K sq
  apply v3_ext <;> simp [Iso3.invRot, Iso3.rotQ, Iso3.qv, V3.neg, V3.cross, V3.smul, V3.add]

theorem inverse_id3 (t : V3 K) :
    letI := fieldNum K sq
    Iso3.inverse (⟨0, 0, 0, 1, t⟩ : Iso3 K) = ⟨0, 0, 0, 1, t.neg⟩ := by
  letI := fieldNum K sq
  simp [Iso3.inverse, Iso3.rotQ, Iso3.qv, V3.neg, V3.cross, V3.smul, V3.add]

theorem support_tri3 (a b c t d : V3 K) :
    letI := fieldNum K sq
    supportToward3 (triangleLocal3 a b c) ⟨0, 0, 0, 1, t⟩ d = (triangleLocal3 a b c d).add t := by
  letI := fieldNum K sq
  unfold supportToward3
  rw [invRot_id3, act_id3]

theorem support_cub3 (he t d : V3 K) :
    letI := fieldNum K sq
    supportToward3 (cuboidLocal3 he) ⟨0, 0, 0, 1, t⟩ d = (cuboidLocal3 he d).add t := by
  letI := fieldNum K sq
  unfold supportToward3
  rw [invRot_id3, act_id3]

/-! ## `copysign`, small order facts -/

theorem copysign_mul_self (m s : K) : @copysign K (fieldNum K sq) m s * s = |m| * |s| := by
  rw [copysign_field]
  rcases lt_trichotomy s 0 with h | h | h
  · rw [if_pos h, abs_of_neg h]; ring
  · subst h; simp
  · rw [if_neg (by linarith), abs_of_pos h]

theorem ite_nonpos {c : Prop} [Decidable c] {x y : K} (hx : x ≤ 0) (hy : y ≤ 0) : (if c then x else y) ≤ 0 := by
  split_ifs <;> assumption

theorem mul_le_abs_bound (x X l : K) (h : |x| ≤ X) : x * l ≤ X * |l| :=
  calc x * l ≤ |x * l| := le_abs_self _
    _ = |x| * |l| := abs_mul _ _
    _ ≤ X * |l| := mul_le_mul_of_nonneg_right h (abs_nonneg _)

theorem neg_mul_le_abs_bound (x X l : K) (h : |x| ≤ X) : -(x * l) ≤ X * |l| := by
  have := mul_le_abs_bound (-x) X l (by rwa [abs_neg])
  linarith

theorem abs_le_abs_of_abs_le (x h : K) (hx : |x| ≤ h) : |x| ≤ |h| :=
  le_trans hx (le_abs_self _)

/-! ## the support point of the triangle -/

/-- `Triangle::local_support_point` returns one of the three vertices -/
theorem triLocal_mem (a b c d : V3 K) :
    letI := fieldNum K sq
    triangleLocal3 a b c d = a ∨ triangleLocal3 a b c d = b ∨ triangleLocal3 a b c d = c := by
  letI := fieldNum K sq
  unfold triangleLocal3
  simp only []
  split_ifs <;> simp

/-- ... and that vertex maximises `· dot dir` among the vertices -/
theorem triLocal_max (a b c d : V3 K) :
    letI := fieldNum K sq
    a.dot d ≤ (triangleLocal3 a b c d).dot d ∧ b.dot d ≤ (triangleLocal3 a b c d).dot d ∧
      c.dot d ≤ (triangleLocal3 a b c d).dot d := by
  letI := fieldNum K sq
  unfold triangleLocal3
  simp only []
  split_ifs with h1 h2 h2
  · exact ⟨le_refl _, h1.le, h2.le⟩
  · exact ⟨not_lt.mp h2, le_trans h1.le (not_lt.mp h2), le_refl _⟩
  · exact ⟨not_lt.mp h1, le_refl _, h2.le⟩
  · exact ⟨le_trans (not_lt.mp h1) (not_lt.mp h2), not_lt.mp h2, le_refl _⟩

/-- ... hence among all points of the closed triangle -/
theorem tri_support_ge (a b c d p : V3 K) (u v w : K) (hu : 0 ≤ u) (hv : 0 ≤ v) (hw : 0 ≤ w) (h1 : u + v + w = 1)
    (hx : p.x = u * a.x + v * b.x + w * c.x) (hy : p.y = u * a.y + v * b.y + w * c.y)
    (hz : p.z = u * a.z + v * b.z + w * c.z) :
    letI := fieldNum K sq
    p.dot d ≤ (triangleLocal3 a b c d).dot d := by
  letI := fieldNum K sq
  obtain ⟨ha, hb, hc⟩ := triLocal_max sq a b c d
  generalize (triangleLocal3 a b c d).dot d = M at ha hb hc ⊢
  have e : p.dot d = u * a.dot d + v * b.dot d + w * c.dot d := by
    simp only [V3.dot]; rw [hx, hy, hz]; ring
  have eM : M = u * M + v * M + w * M := by rw [← add_mul, ← add_mul, h1, one_mul]
  rw [e, eM]
  exact add_le_add (add_le_add (mul_le_mul_of_nonneg_left ha hu) (mul_le_mul_of_nonneg_left hb hv))
    (mul_le_mul_of_nonneg_left hc hw)

/-! ## pass 1: the six signed face normals of the box -/

/-- the candidate separation of the face normal `(i, s)` -/
def cand3 (he a b c t : V3 K) (i : Nat) (s : K) : K :=
  letI := fieldNum K sq
  ((triangleLocal3 a b c (ith3 i s).neg).add t).get i * s - he.get i

theorem sepStep3_eq (he a b c t : V3 K) (best : K) (i : Nat) (s : K) :
    letI := fieldNum K sq
    sepStep3 he a b c ⟨0, 0, 0, 1, t⟩ best (i, s) = max best (cand3 sq he a b c t i s) := by
  letI := fieldNum K sq
  unfold sepStep3 cand3
  simp only []
  rw [support_tri3]
  split_ifs with h
  · exact (max_eq_right h.le).symm
  · exact (max_eq_left (not_lt.mp h)).symm

/-- face-normal pass = running maximum of the six candidates -/
theorem sepCuboidTri_eq (he a b c t : V3 K) :
    letI := fieldNum K sq
    sepCuboidTri he a b c ⟨0, 0, 0, 1, t⟩ =
      max (max (max (max (max (max (-realMax) (cand3 sq he a b c t 0 (-1))) (cand3 sq he a b c t 0 1))
        (cand3 sq he a b c t 1 (-1))) (cand3 sq he a b c t 1 1)) (cand3 sq he a b c t 2 (-1))) (cand3 sq he a b c t 2 1) := by
  letI := fieldNum K sq
  unfold sepCuboidTri
  simp only [List.foldl_cons, List.foldl_nil]
  rw [sepStep3_eq, sepStep3_eq, sepStep3_eq, sepStep3_eq, sepStep3_eq, sepStep3_eq]

/-- a common point of box and triangle bounds every face-normal candidate -/
theorem cand3_le (he a b c t p : V3 K) (u v w : K) (hu : 0 ≤ u) (hv : 0 ≤ v) (hw : 0 ≤ w) (h1 : u + v + w = 1)
    (hx : p.x = u * a.x + v * b.x + w * c.x) (hy : p.y = u * a.y + v * b.y + w * c.y)
    (hz : p.z = u * a.z + v * b.z + w * c.z)
    (hbx : |p.x + t.x| ≤ he.x) (hby : |p.y + t.y| ≤ he.y) (hbz : |p.z + t.z| ≤ he.z)
    (i : Nat) (s : K) (hi : i = 0 ∨ i = 1 ∨ i = 2) (hs : s = -1 ∨ s = 1) :
    cand3 sq he a b c t i s ≤ 0 := by
  letI := fieldNum K sq
  have h := tri_support_ge sq a b c (ith3 i s).neg p u v w hu hv hw h1 hx hy hz
  obtain ⟨x1, x2⟩ := abs_le.mp hbx
  obtain ⟨y1, y2⟩ := abs_le.mp hby
  obtain ⟨z1, z2⟩ := abs_le.mp hbz
  unfold cand3
  rcases hi with rfl | rfl | rfl <;> rcases hs with rfl | rfl <;>
    simp [ith3, V3.neg, V3.dot, V3.get, V3.add] at h ⊢ <;> linarith

/-! ## pass 2: the triangle normal -/

theorem sepPoint3_sep (he c0 p1 ax : V3 K) :
    letI := fieldNum K sq
    ((supportToward3 (cuboidLocal3 he) ⟨0, 0, 0, 1, c0⟩ ax.neg).sub p1).dot ax
      = (c0.sub p1).dot ax - (|he.x| * |ax.x| + |he.y| * |ax.y| + |he.z| * |ax.z|) := by
  letI := fieldNum K sq
  rw [support_cub3]
  simp only [cuboidLocal3, V3.neg, V3.sub, V3.add, V3.dot]
  have h1 := copysign_mul sq he.x ax.x
  have h2 := copysign_mul sq he.y ax.y
  have h3 := copysign_mul sq he.z ax.z
  linear_combination h1 + h2 + h3

/-- along any axis orthogonal to `p − p1`, a point `p` of the box bounds the point/box separation -/
theorem sepPoint3_axis_le (he c0 p1 ax p : V3 K)
    (hbx : |p.x - c0.x| ≤ he.x) (hby : |p.y - c0.y| ≤ he.y) (hbz : |p.z - c0.z| ≤ he.z)
    (horth : (p.x - p1.x) * ax.x + (p.y - p1.y) * ax.y + (p.z - p1.z) * ax.z = 0) :
    letI := fieldNum K sq
    (c0.sub p1).dot ax - (|he.x| * |ax.x| + |he.y| * |ax.y| + |he.z| * |ax.z|) ≤ 0 := by
  letI := fieldNum K sq
  simp only [V3.sub, V3.dot]
  have e1 := neg_mul_le_abs_bound (p.x - c0.x) |he.x| ax.x (abs_le_abs_of_abs_le _ _ hbx)
  have e2 := neg_mul_le_abs_bound (p.y - c0.y) |he.y| ax.y (abs_le_abs_of_abs_le _ _ hby)
  have e3 := neg_mul_le_abs_bound (p.z - c0.z) |he.z| ax.z (abs_le_abs_of_abs_le _ _ hbz)
  have e : (c0.x - p1.x) * ax.x + (c0.y - p1.y) * ax.y + (c0.z - p1.z) * ax.z
      = -((p.x - c0.x) * ax.x) + -((p.y - c0.y) * ax.y) + -((p.z - c0.z) * ax.z) := by
    linear_combination horth
  rw [e]; linarith

/-- the triangle-normal pass cannot report a positive separation when box and triangle share `p` -/
theorem sepPointCuboid3_le (he c0 a b c p : V3 K) (u v w : K) (h1 : u + v + w = 1)
    (hx : p.x = u * a.x + v * b.x + w * c.x) (hy : p.y = u * a.y + v * b.y + w * c.y)
    (hz : p.z = u * a.z + v * b.z + w * c.z)
    (hbx : |p.x - c0.x| ≤ he.x) (hby : |p.y - c0.y| ≤ he.y) (hbz : |p.z - c0.z| ≤ he.z) :
    letI := fieldNum K sq
    sepPointCuboid3 a (triNormal a b c) he ⟨0, 0, 0, 1, c0⟩ ≤ 0 := by
  letI := fieldNum K sq
  have hM : -@realMax K (fieldNum K sq) ≤ 0 := by linarith [realMax_nonneg (K := K) sq]
  obtain rfl : u = 1 - v - w := by linarith
  unfold triNormal tryNew3
  simp only []
  split_ifs with hlen
  · unfold sepPointCuboid3
    simp only []
    rw [sepPoint3_sep]
    refine ite_nonpos ?_ hM
    refine sepPoint3_axis_le sq he c0 a _ p hbx hby hbz ?_
    split_ifs with hs
    · simp only [V3.sdiv, V3.cross, V3.sub]; rw [hx, hy, hz]; ring
    · simp only [V3.sdiv, V3.cross, V3.sub, V3.neg]; rw [hx, hy, hz]; ring
  · exact hM

/-! ## pass 3: the nine edge cross products -/

theorem cuboidLocal3_dot (he L : V3 K) :
    letI := fieldNum K sq
    (cuboidLocal3 he L).dot L = |he.x| * |L.x| + |he.y| * |L.y| + |he.z| * |L.z| := by
  letI := fieldNum K sq
  simp only [cuboidLocal3, V3.dot]
  rw [copysign_mul_self, copysign_mul_self, copysign_mul_self]

/-- one axis of the edge pass: if some point `q` of the box (`|q_i| ≤ he_i`) projects between the two listed dot products,
the step keeps a non-positive running value
(only `0 ≤ sq x` for `0 ≤ x` is used of the square root) -/
theorem edgeStep_le (hnn : ∀ x : K, 0 ≤ x → 0 ≤ sq x) (he L q : V3 K) (best d1 d2 s : K) (hbest : best ≤ 0)
    (hbx : |q.x| ≤ he.x) (hby : |q.y| ≤ he.y) (hbz : |q.z| ≤ he.z) (hs0 : 0 ≤ s) (hs1 : s ≤ 1)
    (hq : L.x * q.x + L.y * q.y + L.z * q.z = d1 + (d2 - d1) * s) :
    letI := fieldNum K sq
    edgeStep he best (L, d1, d2) ≤ 0 := by
  letI := fieldNum K sq
  unfold edgeStep
  simp only []
  have hmn : (if d2 < d1 then d2 else d1) = min d1 d2 := by
    split_ifs with h
    · exact (min_eq_right h.le).symm
    · exact (min_eq_left (not_lt.mp h)).symm
  have hmx : (if d2 < d1 then d1 else d2) = max d1 d2 := by
    split_ifs with h
    · exact (max_eq_left h.le).symm
    · exact (max_eq_right (not_lt.mp h)).symm
  rw [hmn, hmx, cuboidLocal3_dot]
  by_cases hn : @eps K (fieldNum K sq) < L.normSq
  · rw [if_pos hn]
    have hn2 : 0 ≤ L.normSq := by
      simp only [V3.normSq, V3.dot]
      nlinarith [mul_self_nonneg L.x, mul_self_nonneg L.y, mul_self_nonneg L.z]
    have hn0 : 0 ≤ sq L.normSq := hnn _ hn2
    obtain ⟨c1, c2⟩ := conv_between d1 d2 s hs0 hs1
    rw [← hq] at c1 c2
    have f1 := mul_le_abs_bound q.x |he.x| L.x (abs_le_abs_of_abs_le _ _ hbx)
    have f2 := mul_le_abs_bound q.y |he.y| L.y (abs_le_abs_of_abs_le _ _ hby)
    have f3 := mul_le_abs_bound q.z |he.z| L.z (abs_le_abs_of_abs_le _ _ hbz)
    have g1 := neg_mul_le_abs_bound q.x |he.x| L.x (abs_le_abs_of_abs_le _ _ hbx)
    have g2 := neg_mul_le_abs_bound q.y |he.y| L.y (abs_le_abs_of_abs_le _ _ hby)
    have g3 := neg_mul_le_abs_bound q.z |he.z| L.z (abs_le_abs_of_abs_le _ _ hbz)
    have hsa : min d1 d2 / sq L.normSq - (|he.x| * |L.x| + |he.y| * |L.y| + |he.z| * |L.z|) / sq L.normSq ≤ 0 := by
      rw [← sub_div]
      exact div_nonpos_of_nonpos_of_nonneg (by linarith) hn0
    have hsb : -max d1 d2 / sq L.normSq - (|he.x| * |L.x| + |he.y| * |L.y| + |he.z| * |L.z|) / sq L.normSq ≤ 0 := by
      rw [← sub_div]
      exact div_nonpos_of_nonpos_of_nonneg (by linarith) hn0
    exact ite_nonpos hsb (ite_nonpos hsa hbest)
  · rw [if_neg hn]; exact hbest

/-- the edge pass cannot report a positive separation when box and triangle share `p` -/
theorem sepEdges_le (hnn : ∀ x : K, 0 ≤ x → 0 ≤ sq x) (he a b c t p : V3 K) (u v w : K) (hu : 0 ≤ u) (hv : 0 ≤ v) (hw : 0 ≤ w)
    (h1 : u + v + w = 1)
    (hx : p.x = u * a.x + v * b.x + w * c.x) (hy : p.y = u * a.y + v * b.y + w * c.y)
    (hz : p.z = u * a.z + v * b.z + w * c.z)
    (hbx : |p.x + t.x| ≤ he.x) (hby : |p.y + t.y| ≤ he.y) (hbz : |p.z + t.z| ≤ he.z) :
    letI := fieldNum K sq
    sepEdges he a b c ⟨0, 0, 0, 1, t⟩ ≤ 0 := by
  letI := fieldNum K sq
  have hM : -@realMax K (fieldNum K sq) ≤ 0 := by linarith [realMax_nonneg (K := K) sq]
  obtain rfl : u = 1 - v - w := by linarith
  have hvw : v + w ≤ 1 := by linarith
  unfold sepEdges
  simp only [act_id3, List.zip_cons_cons, List.zip_nil_right, List.foldl_cons, List.foldl_nil]
  refine edgeStep_le sq hnn he _ (p.add t) _ _ _ v ?_ hbx hby hbz hv (by linarith) ?_
  refine edgeStep_le sq hnn he _ (p.add t) _ _ _ v ?_ hbx hby hbz hv (by linarith) ?_
  refine edgeStep_le sq hnn he _ (p.add t) _ _ _ v ?_ hbx hby hbz hv (by linarith) ?_
  refine edgeStep_le sq hnn he _ (p.add t) _ _ _ (v + w) ?_ hbx hby hbz (by linarith) hvw ?_
  refine edgeStep_le sq hnn he _ (p.add t) _ _ _ (v + w) ?_ hbx hby hbz (by linarith) hvw ?_
  refine edgeStep_le sq hnn he _ (p.add t) _ _ _ (v + w) ?_ hbx hby hbz (by linarith) hvw ?_
  refine edgeStep_le sq hnn he _ (p.add t) _ _ _ w ?_ hbx hby hbz hw (by linarith) ?_
  refine edgeStep_le sq hnn he _ (p.add t) _ _ _ w ?_ hbx hby hbz hw (by linarith) ?_
  refine edgeStep_le sq hnn he _ (p.add t) _ _ _ w ?_ hbx hby hbz hw (by linarith) ?_
  · exact hM
  all_goals (simp only [V3.dot, V3.sub, V3.add]; rw [hx, hy, hz]; ring)

/-! ## reading the face-normal candidates back (soundness piece) -/

theorem cand3_witness (he a b c t : V3 K) (i : Nat) (s : K) :
    ∃ q : V3 K, (q = a ∨ q = b ∨ q = c) ∧ cand3 sq he a b c t i s = (q.get i + t.get i) * s - he.get i := by
  letI := fieldNum K sq
  refine ⟨triangleLocal3 a b c (ith3 i s).neg, triLocal_mem sq a b c _, ?_⟩
  unfold cand3
  simp only [V3.add, V3.get]
  split_ifs <;> rfl

theorem min3_le_of_mem (f : V3 K → K) (a b c q : V3 K) (hq : q = a ∨ q = b ∨ q = c) :
    min (min (f a) (f b)) (f c) ≤ f q ∧ f q ≤ max (max (f a) (f b)) (f c) := by
  rcases hq with rfl | rfl | rfl <;> simp [min_le_iff, le_max_iff]

end C18
