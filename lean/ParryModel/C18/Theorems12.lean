import ParryModel.C18.Theorems9
import ParryModel.C18.Theorems11
/-!
# C18 theorems, part 12: the 3-D voxel-to-primitive map lists every triangle that meets the voxel (lawful instance)

`vox3_map_complete`: at the lawful instance (`fieldNum K sq`, `LawfulSqrt sq`, `x as u32` = `fieldCast tr` with
`LawfulTrunc tr`), in world coordinates: if a point of triangle number `k` of the index buffer lies in the closed cube of a
surface voxel `w` of `VoxelSet::voxelize(.., keep_voxel_to_primitives_map = true)`, then `k` is in the list
`intersections[w.intersections_range]` of that voxel.  Together with `vox3_set_map_mem_iff` (a listed triangle passed
`intersection_test_aabb_triangle` on the voxel's cube) and `vox3_set_map_sorted` (no repetition) this is the clause "the
voxel-to-primitive map lists precisely the primitives meeting each voxel"; the converse geometric statement (a positive
test implies a common point = soundness of the 13-axis SAT) is the stated gap of `tritest_face_axes_sound_partial`.
-/
set_option linter.style.haveILetI false
set_option linter.unusedSectionVars false
set_option linter.unusedVariables false
set_option linter.unusedSimpArgs false
namespace C18
open Model Model.Vox Model.Vox3

section field
variable {K : Type} [Field K] [LinearOrder K] [IsStrictOrderedRing K] (sq : K → K) (tr : K → Nat)

/-- **vox3_map_complete** (`dim3`, `keep_voxel_to_primitives_map = true`, every `FillMode`, no panic, `resolution ≥ 2`, the
points do not all coincide, map not empty; lawful instance).  If a point `p` of triangle number `k` of the index buffer
(closed triangle `a b c`) lies in the closed world-space cube of a surface voxel `w` of the `VoxelSet`, then `k` is listed
for `w` in the voxel-to-primitive map: no primitive meeting a voxel is omitted. -/
theorem vox3_map_complete (hsq : LawfulSqrt sq) (htr : LawfulTrunc tr) (flood dc : Bool)
    (res : Nat) (hres : 2 ≤ res) (p0 : V3 K) (ps : List (V3 K)) (tris : List (Nat × Nat × Nat)) :
    letI := fieldNum K sq; letI := fieldCast tr
    ((cloudAabb3 p0 ps).1.x < (cloudAabb3 p0 ps).2.x ∨ (cloudAabb3 p0 ps).1.y < (cloudAabb3 p0 ps).2.y ∨
      (cloudAabb3 p0 ps).1.z < (cloudAabb3 p0 ps).2.z) →
    (voxelize3K flood dc res p0 ps tris).1.panic = false →
    (voxelize3K flood dc res p0 ps tris).1.prims.isEmpty = false →
    ∀ (k : Nat) (t : Nat × Nat × Nat), tris[k]? = some t →
    ∀ a b c : V3 K, (p0 :: ps)[t.1]? = some a → (p0 :: ps)[t.2.1]? = some b → (p0 :: ps)[t.2.2]? = some c →
    ∀ p, InTri3 a b c p →
    ∀ w ∈ (toVoxelSet3K (voxelize3K flood dc res p0 ps tris).1).1.toList, w.surf = true →
      InCell3 (voxelize3K flood dc res p0 ps tris).1.origin (voxelize3K flood dc res p0 ps tris).1.scale (w.i, w.j, w.k) p →
      k ∈ voxelPrims3 (toVoxelSet3K (voxelize3K flood dc res p0 ps tris).1).2 w := by
  letI := fieldNum K sq; letI := fieldCast tr
  intro hext hp hne k t hk a b c ha hb hc p hmem w hw hws hcell
  obtain ⟨k1, k2, k3, k4, k5, k6, k7, _⟩ := vox3_keep_same_volume flood dc res p0 ps tris
  have hp0 : (voxelize3 flood dc res p0 ps tris).1.panic = false := by rw [← k2]; exact hp
  obtain ⟨q1, q2, q3, q4, q5, _⟩ := vox3_params flood dc res p0 ps tris _ rfl hp0
  -- the cell of `w` is inside the grid
  have hn : InB3 (voxelize3K flood dc res p0 ps tris).1.ni (voxelize3K flood dc res p0 ps tris).1.nj
      (voxelize3K flood dc res p0 ps tris).1.nk (w.i, w.j, w.k) := by
    have h1 : ((w.i, w.j, w.k), w.surf) ∈
        (toVoxelSet3K (voxelize3K flood dc res p0 ps tris).1).1.toList.map (fun w => ((w.i, w.j, w.k), w.surf)) :=
      List.mem_map.mpr ⟨w, hw, rfl⟩
    rw [toVoxelSet3K_voxels] at h1
    obtain ⟨c', hc', e⟩ := List.mem_filterMap.mp h1
    have hcin := mem_cellsIn3_inB _ _ _ hc'
    have : c' = (w.i, w.j, w.k) := by
      unfold classify3K at e
      split_ifs at e <;> simp at e <;> exact e.1
    rw [← this]; exact hcin
  apply (vox3_set_map_mem_iff flood dc res (by omega) p0 ps tris _ rfl hp hne w hw hws k).mpr
  refine ⟨t, hk, ?_⟩
  have hbb := cloudAabb3_bounds sq p0 ps
  have hba := hbb a (List.mem_of_getElem? ha)
  have hbbb := hbb b (List.mem_of_getElem? hb)
  have hbc := hbb c (List.mem_of_getElem? hc)
  obtain ⟨hS, hI, hSI⟩ := gridParams3_field sq tr res hres (cloudAabb3 p0 ps).1 (cloudAabb3 p0 ps).2
    (le_trans hba.1.1 hba.1.2) (le_trans hba.2.1.1 hba.2.1.2) (le_trans hba.2.2.1 hba.2.2.2) hext
  obtain ⟨u, v, w', hu, hv, hw', h1, hpx, hpy, hpz⟩ := hmem
  rw [k6, k7, q4, q5] at hcell
  rw [k6, q4]
  generalize (voxelize3K flood dc res p0 ps tris).1.ni = NI at *
  generalize (voxelize3K flood dc res p0 ps tris).1.nj = NJ at *
  generalize (voxelize3K flood dc res p0 ps tris).1.nk = NK at *
  generalize (cloudAabb3 p0 ps).1 = O at *
  generalize (gridParams3 res O (cloudAabb3 p0 ps).2).2.2.2 = S at *
  generalize invScale3 res O (cloudAabb3 p0 ps).2 = INV at *
  have hx := (grid_dist3 S INV hSI hS hI _ O.x w.i).mp hcell.1
  have hy := (grid_dist3 S INV hSI hS hI _ O.y w.j).mp hcell.2.1
  have hz := (grid_dist3 S INV hSI hS hI _ O.z w.k).mp hcell.2.2
  have ex : (p.x - O.x) * INV = u * ((a.sub O).smul INV).x + v * ((b.sub O).smul INV).x + w' * ((c.sub O).smul INV).x := by
    simp only [V3.sub, V3.smul]; rw [hpx]; linear_combination (O.x * INV) * h1
  have ey : (p.y - O.y) * INV = u * ((a.sub O).smul INV).y + v * ((b.sub O).smul INV).y + w' * ((c.sub O).smul INV).y := by
    simp only [V3.sub, V3.smul]; rw [hpy]; linear_combination (O.y * INV) * h1
  have ez : (p.z - O.z) * INV = u * ((a.sub O).smul INV).z + v * ((b.sub O).smul INV).z + w' * ((c.sub O).smul INV).z := by
    simp only [V3.sub, V3.smul]; rw [hpz]; linear_combination (O.z * INV) * h1
  rw [ex] at hx; rw [ey] at hy; rw [ez] at hz
  have nax : 0 ≤ ((a.sub O).smul INV).x := by simp only [V3.sub, V3.smul]; exact mul_nonneg (by linarith [hba.1.1]) hI.le
  have nay : 0 ≤ ((a.sub O).smul INV).y := by simp only [V3.sub, V3.smul]; exact mul_nonneg (by linarith [hba.2.1.1]) hI.le
  have naz : 0 ≤ ((a.sub O).smul INV).z := by simp only [V3.sub, V3.smul]; exact mul_nonneg (by linarith [hba.2.2.1]) hI.le
  have nbx : 0 ≤ ((b.sub O).smul INV).x := by simp only [V3.sub, V3.smul]; exact mul_nonneg (by linarith [hbbb.1.1]) hI.le
  have nby : 0 ≤ ((b.sub O).smul INV).y := by simp only [V3.sub, V3.smul]; exact mul_nonneg (by linarith [hbbb.2.1.1]) hI.le
  have nbz : 0 ≤ ((b.sub O).smul INV).z := by simp only [V3.sub, V3.smul]; exact mul_nonneg (by linarith [hbbb.2.2.1]) hI.le
  have ncx : 0 ≤ ((c.sub O).smul INV).x := by simp only [V3.sub, V3.smul]; exact mul_nonneg (by linarith [hbc.1.1]) hI.le
  have ncy : 0 ≤ ((c.sub O).smul INV).y := by simp only [V3.sub, V3.smul]; exact mul_nonneg (by linarith [hbc.2.1.1]) hI.le
  have ncz : 0 ≤ ((c.sub O).smul INV).z := by simp only [V3.sub, V3.smul]; exact mul_nonneg (by linarith [hbc.2.2.1]) hI.le
  exact ⟨a, b, c, by simpa using ha, by simpa using hb, by simpa using hc,
    range3_complete sq tr htr _ _ _ _ _ _ nax nay naz nbx nby nbz ncx ncy ncz u v w' hu hv hw' h1 (w.i, w.j, w.k) hn hx hy hz,
    cellHit3_complete sq tr hsq _ _ _ u v w' hu hv hw' h1 (w.i, w.j, w.k) hx hy hz⟩

/-- **vox3_map_nonempty_field** (non-vacuity of the hypotheses of `vox3_map_complete`, `vox3_set_map_exact`, …; lawful
instance): on every valid input (`resolution ≥ 2`, the points do not all coincide, indices in range) with at least one
triangle, `VoxelizedVolume::voxelize(.., true)` does not panic and `primitive_intersections` is not empty. -/
theorem vox3_map_nonempty_field (hsq : LawfulSqrt sq) (htr : LawfulTrunc tr) (flood dc : Bool)
    (res : Nat) (hres : 2 ≤ res) (p0 : V3 K) (ps : List (V3 K)) (tris : List (Nat × Nat × Nat)) :
    letI := fieldNum K sq; letI := fieldCast tr
    ((cloudAabb3 p0 ps).1.x < (cloudAabb3 p0 ps).2.x ∨ (cloudAabb3 p0 ps).1.y < (cloudAabb3 p0 ps).2.y ∨
      (cloudAabb3 p0 ps).1.z < (cloudAabb3 p0 ps).2.z) →
    (∀ t ∈ tris, t.1 < (p0 :: ps).length ∧ t.2.1 < (p0 :: ps).length ∧ t.2.2 < (p0 :: ps).length) →
    tris ≠ [] →
    (voxelize3K flood dc res p0 ps tris).1.panic = false ∧ (voxelize3K flood dc res p0 ps tris).1.prims.isEmpty = false := by
  letI := fieldNum K sq; letI := fieldCast tr
  intro hext hidx hne
  obtain ⟨k1, k2, k3, k4, k5, _⟩ := vox3_keep_same_volume flood dc res p0 ps tris
  have hp0 := vox3_no_panic_field sq tr htr flood dc res hres p0 ps tris hext hidx
  have hp : (voxelize3K flood dc res p0 ps tris).1.panic = false := by rw [k2]; exact hp0
  refine ⟨hp, ?_⟩
  obtain ⟨t, ht⟩ := List.exists_mem_of_ne_nil _ hne
  obtain ⟨h1, h2, h3⟩ := hidx t ht
  obtain ⟨n, hn, _, hs⟩ := vox3_valid_points_covered sq tr hsq htr flood dc res hres p0 ps tris hext hidx t ht
    ((p0 :: ps)[t.1]'h1) ((p0 :: ps)[t.2.1]'h2) ((p0 :: ps)[t.2.2]'h3)
    (List.getElem?_eq_getElem h1) (List.getElem?_eq_getElem h2) (List.getElem?_eq_getElem h3)
    ((p0 :: ps)[t.1]'h1) ⟨1, 0, 0, by norm_num, by norm_num, by norm_num, by norm_num, by ring, by ring, by ring⟩
  apply (vox3_map_nonempty_iff flood dc res (by omega) p0 ps tris _ rfl hp).mpr
  rw [k1, k3, k4, k5]
  exact ⟨n, hn, hs⟩

/-- non-vacuity of the hypotheses of `InTri3` / `InCell3` used above: the centroid of a triangle lies in the triangle, and
in the closed unit cube around itself (over `ℚ`) -/
example : InTri3 (⟨0, 0, 0⟩ : V3 ℚ) ⟨3, 0, 0⟩ ⟨0, 3, 0⟩ ⟨1, 1, 0⟩ :=
  ⟨1 / 3, 1 / 3, 1 / 3, by norm_num, by norm_num, by norm_num, by norm_num, by norm_num, by norm_num, by norm_num⟩

end field
end C18
