import ParryModel.Field
import ParryModel.C18.ModelVox
import ParryModel.Shapes
/-!
# C18 lemmas for the 2-D voxelizer model (`ModelVox.lean`), part 1: the cell/segment predicate
`intersection_test_aabb_segment` at the lawful instance, put in closed form (`SatCond`), and the 2-D
separating-axis theorem for an axis-aligned box and a segment (both directions).
-/
set_option linter.style.haveILetI false
set_option linter.unusedSimpArgs false
set_option linter.unusedSectionVars false
namespace C18
open Model Model.Vox
variable {K : Type} [Field K] [LinearOrder K] [IsStrictOrderedRing K] (sq : K → K)

theorem v2_ext {a b : V2 K} (hx : a.x = b.x) (hy : a.y = b.y) : a = b := by
  cases a; cases b; simp_all

theorem realMax_nonneg : (0 : K) ≤ @realMax K (fieldNum K sq) := by
  unfold realMax
  rw [fieldNum_lit]
  have : (0 : ℚ) ≤ mkRat (2 ^ 1024 - 2 ^ 971) 1 := by
    rw [Rat.mkRat_one]
    have : (2:ℤ) ^ 971 ≤ 2 ^ 1024 := pow_le_pow_right₀ (by norm_num) (by norm_num)
    exact_mod_cast sub_nonneg.mpr this
  exact_mod_cast this

/-- with the identity rotation, `support_point_toward` of a segment is the end point of larger `dir`-coordinate, translated -/
theorem support_seg (a b t d : V2 K) :
    letI := fieldNum K sq
    supportToward2 (segmentLocal2 a b) ⟨1, 0, t⟩ d = (if b.dot d < a.dot d then a else b).add t := by
  letI := fieldNum K sq
  have hd : Iso2.invRot (⟨1, 0, t⟩ : Iso2 K) d = d := by
    apply v2_ext <;> simp [Iso2.invRot]
  unfold supportToward2
  rw [hd]
  apply v2_ext <;> simp [Iso2.act, Iso2.rot, V2.add, segmentLocal2]

theorem sep_x_neg (he a b t : V2 K) :
    letI := fieldNum K sq
    (supportToward2 (segmentLocal2 a b) ⟨1, 0, t⟩ (ith2 0 (-1)).neg).get 0 * (-1) - he.get 0
      = -(max a.x b.x + t.x) - he.x := by
  letI := fieldNum K sq
  rw [support_seg]
  simp only [ith2, V2.neg, V2.dot, V2.get, V2.add, if_true, neg_neg, neg_zero, mul_one, mul_zero, add_zero]
  split_ifs with h
  · rw [max_eq_left h.le]; ring
  · rw [max_eq_right (not_lt.mp h)]; ring

theorem sep_x_pos (he a b t : V2 K) :
    letI := fieldNum K sq
    (supportToward2 (segmentLocal2 a b) ⟨1, 0, t⟩ (ith2 0 1).neg).get 0 * 1 - he.get 0
      = (min a.x b.x + t.x) - he.x := by
  letI := fieldNum K sq
  rw [support_seg]
  simp only [ith2, V2.neg, V2.dot, V2.get, V2.add, if_true, neg_neg, neg_zero, mul_one, mul_zero, add_zero, mul_neg, neg_lt_neg_iff]
  split_ifs with h
  · rw [min_eq_left h.le]
  · rw [min_eq_right (not_lt.mp h)]

theorem sep_y_neg (he a b t : V2 K) :
    letI := fieldNum K sq
    (supportToward2 (segmentLocal2 a b) ⟨1, 0, t⟩ (ith2 1 (-1)).neg).get 1 * (-1) - he.get 1
      = -(max a.y b.y + t.y) - he.y := by
  letI := fieldNum K sq
  rw [support_seg]
  simp only [ith2, V2.neg, V2.dot, V2.get, V2.add, if_false, one_ne_zero, neg_neg, neg_zero, mul_one, mul_zero, zero_add]
  split_ifs with h
  · rw [max_eq_left h.le]; ring
  · rw [max_eq_right (not_lt.mp h)]; ring

theorem sep_y_pos (he a b t : V2 K) :
    letI := fieldNum K sq
    (supportToward2 (segmentLocal2 a b) ⟨1, 0, t⟩ (ith2 1 1).neg).get 1 * 1 - he.get 1
      = (min a.y b.y + t.y) - he.y := by
  letI := fieldNum K sq
  rw [support_seg]
  simp only [ith2, V2.neg, V2.dot, V2.get, V2.add, if_false, one_ne_zero, neg_neg, neg_zero, mul_one, mul_zero, zero_add, mul_neg, neg_lt_neg_iff]
  split_ifs with h
  · rw [min_eq_left h.le]
  · rw [min_eq_right (not_lt.mp h)]

/-- one step of the face-normal pass is a running maximum -/
theorem sepStep_eq (he a b t : V2 K) (best : K) (i : Nat) (sign : K) :
    letI := fieldNum K sq
    sepStep he a b ⟨1, 0, t⟩ best i sign =
      max best ((supportToward2 (segmentLocal2 a b) ⟨1, 0, t⟩ (ith2 i sign).neg).get i * sign - he.get i) := by
  letI := fieldNum K sq
  unfold sepStep
  simp only []
  split_ifs with h
  · exact (max_eq_right h.le).symm
  · exact (max_eq_left (not_lt.mp h)).symm

/-- face-normal pass, explicit form -/
theorem sepCuboidSeg_eq (he a b t : V2 K) :
    letI := fieldNum K sq
    sepCuboidSeg he a b ⟨1, 0, t⟩ =
      max (max (max (max (-realMax) (-(max a.x b.x + t.x) - he.x)) (min a.x b.x + t.x - he.x))
        (-(max a.y b.y + t.y) - he.y)) (min a.y b.y + t.y - he.y) := by
  letI := fieldNum K sq
  unfold sepCuboidSeg
  rw [sepStep_eq, sepStep_eq, sepStep_eq, sepStep_eq, sep_x_neg, sep_x_pos, sep_y_neg, sep_y_pos]



theorem copysign_field (m s : K) :
    @copysign K (fieldNum K sq) m s = if s < 0 then -|m| else |m| := by
  unfold copysign
  rw [fieldNum_nabs]
  have : (1 / s < 0) ↔ s < 0 := one_div_neg
  by_cases h : s < 0
  · simp [h]
  · have h2 : ¬ (1 / s < 0) := fun h' => h (this.mp h')
    rw [if_neg (by tauto), if_neg h]

theorem copysign_mul (m s : K) : @copysign K (fieldNum K sq) m (-s) * s = -(|m| * |s|) := by
  rw [copysign_field]
  rcases lt_trichotomy s 0 with h | h | h
  · rw [if_neg (by linarith), abs_of_neg h]; ring
  · subst h; simp
  · rw [if_pos (by linarith), abs_of_pos h]; ring

theorem support_cub (he c d : V2 K) :
    letI := fieldNum K sq
    supportToward2 (cuboidLocal2 he) ⟨1, 0, c⟩ d = (cuboidLocal2 he d).add c := by
  letI := fieldNum K sq
  have hd : Iso2.invRot (⟨1, 0, c⟩ : Iso2 K) d = d := by
    apply v2_ext <;> simp [Iso2.invRot]
  unfold supportToward2
  rw [hd]
  apply v2_ext <;> simp [Iso2.act, Iso2.rot, V2.add]

/-- segment-normal pass, explicit form -/
theorem sepPoint_some (p1 n he c : V2 K) :
    letI := fieldNum K sq
    sepPointCuboid p1 (some n) he ⟨1, 0, c⟩ =
      max (-realMax) (|(c.sub p1).dot n| - (|he.x| * |n.x| + |he.y| * |n.y|)) := by
  letI := fieldNum K sq
  have key : ∀ ax : V2 K, ((supportToward2 (cuboidLocal2 he) ⟨1, 0, c⟩ ax.neg).sub p1).dot ax
      = (c.sub p1).dot ax - (|he.x| * |ax.x| + |he.y| * |ax.y|) := by
    intro ax
    rw [support_cub]
    simp only [cuboidLocal2, V2.neg, V2.sub, V2.add, V2.dot]
    have h1 := copysign_mul sq he.x ax.x
    have h2 := copysign_mul sq he.y ax.y
    linear_combination h1 + h2
  unfold sepPointCuboid
  simp only []
  rw [key]
  have hval : (c.sub p1).dot (if 0 ≤ (c.sub p1).dot n then n else n.neg)
        - (|he.x| * |(if 0 ≤ (c.sub p1).dot n then n else n.neg).x| + |he.y| * |(if 0 ≤ (c.sub p1).dot n then n else n.neg).y|)
      = |(c.sub p1).dot n| - (|he.x| * |n.x| + |he.y| * |n.y|) := by
    split_ifs with h
    · rw [abs_of_nonneg h]
    · have h' : (c.sub p1).dot n < 0 := not_le.mp h
      rw [abs_of_neg h']
      simp only [V2.neg, V2.dot, V2.sub, abs_neg] at *
      ring
  rw [hval]
  split_ifs with h
  · exact (max_eq_right h.le).symm
  · exact (max_eq_left (not_lt.mp h)).symm

/-- the separating-axis conditions the 2-D cuboid/segment test evaluates, in closed form: the two box axes
(interval overlap) and — when the segment is longer than `DEFAULT_EPSILON` — the segment normal. -/
def SatCond (mins maxs a b : V2 K) : Prop :=
  (min a.x b.x ≤ maxs.x ∧ mins.x ≤ max a.x b.x ∧ min a.y b.y ≤ maxs.y ∧ mins.y ≤ max a.y b.y) ∧
  (@eps K (fieldNum K sq) * @eps K (fieldNum K sq) < (b.y - a.y) * (b.y - a.y) + -(b.x - a.x) * -(b.x - a.x) →
    |(mins.x + maxs.x - 2 * a.x) * (b.y - a.y) - (mins.y + maxs.y - 2 * a.y) * (b.x - a.x)|
      ≤ (maxs.x - mins.x) * |b.y - a.y| + (maxs.y - mins.y) * |b.x - a.x|)

theorem inverse_id (c : V2 K) :
    letI := fieldNum K sq
    Iso2.inverse (⟨1, 0, c.neg⟩ : Iso2 K) = ⟨1, 0, c⟩ := by
  letI := fieldNum K sq
  simp [Iso2.inverse, Iso2.rot, V2.neg]

theorem half_lit : @lit K (fieldNum K sq) 1 2 = 1 / 2 := by
  rw [fieldNum_lit]; norm_num

theorem segNormal_eq (a b : V2 K) :
    letI := fieldNum K sq
    segNormal a b = if eps * eps < (b.y - a.y) * (b.y - a.y) + -(b.x - a.x) * -(b.x - a.x) then
      some ⟨(b.y - a.y) / sq ((b.y - a.y) * (b.y - a.y) + -(b.x - a.x) * -(b.x - a.x)),
            -(b.x - a.x) / sq ((b.y - a.y) * (b.y - a.y) + -(b.x - a.x) * -(b.x - a.x))⟩ else none := rfl

theorem testAabbSegment_iff (hsq : LawfulSqrt sq) (mins maxs a b : V2 K)
    (hbx : mins.x ≤ maxs.x) (hby : mins.y ≤ maxs.y) :
    letI := fieldNum K sq
    testAabbSegment mins maxs a b = true ↔ SatCond sq mins maxs a b := by
  letI := fieldNum K sq
  have hM := realMax_nonneg (K := K) sq
  unfold testAabbSegment testCuboidSegment
  simp only []
  rw [inverse_id, sepCuboidSeg_eq]
  simp only [V2.center, V2.neg, V2.sub, V2.add, V2.smul, half_lit]
  -- first pass
  have h1 : (¬ 0 < max (max (max (max (-@realMax K (fieldNum K sq)) (-(max a.x b.x + -((mins.x + maxs.x) * (1 / 2))) - (maxs.x - mins.x) * (1 / 2)))
      (min a.x b.x + -((mins.x + maxs.x) * (1 / 2)) - (maxs.x - mins.x) * (1 / 2)))
      (-(max a.y b.y + -((mins.y + maxs.y) * (1 / 2))) - (maxs.y - mins.y) * (1 / 2)))
      (min a.y b.y + -((mins.y + maxs.y) * (1 / 2)) - (maxs.y - mins.y) * (1 / 2))) ↔
      (min a.x b.x ≤ maxs.x ∧ mins.x ≤ max a.x b.x ∧ min a.y b.y ≤ maxs.y ∧ mins.y ≤ max a.y b.y) := by
    rw [not_lt, max_le_iff, max_le_iff, max_le_iff, max_le_iff]
    constructor
    · rintro ⟨⟨⟨⟨_, h1⟩, h2⟩, h3⟩, h4⟩
      refine ⟨by linarith, by linarith, by linarith, by linarith⟩
    · rintro ⟨h1, h2, h3, h4⟩
      refine ⟨⟨⟨⟨by linarith, by linarith⟩, by linarith⟩, by linarith⟩, by linarith⟩
  -- second pass
  have h2 : (¬ 0 < sepPointCuboid a (segNormal a b) ⟨(maxs.x - mins.x) * (1 / 2), (maxs.y - mins.y) * (1 / 2)⟩
        ⟨1, 0, ⟨(mins.x + maxs.x) * (1 / 2), (mins.y + maxs.y) * (1 / 2)⟩⟩) ↔
      (@eps K (fieldNum K sq) * @eps K (fieldNum K sq) < (b.y - a.y) * (b.y - a.y) + -(b.x - a.x) * -(b.x - a.x) →
        |(mins.x + maxs.x - 2 * a.x) * (b.y - a.y) - (mins.y + maxs.y - 2 * a.y) * (b.x - a.x)|
          ≤ (maxs.x - mins.x) * |b.y - a.y| + (maxs.y - mins.y) * |b.x - a.x|) := by
    rw [segNormal_eq]
    by_cases hlen : @eps K (fieldNum K sq) * @eps K (fieldNum K sq) < (b.y - a.y) * (b.y - a.y) + -(b.x - a.x) * -(b.x - a.x)
    · rw [if_pos hlen, sepPoint_some, not_lt, max_le_iff]
      simp only [V2.sub, V2.dot]
      set N := (b.y - a.y) * (b.y - a.y) + -(b.x - a.x) * -(b.x - a.x) with hN
      have hNpos : 0 < N := lt_of_le_of_lt (mul_self_nonneg _) hlen
      have hs0 : 0 ≤ sq N := hsq.nonneg N hNpos.le
      have hss : sq N * sq N = N := hsq.sq_mul N hNpos.le
      have hs : 0 < sq N := by
        rcases hs0.lt_or_eq with h | h
        · exact h
        · rw [← h] at hss; simp at hss; linarith
      have e1 : ((mins.x + maxs.x) * (1 / 2) - a.x) * ((b.y - a.y) / sq N) + ((mins.y + maxs.y) * (1 / 2) - a.y) * (-(b.x - a.x) / sq N)
          = ((mins.x + maxs.x - 2 * a.x) * (b.y - a.y) - (mins.y + maxs.y - 2 * a.y) * (b.x - a.x)) / (2 * sq N) := by
        field_simp; ring
      have e2 : (maxs.x - mins.x) * (1 / 2) * (|b.y - a.y| / sq N) + (maxs.y - mins.y) * (1 / 2) * (|b.x - a.x| / sq N)
              = ((maxs.x - mins.x) * |b.y - a.y| + (maxs.y - mins.y) * |b.x - a.x|) / (2 * sq N) := by
        field_simp
      rw [e1, abs_div, abs_div, abs_div, abs_of_pos hs, abs_of_pos (by linarith : (0:K) < 2 * sq N), abs_neg,
        abs_of_nonneg (by linarith : (0:K) ≤ (maxs.x - mins.x) * (1 / 2)), abs_of_nonneg (by linarith : (0:K) ≤ (maxs.y - mins.y) * (1 / 2)), e2]
      constructor
      · rintro ⟨_, h⟩ _
        exact (div_le_div_iff_of_pos_right (by linarith : (0:K) < 2 * sq N)).mp (by linarith)
      · intro h
        refine ⟨by linarith, ?_⟩
        have h' := (div_le_div_iff_of_pos_right (by linarith : (0:K) < 2 * sq N)).mpr (h hlen)
        linarith
    · rw [if_neg hlen]
      simp only [sepPointCuboid]
      constructor
      · intro _ h; exact absurd h hlen
      · intro _; linarith
  unfold SatCond
  rw [← h1, ← h2]
  split_ifs with c1 c2 <;> simp_all

theorem conv_between (u v t : K) (h0 : 0 ≤ t) (h1 : t ≤ 1) : min u v ≤ u + (v - u) * t ∧ u + (v - u) * t ≤ max u v := by
  rcases le_total u v with h | h
  · rw [min_eq_left h, max_eq_right h]
    constructor <;> nlinarith [mul_nonneg (sub_nonneg.mpr h) h0, mul_nonneg (sub_nonneg.mpr h) (sub_nonneg.mpr h1)]
  · rw [min_eq_right h, max_eq_left h]
    constructor <;> nlinarith [mul_nonneg (sub_nonneg.mpr h) h0, mul_nonneg (sub_nonneg.mpr h) (sub_nonneg.mpr h1)]

theorem sat_of_common_point (mins maxs a b : V2 K) (t : K) (h0 : 0 ≤ t) (h1 : t ≤ 1)
    (hx : mins.x ≤ a.x + (b.x - a.x) * t ∧ a.x + (b.x - a.x) * t ≤ maxs.x)
    (hy : mins.y ≤ a.y + (b.y - a.y) * t ∧ a.y + (b.y - a.y) * t ≤ maxs.y) :
    SatCond sq mins maxs a b := by
  have cx := conv_between a.x b.x t h0 h1
  have cy := conv_between a.y b.y t h0 h1
  refine ⟨⟨by linarith, by linarith, by linarith, by linarith⟩, fun _ => ?_⟩
  set px := a.x + (b.x - a.x) * t with hpx
  set py := a.y + (b.y - a.y) * t with hpy
  have e : (mins.x + maxs.x - 2 * a.x) * (b.y - a.y) - (mins.y + maxs.y - 2 * a.y) * (b.x - a.x)
      = (mins.x + maxs.x - 2 * px) * (b.y - a.y) - (mins.y + maxs.y - 2 * py) * (b.x - a.x) := by
    rw [hpx, hpy]; ring
  rw [e]
  have ux : |mins.x + maxs.x - 2 * px| ≤ maxs.x - mins.x := abs_le.mpr ⟨by linarith, by linarith⟩
  have uy : |mins.y + maxs.y - 2 * py| ≤ maxs.y - mins.y := abs_le.mpr ⟨by linarith, by linarith⟩
  calc |(mins.x + maxs.x - 2 * px) * (b.y - a.y) - (mins.y + maxs.y - 2 * py) * (b.x - a.x)|
      ≤ |(mins.x + maxs.x - 2 * px) * (b.y - a.y)| + |(mins.y + maxs.y - 2 * py) * (b.x - a.x)| := abs_sub _ _
    _ = |mins.x + maxs.x - 2 * px| * |b.y - a.y| + |mins.y + maxs.y - 2 * py| * |b.x - a.x| := by rw [abs_mul, abs_mul]
    _ ≤ (maxs.x - mins.x) * |b.y - a.y| + (maxs.y - mins.y) * |b.x - a.x| :=
        add_le_add (mul_le_mul_of_nonneg_right ux (abs_nonneg _)) (mul_le_mul_of_nonneg_right uy (abs_nonneg _))

/-- 2-D separating-axis theorem for an axis-aligned box and a segment pointing to the upper right, constructive form -/
theorem sat_sound_pos (ax ay bx «by» mx my Mx My : K)
    (hdx : ax ≤ bx) (hdy : ay ≤ «by») (X1 : ax ≤ Mx) (X2 : mx ≤ bx) (Y1 : ay ≤ My) (Y2 : my ≤ «by»)
    (N1 : (mx - ax) * («by» - ay) ≤ (My - ay) * (bx - ax)) (N2 : (my - ay) * (bx - ax) ≤ (Mx - ax) * («by» - ay))
    (hm : mx ≤ Mx) (hmy : my ≤ My) :
    ∃ t : K, 0 ≤ t ∧ t ≤ 1 ∧ (mx ≤ ax + (bx - ax) * t ∧ ax + (bx - ax) * t ≤ Mx) ∧
      (my ≤ ay + («by» - ay) * t ∧ ay + («by» - ay) * t ≤ My) := by
  by_cases hA : mx ≤ ax ∧ my ≤ ay
  · exact ⟨0, le_refl _, zero_le_one, ⟨by linarith [hA.1], by linarith⟩, ⟨by linarith [hA.2], by linarith⟩⟩
  · by_cases hB : ax < mx ∧ (my ≤ ay ∨ (my - ay) * (bx - ax) ≤ (mx - ax) * («by» - ay))
    · obtain ⟨h1, h2⟩ := hB
      have hd : 0 < bx - ax := by linarith
      refine ⟨(mx - ax) / (bx - ax), div_nonneg (by linarith) hd.le, (div_le_one hd).mpr (by linarith), ?_, ?_⟩
      · rw [mul_div_cancel₀ _ (ne_of_gt hd)]; constructor <;> linarith
      · have e : ay + («by» - ay) * ((mx - ax) / (bx - ax)) = ay + ((mx - ax) * («by» - ay)) / (bx - ax) := by
          field_simp
        rw [e]
        constructor
        · have : my - ay ≤ ((mx - ax) * («by» - ay)) / (bx - ax) := by
            rw [le_div_iff₀ hd]
            rcases h2 with h2 | h2
            · nlinarith [mul_nonneg (sub_nonneg.mpr h2) hd.le, mul_nonneg (sub_nonneg.mpr h1.le) (sub_nonneg.mpr hdy)]
            · exact h2
          linarith
        · have : ((mx - ax) * («by» - ay)) / (bx - ax) ≤ My - ay := by
            rw [div_le_iff₀ hd]; exact N1
          linarith
    · have hC : ay < my ∧ (mx ≤ ax ∨ (mx - ax) * («by» - ay) ≤ (my - ay) * (bx - ax)) := by
        by_contra hC
        push Not at hA hB hC
        by_cases c1 : mx ≤ ax
        · have h := hC (hA c1)
          linarith [h.1]
        · have hb := hB (not_le.mp c1)
          have h := hC hb.1
          linarith [h.2, hb.2]
      obtain ⟨h1, h2⟩ := hC
      have hd : 0 < «by» - ay := by linarith
      refine ⟨(my - ay) / («by» - ay), div_nonneg (by linarith) hd.le, (div_le_one hd).mpr (by linarith), ?_, ?_⟩
      · have e : ax + (bx - ax) * ((my - ay) / («by» - ay)) = ax + ((my - ay) * (bx - ax)) / («by» - ay) := by
          field_simp
        rw [e]
        constructor
        · have : mx - ax ≤ ((my - ay) * (bx - ax)) / («by» - ay) := by
            rw [le_div_iff₀ hd]
            rcases h2 with h2 | h2
            · nlinarith [mul_nonneg (sub_nonneg.mpr h2) hd.le, mul_nonneg (sub_nonneg.mpr h1.le) (sub_nonneg.mpr hdx)]
            · exact h2
          linarith
        · have : ((my - ay) * (bx - ax)) / («by» - ay) ≤ Mx - ax := by
            rw [div_le_iff₀ hd]; exact N2
          linarith
      · rw [mul_div_cancel₀ _ (ne_of_gt hd)]; constructor <;> linarith

/-- 2-D separating-axis theorem, box vs segment, any direction (reflections reduce to `sat_sound_pos`) -/
theorem sat_sound_scalar (ax ay bx «by» mx my Mx My : K) (hm : mx ≤ Mx) (hmy : my ≤ My)
    (X1 : min ax bx ≤ Mx) (X2 : mx ≤ max ax bx) (Y1 : min ay «by» ≤ My) (Y2 : my ≤ max ay «by»)
    (N : |(mx + Mx - 2 * ax) * («by» - ay) - (my + My - 2 * ay) * (bx - ax)|
          ≤ (Mx - mx) * |«by» - ay| + (My - my) * |bx - ax|) :
    ∃ t : K, 0 ≤ t ∧ t ≤ 1 ∧ (mx ≤ ax + (bx - ax) * t ∧ ax + (bx - ax) * t ≤ Mx) ∧
      (my ≤ ay + («by» - ay) * t ∧ ay + («by» - ay) * t ≤ My) := by
  rcases le_total ax bx with hx | hx <;> rcases le_total ay «by» with hy | hy
  · rw [min_eq_left hx] at X1; rw [max_eq_right hx] at X2; rw [min_eq_left hy] at Y1; rw [max_eq_right hy] at Y2
    rw [abs_of_nonneg (sub_nonneg.mpr hy), abs_of_nonneg (sub_nonneg.mpr hx)] at N
    obtain ⟨N2, N1⟩ := abs_le.mp N
    exact sat_sound_pos ax ay bx «by» mx my Mx My hx hy X1 X2 Y1 Y2 (by linarith) (by linarith) hm hmy
  · rw [min_eq_left hx] at X1; rw [max_eq_right hx] at X2; rw [min_eq_right hy] at Y1; rw [max_eq_left hy] at Y2
    rw [abs_of_nonpos (sub_nonpos.mpr hy), abs_of_nonneg (sub_nonneg.mpr hx)] at N
    obtain ⟨N2, N1⟩ := abs_le.mp N
    obtain ⟨t, h0, h1, ⟨a1, a2⟩, ⟨b1, b2⟩⟩ := sat_sound_pos ax (-ay) bx (-«by») mx (-My) Mx (-my) hx (by linarith) X1 X2
      (by linarith) (by linarith) (by linarith) (by linarith) hm (by linarith)
    exact ⟨t, h0, h1, ⟨a1, a2⟩, ⟨by linarith, by linarith⟩⟩
  · rw [min_eq_right hx] at X1; rw [max_eq_left hx] at X2; rw [min_eq_left hy] at Y1; rw [max_eq_right hy] at Y2
    rw [abs_of_nonneg (sub_nonneg.mpr hy), abs_of_nonpos (sub_nonpos.mpr hx)] at N
    obtain ⟨N2, N1⟩ := abs_le.mp N
    obtain ⟨t, h0, h1, ⟨a1, a2⟩, ⟨b1, b2⟩⟩ := sat_sound_pos (-ax) ay (-bx) «by» (-Mx) my (-mx) My (by linarith) hy (by linarith) (by linarith)
      Y1 Y2 (by linarith) (by linarith) (by linarith) hmy
    exact ⟨t, h0, h1, ⟨by linarith, by linarith⟩, ⟨b1, b2⟩⟩
  · rw [min_eq_right hx] at X1; rw [max_eq_left hx] at X2; rw [min_eq_right hy] at Y1; rw [max_eq_left hy] at Y2
    rw [abs_of_nonpos (sub_nonpos.mpr hy), abs_of_nonpos (sub_nonpos.mpr hx)] at N
    obtain ⟨N2, N1⟩ := abs_le.mp N
    obtain ⟨t, h0, h1, ⟨a1, a2⟩, ⟨b1, b2⟩⟩ := sat_sound_pos (-ax) (-ay) (-bx) (-«by») (-Mx) (-My) (-mx) (-my) (by linarith) (by linarith)
      (by linarith) (by linarith) (by linarith) (by linarith) (by linarith) (by linarith) (by linarith) (by linarith)
    exact ⟨t, h0, h1, ⟨by linarith, by linarith⟩, ⟨by linarith, by linarith⟩⟩


/-! ### `clip_aabb_line` -/

theorem neq_zero_field (d : K) : @neq K (fieldNum K sq) d 0 = true ↔ d = 0 := by
  unfold neq
  simp only [Bool.and_eq_true, decide_eq_true_eq]
  constructor
  · rintro ⟨h1, h2⟩; exact le_antisymm h1 h2
  · rintro rfl; exact ⟨le_refl _, le_refl _⟩

/-- the set of parameters `t` for which one coordinate `o + t d` lies in `[lo, hi]`, `d ≠ 0` -/
theorem axis_interval (lo hi o d : K) (hlh : lo ≤ hi) (hd : d ≠ 0) (t : K) :
    (lo ≤ o + t * d ∧ o + t * d ≤ hi) ↔ (min ((lo - o) * (1 / d)) ((hi - o) * (1 / d)) ≤ t ∧ t ≤ max ((lo - o) * (1 / d)) ((hi - o) * (1 / d))) := by
  rcases lt_or_gt_of_ne hd with h | h
  · -- d < 0
    have e1 : ∀ x : K, x * (1 / d) ≤ t ↔ t * d ≤ x := by
      intro x; rw [mul_one_div, div_le_iff_of_neg h]
    have e2 : ∀ x : K, t ≤ x * (1 / d) ↔ x ≤ t * d := by
      intro x; rw [mul_one_div, le_div_iff_of_neg h]
    have hle : (hi - o) * (1 / d) ≤ (lo - o) * (1 / d) := by
      rw [mul_one_div, mul_one_div]; exact (div_le_div_right_of_neg h).mpr (by linarith)
    rw [min_eq_right hle, max_eq_left hle, e1, e2]
    constructor <;> rintro ⟨h1, h2⟩ <;> constructor <;> linarith
  · have e1 : ∀ x : K, x * (1 / d) ≤ t ↔ x ≤ t * d := by
      intro x; rw [mul_one_div, div_le_iff₀ h]
    have e2 : ∀ x : K, t ≤ x * (1 / d) ↔ t * d ≤ x := by
      intro x; rw [mul_one_div, le_div_iff₀ h]
    have hle : (lo - o) * (1 / d) ≤ (hi - o) * (1 / d) := by
      rw [mul_one_div, mul_one_div]; exact (div_le_div_iff_of_pos_right h).mpr (by linarith)
    rw [min_eq_left hle, max_eq_right hle, e1, e2]
    constructor <;> rintro ⟨h1, h2⟩ <;> constructor <;> linarith

/-- what `clip_aabb_line` has established after some axes: `none` = no admissible parameter, `some (a, b)` = the admissible
parameters are exactly `[a, b]`, which is not empty -/
def ClipOk (acc : Option (K × K)) (C : K → Prop) : Prop :=
  match acc with
  | none => ∀ t, ¬ C t
  | some (a, b) => a ≤ b ∧ ∀ t, (a ≤ t ∧ t ≤ b) ↔ C t

/-- one axis of `clip_aabb_line` intersects the admissible parameter set with `{t | lo ≤ o + t d ≤ hi}` -/
theorem clipAxis_spec (mins maxs origin dir : V2 K) (i : Nat) (hlh : mins.get i ≤ maxs.get i) (acc : Option (K × K))
    (C : K → Prop) (hacc : ClipOk acc C) :
    letI := fieldNum K sq
    ClipOk (clipAxis mins maxs origin dir acc i)
      (fun t => C t ∧ mins.get i ≤ origin.get i + t * dir.get i ∧ origin.get i + t * dir.get i ≤ maxs.get i) := by
  letI := fieldNum K sq
  cases acc with
  | none => exact fun t h => hacc t h.1
  | some p =>
    obtain ⟨tmin, tmax⟩ := p
    obtain ⟨hle, hC⟩ := hacc
    unfold clipAxis
    simp only []
    by_cases hd : dir.get i = 0
    · rw [if_pos ((neq_zero_field sq _).mpr hd)]
      by_cases hout : origin.get i < mins.get i ∨ maxs.get i < origin.get i
      · rw [if_pos hout]
        intro t ht
        rw [hd] at ht
        rcases hout with h | h <;> linarith [ht.2.1, ht.2.2]
      · rw [if_neg hout]
        push Not at hout
        refine ⟨hle, fun t => ?_⟩
        rw [hC t, hd]
        constructor
        · intro h; exact ⟨h, by linarith [hout.1], by linarith [hout.2]⟩
        · intro h; exact h.1
    · rw [if_neg (fun h => hd ((neq_zero_field sq _).mp h))]
      set n0 := (mins.get i - origin.get i) * (1 / dir.get i) with hn0
      set f0 := (maxs.get i - origin.get i) * (1 / dir.get i) with hf0
      have hn : (if f0 < n0 then f0 else n0) = min n0 f0 := by
        split_ifs with h
        · exact (min_eq_right h.le).symm
        · exact (min_eq_left (not_lt.mp h)).symm
      have hf : (if f0 < n0 then n0 else f0) = max n0 f0 := by
        split_ifs with h
        · exact (max_eq_left h.le).symm
        · exact (max_eq_right (not_lt.mp h)).symm
      rw [hn, hf]
      have hmin : (if tmin < min n0 f0 then min n0 f0 else tmin) = max tmin (min n0 f0) := by
        split_ifs with h
        · exact (max_eq_right h.le).symm
        · exact (max_eq_left (not_lt.mp h)).symm
      have hmax : (if max n0 f0 < tmax then max n0 f0 else tmax) = min tmax (max n0 f0) := by
        split_ifs with h
        · exact (min_eq_right h.le).symm
        · exact (min_eq_left (not_lt.mp h)).symm
      rw [hmin, hmax]
      have key : ∀ t, (max tmin (min n0 f0) ≤ t ∧ t ≤ min tmax (max n0 f0)) ↔
          (C t ∧ mins.get i ≤ origin.get i + t * dir.get i ∧ origin.get i + t * dir.get i ≤ maxs.get i) := by
        intro t
        rw [axis_interval _ _ _ _ hlh hd t, ← hC t, max_le_iff, le_min_iff]
        tauto
      by_cases hemp : min tmax (max n0 f0) < max tmin (min n0 f0)
      · rw [if_pos hemp]
        intro t ht
        have := (key t).mpr ht
        linarith [this.1, this.2]
      · rw [if_neg hemp]
        exact ⟨not_lt.mp hemp, key⟩

theorem realMax_ge_one : (1 : K) ≤ @realMax K (fieldNum K sq) := by
  unfold realMax
  rw [fieldNum_lit]
  have : (1 : ℚ) ≤ mkRat (2 ^ 1024 - 2 ^ 971) 1 := by
    rw [Rat.mkRat_one]
    have h1 : (2:ℤ) ^ 971 * 2 ≤ 2 ^ 1024 := by
      rw [← pow_succ]; exact pow_le_pow_right₀ (by norm_num) (by norm_num)
    have h2 : (1:ℤ) ≤ 2 ^ 971 := one_le_pow₀ (by norm_num)
    have : (1:ℤ) ≤ 2 ^ 1024 - 2 ^ 971 := by
      generalize (2:ℤ) ^ 971 = x at h1 h2 ⊢
      generalize (2:ℤ) ^ 1024 = y at h1 ⊢
      omega
    exact_mod_cast this
  exact_mod_cast this


end C18
