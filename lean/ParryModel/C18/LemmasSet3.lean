import ParryModel.C18.LemmasSet
import ParryModel.C18.LemmasMark3
import ParryModel.C18.ModelMap3
/-!
# C18 lemmas for the 3-D voxelizer model with the map kept: `impl From<VoxelizedVolume> for VoxelSet` (`dim3`)
3-D port of `LemmasSet.lean`: the first loop that assigns the ranges (`fromLoop3_inv`), the combination with the
dimension-free scatter loop (`toVoxelSet3K_map`), the voxel list (`toVoxelSet3K_voxels`) and `filter_cell3`.
-/
set_option linter.unusedSectionVars false
set_option linter.unusedVariables false
set_option linter.unusedSimpArgs false
namespace C18
open Model Model.Vox Model.Vox3

/-- the surface voxels pushed so far -/
def SV3 (st : FromSt3) : List Voxel3K := st.voxels.toList.filter (·.surf)

/-- invariant of the first loop of `From<VoxelizedVolume>` (`dim3`, map kept) after the cells `L` -/
structure FromInv3 (ni nj nk : Nat) (vals : Array VV) (num0 : Array Nat) (st : FromSt3) (L : List (Nat × Nat × Nat)) :
    Prop where
  size : st.num.size = num0.size
  keep : ∀ id, (∀ c ∈ L, getC3 ni nj vals c = .surf → idx3 ni nj c.1 c.2.1 c.2.2 ≠ id) → st.num.getD id 0 = num0.getD id 0
  pair : List.Pairwise (fun w w' : Voxel3K => w.r1 ≤ w'.r0) (SV3 st)
  each : ∀ w ∈ SV3 st, w.r1 = w.r0 + num0.getD (idx3 ni nj w.i w.j w.k) 0 ∧ w.r1 ≤ st.curr ∧
    st.num.getD (idx3 ni nj w.i w.j w.k) 0 = w.r0
  cells : (SV3 st).map (fun w => (w.i, w.j, w.k)) = L.filter (fun c => getC3 ni nj vals c = .surf)
  curr : st.curr = ((SV3 st).map (fun w => num0.getD (idx3 ni nj w.i w.j w.k) 0)).sum

theorem fromCell3_eq (ni nj : Nat) (vals : Array VV) (st : FromSt3) (c : Nat × Nat × Nat) :
    fromCell3K ni nj vals true st c =
      if getC3 ni nj vals c = .inside then
        { st with voxels := st.voxels.push ⟨c.1, c.2.1, c.2.2, false, st.curr, st.curr⟩ }
      else if getC3 ni nj vals c = .surf then
        ⟨st.voxels.push ⟨c.1, c.2.1, c.2.2, true, st.curr, st.curr + st.num.getD (idx3 ni nj c.1 c.2.1 c.2.2) 0⟩,
          st.curr + st.num.getD (idx3 ni nj c.1 c.2.1 c.2.2) 0, st.num.setIfInBounds (idx3 ni nj c.1 c.2.1 c.2.2) st.curr⟩
      else st := by
  unfold fromCell3K getC3; simp

theorem fromLoop3_inv (ni nj nk : Nat) (vals : Array VV) (num0 : Array Nat) (hn0 : num0.size = ni * nj * nk) :
    ∀ (l : List (Nat × Nat × Nat)) (st : FromSt3) (L : List (Nat × Nat × Nat)), FromInv3 ni nj nk vals num0 st L →
      (∀ c ∈ l, InB3 ni nj nk c) → (∀ c ∈ L, InB3 ni nj nk c) → (∀ c ∈ l, c ∉ L) → l.Nodup →
      FromInv3 ni nj nk vals num0 (l.foldl (fromCell3K ni nj vals true) st) (L ++ l)
  | [], st, L, h, _, _, _, _ => by simpa using h
  | c :: l, st, L, h, hl, hL, hnot, hnd => by
    rw [List.foldl_cons]
    have hc : InB3 ni nj nk c := hl c List.mem_cons_self
    have hcL : c ∉ L := hnot c List.mem_cons_self
    have step : FromInv3 ni nj nk vals num0 (fromCell3K ni nj vals true st c) (L ++ [c]) := by
      rw [fromCell3_eq]
      by_cases h1 : getC3 ni nj vals c = .inside
      · rw [if_pos h1]
        have hsv : SV3 { st with voxels := st.voxels.push ⟨c.1, c.2.1, c.2.2, false, st.curr, st.curr⟩ } = SV3 st := by
          simp [SV3, List.filter_append]
        have hns : ¬ getC3 ni nj vals c = .surf := by rw [h1]; intro x; cases x
        refine ⟨h.size, ?_, by rw [hsv]; exact h.pair, by rw [hsv]; exact h.each, ?_, by rw [hsv]; exact h.curr⟩
        · intro id hid
          exact h.keep id (fun c' hc' => hid c' (List.mem_append_left _ hc'))
        · rw [hsv, h.cells]; simp [List.filter_append, hns]
      · rw [if_neg h1]
        by_cases h2 : getC3 ni nj vals c = .surf
        · rw [if_pos h2]
          -- the counter of this cell has not been overwritten yet
          have hnum : st.num.getD (idx3 ni nj c.1 c.2.1 c.2.2) 0 = num0.getD (idx3 ni nj c.1 c.2.1 c.2.2) 0 := by
            apply h.keep
            intro c' hc' _ e
            have := idx3_inj (hL c' hc').1 hc.1 (hL c' hc').2.1 hc.2.1 e
            exact hcL (by rw [← Prod.ext this.1 (Prod.ext this.2.1 this.2.2)]; exact hc')
          have hlt : idx3 ni nj c.1 c.2.1 c.2.2 < st.num.size := by
            rw [h.size, hn0]; exact idx3_lt hc.1 hc.2.1 hc.2.2
          set w : Voxel3K :=
            ⟨c.1, c.2.1, c.2.2, true, st.curr, st.curr + st.num.getD (idx3 ni nj c.1 c.2.1 c.2.2) 0⟩ with hw
          have hsv : SV3 ⟨st.voxels.push w, st.curr + st.num.getD (idx3 ni nj c.1 c.2.1 c.2.2) 0,
                st.num.setIfInBounds (idx3 ni nj c.1 c.2.1 c.2.2) st.curr⟩
              = SV3 st ++ [w] := by
            simp [SV3, List.filter_append, hw]
          refine ⟨by simp [h.size], ?_, ?_, ?_, ?_, ?_⟩
          · intro id hid
            have hne : idx3 ni nj c.1 c.2.1 c.2.2 ≠ id := hid c (by simp) h2
            rw [getD_setIfInBounds_nat, if_neg (fun x => hne x.1)]
            exact h.keep id (fun c' hc' => hid c' (List.mem_append_left _ hc'))
          · rw [hsv, List.pairwise_append]
            refine ⟨h.pair, List.pairwise_singleton _ _, ?_⟩
            intro a ha b hb
            simp only [List.mem_singleton] at hb
            subst hb
            exact (h.each a ha).2.1
          · rw [hsv]
            intro a ha
            rcases List.mem_append.mp ha with ha | ha
            · obtain ⟨e1, e2, e3⟩ := h.each a ha
              refine ⟨e1, by show a.r1 ≤ st.curr + st.num.getD (idx3 ni nj c.1 c.2.1 c.2.2) 0; omega, ?_⟩
              -- `a` is an earlier surface voxel: a different cell
              have hacell : (a.i, a.j, a.k) ∈ L := by
                have : (a.i, a.j, a.k) ∈ (SV3 st).map (fun w => (w.i, w.j, w.k)) := List.mem_map.mpr ⟨a, ha, rfl⟩
                rw [h.cells] at this
                exact (List.mem_filter.mp this).1
              have hne : idx3 ni nj c.1 c.2.1 c.2.2 ≠ idx3 ni nj a.i a.j a.k := by
                intro e
                have := idx3_inj hc.1 (hL _ hacell).1 hc.2.1 (hL _ hacell).2.1 e
                exact hcL (by rw [Prod.ext this.1 (Prod.ext this.2.1 this.2.2)]; exact hacell)
              simp only []
              rw [getD_setIfInBounds_nat, if_neg (fun x => hne x.1)]
              exact e3
            · simp only [List.mem_singleton] at ha
              subst ha
              simp only [hw]
              refine ⟨by rw [hnum], le_refl _, ?_⟩
              rw [getD_setIfInBounds_nat, if_pos ⟨rfl, hlt⟩]
          · rw [hsv, List.map_append, h.cells]
            simp [List.filter_append, h2, hw]
          · rw [hsv, List.map_append, List.sum_append]
            simp only [hw, List.map_cons, List.map_nil, List.sum_cons, List.sum_nil]
            rw [← h.curr, hnum]; omega
        · rw [if_neg h2]
          refine ⟨h.size, ?_, h.pair, h.each, ?_, h.curr⟩
          · intro id hid
            exact h.keep id (fun c' hc' => hid c' (List.mem_append_left _ hc'))
          · rw [h.cells]; simp [List.filter_append, h2]
    have := fromLoop3_inv ni nj nk vals num0 hn0 l (fromCell3K ni nj vals true st c) (L ++ [c]) step
      (fun x hx => hl x (List.mem_cons_of_mem _ hx))
      (fun x hx => by rcases List.mem_append.mp hx with h' | h'
                      · exact hL x h'
                      · simp at h'; subst h'; exact hc)
      (fun x hx hx' => by
        rcases List.mem_append.mp hx' with h' | h'
        · exact hnot x (List.mem_cons_of_mem _ hx) h'
        · simp at h'; subst h'; exact (List.nodup_cons.mp hnd).1 hx)
      (List.nodup_cons.mp hnd).2
    simpa [List.append_assoc] using this

theorem cellsIn3_nodupK (i0 j0 k0 i1 j1 k1 : Nat) : (cellsIn3 i0 j0 k0 i1 j1 k1).Nodup := by
  unfold cellsIn3
  rw [List.nodup_flatMap]
  constructor
  · intro i _
    rw [List.nodup_flatMap]
    constructor
    · intro j _
      exact (List.nodup_range' (step := 1) (by omega)).map (fun a b h => by simpa using h)
    · apply List.Pairwise.imp _ (List.nodup_range' (s := j0) (n := j1 - j0) (step := 1) (by omega))
      intro a b hab
      simp only [Function.onFun, List.disjoint_left, List.mem_map]
      rintro x ⟨k, _, rfl⟩ ⟨k', _, h⟩
      exact hab (by simpa using (congrArg (fun p => p.2.1) h).symm)
  · apply List.Pairwise.imp _ (List.nodup_range' (s := i0) (n := i1 - i0) (step := 1) (by omega))
    intro a b hab
    simp only [Function.onFun, List.disjoint_left, List.mem_flatMap, List.mem_map]
    rintro x ⟨j, _, k, _, rfl⟩ ⟨j', _, k', _, h⟩
    exact hab (by simpa using (congrArg Prod.fst h).symm)

/-- **the flattened voxel-to-primitive map of the 3-D `VoxelSet`**.  Let `v` be a volume whose per-cell counters agree with
`primitive_intersections` (`num[id]` = number of entries with voxel id `id`) and whose entries all name surface cells.
Then for every surface voxel `w` of `VoxelSet::from(v)` the slice `intersections[w.range]` is exactly the list of primitive
ids of the entries of `primitive_intersections` with voxel id `voxel_index(w)`, in push order. -/
theorem toVoxelSet3K_map {K : Type} (v : Vol3K K) (hne : v.prims.isEmpty = false) (hsz : v.num.size = v.ni * v.nj * v.nk)
    (hnum : ∀ id, v.num.getD id 0 = (v.prims.toList.filter (fun pr => pr.1 = id)).length)
    (hsurf : ∀ pr ∈ v.prims.toList, ∃ c, InB3 v.ni v.nj v.nk c ∧ pr.1 = idx3 v.ni v.nj c.1 c.2.1 c.2.2 ∧
      getC3 v.ni v.nj v.vals c = .surf) :
    ∀ w ∈ (toVoxelSet3K v).1.toList, w.surf = true →
      voxelPrims3 (toVoxelSet3K v).2 w = (v.prims.toList.filter (fun pr => pr.1 = idx3 v.ni v.nj w.i w.j w.k)).map (·.2) := by
  set ni := v.ni with hni
  set nj := v.nj with hnj
  set nk := v.nk with hnk
  set P := v.prims.toList with hP
  set L := cellsIn3 0 0 0 ni nj nk with hL
  set st := L.foldl (fromCell3K ni nj v.vals true) ⟨#[], 0, v.num⟩ with hst
  have hLin : ∀ c ∈ L, InB3 ni nj nk c := fun c hc =>
    ⟨(mem_cellsIn3.mp hc).1.2, (mem_cellsIn3.mp hc).2.1.2, (mem_cellsIn3.mp hc).2.2.2⟩
  have inv0 : FromInv3 ni nj nk v.vals v.num ⟨#[], 0, v.num⟩ [] :=
    ⟨rfl, fun _ _ => rfl, by simp [SV3], by simp [SV3], by simp [SV3], by simp [SV3]⟩
  have inv : FromInv3 ni nj nk v.vals v.num st L := by
    have := fromLoop3_inv ni nj nk v.vals v.num hsz L _ [] inv0 hLin (by simp) (by simp) (cellsIn3_nodupK 0 0 0 ni nj nk)
    simpa using this
  have htv : toVoxelSet3K v = (st.voxels, (P.foldl scatter (Array.replicate v.prims.size 0, st.num)).1) := by
    unfold toVoxelSet3K
    simp only [hne, Bool.not_false, if_true]
    rw [← Array.foldl_toList]
  rw [htv]
  simp only []
  -- the blocks
  set ids := (SV3 st).map (fun w => idx3 ni nj w.i w.j w.k) with hids
  have hcellL : ∀ w ∈ SV3 st, (w.i, w.j, w.k) ∈ L ∧ getC3 ni nj v.vals (w.i, w.j, w.k) = .surf := by
    intro w hw
    have : (w.i, w.j, w.k) ∈ (SV3 st).map (fun w => (w.i, w.j, w.k)) := List.mem_map.mpr ⟨w, hw, rfl⟩
    rw [inv.cells] at this
    have := List.mem_filter.mp this
    exact ⟨this.1, by simpa using this.2⟩
  have hidsnd : ids.Nodup := by
    have h1 : ((SV3 st).map (fun w => (w.i, w.j, w.k))).Nodup := by
      rw [inv.cells]; exact (cellsIn3_nodupK 0 0 0 ni nj nk).filter _
    have h2 : ids = ((SV3 st).map (fun w => (w.i, w.j, w.k))).map (fun c => idx3 ni nj c.1 c.2.1 c.2.2) := by
      rw [hids, List.map_map]; rfl
    rw [h2]
    apply List.Nodup.map_on _ h1
    intro a ha b hb e
    rw [inv.cells] at ha hb
    have ha' := hLin a (List.mem_filter.mp ha).1
    have hb' := hLin b (List.mem_filter.mp hb).1
    have := idx3_inj ha'.1 hb'.1 ha'.2.1 hb'.2.1 e
    exact Prod.ext this.1 (Prod.ext this.2.1 this.2.2)
  have hsym : ∀ a ∈ SV3 st, ∀ b ∈ SV3 st, a ≠ b → a.r1 ≤ b.r0 ∨ b.r1 ≤ a.r0 := pairwise_either inv.pair
  have hmem : ∀ a ∈ ids, ∃ w ∈ SV3 st, idx3 ni nj w.i w.j w.k = a := by
    intro a ha
    obtain ⟨w, hw, e⟩ := List.mem_map.mp ha
    exact ⟨w, hw, e⟩
  have hdisj : ∀ a ∈ ids, ∀ b ∈ ids, a ≠ b →
      st.num.getD a 0 + v.num.getD a 0 ≤ st.num.getD b 0 ∨ st.num.getD b 0 + v.num.getD b 0 ≤ st.num.getD a 0 := by
    intro a ha b hb hab
    obtain ⟨wa, hwa, rfl⟩ := hmem a ha
    obtain ⟨wb, hwb, rfl⟩ := hmem b hb
    have hne' : wa ≠ wb := fun e => hab (by rw [e])
    obtain ⟨a1, _, a3⟩ := inv.each wa hwa
    obtain ⟨b1, _, b3⟩ := inv.each wb hwb
    rcases hsym wa hwa wb hwb hne' with h | h
    · left; omega
    · right; omega
  have hcurr : st.curr ≤ P.length := by
    rw [inv.curr]
    have e : (SV3 st).map (fun w => v.num.getD (idx3 ni nj w.i w.j w.k) 0)
        = ids.map (fun a => (P.filter (fun pr => pr.1 = a)).length) := by
      rw [hids, List.map_map]
      apply List.map_congr_left
      intro w _
      simp only [Function.comp]
      exact hnum _
    rw [e]
    exact sum_count_le P ids hidsnd
  have hM : ∀ a ∈ ids, st.num.getD a 0 + v.num.getD a 0 ≤ P.length := by
    intro a ha
    obtain ⟨w, hw, rfl⟩ := hmem a ha
    obtain ⟨a1, a2, a3⟩ := inv.each w hw
    omega
  obtain ⟨r1, r2⟩ := scatter_spec ids (fun a => st.num.getD a 0) (fun a => v.num.getD a 0)
    (fun a => (P.filter (fun pr => pr.1 = a)).map (·.2)) P.length hdisj hM
    (fun a _ => by simp only [List.length_map]; exact (hnum a).symm)
    P (Array.replicate v.prims.size 0) st.num (fun _ => 0)
    (by simp [hP])
    (by
      intro pr hpr
      obtain ⟨c, hc, e, hs⟩ := hsurf pr hpr
      have hcL : c ∈ L.filter (fun c => getC3 ni nj v.vals c = .surf) :=
        List.mem_filter.mpr ⟨mem_cellsIn3.mpr ⟨⟨Nat.zero_le _, hc.1⟩, ⟨Nat.zero_le _, hc.2.1⟩, ⟨Nat.zero_le _, hc.2.2⟩⟩,
          by simpa using hs⟩
      rw [← inv.cells] at hcL
      obtain ⟨w, hw, ew⟩ := List.mem_map.mp hcL
      rw [e, ← ew]
      exact List.mem_map.mpr ⟨w, hw, rfl⟩)
    (by
      intro a ha
      obtain ⟨w, hw, rfl⟩ := hmem a ha
      have hin := hLin _ (hcellL w hw).1
      refine ⟨by rw [inv.size, hsz]; exact idx3_lt hin.1 hin.2.1 hin.2.2, by simp⟩)
    (by intro a _; exact ⟨Nat.zero_le _, by simp⟩)
    (by intro a _ j hj; omega)
  intro w hw hws
  have hwsv : w ∈ SV3 st := List.mem_filter.mpr ⟨hw, by simpa using hws⟩
  obtain ⟨e1, e2, e3⟩ := inv.each w hwsv
  have ha : idx3 ni nj w.i w.j w.k ∈ ids := List.mem_map.mpr ⟨w, hwsv, rfl⟩
  set out := (P.foldl scatter (Array.replicate v.prims.size 0, st.num)).1 with hout
  unfold voxelPrims3
  have hlen : ((out.toList.drop w.r0).take (w.r1 - w.r0)).length = v.num.getD (idx3 ni nj w.i w.j w.k) 0 := by
    have h1 := hM _ ha
    simp only [List.length_take, List.length_drop, Array.length_toList, r1]
    omega
  apply list_ext_getD
  · rw [hlen, List.length_map]; exact hnum _
  · intro j hj
    rw [hlen] at hj
    have := r2 _ ha j hj
    rw [e3] at this
    rw [← this]
    simp only [List.getD_eq_getElem?_getD, List.getElem?_take, List.getElem?_drop, Array.getD_eq_getD_getElem?]
    rw [if_pos (by omega)]
    simp

/-- what `From<VoxelizedVolume>` keeps of a cell: inside cells as non-surface voxels, surface cells as surface voxels -/
def classify3K (ni nj : Nat) (vals : Array VV) (c : Nat × Nat × Nat) : Option ((Nat × Nat × Nat) × Bool) :=
  if getC3 ni nj vals c = .inside then some (c, false) else if getC3 ni nj vals c = .surf then some (c, true) else none

theorem fromCell3_eq2 (ni nj : Nat) (vals : Array VV) (hp : Bool) (st : FromSt3) (c : Nat × Nat × Nat) :
    fromCell3K ni nj vals hp st c =
      if getC3 ni nj vals c = .inside then
        { st with voxels := st.voxels.push ⟨c.1, c.2.1, c.2.2, false, st.curr, st.curr⟩ }
      else if getC3 ni nj vals c = .surf then
        if hp then
          ⟨st.voxels.push ⟨c.1, c.2.1, c.2.2, true, st.curr, st.curr + st.num.getD (idx3 ni nj c.1 c.2.1 c.2.2) 0⟩,
            st.curr + st.num.getD (idx3 ni nj c.1 c.2.1 c.2.2) 0,
            st.num.setIfInBounds (idx3 ni nj c.1 c.2.1 c.2.2) st.curr⟩
        else { st with voxels := st.voxels.push ⟨c.1, c.2.1, c.2.2, true, st.curr, st.curr⟩ }
      else st := rfl

theorem fromCell3_voxels (ni nj : Nat) (vals : Array VV) (hp : Bool) (st : FromSt3) (c : Nat × Nat × Nat) :
    (fromCell3K ni nj vals hp st c).voxels.toList.map (fun w => ((w.i, w.j, w.k), w.surf))
      = st.voxels.toList.map (fun w => ((w.i, w.j, w.k), w.surf)) ++ (classify3K ni nj vals c).toList := by
  rw [fromCell3_eq2]
  unfold classify3K
  by_cases h1 : getC3 ni nj vals c = .inside
  · rw [if_pos h1, if_pos h1]; simp
  · rw [if_neg h1, if_neg h1]
    by_cases h2 : getC3 ni nj vals c = .surf
    · rw [if_pos h2, if_pos h2]
      cases hp <;> simp
    · rw [if_neg h2, if_neg h2]; simp

theorem fromLoop3_voxels (ni nj : Nat) (vals : Array VV) (hp : Bool) : ∀ (l : List (Nat × Nat × Nat)) (st : FromSt3),
    (l.foldl (fromCell3K ni nj vals hp) st).voxels.toList.map (fun w => ((w.i, w.j, w.k), w.surf))
      = st.voxels.toList.map (fun w => ((w.i, w.j, w.k), w.surf)) ++ l.filterMap (classify3K ni nj vals)
  | [], st => by simp
  | c :: l, st => by
    rw [List.foldl_cons, fromLoop3_voxels ni nj vals hp l, fromCell3_voxels, List.append_assoc, List.filterMap_cons]
    congr 1
    cases classify3K ni nj vals c <;> rfl

/-- **the voxel list of the 3-D `VoxelSet`**: the inside and surface cells of the volume, in the scan order
`for i { for j { for k {..} } }`, with `is_on_surface` set exactly on the surface cells -/
theorem toVoxelSet3K_voxels {K : Type} (v : Vol3K K) :
    (toVoxelSet3K v).1.toList.map (fun w => ((w.i, w.j, w.k), w.surf))
      = (cellsIn3 0 0 0 v.ni v.nj v.nk).filterMap (classify3K v.ni v.nj v.vals) := by
  unfold toVoxelSet3K
  simp only []
  split_ifs <;> simp [fromLoop3_voxels]

theorem filter_cell3 (ni nj nk : Nat) (k : Nat) (hit : Nat × Nat × Nat → Bool) (w : Nat × Nat × Nat)
    (hw : InB3 ni nj nk w) :
    ∀ (l : List (Nat × Nat × Nat)), l.Nodup → (∀ c ∈ l, InB3 ni nj nk c) →
    (((l.filter hit).map (fun c => (idx3 ni nj c.1 c.2.1 c.2.2, k))).filter
        (fun pr => pr.1 = idx3 ni nj w.1 w.2.1 w.2.2)).map (·.2)
      = if w ∈ l ∧ hit w = true then [k] else []
  | [], _, _ => by simp
  | c :: l, hnd, hin => by
    have hnd' := List.nodup_cons.mp hnd
    have ih := filter_cell3 ni nj nk k hit w hw l hnd'.2 (fun x hx => hin x (List.mem_cons_of_mem _ hx))
    have hc := hin c List.mem_cons_self
    by_cases e : c = w
    · subst e
      have hnl : ¬ c ∈ l := hnd'.1
      rw [if_neg (fun h => hnl h.1)] at ih
      by_cases hh : hit c = true
      · rw [if_pos ⟨List.mem_cons_self, hh⟩, List.filter_cons, if_pos hh, List.map_cons, List.filter_cons]
        simp only [decide_true, if_true, List.map_cons]
        rw [ih]
      · rw [if_neg (fun h => hh h.2), List.filter_cons, if_neg hh]
        exact ih
    · have hne : ¬ idx3 ni nj c.1 c.2.1 c.2.2 = idx3 ni nj w.1 w.2.1 w.2.2 := by
        intro h
        have := idx3_inj hc.1 hw.1 hc.2.1 hw.2.1 h
        exact e (Prod.ext this.1 (Prod.ext this.2.1 this.2.2))
      have hmem : (w ∈ c :: l ∧ hit w = true) ↔ (w ∈ l ∧ hit w = true) := by
        have : ¬ w = c := fun h => e h.symm
        simp [List.mem_cons, this]
      rw [if_congr hmem rfl rfl, ← ih]
      by_cases hh : hit c = true
      · rw [List.filter_cons, if_pos hh, List.map_cons, List.filter_cons]
        simp only [decide_eq_true_eq, hne, if_false]
      · rw [List.filter_cons, if_neg hh]

end C18
