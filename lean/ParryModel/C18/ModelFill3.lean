import ParryModel.C18.ModelVox
/-!
# C18 model, part 3: grid parameters and the fill pass of the 3-D voxelizer (`parry3d-f64`)

Literal transliteration of the `dim3` text of `VoxelizedVolume::voxelize` (`voxelized_volume.rs`) outside the
triangle-marking loop: `local_point_cloud_aabb`, origin / `resolution[0..3]` / scale (the three-way choice of the
reference extent with its `>=` ties), `voxel_index(i, j, k) = i + j * res[0] + k * res[0] * res[1]`, the **six**
`mark_outside_surface` calls that seed the flood (one per face of the grid, in the code's order: `k = 0`,
`k = res[2]-1`, `j = 0`, `j = res[1]-1`, `i = 0`, `i = res[0]-1`), `propagate_values` with its six walks per cell in the
order `+k, −k, +j, −j, +i, −i` (each at most `walk_distance = 64` cells, stopped by the grid border), the sweep in
`for i { for j { for k` order, `replace_value`, and the three `FillMode`s (incl. the `detect_cavities` alternation).

The surface grid (which cells the triangle/box test marked `PrimitiveOnSurface`) is an *input* of this model: the
triangle/box SAT is not modelled; the correspondence feeds the real code's surface grid (the `SurfaceOnly` run) to the
model as an observed input.  `VV`, `walkCells`, `PSt`, `replaceValue`, `walkDistance`, `Cast` are the dimension-free
definitions of `ModelVox.lean`.  Loops get fuel `#cells + 1`.
-/
namespace Model.Vox3
open Model.Vox
variable {K : Type} [Num K]

/-- `voxel_index(i, j, k)` (`dim3`) -/
@[inline] def idx3 (ni nj i j k : Nat) : Nat := i + j * ni + k * ni * nj

/-- the cells of `for i in i0..i1 { for j in j0..j1 { for k in k0..k1 {..} } }`, in that order -/
def cellsIn3 (i0 j0 k0 i1 j1 k1 : Nat) : List (Nat × Nat × Nat) :=
  (List.range' i0 (i1 - i0)).flatMap fun i => (List.range' j0 (j1 - j0)).flatMap fun j =>
    (List.range' k0 (k1 - k0)).map fun k => (i, j, k)

/-- `local_point_cloud_aabb` (non-empty) -/
def cloudAabb3 (p0 : V3 K) (ps : List (V3 K)) : V3 K × V3 K :=
  ps.foldl (fun acc p => (acc.1.inf p, acc.2.sup p)) (p0, p0)

/-- resolution / scale from the bounding box (`dim3`): `(ni, nj, nk, scale)` -/
def gridParams3 [Cast K] (res : Nat) (mn mx : V3 K) : Nat × Nat × Nat × K :=
  let d := mx.sub mn
  let rr : K := lit res
  if d.y ≤ d.x ∧ d.z ≤ d.x then
    (res, 2 + Cast.toU32 (rr * d.y / d.x), 2 + Cast.toU32 (rr * d.z / d.x), d.x / (rr - 1))
  else if d.x ≤ d.y ∧ d.z ≤ d.y then
    (2 + Cast.toU32 (rr * d.x / d.y), res, 2 + Cast.toU32 (rr * d.z / d.y), d.y / (rr - 1))
  else
    (2 + Cast.toU32 (rr * d.x / d.z), 2 + Cast.toU32 (rr * d.y / d.z), res, d.z / (rr - 1))

/-! ## fill -/

/-- `mark_outside_surface(i0, j0, k0, i1, j1, k1)` -/
def markOutside3 (ni nj : Nat) (g : Array VV) (i0 j0 k0 i1 j1 k1 : Nat) : Array VV :=
  (cellsIn3 i0 j0 k0 i1 j1 k1).foldl (fun g c =>
    if g.getD (idx3 ni nj c.1 c.2.1 c.2.2) .undef = .undef then g.setIfInBounds (idx3 ni nj c.1 c.2.1 c.2.2) .outWalk else g) g

/-- cells visited by the six walks from `(i, j, k)`, in the code's order: `+k`, `−k`, `+j`, `−j`, `+i`, `−i` -/
def walkLists3 (ni nj nk i j k : Nat) : List (List Nat) :=
  [ (List.range' (k + 1) (min walkDistance (nk - (k + 1)))).map (fun k' => idx3 ni nj i j k'),
    (List.range (min walkDistance k)).map (fun d => idx3 ni nj i j (k - 1 - d)),
    (List.range' (j + 1) (min walkDistance (nj - (j + 1)))).map (fun j' => idx3 ni nj i j' k),
    (List.range (min walkDistance j)).map (fun d => idx3 ni nj i (j - 1 - d) k),
    (List.range' (i + 1) (min walkDistance (ni - (i + 1)))).map (fun i' => idx3 ni nj i' j k),
    (List.range (min walkDistance i)).map (fun d => idx3 ni nj (i - 1 - d) j k) ]

def walks3 (ni nj nk : Nat) (uSet sSet : VV) (g : Array VV) (c : Nat × Nat × Nat) : Array VV :=
  (walkLists3 ni nj nk c.1 c.2.1 c.2.2).foldl (walkCells uSet sSet) g

/-- body of the `for i.. for j.. for k..` loop of `propagate_values` -/
def propCell3 (ni nj nk : Nat) (toWalk toSet : VV) (surfWalk : Option VV) (sSet : VV) (st : PSt) (c : Nat × Nat × Nat) : PSt :=
  let id := idx3 ni nj c.1 c.2.1 c.2.2
  let v := st.g.getD id .undef
  if v = toWalk then
    ⟨walks3 ni nj nk toWalk sSet (st.g.setIfInBounds id toSet) c, st.walked + 1, true⟩
  else if some v ≠ surfWalk then st
  else ⟨walks3 ni nj nk toWalk sSet st.g c, st.walked, st.once⟩

def sweep3 (ni nj nk : Nat) (toWalk toSet : VV) (surfWalk : Option VV) (sSet : VV) (g : Array VV) (once : Bool) : PSt :=
  (cellsIn3 0 0 0 ni nj nk).foldl (propCell3 ni nj nk toWalk toSet surfWalk sSet) ⟨g, 0, once⟩

/-- `propagate_values`: `(grid, walked_at_least_once, fuel was sufficient)` -/
def propagate3 (ni nj nk : Nat) (toWalk toSet : VV) (surfWalk : Option VV) (sSet : VV) :
    Nat → Array VV → Bool → Array VV × Bool × Bool
  | 0, g, once => (g, once, false)
  | fuel + 1, g, once =>
    let st := sweep3 ni nj nk toWalk toSet surfWalk sSet g once
    if st.walked = 0 then (st.g, st.once, true) else propagate3 ni nj nk toWalk toSet surfWalk sSet fuel st.g st.once

/-- the `loop { inside pass; outside pass }` of `detect_cavities` : `(grid, fuel ok)` -/
def cavityLoop3 (ni nj nk : Nat) : Nat → Array VV → Array VV × Bool
  | 0, g => (g, false)
  | fuel + 1, g =>
    let r1 := propagate3 ni nj nk .inWalk .inside (some .surfWalk1) .surfWalk2 (ni * nj * nk + 1) g false
    if !r1.2.2 then (r1.1, false) else
    if !r1.2.1 then (r1.1, true) else
    let r2 := propagate3 ni nj nk .outWalk .outside (some .surfWalk2) .surfWalk1 (ni * nj * nk + 1) r1.1 false
    if !r2.2.2 then (r2.1, false) else
    if !r2.2.1 then (r2.1, true) else
    cavityLoop3 ni nj nk fuel r2.1

/-- the six `mark_outside_surface` calls, in the code's order -/
def markBorder3 (ni nj nk : Nat) (g : Array VV) : Array VV :=
  let g := markOutside3 ni nj g 0 0 0 ni nj 1
  let g := markOutside3 ni nj g 0 0 (nk - 1) ni nj nk
  let g := markOutside3 ni nj g 0 0 0 ni 1 nk
  let g := markOutside3 ni nj g 0 (nj - 1) 0 ni nj nk
  let g := markOutside3 ni nj g 0 0 0 1 nj nk
  markOutside3 ni nj g (ni - 1) 0 0 ni nj nk

/-- the `match fill_mode { .. }` block (`dim3`): `flood = false` is `SurfaceOnly`; result `(grid, fuel ok)` -/
def fill3 (flood detectCavities : Bool) (ni nj nk : Nat) (g : Array VV) : Array VV × Bool :=
  if !flood then (g.map fun v => if v ≠ .surf then .outside else v, true) else
  let g := markBorder3 ni nj nk g
  if detectCavities then
    let r0 := propagate3 ni nj nk .outWalk .outside none .surfWalk1 (ni * nj * nk + 1) g false
    let r := cavityLoop3 ni nj nk (ni * nj * nk + 1) r0.1
    (r.1.map fun v => if v = .surfWalk1 ∨ v = .surfWalk2 ∨ v = .surfNoWalk then .surf else v, r0.2.2 && r.2)
  else
    let r0 := propagate3 ni nj nk .outWalk .outside none .surf (ni * nj * nk + 1) g false
    (replaceValue r0.1 .undef .inside, r0.2.2)

end Model.Vox3
