import ParryModel.Proto
import ParryModel.C18.ModelFill3
import ParryModel.C18.ModelSet3
/-! C18 protocol handlers for the 3-D grid-parameter + fill model (`ModelFill3.lean`):
`fill3` (the whole `VoxelizedVolume` after the fill, cell for cell) and `fillset3` (`VoxelSet::voxelize`).
The real surface grid arrives as an observed input (`ni nj nk m<0/1 per cell>`), after the plain arguments.

Oracle (independent of the model: queue-based component labelling, no sweeps / walks):
* non-surface cells are partitioned into 6-connected components, surface cells into 26-connected blobs;
* `OUT` = the components that contain a cell of the border of the grid; nesting level of a component = number of surface
  blobs that have to be crossed from `OUT` (breadth-first over "component — blob — component", a blob that touches the
  border of the grid is adjacent to `OUT`);
* `FloodFill{detect_cavities:false}`: outside = level 0 exactly, inside = every other non-surface cell (exactly the cells
  enclosed by the surface); `SurfaceOnly`: no inside cell; surface cells are exactly the observed surface grid;
* `FloodFill{detect_cavities:true}`: inside = odd level, outside = even level — demanded exactly when every blob separates
  at most two regions and, where it separates two, has a cell that is 6-adjacent to both (a wall that is one voxel thick
  somewhere: `[thin-shells]`); otherwise only "surface unchanged, level-0 cells are outside" is demanded (the
  thick-surface behaviour of the pinned cavity mode is a recorded known finding, judged by `voxelize3`). -/
namespace C18
open Model Model.Vox Model.Vox3 Proto

structure Fill3Args where
  res : Nat
  fm : Nat
  pts : List (V3 Float)
  tris : List (Nat × Nat × Nat)

def pfill3base : P Fill3Args := do
  let res ← pnat; let fm ← pnat
  let pts ← plist pv3
  let tris ← plist (do let a ← pnat; let b ← pnat; let c ← pnat; pure (a, b, c))
  pure ⟨res, fm, pts, tris⟩

/-- observed surface grid: `ni nj nk m<mask>` -/
def pmask : P (Nat × Nat × Nat × Array Bool) := do
  let ni ← pnat; let nj ← pnat; let nk ← pnat; let t ← tok
  pure (ni, nj, nk, ((t.toList.drop 1).map fun c => c == '1').toArray)

def codesString3 (g : Array VV) : String := String.ofList (g.toList.map fun v => Char.ofNat (48 + v.code))

/-- the model: grid parameters from the mesh (bit-exact at `Float`), fill pass on the observed surface grid -/
def runFill3 (x : Fill3Args) (o : Nat × Nat × Nat × Array Bool) : Except String (Nat × Nat × Nat × V3 Float × Float × Array VV) :=
  match x.pts with
  | [] => .error "empty"
  | p0 :: ps =>
    let bb := cloudAabb3 p0 ps
    let (ni, nj, nk, scale) := gridParams3 x.res bb.1 bb.2
    if (ni, nj, nk) != (o.1, o.2.1, o.2.2.1) then .error s!"dims-mismatch {ni} {nj} {nk}" else
    if o.2.2.2.size != ni * nj * nk then .error "mask-size" else
    let g0 : Array VV := o.2.2.2.map fun b => if b then .surf else .undef
    let r := fill3 (x.fm != 0) (x.fm ≥ 2) ni nj nk g0
    if !r.2 then .error "fuel" else .ok (ni, nj, nk, bb.1, scale, r.1)

def modelFill3 (x : Fill3Args) (o : Nat × Nat × Nat × Array Bool) : String :=
  match runFill3 x o with
  | .error e => e
  | .ok (ni, nj, nk, org, sc, g) => s!"{ni} {nj} {nk} {fv3 org} {ff sc} g{codesString3 g}"

/-- `impl From<VoxelizedVolume> for VoxelSet`: inside and surface cells in `for i { for j { for k` order -/
def modelFillSet3 (x : Fill3Args) (o : Nat × Nat × Nat × Array Bool) : String :=
  match runFill3 x o with
  | .error e => e
  | .ok (ni, nj, nk, org, sc, g) =>
    let vs := (toVoxelSet3 ni nj nk g).toList.map fun w => s!"{w.i} {w.j} {w.k} {fb w.surf}"
    String.intercalate " " (s!"{fv3 org} {ff sc} {vs.length}" :: vs)

/-! ## oracle -/

def nbrs6 (ni nj nk id : Nat) : List Nat :=
  let i := id % ni; let j := (id / ni) % nj; let k := id / (ni * nj)
  (if i + 1 < ni then [id + 1] else []) ++ (if i > 0 then [id - 1] else []) ++
  (if j + 1 < nj then [id + ni] else []) ++ (if j > 0 then [id - ni] else []) ++
  (if k + 1 < nk then [id + ni * nj] else []) ++ (if k > 0 then [id - ni * nj] else [])

def nbrs26 (ni nj nk id : Nat) : List Nat :=
  let i := id % ni; let j := (id / ni) % nj; let k := id / (ni * nj)
  let rng (x n : Nat) : List Nat := (if x > 0 then [x - 1] else []) ++ [x] ++ (if x + 1 < n then [x + 1] else [])
  (rng k nk).flatMap fun c => (rng j nj).flatMap fun b => (rng i ni).filterMap fun a =>
    let q := a + b * ni + c * ni * nj
    if q = id then none else some q

def onBorder3 (ni nj nk id : Nat) : Bool :=
  let i := id % ni; let j := (id / ni) % nj; let k := id / (ni * nj)
  i = 0 || j = 0 || k = 0 || i + 1 = ni || j + 1 = nj || k + 1 = nk

/-- component labelling (labels `1..`, `0` = not a member) by a work-list flood; returns `(labels, count)` -/
def labelComps (n : Nat) (mem : Nat → Bool) (nbrs : Nat → List Nat) : Array Nat × Nat := Id.run do
  let mut lab : Array Nat := Array.replicate n 0
  let mut cnt := 0
  for s in [0:n] do
    if mem s && lab.getD s 0 == 0 then
      cnt := cnt + 1
      lab := lab.setIfInBounds s cnt
      let mut work : List Nat := [s]
      let mut fuel := 30 * n + 10
      while fuel > 0 && !work.isEmpty do
        fuel := fuel - 1
        match work with
        | [] => pure ()
        | c :: rest =>
          work := rest
          for q in nbrs c do
            if mem q && lab.getD q 0 == 0 then
              lab := lab.setIfInBounds q cnt
              work := q :: work
  return (lab, cnt)

structure Spec3 where
  /-- per cell: `none` = surface, `some level` -/
  level : Array (Option Nat)
  /-- the detect-cavities alternation is well defined and demanded -/
  thin : Bool
  /-- some blob that separates two regions has a cell on the border of the grid (a closed shell flush with a face of
  the grid: always the case for a lone solid, whose bounding box *is* the grid on the low sides) -/
  flush : Bool

/-- nesting levels of the non-surface cells and the `[thin-shells]` condition -/
def spec3 (ni nj nk : Nat) (mask : Array Bool) : Spec3 := Id.run do
  let n := ni * nj * nk
  let isS (id : Nat) : Bool := mask.getD id false
  let (comp, nc) := labelComps n (fun id => !isS id) (nbrs6 ni nj nk)
  let (blob, nb) := labelComps n isS (nbrs26 ni nj nk)
  -- node 0 = OUT; components that touch the border are identified with OUT
  let mut isOut : Array Bool := Array.replicate (nc + 1) false
  isOut := isOut.setIfInBounds 0 true
  for id in [0:n] do
    if !isS id && onBorder3 ni nj nk id then isOut := isOut.setIfInBounds (comp.getD id 0) true
  let node (c : Nat) : Nat := if isOut.getD c false then 0 else c
  -- blob → adjacent nodes; blob/node pairs witnessed by one cell adjacent to real cells of both
  let mut adj : Array (List Nat) := Array.replicate (nb + 1) []
  let mut wit : Array (List (Nat × Nat)) := Array.replicate (nb + 1) []
  for id in [0:n] do
    if isS id then
      let b := blob.getD id 0
      let ns := ((nbrs6 ni nj nk id).filter fun q => !isS q).map fun q => node (comp.getD q 0)
      let ns := ns.eraseDups
      let cur := adj.getD b []
      let cur := ns.foldl (fun acc x => if acc.contains x then acc else x :: acc) cur
      let cur := if onBorder3 ni nj nk id && !cur.contains 0 then 0 :: cur else cur
      adj := adj.setIfInBounds b cur
      let pairs := ns.flatMap fun x => ns.filterMap fun y => if x < y then some (x, y) else none
      if !pairs.isEmpty then
        wit := wit.setIfInBounds b (pairs.foldl (fun acc p => if acc.contains p then acc else p :: acc) (wit.getD b []))
  -- levels of the nodes: breadth-first over blobs
  let mut lev : Array (Option Nat) := Array.replicate (nc + 1) none
  lev := lev.setIfInBounds 0 (some 0)
  let mut frontier : List Nat := [0]
  let mut L := 0
  let mut fuel := nc + 2
  while fuel > 0 && !frontier.isEmpty do
    fuel := fuel - 1
    let mut next : List Nat := []
    for b in [1:nb + 1] do
      let a := adj.getD b []
      if a.any (fun x => frontier.contains x) then
        for y in a do
          if (lev.getD y none).isNone then
            lev := lev.setIfInBounds y (some (L + 1))
            next := y :: next
    frontier := next
    L := L + 1
  -- thin-shell condition
  let mut thin := true
  let mut flush := false
  for id in [0:n] do
    if isS id && onBorder3 ni nj nk id && (adj.getD (blob.getD id 0) []).length ≥ 2 then flush := true
  for b in [1:nb + 1] do
    let a := adj.getD b []
    if a.length > 2 then thin := false
    else match a with
      | [x, y] => if !((wit.getD b []).contains (min x y, max x y)) then thin := false
      | _ => pure ()
  let level : Array (Option Nat) := (Array.range n).map fun id =>
    if isS id then none else some ((lev.getD (node (comp.getD id 0)) none).getD 1)
  return ⟨level, thin, flush⟩

/-- expected final code of a cell (`none` = not constrained) and the name of the clause -/
def expect3 (fm : Nat) (sp : Spec3) (id : Nat) : Option Nat × String :=
  match sp.level.getD id none with
  | none => (some 8, "surface-cell-changed")
  | some l =>
    if fm = 0 then (some 6, "surface-only-cell-not-outside")
    else if fm = 1 then
      if l = 0 then (some 6, "cell-connected-to-grid-border-not-outside") else (some 7, "enclosed-cell-not-interior")
    else if l = 0 then (some 6, "cell-connected-to-grid-border-not-outside[detect-cavities]")
    else if !sp.thin then (none, "")
    else
      let tag := if sp.flush then "[detect-cavities][thin-shells][shell-on-grid-border]" else "[detect-cavities][thin-shells]"
      if l % 2 = 1 then (some 7, s!"enclosed-cell-level-{l}-not-interior{tag}")
      else (some 6, s!"cavity-cell-level-{l}-not-outside{tag}")

def coordsOf (ni nj : Nat) (id : Nat) : String := s!"({id % ni},{(id / ni) % nj},{id / (ni * nj)})"

def domainFill3 (x : Fill3Args) : Option String :=
  if x.res < 2 then some "resolution-below-2" else
  if x.pts.isEmpty || x.tris.isEmpty then some "empty-mesh" else
  if !(x.pts.all finite3) then some "input-coordinates-not-finite-numbers" else
  let n := x.pts.length
  if x.tris.any (fun (a, b, c) => a ≥ n || b ≥ n || c ≥ n) then some "index-out-of-range" else
  let P := x.pts.map q3
  let ext (f : V3 Rat → Rat) : Rat :=
    match P.map f with
    | [] => 0
    | y :: ys => ys.foldl max y - ys.foldl min y
  if ext (·.x) ≤ 0 && ext (·.y) ≤ 0 && ext (·.z) ≤ 0 then some "all-points-coincide" else none

def gridOracle3 (x : Fill3Args) (o : Nat × Nat × Nat × Array Bool) (ni nj nk : Nat) (codes : Array Nat) : String :=
  if (ni, nj, nk) != (o.1, o.2.1, o.2.2.1) then "fail resolution-depends-on-fill-mode" else
  if codes.size != ni * nj * nk || o.2.2.2.size != ni * nj * nk then "fail grid-size" else
  if !(ni == x.res || nj == x.res || nk == x.res) then "fail resolution-not-on-the-major-axis" else
  let sp := spec3 ni nj nk o.2.2.2
  let bad := (List.range (ni * nj * nk)).find? fun id =>
    match (expect3 x.fm sp id).1 with
    | some e => codes.getD id 99 != e
    | none => false
  match bad with
  | some id => s!"fail {(expect3 x.fm sp id).2} cell={coordsOf ni nj id} got={codes.getD id 99}"
  | none => "pass"

def setOracle3 (x : Fill3Args) (o : Nat × Nat × Nat × Array Bool) (vs : List (Nat × Nat × Nat × Bool)) : String :=
  let (ni, nj, nk, mask) := o
  if mask.size != ni * nj * nk then "fail grid-size" else
  if vs.any (fun (i, j, k, _) => i ≥ ni || j ≥ nj || k ≥ nk) then "fail voxel-outside-grid" else
  -- strictly increasing scan order (`for i { for j { for k`): no duplicates
  let key (v : Nat × Nat × Nat × Bool) : Nat := (v.1 * nj + v.2.1) * nk + v.2.2.1
  let rec sorted : List (Nat × Nat × Nat × Bool) → Bool
    | a :: b :: r => key a < key b && sorted (b :: r)
    | _ => true
  if !sorted vs then "fail voxels-not-in-strict-scan-order" else
  let sp := spec3 ni nj nk mask
  let got : Array Nat := vs.foldl (fun acc (i, j, k, s) => acc.setIfInBounds (i + j * ni + k * ni * nj) (if s then 8 else 7)) (Array.replicate (ni * nj * nk) 6)
  let bad := (List.range (ni * nj * nk)).find? fun id =>
    match (expect3 x.fm sp id).1 with
    | some e => got.getD id 99 != e
    | none => false
  match bad with
  | some id => s!"fail {(expect3 x.fm sp id).2} cell={coordsOf ni nj id} got={got.getD id 99}"
  | none => "pass"

def handlerFill3 (fn : String) : Option Handler :=
  match fn with
  | "fill3" => some {
      model := fun a => run (do let x ← pfill3base; let o ← pmask; pure (modelFill3 x o)) a
      oracle := fun a o => match o with
        | "panic" :: _ => (match run pfill3base a with
          | some x => (match domainFill3 x with | some why => s!"skip {why}" | none => "fail panic")
          | none => "skip bad-args")
        | _ => match run (do let x ← pfill3base; let m ← pmask; pure (x, m)) a with
          | some (x, m) => (match domainFill3 x with
            | some why => s!"skip {why}"
            | none => match run (do let ni ← pnat; let nj ← pnat; let nk ← pnat; let _o ← pv3; let sc ← pfo; let t ← tok; pure (ni, nj, nk, sc, t)) o with
              | some (ni, nj, nk, sc, t) =>
                if q sc ≤ 0 then "fail nonpositive-scale" else
                gridOracle3 x m ni nj nk ((t.toList.drop 1).map fun c => c.toNat - 48).toArray
              | none => "fail unparsable-output")
          | none => "skip bad-args" }
  | "fillset3" => some {
      model := fun a => run (do let x ← pfill3base; let o ← pmask; pure (modelFillSet3 x o)) a
      oracle := fun a o => match o with
        | "panic" :: _ => (match run pfill3base a with
          | some x => (match domainFill3 x with | some why => s!"skip {why}" | none => "fail panic")
          | none => "skip bad-args")
        | _ => match run (do let x ← pfill3base; let m ← pmask; pure (x, m)) a with
          | some (x, m) => (match domainFill3 x with
            | some why => s!"skip {why}"
            | none => match run (do let _o ← pv3; let sc ← pfo
                                    let vs ← plist (do let i ← pnat; let j ← pnat; let k ← pnat; let s ← pbool; pure (i, j, k, s))
                                    pure (sc, vs)) o with
              | some (sc, vs) => if q sc ≤ 0 then "fail nonpositive-scale" else setOracle3 x m vs
              | none => "fail unparsable-output")
          | none => "skip bad-args" }
  | _ => none

end C18
