import ParryModel.Proto
import ParryModel.C18.ModelMap3
import ParryModel.C18.DriverVox3
import Std.Data.HashMap
/-! C18 protocol handler for the 3-D voxel-to-primitive map (`ModelMap3.lean`): `vox3map` =
`VoxelSet::voxelize(points, indices, resolution, fill_mode, keep_voxel_to_primitives_map = true)`: the voxel list and, for
every surface voxel, the primitive list `intersections[range]` (read back from the real code through the public
`compute_primitive_intersections`).

Oracle (independent of the model: exact rational 13-axis triangle/box test of `DriverVox3.lean`, tolerance 1e-6 voxel in
both directions): the voxels come in strict scan order; every cell met by a triangle is a surface voxel and every surface
voxel is met by a triangle; the list of every surface voxel is strictly increasing, names only triangles that meet the
(grown) cube of the voxel and omits no triangle that meets the (shrunk) cube — "the voxel-to-primitive map lists precisely
the primitives meeting each voxel". -/
namespace C18
open Model Model.Vox Model.Vox3 Proto

def modelMap3 (x : Fill3Args) : String :=
  match x.pts with
  | [] => "empty"
  | p0 :: ps =>
    let r := voxelize3K (x.fm != 0) (x.fm ≥ 2) x.res p0 ps x.tris
    let v := r.1
    if v.panic then "panic" else if !r.2 then "fuel" else
    let vs := toVoxelSet3K v
    let voxels := vs.1.toList
    let head := String.intercalate " " (toString voxels.length :: voxels.map fun w => s!"{w.i} {w.j} {w.k} {fb w.surf}")
    if vs.2.isEmpty then s!"{fv3 v.origin} {ff v.scale} {head} nomap" else
    let m := (voxels.filter (·.surf)).map fun w =>
      let l := voxelPrims3 vs.2 w
      String.intercalate " " (toString l.length :: l.map toString)
    s!"{fv3 v.origin} {ff v.scale} {head} map {String.intercalate " " m}"

structure Map3Out where
  origin : V3 Float
  scale : Float
  voxels : List (Nat × Nat × Nat × Bool)
  map : Option (List (List Nat))

def pmap3out : P Map3Out := do
  let org ← pv3; let sc ← pfo
  let vs ← plist (do let i ← pnat; let j ← pnat; let k ← pnat; let s ← pbool; pure (i, j, k, s))
  let t ← tok
  if t = "nomap" then pure ⟨org, sc, vs, none⟩ else
  if t != "map" then failure else
  let ns := (vs.filter (·.2.2.2)).length
  let rec go : Nat → P (List (List Nat))
    | 0 => pure []
    | n + 1 => do let l ← plist pnat; let r ← go n; pure (l :: r)
  let m ← go ns
  pure ⟨org, sc, vs, some m⟩

/-- per cell: (triangles that must be listed, triangles that may be listed), by exact tests on the cells around the
bounding box of every triangle; lists in decreasing triangle order -/
def mapBounds (ni nj nk : Nat) (O : V3 Rat) (S : Rat) (pts : Array (V3 Rat)) (tris : List (Nat × Nat × Nat)) (tol : Rat) :
    Std.HashMap (Nat × Nat × Nat) (List Nat × List Nat) := Id.run do
  let mut m : Std.HashMap (Nat × Nat × Nat) (List Nat × List Nat) := {}
  let mut tid := 0
  for t in tris do
    match pts[t.1]?, pts[t.2.1]?, pts[t.2.2]? with
    | some p0, some p1, some p2 =>
      let a := (p0.sub O).smul (1 / S); let b := (p1.sub O).smul (1 / S); let c := (p2.sub O).smul (1 / S)
      let lo (f : V3 Rat → Rat) : Nat := ((rmin3 (f a) (f b) (f c)) - 1).floor.toNat
      let hi (f : V3 Rat → Rat) (mx : Nat) : Nat := min mx (((rmax3 (f a) (f b) (f c)) + 2).floor.toNat)
      for i in [lo (·.x) : hi (·.x) ni] do
        for j in [lo (·.y) : hi (·.y) nj] do
          for k in [lo (·.z) : hi (·.z) nk] do
            let ctr : V3 Rat := ⟨i, j, k⟩
            let hp : Rat := 1 / 2 + tol; let hm : Rat := 1 / 2 - tol
            if triBoxRat ctr ⟨hp, hp, hp⟩ a b c then
              let cur := m.getD (i, j, k) ([], [])
              let must := triBoxRat ctr ⟨hm, hm, hm⟩ a b c
              m := m.insert (i, j, k) (if must then tid :: cur.1 else cur.1, tid :: cur.2)
    | _, _, _ => pure ()
    tid := tid + 1
  return m

def map3Oracle (x : Fill3Args) (o : Map3Out) : String :=
  if q o.scale ≤ 0 then "fail nonpositive-scale" else
  let cells := o.voxels.map fun v => (v.1, v.2.1, v.2.2.1)
  let lt (a b : Nat × Nat × Nat) : Bool := a.1 < b.1 || (a.1 == b.1 && (a.2.1 < b.2.1 || (a.2.1 == b.2.1 && a.2.2 < b.2.2)))
  if !(cells.zip (cells.drop 1)).all (fun (a, b) => lt a b) then "fail voxels-not-in-strict-scan-order" else
  let ni := cells.foldl (fun m c => max m (c.1 + 1)) 0
  let nj := cells.foldl (fun m c => max m (c.2.1 + 1)) 0
  let nk := cells.foldl (fun m c => max m (c.2.2 + 1)) 0
  let tol : Rat := 1 / 1000000
  let mb := mapBounds (ni + 2) (nj + 2) (nk + 2) (q3 o.origin) (q o.scale) (x.pts.map q3).toArray x.tris tol
  let sv := (o.voxels.filter (·.2.2.2)).map fun v => (v.1, v.2.1, v.2.2.1)
  let surf : Std.HashSet (Nat × Nat × Nat) := Std.HashSet.ofList sv
  -- input coverage: every cell certainly met by a triangle is a surface voxel
  match mb.toList.find? (fun (c, (must, _)) => !must.isEmpty && !surf.contains c) with
  | some (c, _) => s!"fail cell-met-by-a-triangle-is-not-a-surface-voxel ({c.1},{c.2.1},{c.2.2})"
  | none =>
  match sv.find? (fun c => !mb.contains c) with
  | some c => s!"fail surface-voxel-met-by-no-triangle ({c.1},{c.2.1},{c.2.2})"
  | none =>
  match o.map with
  | none => if !sv.isEmpty then "fail map-missing" else "pass"
  | some m =>
    if sv.length != m.length then "fail map-length" else
    let bad := (sv.zip m).filterMap fun (c, l) =>
      let (must, may) := mb.getD c ([], [])
      if !(l.zip (l.drop 1)).all (fun (a, b) => a < b) then some s!"fail map-list-not-strictly-increasing ({c.1},{c.2.1},{c.2.2})"
      else match l.filter (fun k => !may.contains k) with
        | k :: _ => some s!"fail map-lists-primitive-{k}-that-misses-the-voxel ({c.1},{c.2.1},{c.2.2})"
        | [] => match must.filter (fun k => !l.contains k) with
          | k :: _ => some s!"fail map-omits-primitive-{k}-that-meets-the-voxel ({c.1},{c.2.1},{c.2.2})"
          | [] => none
    match bad with
    | b :: _ => b
    | [] => "pass"

def handlerMap3 (fn : String) : Option Handler :=
  match fn with
  | "vox3map" => some {
      model := fun a => run (do let x ← pfill3base; pure (modelMap3 x)) a
      oracle := fun a o => match run pfill3base a with
        | some x => (match domainFill3 x with
          | some why => s!"skip {why}"
          | none => match o with
            | "panic" :: _ => "fail panic"
            | _ => if o.contains "decode-error" then "skip harness-could-not-decode-the-map" else
              match run pmap3out o with
              | some so => map3Oracle x so
              | none => "fail unparsable-output")
        | none => "skip bad-args" }
  | _ => none

end C18
