import ParryModel.Field
import ParryModel.C18.Model
import ParryModel.C18.Theorems2
import ParryModel.C18.Theorems3
import ParryModel.C18.Theorems4
import ParryModel.C18.Theorems5
import ParryModel.C18.Theorems6
import ParryModel.C18.Theorems7
import ParryModel.C18.Theorems8
import ParryModel.C18.Theorems9
import ParryModel.C18.Theorems10
import ParryModel.C18.Theorems11
import ParryModel.C18.Theorems12
/-!
# C18 theorems: `clip` and the VHACD loop partition their input, for every plane, oracle, depth and voxel set;
the number of parts is at most `2^depth ≤ 4 · max_convex_hulls`.
Core-only proofs except the `Num` instance plumbing (they hold for *every* `Num`, lawful or not — the
partition property does not depend on arithmetic at all).
-/
namespace C18
open Model

variable {K : Type} [Num K]

theorem clip_perm (origin : V3 K) (scale : K) (pl : CutPlane K) (vs : List Voxel) :
    (((clip origin scale pl vs).1 ++ (clip origin scale pl vs).2).map Voxel.coords).Perm (vs.map Voxel.coords) := by
  unfold clip
  simp only [List.map_append, List.map_map]
  have h1 : ∀ v, (clipVoxel origin scale pl v).2.coords = v.coords := by
    intro v; unfold clipVoxel; simp only []; split_ifs <;> rfl
  have key : (vs.map (clipVoxel origin scale pl)).map (fun t => t.2.coords) = vs.map Voxel.coords := by
    rw [List.map_map]; apply List.map_congr_left; intro v _; exact h1 v
  rw [← key]
  have := List.filter_append_perm (fun t : Bool × Voxel => t.1) (vs.map (clipVoxel origin scale pl))
  have := this.map (fun t => t.2.coords)
  simpa [List.map_append, Function.comp_def] using this

/-- `clip` never drops, duplicates or moves a voxel, and only ever *raises* the surface flag. -/
theorem clip_surface_mono (origin : V3 K) (scale : K) (pl : CutPlane K) (vs : List Voxel) (v' : Voxel)
    (h : v' ∈ (clip origin scale pl vs).1 ++ (clip origin scale pl vs).2) :
    ∃ v ∈ vs, v.coords = v'.coords ∧ (v.surf = true → v'.surf = true) := by
  unfold clip at h
  simp only [List.mem_append, List.mem_map, List.mem_filter] at h
  have h1 : ∀ v, (clipVoxel origin scale pl v).2.coords = v.coords ∧ (v.surf = true → (clipVoxel origin scale pl v).2.surf = true) := by
    intro v; unfold clipVoxel; simp only []; split_ifs <;> simp_all [Voxel.coords]
  rcases h with ⟨t, ⟨⟨v, hv, rfl⟩, _⟩, rfl⟩ | ⟨t, ⟨⟨v, hv, rfl⟩, _⟩, rfl⟩
  · exact ⟨v, hv, (h1 v).1.symm, (h1 v).2⟩
  · exact ⟨v, hv, (h1 v).1.symm, (h1 v).2⟩

/-- coordinates of all voxels of a list of parts -/
def allCoords (ps : List (List Voxel)) : List (Nat × Nat × Nat) := ps.flatten.map Voxel.coords

private theorem allCoords_append (a b : List (List Voxel)) : allCoords (a ++ b) = allCoords a ++ allCoords b := by
  simp [allCoords]

theorem process_perm {σ} (origin : V3 K) (scale : K) (o : Oracle σ K) (acc) (v : List Voxel) :
    (allCoords (process origin scale o acc v).2.1 ++ allCoords (process origin scale o acc v).2.2).Perm
      (allCoords acc.2.1 ++ allCoords acc.2.2 ++ v.map Voxel.coords) := by
  unfold process
  split
  · rename_i s pl _
    simp only [allCoords_append]
    have := clip_perm origin scale pl v
    have e : allCoords [(clip origin scale pl v).2, (clip origin scale pl v).1]
        = ((clip origin scale pl v).2 ++ (clip origin scale pl v).1).map Voxel.coords := by
      simp [allCoords]
    rw [e, List.append_assoc]
    refine List.Perm.append_left _ (List.Perm.append_left _ ?_)
    rw [List.map_append]
    rw [List.map_append] at this
    exact List.perm_append_comm.trans this
  · simp only [allCoords_append]
    have e : allCoords [v] = v.map Voxel.coords := by simp [allCoords]
    rw [e, List.append_assoc, List.append_assoc]
    exact List.Perm.append_left _ List.perm_append_comm

theorem foldl_perm {σ} (origin : V3 K) (scale : K) (o : Oracle σ K) (input : List (List Voxel)) (acc) :
    (allCoords (input.foldl (process origin scale o) acc).2.1 ++ allCoords (input.foldl (process origin scale o) acc).2.2).Perm
      (allCoords acc.2.1 ++ allCoords acc.2.2 ++ allCoords input) := by
  induction input generalizing acc with
  | nil => simp [allCoords]
  | cons v vs ih =>
    simp only [List.foldl_cons]
    refine (ih _).trans ?_
    have := process_perm origin scale o acc v
    have e : allCoords (v :: vs) = v.map Voxel.coords ++ allCoords vs := by simp [allCoords]
    rw [e, ← List.append_assoc]
    exact List.Perm.append_right _ this

theorem loop_perm {σ} (origin : V3 K) (scale : K) (o : Oracle σ K) (d : Nat) (s : σ) (input parts : List (List Voxel)) :
    (allCoords (acdLoop origin scale o d s input parts)).Perm (allCoords parts ++ allCoords input) := by
  induction d generalizing s input parts with
  | zero => simp [acdLoop, allCoords_append]
  | succ d ih =>
    unfold acdLoop
    split
    · simp [allCoords_append]
    · simp only
      refine (ih _ _ _).trans ?_
      have := foldl_perm origin scale o input (s, parts, [])
      simpa [allCoords] using this

/-- **C18 (partition)**: for every oracle (any concavity measure, any plane choice), every `max_convex_hulls`
and every voxel set, the voxel parts of the decomposition are a rearrangement of the input voxels:
nothing lost, nothing duplicated. -/
theorem acd_partition {σ} (origin : V3 K) (scale : K) (o : Oracle σ K) (s0 : σ) (maxHulls : Nat) (voxels : List Voxel) :
    (allCoords (acd origin scale o s0 maxHulls voxels)).Perm (voxels.map Voxel.coords) := by
  have := loop_perm origin scale o (depthOf maxHulls) s0 [voxels] []
  simpa [acd, allCoords] using this

/-- pairwise disjointness of the parts when the input has no repeated voxel (as produced by voxelization) -/
theorem acd_disjoint {σ} (origin : V3 K) (scale : K) (o : Oracle σ K) (s0 : σ) (maxHulls : Nat) (voxels : List Voxel)
    (hnd : (voxels.map Voxel.coords).Nodup) :
    (allCoords (acd origin scale o s0 maxHulls voxels)).Nodup :=
  (acd_partition origin scale o s0 maxHulls voxels).nodup_iff.mpr hnd

example : ([⟨0,0,0,true⟩, ⟨1,0,0,false⟩] : List Voxel).map Voxel.coords |>.Nodup := by decide

/-! ### number of parts -/

private theorem process_len {σ} (origin : V3 K) (scale : K) (o : Oracle σ K) (acc) (v : List Voxel) :
    2 * (process origin scale o acc v).2.1.length + (process origin scale o acc v).2.2.length
      ≤ 2 * acc.2.1.length + acc.2.2.length + 2 := by
  unfold process
  split <;> simp <;> omega

private theorem process_mono {σ} (origin : V3 K) (scale : K) (o : Oracle σ K) (acc) (v : List Voxel) :
    acc.2.1.length ≤ (process origin scale o acc v).2.1.length := by
  unfold process
  split <;> simp

private theorem foldl_mono {σ} (origin : V3 K) (scale : K) (o : Oracle σ K) (input : List (List Voxel)) (acc) :
    acc.2.1.length ≤ (input.foldl (process origin scale o) acc).2.1.length := by
  induction input generalizing acc with
  | nil => simp
  | cons v vs ih =>
    simp only [List.foldl_cons]
    exact (process_mono origin scale o acc v).trans (ih _)

private theorem foldl_len {σ} (origin : V3 K) (scale : K) (o : Oracle σ K) (input : List (List Voxel)) (acc) :
    2 * (input.foldl (process origin scale o) acc).2.1.length + (input.foldl (process origin scale o) acc).2.2.length
      ≤ 2 * acc.2.1.length + acc.2.2.length + 2 * input.length := by
  induction input generalizing acc with
  | nil => simp
  | cons v vs ih =>
    simp only [List.foldl_cons, List.length_cons]
    have := ih (process origin scale o acc v)
    have := process_len origin scale o acc v
    omega

/-- weighted count: a finished part weighs `2^d`, a pending part `2^d` too (it can split `d` more times) -/
theorem loop_count {σ} (origin : V3 K) (scale : K) (o : Oracle σ K) (d : Nat) (s : σ) (input parts : List (List Voxel)) :
    (acdLoop origin scale o d s input parts).length ≤ parts.length + 2 ^ d * input.length := by
  induction d generalizing s input parts with
  | zero => simp [acdLoop]
  | succ d ih =>
    unfold acdLoop
    split
    · rename_i h
      have : input = [] := List.isEmpty_iff.mp h
      subst this; simp
    · simp only
      refine (ih _ _ _).trans ?_
      have := foldl_len origin scale o input (s, parts, [])
      have hmono := foldl_mono origin scale o input (s, parts, [])
      simp only [List.length_nil] at this hmono
      have h2 : 2 ^ (d + 1) = 2 * 2 ^ d := by rw [Nat.pow_succ]; omega
      rw [h2]
      have hp : 1 ≤ 2 ^ d := Nat.one_le_two_pow
      generalize (input.foldl (process origin scale o) (s, parts, [])).2.1.length = a at *
      generalize (input.foldl (process origin scale o) (s, parts, [])).2.2.length = b at *
      generalize 2 ^ d = P at *
      have h3 : P * b + 2 * P * a ≤ P * (2 * parts.length + 2 * input.length) := by
        have := Nat.mul_le_mul_left P this
        nlinarith
      obtain ⟨e, he⟩ := Nat.exists_eq_add_of_le hmono
      obtain ⟨P', hP'⟩ := Nat.exists_eq_add_of_le hp
      subst he hP'
      nlinarith

theorem acd_count_depth {σ} (origin : V3 K) (scale : K) (o : Oracle σ K) (s0 : σ) (maxHulls : Nat) (voxels : List Voxel) :
    (acd origin scale o s0 maxHulls voxels).length ≤ 2 ^ depthOf maxHulls := by
  have := loop_count origin scale o (depthOf maxHulls) s0 [voxels] []
  simpa [acd] using this

private theorem depthGo_bound (m : Nat) (hm : 1 ≤ m) :
    ∀ (f hull depth : Nat), hull = 2 ^ depth → 1 ≤ depth → (depth = 1 ∨ 2 ^ (depth - 1) < m) →
      m ≤ 2 ^ (depth + f) →
      2 ^ (depthGo m f hull depth) ≤ 2 * m ∨ depthGo m f hull depth = 1 := by
  intro f
  induction f with
  | zero =>
    intro hull depth hh hd hprev hfuel
    simp only [depthGo]
    rcases hprev with h | h
    · right; exact h
    · left
      have : 2 ^ depth = 2 * 2 ^ (depth - 1) := by
        have : depth = (depth - 1) + 1 := by omega
        conv_lhs => rw [this, Nat.pow_succ]
        omega
      omega
  | succ f ih =>
    intro hull depth hh hd hprev hfuel
    simp only [depthGo]
    split_ifs with hlt
    · apply ih (hull * 2) (depth + 1)
      · rw [hh, Nat.pow_succ]
      · omega
      · right; simpa [hh] using hlt
      · have : depth + 1 + f = depth + (f + 1) := by omega
        rw [this]; exact hfuel
    · rcases hprev with h | h
      · right; exact h
      · left
        have : 2 ^ depth = 2 * 2 ^ (depth - 1) := by
          have : depth = (depth - 1) + 1 := by omega
          conv_lhs => rw [this, Nat.pow_succ]
          omega
        omega

/-- `2^depth ≤ 4 · max_convex_hulls` for every `u32` value of `max_convex_hulls ≥ 1`. -/
theorem depth_bound (m : Nat) (hm : 1 ≤ m) (hu : m ≤ 2 ^ 32) : 2 ^ depthOf m ≤ 4 * m := by
  unfold depthOf
  have := depthGo_bound m hm 32 2 1 (by norm_num) (by norm_num) (Or.inl rfl) (by simpa using le_trans hu (by norm_num))
  rw [Nat.pow_succ]
  rcases this with h | h
  · omega
  · rw [h]; omega

/-- **C18 (count)**: the number of parts never exceeds `4 · max_convex_hulls`. -/
theorem acd_count {σ} (origin : V3 K) (scale : K) (o : Oracle σ K) (s0 : σ) (maxHulls : Nat) (voxels : List Voxel)
    (hm : 1 ≤ maxHulls) (hu : maxHulls ≤ 2 ^ 32) :
    (acd origin scale o s0 maxHulls voxels).length ≤ 4 * maxHulls :=
  (acd_count_depth origin scale o s0 maxHulls voxels).trans (depth_bound maxHulls hm hu)

end C18
