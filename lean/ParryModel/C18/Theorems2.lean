import ParryModel.C18.LemmasVox
/-!
# C18 theorems, part 2: the cell/segment predicate of the 2-D voxelizer

`Model.Vox.testAabbSegment` is the transliteration of `query::details::intersection_test_aabb_segment`
(the test `VoxelizedVolume::voxelize` runs for every candidate cell of every segment).  At the lawful instance
(`fieldNum K sq`, `LawfulSqrt sq`) it is **exact**: it returns `true` iff the closed box and the closed segment have a
common point — completeness for every segment, soundness for every segment that is either degenerate (`a = b`) or
longer than `DEFAULT_EPSILON` (for `0 < |b-a| ≤ ε` the code skips the segment-normal axis and is an AABB/AABB test).
-/
set_option linter.style.haveILetI false
set_option linter.unusedSectionVars false
set_option linter.unusedVariables false
set_option linter.unusedSimpArgs false
namespace C18
open Model Model.Vox
variable {K : Type} [Field K] [LinearOrder K] [IsStrictOrderedRing K] (sq : K → K)

/-- the closed axis-aligned box `[mins, maxs]` as a set -/
def InBox (mins maxs p : V2 K) : Prop := (mins.x ≤ p.x ∧ p.x ≤ maxs.x) ∧ (mins.y ≤ p.y ∧ p.y ≤ maxs.y)

/-- **closed form of the predicate**: `intersection_test_aabb_segment` returns `true` exactly when no box axis
separates (interval overlap on `x` and `y`) and — if the segment is longer than `DEFAULT_EPSILON` — the segment normal
does not separate either (`SatCond`). -/
theorem segtest_iff_sat (hsq : LawfulSqrt sq) (mins maxs a b : V2 K) (hbx : mins.x ≤ maxs.x) (hby : mins.y ≤ maxs.y) :
    letI := fieldNum K sq
    testAabbSegment mins maxs a b = true ↔ SatCond sq mins maxs a b :=
  testAabbSegment_iff sq hsq mins maxs a b hbx hby

example : SatCond (K := ℚ) (fun x => x) ⟨0, 0⟩ ⟨1, 1⟩ ⟨-1, 1/2⟩ ⟨2, 1/2⟩ := by
  unfold SatCond; norm_num [Model.Vox.eps, Model.lit, abs_of_nonneg, abs_of_nonpos]

/-- **completeness of the predicate** (the direction `vox_points_covered` needs): if some point lies both in the
closed box and on the closed segment, `intersection_test_aabb_segment` returns `true`. -/
theorem segtest_complete (hsq : LawfulSqrt sq) (mins maxs a b p : V2 K)
    (hbox : InBox mins maxs p) :
    letI := fieldNum K sq
    (Segment2.mk a b).Mem p → testAabbSegment mins maxs a b = true := by
  letI := fieldNum K sq
  rintro ⟨t, h0, h1, rfl⟩
  obtain ⟨⟨x1, x2⟩, ⟨y1, y2⟩⟩ := hbox
  simp only [V2.add, V2.sub, V2.smul] at x1 x2 y1 y2
  rw [testAabbSegment_iff sq hsq mins maxs a b (le_trans x1 x2) (le_trans y1 y2)]
  exact sat_of_common_point sq mins maxs a b t h0 h1 ⟨x1, x2⟩ ⟨y1, y2⟩

/-- the hypotheses of `segtest_complete` are satisfiable: the corner `(1,1)` of the unit box lies on a diagonal segment -/
example : InBox (K := ℚ) ⟨0, 0⟩ ⟨1, 1⟩ ⟨1, 1⟩ ∧
    (letI := fieldNum ℚ (fun x => x); (Segment2.mk (⟨0, 2⟩ : V2 ℚ) ⟨2, 0⟩).Mem ⟨1, 1⟩) := by
  refine ⟨by unfold InBox; norm_num, 1/2, by norm_num, by norm_num, ?_⟩
  simp only [V2.add, V2.sub, V2.smul]; norm_num

/-- **soundness of the predicate** (2-D separating-axis theorem, constructive): if the test returns `true` for a
segment that is degenerate or longer than `DEFAULT_EPSILON`, the closed box and the closed segment share a point. -/
theorem segtest_sound (hsq : LawfulSqrt sq) (mins maxs a b : V2 K) (hbx : mins.x ≤ maxs.x) (hby : mins.y ≤ maxs.y)
    (hlen : a = b ∨ @eps K (fieldNum K sq) * @eps K (fieldNum K sq) < (b.y - a.y) * (b.y - a.y) + -(b.x - a.x) * -(b.x - a.x)) :
    letI := fieldNum K sq
    testAabbSegment mins maxs a b = true → ∃ p, InBox mins maxs p ∧ (Segment2.mk a b).Mem p := by
  letI := fieldNum K sq
  intro h
  rw [testAabbSegment_iff sq hsq mins maxs a b hbx hby] at h
  obtain ⟨⟨X1, X2, Y1, Y2⟩, N⟩ := h
  have hN : |(mins.x + maxs.x - 2 * a.x) * (b.y - a.y) - (mins.y + maxs.y - 2 * a.y) * (b.x - a.x)|
      ≤ (maxs.x - mins.x) * |b.y - a.y| + (maxs.y - mins.y) * |b.x - a.x| := by
    rcases hlen with rfl | hlen
    · simp
    · exact N hlen
  obtain ⟨t, h0, h1, hx, hy⟩ := sat_sound_scalar a.x a.y b.x b.y mins.x mins.y maxs.x maxs.y hbx hby X1 X2 Y1 Y2 hN
  exact ⟨a.add ((b.sub a).smul t), ⟨hx, hy⟩, t, h0, h1, rfl⟩

/-- the hypotheses of `segtest_sound` are satisfiable (a long segment and a non-empty box) -/
example : (0:ℚ) ≤ 1 ∧ ((⟨0, 2⟩ : V2 ℚ) = ⟨2, 0⟩ ∨
    @eps ℚ (fieldNum ℚ (fun x => x)) * @eps ℚ (fieldNum ℚ (fun x => x)) < ((0:ℚ) - 2) * (0 - 2) + -(2 - 0) * -(2 - 0)) := by
  refine ⟨by norm_num, Or.inr ?_⟩
  rw [show @eps ℚ (fieldNum ℚ (fun x => x)) = ((mkRat 1 4503599627370496 : ℚ) : ℚ) from rfl]
  norm_num

/-! ## `clip_aabb_line` — the cell predicate of `detect_self_intersections = true` -/

/-- **`Aabb::clip_line_parameters` is exact** (Liang–Barsky): for a non-empty box, `None` means that no point
`origin + t·dir` with `|t| ≤ Real::MAX` lies in the box; `Some((t0, t1))` means `t0 ≤ t1` (so the
`assert!(params.0 <= params.1)` of the voxelizer cannot fire) and the points of the line in the box are exactly those with
`t0 ≤ t ≤ t1` (among `|t| ≤ Real::MAX`). -/
theorem clipline_exact (mins maxs origin dir : V2 K) (hx : mins.x ≤ maxs.x) (hy : mins.y ≤ maxs.y) :
    letI := fieldNum K sq
    ClipOk (clipLineParams mins maxs origin dir)
      (fun t => (-realMax ≤ t ∧ t ≤ realMax) ∧
        (mins.x ≤ origin.x + t * dir.x ∧ origin.x + t * dir.x ≤ maxs.x) ∧
        (mins.y ≤ origin.y + t * dir.y ∧ origin.y + t * dir.y ≤ maxs.y)) := by
  letI := fieldNum K sq
  unfold clipLineParams
  have h0 : ClipOk (some (-@realMax K (fieldNum K sq), @realMax K (fieldNum K sq)))
      (fun t => -@realMax K (fieldNum K sq) ≤ t ∧ t ≤ @realMax K (fieldNum K sq)) :=
    ⟨by linarith [realMax_nonneg (K := K) sq], fun t => Iff.rfl⟩
  have h1 := clipAxis_spec sq mins maxs origin dir 0 (by simpa [V2.get] using hx) _ _ h0
  have h2 := clipAxis_spec sq mins maxs origin dir 1 (by simpa [V2.get] using hy) _ _ h1
  simp only [V2.get, if_true, one_ne_zero, if_false] at h2 ⊢
  have e : (fun t => ((-@realMax K (fieldNum K sq) ≤ t ∧ t ≤ @realMax K (fieldNum K sq)) ∧
      mins.x ≤ origin.x + t * dir.x ∧ origin.x + t * dir.x ≤ maxs.x) ∧
      mins.y ≤ origin.y + t * dir.y ∧ origin.y + t * dir.y ≤ maxs.y)
      = (fun t => (-@realMax K (fieldNum K sq) ≤ t ∧ t ≤ @realMax K (fieldNum K sq)) ∧
        (mins.x ≤ origin.x + t * dir.x ∧ origin.x + t * dir.x ≤ maxs.x) ∧
        (mins.y ≤ origin.y + t * dir.y ∧ origin.y + t * dir.y ≤ maxs.y)) := by
    funext t; simp only [and_assoc]
  rw [← e]; exact h2

/-- **the marking condition of `detect_self_intersections = true` is exact**: the voxelizer marks a cell for a segment iff
`clip_line_parameters(cell, a, b − a)` is `Some((t0, t1))` with `¬(t0 > 1 || t1 < 0)`; this holds iff the closed box and the
closed segment share a point.  (Stated for any non-empty box.) -/
theorem clip_mark_iff_meets (mins maxs a b : V2 K) (hx : mins.x ≤ maxs.x) (hy : mins.y ≤ maxs.y) :
    letI := fieldNum K sq
    (match clipLineParams mins maxs a (b.sub a) with
      | none => False
      | some (t0, t1) => ¬ (1 + 0 < t0 ∨ t1 < 0 - 0)) ↔
    ∃ t : K, 0 ≤ t ∧ t ≤ 1 ∧ (mins.x ≤ a.x + (b.x - a.x) * t ∧ a.x + (b.x - a.x) * t ≤ maxs.x) ∧
      (mins.y ≤ a.y + (b.y - a.y) * t ∧ a.y + (b.y - a.y) * t ≤ maxs.y) := by
  letI := fieldNum K sq
  have hM := realMax_ge_one (K := K) sq
  have hspec := clipline_exact sq mins maxs a (b.sub a) hx hy
  have hC : ∀ t : K, 0 ≤ t → t ≤ 1 →
      ((mins.x ≤ a.x + (b.x - a.x) * t ∧ a.x + (b.x - a.x) * t ≤ maxs.x) ∧
       (mins.y ≤ a.y + (b.y - a.y) * t ∧ a.y + (b.y - a.y) * t ≤ maxs.y) ↔
       ((-@realMax K (fieldNum K sq) ≤ t ∧ t ≤ @realMax K (fieldNum K sq)) ∧
        (mins.x ≤ a.x + t * (b.sub a).x ∧ a.x + t * (b.sub a).x ≤ maxs.x) ∧
        (mins.y ≤ a.y + t * (b.sub a).y ∧ a.y + t * (b.sub a).y ≤ maxs.y))) := by
    intro t h0 h1
    simp only [V2.sub]
    have e1 : a.x + t * (b.x - a.x) = a.x + (b.x - a.x) * t := by ring
    have e2 : a.y + t * (b.y - a.y) = a.y + (b.y - a.y) * t := by ring
    rw [e1, e2]
    constructor
    · intro h; exact ⟨⟨by linarith, by linarith⟩, h⟩
    · intro h; exact h.2
  cases hc : clipLineParams mins maxs a (b.sub a) with
  | none =>
    rw [hc] at hspec
    simp only [false_iff]
    rintro ⟨t, h0, h1, hb⟩
    exact hspec t ((hC t h0 h1).mp hb)
  | some p =>
    obtain ⟨t0, t1⟩ := p
    rw [hc] at hspec
    obtain ⟨hle, hiff⟩ := hspec
    simp only [add_zero, sub_zero]
    constructor
    · intro h
      push Not at h
      refine ⟨max 0 t0, le_max_left _ _, max_le (by norm_num) h.1, ?_⟩
      exact (hC _ (le_max_left _ _) (max_le (by norm_num) h.1)).mpr ((hiff _).mp ⟨le_max_right _ _, max_le h.2 hle⟩)
    · rintro ⟨t, h0, h1, hb⟩
      have := (hiff t).mpr ((hC t h0 h1).mp hb)
      intro h
      rcases h with h | h <;> linarith [this.1, this.2]

/-- the hypotheses of `clipline_exact` / `clip_mark_iff_meets` are satisfiable (any non-empty box) -/
example : ((⟨0, 0⟩ : V2 ℚ).x ≤ (⟨1, 1⟩ : V2 ℚ).x) ∧ ((⟨0, 0⟩ : V2 ℚ).y ≤ (⟨1, 1⟩ : V2 ℚ).y) := by norm_num

end C18
