import ParryModel.C18.LemmasTri3
/-!
# C18 theorems, part 8: the cell/triangle predicate of the 3-D voxelizer

`Model.Vox3.testAabbTriangle` is the transliteration of `query::details::intersection_test_aabb_triangle` (the test
`VoxelizedVolume::voxelize` runs for every candidate cell of every triangle).  At the lawful instance (`fieldNum K sq`) it is
**complete**: if the closed box and the closed triangle have a common point, it returns `true` (none of the 6 + 1 + 9
separating-axis candidates can report a positive separation).  Of soundness only the face-axis piece is proved: a `true`
answer implies that the bounding box of the triangle meets the box.
-/
set_option linter.style.haveILetI false
set_option linter.unusedSectionVars false
set_option linter.unusedVariables false
set_option linter.unusedSimpArgs false
namespace C18
open Model Model.Vox Model.Vox3
variable {K : Type} [Field K] [LinearOrder K] [IsStrictOrderedRing K] (sq : K → K)

/-- the closed axis-aligned box `[mins, maxs]` as a set -/
def InBox3 (mins maxs p : V3 K) : Prop :=
  (mins.x ≤ p.x ∧ p.x ≤ maxs.x) ∧ (mins.y ≤ p.y ∧ p.y ≤ maxs.y) ∧ (mins.z ≤ p.z ∧ p.z ≤ maxs.z)

/-- the closed triangle `a b c` as a set: convex combinations of the vertices -/
def InTri3 (a b c p : V3 K) : Prop :=
  ∃ u v w : K, 0 ≤ u ∧ 0 ≤ v ∧ 0 ≤ w ∧ u + v + w = 1 ∧
    p.x = u * a.x + v * b.x + w * c.x ∧ p.y = u * a.y + v * b.y + w * c.y ∧ p.z = u * a.z + v * b.z + w * c.z

/-- completeness of the predicate, using of the square root only that it maps non-negative numbers to non-negative numbers
(each edge-axis candidate is divided by `sqrt |axis|²`; a non-negative divisor keeps the sign) -/
theorem tritest_complete_of_nonneg (hnn : ∀ x : K, 0 ≤ x → 0 ≤ sq x) (mins maxs a b c p : V3 K)
    (hbox : InBox3 mins maxs p) (htri : InTri3 a b c p) :
    letI := fieldNum K sq
    testAabbTriangle mins maxs a b c = true := by
  letI := fieldNum K sq
  obtain ⟨⟨x1, x2⟩, ⟨y1, y2⟩, ⟨z1, z2⟩⟩ := hbox
  obtain ⟨u, v, w, hu, hv, hw, h1, hx, hy, hz⟩ := htri
  have hM : -@realMax K (fieldNum K sq) ≤ 0 := by linarith [realMax_nonneg (K := K) sq]
  unfold testAabbTriangle testCuboidTriangle
  simp only []
  rw [inverse_id3]
  have bx : |p.x + ((V3.center mins maxs).neg).x| ≤ ((maxs.sub mins).smul (lit 1 2)).x := by
    simp only [V3.center, V3.neg, V3.sub, V3.add, V3.smul, half_lit]
    exact abs_le.mpr ⟨by linarith, by linarith⟩
  have «by» : |p.y + ((V3.center mins maxs).neg).y| ≤ ((maxs.sub mins).smul (lit 1 2)).y := by
    simp only [V3.center, V3.neg, V3.sub, V3.add, V3.smul, half_lit]
    exact abs_le.mpr ⟨by linarith, by linarith⟩
  have bz : |p.z + ((V3.center mins maxs).neg).z| ≤ ((maxs.sub mins).smul (lit 1 2)).z := by
    simp only [V3.center, V3.neg, V3.sub, V3.add, V3.smul, half_lit]
    exact abs_le.mpr ⟨by linarith, by linarith⟩
  have cx : |p.x - ((V3.center mins maxs).neg.neg).x| ≤ ((maxs.sub mins).smul (lit 1 2)).x := by
    simp only [V3.center, V3.neg, V3.sub, V3.add, V3.smul, half_lit]
    exact abs_le.mpr ⟨by linarith, by linarith⟩
  have cy : |p.y - ((V3.center mins maxs).neg.neg).y| ≤ ((maxs.sub mins).smul (lit 1 2)).y := by
    simp only [V3.center, V3.neg, V3.sub, V3.add, V3.smul, half_lit]
    exact abs_le.mpr ⟨by linarith, by linarith⟩
  have cz : |p.z - ((V3.center mins maxs).neg.neg).z| ≤ ((maxs.sub mins).smul (lit 1 2)).z := by
    simp only [V3.center, V3.neg, V3.sub, V3.add, V3.smul, half_lit]
    exact abs_le.mpr ⟨by linarith, by linarith⟩
  -- pass 1: the six face normals
  have s1 : sepCuboidTri ((maxs.sub mins).smul (lit 1 2)) a b c ⟨0, 0, 0, 1, (V3.center mins maxs).neg⟩ ≤ 0 := by
    rw [sepCuboidTri_eq]
    have hc := cand3_le sq ((maxs.sub mins).smul (lit 1 2)) a b c (V3.center mins maxs).neg p u v w hu hv hw h1 hx hy hz
      bx «by» bz
    refine max_le (max_le (max_le (max_le (max_le (max_le hM ?_) ?_) ?_) ?_) ?_) ?_
    · exact hc 0 (-1) (Or.inl rfl) (Or.inl rfl)
    · exact hc 0 1 (Or.inl rfl) (Or.inr rfl)
    · exact hc 1 (-1) (Or.inr (Or.inl rfl)) (Or.inl rfl)
    · exact hc 1 1 (Or.inr (Or.inl rfl)) (Or.inr rfl)
    · exact hc 2 (-1) (Or.inr (Or.inr rfl)) (Or.inl rfl)
    · exact hc 2 1 (Or.inr (Or.inr rfl)) (Or.inr rfl)
  -- pass 2: the triangle normal
  have s2 := sepPointCuboid3_le sq ((maxs.sub mins).smul (lit 1 2)) (V3.center mins maxs).neg.neg a b c p u v w h1 hx hy hz
    cx cy cz
  -- pass 3: the nine edge axes
  have s3 := sepEdges_le sq hnn ((maxs.sub mins).smul (lit 1 2)) a b c (V3.center mins maxs).neg p u v w hu hv hw h1 hx hy hz
    bx «by» bz
  rw [if_neg (not_lt.mpr s1), if_neg (not_lt.mpr s2)]
  exact decide_eq_true s3

/-- **completeness of the predicate** (the direction the voxelizer's coverage guarantee needs): if some point `p` lies
both in the closed box `[mins, maxs]` (so `mins ≤ maxs` componentwise) and in the closed triangle `a b c`,
`intersection_test_aabb_triangle` returns `true`.  Each of the three passes (6 signed face normals of the box, the triangle
normal, the 9 cross products `e_i × edge`) only reports a positive separation along an axis on which the projections of the
two sets are disjoint, which is impossible when they share `p`.  Degenerate triangles are included (the normal and the short
edge axes are then skipped by the code). -/
theorem tritest_complete (hsq : LawfulSqrt sq) (mins maxs a b c p : V3 K)
    (hbox : InBox3 mins maxs p) (htri : InTri3 a b c p) :
    letI := fieldNum K sq
    testAabbTriangle mins maxs a b c = true :=
  tritest_complete_of_nonneg sq hsq.nonneg mins maxs a b c p hbox htri

/-- the hypotheses of `tritest_complete` are satisfiable: the centre of the unit box lies in a triangle that crosses it -/
example : InBox3 (K := ℚ) ⟨0, 0, 0⟩ ⟨1, 1, 1⟩ ⟨1/2, 1/2, 1/2⟩ ∧
    InTri3 (K := ℚ) ⟨-1, 0, 1/2⟩ ⟨2, 0, 1/2⟩ ⟨1/2, 3, 1/2⟩ ⟨1/2, 1/2, 1/2⟩ := by
  refine ⟨by unfold InBox3; norm_num, 5/12, 5/12, 1/6, ?_⟩
  norm_num

/-- **soundness, face-axis piece**: if `intersection_test_aabb_triangle` returns `true`, the bounding box of the triangle
meets the box: on each coordinate axis `min(a_i, b_i, c_i) ≤ maxs_i` and `mins_i ≤ max(a_i, b_i, c_i)` (this is what
`¬ 0 < sep1` of the first pass says).  Full soundness — that the 13 axes suffice for a common point to exist (the 3-D
separating-axis theorem for a box and a triangle) — is not attempted. -/
theorem tritest_face_axes_sound_partial (mins maxs a b c : V3 K) :
    letI := fieldNum K sq
    testAabbTriangle mins maxs a b c = true →
      (min (min a.x b.x) c.x ≤ maxs.x ∧ mins.x ≤ max (max a.x b.x) c.x) ∧
      (min (min a.y b.y) c.y ≤ maxs.y ∧ mins.y ≤ max (max a.y b.y) c.y) ∧
      (min (min a.z b.z) c.z ≤ maxs.z ∧ mins.z ≤ max (max a.z b.z) c.z) := by
  letI := fieldNum K sq
  intro h
  unfold testAabbTriangle testCuboidTriangle at h
  simp only [] at h
  have s1 : sepCuboidTri ((maxs.sub mins).smul (lit 1 2)) a b c ⟨0, 0, 0, 1, (V3.center mins maxs).neg⟩ ≤ 0 := by
    by_contra hc
    rw [if_pos (not_le.mp hc)] at h
    exact Bool.false_ne_true h
  rw [sepCuboidTri_eq, max_le_iff, max_le_iff, max_le_iff, max_le_iff, max_le_iff, max_le_iff] at s1
  obtain ⟨⟨⟨⟨⟨⟨_, c1⟩, c2⟩, c3⟩, c4⟩, c5⟩, c6⟩ := s1
  obtain ⟨q1, m1, e1⟩ := cand3_witness sq ((maxs.sub mins).smul (lit 1 2)) a b c (V3.center mins maxs).neg 0 (-1)
  obtain ⟨q2, m2, e2⟩ := cand3_witness sq ((maxs.sub mins).smul (lit 1 2)) a b c (V3.center mins maxs).neg 0 1
  obtain ⟨q3, m3, e3⟩ := cand3_witness sq ((maxs.sub mins).smul (lit 1 2)) a b c (V3.center mins maxs).neg 1 (-1)
  obtain ⟨q4, m4, e4⟩ := cand3_witness sq ((maxs.sub mins).smul (lit 1 2)) a b c (V3.center mins maxs).neg 1 1
  obtain ⟨q5, m5, e5⟩ := cand3_witness sq ((maxs.sub mins).smul (lit 1 2)) a b c (V3.center mins maxs).neg 2 (-1)
  obtain ⟨q6, m6, e6⟩ := cand3_witness sq ((maxs.sub mins).smul (lit 1 2)) a b c (V3.center mins maxs).neg 2 1
  rw [e1] at c1; rw [e2] at c2; rw [e3] at c3; rw [e4] at c4; rw [e5] at c5; rw [e6] at c6
  simp only [V3.get, V3.center, V3.neg, V3.sub, V3.add, V3.smul, half_lit, if_true, if_false, one_ne_zero,
    OfNat.ofNat_ne_zero, OfNat.ofNat_ne_one, Nat.succ_ne_self] at c1 c2 c3 c4 c5 c6
  have k1 := (min3_le_of_mem (fun q : V3 K => q.x) a b c q1 m1).2
  have k2 := (min3_le_of_mem (fun q : V3 K => q.x) a b c q2 m2).1
  have k3 := (min3_le_of_mem (fun q : V3 K => q.y) a b c q3 m3).2
  have k4 := (min3_le_of_mem (fun q : V3 K => q.y) a b c q4 m4).1
  have k5 := (min3_le_of_mem (fun q : V3 K => q.z) a b c q5 m5).2
  have k6 := (min3_le_of_mem (fun q : V3 K => q.z) a b c q6 m6).1
  refine ⟨⟨by linarith, by linarith⟩, ⟨by linarith, by linarith⟩, ⟨by linarith, by linarith⟩⟩

/-- the hypothesis of `tritest_face_axes_sound_partial` is satisfiable: over `ℚ` with the (non-negative on non-negatives)
stand-in `sq = id`, the test accepts the triangle of the previous example -/
example :
    letI := fieldNum ℚ (fun x => x)
    testAabbTriangle (K := ℚ) ⟨0, 0, 0⟩ ⟨1, 1, 1⟩ ⟨-1, 0, 1/2⟩ ⟨2, 0, 1/2⟩ ⟨1/2, 3, 1/2⟩ = true := by
  refine tritest_complete_of_nonneg (K := ℚ) (fun x => x) (fun x h => h) _ _ _ _ _ ⟨1/2, 1/2, 1/2⟩ ?_ ⟨5/12, 5/12, 1/6, ?_⟩
  · unfold InBox3; norm_num
  · norm_num

end C18
