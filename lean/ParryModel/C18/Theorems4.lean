import ParryModel.C18.LemmasGrid
import ParryModel.C18.LemmasSet
import ParryModel.C18.Theorems3
import ParryModel.C18.Theorems2
import Mathlib.Analysis.Real.Sqrt
import Mathlib.Algebra.Order.Floor.Ring
import Mathlib.Topology.Algebra.Order.Floor
/-!
# C18 theorems, part 4: the 2-D voxelizer marks exactly the cells its primitives meet

`Model.Vox.voxelize` is the transliteration of `VoxelizedVolume::voxelize` (`parry2d-f64`).  The theorems cover the marking
mode `detect_self_intersections = false` (cells are marked by the segment/box SAT test) in **all three** fill modes
(`SurfaceOnly`, `FloodFill { detect_cavities: false }`, `FloodFill { detect_cavities: true }` — none of them changes which
cells are surface cells), on inputs that do not hit a panic site (`panic = false`: all primitive indices in range and
both `assert!`s hold; `vox_no_panic` proves this for every valid input).

* `vox_surface_iff`, `vox_map_exact`, `vox_params`, `vox_fuel_ok`, `vox_fill_spec` — instance-generic (the test is a black
  box): a cell is `PrimitiveOnSurface` in the result iff some primitive has the cell in its candidate range with a
  positive test; `primitive_intersections` lists, in primitive order, exactly those (cell, primitive) pairs; the loops
  stay within their fuel; in plain flood-fill mode the inside is exactly the set of enclosed cells.
* `vox_meets_imp_surface`, `vox_points_covered`, `vox_surface_meets`, `vox_no_panic` — at the lawful instance
  (`fieldNum K sq`, `LawfulSqrt sq`, `x as u32` = `fieldCast tr` with `LawfulTrunc tr`), in world coordinates.
-/
set_option linter.style.haveILetI false
set_option linter.unusedSectionVars false
set_option linter.unusedVariables false
set_option linter.unusedSimpArgs false
namespace C18
open Model Model.Vox

section generic
variable {K : Type} [Num K] [Cast K]

private theorem gridParams_dims (res : Nat) (hres : 1 ≤ res) (mn mx : V2 K) :
    1 ≤ (gridParams res mn mx).1 ∧ 1 ≤ (gridParams res mn mx).2.1 := by
  unfold gridParams
  simp only []
  split_ifs
  · exact ⟨hres, by show 1 ≤ 2 + _; omega⟩
  · exact ⟨by show 1 ≤ 2 + _; omega, hres⟩

/-- in every fill mode the set of surface cells is left alone and the loops stay within their fuel -/
private theorem fill_surf_iff (cfg : Cfg) (ni nj : Nat) (hi : 1 ≤ ni) (hj : 1 ≤ nj) (g : Array VV)
    (hs : g.size = ni * nj) (hv : ∀ p, InB ni nj p → getC ni g p = .undef ∨ getC ni g p = .surf) :
    (fill cfg ni nj g).2 = true ∧
    ∀ p, InB ni nj p → (getC ni (fill cfg ni nj g).1 p = .surf ↔ getC ni g p = .surf) := by
  refine ⟨fill_fuel_all cfg ni nj g hs, ?_⟩
  by_cases hf : cfg.flood = true
  · by_cases hc : cfg.detectCavities = true
    · intro p hp
      have := fill_cav_surf_iff cfg hf hc ni nj g (idx ni p.1 p.2)
      unfold getC
      rw [this]
      rcases hv p hp with v | v <;> (unfold getC at v; rw [v]; simp [isSC])
    · have hc' : cfg.detectCavities = false := by simpa using hc
      obtain ⟨_, _, a3⟩ := fill_spec cfg hf hc' ni nj hi hj g hs hv
      exact fun p hp => (a3 p hp).1
  · have hf' : cfg.flood = false := by simpa using hf
    have e : fill cfg ni nj g = (g.map fun v => if v ≠ .surf then .outside else v, true) := by
      unfold fill; simp [hf']
    rw [e]
    intro p hp
    simp only []
    rw [getC_map ni nj g _ hs p hp]
    split_ifs with h
    · constructor
      · intro x; cases x
      · intro x; exact absurd x h
    · rfl

/-- the result of `voxelize` in terms of the marking loop: same grid parameters and `primitive_intersections`; the surface
cells are those of the marking phase -/
private theorem voxelize_plain (cfg : Cfg) (hsi : cfg.detectSelfInter = false) (res : Nat) (hres : 1 ≤ res) (p0 : V2 K) (ps : List (V2 K))
    (edges : List (Nat × Nat)) (hp : (voxelize cfg res (p0 :: ps) edges).1.panic = false) :
    (markAll cfg res (p0 :: ps) edges).panic = false ∧
    (voxelize cfg res (p0 :: ps) edges).2 = true ∧
    (voxelize cfg res (p0 :: ps) edges).1.ni = (markAll cfg res (p0 :: ps) edges).ni ∧
    (voxelize cfg res (p0 :: ps) edges).1.nj = (markAll cfg res (p0 :: ps) edges).nj ∧
    (voxelize cfg res (p0 :: ps) edges).1.origin = (markAll cfg res (p0 :: ps) edges).origin ∧
    (voxelize cfg res (p0 :: ps) edges).1.scale = (markAll cfg res (p0 :: ps) edges).scale ∧
    (voxelize cfg res (p0 :: ps) edges).1.prims = (markAll cfg res (p0 :: ps) edges).prims ∧
    ∀ q, InB (markAll cfg res (p0 :: ps) edges).ni (markAll cfg res (p0 :: ps) edges).nj q →
      (getC (markAll cfg res (p0 :: ps) edges).ni (voxelize cfg res (p0 :: ps) edges).1.vals q = .surf ↔
       getC (markAll cfg res (p0 :: ps) edges).ni (markAll cfg res (p0 :: ps) edges).vals q = .surf) := by
  have hvox : voxelize cfg res (p0 :: ps) edges =
      if (markAll cfg res (p0 :: ps) edges).panic then (markAll cfg res (p0 :: ps) edges, true)
      else ({ markAll cfg res (p0 :: ps) edges with
                vals := (fill cfg (markAll cfg res (p0 :: ps) edges).ni (markAll cfg res (p0 :: ps) edges).nj (markAll cfg res (p0 :: ps) edges).vals).1 },
            (fill cfg (markAll cfg res (p0 :: ps) edges).ni (markAll cfg res (p0 :: ps) edges).nj (markAll cfg res (p0 :: ps) edges).vals).2) := rfl
  by_cases hpm : (markAll cfg res (p0 :: ps) edges).panic = true
  · rw [hvox, if_pos hpm] at hp; simp only [] at hp; rw [hpm] at hp; cases hp
  · have hpm' : (markAll cfg res (p0 :: ps) edges).panic = false := by simpa using hpm
    rw [hvox, if_neg hpm]
    have hm := markAll_eq cfg res p0 ps edges
    obtain ⟨s1, s2, s3, s4, s5⟩ := markFrom_spec cfg hsi (p0 :: ps).toArray edges (cloudAabb p0 ps).1
      (gridParams res (cloudAabb p0 ps).1 (cloudAabb p0 ps).2).2.2.1 (gridParams res (cloudAabb p0 ps).1 (cloudAabb p0 ps).2).2.2.2
      (gridParams res (cloudAabb p0 ps).1 (cloudAabb p0 ps).2).1 (gridParams res (cloudAabb p0 ps).1 (cloudAabb p0 ps).2).2.1
    rw [← hm] at s1 s2 s3 s4 s5
    obtain ⟨g1, _, _, _⟩ := s5 hpm'
    obtain ⟨d1, d2⟩ := gridParams_dims res hres (cloudAabb p0 ps).1 (cloudAabb p0 ps).2
    obtain ⟨f1, f2⟩ := fill_surf_iff cfg _ _ (by rw [s1]; exact d1) (by rw [s2]; exact d2) _ g1.size g1.vals
    exact ⟨hpm', f1, rfl, rfl, rfl, rfl, rfl, f2⟩

/-- **vox_surface_iff** (`detect_self_intersections = false`, every `FillMode`, no panic; any `Num`/`Cast` instance).  In the volume returned by `voxelize`, an
in-grid cell `q` is `PrimitiveOnSurface` **iff** there is a primitive `k` (`edges[k] = e`, end points `a`, `b` exist) such
that `q` lies in the candidate range computed from the cells of the two end points (`segCells`) and
`intersection_test_aabb_segment(cell q, segment)` is `true` (`cellHit`), both in grid coordinates
`(p − origin) · inv_scale`. -/
theorem vox_surface_iff (cfg : Cfg) (hsi : cfg.detectSelfInter = false) (res : Nat) (hres : 1 ≤ res) (p0 : V2 K) (ps : List (V2 K))
    (edges : List (Nat × Nat)) (hp : (voxelize cfg res (p0 :: ps) edges).1.panic = false) :
    ∀ q, InB (voxelize cfg res (p0 :: ps) edges).1.ni (voxelize cfg res (p0 :: ps) edges).1.nj q →
      (getC (voxelize cfg res (p0 :: ps) edges).1.ni (voxelize cfg res (p0 :: ps) edges).1.vals q = .surf ↔
        ∃ (k : Nat) (e : Nat × Nat) (a b : V2 K), edges[k]? = some e ∧ (p0 :: ps)[e.1]? = some a ∧ (p0 :: ps)[e.2]? = some b ∧
          q ∈ segCells (voxelize cfg res (p0 :: ps) edges).1.ni (voxelize cfg res (p0 :: ps) edges).1.nj
            (gridPt (cloudAabb p0 ps).1 (gridParams res (cloudAabb p0 ps).1 (cloudAabb p0 ps).2).2.2.2 a)
            (gridPt (cloudAabb p0 ps).1 (gridParams res (cloudAabb p0 ps).1 (cloudAabb p0 ps).2).2.2.2 b) ∧
          cellHit (gridPt (cloudAabb p0 ps).1 (gridParams res (cloudAabb p0 ps).1 (cloudAabb p0 ps).2).2.2.2 a)
            (gridPt (cloudAabb p0 ps).1 (gridParams res (cloudAabb p0 ps).1 (cloudAabb p0 ps).2).2.2.2 b) q = true) := by
  obtain ⟨v1, v2, v3, v4, v5, v6, v7, v8⟩ := voxelize_plain cfg hsi res hres p0 ps edges hp
  have hm := markAll_eq cfg res p0 ps edges
  obtain ⟨s1, s2, s3, s4, s5⟩ := markFrom_spec cfg hsi (p0 :: ps).toArray edges (cloudAabb p0 ps).1
    (gridParams res (cloudAabb p0 ps).1 (cloudAabb p0 ps).2).2.2.1 (gridParams res (cloudAabb p0 ps).1 (cloudAabb p0 ps).2).2.2.2
    (gridParams res (cloudAabb p0 ps).1 (cloudAabb p0 ps).2).1 (gridParams res (cloudAabb p0 ps).1 (cloudAabb p0 ps).2).2.1
  rw [← hm] at s1 s2 s3 s4 s5
  obtain ⟨_, _, t3, _⟩ := s5 v1
  intro q hq
  rw [v3, v4] at hq ⊢
  rw [v8 q hq]
  have hq' := hq
  rw [s1, s2] at hq' ⊢
  rw [t3 q hq']
  constructor
  · rintro ⟨ek, hek, a, b, ha, hb, h1, h2⟩
    obtain ⟨e, k⟩ := ek
    exact ⟨k, e, a, b, List.mem_zipIdx_iff_getElem?.mp hek, by simpa using ha, by simpa using hb, h1, h2⟩
  · rintro ⟨k, e, a, b, hk, ha, hb, h1, h2⟩
    exact ⟨(e, k), List.mem_zipIdx_iff_getElem?.mpr hk, a, b, by simpa using ha, by simpa using hb, h1, h2⟩

/-- **vox_map_exact** (`detect_self_intersections = false`, every `FillMode`, no panic).  `primitive_intersections` of the returned volume is, in primitive order,
the list of `(voxel_index(c), k)` for the candidate cells `c` of primitive `k` with a positive test (and is empty when
`keep_voxel_to_primitives_map` is off): the voxel-to-primitive map lists exactly the (cell, primitive) pairs that made
the cell a surface cell — nothing else, nothing missing, each pair once per candidate occurrence. -/
theorem vox_map_exact (cfg : Cfg) (hsi : cfg.detectSelfInter = false) (res : Nat) (hres : 1 ≤ res) (p0 : V2 K) (ps : List (V2 K))
    (edges : List (Nat × Nat)) (hp : (voxelize cfg res (p0 :: ps) edges).1.panic = false) :
    (voxelize cfg res (p0 :: ps) edges).1.prims.toList =
      edges.zipIdx.flatMap (primsOf cfg.keepMap (p0 :: ps).toArray (cloudAabb p0 ps).1
        (gridParams res (cloudAabb p0 ps).1 (cloudAabb p0 ps).2).2.2.2
        (voxelize cfg res (p0 :: ps) edges).1.ni (voxelize cfg res (p0 :: ps) edges).1.nj) := by
  obtain ⟨v1, v2, v3, v4, v5, v6, v7, v8⟩ := voxelize_plain cfg hsi res hres p0 ps edges hp
  have hm := markAll_eq cfg res p0 ps edges
  obtain ⟨s1, s2, s3, s4, s5⟩ := markFrom_spec cfg hsi (p0 :: ps).toArray edges (cloudAabb p0 ps).1
    (gridParams res (cloudAabb p0 ps).1 (cloudAabb p0 ps).2).2.2.1 (gridParams res (cloudAabb p0 ps).1 (cloudAabb p0 ps).2).2.2.2
    (gridParams res (cloudAabb p0 ps).1 (cloudAabb p0 ps).2).1 (gridParams res (cloudAabb p0 ps).1 (cloudAabb p0 ps).2).2.1
  rw [← hm] at s1 s2 s3 s4 s5
  obtain ⟨_, _, _, t4⟩ := s5 v1
  rw [v7, v3, v4, s1, s2, t4]

/-- **vox_params** (`detect_self_intersections = false`, no panic): the grid of the returned volume is the one computed from the bounding box of
the points, and every primitive passed the index lookup and the two `assert!(i < resolution[0] && j < resolution[1])`. -/
theorem vox_params (cfg : Cfg) (hsi : cfg.detectSelfInter = false) (res : Nat) (hres : 1 ≤ res) (p0 : V2 K) (ps : List (V2 K))
    (edges : List (Nat × Nat)) (hp : (voxelize cfg res (p0 :: ps) edges).1.panic = false) :
    (voxelize cfg res (p0 :: ps) edges).1.ni = (gridParams res (cloudAabb p0 ps).1 (cloudAabb p0 ps).2).1 ∧
    (voxelize cfg res (p0 :: ps) edges).1.nj = (gridParams res (cloudAabb p0 ps).1 (cloudAabb p0 ps).2).2.1 ∧
    (voxelize cfg res (p0 :: ps) edges).1.origin = (cloudAabb p0 ps).1 ∧
    (voxelize cfg res (p0 :: ps) edges).1.scale = (gridParams res (cloudAabb p0 ps).1 (cloudAabb p0 ps).2).2.2.1 ∧
    ∀ (k : Nat) (e : Nat × Nat), edges[k]? = some e → ∃ a b, (p0 :: ps)[e.1]? = some a ∧ (p0 :: ps)[e.2]? = some b ∧
      AssertOk (voxelize cfg res (p0 :: ps) edges).1.ni (voxelize cfg res (p0 :: ps) edges).1.nj
        (gridPt (cloudAabb p0 ps).1 (gridParams res (cloudAabb p0 ps).1 (cloudAabb p0 ps).2).2.2.2 a)
        (gridPt (cloudAabb p0 ps).1 (gridParams res (cloudAabb p0 ps).1 (cloudAabb p0 ps).2).2.2.2 b) := by
  obtain ⟨v1, v2, v3, v4, v5, v6, v7, v8⟩ := voxelize_plain cfg hsi res hres p0 ps edges hp
  have hm := markAll_eq cfg res p0 ps edges
  obtain ⟨s1, s2, s3, s4, s5⟩ := markFrom_spec cfg hsi (p0 :: ps).toArray edges (cloudAabb p0 ps).1
    (gridParams res (cloudAabb p0 ps).1 (cloudAabb p0 ps).2).2.2.1 (gridParams res (cloudAabb p0 ps).1 (cloudAabb p0 ps).2).2.2.2
    (gridParams res (cloudAabb p0 ps).1 (cloudAabb p0 ps).2).1 (gridParams res (cloudAabb p0 ps).1 (cloudAabb p0 ps).2).2.1
  rw [← hm] at s1 s2 s3 s4 s5
  obtain ⟨_, t2, _, _⟩ := s5 v1
  refine ⟨by rw [v3, s1], by rw [v4, s2], by rw [v5, s3], by rw [v6, s4], fun k e hk => ?_⟩
  obtain ⟨a, b, ha, hb, hok⟩ := t2 (e, k) (List.mem_zipIdx_iff_getElem?.mpr hk)
  rw [v3, v4, s1, s2]
  exact ⟨a, b, by simpa using ha, by simpa using hb, hok⟩

/-- **vox_fill_spec** (`FloodFill { detect_cavities: false, detect_self_intersections: false }`, no panic; any instance).
In the volume returned by `voxelize`, with `S` = its set of `PrimitiveOnSurface` cells: an in-grid cell is
`PrimitiveOutsideSurface` iff it is connected to a non-surface cell of the grid border through non-surface cells
(`Reach`, 4-connectivity), `PrimitiveInsideSurface` iff it is a non-surface cell **not** so connected — the inside is
exactly the set of enclosed cells — and every cell holds one of the three final values. -/
theorem vox_fill_spec (cfg : Cfg) (hsi : cfg.detectSelfInter = false) (hflood : cfg.flood = true)
    (hcav : cfg.detectCavities = false) (res : Nat) (hres : 1 ≤ res) (p0 : V2 K) (ps : List (V2 K))
    (edges : List (Nat × Nat)) (hp : (voxelize cfg res (p0 :: ps) edges).1.panic = false) :
    ∀ q, InB (voxelize cfg res (p0 :: ps) edges).1.ni (voxelize cfg res (p0 :: ps) edges).1.nj q →
      (getC (voxelize cfg res (p0 :: ps) edges).1.ni (voxelize cfg res (p0 :: ps) edges).1.vals q = .outside ↔
        Reach (voxelize cfg res (p0 :: ps) edges).1.ni (voxelize cfg res (p0 :: ps) edges).1.nj
          (fun c => getC (voxelize cfg res (p0 :: ps) edges).1.ni (voxelize cfg res (p0 :: ps) edges).1.vals c = .surf) q) ∧
      (getC (voxelize cfg res (p0 :: ps) edges).1.ni (voxelize cfg res (p0 :: ps) edges).1.vals q = .inside ↔
        (getC (voxelize cfg res (p0 :: ps) edges).1.ni (voxelize cfg res (p0 :: ps) edges).1.vals q ≠ .surf ∧
         ¬ Reach (voxelize cfg res (p0 :: ps) edges).1.ni (voxelize cfg res (p0 :: ps) edges).1.nj
          (fun c => getC (voxelize cfg res (p0 :: ps) edges).1.ni (voxelize cfg res (p0 :: ps) edges).1.vals c = .surf) q)) ∧
      (getC (voxelize cfg res (p0 :: ps) edges).1.ni (voxelize cfg res (p0 :: ps) edges).1.vals q = .surf ∨
       getC (voxelize cfg res (p0 :: ps) edges).1.ni (voxelize cfg res (p0 :: ps) edges).1.vals q = .outside ∨
       getC (voxelize cfg res (p0 :: ps) edges).1.ni (voxelize cfg res (p0 :: ps) edges).1.vals q = .inside) := by
  obtain ⟨v1, v2, v3, v4, v5, v6, v7, v8⟩ := voxelize_plain cfg hsi res hres p0 ps edges hp
  have hm := markAll_eq cfg res p0 ps edges
  obtain ⟨s1, s2, s3, s4, s5⟩ := markFrom_spec cfg hsi (p0 :: ps).toArray edges (cloudAabb p0 ps).1
    (gridParams res (cloudAabb p0 ps).1 (cloudAabb p0 ps).2).2.2.1 (gridParams res (cloudAabb p0 ps).1 (cloudAabb p0 ps).2).2.2.2
    (gridParams res (cloudAabb p0 ps).1 (cloudAabb p0 ps).2).1 (gridParams res (cloudAabb p0 ps).1 (cloudAabb p0 ps).2).2.1
  rw [← hm] at s1 s2 s3 s4 s5
  obtain ⟨g1, _, _, _⟩ := s5 v1
  obtain ⟨d1, d2⟩ := gridParams_dims res hres (cloudAabb p0 ps).1 (cloudAabb p0 ps).2
  set M := markAll cfg res (p0 :: ps) edges with hM
  obtain ⟨_, _, f3⟩ := fill_spec cfg hflood hcav M.ni M.nj (by rw [s1]; exact d1) (by rw [s2]; exact d2) M.vals g1.size g1.vals
  have hvals : (voxelize cfg res (p0 :: ps) edges).1.vals = (fill cfg M.ni M.nj M.vals).1 := by
    have hvox : voxelize cfg res (p0 :: ps) edges =
      if M.panic then (M, true)
      else ({ M with vals := (fill cfg M.ni M.nj M.vals).1 }, (fill cfg M.ni M.nj M.vals).2) := rfl
    rw [hvox, if_neg (by rw [v1]; simp)]
  intro q hq
  rw [v3, v4] at hq ⊢
  rw [hvals]
  obtain ⟨a1, a2, a3, a4⟩ := f3 q hq
  -- the surface predicate of the result is that of the marking phase
  have hS : ∀ p, Reach M.ni M.nj (fun c => getC M.ni (fill cfg M.ni M.nj M.vals).1 c = .surf) p ↔
      Reach M.ni M.nj (fun c => getC M.ni M.vals c = .surf) p := by
    intro p
    constructor
    · intro h
      induction h with
      | border hb hbd hs => exact Reach.border hb hbd (fun x => hs ((f3 _ hb).1.mpr x))
      | step _ hadj hq' hs ih => exact Reach.step ih hadj hq' (fun x => hs ((f3 _ hq').1.mpr x))
    · intro h
      induction h with
      | border hb hbd hs => exact Reach.border hb hbd (fun x => hs ((f3 _ hb).1.mp x))
      | step _ hadj hq' hs ih => exact Reach.step ih hadj hq' (fun x => hs ((f3 _ hq').1.mp x))
  rw [hS q]
  refine ⟨a2, ?_, a4⟩
  rw [a3]
  constructor
  · rintro ⟨x, y⟩; exact ⟨fun z => x (a1.mp z), y⟩
  · rintro ⟨x, y⟩; exact ⟨fun z => x (a1.mpr z), y⟩

/-- **vox_fuel_ok** (`detect_self_intersections = false`, every `FillMode`, no panic): the fuel the model gives to the
`loop { .. }`s of `propagate_values` and to the inside/outside alternation of `detect_cavities` is never exhausted — the
model's result is the result of the (terminating) Rust loops. -/
theorem vox_fuel_ok (cfg : Cfg) (hsi : cfg.detectSelfInter = false) (res : Nat) (hres : 1 ≤ res) (p0 : V2 K) (ps : List (V2 K))
    (edges : List (Nat × Nat)) (hp : (voxelize cfg res (p0 :: ps) edges).1.panic = false) :
    (voxelize cfg res (p0 :: ps) edges).2 = true :=
  (voxelize_plain cfg hsi res hres p0 ps edges hp).2.1

/-- **vox_set_voxels** (`detect_self_intersections = false`, no panic): the voxel list of `VoxelSet::voxelize` is the list of
the inside and surface cells of the volume in scan order (`i` outer, `j` inner), `is_on_surface` being set exactly on the
surface cells (`classify`); outside / undefined cells are dropped.  (Holds for every volume: `toVoxelSet_voxels`.) -/
theorem vox_set_voxels (cfg : Cfg) (res : Nat) (pts : List (V2 K)) (edges : List (Nat × Nat)) :
    (toVoxelSet (voxelize cfg res pts edges).1).1.toList.map (fun w => ((w.i, w.j), w.surf))
      = (cellsIn 0 0 (voxelize cfg res pts edges).1.ni (voxelize cfg res pts edges).1.nj).filterMap
          (classify (voxelize cfg res pts edges).1.ni (voxelize cfg res pts edges).1.vals) :=
  toVoxelSet_voxels _

/-- **vox_set_map_exact** (`detect_self_intersections = false`, every `FillMode`, `keep_voxel_to_primitives_map`, no
panic, map not empty).  For every surface voxel `w` of `VoxelSet::voxelize(..)`, the slice
`intersections[w.intersections_range]` produced by the counting sort of `From<VoxelizedVolume>` is **exactly** the
increasing list of the primitive indices `k` whose segment has the cell of `w` in its candidate range with a positive
`intersection_test_aabb_segment` (`hitB`) — no primitive missing, none extra, none repeated. -/
theorem vox_set_map_exact (cfg : Cfg) (hsi : cfg.detectSelfInter = false) (hkeep : cfg.keepMap = true) (res : Nat) (hres : 1 ≤ res)
    (p0 : V2 K) (ps : List (V2 K)) (edges : List (Nat × Nat))
    (hp : (voxelize cfg res (p0 :: ps) edges).1.panic = false)
    (hne : (voxelize cfg res (p0 :: ps) edges).1.prims.isEmpty = false) :
    ∀ w ∈ (toVoxelSet (voxelize cfg res (p0 :: ps) edges).1).1.toList, w.surf = true →
      voxelPrims (toVoxelSet (voxelize cfg res (p0 :: ps) edges).1).2 w =
        (edges.zipIdx.filter (fun ek => hitB (p0 :: ps).toArray (cloudAabb p0 ps).1
          (gridParams res (cloudAabb p0 ps).1 (cloudAabb p0 ps).2).2.2.2
          (voxelize cfg res (p0 :: ps) edges).1.ni (voxelize cfg res (p0 :: ps) edges).1.nj ek (w.i, w.j))).map (·.2) := by
  obtain ⟨v1, v2, v3, v4, v5, v6, v7, v8⟩ := voxelize_plain cfg hsi res hres p0 ps edges hp
  have hm := markAll_eq cfg res p0 ps edges
  have hinv := markFrom_inv cfg hsi (p0 :: ps).toArray edges (cloudAabb p0 ps).1
    (gridParams res (cloudAabb p0 ps).1 (cloudAabb p0 ps).2).2.2.1 (gridParams res (cloudAabb p0 ps).1 (cloudAabb p0 ps).2).2.2.2
    (gridParams res (cloudAabb p0 ps).1 (cloudAabb p0 ps).2).1 (gridParams res (cloudAabb p0 ps).1 (cloudAabb p0 ps).2).2.1
  rw [← hm] at hinv
  obtain ⟨_, _, hg, hn⟩ := hinv
  set V := (voxelize cfg res (p0 :: ps) edges).1 with hV
  set M := markAll cfg res (p0 :: ps) edges with hM
  have hnumI : V.numInter = M.numInter := by
    have hvox : voxelize cfg res (p0 :: ps) edges =
      if M.panic then (M, true) else ({ M with vals := (fill cfg M.ni M.nj M.vals).1 }, (fill cfg M.ni M.nj M.vals).2) := rfl
    rw [hV, hvox, if_neg (by rw [v1]; simp)]
  intro w hw hws
  have key := toVoxelSet_map V hne (by rw [hnumI, v3, v4]; exact hn.size)
    (by intro id; rw [hnumI, v7]; exact hn.cnt id)
    (by
      intro pr hpr
      rw [v7] at hpr
      obtain ⟨c, hc, e, hs⟩ := hn.surf pr hpr
      refine ⟨c, by rw [v3, v4]; exact hc, by rw [v3]; exact e, ?_⟩
      rw [v3]; exact (v8 c hc).mpr hs)
    w hw hws
  rw [key, vox_map_exact cfg hsi res hres p0 ps edges hp, hkeep]
  -- the cell of `w` is inside the grid
  have hwin : InB V.ni V.nj (w.i, w.j) := by
    have h1 : ((w.i, w.j), w.surf) ∈ (toVoxelSet V).1.toList.map (fun w => ((w.i, w.j), w.surf)) :=
      List.mem_map.mpr ⟨w, hw, rfl⟩
    rw [toVoxelSet_voxels] at h1
    obtain ⟨c, hc, e⟩ := List.mem_filterMap.mp h1
    have hcin := mem_cellsIn.mp hc
    have : c = (w.i, w.j) := by
      unfold classify at e
      split_ifs at e <;> simp at e <;> exact e.1
    rw [← this]; exact ⟨hcin.1.2, hcin.2.2⟩
  exact flatMap_filter_hits _ _ _ _ _ (w.i, w.j) hwin _

end generic

section field
variable {K : Type} [Field K] [LinearOrder K] [IsStrictOrderedRing K] (sq : K → K) (tr : K → Nat)

/-- the closed world-space square of cell `c`: centre `origin + c · scale`, side `scale` -/
def InCell (origin : V2 K) (scale : K) (c : Nat × Nat) (p : V2 K) : Prop :=
  |p.x - (origin.x + (c.1 : K) * scale)| ≤ scale / 2 ∧ |p.y - (origin.y + (c.2 : K) * scale)| ≤ scale / 2

/-- world ↔ grid: distance to the centre of cell `n` -/
private theorem grid_dist (S INV : K) (hSI : S * INV = 1) (hS : 0 < S) (hI : 0 < INV) (x o : K) (n : Nat) :
    (|x - (o + (n : K) * S)| ≤ S / 2 ↔ |(x - o) * INV - (n : K)| ≤ 1 / 2) := by
  have e : (x - o) * INV - (n : K) = (x - (o + (n : K) * S)) * INV := by
    linear_combination (n : K) * hSI
  rw [e, abs_mul, abs_of_pos hI]
  constructor
  · intro h
    calc |x - (o + (n : K) * S)| * INV ≤ S / 2 * INV := mul_le_mul_of_nonneg_right h hI.le
      _ = 1 / 2 := by linear_combination (1 / 2 : K) * hSI
  · intro h
    have : |x - (o + (n : K) * S)| * INV * S ≤ 1 / 2 * S := mul_le_mul_of_nonneg_right h hS.le
    have e2 : |x - (o + (n : K) * S)| * INV * S = |x - (o + (n : K) * S)| := by
      linear_combination |x - (o + (n : K) * S)| * hSI
    linarith

/-- **vox_meets_imp_surface** (`detect_self_intersections = false`, every `FillMode`, no panic, `resolution ≥ 2`, the points do not all coincide; lawful instance).
If a point `p` of primitive `k` (the closed segment `a b`) lies in the closed world-space square of an in-grid cell `c`,
then `c` is `PrimitiveOnSurface` in the returned volume: the candidate range computed from the end-point cells contains
every cell the segment meets, and the SAT test is complete. -/
theorem vox_meets_imp_surface (hsq : LawfulSqrt sq) (htr : LawfulTrunc tr) (cfg : Cfg) (hsi : cfg.detectSelfInter = false)
    (res : Nat) (hres : 2 ≤ res) (p0 : V2 K) (ps : List (V2 K)) (edges : List (Nat × Nat)) :
    letI := fieldNum K sq; letI := fieldCast tr
    ((cloudAabb p0 ps).1.x < (cloudAabb p0 ps).2.x ∨ (cloudAabb p0 ps).1.y < (cloudAabb p0 ps).2.y) →
    (voxelize cfg res (p0 :: ps) edges).1.panic = false →
    ∀ (k : Nat) (e : Nat × Nat) (a b : V2 K), edges[k]? = some e → (p0 :: ps)[e.1]? = some a → (p0 :: ps)[e.2]? = some b →
    ∀ p, (Segment2.mk a b).Mem p →
    ∀ c, InB (voxelize cfg res (p0 :: ps) edges).1.ni (voxelize cfg res (p0 :: ps) edges).1.nj c →
      InCell (voxelize cfg res (p0 :: ps) edges).1.origin (voxelize cfg res (p0 :: ps) edges).1.scale c p →
      getC (voxelize cfg res (p0 :: ps) edges).1.ni (voxelize cfg res (p0 :: ps) edges).1.vals c = .surf := by
  letI := fieldNum K sq; letI := fieldCast tr
  intro hext hp k e a b hk ha hb p hmem c hc hcell
  obtain ⟨q1, q2, q3, q4, _⟩ := vox_params cfg hsi res (by omega) p0 ps edges hp
  have hiff := vox_surface_iff cfg hsi res (by omega) p0 ps edges hp
  have hbb := cloudAabb_bounds sq p0 ps
  have hba := hbb a (List.mem_of_getElem? ha)
  have hbbb := hbb b (List.mem_of_getElem? hb)
  obtain ⟨hS, hI, hSI, _, _⟩ := gridParams_field sq tr res hres (cloudAabb p0 ps).1 (cloudAabb p0 ps).2
    (le_trans hba.1.1 hba.1.2) (le_trans hba.2.1 hba.2.2) hext
  obtain ⟨t, ht0, ht1, rfl⟩ := hmem
  rw [q3, q4] at hcell
  set O := (cloudAabb p0 ps).1 with hO
  set S := (gridParams res (cloudAabb p0 ps).1 (cloudAabb p0 ps).2).2.2.1 with hSdef
  set INV := (gridParams res (cloudAabb p0 ps).1 (cloudAabb p0 ps).2).2.2.2 with hIdef
  have hx := (grid_dist S INV hSI hS hI _ O.x c.1).mp hcell.1
  have hy := (grid_dist S INV hSI hS hI _ O.y c.2).mp hcell.2
  simp only [V2.add, V2.sub, V2.smul] at hx hy
  have ex : (a.x + (b.x - a.x) * t - O.x) * INV = (gridPt O INV a).x + ((gridPt O INV b).x - (gridPt O INV a).x) * t := by
    simp only [gridPt, V2.sub, V2.smul]; ring
  have ey : (a.y + (b.y - a.y) * t - O.y) * INV = (gridPt O INV a).y + ((gridPt O INV b).y - (gridPt O INV a).y) * t := by
    simp only [gridPt, V2.sub, V2.smul]; ring
  rw [ex] at hx; rw [ey] at hy
  have n0x : 0 ≤ (gridPt O INV a).x := by simp only [gridPt, V2.sub, V2.smul]; exact mul_nonneg (by linarith [hba.1.1]) hI.le
  have n0y : 0 ≤ (gridPt O INV a).y := by simp only [gridPt, V2.sub, V2.smul]; exact mul_nonneg (by linarith [hba.2.1]) hI.le
  have n1x : 0 ≤ (gridPt O INV b).x := by simp only [gridPt, V2.sub, V2.smul]; exact mul_nonneg (by linarith [hbbb.1.1]) hI.le
  have n1y : 0 ≤ (gridPt O INV b).y := by simp only [gridPt, V2.sub, V2.smul]; exact mul_nonneg (by linarith [hbbb.2.1]) hI.le
  apply (hiff c hc).mpr
  exact ⟨k, e, a, b, hk, ha, hb,
    range_complete sq tr htr _ _ _ _ n0x n0y n1x n1y t ht0 ht1 c hc hx hy,
    cellHit_complete sq tr hsq _ _ t ht0 ht1 c hx hy⟩

/-- **vox_points_covered** (clause "every input point lies in a surface voxel"; `detect_self_intersections = false`,
every `FillMode`, no panic, `resolution ≥ 2`,
the points do not all coincide; lawful instance).  Every point `p` of every primitive (closed segment `a b`, in particular
its two vertices) lies in the closed world-space square of an in-grid cell that is `PrimitiveOnSurface` in the returned
volume — namely the cell `⌊(p − origin)/scale + ½⌋`, which is inside the grid because the `assert!`s passed. -/
theorem vox_points_covered (hsq : LawfulSqrt sq) (htr : LawfulTrunc tr) (cfg : Cfg) (hsi : cfg.detectSelfInter = false)
    (res : Nat) (hres : 2 ≤ res) (p0 : V2 K) (ps : List (V2 K)) (edges : List (Nat × Nat)) :
    letI := fieldNum K sq; letI := fieldCast tr
    ((cloudAabb p0 ps).1.x < (cloudAabb p0 ps).2.x ∨ (cloudAabb p0 ps).1.y < (cloudAabb p0 ps).2.y) →
    (voxelize cfg res (p0 :: ps) edges).1.panic = false →
    ∀ (k : Nat) (e : Nat × Nat) (a b : V2 K), edges[k]? = some e → (p0 :: ps)[e.1]? = some a → (p0 :: ps)[e.2]? = some b →
    ∀ p, (Segment2.mk a b).Mem p →
    ∃ c, InB (voxelize cfg res (p0 :: ps) edges).1.ni (voxelize cfg res (p0 :: ps) edges).1.nj c ∧
      InCell (voxelize cfg res (p0 :: ps) edges).1.origin (voxelize cfg res (p0 :: ps) edges).1.scale c p ∧
      getC (voxelize cfg res (p0 :: ps) edges).1.ni (voxelize cfg res (p0 :: ps) edges).1.vals c = .surf := by
  letI := fieldNum K sq; letI := fieldCast tr
  intro hext hp k e a b hk ha hb p hmem
  obtain ⟨q1, q2, q3, q4, q5⟩ := vox_params cfg hsi res (by omega) p0 ps edges hp
  have hbb := cloudAabb_bounds sq p0 ps
  have hba := hbb a (List.mem_of_getElem? ha)
  have hbbb := hbb b (List.mem_of_getElem? hb)
  obtain ⟨hS, hI, hSI, _, _⟩ := gridParams_field sq tr res hres (cloudAabb p0 ps).1 (cloudAabb p0 ps).2
    (le_trans hba.1.1 hba.1.2) (le_trans hba.2.1 hba.2.2) hext
  obtain ⟨a', b', ha', hb', hok⟩ := q5 k e hk
  rw [ha] at ha'; rw [hb] at hb'; cases ha'; cases hb'
  have hmem' := hmem
  obtain ⟨t, ht0, ht1, rfl⟩ := hmem
  set O := (cloudAabb p0 ps).1 with hO
  set S := (gridParams res (cloudAabb p0 ps).1 (cloudAabb p0 ps).2).2.2.1 with hSdef
  set INV := (gridParams res (cloudAabb p0 ps).1 (cloudAabb p0 ps).2).2.2.2 with hIdef
  -- grid coordinates of the point and of the end points
  have n0x : 0 ≤ (a.x - O.x) * INV := mul_nonneg (by linarith [hba.1.1]) hI.le
  have n0y : 0 ≤ (a.y - O.y) * INV := mul_nonneg (by linarith [hba.2.1]) hI.le
  have n1x : 0 ≤ (b.x - O.x) * INV := mul_nonneg (by linarith [hbbb.1.1]) hI.le
  have n1y : 0 ≤ (b.y - O.y) * INV := mul_nonneg (by linarith [hbbb.2.1]) hI.le
  obtain ⟨cx1, cx2⟩ := conv_between ((a.x - O.x) * INV) ((b.x - O.x) * INV) t ht0 ht1
  obtain ⟨cy1, cy2⟩ := conv_between ((a.y - O.y) * INV) ((b.y - O.y) * INV) t ht0 ht1
  set qx := (a.x - O.x) * INV + ((b.x - O.x) * INV - (a.x - O.x) * INV) * t with hqx
  set qy := (a.y - O.y) * INV + ((b.y - O.y) * INV - (a.y - O.y) * INV) * t with hqy
  have qx0 : 0 ≤ qx := le_trans (le_min n0x n1x) cx1
  have qy0 : 0 ≤ qy := le_trans (le_min n0y n1y) cy1
  have hokx : tr (qx + 1 / 2) < (voxelize cfg res (p0 :: ps) edges).1.ni := by
    simp only [AssertOk, cellOf_field, gridPt, V2.sub, V2.smul] at hok
    rcases le_total ((a.x - O.x) * INV) ((b.x - O.x) * INV) with h | h
    · rw [max_eq_right h] at cx2
      exact lt_of_le_of_lt (tr_mono htr (by linarith) (by linarith)) hok.2.2.1
    · rw [max_eq_left h] at cx2
      exact lt_of_le_of_lt (tr_mono htr (by linarith) (by linarith)) hok.1
  have hoky : tr (qy + 1 / 2) < (voxelize cfg res (p0 :: ps) edges).1.nj := by
    simp only [AssertOk, cellOf_field, gridPt, V2.sub, V2.smul] at hok
    rcases le_total ((a.y - O.y) * INV) ((b.y - O.y) * INV) with h | h
    · rw [max_eq_right h] at cy2
      exact lt_of_le_of_lt (tr_mono htr (by linarith) (by linarith)) hok.2.2.2
    · rw [max_eq_left h] at cy2
      exact lt_of_le_of_lt (tr_mono htr (by linarith) (by linarith)) hok.2.1
  have hcell : InCell (voxelize cfg res (p0 :: ps) edges).1.origin (voxelize cfg res (p0 :: ps) edges).1.scale
      (tr (qx + 1 / 2), tr (qy + 1 / 2)) (a.add ((b.sub a).smul t)) := by
    rw [q3, q4]
    constructor
    · apply (grid_dist S INV hSI hS hI _ O.x _).mpr
      have e : ((a.add ((b.sub a).smul t)).x - O.x) * INV = qx := by
        simp only [V2.add, V2.sub, V2.smul, hqx]; ring
      rw [e]
      show |qx - (tr (qx + 1 / 2) : K)| ≤ 1 / 2
      exact abs_le.mpr ⟨by linarith [htr.le (qx + 1 / 2) (by linarith)], by linarith [htr.lt (qx + 1 / 2) (by linarith)]⟩
    · apply (grid_dist S INV hSI hS hI _ O.y _).mpr
      have e : ((a.add ((b.sub a).smul t)).y - O.y) * INV = qy := by
        simp only [V2.add, V2.sub, V2.smul, hqy]; ring
      rw [e]
      show |qy - (tr (qy + 1 / 2) : K)| ≤ 1 / 2
      exact abs_le.mpr ⟨by linarith [htr.le (qy + 1 / 2) (by linarith)], by linarith [htr.lt (qy + 1 / 2) (by linarith)]⟩
  exact ⟨(tr (qx + 1 / 2), tr (qy + 1 / 2)), ⟨hokx, hoky⟩, hcell,
    vox_meets_imp_surface sq tr hsq htr cfg hsi res hres p0 ps edges hext hp k e a b hk ha hb _ hmem' _ ⟨hokx, hoky⟩ hcell⟩

/-- **vox_no_panic** (lawful instance): on a valid input — every primitive index in range, `resolution ≥ 2`, the points
do not all coincide — `VoxelizedVolume::voxelize` hits none of its panic sites (`detect_self_intersections = false`): the index computed for a
vertex, `((p − origin)·inv_scale + ½) as u32`, is always `< resolution[axis]`, so both `assert!`s hold.  (This discharges
the hypothesis `panic = false` of the other theorems.) -/
theorem vox_no_panic (htr : LawfulTrunc tr) (cfg : Cfg) (hsi : cfg.detectSelfInter = false)
    (res : Nat) (hres : 2 ≤ res) (p0 : V2 K) (ps : List (V2 K)) (edges : List (Nat × Nat)) :
    letI := fieldNum K sq; letI := fieldCast tr
    ((cloudAabb p0 ps).1.x < (cloudAabb p0 ps).2.x ∨ (cloudAabb p0 ps).1.y < (cloudAabb p0 ps).2.y) →
    (∀ e ∈ edges, e.1 < (p0 :: ps).length ∧ e.2 < (p0 :: ps).length) →
    (voxelize cfg res (p0 :: ps) edges).1.panic = false := by
  letI := fieldNum K sq; letI := fieldCast tr
  intro hext hidx
  have hvp : (voxelize cfg res (p0 :: ps) edges).1.panic = (markAll cfg res (p0 :: ps) edges).panic := by
    have hvox : voxelize cfg res (p0 :: ps) edges =
      if (markAll cfg res (p0 :: ps) edges).panic then (markAll cfg res (p0 :: ps) edges, true)
      else ({ markAll cfg res (p0 :: ps) edges with
                vals := (fill cfg (markAll cfg res (p0 :: ps) edges).ni (markAll cfg res (p0 :: ps) edges).nj (markAll cfg res (p0 :: ps) edges).vals).1 },
            (fill cfg (markAll cfg res (p0 :: ps) edges).ni (markAll cfg res (p0 :: ps) edges).nj (markAll cfg res (p0 :: ps) edges).vals).2) := rfl
    rw [hvox]; split_ifs <;> rfl
  rw [hvp, markAll_eq]
  unfold markFrom
  have hbb := cloudAabb_bounds sq p0 ps
  apply markEdges_no_panic cfg hsi _ _ _ _ (allocate_good _ _ _ _) rfl
  intro ek hek
  obtain ⟨e, k⟩ := ek
  have he : e ∈ edges := List.mem_of_getElem? (List.mem_zipIdx_iff_getElem?.mp hek)
  obtain ⟨h1, h2⟩ := hidx e he
  have ha : (p0 :: ps)[e.1]? = some ((p0 :: ps)[e.1]'h1) := List.getElem?_eq_getElem h1
  have hb : (p0 :: ps)[e.2]? = some ((p0 :: ps)[e.2]'h2) := List.getElem?_eq_getElem h2
  have hba := hbb _ (List.getElem_mem h1)
  have hbbb := hbb _ (List.getElem_mem h2)
  refine ⟨(p0 :: ps)[e.1]'h1, (p0 :: ps)[e.2]'h2, by simpa using ha, by simpa using hb, ?_⟩
  have A := assert_ok_field sq tr htr res hres (cloudAabb p0 ps).1 (cloudAabb p0 ps).2 _ hba.1 hba.2 hext
  have B := assert_ok_field sq tr htr res hres (cloudAabb p0 ps).1 (cloudAabb p0 ps).2 _ hbbb.1 hbbb.2 hext
  exact ⟨A.1, A.2, B.1, B.2⟩

/-- **vox_surface_meets** (geometric soundness of the surface marking; `detect_self_intersections = false`, every
`FillMode`, no panic, `resolution ≥ 2`, the points
do not all coincide; lawful instance).  If an in-grid cell `c` is `PrimitiveOnSurface` in the returned volume then some
primitive `k` (segment `a b`) has a positive test on it, and — provided that segment is degenerate or longer than
`DEFAULT_EPSILON` voxels — a point of the segment lies in the closed world-space square of `c`.  (For a non-degenerate
segment of at most `ε` voxels the code drops the segment-normal axis: the statement is then only the AABB overlap.) -/
theorem vox_surface_meets (hsq : LawfulSqrt sq) (htr : LawfulTrunc tr) (cfg : Cfg) (hsi : cfg.detectSelfInter = false)
    (res : Nat) (hres : 2 ≤ res) (p0 : V2 K) (ps : List (V2 K)) (edges : List (Nat × Nat)) :
    letI := fieldNum K sq; letI := fieldCast tr
    ((cloudAabb p0 ps).1.x < (cloudAabb p0 ps).2.x ∨ (cloudAabb p0 ps).1.y < (cloudAabb p0 ps).2.y) →
    (voxelize cfg res (p0 :: ps) edges).1.panic = false →
    ∀ c, InB (voxelize cfg res (p0 :: ps) edges).1.ni (voxelize cfg res (p0 :: ps) edges).1.nj c →
      getC (voxelize cfg res (p0 :: ps) edges).1.ni (voxelize cfg res (p0 :: ps) edges).1.vals c = .surf →
      ∃ (k : Nat) (e : Nat × Nat) (a b : V2 K), edges[k]? = some e ∧ (p0 :: ps)[e.1]? = some a ∧ (p0 :: ps)[e.2]? = some b ∧
        ((a = b ∨ (eps * (voxelize cfg res (p0 :: ps) edges).1.scale) * (eps * (voxelize cfg res (p0 :: ps) edges).1.scale)
            < (b.x - a.x) * (b.x - a.x) + (b.y - a.y) * (b.y - a.y)) →
          ∃ p, (Segment2.mk a b).Mem p ∧
            InCell (voxelize cfg res (p0 :: ps) edges).1.origin (voxelize cfg res (p0 :: ps) edges).1.scale c p) := by
  letI := fieldNum K sq; letI := fieldCast tr
  intro hext hp c hc hsurf
  obtain ⟨q1, q2, q3, q4, _⟩ := vox_params cfg hsi res (by omega) p0 ps edges hp
  have hiff := vox_surface_iff cfg hsi res (by omega) p0 ps edges hp
  obtain ⟨k, e, a, b, hk, ha, hb, _, hhit⟩ := (hiff c hc).mp hsurf
  refine ⟨k, e, a, b, hk, ha, hb, fun hlen => ?_⟩
  have hbb := cloudAabb_bounds sq p0 ps
  have hba := hbb a (List.mem_of_getElem? ha)
  obtain ⟨hS, hI, hSI, _, _⟩ := gridParams_field sq tr res hres (cloudAabb p0 ps).1 (cloudAabb p0 ps).2
    (le_trans hba.1.1 hba.1.2) (le_trans hba.2.1 hba.2.2) hext
  rw [q4] at hlen
  rw [q3, q4]
  set O := (cloudAabb p0 ps).1 with hO
  set S := (gridParams res (cloudAabb p0 ps).1 (cloudAabb p0 ps).2).2.2.1 with hSdef
  set INV := (gridParams res (cloudAabb p0 ps).1 (cloudAabb p0 ps).2).2.2.2 with hIdef
  unfold cellHit at hhit
  rw [cellAabb_field sq tr] at hhit
  simp only [] at hhit
  -- the grid-space segment is degenerate or longer than ε
  have hlen' : gridPt O INV a = gridPt O INV b ∨
      @eps K (fieldNum K sq) * @eps K (fieldNum K sq) <
        ((gridPt O INV b).y - (gridPt O INV a).y) * ((gridPt O INV b).y - (gridPt O INV a).y) +
        -((gridPt O INV b).x - (gridPt O INV a).x) * -((gridPt O INV b).x - (gridPt O INV a).x) := by
    rcases hlen with rfl | h
    · left; rfl
    · right
      simp only [gridPt, V2.sub, V2.smul]
      have e1 : ((b.y - O.y) * INV - (a.y - O.y) * INV) * ((b.y - O.y) * INV - (a.y - O.y) * INV) +
          -((b.x - O.x) * INV - (a.x - O.x) * INV) * -((b.x - O.x) * INV - (a.x - O.x) * INV)
          = ((b.x - a.x) * (b.x - a.x) + (b.y - a.y) * (b.y - a.y)) * (INV * INV) := by ring
      rw [e1]
      have e2 : @eps K (fieldNum K sq) * @eps K (fieldNum K sq)
          = (@eps K (fieldNum K sq) * S) * (@eps K (fieldNum K sq) * S) * (INV * INV) := by
        have : S * INV * (S * INV) = 1 := by rw [hSI]; ring
        linear_combination (-(@eps K (fieldNum K sq) * @eps K (fieldNum K sq))) * this
      rw [e2]
      exact mul_lt_mul_of_pos_right h (mul_pos hI hI)
  obtain ⟨gq, ⟨⟨x1, x2⟩, ⟨y1, y2⟩⟩, t, ht0, ht1, rfl⟩ := segtest_sound sq hsq _ _ (gridPt O INV a) (gridPt O INV b)
    (by simp only []; linarith) (by simp only []; linarith) hlen' hhit
  refine ⟨a.add ((b.sub a).smul t), ⟨t, ht0, ht1, rfl⟩, ?_⟩
  simp only [V2.add, V2.sub, V2.smul, gridPt] at x1 x2 y1 y2
  constructor
  · apply (grid_dist S INV hSI hS hI _ O.x _).mpr
    simp only [V2.add, V2.sub, V2.smul]
    have e : (a.x + (b.x - a.x) * t - O.x) * INV = (a.x - O.x) * INV + ((b.x - O.x) * INV - (a.x - O.x) * INV) * t := by ring
    rw [e]
    exact abs_le.mpr ⟨by linarith, by linarith⟩
  · apply (grid_dist S INV hSI hS hI _ O.y _).mpr
    simp only [V2.add, V2.sub, V2.smul]
    have e : (a.y + (b.y - a.y) * t - O.y) * INV = (a.y - O.y) * INV + ((b.y - O.y) * INV - (a.y - O.y) * INV) * t := by ring
    rw [e]
    exact abs_le.mpr ⟨by linarith, by linarith⟩

end field
/-! ### non-vacuity -/

/-- non-vacuity of `LawfulTrunc`: in any floor ring, `x ↦ ⌊x⌋.toNat` (what `x as u32` is below `2^32`) is lawful -/
theorem lawfulTrunc_floor {K : Type} [Field K] [LinearOrder K] [IsStrictOrderedRing K] [FloorRing K] :
    LawfulTrunc (K := K) (fun x => ⌊x⌋.toNat) := by
  constructor
  · intro x hx
    have h0 : 0 ≤ ⌊x⌋ := Int.floor_nonneg.mpr hx
    have : ((⌊x⌋.toNat : ℕ) : K) = ((⌊x⌋ : ℤ) : K) := by
      rw [← Int.cast_natCast, Int.toNat_of_nonneg h0]
    rw [this]; exact Int.floor_le x
  · intro x hx
    have h0 : 0 ≤ ⌊x⌋ := Int.floor_nonneg.mpr hx
    have : ((⌊x⌋.toNat : ℕ) : K) = ((⌊x⌋ : ℤ) : K) := by
      rw [← Int.cast_natCast, Int.toNat_of_nonneg h0]
    rw [this]; exact Int.lt_floor_add_one x

example : LawfulSqrt Real.sqrt ∧ LawfulTrunc (K := ℝ) (fun x => ⌊x⌋.toNat) :=
  ⟨⟨fun x _ => Real.sqrt_nonneg x, fun _ hx => Real.mul_self_sqrt hx⟩, lawfulTrunc_floor⟩

/-- all hypotheses of the theorems are jointly satisfiable: the 4×2 rectangle at resolution 5, flood fill, map kept -/
example :
    letI := fieldNum ℝ Real.sqrt; letI := fieldCast (K := ℝ) (fun x => ⌊x⌋.toNat)
    ((cloudAabb (⟨0, 0⟩ : V2 ℝ) [⟨4, 0⟩, ⟨4, 2⟩, ⟨0, 2⟩]).1.x < (cloudAabb (⟨0, 0⟩ : V2 ℝ) [⟨4, 0⟩, ⟨4, 2⟩, ⟨0, 2⟩]).2.x ∨
     (cloudAabb (⟨0, 0⟩ : V2 ℝ) [⟨4, 0⟩, ⟨4, 2⟩, ⟨0, 2⟩]).1.y < (cloudAabb (⟨0, 0⟩ : V2 ℝ) [⟨4, 0⟩, ⟨4, 2⟩, ⟨0, 2⟩]).2.y) ∧
    (∀ e ∈ [(0, 1), (1, 2), (2, 3), (3, 0)], e.1 < ((⟨0, 0⟩ : V2 ℝ) :: [⟨4, 0⟩, ⟨4, 2⟩, ⟨0, 2⟩]).length ∧
      e.2 < ((⟨0, 0⟩ : V2 ℝ) :: [⟨4, 0⟩, ⟨4, 2⟩, ⟨0, 2⟩]).length) ∧
    (voxelize ⟨true, false, false, true⟩ 5 ((⟨0, 0⟩ : V2 ℝ) :: [⟨4, 0⟩, ⟨4, 2⟩, ⟨0, 2⟩]) [(0, 1), (1, 2), (2, 3), (3, 0)]).1.panic = false := by
  letI := fieldNum ℝ Real.sqrt; letI := fieldCast (K := ℝ) (fun x => ⌊x⌋.toNat)
  have h1' : (⟨true, false, false, true⟩ : Cfg).detectSelfInter = false := rfl
  have h2 : ((cloudAabb (⟨0, 0⟩ : V2 ℝ) [⟨4, 0⟩, ⟨4, 2⟩, ⟨0, 2⟩]).1.x < (cloudAabb (⟨0, 0⟩ : V2 ℝ) [⟨4, 0⟩, ⟨4, 2⟩, ⟨0, 2⟩]).2.x ∨
     (cloudAabb (⟨0, 0⟩ : V2 ℝ) [⟨4, 0⟩, ⟨4, 2⟩, ⟨0, 2⟩]).1.y < (cloudAabb (⟨0, 0⟩ : V2 ℝ) [⟨4, 0⟩, ⟨4, 2⟩, ⟨0, 2⟩]).2.y) := by
    left
    simp only [cloudAabb, List.foldl_cons, List.foldl_nil, V2.inf, V2.sup, fieldNum_nmin, fieldNum_nmax]
    norm_num
  have h3 : ∀ e ∈ [(0, 1), (1, 2), (2, 3), (3, 0)], e.1 < ((⟨0, 0⟩ : V2 ℝ) :: [⟨4, 0⟩, ⟨4, 2⟩, ⟨0, 2⟩]).length ∧
      e.2 < ((⟨0, 0⟩ : V2 ℝ) :: [⟨4, 0⟩, ⟨4, 2⟩, ⟨0, 2⟩]).length := by
    intro e he; simp at he; rcases he with rfl | rfl | rfl | rfl <;> simp
  exact ⟨h2, h3, vox_no_panic Real.sqrt _ lawfulTrunc_floor _ h1' 5 (by norm_num) _ _ _ h2 h3⟩
end C18
