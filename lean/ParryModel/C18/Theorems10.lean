import ParryModel.C18.ModelSet3
import ParryModel.C18.Theorems7
/-!
# C18 theorems, part 10: the 3-D `VoxelSet` built from the volume lists exactly the inside and surface cells, once each,
in scan order
-/
set_option linter.unusedSectionVars false
set_option linter.unusedVariables false
namespace C18
open Model Model.Vox Model.Vox3

/-- what `From<VoxelizedVolume>` does with one cell -/
def classify3 (ni nj : Nat) (vals : Array VV) (c : Nat × Nat × Nat) : Option Voxel :=
  if getC3 ni nj vals c = .inside then some ⟨c.1, c.2.1, c.2.2, false⟩
  else if getC3 ni nj vals c = .surf then some ⟨c.1, c.2.1, c.2.2, true⟩
  else none

private theorem foldl_fromCell3 (ni nj : Nat) (vals : Array VV) : ∀ (l : List (Nat × Nat × Nat)) (acc : Array Voxel),
    (l.foldl (fromCell3 ni nj vals) acc).toList = acc.toList ++ l.filterMap (classify3 ni nj vals)
  | [], acc => by simp
  | c :: l, acc => by
    rw [List.foldl_cons, foldl_fromCell3 ni nj vals l]
    unfold fromCell3 classify3 getC3
    simp only [List.filterMap_cons]
    split_ifs <;> simp

private theorem cellsIn3_nodup (i0 j0 k0 i1 j1 k1 : Nat) : (cellsIn3 i0 j0 k0 i1 j1 k1).Nodup := by
  unfold cellsIn3
  rw [List.nodup_flatMap]
  constructor
  · intro i _
    rw [List.nodup_flatMap]
    constructor
    · intro j _
      exact (List.nodup_range' (step := 1) (by omega)).map (fun a b h => by simpa using h)
    · apply List.Pairwise.imp _ (List.nodup_range' (s := j0) (n := j1 - j0) (step := 1) (by omega))
      intro a b hab
      simp only [Function.onFun, List.disjoint_left, List.mem_map]
      rintro x ⟨k, _, rfl⟩ ⟨k', _, h⟩
      exact hab (by simpa using (congrArg (fun p => p.2.1) h).symm)
  · apply List.Pairwise.imp _ (List.nodup_range' (s := i0) (n := i1 - i0) (step := 1) (by omega))
    intro a b hab
    simp only [Function.onFun, List.disjoint_left, List.mem_flatMap, List.mem_map]
    rintro x ⟨j, _, k, _, rfl⟩ ⟨j', _, k', _, h⟩
    exact hab (by simpa using (congrArg Prod.fst h).symm)

/-- **vox3_set_voxels**: the voxel list of the 3-D `VoxelSet` built from a volume is the list of its
`PrimitiveInsideSurface` and `PrimitiveOnSurface` cells in scan order (`i` outer, `k` inner), `is_on_surface` set exactly
on the surface cells; every other value (outside, undefined, the `..ToWalk` marks) is dropped.  Holds for every volume. -/
theorem vox3_set_voxels (ni nj nk : Nat) (vals : Array VV) :
    (toVoxelSet3 ni nj nk vals).toList = (cellsIn3 0 0 0 ni nj nk).filterMap (classify3 ni nj vals) := by
  unfold toVoxelSet3
  rw [foldl_fromCell3]; simp

/-- **vox3_set_mem**: a voxel `(i, j, k, s)` is in the set iff the cell is inside the grid and either holds
`PrimitiveInsideSurface` (then `s = false`) or `PrimitiveOnSurface` (then `s = true`). -/
theorem vox3_set_mem (ni nj nk : Nat) (vals : Array VV) (w : Voxel) :
    w ∈ (toVoxelSet3 ni nj nk vals).toList ↔
      InB3 ni nj nk (w.i, w.j, w.k) ∧
      ((getC3 ni nj vals (w.i, w.j, w.k) = .inside ∧ w.surf = false) ∨
       (getC3 ni nj vals (w.i, w.j, w.k) = .surf ∧ w.surf = true)) := by
  rw [vox3_set_voxels, List.mem_filterMap]
  constructor
  · rintro ⟨c, hc, e⟩
    have hin := mem_cellsIn3.mp hc
    unfold classify3 at e
    split_ifs at e with h1 h2
    · cases e; exact ⟨⟨hin.1.2, hin.2.1.2, hin.2.2.2⟩, Or.inl ⟨h1, rfl⟩⟩
    · cases e; exact ⟨⟨hin.1.2, hin.2.1.2, hin.2.2.2⟩, Or.inr ⟨h2, rfl⟩⟩
  · rintro ⟨hb, h⟩
    refine ⟨(w.i, w.j, w.k), mem_cellsIn3.mpr ⟨⟨Nat.zero_le _, hb.1⟩, ⟨Nat.zero_le _, hb.2.1⟩, ⟨Nat.zero_le _, hb.2.2⟩⟩, ?_⟩
    unfold classify3
    rcases h with ⟨h1, h2⟩ | ⟨h1, h2⟩
    · rw [if_pos h1]; cases w; simp_all
    · have : ¬ getC3 ni nj vals (w.i, w.j, w.k) = .inside := by rw [h1]; decide
      rw [if_neg this, if_pos h1]; cases w; simp_all

/-- **vox3_set_nodup**: no cell is listed twice (the coordinates of the voxel list are pairwise distinct). -/
theorem vox3_set_nodup (ni nj nk : Nat) (vals : Array VV) :
    ((toVoxelSet3 ni nj nk vals).toList.map Voxel.coords).Nodup := by
  rw [vox3_set_voxels]
  have hco : ∀ c w, classify3 ni nj vals c = some w → w.coords = c := by
    intro c w h
    unfold classify3 at h
    split_ifs at h <;> cases h <;> rfl
  have hsub : ∀ l : List (Nat × Nat × Nat), (l.filterMap (classify3 ni nj vals)).map Voxel.coords
      = l.filter (fun c => (classify3 ni nj vals c).isSome) := by
    intro l
    induction l with
    | nil => rfl
    | cons c l ih =>
      rw [List.filterMap_cons, List.filter_cons]
      cases hcl : classify3 ni nj vals c with
      | none => simp [ih]
      | some w => simp [ih, hco c w hcl]
  rw [hsub]
  exact (cellsIn3_nodup 0 0 0 ni nj nk).filter _

/-- **vox3_set_is_fill** (`VoxelSet::voxelize`, flood fill without cavity detection, no panic, `resolution ≥ 1`): the
voxel set consists exactly of the surface cells (flag set) and of the enclosed cells (flag clear): a non-surface cell is
listed iff it is NOT connected to a non-surface cell of one of the six faces of the grid through non-surface cells. -/
theorem vox3_set_is_fill {K : Type} [Num K] [Cast K] (res : Nat) (hres : 1 ≤ res) (p0 : V3 K) (ps : List (V3 K))
    (tris : List (Nat × Nat × Nat)) (V : Vol3 K) (hV : (voxelize3 true false res p0 ps tris).1 = V) (hp : V.panic = false)
    (w : Voxel) :
    w ∈ voxelSet3 true false res p0 ps tris ↔
      InB3 V.ni V.nj V.nk (w.i, w.j, w.k) ∧
      ((w.surf = true ∧ getC3 V.ni V.nj V.vals (w.i, w.j, w.k) = .surf) ∨
       (w.surf = false ∧ getC3 V.ni V.nj V.vals (w.i, w.j, w.k) ≠ .surf ∧
         ¬ Reach3 V.ni V.nj V.nk (fun c => getC3 V.ni V.nj V.vals c = .surf) (w.i, w.j, w.k))) := by
  unfold voxelSet3
  rw [hV, vox3_set_mem]
  constructor
  · rintro ⟨hb, h⟩
    refine ⟨hb, ?_⟩
    have hf := (vox3_fill_spec res hres p0 ps tris V hV hp (w.i, w.j, w.k) hb)
    rcases h with ⟨h1, h2⟩ | ⟨h1, h2⟩
    · exact Or.inr ⟨h2, (hf.2.1.mp h1).1, (hf.2.1.mp h1).2⟩
    · exact Or.inl ⟨h2, h1⟩
  · rintro ⟨hb, h⟩
    refine ⟨hb, ?_⟩
    have hf := (vox3_fill_spec res hres p0 ps tris V hV hp (w.i, w.j, w.k) hb)
    rcases h with ⟨h1, h2⟩ | ⟨h1, h2, h3⟩
    · exact Or.inr ⟨h2, h1⟩
    · exact Or.inl ⟨hf.2.1.mpr ⟨h2, h3⟩, h1⟩

end C18
