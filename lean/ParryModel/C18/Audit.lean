import ParryModel.C18.Theorems
#print axioms C18.clip_perm
#print axioms C18.clip_surface_mono
#print axioms C18.process_perm
#print axioms C18.foldl_perm
#print axioms C18.loop_perm
#print axioms C18.acd_partition
#print axioms C18.acd_disjoint
#print axioms C18.loop_count
#print axioms C18.acd_count_depth
#print axioms C18.depth_bound
#print axioms C18.acd_count
#print axioms C18.segtest_iff_sat
#print axioms C18.segtest_complete
#print axioms C18.segtest_sound
#print axioms C18.propagate_fuel_suffices
#print axioms C18.fill_spec
