import ParryModel.C18.Model
/-!
# C18 model, part 2: the volume / sampling / plane-generation helpers of the VHACD loop (3-D text)

`VoxelSet::{voxel_volume, compute_volume, map_voxel_points, intersect, compute_clipped_volumes,
select_on_surface, compute_bb, compute_axes_aligned_clipping_planes}` and
`VHACD::{refine_axes_aligned_clipping_planes, compute_preferred_cutting_direction}`.

Conventions: `u32`/`usize` are `Nat` (no wrap-around: `sp += 1`, `index + downsampling` overflow only
beyond `2^32`); `x as Real` of an integer is `lit x`; `&mut Vec` outputs are returned (input `planes`
is extended at the end, as `push` does).
-/
namespace Model
variable {K : Type} [Num K]

/-- `VoxelSet::voxel_volume` (dim3): `scale * scale * scale`, left-associated. -/
def voxelVolume (scale : K) : K := scale * scale * scale

/-- `VoxelSet::compute_volume`: `voxel_volume() * len as Real`. -/
def computeVolume (scale : K) (vs : List Voxel) : K := voxelVolume scale * lit vs.length

/-- the `shifts` array of `VoxelSet::map_voxel_points` (dim3), in the code's order. -/
def voxelShifts : List (V3 K) :=
  let p : K := lit 1 2
  let m : K := lit (-1) 2
  [⟨m, m, m⟩, ⟨p, m, m⟩, ⟨p, p, m⟩, ⟨m, p, m⟩, ⟨m, m, p⟩, ⟨p, m, p⟩, ⟨p, p, p⟩, ⟨m, p, p⟩]

/-- `VoxelSet::map_voxel_points`: the 8 corners `origin + (ijk + shift) * scale`, in the order `f` is called. -/
def mapVoxelPoints (origin : V3 K) (scale : K) (v : Voxel) : List (V3 K) :=
  let ijk : V3 K := ⟨lit v.i, lit v.j, lit v.k⟩
  (voxelShifts (K := K)).map fun shift => origin.add ((ijk.add shift).smul scale)

/-- loop state of `VoxelSet::intersect`: the two output vectors and the counters `sp`, `sn`. -/
structure IntersectState (K : Type) where
  pos : List (V3 K)
  neg : List (V3 K)
  sp : Nat
  sn : Nat

/-- signed distance used by `clip`, `intersect` and `compute_clipped_volumes`:
`plane.abc.dot(&pt.coords) + plane.d` with `pt = get_voxel_point(voxel)`. -/
def planeDist (origin : V3 K) (scale : K) (pl : CutPlane K) (v : Voxel) : K :=
  pl.abc.dot (voxelPoint origin scale v) + pl.d

/-- one iteration of the `for v in 0..num_voxels` loop of `VoxelSet::intersect`. -/
def intersectStep (origin : V3 K) (scale : K) (pl : CutPlane K) (sampling : Nat)
    (st : IntersectState K) (v : Voxel) : IntersectState K :=
  let d := planeDist origin scale pl v
  let d0 := scale
  if 0 ≤ d then
    if d ≤ d0 then { st with pos := st.pos ++ mapVoxelPoints origin scale v }
    else
      let sp := st.sp + 1
      if sp = sampling then { st with pos := st.pos ++ mapVoxelPoints origin scale v, sp := 0 }
      else { st with sp := sp }
  else if -d ≤ d0 then { st with neg := st.neg ++ mapVoxelPoints origin scale v }
  else
    let sn := st.sn + 1
    if sn = sampling then { st with neg := st.neg ++ mapVoxelPoints origin scale v, sn := 0 }
    else { st with sn := sn }

/-- `VoxelSet::intersect(plane, positive_pts, negative_pts, sampling)`: returns the extended
`(positive_pts, negative_pts)` (the early return on the empty set is the empty fold). -/
def intersect (origin : V3 K) (scale : K) (pl : CutPlane K) (positivePts negativePts : List (V3 K))
    (sampling : Nat) (vs : List Voxel) : List (V3 K) × List (V3 K) :=
  let r := vs.foldl (intersectStep origin scale pl sampling) ⟨positivePts, negativePts, 0, 0⟩
  (r.pos, r.neg)

/-- `VoxelSet::compute_clipped_volumes`: returns `(negative_volume, positive_volume)`. -/
def computeClippedVolumes (origin : V3 K) (scale : K) (pl : CutPlane K) (vs : List Voxel) : K × K :=
  if vs.isEmpty then (0, 0) else
  let numPositive := vs.foldl (fun (n : Nat) v =>
    let pt := voxelPoint origin scale v
    let d := pl.abc.dot pt + pl.d
    n + (if 0 ≤ d then 1 else 0)) 0
  let numNegative := vs.length - numPositive
  let positiveVolume := voxelVolume scale * lit numPositive
  let negativeVolume := voxelVolume scale * lit numNegative
  (negativeVolume, positiveVolume)

/-- `VoxelSet::select_on_surface`: the voxels of `on_surf` (origin and scale are copied unchanged);
`push` of the flagged voxels in order = `filter`. -/
def selectOnSurface (vs : List Voxel) : List Voxel := vs.filter fun v => v.surf

/-- component `dim` of a `Point<u32>` (`dim ≥ 3` would panic in Rust; never produced by the callers) -/
def tget (t : Nat × Nat × Nat) (dim : Nat) : Nat := if dim = 0 then t.1 else if dim = 1 then t.2.1 else t.2.2

/-- `VoxelSet::compute_bb`: `none` = early return (the stored box is left untouched), otherwise
`some (min_bb_voxels, max_bb_voxels)`: fold of `inf`/`sup` over *all* voxels starting from voxel 0. -/
def computeBB (vs : List Voxel) : Option ((Nat × Nat × Nat) × (Nat × Nat × Nat)) :=
  match vs with
  | [] => none
  | v0 :: _ =>
    some (vs.foldl (fun (bb : (Nat × Nat × Nat) × (Nat × Nat × Nat)) v =>
      ((min bb.1.1 v.i, min bb.1.2.1 v.j, min bb.1.2.2 v.k),
       (max bb.2.1 v.i, max bb.2.2.1 v.j, max bb.2.2.2 v.k))) (v0.coords, v0.coords))

/-- `(i0..=i1).step_by(step)`: `i0, i0+step, …` while `≤ i1`.  `step_by(0)` panics in Rust; the model
yields no index in that case (callers pass `downsampling ≥ 1`). -/
def stepRange (i0 i1 step : Nat) : List Nat :=
  if step = 0 then [] else
  if i1 < i0 then [] else (List.range ((i1 - i0) / step + 1)).map fun k => i0 + k * step

/-- the plane literal built in both plane generators:
`CutPlane { abc: Vector::ith(dim, 1.0), axis: dim, d: -(origin[dim] + (i as Real + 0.5) * scale), index: i }`
as `(plane, axis, index)`. -/
def axisPlane (origin : V3 K) (scale : K) (dim i : Nat) : CutPlane K × Nat × Nat :=
  (⟨(V3.zero : V3 K).set dim 1, -(origin.get dim + (lit i + lit 1 2) * scale)⟩, dim, i)

/-- `VoxelSet::compute_axes_aligned_clipping_planes(downsampling, planes)`; `minV`/`maxV` are the stored
`min_bb_voxels`/`max_bb_voxels`. -/
def computeAxesAlignedClippingPlanes (origin : V3 K) (scale : K) (minV maxV : Nat × Nat × Nat)
    (downsampling : Nat) (planes : List (CutPlane K × Nat × Nat)) : List (CutPlane K × Nat × Nat) :=
  [0, 1, 2].foldl (fun acc dim =>
    let i0 := tget minV dim
    let i1 := tget maxV dim
    (stepRange i0 i1 downsampling).foldl (fun acc i => acc ++ [axisPlane origin scale dim i]) acc) planes

/-- `VHACD::refine_axes_aligned_clipping_planes(vset, best_plane, downsampling, planes)`;
`saturating_sub` is `Nat` subtraction; `for i in i0..=i1` is `stepRange i0 i1 1`. -/
def refineAxesAlignedClippingPlanes (origin : V3 K) (scale : K) (minV maxV : Nat × Nat × Nat)
    (best : CutPlane K × Nat × Nat) (downsampling : Nat) (planes : List (CutPlane K × Nat × Nat)) :
    List (CutPlane K × Nat × Nat) :=
  let bestId := best.2.1
  let i0 := max (tget minV bestId) (best.2.2 - downsampling)
  let i1 := min (tget maxV bestId) (best.2.2 + downsampling)
  (stepRange i0 i1 1).foldl (fun acc i => acc ++ [axisPlane origin scale bestId i]) planes

/-- `VHACD::compute_preferred_cutting_direction` (dim3): `(direction, anisotropy weight)`. -/
def computePreferredCuttingDirection (ev : V3 K) : V3 K × K :=
  let vx := (ev.y - ev.z) * (ev.y - ev.z)
  let vy := (ev.x - ev.z) * (ev.x - ev.z)
  let vz := (ev.x - ev.y) * (ev.x - ev.y)
  if decide (vx < vy) && decide (vx < vz) then
    let e := ev.y * ev.y + ev.z * ev.z
    let dir : V3 K := ⟨1, 0, 0⟩
    if neq e 0 then (dir, 0) else (dir, 1 - vx / e)
  else if decide (vy < vx) && decide (vy < vz) then
    let e := ev.x * ev.x + ev.z * ev.z
    let dir : V3 K := ⟨0, 1, 0⟩
    if neq e 0 then (dir, 0) else (dir, 1 - vy / e)
  else
    let e := ev.x * ev.x + ev.y * ev.y
    let dir : V3 K := ⟨0, 0, 1⟩
    if neq e 0 then (dir, 0) else (dir, 1 - vz / e)

end Model
