import ParryModel.C18.ModelFill3
/-!
# C18 model, part 4: the triangle/box test and the surface-marking loop of the 3-D voxelizer (`parry3d-f64`)

Literal transliteration of

* `query::details::intersection_test_aabb_triangle` (`intersection_test_cuboid_triangle.rs`) with its three SAT passes:
  `sat_cuboid_support_map.rs: cuboid_support_map_find_local_separating_normal_oneway` (the 3 × 2 face normals of the box,
  shape 2 = the triangle through `SupportMap::support_point_toward` / `Triangle::local_support_point`),
  `sat_cuboid_triangle.rs: triangle_cuboid_find_local_separating_normal_oneway` = `sat_cuboid_point.rs:
  point_cuboid_find_local_separating_normal_oneway(triangle.a, triangle.normal(), ..)` (`Triangle::normal` =
  `Unit::try_new(ab × ac, DEFAULT_EPSILON)`), and `cuboid_triangle_find_local_separating_edge_twoway` (the 9 axes
  `e_i × edge`, skipped when `|axis|² ≤ DEFAULT_EPSILON`);
* the `dim3` marking loop of `VoxelizedVolume::voxelize`: grid coordinates `(pt − origin) * inv_scale`, the cell of each
  vertex `((x + 0.5) as u32, ..)` with its `assert!`s, the candidate range `ijk0.saturating_sub(1) .. (ijk1 + 1).inf(res)`,
  `Aabb::from_half_extents((i, j, k), 0.5)`, and the marking of `PrimitiveUndefined` cells
  (`keep_voxel_to_primitives_map = false`: a cell that is already `PrimitiveOnSurface` is not tested again; the grid is the
  same with `true`, the voxel-to-primitive map is not modelled in 3-D);
* `voxelize3` = allocation + marking + `fill3` (`ModelFill3.lean`).

Isometries are `Iso3` with the identity quaternion `(0, 0, 0, 1)` evaluated literally (the quaternion sandwich of
`Vec.lean`), so that signed zeros come out as in nalgebra.
-/
namespace Model.Vox3
open Model.Vox
variable {K : Type} [Num K]

/-- `Unit::try_new(v, min_norm)` -/
def tryNew3 (v : V3 K) (minNorm : K) : Option (V3 K) :=
  let sq := v.normSq
  if minNorm * minNorm < sq then some (v.sdiv (Num.sqrt sq)) else none
/-- `Cuboid::local_support_point`: `dir.copy_sign_to(half_extents)` -/
def cuboidLocal3 (he dir : V3 K) : V3 K := ⟨copysign he.x dir.x, copysign he.y dir.y, copysign he.z dir.z⟩
/-- `Triangle::local_support_point` -/
def triangleLocal3 (a b c dir : V3 K) : V3 K :=
  let d1 := a.dot dir; let d2 := b.dot dir; let d3 := c.dot dir
  if d2 < d1 then (if d3 < d1 then a else c) else if d3 < d2 then b else c
/-- `SupportMap::support_point_toward(transform, dir)` -/
def supportToward3 (loc : V3 K → V3 K) (m : Iso3 K) (dir : V3 K) : V3 K := m.act (loc (m.invRot dir))
/-- `Vector::ith(i, s)` -/
def ith3 (i : Nat) (s : K) : V3 K := if i = 0 then ⟨s, 0, 0⟩ else if i = 1 then ⟨0, s, 0⟩ else ⟨0, 0, s⟩

/-- one `(i, sign)` iteration of `cuboid_support_map_find_local_separating_normal_oneway` (shape2 = triangle) -/
def sepStep3 (he a b c : V3 K) (pos12 : Iso3 K) (best : K) (is : Nat × K) : K :=
  let axis1 := ith3 is.1 is.2
  let pt2 := supportToward3 (triangleLocal3 a b c) pos12 axis1.neg
  let separation := pt2.get is.1 * is.2 - he.get is.1
  if best < separation then separation else best

/-- `cuboid_support_map_find_local_separating_normal_oneway(cube1, triangle2, pos12).0` -/
def sepCuboidTri (he a b c : V3 K) (pos12 : Iso3 K) : K :=
  [(0, (-1 : K)), (0, 1), (1, -1), (1, 1), (2, -1), (2, 1)].foldl (sepStep3 he a b c pos12) (-realMax)

/-- `Triangle::normal`: `Unit::try_new((b - a) × (c - a), DEFAULT_EPSILON)` -/
def triNormal (a b c : V3 K) : Option (V3 K) := tryNew3 ((b.sub a).cross (c.sub a)) eps

/-- `point_cuboid_find_local_separating_normal_oneway(point1, normal1, shape2, pos12).0` -/
def sepPointCuboid3 (point1 : V3 K) (normal1 : Option (V3 K)) (he : V3 K) (pos12 : Iso3 K) : K :=
  match normal1 with
  | none => -realMax
  | some n =>
    let axis1 := if 0 ≤ (pos12.t.sub point1).dot n then n else n.neg
    let pt2 := supportToward3 (cuboidLocal3 he) pos12 axis1.neg
    let separation := (pt2.sub point1).dot axis1
    if -realMax < separation then separation else -realMax

/-- one axis of `cuboid_triangle_find_local_separating_edge_twoway`: `(axis, tri_dots[i])` -/
def edgeStep (he : V3 K) (best : K) (x : V3 K × K × K) : K :=
  let axis := x.1
  let n2 := axis.normSq
  if eps < n2 then
    let n := Num.sqrt n2
    let dot1 := (cuboidLocal3 he axis).dot axis / n
    let mn := if x.2.2 < x.2.1 then x.2.2 else x.2.1
    let mx := if x.2.2 < x.2.1 then x.2.1 else x.2.2
    let sa := mn / n - dot1
    let sb := (-mx) / n - dot1
    let best := if best < sa then sa else best
    if best < sb then sb else best
  else best

/-- `cuboid_triangle_find_local_separating_edge_twoway(cube1, triangle2, pos12).0` -/
def sepEdges (he a2 b2 c2 : V3 K) (pos12 : Iso3 K) : K :=
  let a := pos12.act a2; let b := pos12.act b2; let c := pos12.act c2
  let ab := b.sub a; let bc := c.sub b; let ca := a.sub c
  let ax : List (V3 K) :=
    [⟨0, -ab.z, ab.y⟩, ⟨ab.z, 0, -ab.x⟩, ⟨-ab.y, ab.x, 0⟩,
     ⟨0, -bc.z, bc.y⟩, ⟨bc.z, 0, -bc.x⟩, ⟨-bc.y, bc.x, 0⟩,
     ⟨0, -ca.z, ca.y⟩, ⟨ca.z, 0, -ca.x⟩, ⟨-ca.y, ca.x, 0⟩]
  let other : List (V3 K) := [c, c, c, c, c, c, b, b, b]
  (ax.zip other).foldl (fun best p => edgeStep he best (p.1, p.1.dot a, p.1.dot p.2)) (-realMax)

/-- `intersection_test_cuboid_triangle(pos12, cube1, triangle2)` (3-D) -/
def testCuboidTriangle (pos12 : Iso3 K) (he a b c : V3 K) : Bool :=
  let sep1 := sepCuboidTri he a b c pos12
  if 0 < sep1 then false else
  let sep2 := sepPointCuboid3 a (triNormal a b c) he pos12.inverse
  if 0 < sep2 then false else
  let sep3 := sepEdges he a b c pos12
  decide (sep3 ≤ 0)

/-- `intersection_test_aabb_triangle(aabb1, triangle2)` -/
def testAabbTriangle (mins maxs a b c : V3 K) : Bool :=
  let he := (maxs.sub mins).smul (lit 1 2)
  let ctr := V3.center mins maxs
  testCuboidTriangle ⟨0, 0, 0, 1, ctr.neg⟩ he a b c

/-! ## the marking loop -/
section
variable [Cast K]

/-- `inv_scale = (resolution as Real - 1.0) / r`, `r` = the reference extent chosen as in `gridParams3` -/
def invScale3 (res : Nat) (mn mx : V3 K) : K :=
  let d := mx.sub mn
  let rr : K := lit res
  if d.y ≤ d.x ∧ d.z ≤ d.x then (rr - 1) / d.x
  else if d.x ≤ d.y ∧ d.z ≤ d.y then (rr - 1) / d.y
  else (rr - 1) / d.z

/-- `((x + 0.5) as u32, (y + 0.5) as u32, (z + 0.5) as u32)` -/
def cellOf3 (g : V3 K) : Nat × Nat × Nat :=
  (Cast.toU32 (g.x + lit 1 2), Cast.toU32 (g.y + lit 1 2), Cast.toU32 (g.z + lit 1 2))

/-- `Aabb::from_half_extents((i, j, k), (0.5, 0.5, 0.5))` -/
def cellAabb3 (i j k : Nat) : V3 K × V3 K :=
  let pt : V3 K := ⟨lit i, lit j, lit k⟩
  let h : V3 K := ⟨lit 1 2, lit 1 2, lit 1 2⟩
  (pt.sub h, pt.add h)

structure Mark3 where
  g : Array VV
  panic : Bool

/-- body of the `for i.. for j.. for k..` loop over the candidate range (`keep_voxel_to_primitives_map = false`) -/
def markCell3 (ni nj : Nat) (a b c : V3 K) (g : Array VV) (cell : Nat × Nat × Nat) : Array VV :=
  let id := idx3 ni nj cell.1 cell.2.1 cell.2.2
  if g.getD id .undef = .undef then
    let bx := cellAabb3 (K := K) cell.1 cell.2.1 cell.2.2
    if testAabbTriangle bx.1 bx.2 a b c then g.setIfInBounds id .surf else g
  else g

/-- one triangle of the marking loop -/
def markTri3 (ni nj nk : Nat) (origin : V3 K) (invScale : K) (pts : Array (V3 K)) (st : Mark3) (t : Nat × Nat × Nat) : Mark3 :=
  if st.panic then st else
  match pts[t.1]?, pts[t.2.1]?, pts[t.2.2]? with
  | some p0, some p1, some p2 =>
    let a := (p0.sub origin).smul invScale
    let b := (p1.sub origin).smul invScale
    let c := (p2.sub origin).smul invScale
    let ca := cellOf3 a; let cb := cellOf3 b; let cc := cellOf3 c
    let okc (x : Nat × Nat × Nat) : Bool := x.1 < ni && x.2.1 < nj && x.2.2 < nk
    if !(okc ca && okc cb && okc cc) then { st with panic := true } else
    let lo := (min (min ca.1 cb.1) cc.1 - 1, min (min ca.2.1 cb.2.1) cc.2.1 - 1, min (min ca.2.2 cb.2.2) cc.2.2 - 1)
    let hi := (min (max (max ca.1 cb.1) cc.1 + 1) ni, min (max (max ca.2.1 cb.2.1) cc.2.1 + 1) nj,
               min (max (max ca.2.2 cb.2.2) cc.2.2 + 1) nk)
    { st with g := (cellsIn3 lo.1 lo.2.1 lo.2.2 hi.1 hi.2.1 hi.2.2).foldl (markCell3 ni nj a b c) st.g }
  | _, _, _ => { st with panic := true }

structure Vol3 (K : Type) where
  origin : V3 K
  scale : K
  ni : Nat
  nj : Nat
  nk : Nat
  vals : Array VV
  panic : Bool

/-- the marking phase of `VoxelizedVolume::voxelize` (`dim3`, non-empty point list) -/
def markAll3 (res : Nat) (p0 : V3 K) (ps : List (V3 K)) (tris : List (Nat × Nat × Nat)) : Vol3 K :=
  let bb := cloudAabb3 p0 ps
  let gp := gridParams3 res bb.1 bb.2
  let inv := invScale3 res bb.1 bb.2
  let st := tris.foldl (markTri3 gp.1 gp.2.1 gp.2.2.1 bb.1 inv (p0 :: ps).toArray)
    ⟨Array.replicate (gp.1 * gp.2.1 * gp.2.2.1) .undef, false⟩
  ⟨bb.1, gp.2.2.2, gp.1, gp.2.1, gp.2.2.1, st.g, st.panic⟩

/-- `VoxelizedVolume::voxelize` (`dim3`): `(volume, fuel ok)` -/
def voxelize3 (flood detectCavities : Bool) (res : Nat) (p0 : V3 K) (ps : List (V3 K)) (tris : List (Nat × Nat × Nat)) : Vol3 K × Bool :=
  let m := markAll3 res p0 ps tris
  if m.panic then (m, true) else
  let r := fill3 flood detectCavities m.ni m.nj m.nk m.vals
  ({ m with vals := r.1 }, r.2)

end
end Model.Vox3
