import ParryModel.Field
import ParryModel.C18.ModelVox
/-!
# C18 lemmas for the 2-D voxelizer model, part 2: the fill pass

Grid access through coordinates (`getC`/`setC`, `voxel_index` injective and in bounds), the flood-fill
specification `Reach`, the invariant `FInv`/`Closed` of the outside propagation and its preservation by
`walk_forward/backward` (`walk_ray`), by the body of the `propagate_values` loop (`propCell_inv`), by a sweep and by
the whole loop; the fixpoint is the specification (`fixpoint_spec`); counting argument for the fuel
(`propagate_fuel`, for every parameter set the code uses); `mark_outside_surface` (`markBorder_get`).
-/
set_option linter.unusedSectionVars false
set_option linter.unusedVariables false
set_option linter.unusedSimpArgs false
namespace C18
open Model Model.Vox

/-- the value of cell `(i, j)` -/
def getC (ni : Nat) (g : Array VV) (p : Nat × Nat) : VV := g.getD (idx ni p.1 p.2) .undef
def setC (ni : Nat) (g : Array VV) (p : Nat × Nat) (v : VV) : Array VV := g.setIfInBounds (idx ni p.1 p.2) v

/-- `voxel_index(i, j)` is in bounds -/
theorem idx_lt {ni nj i j : Nat} (hi : i < ni) (hj : j < nj) : idx ni i j < ni * nj := by
  unfold idx
  calc i + j * ni < ni + j * ni := by omega
    _ = (j + 1) * ni := by ring
    _ ≤ nj * ni := Nat.mul_le_mul_right _ hj
    _ = ni * nj := Nat.mul_comm _ _

/-- `voxel_index` is injective on in-range columns -/
theorem idx_inj {ni i j i' j' : Nat} (hi : i < ni) (hi' : i' < ni) (h : idx ni i j = idx ni i' j') : i = i' ∧ j = j' := by
  unfold idx at h
  have h1 : (i + j * ni) % ni = (i' + j' * ni) % ni := by rw [h]
  rw [Nat.add_mul_mod_self_right, Nat.add_mul_mod_self_right, Nat.mod_eq_of_lt hi, Nat.mod_eq_of_lt hi'] at h1
  subst h1
  have : j * ni = j' * ni := by omega
  exact ⟨rfl, Nat.eq_of_mul_eq_mul_right (by omega) this⟩

theorem getC_setC {ni nj : Nat} {g : Array VV} (hs : g.size = ni * nj) {p q : Nat × Nat} (v : VV)
    (hp : p.1 < ni ∧ p.2 < nj) (hq : q.1 < ni) :
    getC ni (setC ni g p v) q = if p = q then v else getC ni g q := by
  unfold getC setC
  split_ifs with h
  · subst h
    have := idx_lt hp.1 hp.2
    simp [Array.getD, Array.size_setIfInBounds, hs, this]
  · have hne : idx ni p.1 p.2 ≠ idx ni q.1 q.2 := by
      intro e
      have := idx_inj hp.1 hq e
      exact h (Prod.ext this.1 this.2)
    simp only [Array.getD_eq_getD_getElem?, Array.getElem?_setIfInBounds]
    rw [if_neg hne]

theorem size_setC (ni : Nat) (g : Array VV) (p : Nat × Nat) (v : VV) : (setC ni g p v).size = g.size := by
  simp [setC]

theorem mem_cellsIn {i0 j0 i1 j1 : Nat} {p : Nat × Nat} :
    p ∈ cellsIn i0 j0 i1 j1 ↔ (i0 ≤ p.1 ∧ p.1 < i1) ∧ (j0 ≤ p.2 ∧ p.2 < j1) := by
  unfold cellsIn
  simp only [List.mem_flatMap, List.mem_range', List.mem_map]
  constructor
  · rintro ⟨i, ⟨k, hk, rfl⟩, j, ⟨l, hl, rfl⟩, rfl⟩
    simp; omega
  · rintro ⟨⟨h1, h2⟩, ⟨h3, h4⟩⟩
    refine ⟨p.1, ⟨p.1 - i0, by omega, by omega⟩, p.2, ⟨p.2 - j0, by omega, by omega⟩, rfl⟩


/-! ### the flood-fill specification -/
section
variable (ni nj : Nat) (S : Nat × Nat → Prop)

/-- cell `p` is inside the `ni × nj` grid -/
def InB (p : Nat × Nat) : Prop := p.1 < ni ∧ p.2 < nj
/-- 4-neighbourhood -/
def Adj (p q : Nat × Nat) : Prop :=
  (p.1 = q.1 ∧ (q.2 = p.2 + 1 ∨ p.2 = q.2 + 1)) ∨ (p.2 = q.2 ∧ (q.1 = p.1 + 1 ∨ p.1 = q.1 + 1))
/-- first / last row or column -/
def OnBorder (p : Nat × Nat) : Prop := p.1 = 0 ∨ p.2 = 0 ∨ p.1 + 1 = ni ∨ p.2 + 1 = nj

/-- **flood-fill specification**: the non-surface cells connected to a non-surface border cell of the grid through
non-surface cells (4-connectivity); `S` = "is a surface cell". -/
inductive Reach : Nat × Nat → Prop
  | border {p} : InB ni nj p → OnBorder ni nj p → ¬ S p → Reach p
  | step {p q} : Reach p → Adj p q → InB ni nj q → ¬ S q → Reach q

/-- invariant of the outside propagation (`FillMode::FloodFill { detect_cavities: false }`) -/
structure FInv (g : Array VV) : Prop where
  size : g.size = ni * nj
  vals : ∀ p, InB ni nj p → getC ni g p = .undef ∨ getC ni g p = .outWalk ∨ getC ni g p = .outside ∨ getC ni g p = .surf
  surf : ∀ p, InB ni nj p → (getC ni g p = .surf ↔ S p)
  sound : ∀ p, InB ni nj p → (getC ni g p = .outWalk ∨ getC ni g p = .outside) → Reach ni nj S p
  border : ∀ p, InB ni nj p → OnBorder ni nj p → getC ni g p ≠ .undef

/-- every neighbour of an `outside` cell has been looked at -/
def Closed (g : Array VV) : Prop :=
  ∀ p q, InB ni nj p → InB ni nj q → Adj p q → getC ni g p = .outside → getC ni g q ≠ .undef

/-- what a walk may do to a cell: nothing, or `undef → outWalk` -/
def Frame (g g' : Array VV) : Prop :=
  ∀ q, InB ni nj q → getC ni g' q = getC ni g q ∨ (getC ni g q = .undef ∧ getC ni g' q = .outWalk)

theorem Frame.refl (g : Array VV) : Frame ni nj g g := fun _ _ => Or.inl rfl

theorem Frame.trans {g g1 g2 : Array VV} (h1 : Frame ni nj g g1) (h2 : Frame ni nj g1 g2) : Frame ni nj g g2 := by
  intro q hq
  rcases h1 q hq with a | ⟨a1, a2⟩ <;> rcases h2 q hq with b | ⟨b1, b2⟩
  · left; rw [b, a]
  · right; exact ⟨by rw [← a]; exact b1, b2⟩
  · right; exact ⟨a1, by rw [b]; exact a2⟩
  · rw [a2] at b1; cases b1

theorem FInv.congr {g g' : Array VV} (h : FInv ni nj S g) (hs : g'.size = g.size)
    (he : ∀ q, InB ni nj q → getC ni g' q = getC ni g q) : FInv ni nj S g' where
  size := by rw [hs]; exact h.size
  vals := fun p hp => by rw [he p hp]; exact h.vals p hp
  surf := fun p hp => by rw [he p hp]; exact h.surf p hp
  sound := fun p hp => by rw [he p hp]; exact h.sound p hp
  border := fun p hp hb => by rw [he p hp]; exact h.border p hp hb

/-- a ray: consecutive cells, each adjacent to the previous one, starting next to `src` -/
def RayFrom (src : Nat × Nat) : List (Nat × Nat) → Prop
  | [] => True
  | c :: cs => Adj src c ∧ RayFrom c cs

theorem walkCells_cons (u sv : VV) (g : Array VV) (c : Nat × Nat) (rest : List Nat) :
    walkCells u sv g (idx ni c.1 c.2 :: rest) =
      if getC ni g c = .undef then walkCells u sv (setC ni g c u) rest
      else if getC ni g c = .surf then setC ni g c sv else g := rfl

/-- writing the value a cell already has changes nothing observable -/
theorem getC_setC_same {g : Array VV} (hs : g.size = ni * nj) {c : Nat × Nat} (hc : InB ni nj c) {v : VV}
    (hv : getC ni g c = v) (q : Nat × Nat) (hq : InB ni nj q) : getC ni (setC ni g c v) q = getC ni g q := by
  rw [getC_setC hs v hc hq.1]
  split_ifs with h
  · subst h; exact hv.symm
  · rfl

/-- `walk_forward` / `walk_backward` along a ray that starts next to an already reached cell keep the invariant, only
turn `undef` cells into `outWalk`, and leave the first cell of the ray not `undef`. -/
theorem walk_ray (cells : List (Nat × Nat)) : ∀ (src : Nat × Nat) (g : Array VV),
    FInv ni nj S g → InB ni nj src → (getC ni g src = .outWalk ∨ getC ni g src = .outside) →
    RayFrom src cells → (∀ c ∈ cells, InB ni nj c) →
    FInv ni nj S (walkCells .outWalk .surf g (cells.map fun p => idx ni p.1 p.2)) ∧
    Frame ni nj g (walkCells .outWalk .surf g (cells.map fun p => idx ni p.1 p.2)) ∧
    (∀ c cs, cells = c :: cs → getC ni (walkCells .outWalk .surf g (cells.map fun p => idx ni p.1 p.2)) c ≠ .undef) := by
  induction cells with
  | nil => intro src g h _ _ _ _; exact ⟨h, Frame.refl ni nj g, fun c cs e => by cases e⟩
  | cons c cs ih =>
    intro src g h hsrc hv hray hin
    have hc : InB ni nj c := hin c (List.mem_cons_self)
    obtain ⟨hadj, hray'⟩ := hray
    rw [List.map_cons, walkCells_cons]
    by_cases h1 : getC ni g c = .undef
    · rw [if_pos h1]
      -- the cell becomes `outWalk`; it is reached from `src`
      have hnS : ¬ S c := fun hS => by have := (h.surf c hc).mpr hS; rw [h1] at this; cases this
      have hreach : Reach ni nj S c := Reach.step (h.sound src hsrc hv) hadj hc hnS
      have hg1 : ∀ q, InB ni nj q → getC ni (setC ni g c .outWalk) q = if c = q then .outWalk else getC ni g q :=
        fun q hq => getC_setC h.size .outWalk hc hq.1
      have inv1 : FInv ni nj S (setC ni g c .outWalk) := by
        refine ⟨by rw [size_setC]; exact h.size, ?_, ?_, ?_, ?_⟩
        · intro p hp; rw [hg1 p hp]; split_ifs with e
          · right; left; rfl
          · exact h.vals p hp
        · intro p hp; rw [hg1 p hp]; split_ifs with e
          · subst e; constructor
            · intro x; cases x
            · intro x; exact absurd x hnS
          · exact h.surf p hp
        · intro p hp; rw [hg1 p hp]; split_ifs with e
          · subst e; intro _; exact hreach
          · exact h.sound p hp
        · intro p hp hb; rw [hg1 p hp]; split_ifs with e
          · intro x; cases x
          · exact h.border p hp hb
      have fr1 : Frame ni nj g (setC ni g c .outWalk) := by
        intro q hq; rw [hg1 q hq]; split_ifs with e
        · subst e; right; exact ⟨h1, rfl⟩
        · left; rfl
      have hvc : getC ni (setC ni g c .outWalk) c = .outWalk ∨ getC ni (setC ni g c .outWalk) c = .outside := by
        left; rw [hg1 c hc, if_pos rfl]
      obtain ⟨i1, i2, i3⟩ := ih c (setC ni g c .outWalk) inv1 hc hvc hray' (fun x hx => hin x (List.mem_cons_of_mem _ hx))
      refine ⟨i1, Frame.trans ni nj fr1 i2, ?_⟩
      intro c' cs' e
      have e1 : c' = c := (List.cons.inj e).1.symm
      rw [e1]
      rcases i2 c hc with a | ⟨a1, a2⟩
      · rw [a, hg1 c hc, if_pos rfl]; intro x; cases x
      · rw [a2]; intro x; cases x
    · rw [if_neg h1]
      by_cases h2 : getC ni g c = .surf
      · rw [if_pos h2]
        have same := getC_setC_same ni nj h.size hc h2
        refine ⟨h.congr ni nj S (size_setC ni g c .surf) same, fun q hq => Or.inl (same q hq), ?_⟩
        intro c' cs' e
        have e1 : c' = c := (List.cons.inj e).1.symm
        rw [e1, same c hc, h2]; intro x; cases x
      · rw [if_neg h2]
        refine ⟨h, Frame.refl ni nj g, ?_⟩
        intro c' cs' e
        have e1 : c' = c := (List.cons.inj e).1.symm
        rw [e1]; exact h1

theorem Frame.ne_undef {g g' : Array VV} (h : Frame ni nj g g') {q : Nat × Nat} (hq : InB ni nj q)
    (hv : getC ni g q ≠ .undef) : getC ni g' q ≠ .undef := by
  rcases h q hq with a | ⟨a1, a2⟩
  · rw [a]; exact hv
  · rw [a2]; intro x; cases x

theorem Frame.keep {g g' : Array VV} (h : Frame ni nj g g') {q : Nat × Nat} (hq : InB ni nj q)
    (hv : getC ni g q ≠ .undef) : getC ni g' q = getC ni g q := by
  rcases h q hq with a | ⟨a1, a2⟩
  · exact a
  · exact absurd a1 hv

theorem Frame.outside_iff {g g' : Array VV} (h : Frame ni nj g g') {q : Nat × Nat} (hq : InB ni nj q) :
    getC ni g' q = .outside ↔ getC ni g q = .outside := by
  rcases h q hq with a | ⟨a1, a2⟩
  · rw [a]
  · rw [a1, a2]; constructor <;> intro x <;> cases x

/-! the four rays of `walkLists`, in coordinates -/
def ray1 (nj i j : Nat) : List (Nat × Nat) := (List.range' (j + 1) (min walkDistance (nj - (j + 1)))).map fun j' => (i, j')
def ray2 (i j : Nat) : List (Nat × Nat) := (List.range (min walkDistance j)).map fun k => (i, j - 1 - k)
def ray3 (ni i j : Nat) : List (Nat × Nat) := (List.range' (i + 1) (min walkDistance (ni - (i + 1)))).map fun i' => (i', j)
def ray4 (i j : Nat) : List (Nat × Nat) := (List.range (min walkDistance i)).map fun k => (i - 1 - k, j)

theorem walkLists_eq (i j : Nat) :
    walkLists ni nj i j = [(ray1 nj i j).map fun p => idx ni p.1 p.2, (ray2 i j).map fun p => idx ni p.1 p.2,
      (ray3 ni i j).map fun p => idx ni p.1 p.2, (ray4 i j).map fun p => idx ni p.1 p.2] := by
  simp only [walkLists, ray1, ray2, ray3, ray4, List.map_map]
  rfl

theorem rayFrom_up (i : Nat) : ∀ (n j : Nat), RayFrom (i, j) ((List.range' (j + 1) n).map fun j' => (i, j'))
  | 0, _ => trivial
  | n + 1, j => by
    rw [List.range'_succ, List.map_cons]
    exact ⟨Or.inl ⟨rfl, Or.inl rfl⟩, rayFrom_up i n (j + 1)⟩

theorem rayFrom_right (j : Nat) : ∀ (n i : Nat), RayFrom (i, j) ((List.range' (i + 1) n).map fun i' => (i', j))
  | 0, _ => trivial
  | n + 1, i => by
    rw [List.range'_succ, List.map_cons]
    exact ⟨Or.inr ⟨rfl, Or.inl rfl⟩, rayFrom_right j n (i + 1)⟩

theorem rayFrom_down (i : Nat) : ∀ (n j : Nat), n ≤ j → RayFrom (i, j) ((List.range n).map fun k => (i, j - 1 - k))
  | 0, _, _ => trivial
  | n + 1, j, h => by
    rw [List.range_succ_eq_map, List.map_cons, List.map_map]
    refine ⟨Or.inl ⟨rfl, Or.inr (by simp; omega)⟩, ?_⟩
    have := rayFrom_down i n (j - 1) (by omega)
    have e : ((fun k => (i, j - 1 - k)) ∘ Nat.succ) = fun k => (i, j - 1 - 1 - k) := by
      funext k; simp; omega
    rw [e]; simpa using this

theorem rayFrom_left (j : Nat) : ∀ (n i : Nat), n ≤ i → RayFrom (i, j) ((List.range n).map fun k => (i - 1 - k, j))
  | 0, _, _ => trivial
  | n + 1, i, h => by
    rw [List.range_succ_eq_map, List.map_cons, List.map_map]
    refine ⟨Or.inr ⟨rfl, Or.inr (by simp; omega)⟩, ?_⟩
    have := rayFrom_left j n (i - 1) (by omega)
    have e : ((fun k => (i - 1 - k, j)) ∘ Nat.succ) = fun k => (i - 1 - 1 - k, j) := by
      funext k; simp; omega
    rw [e]; simpa using this


theorem ray1_inB {i j : Nat} (hp : InB ni nj (i, j)) : ∀ c ∈ ray1 nj i j, InB ni nj c := by
  intro c hc
  simp only [ray1, List.mem_map, List.mem_range'] at hc
  obtain ⟨j', ⟨k, hk, rfl⟩, rfl⟩ := hc
  exact ⟨hp.1, by simp only; omega⟩
theorem ray2_inB {i j : Nat} (hp : InB ni nj (i, j)) : ∀ c ∈ ray2 i j, InB ni nj c := by
  intro c hc
  simp only [ray2, List.mem_map, List.mem_range] at hc
  obtain ⟨k, hk, rfl⟩ := hc
  exact ⟨hp.1, by have := hp.2; simp only at this ⊢; omega⟩
theorem ray3_inB {i j : Nat} (hp : InB ni nj (i, j)) : ∀ c ∈ ray3 ni i j, InB ni nj c := by
  intro c hc
  simp only [ray3, List.mem_map, List.mem_range'] at hc
  obtain ⟨j', ⟨k, hk, rfl⟩, rfl⟩ := hc
  exact ⟨by simp only; omega, hp.2⟩
theorem ray4_inB {i j : Nat} (hp : InB ni nj (i, j)) : ∀ c ∈ ray4 i j, InB ni nj c := by
  intro c hc
  simp only [ray4, List.mem_map, List.mem_range] at hc
  obtain ⟨k, hk, rfl⟩ := hc
  exact ⟨by have := hp.1; simp only at this ⊢; omega, hp.2⟩

/-- every in-grid neighbour of `(i, j)` is the first cell of one of the four rays -/
theorem nbr_is_head {i j : Nat} {q : Nat × Nat} (hq : InB ni nj q) (ha : Adj (i, j) q) :
    (∃ cs, ray1 nj i j = q :: cs) ∨ (∃ cs, ray2 i j = q :: cs) ∨ (∃ cs, ray3 ni i j = q :: cs) ∨ (∃ cs, ray4 i j = q :: cs) := by
  obtain ⟨q1, q2⟩ := q
  have h1 := hq.1; have h2 := hq.2
  simp only [Adj] at ha
  simp only at h1 h2
  rcases ha with ⟨e, (e2 | e2)⟩ | ⟨e, (e2 | e2)⟩
  · left
    subst e; subst e2
    have : min walkDistance (nj - (j + 1)) = (min walkDistance (nj - (j + 1)) - 1) + 1 := by
      have : 0 < min walkDistance (nj - (j + 1)) := by simp [walkDistance]; omega
      omega
    unfold ray1; rw [this, List.range'_succ, List.map_cons]; exact ⟨_, rfl⟩
  · right; left
    subst e
    have : min walkDistance j = (min walkDistance j - 1) + 1 := by
      have : 0 < min walkDistance j := by simp [walkDistance]; omega
      omega
    unfold ray2; rw [this, List.range_succ_eq_map, List.map_cons]
    have e3 : (i, j - 1 - 0) = (i, q2) := by simp; omega
    rw [e3]; exact ⟨_, rfl⟩
  · right; right; left
    subst e; subst e2
    have : min walkDistance (ni - (i + 1)) = (min walkDistance (ni - (i + 1)) - 1) + 1 := by
      have : 0 < min walkDistance (ni - (i + 1)) := by simp [walkDistance]; omega
      omega
    unfold ray3; rw [this, List.range'_succ, List.map_cons]; exact ⟨_, rfl⟩
  · right; right; right
    subst e
    have : min walkDistance i = (min walkDistance i - 1) + 1 := by
      have : 0 < min walkDistance i := by simp [walkDistance]; omega
      omega
    unfold ray4; rw [this, List.range_succ_eq_map, List.map_cons]
    have e3 : (i - 1 - 0, j) = (q1, j) := by simp; omega
    rw [e3]; exact ⟨_, rfl⟩

/-- the four walks from a reached cell `p`: invariant kept, only `undef → outWalk`, all neighbours of `p` looked at -/
theorem walks_inv {g : Array VV} {p : Nat × Nat} (h : FInv ni nj S g) (hp : InB ni nj p)
    (hv : getC ni g p = .outside) :
    FInv ni nj S (walks ni nj .outWalk .surf g p) ∧ Frame ni nj g (walks ni nj .outWalk .surf g p) ∧
    (∀ q, InB ni nj q → Adj p q → getC ni (walks ni nj .outWalk .surf g p) q ≠ .undef) := by
  obtain ⟨i, j⟩ := p
  have hne : getC ni g (i, j) ≠ .undef := by rw [hv]; intro x; cases x
  unfold walks
  rw [walkLists_eq]
  simp only [List.foldl_cons, List.foldl_nil]
  obtain ⟨a1, a2, a3⟩ := walk_ray ni nj S (ray1 nj i j) (i, j) g h hp (Or.inr hv)
    (by unfold ray1; exact rayFrom_up i _ j) (ray1_inB ni nj hp)
  set g1 := walkCells .outWalk .surf g ((ray1 nj i j).map fun p => idx ni p.1 p.2) with hg1
  have hv1 : getC ni g1 (i, j) = .outside := by rw [a2.keep ni nj hp hne]; exact hv
  have hne1 : getC ni g1 (i, j) ≠ .undef := by rw [hv1]; intro x; cases x
  obtain ⟨b1, b2, b3⟩ := walk_ray ni nj S (ray2 i j) (i, j) g1 a1 hp (Or.inr hv1)
    (by unfold ray2; exact rayFrom_down i _ j (Nat.min_le_right _ _)) (ray2_inB ni nj hp)
  set g2 := walkCells .outWalk .surf g1 ((ray2 i j).map fun p => idx ni p.1 p.2) with hg2
  have hv2 : getC ni g2 (i, j) = .outside := by rw [b2.keep ni nj hp hne1]; exact hv1
  have hne2 : getC ni g2 (i, j) ≠ .undef := by rw [hv2]; intro x; cases x
  obtain ⟨c1, c2, c3⟩ := walk_ray ni nj S (ray3 ni i j) (i, j) g2 b1 hp (Or.inr hv2)
    (by unfold ray3; exact rayFrom_right j _ i) (ray3_inB ni nj hp)
  set g3 := walkCells .outWalk .surf g2 ((ray3 ni i j).map fun p => idx ni p.1 p.2) with hg3
  have hv3 : getC ni g3 (i, j) = .outside := by rw [c2.keep ni nj hp hne2]; exact hv2
  obtain ⟨d1, d2, d3⟩ := walk_ray ni nj S (ray4 i j) (i, j) g3 c1 hp (Or.inr hv3)
    (by unfold ray4; exact rayFrom_left j _ i (Nat.min_le_right _ _)) (ray4_inB ni nj hp)
  set g4 := walkCells .outWalk .surf g3 ((ray4 i j).map fun p => idx ni p.1 p.2) with hg4
  refine ⟨d1, ((a2.trans ni nj b2).trans ni nj c2).trans ni nj d2, ?_⟩
  intro q hq hadj
  rcases nbr_is_head ni nj hq hadj with ⟨cs, e⟩ | ⟨cs, e⟩ | ⟨cs, e⟩ | ⟨cs, e⟩
  · exact ((b2.trans ni nj c2).trans ni nj d2).ne_undef ni nj hq (a3 q cs e)
  · exact (c2.trans ni nj d2).ne_undef ni nj hq (b3 q cs e)
  · exact d2.ne_undef ni nj hq (c3 q cs e)
  · exact d3 q cs e


theorem foldl_inv {α β : Type} (P : β → Prop) (f : β → α → β) : ∀ (l : List α), (∀ b a, a ∈ l → P b → P (f b a)) →
    ∀ b, P b → P (l.foldl f b)
  | [], _, _, hb => hb
  | a :: l, h, b, hb => by
    rw [List.foldl_cons]
    exact foldl_inv P f l (fun b' a' ha' => h b' a' (List.mem_cons_of_mem _ ha')) _ (h b a List.mem_cons_self hb)

theorem propCell_eq (toWalk toSet : VV) (surfWalk : Option VV) (sSet : VV) (st : PSt) (p : Nat × Nat) :
    propCell ni nj toWalk toSet surfWalk sSet st p =
      if getC ni st.g p = toWalk then ⟨walks ni nj toWalk sSet (setC ni st.g p toSet) p, st.walked + 1, true⟩
      else if some (getC ni st.g p) ≠ surfWalk then st
      else ⟨walks ni nj toWalk sSet st.g p, st.walked, st.once⟩ := rfl

/-- body of the `propagate_values` loop (outside pass of the plain flood fill) keeps the invariant -/
theorem propCell_inv {st : PSt} {p : Nat × Nat} (h : FInv ni nj S st.g) (hc : Closed ni nj st.g) (hp : InB ni nj p) :
    FInv ni nj S (propCell ni nj .outWalk .outside none .surf st p).g ∧
    Closed ni nj (propCell ni nj .outWalk .outside none .surf st p).g := by
  rw [propCell_eq]
  by_cases hv : getC ni st.g p = .outWalk
  · rw [if_pos hv]
    simp only []
    have hnS : ¬ S p := fun hS => by have := (h.surf p hp).mpr hS; rw [hv] at this; cases this
    have hg1 : ∀ q, InB ni nj q → getC ni (setC ni st.g p .outside) q = if p = q then .outside else getC ni st.g q :=
      fun q hq => getC_setC h.size .outside hp hq.1
    have inv1 : FInv ni nj S (setC ni st.g p .outside) := by
      refine ⟨by rw [size_setC]; exact h.size, ?_, ?_, ?_, ?_⟩
      · intro q hq; rw [hg1 q hq]; split_ifs with e
        · right; right; left; rfl
        · exact h.vals q hq
      · intro q hq; rw [hg1 q hq]; split_ifs with e
        · subst e; constructor
          · intro x; cases x
          · intro x; exact absurd x hnS
        · exact h.surf q hq
      · intro q hq; rw [hg1 q hq]; split_ifs with e
        · subst e; intro _; exact h.sound p hp (Or.inl hv)
        · exact h.sound q hq
      · intro q hq hb; rw [hg1 q hq]; split_ifs with e
        · intro x; cases x
        · exact h.border q hq hb
    have hvp : getC ni (setC ni st.g p .outside) p = .outside := by rw [hg1 p hp, if_pos rfl]
    obtain ⟨w1, w2, w3⟩ := walks_inv ni nj S inv1 hp hvp
    refine ⟨w1, ?_⟩
    intro a b ha hb hab hva
    rw [w2.outside_iff ni nj ha, hg1 a ha] at hva
    by_cases e : p = a
    · subst e; exact w3 b hb hab
    · rw [if_neg e] at hva
      have := hc a b ha hb hab hva
      apply w2.ne_undef ni nj hb
      rw [hg1 b hb]; split_ifs with e2
      · intro x; cases x
      · exact this
  · rw [if_neg hv, if_pos (by simp)]
    exact ⟨h, hc⟩

/-- one sweep keeps the invariant -/
theorem sweep_inv {g : Array VV} (once : Bool) (h : FInv ni nj S g) (hc : Closed ni nj g) :
    FInv ni nj S (sweep ni nj .outWalk .outside none .surf g once).g ∧
    Closed ni nj (sweep ni nj .outWalk .outside none .surf g once).g := by
  unfold sweep
  apply foldl_inv (fun st : PSt => FInv ni nj S st.g ∧ Closed ni nj st.g)
  · intro st p hp hst
    exact propCell_inv ni nj S hst.1 hst.2 ⟨(mem_cellsIn.mp hp).1.2, (mem_cellsIn.mp hp).2.2⟩
  · exact ⟨h, hc⟩

/-- a sweep that walked nothing changed nothing, and there was nothing left to walk -/
theorem foldl_zero : ∀ (l : List (Nat × Nat)) (st : PSt),
    st.walked ≤ (l.foldl (propCell ni nj .outWalk .outside none .surf) st).walked ∧
    ((l.foldl (propCell ni nj .outWalk .outside none .surf) st).walked = st.walked →
      (l.foldl (propCell ni nj .outWalk .outside none .surf) st).g = st.g ∧ ∀ p ∈ l, getC ni st.g p ≠ .outWalk)
  | [], st => ⟨le_refl _, fun _ => ⟨rfl, fun p hp => by cases hp⟩⟩
  | p :: l, st => by
    rw [List.foldl_cons]
    obtain ⟨ih1, ih2⟩ := foldl_zero l (propCell ni nj .outWalk .outside none .surf st p)
    rw [propCell_eq] at ih1 ih2 ⊢
    by_cases hv : getC ni st.g p = .outWalk
    · rw [if_pos hv] at ih1 ih2 ⊢
      simp only [] at ih1 ih2 ⊢
      exact ⟨by omega, fun e => by omega⟩
    · rw [if_neg hv, if_pos (by simp)] at ih1 ih2 ⊢
      refine ⟨ih1, fun e => ?_⟩
      obtain ⟨e1, e2⟩ := ih2 e
      refine ⟨e1, ?_⟩
      intro q hq
      rcases List.mem_cons.mp hq with rfl | hq
      · exact hv
      · exact e2 q hq

theorem sweep_zero {g : Array VV} (once : Bool) (hw : (sweep ni nj .outWalk .outside none .surf g once).walked = 0) :
    (sweep ni nj .outWalk .outside none .surf g once).g = g ∧ ∀ p, InB ni nj p → getC ni g p ≠ .outWalk := by
  unfold sweep at hw ⊢
  obtain ⟨_, h2⟩ := foldl_zero ni nj (cellsIn 0 0 ni nj) ⟨g, 0, once⟩
  obtain ⟨e1, e2⟩ := h2 hw
  exact ⟨e1, fun p hp => e2 p (mem_cellsIn.mpr ⟨⟨Nat.zero_le _, hp.1⟩, ⟨Nat.zero_le _, hp.2⟩⟩)⟩

/-- `propagate_values` (outside pass of the plain flood fill): if it returns (fuel not exhausted), the invariant holds
and no `outWalk` cell is left -/
theorem propagate_inv : ∀ (fuel : Nat) (g : Array VV) (once : Bool), FInv ni nj S g → Closed ni nj g →
    (propagate ni nj .outWalk .outside none .surf fuel g once).2.2 = true →
    FInv ni nj S (propagate ni nj .outWalk .outside none .surf fuel g once).1 ∧
    Closed ni nj (propagate ni nj .outWalk .outside none .surf fuel g once).1 ∧
    ∀ p, InB ni nj p → getC ni (propagate ni nj .outWalk .outside none .surf fuel g once).1 p ≠ .outWalk
  | 0, g, once, _, _, hok => by simp [propagate] at hok
  | fuel + 1, g, once, h, hc, hok => by
    unfold propagate at hok ⊢
    simp only [] at hok ⊢
    by_cases hw : (sweep ni nj .outWalk .outside none .surf g once).walked = 0
    · rw [if_pos hw] at hok ⊢
      obtain ⟨e1, e2⟩ := sweep_zero ni nj once hw
      simp only []
      rw [e1]
      exact ⟨h, hc, e2⟩
    · rw [if_neg hw] at hok ⊢
      obtain ⟨s1, s2⟩ := sweep_inv ni nj S once h hc
      exact propagate_inv fuel _ _ s1 s2 hok

/-- **the fixpoint is the specification**: once the propagation has stopped, `outside` = reachable -/
theorem fixpoint_spec {g : Array VV} (h : FInv ni nj S g) (hc : Closed ni nj g)
    (hno : ∀ p, InB ni nj p → getC ni g p ≠ .outWalk) (p : Nat × Nat) (hp : InB ni nj p) :
    getC ni g p = .outside ↔ Reach ni nj S p := by
  constructor
  · intro hv; exact h.sound p hp (Or.inr hv)
  · intro hr
    induction hr with
    | border hb hbd hs =>
      rcases h.vals _ hb with v | v | v | v
      · exact absurd v (h.border _ hb hbd)
      · exact absurd v (hno _ hb)
      · exact v
      · exact absurd ((h.surf _ hb).mp v) hs
    | step hr' hadj hq hs ih =>
      rename_i a b
      have hain : InB ni nj a := by
        cases hr' with
        | border x _ _ => exact x
        | step _ _ x _ => exact x
      rcases h.vals _ hq with v | v | v | v
      · exact absurd v (hc a b hain hq hadj (ih hain))
      · exact absurd v (hno _ hq)
      · exact v
      · exact absurd ((h.surf _ hq).mp v) hs
end

/-- number of cells holding value `w` -/
def cnt (w : VV) (g : Array VV) : Nat := g.toList.count w

theorem cnt_le (w : VV) (g : Array VV) : cnt w g ≤ g.size := by
  unfold cnt; simpa using (List.count_le_length (a := w) (l := g.toList))

/-- writing `v` over a cell that holds neither … -/
theorem cnt_set (w v : VV) (g : Array VV) (c : Nat) (hc : c < g.size) :
    cnt w (g.setIfInBounds c v) + (if g.getD c .undef = w then 1 else 0) = cnt w g + (if v = w then 1 else 0) := by
  unfold cnt
  rw [Array.toList_setIfInBounds, List.count_set (by simpa using hc)]
  have e : g.toList[c]'(by simpa using hc) = g.getD c .undef := by
    simp [Array.getD, hc]
  rw [e]
  have hpos : (if g.getD c .undef = w then 1 else 0) ≤ List.count w g.toList := by
    by_cases h : g.getD c .undef = w
    · rw [if_pos h]
      rw [← e] at h
      have : g.toList[c]'(by simpa using hc) ∈ g.toList := List.getElem_mem _
      rw [h] at this
      exact List.count_pos_iff.mpr this
    · rw [if_neg h]; exact Nat.zero_le _
  simp only [beq_iff_eq]
  omega

theorem cnt_set_oob (w v : VV) (g : Array VV) (c : Nat) (hc : ¬ c < g.size) :
    cnt w (g.setIfInBounds c v) = cnt w g := by
  unfold cnt
  rw [Array.toList_setIfInBounds, List.set_eq_of_length_le (by simpa using hc)]

/-- a walk does not change the number of cells holding a value it neither reads nor writes -/
theorem cnt_walkCells (w u sv : VV) (hu : w ≠ u) (hs : w ≠ sv) (h0 : w ≠ .undef) (h8 : w ≠ .surf) :
    ∀ (cells : List Nat) (g : Array VV), cnt w (walkCells u sv g cells) = cnt w g ∧ (walkCells u sv g cells).size = g.size
  | [], g => ⟨rfl, rfl⟩
  | c :: cs, g => by
    unfold walkCells
    by_cases hc : c < g.size
    · by_cases h1 : g.getD c .undef = .undef
      · rw [if_pos h1]
        obtain ⟨i1, i2⟩ := cnt_walkCells w u sv hu hs h0 h8 cs (g.setIfInBounds c u)
        have := cnt_set w u g c hc
        rw [h1, if_neg (Ne.symm h0), if_neg (Ne.symm hu)] at this
        exact ⟨by omega, by rw [i2]; simp⟩
      · rw [if_neg h1]
        by_cases h2 : g.getD c .undef = .surf
        · rw [if_pos h2]
          have := cnt_set w sv g c hc
          rw [h2, if_neg (Ne.symm h8), if_neg (Ne.symm hs)] at this
          exact ⟨by omega, by simp⟩
        · rw [if_neg h2]; exact ⟨rfl, rfl⟩
    · have hd : g.getD c .undef = .undef := by simp [Array.getD, hc]
      rw [if_pos hd]
      obtain ⟨i1, i2⟩ := cnt_walkCells w u sv hu hs h0 h8 cs (g.setIfInBounds c u)
      exact ⟨by rw [i1, cnt_set_oob w u g c hc], by rw [i2]; simp⟩

theorem cnt_walks (ni nj : Nat) (w u sv : VV) (hu : w ≠ u) (hs : w ≠ sv) (h0 : w ≠ .undef) (h8 : w ≠ .surf)
    (g : Array VV) (p : Nat × Nat) :
    cnt w (walks ni nj u sv g p) = cnt w g ∧ (walks ni nj u sv g p).size = g.size := by
  unfold walks
  generalize walkLists ni nj p.1 p.2 = ls
  induction ls generalizing g with
  | nil => exact ⟨rfl, rfl⟩
  | cons l ls ih =>
    rw [List.foldl_cons]
    obtain ⟨a1, a2⟩ := cnt_walkCells w u sv hu hs h0 h8 l g
    obtain ⟨b1, b2⟩ := ih (walkCells u sv g l)
    exact ⟨by rw [b1, a1], by rw [b2, a2]⟩


section
variable (ni nj : Nat) (toWalk toSet : VV) (surfWalk : Option VV) (sSet : VV)

/-- the loop body of `propagate_values` adds exactly one `toSet` cell per walked voxel -/
theorem cnt_propCell (h1 : toSet ≠ toWalk) (h2 : toSet ≠ sSet) (h0 : toSet ≠ .undef) (h8 : toSet ≠ .surf)
    (st : PSt) (p : Nat × Nat) (hp : idx ni p.1 p.2 < st.g.size) :
    cnt toSet (propCell ni nj toWalk toSet surfWalk sSet st p).g + st.walked
        = cnt toSet st.g + (propCell ni nj toWalk toSet surfWalk sSet st p).walked ∧
    (propCell ni nj toWalk toSet surfWalk sSet st p).g.size = st.g.size := by
  unfold propCell
  simp only []
  by_cases hv : st.g.getD (idx ni p.1 p.2) .undef = toWalk
  · rw [if_pos hv]
    simp only []
    obtain ⟨a1, a2⟩ := cnt_walks ni nj toSet toWalk sSet h1 h2 h0 h8 (st.g.setIfInBounds (idx ni p.1 p.2) toSet) p
    have := cnt_set toSet toSet st.g _ hp
    rw [hv, if_neg (Ne.symm h1), if_pos rfl] at this
    exact ⟨by omega, by rw [a2]; simp⟩
  · rw [if_neg hv]
    by_cases hs : some (st.g.getD (idx ni p.1 p.2) .undef) ≠ surfWalk
    · rw [if_pos hs]; exact ⟨rfl, rfl⟩
    · rw [if_neg hs]
      simp only []
      obtain ⟨a1, a2⟩ := cnt_walks ni nj toSet toWalk sSet h1 h2 h0 h8 st.g p
      exact ⟨by omega, a2⟩

theorem cnt_foldl (h1 : toSet ≠ toWalk) (h2 : toSet ≠ sSet) (h0 : toSet ≠ .undef) (h8 : toSet ≠ .surf) :
    ∀ (l : List (Nat × Nat)) (st : PSt), st.g.size = ni * nj → (∀ p ∈ l, p.1 < ni ∧ p.2 < nj) →
    cnt toSet (l.foldl (propCell ni nj toWalk toSet surfWalk sSet) st).g + st.walked
        = cnt toSet st.g + (l.foldl (propCell ni nj toWalk toSet surfWalk sSet) st).walked ∧
    (l.foldl (propCell ni nj toWalk toSet surfWalk sSet) st).g.size = ni * nj
  | [], st, hs, _ => ⟨rfl, hs⟩
  | p :: l, st, hs, hl => by
    rw [List.foldl_cons]
    have hp := hl p List.mem_cons_self
    obtain ⟨a1, a2⟩ := cnt_propCell ni nj toWalk toSet surfWalk sSet h1 h2 h0 h8 st p (by rw [hs]; exact idx_lt hp.1 hp.2)
    obtain ⟨b1, b2⟩ := cnt_foldl h1 h2 h0 h8 l (propCell ni nj toWalk toSet surfWalk sSet st p) (by rw [a2]; exact hs)
      (fun q hq => hl q (List.mem_cons_of_mem _ hq))
    exact ⟨by omega, b2⟩

theorem cnt_sweep (h1 : toSet ≠ toWalk) (h2 : toSet ≠ sSet) (h0 : toSet ≠ .undef) (h8 : toSet ≠ .surf)
    (g : Array VV) (once : Bool) (hs : g.size = ni * nj) :
    cnt toSet (sweep ni nj toWalk toSet surfWalk sSet g once).g
        = cnt toSet g + (sweep ni nj toWalk toSet surfWalk sSet g once).walked ∧
    (sweep ni nj toWalk toSet surfWalk sSet g once).g.size = ni * nj := by
  unfold sweep
  obtain ⟨a1, a2⟩ := cnt_foldl ni nj toWalk toSet surfWalk sSet h1 h2 h0 h8 (cellsIn 0 0 ni nj) ⟨g, 0, once⟩ hs
    (fun p hp => ⟨(mem_cellsIn.mp hp).1.2, (mem_cellsIn.mp hp).2.2⟩)
  exact ⟨by simpa using a1, a2⟩

/-- **the fuel of `propagate_values` suffices**: every sweep that walks a voxel creates a `toSet` cell that is never
overwritten, so there are at most `#cells` such sweeps -/
theorem propagate_fuel (h1 : toSet ≠ toWalk) (h2 : toSet ≠ sSet) (h0 : toSet ≠ .undef) (h8 : toSet ≠ .surf) :
    ∀ (fuel : Nat) (g : Array VV) (once : Bool), g.size = ni * nj → g.size - cnt toSet g < fuel →
    (propagate ni nj toWalk toSet surfWalk sSet fuel g once).2.2 = true ∧
    (propagate ni nj toWalk toSet surfWalk sSet fuel g once).1.size = ni * nj
  | 0, g, once, _, hf => by omega
  | fuel + 1, g, once, hs, hf => by
    unfold propagate
    simp only []
    obtain ⟨a1, a2⟩ := cnt_sweep ni nj toWalk toSet surfWalk sSet h1 h2 h0 h8 g once hs
    by_cases hw : (sweep ni nj toWalk toSet surfWalk sSet g once).walked = 0
    · rw [if_pos hw]; exact ⟨rfl, a2⟩
    · rw [if_neg hw]
      have hle := cnt_le toSet (sweep ni nj toWalk toSet surfWalk sSet g once).g
      exact propagate_fuel h1 h2 h0 h8 fuel _ _ a2 (by rw [a2] at hle ⊢; rw [hs] at hf; omega)
end

section
variable (ni nj : Nat)

theorem markStep_eq (g : Array VV) (c : Nat × Nat) :
    (if g.getD (idx ni c.1 c.2) .undef = .undef then g.setIfInBounds (idx ni c.1 c.2) .outWalk else g)
      = if getC ni g c = .undef then setC ni g c .outWalk else g := rfl

/-- `mark_outside_surface` over a list of in-grid cells: `undef` cells of the list become `outWalk`, nothing else changes -/
theorem markList_get : ∀ (l : List (Nat × Nat)) (g : Array VV), g.size = ni * nj → (∀ p ∈ l, InB ni nj p) →
    (l.foldl (fun g c => if g.getD (idx ni c.1 c.2) .undef = .undef then g.setIfInBounds (idx ni c.1 c.2) .outWalk else g) g).size = ni * nj ∧
    ∀ q, InB ni nj q →
      getC ni (l.foldl (fun g c => if g.getD (idx ni c.1 c.2) .undef = .undef then g.setIfInBounds (idx ni c.1 c.2) .outWalk else g) g) q
        = if q ∈ l ∧ getC ni g q = .undef then .outWalk else getC ni g q
  | [], g, hs, _ => ⟨hs, fun q _ => by simp⟩
  | p :: l, g, hs, hl => by
    rw [List.foldl_cons, markStep_eq]
    have hp := hl p List.mem_cons_self
    have hl' : ∀ x ∈ l, InB ni nj x := fun x hx => hl x (List.mem_cons_of_mem _ hx)
    by_cases hv : getC ni g p = .undef
    · rw [if_pos hv]
      obtain ⟨a1, a2⟩ := markList_get l (setC ni g p .outWalk) (by rw [size_setC]; exact hs) hl'
      refine ⟨a1, fun q hq => ?_⟩
      rw [a2 q hq, getC_setC hs .outWalk hp hq.1]
      by_cases e : p = q
      · subst e
        simp [hv]
      · simp only [if_neg e, List.mem_cons]
        have : (q = p) = False := by simp; exact fun x => e x.symm
        simp [this]
    · rw [if_neg hv]
      obtain ⟨a1, a2⟩ := markList_get l g hs hl'
      refine ⟨a1, fun q hq => ?_⟩
      rw [a2 q hq]
      by_cases e : q = p
      · subst e; simp [hv]
      · simp [e]

theorem markOutside_get (g : Array VV) (hs : g.size = ni * nj) (i0 j0 i1 j1 : Nat) (h1 : i1 ≤ ni) (h2 : j1 ≤ nj) :
    (markOutside ni g i0 j0 i1 j1).size = ni * nj ∧
    ∀ q, InB ni nj q → getC ni (markOutside ni g i0 j0 i1 j1) q
      = if ((i0 ≤ q.1 ∧ q.1 < i1) ∧ (j0 ≤ q.2 ∧ q.2 < j1)) ∧ getC ni g q = .undef then .outWalk else getC ni g q := by
  unfold markOutside
  obtain ⟨a1, a2⟩ := markList_get ni nj (cellsIn i0 j0 i1 j1) g hs (fun p hp => by
    have := mem_cellsIn.mp hp
    exact ⟨by omega, by omega⟩)
  refine ⟨a1, fun q hq => ?_⟩
  rw [a2 q hq]
  simp only [mem_cellsIn]

/-- the four `mark_outside_surface` calls mark exactly the `undef` cells of the border -/
theorem markBorder_get (g : Array VV) (hs : g.size = ni * nj) (hi : 1 ≤ ni) (hj : 1 ≤ nj) :
    (markBorder ni nj g).size = ni * nj ∧
    ∀ q, InB ni nj q → getC ni (markBorder ni nj g) q
      = if (q.1 = 0 ∨ q.2 = 0 ∨ q.1 + 1 = ni ∨ q.2 + 1 = nj) ∧ getC ni g q = .undef then .outWalk else getC ni g q := by
  unfold markBorder
  simp only []
  obtain ⟨a1, a2⟩ := markOutside_get ni nj g hs 0 0 ni 1 (le_refl _) hj
  obtain ⟨b1, b2⟩ := markOutside_get ni nj _ a1 0 (nj - 1) ni nj (le_refl _) (le_refl _)
  obtain ⟨c1, c2⟩ := markOutside_get ni nj _ b1 0 0 1 nj hi (le_refl _)
  obtain ⟨d1, d2⟩ := markOutside_get ni nj _ c1 (ni - 1) 0 ni nj (le_refl _) (le_refl _)
  refine ⟨d1, fun q hq => ?_⟩
  rw [d2 q hq, c2 q hq, b2 q hq, a2 q hq]
  obtain ⟨q1, q2⟩ := q
  have h1 := hq.1; have h2 := hq.2
  simp only at h1 h2 ⊢
  by_cases hu : getC ni g (q1, q2) = .undef
  · simp only [hu, and_true]
    by_cases e1 : q2 < 1
    · have : q2 = 0 := by omega
      simp [this, h1]
    · by_cases e2 : nj - 1 ≤ q2
      · have : q2 + 1 = nj := by omega
        simp [e1, this, h1, e2, h2]
      · by_cases e3 : q1 < 1
        · have : q1 = 0 := by omega
          simp [e1, e2, this, h2]
        · by_cases e4 : ni - 1 ≤ q1
          · have : q1 + 1 = ni := by omega
            simp [e1, e2, e3, e4, this, h1, h2]
          · have n1 : ¬ q1 = 0 := by omega
            have n2 : ¬ q2 = 0 := by omega
            have n3 : ¬ q1 + 1 = ni := by omega
            have n4 : ¬ q2 + 1 = nj := by omega
            simp [e1, e2, e3, e4, n1, n2, n3, n4, hu]
  · simp [hu]

end

/-- value of `(g.map f)` at an in-grid cell -/
theorem getC_map (ni nj : Nat) (g : Array VV) (f : VV → VV) (hs : g.size = ni * nj) (p : Nat × Nat)
    (hp : InB ni nj p) : getC ni (g.map f) p = f (getC ni g p) := by
  unfold getC
  have h := idx_lt hp.1 hp.2
  rw [Array.getD_eq_getD_getElem?, Array.getD_eq_getD_getElem?, Array.getElem?_map]
  have : g[idx ni p.1 p.2]? = some (g[idx ni p.1 p.2]'(by rw [hs]; exact h)) := by
    simp [hs, h]
  rw [this]; rfl


/-! ### `detect_cavities`: the class of surface cells is invariant -/

/-- the four values a surface cell can hold during the fill -/
def isSC : VV → Bool
  | .surf | .surfWalk1 | .surfWalk2 | .surfNoWalk => true
  | _ => false

/-- same size and, cell by cell, same "is a surface cell" status -/
def SameClass (g g' : Array VV) : Prop := g'.size = g.size ∧ ∀ k, isSC (g'.getD k .undef) = isSC (g.getD k .undef)

theorem SameClass.refl (g : Array VV) : SameClass g g := ⟨rfl, fun _ => rfl⟩
theorem SameClass.trans {g g1 g2 : Array VV} (h1 : SameClass g g1) (h2 : SameClass g1 g2) : SameClass g g2 :=
  ⟨h2.1.trans h1.1, fun k => (h2.2 k).trans (h1.2 k)⟩

theorem sc_set (g : Array VV) (c : Nat) (v : VV) (h : isSC v = isSC (g.getD c .undef)) : SameClass g (g.setIfInBounds c v) := by
  refine ⟨by simp, fun k => ?_⟩
  simp only [Array.getD_eq_getD_getElem?, Array.getElem?_setIfInBounds]
  by_cases e : c = k
  · subst e
    rw [if_pos rfl]
    by_cases hc : c < g.size
    · rw [if_pos hc]; simp only [Option.getD_some]
      rw [h, Array.getD_eq_getD_getElem?]
    · rw [if_neg hc]
      have : g[c]? = none := by simp [hc]
      rw [this]
  · rw [if_neg e]

theorem sc_walkCells (u sv : VV) (hu : isSC u = false) (hs : isSC sv = true) :
    ∀ (cells : List Nat) (g : Array VV), SameClass g (walkCells u sv g cells)
  | [], g => SameClass.refl g
  | c :: cs, g => by
    unfold walkCells
    by_cases h1 : g.getD c .undef = .undef
    · rw [if_pos h1]
      exact (sc_set g c u (by rw [hu, h1]; rfl)).trans (sc_walkCells u sv hu hs cs _)
    · rw [if_neg h1]
      by_cases h2 : g.getD c .undef = .surf
      · rw [if_pos h2]; exact sc_set g c sv (by rw [hs, h2]; rfl)
      · rw [if_neg h2]; exact SameClass.refl g

theorem sc_walks (ni nj : Nat) (u sv : VV) (hu : isSC u = false) (hs : isSC sv = true) (g : Array VV) (p : Nat × Nat) :
    SameClass g (walks ni nj u sv g p) := by
  unfold walks
  generalize walkLists ni nj p.1 p.2 = ls
  induction ls generalizing g with
  | nil => exact SameClass.refl g
  | cons l ls ih => rw [List.foldl_cons]; exact (sc_walkCells u sv hu hs l g).trans (ih _)

theorem sc_propCell (ni nj : Nat) (toWalk toSet : VV) (surfWalk : Option VV) (sSet : VV)
    (h1 : isSC toWalk = false) (h2 : isSC toSet = false) (h3 : isSC sSet = true) (st : PSt) (p : Nat × Nat) :
    SameClass st.g (propCell ni nj toWalk toSet surfWalk sSet st p).g := by
  unfold propCell
  simp only []
  by_cases hv : st.g.getD (idx ni p.1 p.2) .undef = toWalk
  · rw [if_pos hv]
    exact (sc_set st.g _ toSet (by rw [h2, hv, h1])).trans (sc_walks ni nj toWalk sSet h1 h3 _ p)
  · rw [if_neg hv]
    by_cases hs : some (st.g.getD (idx ni p.1 p.2) .undef) ≠ surfWalk
    · rw [if_pos hs]; exact SameClass.refl _
    · rw [if_neg hs]; exact sc_walks ni nj toWalk sSet h1 h3 _ p

theorem sc_sweep (ni nj : Nat) (toWalk toSet : VV) (surfWalk : Option VV) (sSet : VV)
    (h1 : isSC toWalk = false) (h2 : isSC toSet = false) (h3 : isSC sSet = true) (g : Array VV) (once : Bool) :
    SameClass g (sweep ni nj toWalk toSet surfWalk sSet g once).g := by
  unfold sweep
  generalize cellsIn 0 0 ni nj = l
  have gen : ∀ (l : List (Nat × Nat)) (st : PSt), SameClass st.g (l.foldl (propCell ni nj toWalk toSet surfWalk sSet) st).g := by
    intro l
    induction l with
    | nil => intro st; exact SameClass.refl _
    | cons p l ih => intro st; rw [List.foldl_cons]; exact (sc_propCell ni nj toWalk toSet surfWalk sSet h1 h2 h3 st p).trans (ih _)
  exact gen l ⟨g, 0, once⟩

theorem sc_propagate (ni nj : Nat) (toWalk toSet : VV) (surfWalk : Option VV) (sSet : VV)
    (h1 : isSC toWalk = false) (h2 : isSC toSet = false) (h3 : isSC sSet = true) :
    ∀ (fuel : Nat) (g : Array VV) (once : Bool), SameClass g (propagate ni nj toWalk toSet surfWalk sSet fuel g once).1
  | 0, g, _ => SameClass.refl g
  | fuel + 1, g, once => by
    unfold propagate
    simp only []
    split_ifs
    · exact sc_sweep ni nj toWalk toSet surfWalk sSet h1 h2 h3 g once
    · exact (sc_sweep ni nj toWalk toSet surfWalk sSet h1 h2 h3 g once).trans (sc_propagate ni nj toWalk toSet surfWalk sSet h1 h2 h3 fuel _ _)

theorem sc_cavityLoop (ni nj : Nat) : ∀ (fuel : Nat) (g : Array VV), SameClass g (cavityLoop ni nj fuel g).1
  | 0, g => SameClass.refl g
  | fuel + 1, g => by
    unfold cavityLoop
    simp only []
    have a := sc_propagate ni nj .inWalk .inside (some .surfWalk1) .surfWalk2 rfl rfl rfl (ni * nj + 1) g false
    split_ifs
    · exact a
    · exact a
    · exact a.trans (sc_propagate ni nj .outWalk .outside (some .surfWalk2) .surfWalk1 rfl rfl rfl (ni * nj + 1) _ false)
    · exact a.trans (sc_propagate ni nj .outWalk .outside (some .surfWalk2) .surfWalk1 rfl rfl rfl (ni * nj + 1) _ false)
    · exact (a.trans (sc_propagate ni nj .outWalk .outside (some .surfWalk2) .surfWalk1 rfl rfl rfl (ni * nj + 1) _ false)).trans
        (sc_cavityLoop ni nj fuel _)

theorem sc_markOutside (ni : Nat) (g : Array VV) (i0 j0 i1 j1 : Nat) : SameClass g (markOutside ni g i0 j0 i1 j1) := by
  unfold markOutside
  generalize cellsIn i0 j0 i1 j1 = l
  induction l generalizing g with
  | nil => exact SameClass.refl g
  | cons c l ih =>
    rw [List.foldl_cons]
    by_cases h : g.getD (idx ni c.1 c.2) .undef = .undef
    · rw [if_pos h]; exact (sc_set g _ .outWalk (by rw [h]; rfl)).trans (ih _)
    · rw [if_neg h]; exact ih _

theorem sc_markBorder (ni nj : Nat) (g : Array VV) : SameClass g (markBorder ni nj g) := by
  unfold markBorder
  exact (((sc_markOutside ni g _ _ _ _).trans (sc_markOutside ni _ _ _ _ _)).trans (sc_markOutside ni _ _ _ _ _)).trans
    (sc_markOutside ni _ _ _ _ _)

/-- **`detect_cavities`: the fill never changes which cells are surface cells**, and turns every one of them back into
`PrimitiveOnSurface` at the end -/
theorem fill_cav_surf_iff (cfg : Cfg) (hflood : cfg.flood = true) (hcav : cfg.detectCavities = true) (ni nj : Nat)
    (g : Array VV) (k : Nat) :
    (fill cfg ni nj g).1.getD k .undef = .surf ↔ isSC (g.getD k .undef) = true := by
  have e : fill cfg ni nj g =
      ((cavityLoop ni nj (ni * nj + 1) (propagate ni nj .outWalk .outside none .surfWalk1 (ni * nj + 1) (markBorder ni nj g) false).1).1.map
          (fun v => if v = .surfWalk1 ∨ v = .surfWalk2 ∨ v = .surfNoWalk then .surf else v),
        (propagate ni nj .outWalk .outside none .surfWalk1 (ni * nj + 1) (markBorder ni nj g) false).2.2 &&
        (cavityLoop ni nj (ni * nj + 1) (propagate ni nj .outWalk .outside none .surfWalk1 (ni * nj + 1) (markBorder ni nj g) false).1).2) := by
    unfold fill; simp [hflood, hcav]
  rw [e]
  simp only []
  have sc := ((sc_markBorder ni nj g).trans
    (sc_propagate ni nj .outWalk .outside none .surfWalk1 rfl rfl rfl (ni * nj + 1) (markBorder ni nj g) false)).trans
    (sc_cavityLoop ni nj (ni * nj + 1) _)
  rw [← sc.2 k]
  generalize (cavityLoop ni nj (ni * nj + 1) (propagate ni nj .outWalk .outside none .surfWalk1 (ni * nj + 1) (markBorder ni nj g) false).1).1 = G
  simp only [Array.getD_eq_getD_getElem?, Array.getElem?_map]
  cases hG : G[k]? with
  | none => simp [isSC]
  | some v => cases v <;> simp [isSC]

/-! ### fuel of the `detect_cavities` alternation -/

theorem cnt_two_le (a b : VV) (hab : a ≠ b) (g : Array VV) : cnt a g + cnt b g ≤ g.size := by
  unfold cnt
  have : ∀ l : List VV, l.count a + l.count b ≤ l.length := by
    intro l
    induction l with
    | nil => simp
    | cons x l ih =>
      simp only [List.count_cons, List.length_cons]
      by_cases h1 : x = a
      · subst h1
        have : ¬ (x == b) = true := by simpa using hab
        simp [this]; omega
      · have h1' : ¬ (x == a) = true := by simpa using h1
        by_cases h2 : x = b
        · subst h2; simp [h1']; omega
        · have h2' : ¬ (x == b) = true := by simpa using h2
          simp [h1', h2']; omega
  simpa using this g.toList

theorem size_walkCells (u sv : VV) : ∀ (cells : List Nat) (g : Array VV), (walkCells u sv g cells).size = g.size
  | [], g => rfl
  | c :: cs, g => by
    unfold walkCells
    split_ifs
    · rw [size_walkCells u sv cs]; simp
    · simp
    · rfl

theorem size_walks (ni nj : Nat) (u sv : VV) (g : Array VV) (p : Nat × Nat) : (walks ni nj u sv g p).size = g.size := by
  unfold walks
  generalize walkLists ni nj p.1 p.2 = ls
  induction ls generalizing g with
  | nil => rfl
  | cons l ls ih => rw [List.foldl_cons, ih, size_walkCells]

section
variable (ni nj : Nat) (toWalk toSet : VV) (surfWalk : Option VV) (sSet : VV)

/-- a value the pass neither reads nor writes keeps its number of cells -/
theorem cnt_propCell_other (w : VV) (hw1 : w ≠ toWalk) (hw2 : w ≠ toSet) (hw3 : w ≠ sSet) (hw0 : w ≠ .undef) (hw8 : w ≠ .surf)
    (st : PSt) (p : Nat × Nat) (hp : idx ni p.1 p.2 < st.g.size) :
    cnt w (propCell ni nj toWalk toSet surfWalk sSet st p).g = cnt w st.g := by
  unfold propCell
  simp only []
  by_cases hv : st.g.getD (idx ni p.1 p.2) .undef = toWalk
  · rw [if_pos hv]
    simp only []
    obtain ⟨a1, _⟩ := cnt_walks ni nj w toWalk sSet hw1 hw3 hw0 hw8 (st.g.setIfInBounds (idx ni p.1 p.2) toSet) p
    have := cnt_set w toSet st.g _ hp
    rw [hv, if_neg (Ne.symm hw1), if_neg (Ne.symm hw2)] at this
    omega
  · rw [if_neg hv]
    by_cases hs : some (st.g.getD (idx ni p.1 p.2) .undef) ≠ surfWalk
    · rw [if_pos hs]
    · rw [if_neg hs]
      simp only []
      exact (cnt_walks ni nj w toWalk sSet hw1 hw3 hw0 hw8 st.g p).1

theorem propCell_size (st : PSt) (p : Nat × Nat) :
    (propCell ni nj toWalk toSet surfWalk sSet st p).g.size = st.g.size := by
  unfold propCell
  simp only []
  split_ifs
  · simp only []
    rw [(size_walks ni nj toWalk sSet _ p)]; simp
  · rfl
  · exact size_walks ni nj toWalk sSet _ p

theorem cnt_foldl_other (w : VV) (hw1 : w ≠ toWalk) (hw2 : w ≠ toSet) (hw3 : w ≠ sSet) (hw0 : w ≠ .undef) (hw8 : w ≠ .surf) :
    ∀ (l : List (Nat × Nat)) (st : PSt), st.g.size = ni * nj → (∀ p ∈ l, p.1 < ni ∧ p.2 < nj) →
    cnt w (l.foldl (propCell ni nj toWalk toSet surfWalk sSet) st).g = cnt w st.g
  | [], _, _, _ => rfl
  | p :: l, st, hs, hl => by
    rw [List.foldl_cons]
    have hp := hl p List.mem_cons_self
    rw [cnt_foldl_other w hw1 hw2 hw3 hw0 hw8 l _ (by rw [propCell_size]; exact hs) (fun q hq => hl q (List.mem_cons_of_mem _ hq))]
    exact cnt_propCell_other ni nj toWalk toSet surfWalk sSet w hw1 hw2 hw3 hw0 hw8 st p (by rw [hs]; exact idx_lt hp.1 hp.2)

theorem cnt_sweep_other (w : VV) (hw1 : w ≠ toWalk) (hw2 : w ≠ toSet) (hw3 : w ≠ sSet) (hw0 : w ≠ .undef) (hw8 : w ≠ .surf)
    (g : Array VV) (once : Bool) (hs : g.size = ni * nj) :
    cnt w (sweep ni nj toWalk toSet surfWalk sSet g once).g = cnt w g := by
  unfold sweep
  exact cnt_foldl_other ni nj toWalk toSet surfWalk sSet w hw1 hw2 hw3 hw0 hw8 (cellsIn 0 0 ni nj) ⟨g, 0, once⟩ hs
    (fun p hp => ⟨(mem_cellsIn.mp hp).1.2, (mem_cellsIn.mp hp).2.2⟩)

theorem propCell_walked_mono (st : PSt) (p : Nat × Nat) :
    st.walked ≤ (propCell ni nj toWalk toSet surfWalk sSet st p).walked := by
  unfold propCell; simp only []; split_ifs <;> simp

theorem propCell_once (st : PSt) (p : Nat × Nat) (h : (propCell ni nj toWalk toSet surfWalk sSet st p).once = true) :
    st.once = true ∨ st.walked < (propCell ni nj toWalk toSet surfWalk sSet st p).walked := by
  unfold propCell at h ⊢
  simp only [] at h ⊢
  split_ifs at h ⊢
  · right; simp
  · left; exact h
  · left; exact h

theorem foldl_walked_mono : ∀ (l : List (Nat × Nat)) (st : PSt),
    st.walked ≤ (l.foldl (propCell ni nj toWalk toSet surfWalk sSet) st).walked
  | [], _ => le_refl _
  | p :: l, st => by
    rw [List.foldl_cons]
    exact le_trans (propCell_walked_mono ni nj toWalk toSet surfWalk sSet st p) (foldl_walked_mono l _)

/-- `walked_at_least_once` can only become true in a sweep that walked a voxel -/
theorem foldl_once : ∀ (l : List (Nat × Nat)) (st : PSt),
    (l.foldl (propCell ni nj toWalk toSet surfWalk sSet) st).once = true →
      st.once = true ∨ st.walked < (l.foldl (propCell ni nj toWalk toSet surfWalk sSet) st).walked
  | [], st, h => Or.inl h
  | p :: l, st, h => by
    rw [List.foldl_cons] at h ⊢
    rcases foldl_once l _ h with h1 | h1
    · rcases propCell_once ni nj toWalk toSet surfWalk sSet st p h1 with h2 | h2
      · left; exact h2
      · right; exact lt_of_lt_of_le h2 (foldl_walked_mono ni nj toWalk toSet surfWalk sSet l _)
    · right; exact lt_of_le_of_lt (propCell_walked_mono ni nj toWalk toSet surfWalk sSet st p) h1

/-- `propagate_values`: a value the pass neither reads nor writes keeps its count; the count of `toSet` never decreases and
increases if the pass reports `walked_at_least_once` -/
theorem propagate_counts (h1 : toSet ≠ toWalk) (h2 : toSet ≠ sSet) (h0 : toSet ≠ .undef) (h8 : toSet ≠ .surf)
    (w : VV) (hw1 : w ≠ toWalk) (hw2 : w ≠ toSet) (hw3 : w ≠ sSet) (hw0 : w ≠ .undef) (hw8 : w ≠ .surf) :
    ∀ (fuel : Nat) (g : Array VV) (once : Bool), g.size = ni * nj →
    cnt w (propagate ni nj toWalk toSet surfWalk sSet fuel g once).1 = cnt w g ∧
    cnt toSet g ≤ cnt toSet (propagate ni nj toWalk toSet surfWalk sSet fuel g once).1 ∧
    ((propagate ni nj toWalk toSet surfWalk sSet fuel g once).2.1 = true → once = true ∨
      cnt toSet g < cnt toSet (propagate ni nj toWalk toSet surfWalk sSet fuel g once).1)
  | 0, g, once, _ => ⟨rfl, le_refl _, fun h => Or.inl h⟩
  | fuel + 1, g, once, hs => by
    unfold propagate
    simp only []
    obtain ⟨a1, a2⟩ := cnt_sweep ni nj toWalk toSet surfWalk sSet h1 h2 h0 h8 g once hs
    have a3 := cnt_sweep_other ni nj toWalk toSet surfWalk sSet w hw1 hw2 hw3 hw0 hw8 g once hs
    have a4 : (sweep ni nj toWalk toSet surfWalk sSet g once).once = true → once = true ∨
        0 < (sweep ni nj toWalk toSet surfWalk sSet g once).walked := by
      intro h; unfold sweep at h ⊢
      exact foldl_once ni nj toWalk toSet surfWalk sSet (cellsIn 0 0 ni nj) ⟨g, 0, once⟩ h
    by_cases hw : (sweep ni nj toWalk toSet surfWalk sSet g once).walked = 0
    · rw [if_pos hw]
      simp only []
      refine ⟨a3, by omega, fun h => ?_⟩
      rcases a4 h with x | x
      · exact Or.inl x
      · omega
    · rw [if_neg hw]
      obtain ⟨b1, b2, b3⟩ := propagate_counts h1 h2 h0 h8 w hw1 hw2 hw3 hw0 hw8 fuel
        (sweep ni nj toWalk toSet surfWalk sSet g once).g (sweep ni nj toWalk toSet surfWalk sSet g once).once a2
      refine ⟨by rw [b1, a3], by omega, fun h => ?_⟩
      right; omega
end

/-- **the fuel of the `detect_cavities` alternation suffices**: every completed inside/outside round turns at least two
cells into their final `inside`/`outside` value -/
theorem cavityLoop_fuel (ni nj : Nat) : ∀ (fuel : Nat) (g : Array VV), g.size = ni * nj →
    g.size - (cnt .inside g + cnt .outside g) < fuel → (cavityLoop ni nj fuel g).2 = true
  | 0, g, _, hf => by omega
  | fuel + 1, g, hs, hf => by
    unfold cavityLoop
    simp only []
    obtain ⟨f1, f1s⟩ := propagate_fuel ni nj .inWalk .inside (some .surfWalk1) .surfWalk2 (by decide) (by decide) (by decide) (by decide)
      (ni * nj + 1) g false hs (by rw [hs]; omega)
    obtain ⟨c1, c2, c3⟩ := propagate_counts ni nj .inWalk .inside (some .surfWalk1) .surfWalk2 (by decide) (by decide) (by decide) (by decide)
      .outside (by decide) (by decide) (by decide) (by decide) (by decide) (ni * nj + 1) g false hs
    rw [f1]
    simp only [Bool.not_true, Bool.false_eq_true, if_false]
    by_cases ho : (propagate ni nj .inWalk .inside (some .surfWalk1) .surfWalk2 (ni * nj + 1) g false).2.1 = true
    · rw [ho]
      simp only [Bool.not_true, Bool.false_eq_true, if_false]
      set g1 := (propagate ni nj .inWalk .inside (some .surfWalk1) .surfWalk2 (ni * nj + 1) g false).1 with hg1
      obtain ⟨f2, f2s⟩ := propagate_fuel ni nj .outWalk .outside (some .surfWalk2) .surfWalk1 (by decide) (by decide) (by decide) (by decide)
        (ni * nj + 1) g1 false f1s (by rw [f1s]; omega)
      obtain ⟨d1, d2, d3⟩ := propagate_counts ni nj .outWalk .outside (some .surfWalk2) .surfWalk1 (by decide) (by decide) (by decide) (by decide)
        .inside (by decide) (by decide) (by decide) (by decide) (by decide) (ni * nj + 1) g1 false f1s
      rw [f2]
      simp only [Bool.not_true, Bool.false_eq_true, if_false]
      by_cases ho2 : (propagate ni nj .outWalk .outside (some .surfWalk2) .surfWalk1 (ni * nj + 1) g1 false).2.1 = true
      · rw [ho2]
        simp only [Bool.not_true, Bool.false_eq_true, if_false]
        set g2 := (propagate ni nj .outWalk .outside (some .surfWalk2) .surfWalk1 (ni * nj + 1) g1 false).1 with hg2
        have hle := cnt_two_le .inside .outside (by decide) g2
        have e1 : cnt .inside g < cnt .inside g1 := by
          rcases c3 ho with x | x
          · cases x
          · exact x
        have e2 : cnt .outside g1 < cnt .outside g2 := by
          rcases d3 ho2 with x | x
          · cases x
          · exact x
        apply cavityLoop_fuel ni nj fuel g2 f2s
        rw [f2s] at hle ⊢
        rw [hs] at hf
        omega
      · have : (propagate ni nj .outWalk .outside (some .surfWalk2) .surfWalk1 (ni * nj + 1) g1 false).2.1 = false := by simpa using ho2
        rw [this]; simp
    · have : (propagate ni nj .inWalk .inside (some .surfWalk1) .surfWalk2 (ni * nj + 1) g false).2.1 = false := by simpa using ho
      rw [this]; simp

/-- **every loop of the fill pass stays within its fuel**, in every `FillMode` -/
theorem fill_fuel_all (cfg : Cfg) (ni nj : Nat) (g : Array VV) (hs : g.size = ni * nj) : (fill cfg ni nj g).2 = true := by
  unfold fill
  by_cases hf : cfg.flood = true
  · have hsb : (markBorder ni nj g).size = ni * nj := by rw [(sc_markBorder ni nj g).1]; exact hs
    by_cases hc : cfg.detectCavities = true
    · simp only [hf, hc, Bool.not_true, Bool.false_eq_true, if_false, if_true]
      obtain ⟨f0, f0s⟩ := propagate_fuel ni nj .outWalk .outside none .surfWalk1 (by decide) (by decide) (by decide) (by decide)
        (ni * nj + 1) (markBorder ni nj g) false hsb (by rw [hsb]; omega)
      rw [f0, cavityLoop_fuel ni nj (ni * nj + 1) _ f0s (by rw [f0s]; omega)]
      rfl
    · have hc' : cfg.detectCavities = false := by simpa using hc
      simp only [hf, hc', Bool.not_true, Bool.false_eq_true, if_false]
      exact (propagate_fuel ni nj .outWalk .outside none .surf (by decide) (by decide) (by decide) (by decide)
        (ni * nj + 1) (markBorder ni nj g) false hsb (by rw [hsb]; omega)).1
  · have hf' : cfg.flood = false := by simpa using hf
    simp [hf']

end C18
