import ParryModel.Proto
import ParryModel.C18.ModelVox3
import ParryModel.C18.DriverFill3
/-! C18 protocol handlers for the 3-D voxelizer model (`ModelVox3.lean`):
`tribox3` (`intersection_test_aabb_triangle` on its own) and `vox3grid` (the whole `VoxelizedVolume::voxelize`, cell for
cell, no observed input).  Oracles: exact rational 13-axis separating-axis test (box normals, triangle normal, 9 edge
cross products; zero axes skipped — also exact for degenerate triangles), judged with a tolerance on the box size
(a cell must be marked when the triangle meets the box shrunk by the tolerance, must not be when it misses the box grown
by it); the fill is judged by `gridOracle3` (`DriverFill3.lean`) on the surface grid of the output. -/
namespace C18
open Model Model.Vox Model.Vox3 Proto

def rmin3 (a b c : Rat) : Rat := min (min a b) c
def rmax3 (a b c : Rat) : Rat := max (max a b) c

/-- exact closed triangle / closed box intersection; box = centre `ctr`, half sizes `h` -/
def triBoxRat (ctr h a b c : V3 Rat) : Bool :=
  let v0 := a.sub ctr; let v1 := b.sub ctr; let v2 := c.sub ctr
  let e0 := v1.sub v0; let e1 := v2.sub v1; let e2 := v0.sub v2
  let ex : V3 Rat := ⟨1, 0, 0⟩; let ey : V3 Rat := ⟨0, 1, 0⟩; let ez : V3 Rat := ⟨0, 0, 1⟩
  let axes : List (V3 Rat) := [ex, ey, ez, e0.cross e1,
    ex.cross e0, ey.cross e0, ez.cross e0, ex.cross e1, ey.cross e1, ez.cross e1, ex.cross e2, ey.cross e2, ez.cross e2]
  axes.all fun L =>
    if L.x == 0 && L.y == 0 && L.z == 0 then true else
    let p0 := L.dot v0; let p1 := L.dot v1; let p2 := L.dot v2
    let r := h.x * rabs L.x + h.y * rabs L.y + h.z * rabs L.z
    !(rmin3 p0 p1 p2 > r || rmax3 p0 p1 p2 < -r)

structure Vox3Args where
  res : Nat
  fm : Nat
  pts : List (V3 Float)
  tris : List (Nat × Nat × Nat)

def modelVox3 (x : Fill3Args) : String :=
  match x.pts with
  | [] => "empty"
  | p0 :: ps =>
    let r := voxelize3 (x.fm != 0) (x.fm ≥ 2) x.res p0 ps x.tris
    let v := r.1
    if v.panic then "panic" else if !r.2 then "fuel" else
    s!"{v.ni} {v.nj} {v.nk} {fv3 v.origin} {ff v.scale} g{codesString3 v.vals}"

/-- surface check of a whole grid: `(cells that must be surface, cells that may be)` by exact tests on the candidate
cells of every triangle (cells outside the inflated bounding box of the triangle cannot meet it) -/
def surfaceBounds (ni nj nk : Nat) (O : V3 Rat) (S : Rat) (pts : Array (V3 Rat)) (tris : List (Nat × Nat × Nat)) (tol : Rat) :
    Array Bool × Array Bool := Id.run do
  let n := ni * nj * nk
  let mut must : Array Bool := Array.replicate n false
  let mut may : Array Bool := Array.replicate n false
  for t in tris do
    match pts[t.1]?, pts[t.2.1]?, pts[t.2.2]? with
    | some p0, some p1, some p2 =>
      let a := (p0.sub O).smul (1 / S); let b := (p1.sub O).smul (1 / S); let c := (p2.sub O).smul (1 / S)
      let lo (f : V3 Rat → Rat) : Nat := ((rmin3 (f a) (f b) (f c)) - 1).floor.toNat
      let hi (f : V3 Rat → Rat) (m : Nat) : Nat := min m (((rmax3 (f a) (f b) (f c)) + 2).floor.toNat)
      for i in [lo (·.x) : hi (·.x) ni] do
        for j in [lo (·.y) : hi (·.y) nj] do
          for k in [lo (·.z) : hi (·.z) nk] do
            let id := i + j * ni + k * ni * nj
            let ctr : V3 Rat := ⟨i, j, k⟩
            let hp : Rat := 1 / 2 + tol; let hm : Rat := 1 / 2 - tol
            if !(must.getD id false) then
              if triBoxRat ctr ⟨hp, hp, hp⟩ a b c then
                may := may.setIfInBounds id true
                if triBoxRat ctr ⟨hm, hm, hm⟩ a b c then must := must.setIfInBounds id true
    | _, _, _ => pure ()
  return (must, may)

def vox3Oracle (x : Fill3Args) (ni nj nk : Nat) (org : V3 Float) (sc : Float) (codes : Array Nat) : String :=
  if q sc ≤ 0 then "fail nonpositive-scale" else
  if codes.size != ni * nj * nk then "fail grid-size" else
  let (must, may) := surfaceBounds ni nj nk (q3 org) (q sc) (x.pts.map q3).toArray x.tris (1 / 1000000)
  match (List.range (ni * nj * nk)).find? (fun id => must.getD id false && codes.getD id 0 != 8) with
  | some id => s!"fail cell-met-by-a-triangle-not-on-surface cell={coordsOf ni nj id} got={codes.getD id 99}"
  | none =>
  match (List.range (ni * nj * nk)).find? (fun id => codes.getD id 0 == 8 && !(may.getD id false)) with
  | some id => s!"fail surface-cell-met-by-no-triangle cell={coordsOf ni nj id}"
  | none => gridOracle3 x (ni, nj, nk, codes.map (· == 8)) ni nj nk codes

def handlerVox3 (fn : String) : Option Handler :=
  match fn with
  | "tribox3" => some {
      model := fun a => run (do
        let mins ← pv3; let maxs ← pv3; let pa ← pv3; let pb ← pv3; let pc ← pv3
        pure (fb (testAabbTriangle mins maxs pa pb pc))) a
      oracle := fun a o => match run (do
          let mins ← pv3; let maxs ← pv3; let pa ← pv3; let pb ← pv3; let pc ← pv3; pure (mins, maxs, pa, pb, pc)) a with
        | some (mins, maxs, pa, pb, pc) =>
          if !(finite3 mins && finite3 maxs && finite3 pa && finite3 pb && finite3 pc) then "skip non-finite" else
          let mn := q3 mins; let mx := q3 maxs
          if !(mn.x ≤ mx.x && mn.y ≤ mx.y && mn.z ≤ mx.z) then "skip inverted-box" else
          let ctr := (mn.add mx).smul (1 / 2); let h := (mx.sub mn).smul (1 / 2)
          let A := q3 pa; let B := q3 pb; let C := q3 pc
          let big := [ctr.x, ctr.y, ctr.z, h.x, h.y, h.z, A.x, A.y, A.z, B.x, B.y, B.z, C.x, C.y, C.z].foldl (fun m v => max m (rabs v)) 1
          let tol : Rat := big / 10000000
          (match o with
          | ["1"] => if triBoxRat ctr ⟨h.x + tol, h.y + tol, h.z + tol⟩ A B C then "pass" else "fail reports-intersection-but-triangle-misses-the-box"
          | ["0"] =>
            if h.x > tol && h.y > tol && h.z > tol && triBoxRat ctr ⟨h.x - tol, h.y - tol, h.z - tol⟩ A B C
            then "fail reports-no-intersection-but-triangle-meets-the-box" else "pass"
          | "panic" :: _ => "fail panic"
          | _ => "fail unparsable-output")
        | none => "skip bad-args" }
  | "vox3grid" => some {
      model := fun a => run (do let x ← pfill3base; pure (modelVox3 x)) a
      oracle := fun a o => match run pfill3base a with
        | some x => (match domainFill3 x with
          | some why => s!"skip {why}"
          | none => match o with
            | "panic" :: _ => "fail panic"
            | _ => match run (do let ni ← pnat; let nj ← pnat; let nk ← pnat; let org ← pv3; let sc ← pfo; let t ← tok; pure (ni, nj, nk, org, sc, t)) o with
              | some (ni, nj, nk, org, sc, t) => vox3Oracle x ni nj nk org sc ((t.toList.drop 1).map fun c => c.toNat - 48).toArray
              | none => "fail unparsable-output")
        | none => "skip bad-args" }
  | _ => handlerFill3 fn

end C18
