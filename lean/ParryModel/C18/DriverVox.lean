import ParryModel.C18.DriverVox3
import ParryModel.Proto
import ParryModel.C18.ModelVox
import Std.Data.HashSet
import Std.Data.HashMap
/-! C18 protocol handlers for the 2-D voxelizer model (`ModelVox.lean`):
`segbox2`, `clipline2` (the two cell/segment predicates), `vox2grid` (the whole `VoxelizedVolume`, cell for cell),
`vox2set` (the `VoxelSet` and its voxel-to-primitive map). -/
namespace C18
open Model Model.Vox Proto

/-- fill-mode code of the protocol → `Cfg` -/
def cfgOf (fm : Nat) (keep : Bool) : Cfg :=
  match fm with
  | 0 => ⟨false, false, false, keep⟩
  | 1 => ⟨true, false, false, keep⟩
  | 2 => ⟨true, true, false, keep⟩
  | 3 => ⟨true, false, true, keep⟩
  | _ => ⟨true, true, true, keep⟩

structure VoxArgs where
  res : Nat
  fm : Nat
  keep : Bool
  pts : List (V2 Float)
  edges : List (Nat × Nat)

def pvoxargs : P VoxArgs := do
  let res ← pnat; let fm ← pnat; let keep ← pbool
  let pts ← plist pv2
  let edges ← plist (do let a ← pnat; let b ← pnat; pure (a, b))
  pure ⟨res, fm, keep, pts, edges⟩

def codesString (g : Array VV) : String := String.ofList (g.toList.map fun v => Char.ofNat (48 + v.code))

def modelGrid (x : VoxArgs) : String :=
  let r := voxelize (cfgOf x.fm x.keep) x.res x.pts x.edges
  let v := r.1
  if v.panic then "panic" else if !r.2 then "fuel" else
  s!"{v.ni} {v.nj} {fv2 v.origin} {ff v.scale} g{codesString v.vals}"

def modelSet (x : VoxArgs) : String :=
  let r := voxelize (cfgOf x.fm x.keep) x.res x.pts x.edges
  let v := r.1
  if v.panic then "panic" else if !r.2 then "fuel" else
  let vs := toVoxelSet v
  let voxels := vs.1.toList
  let head := String.intercalate " " (toString voxels.length :: voxels.map fun w => s!"{w.i} {w.j} {fb w.surf}")
  if vs.2.isEmpty then s!"{fv2 v.origin} {ff v.scale} {head} nomap" else
  let m := (voxels.filter (·.surf)).map fun w =>
    let l := voxelPrims vs.2 w
    String.intercalate " " (toString l.length :: l.map toString)
  s!"{fv2 v.origin} {ff v.scale} {head} map {String.intercalate " " m}"

/-! ### exact specification side (independent of the model) -/

/-- `∃ t ∈ [0,1], a + t (b - a) ∈ [mins, maxs]`, decided exactly (interval of admissible `t` per axis) -/
def segBoxRat (mins maxs a b : V2 Rat) : Bool :=
  let ax (lo hi o d : Rat) (t : Rat × Rat) : Option (Rat × Rat) :=
    if d = 0 then (if lo ≤ o ∧ o ≤ hi then some t else none)
    else
      let t1 := (lo - o) / d; let t2 := (hi - o) / d
      let r := (max t.1 (min t1 t2), min t.2 (max t1 t2))
      if r.1 ≤ r.2 then some r else none
  match ax mins.x maxs.x a.x (b.x - a.x) (0, 1) with
  | none => false
  | some t => (ax mins.y maxs.y a.y (b.y - a.y) t).isSome

def inflate (mins maxs : V2 Rat) (d : Rat) : V2 Rat × V2 Rat := (⟨mins.x - d, mins.y - d⟩, ⟨maxs.x + d, maxs.y + d⟩)

/-- verdict for a boolean cell/segment test: `got` must be true if the segment meets the box shrunk by `tol` and false
if it misses the box grown by `tol` -/
def judgeTest (mins maxs a b : V2 Rat) (tol : Rat) (got : Bool) : String :=
  let sh := inflate mins maxs (-tol)
  let gr := inflate mins maxs tol
  if sh.1.x ≤ sh.2.x && sh.1.y ≤ sh.2.y && segBoxRat sh.1 sh.2 a b && !got then "fail segment-meets-box-but-test-is-false"
  else if !segBoxRat gr.1 gr.2 a b && got then "fail test-true-but-segment-misses-box"
  else "pass"

/-- the cells whose closed unit square (grown by `d`) meets the grid-space segment `g0 g1`, among the cells of the
bounding range of the segment ± 2 -/
def cellsMeeting (ni nj : Nat) (g0 g1 : V2 Rat) (d : Rat) : List (Nat × Nat) :=
  let lo (a b : Rat) : Nat := ((min a b).floor - 2).toNat
  let hi (a b : Rat) (n : Nat) : Nat := min n ((max a b).floor + 3).toNat
  (List.range' (lo g0.x g1.x) (hi g0.x g1.x ni - lo g0.x g1.x)).flatMap fun (i : Nat) =>
    (List.range' (lo g0.y g1.y) (hi g0.y g1.y nj - lo g0.y g1.y)).filterMap fun (j : Nat) =>
      let h : Rat := 1 / 2 + d
      if segBoxRat ⟨(i : Rat) - h, (j : Rat) - h⟩ ⟨(i : Rat) + h, (j : Rat) + h⟩ g0 g1 then some (i, j) else none

/-- BFS flood fill (specification): the non-surface cells 4-connected, through non-surface cells, to a non-surface
cell of the border of the `ni × nj` grid -/
def reachSpec (ni nj : Nat) (surf : Std.HashSet (Nat × Nat)) : Std.HashSet (Nat × Nat) := Id.run do
  let mut seen : Std.HashSet (Nat × Nat) := {}
  let mut work : List (Nat × Nat) := []
  for i in [0:ni] do
    for j in [0:nj] do
      if (i = 0 || j = 0 || i + 1 = ni || j + 1 = nj) && !surf.contains (i, j) then
        seen := seen.insert (i, j)
        work := (i, j) :: work
  let mut fuel := ni * nj * 5 + 10
  while fuel > 0 && !work.isEmpty do
    fuel := fuel - 1
    match work with
    | [] => pure ()
    | (i, j) :: rest =>
      work := rest
      let nbrs := [(i + 1, j), (i, j + 1)] ++ (if i > 0 then [(i - 1, j)] else []) ++ (if j > 0 then [(i, j - 1)] else [])
      for (a, b) in nbrs do
        if a < ni && b < nj && !seen.contains (a, b) && !surf.contains (a, b) then
          seen := seen.insert (a, b)
          work := (a, b) :: work
  return seen

def gridSpaceEdges (x : VoxArgs) (origin : V2 Float) (scale : Float) : List (Nat × V2 Rat × V2 Rat) :=
  let O := q2 origin; let S := q scale
  let P := x.pts.toArray.map q2
  x.edges.zipIdx.filterMap fun (e, k) =>
    match P[e.1]?, P[e.2]? with
    | some pa, some pb => some (k, (pa.sub O).smul (1 / S), (pb.sub O).smul (1 / S))
    | _, _ => none

def gridOracle (x : VoxArgs) (ni nj : Nat) (origin : V2 Float) (scale : Float) (codes : List Nat) : String :=
  if x.res < 2 || x.pts.isEmpty then "skip outside-domain" else
  if q scale ≤ 0 then "fail nonpositive-scale" else
  if codes.length != ni * nj then "fail grid-size" else
  if !(ni == x.res || nj == x.res) then "fail resolution-not-on-the-major-axis" else
  let g := codes.toArray
  let code (i j : Nat) : Nat := g.getD (i + j * ni) 0
  let edges := gridSpaceEdges x origin scale
  let tol : Rat := 1 / 1000000
  let must : Std.HashSet (Nat × Nat) := Std.HashSet.ofList (edges.flatMap fun (_, g0, g1) => cellsMeeting ni nj g0 g1 (-tol))
  let may : Std.HashSet (Nat × Nat) := Std.HashSet.ofList (edges.flatMap fun (_, g0, g1) => cellsMeeting ni nj g0 g1 tol)
  let cells := (List.range ni).flatMap fun i => (List.range nj).map fun j => (i, j)
  match cells.filter (fun c => must.contains c && code c.1 c.2 != 8) with
  | c :: _ => s!"fail cell-met-by-a-segment-not-marked-surface ({c.1},{c.2})"
  | [] =>
  match cells.filter (fun c => code c.1 c.2 == 8 && !may.contains c) with
  | c :: _ => s!"fail surface-cell-met-by-no-segment ({c.1},{c.2})"
  | [] =>
  let surf : Std.HashSet (Nat × Nat) := Std.HashSet.ofList (cells.filter fun c => code c.1 c.2 == 8)
  if x.fm = 0 then
    match cells.filter (fun c => code c.1 c.2 != 8 && code c.1 c.2 != 6) with
    | c :: _ => s!"fail surface-only-cell-neither-surface-nor-outside ({c.1},{c.2})"
    | [] => "pass"
  else if x.fm = 1 || x.fm = 3 then
    let out := reachSpec ni nj surf
    match cells.filter (fun c => !surf.contains c && (code c.1 c.2 == 6) != out.contains c) with
    | c :: _ => s!"fail outside-flag-differs-from-flood-fill-spec ({c.1},{c.2})"
    | [] =>
      match cells.filter (fun c => !surf.contains c && !out.contains c && code c.1 c.2 != 7) with
      | c :: _ => s!"fail enclosed-cell-not-inside ({c.1},{c.2})"
      | [] => "pass"
  else
    -- detect_cavities: the inside/outside alternation is a recorded known finding (KNOWN_FINDINGS.txt, judged by the
    -- `voxelize2` even-odd oracle; it also leaves `PrimitiveInsideSurfaceToWalk` cells in the final grid).  Judged here:
    -- the part the alternation cannot spoil — every cell connected to the border through non-surface cells is outside,
    -- and no outside cell is enclosed... the latter is exactly what the defect breaks, so only the former.
    let out := reachSpec ni nj surf
    match cells.filter (fun c => out.contains c && code c.1 c.2 != 6) with
    | c :: _ => s!"fail border-connected-cell-not-outside ({c.1},{c.2})"
    | [] => "pass"

structure SetOut where
  origin : V2 Float
  scale : Float
  voxels : List (Nat × Nat × Bool)
  map : Option (List (List Nat))

def psetout : P SetOut := do
  let org ← pv2; let sc ← pfo
  let vs ← plist (do let i ← pnat; let j ← pnat; let s ← pbool; pure (i, j, s))
  let t ← tok
  if t = "nomap" then pure ⟨org, sc, vs, none⟩ else
  let ns := (vs.filter (·.2.2)).length
  let rec go : Nat → P (List (List Nat))
    | 0 => pure []
    | n + 1 => do let l ← plist pnat; let r ← go n; pure (l :: r)
  let m ← go ns
  pure ⟨org, sc, vs, some m⟩

def ltCell (a b : Nat × Nat) : Bool := a.1 < b.1 || (a.1 == b.1 && a.2 < b.2)

def setOracle (x : VoxArgs) (o : SetOut) : String :=
  if x.res < 2 || x.pts.isEmpty then "skip outside-domain" else
  if q o.scale ≤ 0 then "fail nonpositive-scale" else
  let cells := o.voxels.map fun v => (v.1, v.2.1)
  -- strictly increasing scan order (hence no duplicates)
  if !(cells.zip (cells.drop 1)).all (fun (a, b) => ltCell a b) then "fail voxels-not-in-strict-scan-order" else
  let ni := cells.foldl (fun m c => max m (c.1 + 1)) 0
  let nj := cells.foldl (fun m c => max m (c.2 + 1)) 0
  let edges := gridSpaceEdges x o.origin o.scale
  let tol : Rat := 1 / 1000000
  let surf : Std.HashSet (Nat × Nat) := Std.HashSet.ofList ((o.voxels.filter (·.2.2)).map fun v => (v.1, v.2.1))
  -- every cell met by a segment is a surface voxel (input coverage)
  match edges.flatMap (fun (_, g0, g1) => (cellsMeeting (ni + 2) (nj + 2) g0 g1 (-tol)).filter fun c => !surf.contains c) with
  | c :: _ => s!"fail cell-met-by-a-segment-is-not-a-surface-voxel ({c.1},{c.2})"
  | [] =>
  match o.map with
  | none => if x.keep && !surf.isEmpty then "fail map-missing" else "pass"
  | some m =>
    if !x.keep then "fail map-present-without-keep-flag" else
    let sv := (o.voxels.filter (·.2.2)).map fun v => (v.1, v.2.1)
    if sv.length != m.length then "fail map-length" else
    let bad := (sv.zip m).filterMap fun (c, l) =>
      let h (d : Rat) : Rat := 1 / 2 + d
      let meets (d : Rat) (k : Nat) : Bool := edges.any fun (k', g0, g1) =>
        k' == k && segBoxRat ⟨(c.1 : Rat) - h d, (c.2 : Rat) - h d⟩ ⟨(c.1 : Rat) + h d, (c.2 : Rat) + h d⟩ g0 g1
      if !(l.zip (l.drop 1)).all (fun (a, b) => a < b) then some s!"fail map-list-not-strictly-increasing ({c.1},{c.2})"
      else match l.filter (fun k => !meets tol k) with
        | k :: _ => some s!"fail map-lists-primitive-{k}-that-misses-the-voxel ({c.1},{c.2})"
        | [] => match (edges.filter fun (k, _, _) => meets (-tol) k && !l.contains k) with
          | (k, _, _) :: _ => some s!"fail map-omits-primitive-{k}-that-meets-the-voxel ({c.1},{c.2})"
          | [] => none
    match bad with
    | b :: _ => b
    | [] => "pass"

def handlerVox (fn : String) : Option Handler :=
  match fn with
  | "segbox2" => some {
      model := fun a => run (do
        let mins ← pv2; let maxs ← pv2; let pa ← pv2; let pb ← pv2
        pure (fb (testAabbSegment mins maxs pa pb))) a
      oracle := fun a o => match run (do let mins ← pv2; let maxs ← pv2; let pa ← pv2; let pb ← pv2; pure (mins, maxs, pa, pb)) a with
        | some (mins, maxs, pa, pb) => (match o with
          | ["0"] | ["1"] =>
            let m := q2 mins; let M := q2 maxs; let A := q2 pa; let B := q2 pb
            if !(m.x ≤ M.x && m.y ≤ M.y) then "skip empty-box" else
            let mag := rabs m.x + rabs m.y + rabs M.x + rabs M.y + rabs A.x + rabs A.y + rabs B.x + rabs B.y
            judgeTest m M A B (tolDefault * (1 + mag)) (o == ["1"])
          | _ => "fail unparsable-output")
        | none => "skip bad-args" }
  | "clipline2" => some {
      model := fun a => run (do
        let mins ← pv2; let maxs ← pv2; let org ← pv2; let dir ← pv2
        pure (match clipLineParams mins maxs org dir with
          | none => "none"
          | some (t0, t1) => s!"{ff t0} {ff t1}")) a
      oracle := fun a o => match run (do let mins ← pv2; let maxs ← pv2; let org ← pv2; let dir ← pv2; pure (mins, maxs, org, dir)) a with
        | some (mins, maxs, org, dir) =>
          let m := q2 mins; let M := q2 maxs; let O := q2 org; let D := q2 dir
          if !(m.x ≤ M.x && m.y ≤ M.y) then "skip empty-box" else
          let mag := 1 + rabs m.x + rabs m.y + rabs M.x + rabs M.y + rabs O.x + rabs O.y
          let tol := tolDefault * mag
          (match o with
          | ["none"] =>
            -- then no point of the line lies in the box shrunk by tol: test the (very long) segment around the box
            if D.x = 0 && D.y = 0 then
              (if m.x + tol ≤ O.x && O.x ≤ M.x - tol && m.y + tol ≤ O.y && O.y ≤ M.y - tol then "fail none-but-origin-inside" else "pass")
            else
              let L := (rabs (M.x - O.x) + rabs (m.x - O.x) + rabs (M.y - O.y) + rabs (m.y - O.y) + 1) / (rabs D.x + rabs D.y)
              let sh := inflate m M (-tol)
              if sh.1.x ≤ sh.2.x && sh.1.y ≤ sh.2.y && segBoxRat sh.1 sh.2 (O.sub (D.smul L)) (O.add (D.smul L)) then "fail none-but-line-meets-box" else "pass"
          | [s0, s1] => (match run (do let t0 ← pfo; let t1 ← pfo; pure (t0, t1)) [s0, s1] with
            | some (t0, t1) =>
              if !(FloatIO.isFinite t0 && FloatIO.isFinite t1) then "skip non-finite-parameters" else
              let T0 := q t0; let T1 := q t1
              if T0 > T1 then "fail t0>t1" else
              -- both end points of the clipped line lie in the box grown by a tolerance scaled by the parameter
              let chk (T : Rat) : Bool :=
                let p := O.add (D.smul T)
                let tl := tol * (1 + rabs T) * (1 + rabs D.x + rabs D.y)
                m.x - tl ≤ p.x && p.x ≤ M.x + tl && m.y - tl ≤ p.y && p.y ≤ M.y + tl
              if rabs T0 < 1000000000000 && !chk T0 then "fail near-point-outside-box"
              else if rabs T1 < 1000000000000 && !chk T1 then "fail far-point-outside-box" else "pass"
            | none => "fail unparsable-output")
          | _ => "fail unparsable-output")
        | none => "skip bad-args" }
  | "vox2grid" => some {
      model := fun a => run (do let x ← pvoxargs; pure (modelGrid x)) a
      oracle := fun a o => match run pvoxargs a with
        | some x => (match o with
          | "panic" :: _ => if x.res < 2 || x.pts.isEmpty then "skip outside-domain" else "fail panic"
          | _ => match run (do let ni ← pnat; let nj ← pnat; let org ← pv2; let sc ← pfo; let t ← tok; pure (ni, nj, org, sc, t)) o with
            | some (ni, nj, org, sc, t) =>
              gridOracle x ni nj org sc ((t.toList.drop 1).map fun c => c.toNat - 48)
            | none => "fail unparsable-output")
        | none => "skip bad-args" }
  | "vox2set" => some {
      model := fun a => run (do let x ← pvoxargs; pure (modelSet x)) a
      oracle := fun a o => match run pvoxargs a with
        | some x => (match o with
          | "panic" :: _ => if x.res < 2 || x.pts.isEmpty then "skip outside-domain" else "fail panic"
          | _ => match run psetout o with
            | some so => setOracle x so
            | none => "fail unparsable-output")
        | none => "skip bad-args" }
  | _ => handlerVox3 fn

end C18
