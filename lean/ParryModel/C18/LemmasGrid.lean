import ParryModel.C18.LemmasMark
import ParryModel.C18.LemmasVox
/-!
# C18 lemmas for the 2-D voxelizer model, part 4: index arithmetic at the lawful instance
`x as u32` is `fieldCast tr` with `LawfulTrunc tr` (floor on non-negative arguments): the candidate range of a segment is
complete (`range_complete`), the cell test is complete (`cellHit_complete`), `local_point_cloud_aabb` bounds the cloud,
the scale is positive and `inv_scale = 1/scale`.
-/
set_option linter.style.haveILetI false
set_option linter.unusedSectionVars false
set_option linter.unusedVariables false
set_option linter.unusedSimpArgs false
namespace C18
open Model Model.Vox
variable {K : Type} [Field K] [LinearOrder K] [IsStrictOrderedRing K] (sq : K → K) (tr : K → Nat)

/-- `x as u32` at the lawful instance -/
@[reducible] def fieldCast (tr : K → Nat) : Cast K := ⟨tr⟩

/-- `tr` is the floor on non-negative arguments (what `x as u32` is for `0 ≤ x < 2^32`) -/
structure LawfulTrunc (tr : K → Nat) : Prop where
  le : ∀ x, 0 ≤ x → (tr x : K) ≤ x
  lt : ∀ x, 0 ≤ x → x < (tr x : K) + 1

theorem lit_nat (n : Nat) : @lit K (fieldNum K sq) (n : Int) 1 = (n : K) := by
  rw [fieldNum_lit, Rat.mkRat_one]; simp

theorem tr_mono {tr : K → Nat} (h : LawfulTrunc tr) {x y : K} (hx : 0 ≤ x) (hxy : x ≤ y) : tr x ≤ tr y := by
  have h1 := h.le x hx
  have h2 := h.lt y (le_trans hx hxy)
  have : (tr x : K) < (tr y : K) + 1 := by linarith
  have : (tr x : K) < ((tr y + 1 : Nat) : K) := by push_cast; exact this
  exact Nat.lt_succ_iff.mp (Nat.cast_lt.mp this)

theorem cellOf_field (g : V2 K) :
    letI := fieldNum K sq; letI := fieldCast tr
    cellOf g = (tr (g.x + 1 / 2), tr (g.y + 1 / 2)) := by
  letI := fieldNum K sq; letI := fieldCast tr
  simp only [cellOf, half_lit]
  rfl

theorem cellAabb_field (tr : K → Nat) (i j : Nat) :
    letI := fieldNum K sq; letI := fieldCast tr
    cellAabb (K := K) i j = (⟨(i : K) - 1 / 2, (j : K) - 1 / 2⟩, ⟨(i : K) + 1 / 2, (j : K) + 1 / 2⟩) := by
  letI := fieldNum K sq; letI := fieldCast tr
  simp only [cellAabb, V2.sub, V2.add, half_lit, lit_nat]

/-- **the candidate range is complete**: a cell whose closed unit square contains a point of the grid-space segment
lies in the range `[min − 1, max + 1) ∩ grid` computed from the cells of the two end points. -/
theorem range_complete (htr : LawfulTrunc tr) (ni nj : Nat) (g0 g1 : V2 K)
    (h0x : 0 ≤ g0.x) (h0y : 0 ≤ g0.y) (h1x : 0 ≤ g1.x) (h1y : 0 ≤ g1.y) (t : K) (ht0 : 0 ≤ t) (ht1 : t ≤ 1)
    (c : Nat × Nat) (hc : InB ni nj c)
    (hx : |g0.x + (g1.x - g0.x) * t - (c.1 : K)| ≤ 1 / 2) (hy : |g0.y + (g1.y - g0.y) * t - (c.2 : K)| ≤ 1 / 2) :
    letI := fieldNum K sq; letI := fieldCast tr
    c ∈ segCells ni nj g0 g1 := by
  letI := fieldNum K sq; letI := fieldCast tr
  unfold segCells
  rw [mem_cellsIn]
  simp only [segRange, cellOf_field]
  have key : ∀ (u v : K) (n : Nat), 0 ≤ u → 0 ≤ v → |u + (v - u) * t - (n : K)| ≤ 1 / 2 →
      min (tr (u + 1 / 2)) (tr (v + 1 / 2)) - 1 ≤ n ∧ n < max (tr (u + 1 / 2)) (tr (v + 1 / 2)) + 1 := by
    intro u v n hu hv hn
    obtain ⟨b1, b2⟩ := conv_between u v t ht0 ht1
    obtain ⟨a1, a2⟩ := abs_le.mp hn
    have hu' : (0:K) ≤ u + 1 / 2 := by linarith
    have hv' : (0:K) ≤ v + 1 / 2 := by linarith
    constructor
    · -- lower bound
      have m1 : ((min (tr (u + 1 / 2)) (tr (v + 1 / 2)) : Nat) : K) ≤ (tr (u + 1 / 2) : K) := by
        exact_mod_cast Nat.min_le_left _ _
      have m2 : ((min (tr (u + 1 / 2)) (tr (v + 1 / 2)) : Nat) : K) ≤ (tr (v + 1 / 2) : K) := by
        exact_mod_cast Nat.min_le_right _ _
      have : ((min (tr (u + 1 / 2)) (tr (v + 1 / 2)) : Nat) : K) ≤ min u v + 1 / 2 := by
        rcases le_total u v with h | h
        · rw [min_eq_left h]; linarith [htr.le _ hu']
        · rw [min_eq_right h]; linarith [htr.le _ hv']
      generalize min (tr (u + 1 / 2)) (tr (v + 1 / 2)) = M at *
      have h3 : (M : K) < ((n + 2 : Nat) : K) := by
        push_cast; linarith
      have := Nat.cast_lt.mp h3
      omega
    · have m1 : (tr (u + 1 / 2) : K) ≤ ((max (tr (u + 1 / 2)) (tr (v + 1 / 2)) : Nat) : K) := by
        exact_mod_cast Nat.le_max_left _ _
      have m2 : (tr (v + 1 / 2) : K) ≤ ((max (tr (u + 1 / 2)) (tr (v + 1 / 2)) : Nat) : K) := by
        exact_mod_cast Nat.le_max_right _ _
      have : max u v + 1 / 2 < ((max (tr (u + 1 / 2)) (tr (v + 1 / 2)) : Nat) : K) + 1 := by
        rcases le_total u v with h | h
        · rw [max_eq_right h]; linarith [htr.lt _ hv']
        · rw [max_eq_left h]; linarith [htr.lt _ hu']
      generalize max (tr (u + 1 / 2)) (tr (v + 1 / 2)) = M at *
      have h3 : (n : K) < ((M + 1 : Nat) : K) := by
        push_cast; linarith
      exact Nat.cast_lt.mp h3
  obtain ⟨x1, x2⟩ := key g0.x g1.x c.1 h0x h1x hx
  obtain ⟨y1, y2⟩ := key g0.y g1.y c.2 h0y h1y hy
  have := hc.1; have := hc.2
  refine ⟨⟨x1, ?_⟩, ⟨y1, ?_⟩⟩ <;> omega

/-- the cell test is complete: if a point of the grid-space segment lies in the closed unit square of cell `c`, the
test returns `true` -/
theorem cellHit_complete (tr : K → Nat) (hsq : LawfulSqrt sq) (g0 g1 : V2 K) (t : K) (ht0 : 0 ≤ t) (ht1 : t ≤ 1) (c : Nat × Nat)
    (hx : |g0.x + (g1.x - g0.x) * t - (c.1 : K)| ≤ 1 / 2) (hy : |g0.y + (g1.y - g0.y) * t - (c.2 : K)| ≤ 1 / 2) :
    letI := fieldNum K sq; letI := fieldCast tr
    cellHit g0 g1 c = true := by
  letI := fieldNum K sq; letI := fieldCast tr
  unfold cellHit
  rw [cellAabb_field sq tr]
  simp only []
  obtain ⟨a1, a2⟩ := abs_le.mp hx
  obtain ⟨b1, b2⟩ := abs_le.mp hy
  rw [testAabbSegment_iff sq hsq _ _ g0 g1 (by simp only []; linarith) (by simp only []; linarith)]
  exact sat_of_common_point sq _ _ g0 g1 t ht0 ht1 ⟨by simp only []; linarith, by simp only []; linarith⟩
    ⟨by simp only []; linarith, by simp only []; linarith⟩

/-- `local_point_cloud_aabb` bounds every point of the cloud -/
theorem cloudAabb_bounds (p0 : V2 K) (ps : List (V2 K)) :
    letI := fieldNum K sq
    ∀ p ∈ p0 :: ps, ((cloudAabb p0 ps).1.x ≤ p.x ∧ p.x ≤ (cloudAabb p0 ps).2.x) ∧
      ((cloudAabb p0 ps).1.y ≤ p.y ∧ p.y ≤ (cloudAabb p0 ps).2.y) := by
  letI := fieldNum K sq
  unfold cloudAabb
  have gen : ∀ (l : List (V2 K)) (acc : V2 K × V2 K) (q : V2 K),
      (q ∈ l ∨ ((acc.1.x ≤ q.x ∧ q.x ≤ acc.2.x) ∧ (acc.1.y ≤ q.y ∧ q.y ≤ acc.2.y))) →
      (((l.foldl (fun acc p => (acc.1.inf p, acc.2.sup p)) acc).1.x ≤ q.x ∧ q.x ≤ (l.foldl (fun acc p => (acc.1.inf p, acc.2.sup p)) acc).2.x) ∧
       ((l.foldl (fun acc p => (acc.1.inf p, acc.2.sup p)) acc).1.y ≤ q.y ∧ q.y ≤ (l.foldl (fun acc p => (acc.1.inf p, acc.2.sup p)) acc).2.y)) := by
    intro l
    induction l with
    | nil => intro acc q h; rcases h with h | h; cases h; exact h
    | cons a l ih =>
      intro acc q h
      rw [List.foldl_cons]
      apply ih
      rcases h with h | h
      · rcases List.mem_cons.mp h with rfl | h
        · right
          simp only [V2.inf, V2.sup, fieldNum_nmin, fieldNum_nmax]
          exact ⟨⟨min_le_right _ _, le_max_right _ _⟩, ⟨min_le_right _ _, le_max_right _ _⟩⟩
        · left; exact h
      · right
        simp only [V2.inf, V2.sup, fieldNum_nmin, fieldNum_nmax]
        exact ⟨⟨le_trans (min_le_left _ _) h.1.1, le_trans h.1.2 (le_max_left _ _)⟩,
               ⟨le_trans (min_le_left _ _) h.2.1, le_trans h.2.2 (le_max_left _ _)⟩⟩
  intro p hp
  apply gen
  rcases List.mem_cons.mp hp with rfl | h
  · right; exact ⟨⟨le_refl _, le_refl _⟩, ⟨le_refl _, le_refl _⟩⟩
  · left; exact h

/-- grid parameters at the lawful instance: positive scale, `inv_scale = 1 / scale`, at least one cell per axis -/
theorem gridParams_field (tr : K → Nat) (res : Nat) (hres : 2 ≤ res) (mn mx : V2 K) (hx : mn.x ≤ mx.x) (hy : mn.y ≤ mx.y)
    (hext : mn.x < mx.x ∨ mn.y < mx.y) :
    letI := fieldNum K sq; letI := fieldCast tr
    0 < (gridParams res mn mx).2.2.1 ∧ 0 < (gridParams res mn mx).2.2.2 ∧
    (gridParams res mn mx).2.2.1 * (gridParams res mn mx).2.2.2 = 1 ∧
    1 ≤ (gridParams res mn mx).1 ∧ 1 ≤ (gridParams res mn mx).2.1 := by
  letI := fieldNum K sq; letI := fieldCast tr
  have hr : (0:K) < (res : K) - 1 := by
    have : (2:K) ≤ (res : K) := by exact_mod_cast hres
    linarith
  unfold gridParams
  simp only [V2.sub, lit_nat]
  split_ifs with h
  · have hd : 0 < mx.x - mn.x := by linarith
    refine ⟨div_pos hd hr, div_pos hr hd, ?_, by show 1 ≤ res; omega, by show 1 ≤ 2 + _; omega⟩
    field_simp
  · have hd : 0 < mx.y - mn.y := by
      rcases hext with e | e <;> linarith
    refine ⟨div_pos hd hr, div_pos hr hd, ?_, by show 1 ≤ 2 + _; omega, by show 1 ≤ res; omega⟩
    field_simp

section
variable {K : Type} [Num K] [Cast K]

theorem markSeg_ok (cfg : Cfg) (invScale : K) (pts : Array (V2 K)) (st : Vol K) (hp : st.panic = false) (k : Nat) (e : Nat × Nat)
    (a b : V2 K) (ha : pts[e.1]? = some a) (hb : pts[e.2]? = some b)
    (hok : AssertOk st.ni st.nj (gridPt st.origin invScale a) (gridPt st.origin invScale b)) :
    markSeg cfg invScale pts st (k, e) =
      (segCells st.ni st.nj (gridPt st.origin invScale a) (gridPt st.origin invScale b)).foldl
        (markCell cfg (gridPt st.origin invScale a) (gridPt st.origin invScale b) k) st := by
  unfold markSeg
  simp only [hp, Bool.false_eq_true, if_false, ha, hb]
  have hok' : (cellOf (gridPt st.origin invScale a)).1 < st.ni ∧ (cellOf (gridPt st.origin invScale a)).2 < st.nj ∧
      (cellOf (gridPt st.origin invScale b)).1 < st.ni ∧ (cellOf (gridPt st.origin invScale b)).2 < st.nj := hok
  rw [if_neg (not_not.mpr hok')]
  rfl

/-- the marking loop does not panic when every primitive passes the index lookup and the `assert!`s -/
theorem markEdges_no_panic (cfg : Cfg) (hsi : cfg.detectSelfInter = false) (invScale : K) (pts : Array (V2 K)) :
    ∀ (es : List ((Nat × Nat) × Nat)) (st : Vol K), MGood st → st.panic = false →
    (∀ ek ∈ es, EdgeOk pts st.origin invScale st.ni st.nj ek) →
    (es.foldl (fun st e => markSeg cfg invScale pts st (e.2, e.1)) st).panic = false
  | [], st, _, hp, _ => hp
  | e :: es, st, hg, hp, hall => by
    rw [List.foldl_cons]
    obtain ⟨a, b, ha, hb, hok⟩ := hall e List.mem_cons_self
    rw [markSeg_ok cfg invScale pts st hp e.2 e.1 a b ha hb hok]
    obtain ⟨i1, i2, i3, i4, i5, i6, _, _⟩ := markCells_spec cfg hsi (gridPt st.origin invScale a) (gridPt st.origin invScale b) e.2
      (segCells st.ni st.nj (gridPt st.origin invScale a) (gridPt st.origin invScale b)) st hg (segCells_inB _ _ _ _)
    apply markEdges_no_panic cfg hsi invScale pts es _ i6 (by rw [i5]; exact hp)
    intro ek hek
    rw [i1, i2, i3]
    exact hall ek (List.mem_cons_of_mem _ hek)
end

section field
variable {K : Type} [Field K] [LinearOrder K] [IsStrictOrderedRing K] (sq : K → K) (tr : K → Nat)

/-- **the two `assert!`s cannot fire** on a point of the bounding box: its cell index is inside the grid -/
theorem assert_ok_field (tr : K → Nat) (htr : LawfulTrunc tr) (res : Nat) (hres : 2 ≤ res) (mn mx a : V2 K)
    (hax : mn.x ≤ a.x ∧ a.x ≤ mx.x) (hay : mn.y ≤ a.y ∧ a.y ≤ mx.y) (hext : mn.x < mx.x ∨ mn.y < mx.y) :
    letI := fieldNum K sq; letI := fieldCast tr
    (cellOf (gridPt mn (gridParams res mn mx).2.2.2 a)).1 < (gridParams res mn mx).1 ∧
    (cellOf (gridPt mn (gridParams res mn mx).2.2.2 a)).2 < (gridParams res mn mx).2.1 := by
  letI := fieldNum K sq; letI := fieldCast tr
  have hr : (0:K) < (res : K) - 1 := by
    have : (2:K) ≤ (res : K) := by exact_mod_cast hres
    linarith
  rw [cellOf_field]
  unfold gridParams
  simp only [V2.sub, lit_nat, gridPt, V2.smul]
  -- a generic bound: `u ∈ [0, d]`, `d ≤ D`, `D > 0`: the cell of `u (res-1)/D` is below `2 + ⌊res d / D⌋`, and below `res` when `d = D`
  have major : ∀ (u D : K), 0 ≤ u → u ≤ D → 0 < D → tr (u * (((res : K) - 1) / D) + 1 / 2) < res := by
    intro u D hu hud hD
    have h1 : u * (((res : K) - 1) / D) ≤ (res : K) - 1 := by
      rw [mul_div_assoc']
      rw [div_le_iff₀ hD]
      nlinarith
    have h0 : 0 ≤ u * (((res : K) - 1) / D) := mul_nonneg hu (div_nonneg hr.le hD.le)
    have := htr.le (u * (((res : K) - 1) / D) + 1 / 2) (by linarith)
    have h3 : (tr (u * (((res : K) - 1) / D) + 1 / 2) : K) < (res : K) := by linarith
    exact_mod_cast h3
  have minor : ∀ (u d D : K), 0 ≤ u → u ≤ d → 0 < D →
      tr (u * (((res : K) - 1) / D) + 1 / 2) < 2 + tr ((res : K) * d / D) := by
    intro u d D hu hud hD
    have hd : 0 ≤ d := le_trans hu hud
    have h0 : 0 ≤ u * (((res : K) - 1) / D) := mul_nonneg hu (div_nonneg hr.le hD.le)
    have h1 : u * (((res : K) - 1) / D) ≤ (res : K) * d / D := by
      rw [mul_div_assoc', div_le_div_iff_of_pos_right hD]
      nlinarith
    have hpos : 0 ≤ (res : K) * d / D := div_nonneg (mul_nonneg (by linarith) hd) hD.le
    have a1 := htr.le (u * (((res : K) - 1) / D) + 1 / 2) (by linarith)
    have a2 := htr.lt ((res : K) * d / D) hpos
    have h3 : (tr (u * (((res : K) - 1) / D) + 1 / 2) : K) < ((2 + tr ((res : K) * d / D) : Nat) : K) := by
      push_cast; linarith
    exact_mod_cast h3
  split_ifs with h
  · have hD : 0 < mx.x - mn.x := by linarith
    exact ⟨major (a.x - mn.x) (mx.x - mn.x) (by linarith) (by linarith) hD,
      minor (a.y - mn.y) (mx.y - mn.y) (mx.x - mn.x) (by linarith) (by linarith) hD⟩
  · have hD : 0 < mx.y - mn.y := by rcases hext with e | e <;> linarith
    exact ⟨minor (a.x - mn.x) (mx.x - mn.x) (mx.y - mn.y) (by linarith) (by linarith) hD,
      major (a.y - mn.y) (mx.y - mn.y) (by linarith) (by linarith) hD⟩
end field
end C18
