import ParryModel.Proto
import ParryModel.C18.Model
import ParryModel.C18.ModelAcd2
import ParryModel.C18.DriverVox
import ParryModel.C18.DriverMap3
import Std.Data.HashSet
/-! C18 protocol handlers. -/
namespace C18
open Model Proto

def pvoxel : P Voxel := do let i ← pnat; let j ← pnat; let k ← pnat; let s ← pbool; pure ⟨i, j, k, s⟩
def pvoxels : P (List Voxel) := plist pvoxel
/-- implementation-output point: components may be `nan` -/
def pv3o : P (V3 Float) := do let x ← pfo; let y ← pfo; let z ← pfo; pure ⟨x, y, z⟩
def pv2o : P (V2 Float) := do let x ← pfo; let y ← pfo; pure ⟨x, y⟩
def pmesh : P (List (V3 Float) × List (Nat × Nat × Nat)) := do
  let pts ← plist pv3
  let tris ← plist (do let a ← pnat; let b ← pnat; let c ← pnat; pure (a, b, c))
  pure (pts, tris)
def pdecision : P (Option (CutPlane Float)) := do
  let t ← pnat
  if t = 0 then pure none else do let abc ← pv3; let d ← pf; pure (some ⟨abc, d⟩)
def fvoxels (vs : List Voxel) : String :=
  String.intercalate " " (toString vs.length :: vs.map fun v => s!"{v.i} {v.j} {v.k} {fb v.surf}")
def fparts (ps : List (List Voxel)) : String :=
  String.intercalate " " (toString ps.length :: ps.map fvoxels)
def pparts : P (List (List Voxel)) := plist pvoxels

structure AcdArgs where
  maxh : Nat
  res : Nat
  pts : List (V3 Float)
  tris : List (Nat × Nat × Nat)
  origin : V3 Float
  scale : Float
  voxels : List Voxel
  decs : List (Option (CutPlane Float))

/-- the plain arguments of `acd3` / `hulls3` (what is left when the real code panicked): resolution and mesh -/
def pacdBase : P (Nat × List (V3 Float) × List (Nat × Nat × Nat)) := do
  let _maxh ← pnat; let res ← pnat; let _fm ← pnat; let _conc ← pf; let _pds ← pnat; let _hds ← pnat
  let (pts, tris) ← pmesh
  pure (res, pts, tris)

def pacd : P AcdArgs := do
  let maxh ← pnat; let res ← pnat; let _fm ← pnat; let _conc ← pf; let _pds ← pnat; let _hds ← pnat
  let (pts, tris) ← pmesh
  let origin ← pv3; let scale ← pfo
  let voxels ← pvoxels
  let decs ← plist pdecision
  pure ⟨maxh, res, pts, tris, origin, scale, voxels, decs⟩

def ltCoord (a b : Nat × Nat × Nat) : Bool :=
  a.1 < b.1 || (a.1 == b.1 && (a.2.1 < b.2.1 || (a.2.1 == b.2.1 && a.2.2 < b.2.2)))
def sortCoords (l : List (Nat × Nat × Nat)) : List (Nat × Nat × Nat) := (l.toArray.qsort ltCoord).toList

def acdOracle (a : AcdArgs) (parts : List (List Voxel)) : String :=
  let inC := sortCoords (a.voxels.map Voxel.coords)
  let outC := sortCoords (parts.flatten.map Voxel.coords)
  if inC != outC then "fail parts-are-not-a-partition-of-the-voxelized-input" else
  if a.maxh ≥ 1 && parts.length > 4 * a.maxh then s!"fail too-many-parts {parts.length} > 4*{a.maxh}" else
  -- surface flags only raised
  let surfIn : Std.HashSet (Nat × Nat × Nat) := Std.HashSet.ofList ((a.voxels.filter (·.surf)).map Voxel.coords)
  if parts.flatten.any (fun v => surfIn.contains v.coords && !v.surf) then "fail surface-flag-lowered" else
  if parts.any (·.isEmpty) && a.voxels.length > 0 && false then "fail empty-part" else "pass"

/-! ## Domain and grid sanity (resolution cap, finiteness)

`voxelize(points, indices, resolution, …)` promises `resolution` subdivisions along the axis of the LARGEST extent
and cubic voxels, i.e. along every axis at most `resolution + 2` voxels (`2 + ⌊resolution·d/r⌋` with `d ≤ r`), a finite
positive voxel size and a finite origin.  These clauses are judged from the input and the output only. -/

def maxNat (l : List Nat) : Nat := l.foldl max 0

/-- `none`: inside the domain; `some why`: outside (→ `skip why`).  Domain: resolution ≥ 2 (the voxel size is
`r / (resolution - 1)`), a non-empty index buffer over a non-empty finite point buffer, every index in range and a
positive largest extent of the point cloud. -/
def domain3 (res : Nat) (pts : List (V3 Float)) (tris : List (Nat × Nat × Nat)) : Option String :=
  if res < 2 then some "resolution-below-2" else
  if pts.isEmpty || tris.isEmpty then some "empty-mesh" else
  if !(pts.all finite3) then some "input-coordinates-not-finite-numbers" else
  let n := pts.length
  if tris.any (fun (a, b, c) => a ≥ n || b ≥ n || c ≥ n) then some "index-out-of-range" else
  let P := pts.map q3
  let ext (f : V3 Rat → Rat) : Rat :=
    match P.map f with
    | [] => 0
    | x :: xs => xs.foldl max x - xs.foldl min x
  if ext (·.x) ≤ 0 && ext (·.y) ≤ 0 && ext (·.z) ≤ 0 then some "all-points-coincide" else none

def finite2 (v : V2 Float) : Bool := FloatIO.isFinite v.x && FloatIO.isFinite v.y

def domain2 (res : Nat) (pts : List (V2 Float)) (edges : List (Nat × Nat)) : Option String :=
  if res < 2 then some "resolution-below-2" else
  if pts.isEmpty || edges.isEmpty then some "empty-polyline" else
  if !(pts.all finite2) then some "input-coordinates-not-finite-numbers" else
  let n := pts.length
  if edges.any (fun (a, b) => a ≥ n || b ≥ n) then some "index-out-of-range" else
  let P := pts.map q2
  let ext (f : V2 Rat → Rat) : Rat :=
    match P.map f with
    | [] => 0
    | x :: xs => xs.foldl max x - xs.foldl min x
  if ext (·.x) ≤ 0 && ext (·.y) ≤ 0 then some "all-points-coincide" else none

/-- finiteness + resolution cap; `counts` = number of voxels along each axis (largest index + 1), `org` the origin
components.  `none` = all clauses hold. -/
def gridSanity (res : Nat) (org : List Float) (scale : Float) (counts : List Nat) : Option String :=
  if !(org.all FloatIO.isFinite) then some "fail non-finite origin (nan or inf)" else
  if !(FloatIO.isFinite scale) then some "fail non-finite voxel scale (nan or inf)" else
  if q scale ≤ 0 then some "fail nonpositive-scale" else
  -- the farthest voxel centre `origin + (count-1)·scale` is a finite float as well
  if !((org.zip counts).all fun (o, c) => FloatIO.isFinite (o + (Float.ofNat c) * scale)) then
    some "fail non-finite voxel coordinates" else
  match ((List.range counts.length).zip counts).filter (fun (_, c) => c > res + 2) with
  | (ax, c) :: _ => some s!"fail resolution-cap-exceeded: {c} voxels along axis {ax} > resolution+2 = {res + 2}"
  | [] => none

def gridSanity3 (res : Nat) (origin : V3 Float) (scale : Float) (vs : List Voxel) : Option String :=
  gridSanity res [origin.x, origin.y, origin.z] scale
    [maxNat (vs.map (·.i + 1)), maxNat (vs.map (·.j + 1)), maxNat (vs.map (·.k + 1))]


/-- exact cell membership: point `p` lies in the closed cube of voxel `c` (centre `origin + c*scale`, half side `scale/2`) -/
def inCell (origin : V3 Rat) (scale : Rat) (c : Nat × Nat × Nat) (p : V3 Rat) (tol : Rat) : Bool :=
  let cx := origin.x + (c.1 : Rat) * scale; let cy := origin.y + (c.2.1 : Rat) * scale; let cz := origin.z + (c.2.2 : Rat) * scale
  let h := scale / 2 + tol
  rabs (p.x - cx) ≤ h && rabs (p.y - cy) ≤ h && rabs (p.z - cz) ≤ h

/-- candidate cells around a point (rounding of `(p - origin)/scale`, ±1 for ties) -/
def candidates (origin : V3 Rat) (scale : Rat) (p : V3 Rat) : List (Nat × Nat × Nat) :=
  let f (x o : Rat) : List Nat :=
    let r := ((x - o) / scale + 1/2).floor
    [r - 1, r, r + 1].filterMap fun z => if z < 0 then none else some z.toNat
  (f p.x origin.x).flatMap fun i => (f p.y origin.y).flatMap fun j => (f p.z origin.z).map fun k => (i, j, k)

def triSamples (a b c : V3 Rat) (n : Nat) : List (V3 Rat) :=
  (List.range (n + 1)).flatMap fun (i : Nat) => (List.range (n + 1 - i)).map fun (j : Nat) =>
    let u : Rat := (i : Rat) / n; let v : Rat := (j : Rat) / n
    (a.add ((b.sub a).smul u)).add ((c.sub a).smul v)

def voxelizeOracle (fm : Nat) (convex : Bool) (pts : List (V3 Float)) (tris : List (Nat × Nat × Nat))
    (origin : V3 Float) (scale : Float) (voxels : List Voxel) : String :=
  let O := q3 origin; let S := q scale
  if S ≤ 0 then "fail nonpositive-scale" else
  let P := pts.toArray.map q3
  let surf : Std.HashSet (Nat × Nat × Nat) := Std.HashSet.ofList ((voxels.filter (·.surf)).map Voxel.coords)
  let all : Std.HashSet (Nat × Nat × Nat) := Std.HashSet.ofList (voxels.map Voxel.coords)
  if all.size != voxels.length then "fail duplicate-voxels" else
  let tol := S / 1000000
  let samples := tris.flatMap fun (a, b, c) =>
    match P[a]?, P[b]?, P[c]? with
    | some pa, some pb, some pc => triSamples pa pb pc 6
    | _, _, _ => []
  let uncovered := samples.filter fun p => !((candidates O S p).any fun c => surf.contains c && inCell O S c p tol)
  match uncovered with
  | p :: _ => s!"fail input-point-not-in-a-surface-voxel ({p.x},{p.y},{p.z})"
  | [] =>
    if fm = 0 || !convex then "pass" else
    -- convex closed mesh, flood fill: a non-surface voxel's centre must be inside the solid (all outward face planes),
    -- and every grid cell whose centre is deeper inside than one voxel diagonal must be present.
    let faces := tris.filterMap fun (a, b, c) =>
      match P[a]?, P[b]?, P[c]? with
      | some pa, some pb, some pc => some (pa, (pb.sub pa).cross (pc.sub pa))
      | _, _, _ => none
    let centre (c : Nat × Nat × Nat) : V3 Rat := ⟨O.x + (c.1 : Rat) * S, O.y + (c.2.1 : Rat) * S, O.z + (c.2.2 : Rat) * S⟩
    let inside (p : V3 Rat) : Bool := faces.all fun (pa, n) => n.dot (p.sub pa) ≤ 0
    let badInner := voxels.filter fun v => !v.surf && !inside (centre v.coords)
    match badInner with
    | v :: _ => s!"fail interior-voxel-centre-outside-solid{if fm = 2 then "[detect-cavities]" else ""} ({v.i},{v.j},{v.k})"
    | [] =>
      -- completeness: every grid cell whose centre is inside the convex solid is present (surface or interior)
      let ni := voxels.foldl (fun m v => max m (v.i + 1)) 0
      let nj := voxels.foldl (fun m v => max m (v.j + 1)) 0
      let nk := voxels.foldl (fun m v => max m (v.k + 1)) 0
      let missing := (List.range ni).flatMap fun i => (List.range nj).flatMap fun j => (List.range nk).filterMap fun k =>
        if !all.contains (i, j, k) && inside (centre (i, j, k)) then some (i, j, k) else none
      let tag := if fm = 2 then "[detect-cavities]" else ""
      match missing with
      | (i, j, k) :: _ => s!"fail cell-with-centre-inside-solid-missing{tag} ({i},{j},{k})"
      | [] => "pass"


/-- exact even–odd membership of a point in a closed polyline (edges as index pairs) -/
def evenOdd (P : Array (V2 Rat)) (edges : List (Nat × Nat)) (p : V2 Rat) : Bool :=
  let crossings := edges.filter fun (a, b) =>
    match P[a]?, P[b]? with
    | some pa, some pb =>
      if decide (pa.y ≤ p.y) != decide (pb.y ≤ p.y) then
        -- x coordinate of the edge at height p.y is to the right of p
        let t := (p.y - pa.y) / (pb.y - pa.y)
        decide (p.x < pa.x + t * (pb.x - pa.x))
      else false
    | _, _ => false
  crossings.length % 2 == 1


/-- exact flood fill on the padded grid `[0, ni+1] × [0, nj+1]` (coordinates shifted by one): the set of non-surface
cells 4-connected to the padding ring — the specification of `FillMode::FloodFill { detect_cavities: false }` -/
def outsideCells (ni nj : Nat) (surf : Std.HashSet (Nat × Nat)) : Std.HashSet (Nat × Nat) := Id.run do
  let mut seen : Std.HashSet (Nat × Nat) := {}
  let mut work : List (Nat × Nat) := [(0, 0)]
  seen := seen.insert (0, 0)
  let mut fuel := (ni + 3) * (nj + 3) * 5 + 10
  while fuel > 0 && !work.isEmpty do
    fuel := fuel - 1
    match work with
    | [] => pure ()
    | (i, j) :: rest =>
      work := rest
      let nbrs := [(i + 1, j), (i, j + 1)] ++ (if i > 0 then [(i - 1, j)] else []) ++ (if j > 0 then [(i, j - 1)] else [])
      for (a, b) in nbrs do
        if a ≤ ni + 1 && b ≤ nj + 1 && !seen.contains (a, b) then
          -- padded coordinates: real cell (a-1, b-1); the ring is never a surface cell
          let isSurf := a ≥ 1 && b ≥ 1 && surf.contains (a - 1, b - 1)
          if !isSurf then
            seen := seen.insert (a, b)
            work := (a, b) :: work
  return seen

def voxelize2Oracle (fm : Nat) (pts : List (V2 Float)) (edges : List (Nat × Nat))
    (origin : V2 Float) (scale : Float) (voxels : List (Nat × Nat × Bool)) : String :=
  let O := q2 origin; let S := q scale
  if S ≤ 0 then "fail nonpositive-scale" else
  let P := pts.toArray.map q2
  let surf : Std.HashSet (Nat × Nat) := Std.HashSet.ofList ((voxels.filter (·.2.2)).map fun v => (v.1, v.2.1))
  let all : Std.HashSet (Nat × Nat) := Std.HashSet.ofList (voxels.map fun v => (v.1, v.2.1))
  if all.size != voxels.length then "fail duplicate-voxels" else
  let tol := S / 1000000
  let inCell2 (c : Nat × Nat) (p : V2 Rat) : Bool :=
    rabs (p.x - (O.x + (c.1 : Rat) * S)) ≤ S / 2 + tol && rabs (p.y - (O.y + (c.2 : Rat) * S)) ≤ S / 2 + tol
  let cand (p : V2 Rat) : List (Nat × Nat) :=
    let f (x o : Rat) : List Nat := let r := ((x - o) / S + 1/2).floor
      [r - 1, r, r + 1].filterMap fun z => if z < 0 then none else some z.toNat
    (f p.x O.x).flatMap fun i => (f p.y O.y).map fun j => (i, j)
  let samples := edges.flatMap fun (a, b) =>
    match P[a]?, P[b]? with
    | some pa, some pb => (List.range 17).map fun (k : Nat) => pa.add ((pb.sub pa).smul ((k : Rat) / 16))
    | _, _ => []
  match samples.filter (fun p => !((cand p).any fun c => surf.contains c && inCell2 c p)) with
  | p :: _ => s!"fail input-point-not-in-a-surface-voxel ({p.x},{p.y})"
  | [] =>
    if fm = 0 then "pass" else
    let centre (c : Nat × Nat) : V2 Rat := ⟨O.x + (c.1 : Rat) * S, O.y + (c.2 : Rat) * S⟩
    let ni := voxels.foldl (fun m v => max m (v.1 + 1)) 0
    let nj := voxels.foldl (fun m v => max m (v.2.1 + 1)) 0
    if fm = 1 then
      -- plain flood fill: interior voxels are EXACTLY the non-surface cells that are not 4-connected to the outside
      let out := outsideCells ni nj surf
      let wrongIn := voxels.filter fun v => !v.2.2 && out.contains (v.1 + 1, v.2.1 + 1)
      match wrongIn with
      | v :: _ => s!"fail interior-voxel-connected-to-the-outside ({v.1},{v.2.1})"
      | [] =>
        let missing := (List.range ni).flatMap fun i => (List.range nj).filterMap fun j =>
          if !all.contains (i, j) && !out.contains (i + 1, j + 1) then some (i, j) else none
        match missing with
        | (i, j) :: _ => s!"fail enclosed-cell-not-filled ({i},{j})"
        | [] => "pass"
    else
    -- detect_cavities: interior (non-surface) voxels have their centre inside the polygon …
    match voxels.filter (fun v => !v.2.2 && !evenOdd P edges (centre (v.1, v.2.1))) with
    | v :: _ => s!"fail interior-voxel-centre-outside-polygon[detect-cavities] ({v.1},{v.2.1})"
    | [] =>
      -- … and every grid cell whose centre is inside the polygon is present (surface or interior)
      let missing := (List.range ni).flatMap fun i => (List.range nj).filterMap fun j =>
        if !all.contains (i, j) && evenOdd P edges (centre (i, j)) then some (i, j) else none
      match missing with
      | (i, j) :: _ => s!"fail cell-with-centre-inside-polygon-missing[detect-cavities] ({i},{j})"
      | [] => "pass"

def hullOracle (origin : V3 Float) (scale : Float) (parts : List (List Voxel))
    (hulls : List (List (V3 Float) × List (Nat × Nat × Nat))) : String :=
  if parts.length != hulls.length then "fail hull-count" else
  let O := q3 origin; let S := q scale
  let res := (parts.zip hulls).filterMap fun (part, (hp, ht)) =>
    if part.isEmpty then none else
    let H := hp.toArray.map q3
    if H.size = 0 then some "fail empty-hull-for-nonempty-part" else
    let cen := (H.foldl V3.add (V3.zero : V3 Rat)).smul (1 / (H.size : Rat))
    let faces := ht.filterMap fun (a, b, c) =>
      match H[a]?, H[b]?, H[c]? with
      | some pa, some pb, some pc =>
        let n := (pb.sub pa).cross (pc.sub pa)
        -- orient outward w.r.t. the centroid
        some (pa, if n.dot (cen.sub pa) ≤ 0 then n else n.neg)
      | _, _, _ => none
    let tol := S / 1000
    let bad := part.filter fun v =>
      let c : V3 Rat := ⟨O.x + (v.i : Rat) * S, O.y + (v.j : Rat) * S, O.z + (v.k : Rat) * S⟩
      faces.any fun (pa, n) =>
        let d := n.dot (c.sub pa)
        -- signed distance d/|n| > tol  ⇔  d > 0 ∧ d² > tol²·|n|²
        d > 0 && d * d > tol * tol * n.normSq
    match bad with
    | v :: _ => some s!"fail voxel-centre-outside-part-hull ({v.i},{v.j},{v.k})"
    | [] => none
  match res with
  | r :: _ => r
  | [] => "pass"


/-! ## `parts3`, `hullsample3`: per-part bookkeeping (`ModelAcd2.lean`) -/

abbrev TraceLog := List (List Voxel × Option (CutPlane Float))

/-- the decomposition loop replayed with a log of `(part, decision)` per `process_primitive_set` call;
returns `(parts, number of parts kept by a decision, log)` -/
def replayTrace (origin : V3 Float) (scale : Float) :
    Nat → List (Option (CutPlane Float)) → List (List Voxel) → List (List Voxel) → TraceLog → List (List Voxel) × Nat × TraceLog
  | 0, _, input, parts, log => (parts ++ input, parts.length, log)
  | d+1, decs, input, parts, log =>
    if input.isEmpty then (parts ++ input, parts.length, log) else
    let r := input.foldl (fun (acc : List (Option (CutPlane Float)) × List (List Voxel) × List (List Voxel) × TraceLog) v =>
      match acc.1 with
      | [] => ([], acc.2.1 ++ [v], acc.2.2.1, acc.2.2.2 ++ [(v, none)])
      | none :: ds => (ds, acc.2.1 ++ [v], acc.2.2.1, acc.2.2.2 ++ [(v, none)])
      | some pl :: ds =>
        let c := clip origin scale pl v
        (ds, acc.2.1, acc.2.2.1 ++ [c.2, c.1], acc.2.2.2 ++ [(v, some pl)])) (decs, parts, [], log)
    replayTrace origin scale d r.1 r.2.2.1 r.2.1 r.2.2.2

/-- `VoxelSet::new()`: the stored bounding box before any `compute_bb` -/
def defaultBB : (Nat × Nat × Nat) × (Nat × Nat × Nat) := ((0, 0, 0), (1, 1, 1))

def fbb (b : (Nat × Nat × Nat) × (Nat × Nat × Nat)) : String :=
  s!"{b.1.1} {b.1.2.1} {b.1.2.2} {b.2.1} {b.2.2.1} {b.2.2.2}"

def modelParts3 (x : AcdArgs) : String :=
  let parts := acd x.origin x.scale (replayOracle (K := Float)) x.decs x.maxh x.voxels
  let tr := replayTrace x.origin x.scale (depthOf x.maxh) x.decs [x.voxels] [] []
  if tr.1 != parts then "trace-mismatch" else
  let items := parts.zipIdx.map fun (p, i) =>
    -- parts kept by a decision went through `compute_bb`; parts left over when the depth is exhausted did not
    let bb := if i < tr.2.1 then (computeBB p).getD defaultBB else defaultBB
    s!"{p.length} {fbb bb} {ff (computeVolume x.scale p)}"
  String.intercalate " " (toString parts.length :: items)

def parts3Oracle (x : AcdArgs) (out : List (Nat × ((Nat × Nat × Nat) × (Nat × Nat × Nat)) × Float)) : String :=
  let tr := replayTrace x.origin x.scale (depthOf x.maxh) x.decs [x.voxels] [] []
  -- (a) every cutting plane the real code chose is, bit for bit, one of the axis-aligned voxel-boundary planes through the
  -- bounding box of the part it cuts
  let badPlane := tr.2.2.find? fun (v, d) =>
    match d with
    | none => false
    | some pl =>
      match computeBB v with
      | none => true
      | some (mn, mx) =>
        let cands := computeAxesAlignedClippingPlanes x.origin x.scale mn mx 1 []
        !(cands.any fun c => c.1.abc.x == pl.abc.x && c.1.abc.y == pl.abc.y && c.1.abc.z == pl.abc.z && c.1.d == pl.d)
  match badPlane with
  | some (v, _) => s!"fail cutting-plane-is-not-a-voxel-boundary-plane-through-the-part ({v.length} voxels)"
  | none =>
  -- (b) counts and volumes add up: nothing lost, nothing counted twice
  let n := x.voxels.length
  if (out.map (·.1)).foldl (· + ·) 0 != n then "fail part-sizes-do-not-add-up" else
  let S := q x.scale
  let badVol := out.find? fun (k, _, vol) =>
    let e : Rat := S * S * S * (k : Rat)
    !(FloatIO.isFinite vol) || !(leTol (q vol) e tolDefault && leTol e (q vol) tolDefault)
  match badVol with
  | some (k, _, _) => s!"fail part-volume-is-not-count-times-voxel-volume ({k} voxels)"
  | none =>
  -- (c) the stored bounding box of every part kept by a decision is the exact min/max of its voxels
  if out.length != tr.1.length then "fail part-count" else
  let bad := ((tr.1.zip out).zipIdx).find? fun ((p, o), i) =>
    i < tr.2.1 && !p.isEmpty &&
      (let mn := (maxNat (p.map fun v => 1000000 - v.i), maxNat (p.map fun v => 1000000 - v.j), maxNat (p.map fun v => 1000000 - v.k))
       let mx := (maxNat (p.map (·.i)), maxNat (p.map (·.j)), maxNat (p.map (·.k)))
       o.2.1 != ((1000000 - mn.1, 1000000 - mn.2.1, 1000000 - mn.2.2), mx))
  match bad with
  | some ((p, _), _) => s!"fail stored-bounding-box-is-not-the-box-of-the-part ({p.length} voxels)"
  | none => "pass"

/-- every vertex of the hull returned by `compute_convex_hull(sampling)` must be, bit for bit, a corner
(`map_voxel_points`) of a surface voxel of the set -/
def hullSampleOracle (origin : V3 Float) (scale : Float) (voxels : List Voxel) (sampling : Nat) (hull : List (V3 Float)) : String :=
  let key (p : V3 Float) : String := fv3 p
  let corners : Std.HashSet String := Std.HashSet.ofList
    ((voxels.filter (·.surf)).flatMap fun v => (mapVoxelPoints origin scale v).map key)
  match hull.find? (fun p => !corners.contains (key p)) with
  | some p => s!"fail hull-vertex-is-not-a-corner-of-a-surface-voxel {fv3 p}"
  | none =>
    let ns := (voxels.filter (·.surf)).length
    if sampling ≤ 1 && ns ≥ 1 && hull.length < 4 then "fail no-hull-for-a-non-empty-voxel-set" else "pass"

/-! ## 2-D VHACD (`parry2d-f64`): `acd2` (decision replay of `do_compute_acd` on the real 2-D voxelization) and `hulls2`

The 2-D voxel `(i, j)` is the model voxel `(i, j, 0)`, the 2-D point `(x, y)` is `(x, y, 0)` and the plane `(a, b; d)` is
`((a, b, 0); d)`: `VoxelSet::clip` computes `abc.dot(origin + coords * scale) + d`, to which the third component adds
`0 * 0`; the comparisons `d >= 0`, `d <= scale`, `-d <= scale` are unaffected. -/

structure Acd2Args where
  maxh : Nat
  res : Nat
  pts : List (V2 Float)
  edges : List (Nat × Nat)
  origin : V2 Float
  scale : Float
  voxels : List Voxel
  decs : List (Option (CutPlane Float))

def pvoxel2 : P Voxel := do let i ← pnat; let j ← pnat; let s ← pbool; pure ⟨i, j, 0, s⟩
def pvoxels2 : P (List Voxel) := plist pvoxel2
def pdecision2 : P (Option (CutPlane Float)) := do
  let t ← pnat
  if t = 0 then pure none else do let abc ← pv2; let d ← pf; pure (some ⟨⟨abc.x, abc.y, 0⟩, d⟩)
def pacd2Base : P (Nat × Nat × List (V2 Float) × List (Nat × Nat)) := do
  let maxh ← pnat; let res ← pnat; let _fm ← pnat; let _conc ← pf; let _pds ← pnat; let _hds ← pnat
  let pts ← plist pv2
  let edges ← plist (do let a ← pnat; let b ← pnat; pure (a, b))
  pure (maxh, res, pts, edges)
def pacd2 : P Acd2Args := do
  let (maxh, res, pts, edges) ← pacd2Base
  let origin ← pv2o; let scale ← pfo
  let voxels ← pvoxels2
  let decs ← plist pdecision2
  pure ⟨maxh, res, pts, edges, origin, scale, voxels, decs⟩
def fvoxels2 (vs : List Voxel) : String :=
  String.intercalate " " (toString vs.length :: vs.map fun v => s!"{v.i} {v.j} {fb v.surf}")
def fparts2 (ps : List (List Voxel)) : String :=
  String.intercalate " " (toString ps.length :: ps.map fvoxels2)

def gridSanity2 (res : Nat) (origin : V2 Float) (scale : Float) (vs : List Voxel) : Option String :=
  gridSanity res [origin.x, origin.y] scale [maxNat (vs.map (·.i + 1)), maxNat (vs.map (·.j + 1))]

/-- every corner of every voxel of a part lies in the convex polygon returned for the part (either orientation; exact
rational cross products, tolerance relative to the size of the coordinates) -/
def hull2Oracle (org : V2 Float) (sc : Float) (parts : List (List Voxel)) (hulls : List (List (V2 Float))) : String :=
  if parts.length != hulls.length then s!"fail hull-count {hulls.length} for {parts.length} parts" else
  let O := q2 org; let S := q sc
  let bad := ((List.range parts.length).zip (parts.zip hulls)).filterMap fun (pi, part, hull) =>
    if part.isEmpty then none else
    if !(hull.all finite2) then some s!"fail non-finite hull vertex (part {pi})" else
    let H := hull.map q2
    match H with
    | [] => some s!"fail empty-hull-for-non-empty-part {pi}"
    | h0 :: _ =>
      let edges := H.zip (H.drop 1 ++ [h0])
      let area2 := edges.foldl (fun acc (a, b) => acc + (a.x * b.y - a.y * b.x)) (0 : Rat)
      let sgn : Rat := if area2 < 0 then -1 else 1
      let mag := H.foldl (fun m v => max m (max (rabs v.x) (rabs v.y))) (rabs S)
      let tol : Rat := tolDefault * (1 + mag) * (1 + mag)
      let corners : List (V2 Rat) := part.flatMap fun v =>
        [(-1, -1), (1, -1), (1, 1), (-1, 1)].map fun (dx, dy) =>
          (⟨O.x + ((v.i : Rat) + (dx : Rat) / 2) * S, O.y + ((v.j : Rat) + (dy : Rat) / 2) * S⟩ : V2 Rat)
      match corners.find? (fun c => edges.any fun (a, b) => sgn * ((b.x - a.x) * (c.y - a.y) - (b.y - a.y) * (c.x - a.x)) < -tol) with
      | some _ => some s!"fail voxel-of-part-{pi}-outside-its-convex-hull"
      | none => none
  match bad with
  | b :: _ => b
  | [] => "pass"

def handler (fn : String) : Option Handler :=
  match fn with
  | "acd2" => some {
      model := fun a => run (do
        let x ← pacd2
        let parts := acd (⟨x.origin.x, x.origin.y, 0⟩ : V3 Float) x.scale (replayOracle (K := Float)) x.decs x.maxh x.voxels
        pure (fparts2 parts)) a
      oracle := fun a o => match o with
        | "panic" :: _ => (match run pacd2Base a with
          | some (_, res, pts, edges) => (match domain2 res pts edges with
            | some why => s!"skip {why}"
            | none => "fail panic")
          | none => "skip bad-args")
        | _ => match run pacd2 a with
          | some x => (match domain2 x.res x.pts x.edges with
            | some why => s!"skip {why}"
            | none => match gridSanity2 x.res x.origin x.scale x.voxels with
              | some bad => bad
              | none => match run (plist pvoxels2) o with
                | some parts => acdOracle ⟨x.maxh, x.res, [], [], ⟨x.origin.x, x.origin.y, 0⟩, x.scale, x.voxels, x.decs⟩ parts
                | none => "fail unparsable-output")
          | none => "skip bad-args" }
  | "hulls2" => some {
      model := fun _ => some "-"
      oracle := fun a o => match run pacd2Base a with
        | none => "skip bad-args"
        | some (_, res, pts, edges) =>
          match domain2 res pts edges with
          | some why => s!"skip {why}"
          | none =>
          match o with
          | "panic" :: _ => "fail panic"
          | _ => match run (do let org ← pv2o; let sc ← pfo; let parts ← plist pvoxels2; let hs ← plist (plist pv2o); pure (org, sc, parts, hs)) o with
            | some (org, sc, parts, hs) =>
              if !(finite2 org) || !(FloatIO.isFinite sc) then "fail non-finite origin or scale" else
              hull2Oracle org sc parts hs
            | none => "fail unparsable-output" }
  | "parts3" => some {
      model := fun a => run (do let x ← pacd; pure (modelParts3 x)) a
      oracle := fun a o => match o with
        | "panic" :: _ => (match run pacdBase a with
          | some (res, pts, tris) => (match domain3 res pts tris with
            | some why => s!"skip {why}"
            | none => "fail panic")
          | none => "skip bad-args")
        | _ => match run pacd a with
          | some x => (match domain3 x.res x.pts x.tris with
            | some why => s!"skip {why}"
            | none => match run (plist (do
                let n ← pnat; let a0 ← pnat; let a1 ← pnat; let a2 ← pnat; let b0 ← pnat; let b1 ← pnat; let b2 ← pnat; let vol ← pfo
                pure (n, ((a0, a1, a2), (b0, b1, b2)), vol))) o with
              | some out => parts3Oracle x out
              | none => "fail unparsable-output")
          | none => "skip bad-args" }
  | "hullsample3" => some {
      model := fun _ => some "-"
      oracle := fun a o => match run (do let res ← pnat; let fm ← pnat; let sm ← pnat; let m ← pmesh; pure (res, fm, sm, m)) a with
        | none => "skip bad-args"
        | some (res, _fm, sm, (pts, tris)) =>
          match domain3 res pts tris with
          | some why => s!"skip {why}"
          | none =>
          match o with
          | "panic" :: _ => if sm = 0 then "fail panic[sampling=0-documented-as-no-voxel-ignored]" else "fail panic"
          | _ => match run (do let _r ← pnat; let _f ← pnat; let sm ← pnat; let _m ← pmesh
                               let org ← pv3; let sc ← pfo; let vs ← pvoxels; pure (sm, org, sc, vs)) a with
            | some (sm, org, sc, vs) => (match run (plist pv3o) o with
              | some hull => hullSampleOracle org sc vs sm hull
              | none => "fail unparsable-output")
            | none => "skip bad-args" }
  | "acd3" => some {
      model := fun a => run (do
        let x ← pacd
        let parts := acd x.origin x.scale (replayOracle (K := Float)) x.decs x.maxh x.voxels
        pure (fparts parts)) a
      oracle := fun a o => match o with
        -- a panic leaves no `<voxels> <decisions> ;;` prefix: judge it from the plain arguments
        | "panic" :: _ => (match run pacdBase a with
          | some (res, pts, tris) => (match domain3 res pts tris with
            | some why => s!"skip {why}"
            | none => "fail panic")
          | none => "skip bad-args")
        | _ => match run pacd a with
          | some x => (match domain3 x.res x.pts x.tris with
            | some why => s!"skip {why}"
            | none => match gridSanity3 x.res x.origin x.scale x.voxels with
              | some bad => bad
              | none => match run pparts o with
                | some parts => acdOracle x parts
                | none => "fail unparsable-output")
          | none => "skip bad-args" }
  | "voxelize3" => some {
      model := fun _ => some "-"
      oracle := fun a o => match run (do let res ← pnat; let fm ← pnat; let m ← pmesh; let cv ← pbool; pure (res, fm, m, cv)) a with
        | some (res, fm, (pts, tris), cv) => (match domain3 res pts tris with
          | some why => s!"skip {why}"
          | none => match o with
          | "panic" :: _ => "fail panic"
          | _ => match run (do let org ← pv3o; let sc ← pfo; let vs ← pvoxels; pure (org, sc, vs)) o with
            | some (org, sc, vs) => (match gridSanity3 res org sc vs with
              | some bad => bad
              | none => voxelizeOracle fm cv pts tris org sc vs)
            | none => "fail unparsable-output")
        | none => "skip bad-args" }
  | "voxelize2" => some {
      model := fun _ => some "-"
      oracle := fun a o => match run (do
          let res ← pnat; let fm ← pnat; let pts ← plist pv2
          let edges ← plist (do let a ← pnat; let b ← pnat; pure (a, b)); pure (res, fm, pts, edges)) a with
        | some (res, fm, pts, edges) => (match domain2 res pts edges with
          | some why => s!"skip {why}"
          | none => match o with
          | "panic" :: _ => "fail panic"
          | _ => match run (do let ox ← pfo; let oy ← pfo; let sc ← pfo
                                 let vs ← plist (do let i ← pnat; let j ← pnat; let s ← pbool; pure (i, j, s)); pure ((⟨ox, oy⟩ : V2 Float), sc, vs)) o with
            | some (org, sc, vs) =>
              (match gridSanity res [org.x, org.y] sc [maxNat (vs.map (·.1 + 1)), maxNat (vs.map (·.2.1 + 1))] with
              | some bad => bad
              | none => voxelize2Oracle fm pts edges org sc vs)
            | none => "fail unparsable-output")
        | none => "skip bad-args" }
  | "hulls3" => some {
      model := fun _ => some "-"
      oracle := fun a o => match run pacdBase a with
       | none => "skip bad-args"
       | some (res, pts, tris) =>
        match domain3 res pts tris with
        | some why => s!"skip {why}"
        | none =>
        match o with
        | "panic" :: _ => "fail panic"
        | _ => match run (do
            let org ← pv3o; let sc ← pfo; let parts ← pparts
            let rec hulls : Nat → P (List (List (V3 Float) × List (Nat × Nat × Nat)))
              | 0 => pure []
              | n+1 => do let h ← pmesh; let r ← hulls n; pure (h :: r)
            let hs ← hulls parts.length
            pure (org, sc, parts, hs)) o with
          | some (org, sc, parts, hs) => (match gridSanity3 res org sc parts.flatten with
            | some bad => bad
            | none => hullOracle org sc parts hs)
          | none => "fail unparsable-output" }
  | _ => match handlerVox fn with
    | some h => some h
    | none => handlerMap3 fn

end C18
