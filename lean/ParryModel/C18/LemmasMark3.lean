import ParryModel.Field
import ParryModel.C18.ModelVox3
import ParryModel.C18.LemmasFill3
/-!
# C18 lemmas for the 3-D voxelizer model: the triangle-marking phase

3-D port of `LemmasMark.lean`.  The lemmas are instance-generic (any `Num K`, any `Cast K`): the triangle/box test
`testAabbTriangle` is used as a black box.  `triRange3` is the candidate range of a triangle exactly as `markTri3`
computes it, `Hit3` = "triangle `t` marks cell `q`", `TriOk3` = "triangle `t` passes the index lookups and the three
`assert!`s".
-/
set_option linter.unusedSectionVars false
set_option linter.unusedVariables false
set_option linter.unusedSimpArgs false
namespace C18
open Model Model.Vox Model.Vox3

section
variable {K : Type} [Num K] [Cast K]

/-- grid coordinates of a point: `(pt - origin) * inv_scale` -/
def gridPt3 (origin : V3 K) (invScale : K) (p : V3 K) : V3 K := (p.sub origin).smul invScale

/-- the triangle/box test of the marking phase for cell `q` and the grid-space triangle `a b c` -/
def cellHit3 (a b c : V3 K) (q : Nat × Nat × Nat) : Bool :=
  testAabbTriangle (cellAabb3 (K := K) q.1 q.2.1 q.2.2).1 (cellAabb3 (K := K) q.1 q.2.1 q.2.2).2 a b c

/-- the candidate range `(lo, hi)` of a triangle whose vertices lie in the cells `ca cb cc`, as `markTri3` computes it:
`lo = min.saturating_sub(1)`, `hi = (max + 1).inf(resolution)` -/
def triRange3 (ni nj nk : Nat) (ca cb cc : Nat × Nat × Nat) : (Nat × Nat × Nat) × (Nat × Nat × Nat) :=
  ((min (min ca.1 cb.1) cc.1 - 1, min (min ca.2.1 cb.2.1) cc.2.1 - 1, min (min ca.2.2 cb.2.2) cc.2.2 - 1),
   (min (max (max ca.1 cb.1) cc.1 + 1) ni, min (max (max ca.2.1 cb.2.1) cc.2.1 + 1) nj,
    min (max (max ca.2.2 cb.2.2) cc.2.2 + 1) nk))

/-- `q` is one of the cells of `for i in lo.0..hi.0 { for j in lo.1..hi.1 { for k in lo.2..hi.2` -/
def InRange3 (r : (Nat × Nat × Nat) × (Nat × Nat × Nat)) (q : Nat × Nat × Nat) : Prop :=
  (r.1.1 ≤ q.1 ∧ q.1 < r.2.1) ∧ (r.1.2.1 ≤ q.2.1 ∧ q.2.1 < r.2.2.1) ∧ (r.1.2.2 ≤ q.2.2 ∧ q.2.2 < r.2.2.2)

/-- the candidate cells of the grid-space triangle `a b c`, in loop order -/
def triCells3 (ni nj nk : Nat) (a b c : V3 K) : List (Nat × Nat × Nat) :=
  cellsIn3 (triRange3 ni nj nk (cellOf3 a) (cellOf3 b) (cellOf3 c)).1.1 (triRange3 ni nj nk (cellOf3 a) (cellOf3 b) (cellOf3 c)).1.2.1
    (triRange3 ni nj nk (cellOf3 a) (cellOf3 b) (cellOf3 c)).1.2.2 (triRange3 ni nj nk (cellOf3 a) (cellOf3 b) (cellOf3 c)).2.1
    (triRange3 ni nj nk (cellOf3 a) (cellOf3 b) (cellOf3 c)).2.2.1 (triRange3 ni nj nk (cellOf3 a) (cellOf3 b) (cellOf3 c)).2.2.2

theorem mem_triCells3 (ni nj nk : Nat) (a b c : V3 K) (q : Nat × Nat × Nat) :
    q ∈ triCells3 ni nj nk a b c ↔ InRange3 (triRange3 ni nj nk (cellOf3 a) (cellOf3 b) (cellOf3 c)) q := by
  unfold triCells3 InRange3
  generalize triRange3 ni nj nk (cellOf3 a) (cellOf3 b) (cellOf3 c) = r
  exact mem_cellsIn3

theorem triRange3_inB (ni nj nk : Nat) (ca cb cc q : Nat × Nat × Nat) (h : InRange3 (triRange3 ni nj nk ca cb cc) q) :
    InB3 ni nj nk q := by
  simp only [InRange3, triRange3] at h
  obtain ⟨⟨_, h1⟩, ⟨_, h2⟩, ⟨_, h3⟩⟩ := h
  exact ⟨lt_of_lt_of_le h1 (Nat.min_le_right _ _), lt_of_lt_of_le h2 (Nat.min_le_right _ _), lt_of_lt_of_le h3 (Nat.min_le_right _ _)⟩

theorem triCells3_inB (ni nj nk : Nat) (a b c : V3 K) : ∀ q ∈ triCells3 ni nj nk a b c, InB3 ni nj nk q :=
  fun q hq => triRange3_inB ni nj nk _ _ _ q ((mem_triCells3 ni nj nk a b c q).mp hq)

/-- triangle `t` marks cell `q`: its three point indices are valid, `q` is inside the candidate range computed from the
cells of its three grid-space vertices and `intersection_test_aabb_triangle(cell q, triangle)` is `true` -/
def Hit3 (pts : Array (V3 K)) (origin : V3 K) (invScale : K) (ni nj nk : Nat) (t q : Nat × Nat × Nat) : Prop :=
  ∃ p0 p1 p2, pts[t.1]? = some p0 ∧ pts[t.2.1]? = some p1 ∧ pts[t.2.2]? = some p2 ∧
    InRange3 (triRange3 ni nj nk (cellOf3 (gridPt3 origin invScale p0)) (cellOf3 (gridPt3 origin invScale p1))
      (cellOf3 (gridPt3 origin invScale p2))) q ∧
    testAabbTriangle (cellAabb3 (K := K) q.1 q.2.1 q.2.2).1 (cellAabb3 (K := K) q.1 q.2.1 q.2.2).2
      (gridPt3 origin invScale p0) (gridPt3 origin invScale p1) (gridPt3 origin invScale p2) = true

/-- triangle `t` passes the three index lookups and the three `assert!(i < res[0] && j < res[1] && k < res[2])` -/
def TriOk3 (pts : Array (V3 K)) (origin : V3 K) (invScale : K) (ni nj nk : Nat) (t : Nat × Nat × Nat) : Prop :=
  ∃ p0 p1 p2, pts[t.1]? = some p0 ∧ pts[t.2.1]? = some p1 ∧ pts[t.2.2]? = some p2 ∧
    InB3 ni nj nk (cellOf3 (gridPt3 origin invScale p0)) ∧ InB3 ni nj nk (cellOf3 (gridPt3 origin invScale p1)) ∧
    InB3 ni nj nk (cellOf3 (gridPt3 origin invScale p2))

/-- a triangle fails `TriOk3` iff one of its point indices is out of range or one of its vertices falls in a cell
outside the grid -/
theorem not_triOk3_iff (pts : Array (V3 K)) (origin : V3 K) (invScale : K) (ni nj nk : Nat) (t : Nat × Nat × Nat) :
    ¬ TriOk3 pts origin invScale ni nj nk t ↔
      (pts.size ≤ t.1 ∨ pts.size ≤ t.2.1 ∨ pts.size ≤ t.2.2) ∨
      ∃ p0 p1 p2, pts[t.1]? = some p0 ∧ pts[t.2.1]? = some p1 ∧ pts[t.2.2]? = some p2 ∧
        (¬ InB3 ni nj nk (cellOf3 (gridPt3 origin invScale p0)) ∨ ¬ InB3 ni nj nk (cellOf3 (gridPt3 origin invScale p1)) ∨
         ¬ InB3 ni nj nk (cellOf3 (gridPt3 origin invScale p2))) := by
  constructor
  · intro h
    by_cases hi : t.1 < pts.size ∧ t.2.1 < pts.size ∧ t.2.2 < pts.size
    · right
      refine ⟨pts[t.1], pts[t.2.1], pts[t.2.2], Array.getElem?_eq_getElem hi.1, Array.getElem?_eq_getElem hi.2.1,
        Array.getElem?_eq_getElem hi.2.2, ?_⟩
      by_contra hc
      push Not at hc
      exact h ⟨_, _, _, Array.getElem?_eq_getElem hi.1, Array.getElem?_eq_getElem hi.2.1, Array.getElem?_eq_getElem hi.2.2, hc⟩
    · left; omega
  · rintro (h | ⟨a, b, c, ha, hb, hc, r⟩) ⟨a', b', c', ha', hb', hc', r'⟩
    · have h1 : t.1 < pts.size := (Array.getElem?_eq_some_iff.mp ha').1
      have h2 : t.2.1 < pts.size := (Array.getElem?_eq_some_iff.mp hb').1
      have h3 : t.2.2 < pts.size := (Array.getElem?_eq_some_iff.mp hc').1
      omega
    · rw [ha] at ha'; rw [hb] at hb'; rw [hc] at hc'
      cases ha'; cases hb'; cases hc'
      rcases r with r | r | r
      · exact r r'.1
      · exact r r'.2.1
      · exact r r'.2.2

/-- the marking step for one cell -/
theorem markCell3_eq (ni nj : Nat) (a b c : V3 K) (g : Array VV) (q : Nat × Nat × Nat) :
    markCell3 ni nj a b c g q =
      if getC3 ni nj g q = .undef ∧ cellHit3 a b c q = true then setC3 ni nj g q .surf else g := by
  unfold markCell3 cellHit3 getC3 setC3
  simp only []
  split_ifs <;> simp_all

/-- grid invariant of the marking phase -/
structure MGood3 (ni nj nk : Nat) (g : Array VV) : Prop where
  size : g.size = ni * nj * nk
  vals : ∀ q, InB3 ni nj nk q → getC3 ni nj g q = .undef ∨ getC3 ni nj g q = .surf

/-- the `for i.. for j.. for k..` loop of the marking phase over the cells `l` of one triangle -/
theorem markCells3_spec (ni nj nk : Nat) (a b c : V3 K) :
    ∀ (l : List (Nat × Nat × Nat)) (g : Array VV), MGood3 ni nj nk g → (∀ x ∈ l, InB3 ni nj nk x) →
    MGood3 ni nj nk (l.foldl (markCell3 ni nj a b c) g) ∧
    (∀ q, InB3 ni nj nk q → (getC3 ni nj (l.foldl (markCell3 ni nj a b c) g) q = .surf ↔
        getC3 ni nj g q = .surf ∨ (q ∈ l ∧ cellHit3 a b c q = true)))
  | [], g, hg, _ => ⟨hg, fun q _ => by simp⟩
  | x :: l, g, hg, hl => by
    rw [List.foldl_cons]
    have hx := hl x List.mem_cons_self
    have hl' : ∀ y ∈ l, InB3 ni nj nk y := fun y hy => hl y (List.mem_cons_of_mem _ hy)
    rw [markCell3_eq]
    by_cases hcond : getC3 ni nj g x = .undef ∧ cellHit3 a b c x = true
    · rw [if_pos hcond]
      have hget : ∀ q, InB3 ni nj nk q → getC3 ni nj (setC3 ni nj g x .surf) q = if x = q then .surf else getC3 ni nj g q :=
        fun q hq => getC3_setC3' ni nj nk hg.size .surf hx hq
      have hg1 : MGood3 ni nj nk (setC3 ni nj g x .surf) := by
        refine ⟨by rw [size_setC3]; exact hg.size, ?_⟩
        intro q hq
        rw [hget q hq]
        split_ifs
        · right; rfl
        · exact hg.vals q hq
      obtain ⟨i1, i2⟩ := markCells3_spec ni nj nk a b c l _ hg1 hl'
      refine ⟨i1, ?_⟩
      intro q hq
      rw [i2 q hq, hget q hq]
      by_cases e : x = q
      · subst e; simp [hcond.2]
      · have e' : ¬ q = x := fun h => e h.symm
        simp [e, e']
    · rw [if_neg hcond]
      obtain ⟨i1, i2⟩ := markCells3_spec ni nj nk a b c l g hg hl'
      refine ⟨i1, ?_⟩
      intro q hq
      rw [i2 q hq]
      by_cases e : q = x
      · subst e
        by_cases ht : cellHit3 a b c q = true
        · have hv : getC3 ni nj g q = .surf := by
            rcases hg.vals q hq with v | v
            · exact absurd ⟨v, ht⟩ hcond
            · exact v
          simp [hv]
        · simp [ht]
      · simp [e]

theorem markTri3_panic (ni nj nk : Nat) (origin : V3 K) (invScale : K) (pts : Array (V3 K)) (st : Mark3)
    (hp : st.panic = true) (t : Nat × Nat × Nat) : markTri3 ni nj nk origin invScale pts st t = st := by
  unfold markTri3; simp [hp]

theorem foldl3_panic (ni nj nk : Nat) (origin : V3 K) (invScale : K) (pts : Array (V3 K)) :
    ∀ (ts : List (Nat × Nat × Nat)) (st : Mark3), st.panic = true →
      ts.foldl (markTri3 ni nj nk origin invScale pts) st = st
  | [], _, _ => rfl
  | t :: ts, st, hp => by
    rw [List.foldl_cons, markTri3_panic ni nj nk origin invScale pts st hp]
    exact foldl3_panic ni nj nk origin invScale pts ts st hp

/-- a triangle whose three points exist: the three `assert!`s, then the loop over the candidate range -/
theorem markTri3_some (ni nj nk : Nat) (origin : V3 K) (invScale : K) (pts : Array (V3 K)) (st : Mark3)
    (hp : st.panic = false) (t : Nat × Nat × Nat) (p0 p1 p2 : V3 K)
    (h0 : pts[t.1]? = some p0) (h1 : pts[t.2.1]? = some p1) (h2 : pts[t.2.2]? = some p2) :
    markTri3 ni nj nk origin invScale pts st t =
      if InB3 ni nj nk (cellOf3 (gridPt3 origin invScale p0)) ∧ InB3 ni nj nk (cellOf3 (gridPt3 origin invScale p1)) ∧
          InB3 ni nj nk (cellOf3 (gridPt3 origin invScale p2)) then
        { st with g := List.foldl (markCell3 ni nj (gridPt3 origin invScale p0) (gridPt3 origin invScale p1) (gridPt3 origin invScale p2)) st.g (triCells3 ni nj nk (gridPt3 origin invScale p0) (gridPt3 origin invScale p1) (gridPt3 origin invScale p2)) }
      else { st with panic := true } := by
  unfold markTri3
  simp only [hp, Bool.false_eq_true, if_false, h0, h1, h2]
  unfold InB3 gridPt3
  split_ifs with c1 c2 c2
  · exfalso; simp at c1; omega
  · rfl
  · rfl
  · exfalso; simp at c1; omega

/-- one iteration of the loop over the triangles -/
theorem markTri3_spec (ni nj nk : Nat) (origin : V3 K) (invScale : K) (pts : Array (V3 K))
    (st : Mark3) (hg : MGood3 ni nj nk st.g) (hp : st.panic = false) (t : Nat × Nat × Nat) :
    ((markTri3 ni nj nk origin invScale pts st t).panic = false ↔ TriOk3 pts origin invScale ni nj nk t) ∧
    ((markTri3 ni nj nk origin invScale pts st t).panic = false →
      MGood3 ni nj nk (markTri3 ni nj nk origin invScale pts st t).g ∧
      ∀ q, InB3 ni nj nk q → (getC3 ni nj (markTri3 ni nj nk origin invScale pts st t).g q = .surf ↔
        getC3 ni nj st.g q = .surf ∨ Hit3 pts origin invScale ni nj nk t q)) := by
  cases h0 : pts[t.1]? with
  | none =>
    have e : markTri3 ni nj nk origin invScale pts st t = { st with panic := true } := by
      unfold markTri3; simp [hp, h0]
    rw [e]
    refine ⟨⟨fun h => (by cases h), ?_⟩, fun h => by cases h⟩
    rintro ⟨p0, p1, p2, x, _⟩
    rw [h0] at x; cases x
  | some p0 =>
    cases h1 : pts[t.2.1]? with
    | none =>
      have e : markTri3 ni nj nk origin invScale pts st t = { st with panic := true } := by
        unfold markTri3; simp [hp, h0, h1]
      rw [e]
      refine ⟨⟨fun h => (by cases h), ?_⟩, fun h => by cases h⟩
      rintro ⟨p0, p1, p2, _, x, _⟩
      rw [h1] at x; cases x
    | some p1 =>
      cases h2 : pts[t.2.2]? with
      | none =>
        have e : markTri3 ni nj nk origin invScale pts st t = { st with panic := true } := by
          unfold markTri3; simp [hp, h0, h1, h2]
        rw [e]
        refine ⟨⟨fun h => (by cases h), ?_⟩, fun h => by cases h⟩
        rintro ⟨p0, p1, p2, _, _, x, _⟩
        rw [h2] at x; cases x
      | some p2 =>
        rw [markTri3_some ni nj nk origin invScale pts st hp t p0 p1 p2 h0 h1 h2]
        by_cases hok : InB3 ni nj nk (cellOf3 (gridPt3 origin invScale p0)) ∧ InB3 ni nj nk (cellOf3 (gridPt3 origin invScale p1)) ∧
            InB3 ni nj nk (cellOf3 (gridPt3 origin invScale p2))
        · rw [if_pos hok]
          obtain ⟨i1, i2⟩ := markCells3_spec ni nj nk (gridPt3 origin invScale p0) (gridPt3 origin invScale p1) (gridPt3 origin invScale p2)
            (triCells3 ni nj nk (gridPt3 origin invScale p0) (gridPt3 origin invScale p1) (gridPt3 origin invScale p2)) st.g hg
            (triCells3_inB ni nj nk _ _ _)
          refine ⟨⟨fun _ => ⟨p0, p1, p2, h0, h1, h2, hok⟩, fun _ => hp⟩, fun _ => ⟨i1, fun q hq => ?_⟩⟩
          show getC3 ni nj (List.foldl _ st.g _) q = .surf ↔ _
          rw [i2 q hq, mem_triCells3]
          constructor
          · rintro (h | h)
            · exact Or.inl h
            · exact Or.inr ⟨p0, p1, p2, h0, h1, h2, h.1, h.2⟩
          · rintro (h | ⟨a, b, c, ha, hb, hc, r1, r2⟩)
            · exact Or.inl h
            · rw [h0] at ha; rw [h1] at hb; rw [h2] at hc
              cases ha; cases hb; cases hc
              exact Or.inr ⟨r1, r2⟩
        · rw [if_neg hok]
          refine ⟨⟨fun h => (by cases h), ?_⟩, fun h => by cases h⟩
          rintro ⟨a, b, c, ha, hb, hc, r⟩
          rw [h0] at ha; rw [h1] at hb; rw [h2] at hc
          cases ha; cases hb; cases hc
          exact absurd r hok

/-- the whole loop over the triangles -/
theorem markTris3_spec (ni nj nk : Nat) (origin : V3 K) (invScale : K) (pts : Array (V3 K)) :
    ∀ (ts : List (Nat × Nat × Nat)) (st : Mark3), MGood3 ni nj nk st.g →
    ((ts.foldl (markTri3 ni nj nk origin invScale pts) st).panic = false ↔
      (st.panic = false ∧ ∀ t ∈ ts, TriOk3 pts origin invScale ni nj nk t)) ∧
    ((ts.foldl (markTri3 ni nj nk origin invScale pts) st).panic = false →
      MGood3 ni nj nk (ts.foldl (markTri3 ni nj nk origin invScale pts) st).g ∧
      ∀ q, InB3 ni nj nk q → (getC3 ni nj (ts.foldl (markTri3 ni nj nk origin invScale pts) st).g q = .surf ↔
        getC3 ni nj st.g q = .surf ∨ ∃ t ∈ ts, Hit3 pts origin invScale ni nj nk t q))
  | [], st, hg => ⟨⟨fun h => ⟨h, fun _ h => by cases h⟩, fun h => h.1⟩, fun _ => ⟨hg, fun q _ => by simp⟩⟩
  | t :: ts, st, hg => by
    rw [List.foldl_cons]
    by_cases hp : st.panic = true
    · rw [markTri3_panic ni nj nk origin invScale pts st hp, foldl3_panic ni nj nk origin invScale pts ts st hp]
      exact ⟨⟨fun h => (by rw [hp] at h; cases h), fun h => (by rw [hp] at h; cases h.1)⟩, fun h => (by rw [hp] at h; cases h)⟩
    · have hp' : st.panic = false := by simpa using hp
      obtain ⟨s1, s2⟩ := markTri3_spec ni nj nk origin invScale pts st hg hp' t
      by_cases hp1 : (markTri3 ni nj nk origin invScale pts st t).panic = true
      · rw [foldl3_panic ni nj nk origin invScale pts ts _ hp1]
        refine ⟨⟨fun h => (by rw [hp1] at h; cases h), fun h => ?_⟩, fun h => (by rw [hp1] at h; cases h)⟩
        have := s1.mpr (h.2 t List.mem_cons_self)
        rw [hp1] at this; cases this
      · have hp1' : (markTri3 ni nj nk origin invScale pts st t).panic = false := by simpa using hp1
        obtain ⟨g1, v1⟩ := s2 hp1'
        obtain ⟨i1, i2⟩ := markTris3_spec ni nj nk origin invScale pts ts _ g1
        refine ⟨?_, fun hfin => ?_⟩
        · rw [i1]
          constructor
          · rintro ⟨_, h⟩
            refine ⟨hp', fun t' ht' => ?_⟩
            rcases List.mem_cons.mp ht' with rfl | ht'
            · exact s1.mp hp1'
            · exact h t' ht'
          · rintro ⟨_, h⟩
            exact ⟨hp1', fun t' ht' => h t' (List.mem_cons_of_mem _ ht')⟩
        · obtain ⟨j1, j2⟩ := i2 hfin
          refine ⟨j1, fun q hq => ?_⟩
          rw [j2 q hq, v1 q hq]
          constructor
          · rintro ((h | h) | ⟨t', ht', h⟩)
            · exact Or.inl h
            · exact Or.inr ⟨t, List.mem_cons_self, h⟩
            · exact Or.inr ⟨t', List.mem_cons_of_mem _ ht', h⟩
          · rintro (h | ⟨t', ht', h⟩)
            · exact Or.inl (Or.inl h)
            · rcases List.mem_cons.mp ht' with rfl | ht'
              · exact Or.inl (Or.inr h)
              · exact Or.inr ⟨t', ht', h⟩

theorem replicate_good3 (ni nj nk : Nat) : MGood3 ni nj nk (Array.replicate (ni * nj * nk) VV.undef) := by
  refine ⟨by simp, fun q _ => Or.inl ?_⟩
  simp only [getC3, Array.getD_eq_getD_getElem?, Array.getElem?_replicate]
  split_ifs <;> rfl

theorem replicate_not_surf3 (ni nj nk : Nat) (q : Nat × Nat × Nat) :
    getC3 ni nj (Array.replicate (ni * nj * nk) VV.undef) q ≠ .surf := by
  intro v
  simp only [getC3, Array.getD_eq_getD_getElem?, Array.getElem?_replicate] at v
  split_ifs at v <;> cases v

/-- the marking loop started from the freshly allocated grid -/
def markFrom3 (pts : Array (V3 K)) (tris : List (Nat × Nat × Nat)) (O : V3 K) (INV : K) (NI NJ NK : Nat) : Mark3 :=
  tris.foldl (markTri3 NI NJ NK O INV pts) ⟨Array.replicate (NI * NJ * NK) .undef, false⟩

/-- **the marking phase** (3-D): the panic flag stays clear iff every triangle passes the index lookups and the
`assert!`s; in that case the grid has the right size, holds only `PrimitiveUndefined` / `PrimitiveOnSurface`, and a cell
is `PrimitiveOnSurface` iff some triangle has it in its candidate range with a positive test. -/
theorem markFrom3_spec (pts : Array (V3 K)) (tris : List (Nat × Nat × Nat)) (O : V3 K) (INV : K) (NI NJ NK : Nat) :
    ((markFrom3 pts tris O INV NI NJ NK).panic = false ↔ ∀ t ∈ tris, TriOk3 pts O INV NI NJ NK t) ∧
    ((markFrom3 pts tris O INV NI NJ NK).panic = false →
      MGood3 NI NJ NK (markFrom3 pts tris O INV NI NJ NK).g ∧
      ∀ q, InB3 NI NJ NK q → (getC3 NI NJ (markFrom3 pts tris O INV NI NJ NK).g q = .surf ↔
          ∃ t ∈ tris, Hit3 pts O INV NI NJ NK t q)) := by
  unfold markFrom3
  obtain ⟨i1, i2⟩ := markTris3_spec NI NJ NK O INV pts tris ⟨Array.replicate (NI * NJ * NK) .undef, false⟩
    (replicate_good3 NI NJ NK)
  refine ⟨?_, fun hp => ?_⟩
  · rw [i1]
    exact ⟨fun h => h.2, fun h => ⟨rfl, h⟩⟩
  · obtain ⟨j1, j2⟩ := i2 hp
    refine ⟨j1, fun q hq => ?_⟩
    rw [j2 q hq]
    constructor
    · rintro (h | h)
      · exact absurd h (replicate_not_surf3 NI NJ NK q)
      · exact h
    · exact Or.inr

/-- `markAll3` is the marking loop on the grid computed from the bounding box of the points -/
theorem markAll3_eq (res : Nat) (p0 : V3 K) (ps : List (V3 K)) (tris : List (Nat × Nat × Nat)) :
    markAll3 res p0 ps tris =
      ⟨(cloudAabb3 p0 ps).1, (gridParams3 res (cloudAabb3 p0 ps).1 (cloudAabb3 p0 ps).2).2.2.2,
        (gridParams3 res (cloudAabb3 p0 ps).1 (cloudAabb3 p0 ps).2).1, (gridParams3 res (cloudAabb3 p0 ps).1 (cloudAabb3 p0 ps).2).2.1,
        (gridParams3 res (cloudAabb3 p0 ps).1 (cloudAabb3 p0 ps).2).2.2.1,
        (markFrom3 (p0 :: ps).toArray tris (cloudAabb3 p0 ps).1 (invScale3 res (cloudAabb3 p0 ps).1 (cloudAabb3 p0 ps).2)
          (gridParams3 res (cloudAabb3 p0 ps).1 (cloudAabb3 p0 ps).2).1 (gridParams3 res (cloudAabb3 p0 ps).1 (cloudAabb3 p0 ps).2).2.1
          (gridParams3 res (cloudAabb3 p0 ps).1 (cloudAabb3 p0 ps).2).2.2.1).g,
        (markFrom3 (p0 :: ps).toArray tris (cloudAabb3 p0 ps).1 (invScale3 res (cloudAabb3 p0 ps).1 (cloudAabb3 p0 ps).2)
          (gridParams3 res (cloudAabb3 p0 ps).1 (cloudAabb3 p0 ps).2).1 (gridParams3 res (cloudAabb3 p0 ps).1 (cloudAabb3 p0 ps).2).2.1
          (gridParams3 res (cloudAabb3 p0 ps).1 (cloudAabb3 p0 ps).2).2.2.1).panic⟩ := rfl

theorem gridParams3_dims (res : Nat) (hres : 1 ≤ res) (mn mx : V3 K) :
    1 ≤ (gridParams3 res mn mx).1 ∧ 1 ≤ (gridParams3 res mn mx).2.1 ∧ 1 ≤ (gridParams3 res mn mx).2.2.1 := by
  unfold gridParams3
  simp only []
  split_ifs
  · exact ⟨hres, by show 1 ≤ 2 + _; omega, by show 1 ≤ 2 + _; omega⟩
  · exact ⟨by show 1 ≤ 2 + _; omega, hres, by show 1 ≤ 2 + _; omega⟩
  · exact ⟨by show 1 ≤ 2 + _; omega, by show 1 ≤ 2 + _; omega, hres⟩

end

/-- the fill pass keeps the size of the grid, in every `FillMode` -/
theorem fill3_size (flood cav : Bool) (ni nj nk : Nat) (g : Array VV) :
    (fill3 flood cav ni nj nk g).1.size = g.size := by
  unfold fill3
  by_cases hf : flood = true
  · have hsb : (markBorder3 ni nj nk g).size = g.size := (sc_markBorder3 ni nj nk g).1
    by_cases hc : cav = true
    · simp only [hf, hc, Bool.not_true, Bool.false_eq_true, if_false, if_true, Array.size_map]
      rw [(sc_cavityLoop3 ni nj nk _ _).1, (sc_propagate3 ni nj nk .outWalk .outside none .surfWalk1 rfl rfl rfl _ _ _).1, hsb]
    · have hc' : cav = false := by simpa using hc
      simp only [hf, hc', Bool.not_true, Bool.false_eq_true, if_false, replaceValue, Array.size_map]
      rw [(sc_propagate3 ni nj nk .outWalk .outside none .surf rfl rfl rfl _ _ _).1, hsb]
  · have hf' : flood = false := by simpa using hf
    simp [hf']

end C18
