import ParryModel.Field
import ParryModel.C18.LemmasGrid
import ParryModel.C18.LemmasMark3
import ParryModel.C18.LemmasTri3
import ParryModel.C18.Theorems8
/-!
# C18 lemmas for the 3-D voxelizer model: index arithmetic at the lawful instance
3-D port of `LemmasGrid.lean`.  `x as u32` is `fieldCast tr` with `LawfulTrunc tr` (floor on non-negative arguments): the
candidate range of a triangle is complete (`range3_complete`), the cell test is complete (`cellHit3_complete`, from
`tritest_complete` of `Theorems8.lean`), `local_point_cloud_aabb` bounds the cloud (`cloudAabb3_bounds`), the scale is
positive and `inv_scale = 1/scale` (`gridParams3_field`), the three `assert!`s cannot fire on a point of the bounding box
(`assert_ok3_field`).
-/
set_option linter.style.haveILetI false
set_option linter.unusedSectionVars false
set_option linter.unusedVariables false
set_option linter.unusedSimpArgs false
namespace C18
open Model Model.Vox Model.Vox3
variable {K : Type} [Field K] [LinearOrder K] [IsStrictOrderedRing K] (sq : K → K) (tr : K → Nat)

theorem cellOf3_field (g : V3 K) :
    letI := fieldNum K sq; letI := fieldCast tr
    cellOf3 g = (tr (g.x + 1 / 2), tr (g.y + 1 / 2), tr (g.z + 1 / 2)) := by
  letI := fieldNum K sq; letI := fieldCast tr
  simp only [cellOf3, half_lit]
  rfl

theorem cellAabb3_field (tr : K → Nat) (i j k : Nat) :
    letI := fieldNum K sq; letI := fieldCast tr
    cellAabb3 (K := K) i j k =
      (⟨(i : K) - 1 / 2, (j : K) - 1 / 2, (k : K) - 1 / 2⟩, ⟨(i : K) + 1 / 2, (j : K) + 1 / 2, (k : K) + 1 / 2⟩) := by
  letI := fieldNum K sq; letI := fieldCast tr
  simp only [cellAabb3, V3.sub, V3.add, half_lit, lit_nat]

/-- a convex combination of three values lies between their minimum and their maximum -/
theorem conv3_between (a b c u v w : K) (hu : 0 ≤ u) (hv : 0 ≤ v) (hw : 0 ≤ w) (h1 : u + v + w = 1) :
    min (min a b) c ≤ u * a + v * b + w * c ∧ u * a + v * b + w * c ≤ max (max a b) c := by
  constructor
  · have ha : min (min a b) c ≤ a := le_trans (min_le_left _ _) (min_le_left _ _)
    have hb : min (min a b) c ≤ b := le_trans (min_le_left _ _) (min_le_right _ _)
    have hc : min (min a b) c ≤ c := min_le_right _ _
    generalize min (min a b) c = m at *
    have e : m * (u + v + w) = m := by rw [h1, mul_one]
    linarith [mul_nonneg hu (sub_nonneg.mpr ha), mul_nonneg hv (sub_nonneg.mpr hb), mul_nonneg hw (sub_nonneg.mpr hc)]
  · have ha : a ≤ max (max a b) c := le_trans (le_max_left _ _) (le_max_left _ _)
    have hb : b ≤ max (max a b) c := le_trans (le_max_right _ _) (le_max_left _ _)
    have hc : c ≤ max (max a b) c := le_max_right _ _
    generalize max (max a b) c = m at *
    have e : m * (u + v + w) = m := by rw [h1, mul_one]
    linarith [mul_nonneg hu (sub_nonneg.mpr ha), mul_nonneg hv (sub_nonneg.mpr hb), mul_nonneg hw (sub_nonneg.mpr hc)]

/-- one axis of `range3_complete`: a cell index within `1/2` of a convex combination of three non-negative grid
coordinates lies in `[min − 1, max + 1)` of the three vertex cells -/
theorem range3_axis (htr : LawfulTrunc tr) (a b c u v w : K) (n : Nat) (ha : 0 ≤ a) (hb : 0 ≤ b) (hc : 0 ≤ c)
    (hu : 0 ≤ u) (hv : 0 ≤ v) (hw : 0 ≤ w) (h1 : u + v + w = 1) (hn : |u * a + v * b + w * c - (n : K)| ≤ 1 / 2) :
    min (min (tr (a + 1 / 2)) (tr (b + 1 / 2))) (tr (c + 1 / 2)) - 1 ≤ n ∧
    n < max (max (tr (a + 1 / 2)) (tr (b + 1 / 2))) (tr (c + 1 / 2)) + 1 := by
  obtain ⟨b1, b2⟩ := conv3_between a b c u v w hu hv hw h1
  obtain ⟨a1, a2⟩ := abs_le.mp hn
  have ha' : (0:K) ≤ a + 1 / 2 := by linarith
  have hb' : (0:K) ≤ b + 1 / 2 := by linarith
  have hc' : (0:K) ≤ c + 1 / 2 := by linarith
  constructor
  · have m1 : ((min (min (tr (a + 1 / 2)) (tr (b + 1 / 2))) (tr (c + 1 / 2)) : Nat) : K) ≤ (tr (a + 1 / 2) : K) := by
      exact_mod_cast le_trans (Nat.min_le_left _ _) (Nat.min_le_left _ _)
    have m2 : ((min (min (tr (a + 1 / 2)) (tr (b + 1 / 2))) (tr (c + 1 / 2)) : Nat) : K) ≤ (tr (b + 1 / 2) : K) := by
      exact_mod_cast le_trans (Nat.min_le_left _ _) (Nat.min_le_right _ _)
    have m3 : ((min (min (tr (a + 1 / 2)) (tr (b + 1 / 2))) (tr (c + 1 / 2)) : Nat) : K) ≤ (tr (c + 1 / 2) : K) := by
      exact_mod_cast Nat.min_le_right _ _
    have := htr.le _ ha'; have := htr.le _ hb'; have := htr.le _ hc'
    generalize min (min (tr (a + 1 / 2)) (tr (b + 1 / 2))) (tr (c + 1 / 2)) = M at *
    have hmin : (M : K) - 1 / 2 ≤ min (min a b) c := le_min (le_min (by linarith) (by linarith)) (by linarith)
    have h3 : (M : K) < ((n + 2 : Nat) : K) := by
      push_cast; linarith
    have := Nat.cast_lt.mp h3
    omega
  · have m1 : (tr (a + 1 / 2) : K) ≤ ((max (max (tr (a + 1 / 2)) (tr (b + 1 / 2))) (tr (c + 1 / 2)) : Nat) : K) := by
      exact_mod_cast le_trans (Nat.le_max_left _ _) (Nat.le_max_left _ _)
    have m2 : (tr (b + 1 / 2) : K) ≤ ((max (max (tr (a + 1 / 2)) (tr (b + 1 / 2))) (tr (c + 1 / 2)) : Nat) : K) := by
      exact_mod_cast le_trans (Nat.le_max_right _ _) (Nat.le_max_left _ _)
    have m3 : (tr (c + 1 / 2) : K) ≤ ((max (max (tr (a + 1 / 2)) (tr (b + 1 / 2))) (tr (c + 1 / 2)) : Nat) : K) := by
      exact_mod_cast Nat.le_max_right _ _
    have := htr.lt _ ha'; have := htr.lt _ hb'; have := htr.lt _ hc'
    generalize max (max (tr (a + 1 / 2)) (tr (b + 1 / 2))) (tr (c + 1 / 2)) = M at *
    have hmax : max (max a b) c < (M : K) + 1 / 2 := max_lt (max_lt (by linarith) (by linarith)) (by linarith)
    have h3 : (n : K) < ((M + 1 : Nat) : K) := by
      push_cast; linarith
    exact Nat.cast_lt.mp h3

/-- **the candidate range is complete**: a cell whose closed unit cube contains a point of the grid-space triangle lies
in the range `[min − 1, min(max + 1, res))` computed from the cells of the three vertices. -/
theorem range3_complete (htr : LawfulTrunc tr) (ni nj nk : Nat) (g0 g1 g2 : V3 K)
    (h0x : 0 ≤ g0.x) (h0y : 0 ≤ g0.y) (h0z : 0 ≤ g0.z) (h1x : 0 ≤ g1.x) (h1y : 0 ≤ g1.y) (h1z : 0 ≤ g1.z)
    (h2x : 0 ≤ g2.x) (h2y : 0 ≤ g2.y) (h2z : 0 ≤ g2.z)
    (u v w : K) (hu : 0 ≤ u) (hv : 0 ≤ v) (hw : 0 ≤ w) (h1 : u + v + w = 1)
    (n : Nat × Nat × Nat) (hn : InB3 ni nj nk n)
    (hx : |u * g0.x + v * g1.x + w * g2.x - (n.1 : K)| ≤ 1 / 2)
    (hy : |u * g0.y + v * g1.y + w * g2.y - (n.2.1 : K)| ≤ 1 / 2)
    (hz : |u * g0.z + v * g1.z + w * g2.z - (n.2.2 : K)| ≤ 1 / 2) :
    letI := fieldNum K sq; letI := fieldCast tr
    InRange3 (triRange3 ni nj nk (cellOf3 g0) (cellOf3 g1) (cellOf3 g2)) n := by
  letI := fieldNum K sq; letI := fieldCast tr
  simp only [InRange3, triRange3, cellOf3_field]
  obtain ⟨x1, x2⟩ := range3_axis tr htr g0.x g1.x g2.x u v w n.1 h0x h1x h2x hu hv hw h1 hx
  obtain ⟨y1, y2⟩ := range3_axis tr htr g0.y g1.y g2.y u v w n.2.1 h0y h1y h2y hu hv hw h1 hy
  obtain ⟨z1, z2⟩ := range3_axis tr htr g0.z g1.z g2.z u v w n.2.2 h0z h1z h2z hu hv hw h1 hz
  obtain ⟨n1, n2, n3⟩ := hn
  refine ⟨⟨x1, ?_⟩, ⟨y1, ?_⟩, ⟨z1, ?_⟩⟩ <;> omega

/-- the cell test is complete: if a point of the grid-space triangle lies in the closed unit cube of cell `n`, the test
returns `true` -/
theorem cellHit3_complete (tr : K → Nat) (hsq : LawfulSqrt sq) (g0 g1 g2 : V3 K)
    (u v w : K) (hu : 0 ≤ u) (hv : 0 ≤ v) (hw : 0 ≤ w) (h1 : u + v + w = 1) (n : Nat × Nat × Nat)
    (hx : |u * g0.x + v * g1.x + w * g2.x - (n.1 : K)| ≤ 1 / 2)
    (hy : |u * g0.y + v * g1.y + w * g2.y - (n.2.1 : K)| ≤ 1 / 2)
    (hz : |u * g0.z + v * g1.z + w * g2.z - (n.2.2 : K)| ≤ 1 / 2) :
    letI := fieldNum K sq; letI := fieldCast tr
    cellHit3 g0 g1 g2 n = true := by
  letI := fieldNum K sq; letI := fieldCast tr
  unfold cellHit3
  rw [cellAabb3_field sq tr]
  simp only []
  obtain ⟨a1, a2⟩ := abs_le.mp hx
  obtain ⟨b1, b2⟩ := abs_le.mp hy
  obtain ⟨c1, c2⟩ := abs_le.mp hz
  refine tritest_complete sq hsq _ _ g0 g1 g2
    ⟨u * g0.x + v * g1.x + w * g2.x, u * g0.y + v * g1.y + w * g2.y, u * g0.z + v * g1.z + w * g2.z⟩ ?_
    ⟨u, v, w, hu, hv, hw, h1, rfl, rfl, rfl⟩
  refine ⟨⟨?_, ?_⟩, ⟨?_, ?_⟩, ⟨?_, ?_⟩⟩ <;> simp only [] <;> linarith

/-- `local_point_cloud_aabb` bounds every point of the cloud -/
theorem cloudAabb3_bounds (p0 : V3 K) (ps : List (V3 K)) :
    letI := fieldNum K sq
    ∀ p ∈ p0 :: ps, ((cloudAabb3 p0 ps).1.x ≤ p.x ∧ p.x ≤ (cloudAabb3 p0 ps).2.x) ∧
      ((cloudAabb3 p0 ps).1.y ≤ p.y ∧ p.y ≤ (cloudAabb3 p0 ps).2.y) ∧
      ((cloudAabb3 p0 ps).1.z ≤ p.z ∧ p.z ≤ (cloudAabb3 p0 ps).2.z) := by
  letI := fieldNum K sq
  unfold cloudAabb3
  have gen : ∀ (l : List (V3 K)) (acc : V3 K × V3 K) (q : V3 K),
      (q ∈ l ∨ ((acc.1.x ≤ q.x ∧ q.x ≤ acc.2.x) ∧ (acc.1.y ≤ q.y ∧ q.y ≤ acc.2.y) ∧ (acc.1.z ≤ q.z ∧ q.z ≤ acc.2.z))) →
      (((l.foldl (fun acc p => (acc.1.inf p, acc.2.sup p)) acc).1.x ≤ q.x ∧ q.x ≤ (l.foldl (fun acc p => (acc.1.inf p, acc.2.sup p)) acc).2.x) ∧
       ((l.foldl (fun acc p => (acc.1.inf p, acc.2.sup p)) acc).1.y ≤ q.y ∧ q.y ≤ (l.foldl (fun acc p => (acc.1.inf p, acc.2.sup p)) acc).2.y) ∧
       ((l.foldl (fun acc p => (acc.1.inf p, acc.2.sup p)) acc).1.z ≤ q.z ∧ q.z ≤ (l.foldl (fun acc p => (acc.1.inf p, acc.2.sup p)) acc).2.z)) := by
    intro l
    induction l with
    | nil => intro acc q h; rcases h with h | h; cases h; exact h
    | cons a l ih =>
      intro acc q h
      rw [List.foldl_cons]
      apply ih
      rcases h with h | h
      · rcases List.mem_cons.mp h with rfl | h
        · right
          simp only [V3.inf, V3.sup, fieldNum_nmin, fieldNum_nmax]
          exact ⟨⟨min_le_right _ _, le_max_right _ _⟩, ⟨min_le_right _ _, le_max_right _ _⟩, ⟨min_le_right _ _, le_max_right _ _⟩⟩
        · left; exact h
      · right
        simp only [V3.inf, V3.sup, fieldNum_nmin, fieldNum_nmax]
        exact ⟨⟨le_trans (min_le_left _ _) h.1.1, le_trans h.1.2 (le_max_left _ _)⟩,
               ⟨le_trans (min_le_left _ _) h.2.1.1, le_trans h.2.1.2 (le_max_left _ _)⟩,
               ⟨le_trans (min_le_left _ _) h.2.2.1, le_trans h.2.2.2 (le_max_left _ _)⟩⟩
  intro p hp
  apply gen
  rcases List.mem_cons.mp hp with rfl | h
  · right; exact ⟨⟨le_refl _, le_refl _⟩, ⟨le_refl _, le_refl _⟩, ⟨le_refl _, le_refl _⟩⟩
  · left; exact h

/-- grid parameters at the lawful instance: positive scale, positive `inv_scale`, `scale * inv_scale = 1` -/
theorem gridParams3_field (tr : K → Nat) (res : Nat) (hres : 2 ≤ res) (mn mx : V3 K)
    (hx : mn.x ≤ mx.x) (hy : mn.y ≤ mx.y) (hz : mn.z ≤ mx.z)
    (hext : mn.x < mx.x ∨ mn.y < mx.y ∨ mn.z < mx.z) :
    letI := fieldNum K sq; letI := fieldCast tr
    0 < (gridParams3 res mn mx).2.2.2 ∧ 0 < invScale3 res mn mx ∧
    (gridParams3 res mn mx).2.2.2 * invScale3 res mn mx = 1 := by
  letI := fieldNum K sq; letI := fieldCast tr
  have hr : (0:K) < (res : K) - 1 := by
    have : (2:K) ≤ (res : K) := by exact_mod_cast hres
    linarith
  unfold gridParams3 invScale3
  simp only [V3.sub, lit_nat]
  split_ifs with h1 h2
  · have hd : 0 < mx.x - mn.x := by
      rcases hext with e | e | e <;> linarith [h1.1, h1.2]
    refine ⟨div_pos hd hr, div_pos hr hd, ?_⟩
    field_simp
  · have hd : 0 < mx.y - mn.y := by
      rcases hext with e | e | e <;> linarith [h2.1, h2.2]
    refine ⟨div_pos hd hr, div_pos hr hd, ?_⟩
    field_simp
  · have hd : 0 < mx.z - mn.z := by
      by_contra hc
      have hz0 : mx.z - mn.z ≤ 0 := not_lt.mp hc
      rcases not_and_or.mp h1 with a | a
      · rcases not_and_or.mp h2 with b | b
        · exact absurd (le_of_lt (not_le.mp a)) b
        · exact b (by linarith)
      · exact a (by linarith)
    refine ⟨div_pos hd hr, div_pos hr hd, ?_⟩
    field_simp

/-- **the three `assert!`s cannot fire** on a point of the bounding box: its cell index is inside the grid -/
theorem assert_ok3_field (tr : K → Nat) (htr : LawfulTrunc tr) (res : Nat) (hres : 2 ≤ res) (mn mx a : V3 K)
    (hax : mn.x ≤ a.x ∧ a.x ≤ mx.x) (hay : mn.y ≤ a.y ∧ a.y ≤ mx.y) (haz : mn.z ≤ a.z ∧ a.z ≤ mx.z)
    (hext : mn.x < mx.x ∨ mn.y < mx.y ∨ mn.z < mx.z) :
    letI := fieldNum K sq; letI := fieldCast tr
    InB3 (gridParams3 res mn mx).1 (gridParams3 res mn mx).2.1 (gridParams3 res mn mx).2.2.1
      (cellOf3 (gridPt3 mn (invScale3 res mn mx) a)) := by
  letI := fieldNum K sq; letI := fieldCast tr
  have hr : (0:K) < (res : K) - 1 := by
    have : (2:K) ≤ (res : K) := by exact_mod_cast hres
    linarith
  rw [cellOf3_field]
  unfold gridParams3 invScale3 InB3
  simp only [V3.sub, lit_nat, gridPt3, V3.smul]
  have major : ∀ (u D : K), 0 ≤ u → u ≤ D → 0 < D → tr (u * (((res : K) - 1) / D) + 1 / 2) < res := by
    intro u D hu hud hD
    have h1 : u * (((res : K) - 1) / D) ≤ (res : K) - 1 := by
      rw [mul_div_assoc']
      rw [div_le_iff₀ hD]
      nlinarith
    have h0 : 0 ≤ u * (((res : K) - 1) / D) := mul_nonneg hu (div_nonneg hr.le hD.le)
    have := htr.le (u * (((res : K) - 1) / D) + 1 / 2) (by linarith)
    have h3 : (tr (u * (((res : K) - 1) / D) + 1 / 2) : K) < (res : K) := by linarith
    exact_mod_cast h3
  have minor : ∀ (u d D : K), 0 ≤ u → u ≤ d → 0 < D →
      tr (u * (((res : K) - 1) / D) + 1 / 2) < 2 + tr ((res : K) * d / D) := by
    intro u d D hu hud hD
    have hd : 0 ≤ d := le_trans hu hud
    have h0 : 0 ≤ u * (((res : K) - 1) / D) := mul_nonneg hu (div_nonneg hr.le hD.le)
    have h1 : u * (((res : K) - 1) / D) ≤ (res : K) * d / D := by
      rw [mul_div_assoc', div_le_div_iff_of_pos_right hD]
      nlinarith
    have hpos : 0 ≤ (res : K) * d / D := div_nonneg (mul_nonneg (by linarith) hd) hD.le
    have a1 := htr.le (u * (((res : K) - 1) / D) + 1 / 2) (by linarith)
    have a2 := htr.lt ((res : K) * d / D) hpos
    have h3 : (tr (u * (((res : K) - 1) / D) + 1 / 2) : K) < ((2 + tr ((res : K) * d / D) : Nat) : K) := by
      push_cast; linarith
    exact_mod_cast h3
  split_ifs with h1 h2
  · have hD : 0 < mx.x - mn.x := by
      rcases hext with e | e | e <;> linarith [h1.1, h1.2]
    exact ⟨major (a.x - mn.x) (mx.x - mn.x) (by linarith) (by linarith) hD,
      minor (a.y - mn.y) (mx.y - mn.y) (mx.x - mn.x) (by linarith) (by linarith) hD,
      minor (a.z - mn.z) (mx.z - mn.z) (mx.x - mn.x) (by linarith) (by linarith) hD⟩
  · have hD : 0 < mx.y - mn.y := by
      rcases hext with e | e | e <;> linarith [h2.1, h2.2]
    exact ⟨minor (a.x - mn.x) (mx.x - mn.x) (mx.y - mn.y) (by linarith) (by linarith) hD,
      major (a.y - mn.y) (mx.y - mn.y) (by linarith) (by linarith) hD,
      minor (a.z - mn.z) (mx.z - mn.z) (mx.y - mn.y) (by linarith) (by linarith) hD⟩
  · have hD : 0 < mx.z - mn.z := by
      by_contra hc
      have hz0 : mx.z - mn.z ≤ 0 := not_lt.mp hc
      rcases not_and_or.mp h1 with a' | a'
      · rcases not_and_or.mp h2 with b | b
        · exact absurd (le_of_lt (not_le.mp a')) b
        · exact b (by linarith)
      · exact a' (by linarith)
    exact ⟨minor (a.x - mn.x) (mx.x - mn.x) (mx.z - mn.z) (by linarith) (by linarith) hD,
      minor (a.y - mn.y) (mx.y - mn.y) (mx.z - mn.z) (by linarith) (by linarith) hD,
      major (a.z - mn.z) (mx.z - mn.z) (by linarith) (by linarith) hD⟩

/-- the closed world-space cube of cell `n`: centre `origin + n · scale`, side `scale` -/
def InCell3 (origin : V3 K) (scale : K) (n : Nat × Nat × Nat) (p : V3 K) : Prop :=
  |p.x - (origin.x + (n.1 : K) * scale)| ≤ scale / 2 ∧ |p.y - (origin.y + (n.2.1 : K) * scale)| ≤ scale / 2 ∧
  |p.z - (origin.z + (n.2.2 : K) * scale)| ≤ scale / 2

/-- world ↔ grid: distance to the centre of cell `n` along one axis -/
theorem grid_dist3 (S INV : K) (hSI : S * INV = 1) (hS : 0 < S) (hI : 0 < INV) (x o : K) (n : Nat) :
    (|x - (o + (n : K) * S)| ≤ S / 2 ↔ |(x - o) * INV - (n : K)| ≤ 1 / 2) := by
  have e : (x - o) * INV - (n : K) = (x - (o + (n : K) * S)) * INV := by
    linear_combination (n : K) * hSI
  rw [e, abs_mul, abs_of_pos hI]
  constructor
  · intro h
    calc |x - (o + (n : K) * S)| * INV ≤ S / 2 * INV := mul_le_mul_of_nonneg_right h hI.le
      _ = 1 / 2 := by linear_combination (1 / 2 : K) * hSI
  · intro h
    have : |x - (o + (n : K) * S)| * INV * S ≤ 1 / 2 * S := mul_le_mul_of_nonneg_right h hS.le
    have e2 : |x - (o + (n : K) * S)| * INV * S = |x - (o + (n : K) * S)| := by
      linear_combination |x - (o + (n : K) * S)| * hSI
    linarith

/-- the cell of a convex combination of three non-negative grid coordinates is below any bound on the three vertex cells -/
theorem cell3_axis_lt (htr : LawfulTrunc tr) (a b c u v w : K) (N : Nat) (ha : 0 ≤ a) (hb : 0 ≤ b) (hc : 0 ≤ c)
    (hu : 0 ≤ u) (hv : 0 ≤ v) (hw : 0 ≤ w) (h1 : u + v + w = 1)
    (la : tr (a + 1 / 2) < N) (lb : tr (b + 1 / 2) < N) (lc : tr (c + 1 / 2) < N) :
    0 ≤ u * a + v * b + w * c ∧ tr (u * a + v * b + w * c + 1 / 2) < N := by
  obtain ⟨b1, b2⟩ := conv3_between a b c u v w hu hv hw h1
  have h0 : 0 ≤ u * a + v * b + w * c := le_trans (le_min (le_min ha hb) hc) b1
  refine ⟨h0, ?_⟩
  rcases le_max_iff.mp b2 with h | h
  · rcases le_max_iff.mp h with h | h
    · exact lt_of_le_of_lt (tr_mono htr (by linarith) (by linarith)) la
    · exact lt_of_le_of_lt (tr_mono htr (by linarith) (by linarith)) lb
  · exact lt_of_le_of_lt (tr_mono htr (by linarith) (by linarith)) lc

/-- a non-negative grid coordinate is within `1/2` of its cell index `⌊g + 1/2⌋` -/
theorem cell3_axis_near (htr : LawfulTrunc tr) (g : K) (hg : 0 ≤ g) : |g - (tr (g + 1 / 2) : K)| ≤ 1 / 2 :=
  abs_le.mpr ⟨by linarith [htr.le (g + 1 / 2) (by linarith)], by linarith [htr.lt (g + 1 / 2) (by linarith)]⟩

end C18
