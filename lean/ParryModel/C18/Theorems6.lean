import ParryModel.Field
import ParryModel.C18.ModelAcd2
/-!
# C18 theorems, part 6: accounting of `clip`, `compute_clipped_volumes`, `intersect`, the axis-aligned
plane generators, `compute_bb` and `select_on_surface`.
-/
set_option linter.style.haveILetI false
namespace C18
open Model

section anyNum
variable {K : Type} [Num K]

/-! ### 1. `clip`: every voxel goes to exactly one side -/

private theorem clipVoxel_fst (o : V3 K) (s : K) (pl : CutPlane K) (v : Voxel) :
    (clipVoxel o s pl v).1 = decide (0 ≤ pl.abc.dot (voxelPoint o s v) + pl.d) := by
  unfold clipVoxel; simp only []; split_ifs <;> simp_all

private theorem clipVoxel_coords (o : V3 K) (s : K) (pl : CutPlane K) (v : Voxel) :
    (clipVoxel o s pl v).2.coords = v.coords := by
  unfold clipVoxel; simp only []; split_ifs <;> rfl

private theorem clip_fst (o : V3 K) (s : K) (pl : CutPlane K) (vs : List Voxel) :
    (clip o s pl vs).1 = (vs.filter fun v => decide (0 ≤ planeDist o s pl v)).map fun v => (clipVoxel o s pl v).2 := by
  unfold clip
  simp only [List.filter_map, List.map_map]
  congr 1
  apply List.filter_congr
  intro v _
  simp [clipVoxel_fst, planeDist]
  exact decide_eq_decide.mpr Iff.rfl

private theorem clip_snd (o : V3 K) (s : K) (pl : CutPlane K) (vs : List Voxel) :
    (clip o s pl vs).2 = (vs.filter fun v => !decide (0 ≤ planeDist o s pl v)).map fun v => (clipVoxel o s pl v).2 := by
  unfold clip
  simp only [List.filter_map, List.map_map]
  congr 1
  apply List.filter_congr
  intro v _
  simp [clipVoxel_fst, planeDist]
  exact decide_eq_decide.mpr Iff.rfl

private theorem clip_perm' (o : V3 K) (s : K) (pl : CutPlane K) (vs : List Voxel) :
    (((clip o s pl vs).1 ++ (clip o s pl vs).2).map Voxel.coords).Perm (vs.map Voxel.coords) := by
  rw [clip_fst, clip_snd]
  simp only [List.map_append, List.map_map]
  have e : (Voxel.coords ∘ fun v => (clipVoxel o s pl v).2) = Voxel.coords := by
    funext v; exact clipVoxel_coords o s pl v
  rw [e, ← List.map_append]
  exact (List.filter_append_perm _ vs).map _

/-- For every `Num` instance (also `Float` with NaN): `clip` sends each input voxel to exactly one side.
(a) the sizes of the two parts add up to the size of the input; (b) a voxel is sent to the positive part
exactly when the instance's test `0 ≤ abc·p + d` succeeds at its centre `p`; (c) the coordinates of
`positive ++ negative` are a rearrangement of the input's coordinates. -/
theorem clip_one_side (o : V3 K) (s : K) (pl : CutPlane K) (vs : List Voxel) :
    (clip o s pl vs).1.length + (clip o s pl vs).2.length = vs.length ∧
    (∀ v, (clipVoxel o s pl v).1 = true ↔ 0 ≤ pl.abc.dot (voxelPoint o s v) + pl.d) ∧
    (((clip o s pl vs).1 ++ (clip o s pl vs).2).map Voxel.coords).Perm (vs.map Voxel.coords) := by
  refine ⟨?_, ?_, clip_perm' o s pl vs⟩
  · have := (clip_perm' o s pl vs).length_eq
    simpa using this
  · intro v; rw [clipVoxel_fst]; simp

/-! ### 2. `compute_clipped_volumes` counts with the same side test -/

private theorem foldl_count {α} (p : α → Prop) [DecidablePred p] (l : List α) (a : Nat) :
    l.foldl (fun n v => n + (if p v then 1 else 0)) a = a + (l.filter fun v => decide (p v)).length := by
  induction l generalizing a with
  | nil => simp
  | cons x xs ih =>
    simp only [List.foldl_cons, ih, List.filter_cons]
    by_cases h : p x <;> simp [h]; omega

/-- For every `Num` instance and non-empty voxel list, `compute_clipped_volumes` returns
`(voxel_volume · #negative part of clip, voxel_volume · #positive part of clip)`:
it decides the side of each voxel exactly as `clip` does. -/
theorem clippedVolumes_counts (o : V3 K) (s : K) (pl : CutPlane K) (vs : List Voxel) (hne : vs ≠ []) :
    computeClippedVolumes o s pl vs =
      (voxelVolume s * lit (clip o s pl vs).2.length, voxelVolume s * lit (clip o s pl vs).1.length) := by
  have hpos : vs.foldl (fun (n : Nat) v => n + (if 0 ≤ pl.abc.dot (voxelPoint o s v) + pl.d then 1 else 0)) 0
      = (clip o s pl vs).1.length := by
    rw [foldl_count (fun v => 0 ≤ pl.abc.dot (voxelPoint o s v) + pl.d), clip_fst]
    simp [planeDist]
    congr 1
  have hsum := (clip_one_side o s pl vs).1
  unfold computeClippedVolumes
  have : vs.isEmpty = false := by cases vs <;> simp_all
  simp only [this, Bool.false_eq_true, if_false, hpos]
  have e : vs.length - (clip o s pl vs).1.length = (clip o s pl vs).2.length := by omega
  rw [e]

example : ([⟨0,0,0,true⟩, ⟨1,0,0,false⟩] : List Voxel) ≠ [] := by decide

/-- On the empty set `compute_clipped_volumes` returns `(0, 0)`. -/
theorem clippedVolumes_nil (o : V3 K) (s : K) (pl : CutPlane K) :
    computeClippedVolumes o s pl [] = (0, 0) := rfl

/-! ### 3. `intersect`: sides and conservation of the sampled corner points -/

private theorem corners_length (o : V3 K) (s : K) (v : Voxel) : (mapVoxelPoints o s v).length = 8 := by
  simp [mapVoxelPoints, voxelShifts]

private theorem step_spec (o : V3 K) (s : K) (pl : CutPlane K) (n : Nat) (st : IntersectState K) (v : Voxel) :
    ((intersectStep o s pl n st v).pos = st.pos ∨
      ((intersectStep o s pl n st v).pos = st.pos ++ mapVoxelPoints o s v ∧ 0 ≤ planeDist o s pl v)) ∧
    ((intersectStep o s pl n st v).neg = st.neg ∨
      ((intersectStep o s pl n st v).neg = st.neg ++ mapVoxelPoints o s v ∧ ¬ 0 ≤ planeDist o s pl v)) ∧
    (0 ≤ planeDist o s pl v → planeDist o s pl v ≤ s →
      (intersectStep o s pl n st v).pos = st.pos ++ mapVoxelPoints o s v) ∧
    (¬ 0 ≤ planeDist o s pl v → -planeDist o s pl v ≤ s →
      (intersectStep o s pl n st v).neg = st.neg ++ mapVoxelPoints o s v) ∧
    ((intersectStep o s pl n st v).pos.length + (intersectStep o s pl n st v).neg.length
      ≤ st.pos.length + st.neg.length + 8) ∧
    (n = 1 → st.sp = 0 → st.sn = 0 →
      (intersectStep o s pl n st v).sp = 0 ∧ (intersectStep o s pl n st v).sn = 0 ∧
      (intersectStep o s pl n st v).pos.length + (intersectStep o s pl n st v).neg.length
        = st.pos.length + st.neg.length + 8) := by
  unfold intersectStep
  simp only []
  split_ifs <;> simp_all [corners_length] <;> omega

private theorem fold_spec (o : V3 K) (s : K) (pl : CutPlane K) (n : Nat) (vs : List Voxel) (st : IntersectState K) :
    (∀ p ∈ (vs.foldl (intersectStep o s pl n) st).pos,
      p ∈ st.pos ∨ ∃ v ∈ vs, 0 ≤ planeDist o s pl v ∧ p ∈ mapVoxelPoints o s v) ∧
    (∀ p ∈ (vs.foldl (intersectStep o s pl n) st).neg,
      p ∈ st.neg ∨ ∃ v ∈ vs, ¬ 0 ≤ planeDist o s pl v ∧ p ∈ mapVoxelPoints o s v) ∧
    (st.pos <+: (vs.foldl (intersectStep o s pl n) st).pos) ∧
    (st.neg <+: (vs.foldl (intersectStep o s pl n) st).neg) ∧
    (∀ v ∈ vs, 0 ≤ planeDist o s pl v → planeDist o s pl v ≤ s →
      ∀ p ∈ mapVoxelPoints o s v, p ∈ (vs.foldl (intersectStep o s pl n) st).pos) ∧
    (∀ v ∈ vs, ¬ 0 ≤ planeDist o s pl v → -planeDist o s pl v ≤ s →
      ∀ p ∈ mapVoxelPoints o s v, p ∈ (vs.foldl (intersectStep o s pl n) st).neg) ∧
    ((vs.foldl (intersectStep o s pl n) st).pos.length + (vs.foldl (intersectStep o s pl n) st).neg.length
      ≤ st.pos.length + st.neg.length + 8 * vs.length) ∧
    (n = 1 → st.sp = 0 → st.sn = 0 →
      (vs.foldl (intersectStep o s pl n) st).pos.length + (vs.foldl (intersectStep o s pl n) st).neg.length
        = st.pos.length + st.neg.length + 8 * vs.length) := by
  induction vs generalizing st with
  | nil => simp
  | cons x xs ih =>
    obtain ⟨h1, h2, h3, h4, h5, h6, h7, h8⟩ := ih (intersectStep o s pl n st x)
    obtain ⟨s1, s2, s3, s4, s5, s6⟩ := step_spec o s pl n st x
    have pp : st.pos <+: (intersectStep o s pl n st x).pos := by
      rcases s1 with e | ⟨e, _⟩ <;> rw [e]
      exact List.prefix_append _ _
    have pn : st.neg <+: (intersectStep o s pl n st x).neg := by
      rcases s2 with e | ⟨e, _⟩ <;> rw [e]
      exact List.prefix_append _ _
    simp only [List.foldl_cons, List.length_cons]
    refine ⟨?_, ?_, pp.trans h3, pn.trans h4, ?_, ?_, by omega, ?_⟩
    · intro p hp
      rcases h1 p hp with h | ⟨v, hv, hd, hc⟩
      · rcases s1 with e | ⟨e, hd⟩
        · left; rwa [e] at h
        · rw [e, List.mem_append] at h
          rcases h with h | h
          · left; exact h
          · right; exact ⟨x, List.mem_cons_self, hd, h⟩
      · right; exact ⟨v, List.mem_cons_of_mem _ hv, hd, hc⟩
    · intro p hp
      rcases h2 p hp with h | ⟨v, hv, hd, hc⟩
      · rcases s2 with e | ⟨e, hd⟩
        · left; rwa [e] at h
        · rw [e, List.mem_append] at h
          rcases h with h | h
          · left; exact h
          · right; exact ⟨x, List.mem_cons_self, hd, h⟩
      · right; exact ⟨v, List.mem_cons_of_mem _ hv, hd, hc⟩
    · intro v hv hd hs p hp
      rcases List.mem_cons.mp hv with rfl | hv
      · apply h3.subset
        rw [s3 hd hs]; exact List.mem_append_right _ hp
      · exact h5 v hv hd hs p hp
    · intro v hv hd hs p hp
      rcases List.mem_cons.mp hv with rfl | hv
      · apply h4.subset
        rw [s4 hd hs]; exact List.mem_append_right _ hp
      · exact h6 v hv hd hs p hp
    · intro hn hsp hsn
      obtain ⟨a, b, c⟩ := s6 hn hsp hsn
      have := h8 hn a b
      omega

/-- `intersect`, for every `Num` instance: every point appended to `positive_pts` is one of the 8 corners
of an input voxel whose centre passes the test `0 ≤ d`; every point appended to `negative_pts` is a corner of
an input voxel whose centre fails it (so no voxel feeds both lists); the previous contents of both output
vectors are kept as a prefix. -/
theorem intersect_sides (o : V3 K) (s : K) (pl : CutPlane K) (P N : List (V3 K)) (n : Nat) (vs : List Voxel) :
    (∀ p ∈ (intersect o s pl P N n vs).1,
      p ∈ P ∨ ∃ v ∈ vs, 0 ≤ planeDist o s pl v ∧ p ∈ mapVoxelPoints o s v) ∧
    (∀ p ∈ (intersect o s pl P N n vs).2,
      p ∈ N ∨ ∃ v ∈ vs, ¬ 0 ≤ planeDist o s pl v ∧ p ∈ mapVoxelPoints o s v) ∧
    P <+: (intersect o s pl P N n vs).1 ∧ N <+: (intersect o s pl P N n vs).2 := by
  obtain ⟨h1, h2, h3, h4, -⟩ := fold_spec o s pl n vs ⟨P, N, 0, 0⟩
  exact ⟨h1, h2, h3, h4⟩

/-- `intersect`, for every `Num` instance and every `sampling`: a voxel whose centre is within one voxel
size of the plane is never skipped by the sampling: if `0 ≤ d ≤ scale` all its 8 corners are in the positive
output, if the test `0 ≤ d` fails and `-d ≤ scale` all its 8 corners are in the negative output. -/
theorem intersect_near (o : V3 K) (s : K) (pl : CutPlane K) (P N : List (V3 K)) (n : Nat) (vs : List Voxel)
    (v : Voxel) (hv : v ∈ vs) :
    (0 ≤ planeDist o s pl v → planeDist o s pl v ≤ s →
      ∀ p ∈ mapVoxelPoints o s v, p ∈ (intersect o s pl P N n vs).1) ∧
    (¬ 0 ≤ planeDist o s pl v → -planeDist o s pl v ≤ s →
      ∀ p ∈ mapVoxelPoints o s v, p ∈ (intersect o s pl P N n vs).2) := by
  obtain ⟨-, -, -, -, h5, h6, -⟩ := fold_spec o s pl n vs ⟨P, N, 0, 0⟩
  exact ⟨h5 v hv, h6 v hv⟩

example : (⟨0,0,0,true⟩ : Voxel) ∈ ([⟨0,0,0,true⟩, ⟨1,0,0,false⟩] : List Voxel) := by decide

/-- `intersect`, for every `Num` instance: each voxel contributes 8 points or none, so the outputs grow by
at most `8 · #voxels` in total; with `sampling = 1` every voxel contributes: exactly `8 · #voxels`. -/
theorem intersect_conservation (o : V3 K) (s : K) (pl : CutPlane K) (P N : List (V3 K)) (n : Nat) (vs : List Voxel) :
    ((intersect o s pl P N n vs).1.length + (intersect o s pl P N n vs).2.length
      ≤ P.length + N.length + 8 * vs.length) ∧
    (n = 1 → (intersect o s pl P N n vs).1.length + (intersect o s pl P N n vs).2.length
      = P.length + N.length + 8 * vs.length) := by
  obtain ⟨-, -, -, -, -, -, h7, h8⟩ := fold_spec o s pl n vs ⟨P, N, 0, 0⟩
  exact ⟨h7, fun hn => h8 hn rfl rfl⟩

/-! ### 5. `compute_bb` and `select_on_surface` -/

private theorem foldl_min_spec {α} (g : α → Nat) (l : List α) (a : Nat) :
    l.foldl (fun m v => min m (g v)) a ≤ a ∧ (∀ v ∈ l, l.foldl (fun m v => min m (g v)) a ≤ g v) ∧
    (l.foldl (fun m v => min m (g v)) a = a ∨ ∃ v ∈ l, l.foldl (fun m v => min m (g v)) a = g v) := by
  induction l generalizing a with
  | nil => simp
  | cons x xs ih =>
    obtain ⟨h1, h2, h3⟩ := ih (min a (g x))
    simp only [List.foldl_cons]
    refine ⟨by omega, ?_, ?_⟩
    · intro v hv
      rcases List.mem_cons.mp hv with rfl | hv
      · omega
      · exact h2 v hv
    · rcases h3 with h | ⟨v, hv, h⟩
      · by_cases hc : a ≤ g x
        · left; omega
        · right; exact ⟨x, List.mem_cons_self, by omega⟩
      · right; exact ⟨v, List.mem_cons_of_mem _ hv, h⟩

private theorem foldl_max_spec {α} (g : α → Nat) (l : List α) (a : Nat) :
    a ≤ l.foldl (fun m v => max m (g v)) a ∧ (∀ v ∈ l, g v ≤ l.foldl (fun m v => max m (g v)) a) ∧
    (l.foldl (fun m v => max m (g v)) a = a ∨ ∃ v ∈ l, l.foldl (fun m v => max m (g v)) a = g v) := by
  induction l generalizing a with
  | nil => simp
  | cons x xs ih =>
    obtain ⟨h1, h2, h3⟩ := ih (max a (g x))
    simp only [List.foldl_cons]
    refine ⟨by omega, ?_, ?_⟩
    · intro v hv
      rcases List.mem_cons.mp hv with rfl | hv
      · omega
      · exact h2 v hv
    · rcases h3 with h | ⟨v, hv, h⟩
      · by_cases hc : g x ≤ a
        · left; omega
        · right; exact ⟨x, List.mem_cons_self, by omega⟩
      · right; exact ⟨v, List.mem_cons_of_mem _ hv, h⟩

private theorem bb_proj (vs : List Voxel) (bb : (Nat × Nat × Nat) × (Nat × Nat × Nat)) :
    vs.foldl (fun (bb : (Nat × Nat × Nat) × (Nat × Nat × Nat)) v =>
      ((min bb.1.1 v.i, min bb.1.2.1 v.j, min bb.1.2.2 v.k),
       (max bb.2.1 v.i, max bb.2.2.1 v.j, max bb.2.2.2 v.k))) bb
    = ((vs.foldl (fun m v => min m v.i) bb.1.1, vs.foldl (fun m v => min m v.j) bb.1.2.1,
        vs.foldl (fun m v => min m v.k) bb.1.2.2),
       (vs.foldl (fun m v => max m v.i) bb.2.1, vs.foldl (fun m v => max m v.j) bb.2.2.1,
        vs.foldl (fun m v => max m v.k) bb.2.2.2)) := by
  induction vs generalizing bb with
  | nil => rfl
  | cons x xs ih => simp only [List.foldl_cons, ih]

private theorem min_case {α} (g : α → Nat) (v0 : α) (rest : List α) :
    (∀ v ∈ v0 :: rest, (v0 :: rest).foldl (fun m v => min m (g v)) (g v0) ≤ g v) ∧
    ∃ v ∈ v0 :: rest, g v = (v0 :: rest).foldl (fun m v => min m (g v)) (g v0) := by
  obtain ⟨_, h2, h3⟩ := foldl_min_spec g (v0 :: rest) (g v0)
  refine ⟨h2, ?_⟩
  rcases h3 with h | ⟨v, hv, h⟩
  · exact ⟨v0, List.mem_cons_self, h.symm⟩
  · exact ⟨v, hv, h.symm⟩

private theorem max_case {α} (g : α → Nat) (v0 : α) (rest : List α) :
    (∀ v ∈ v0 :: rest, g v ≤ (v0 :: rest).foldl (fun m v => max m (g v)) (g v0)) ∧
    ∃ v ∈ v0 :: rest, g v = (v0 :: rest).foldl (fun m v => max m (g v)) (g v0) := by
  obtain ⟨_, h2, h3⟩ := foldl_max_spec g (v0 :: rest) (g v0)
  refine ⟨h2, ?_⟩
  rcases h3 with h | ⟨v, hv, h⟩
  · exact ⟨v0, List.mem_cons_self, h.symm⟩
  · exact ⟨v, hv, h.symm⟩

/-- `compute_bb` returns a box exactly when the set is non-empty. -/
theorem computeBB_some_iff (vs : List Voxel) : (computeBB vs).isSome = true ↔ vs ≠ [] := by
  cases vs <;> simp [computeBB]

/-- The box returned by `compute_bb` is the tight integer bounding box: along every axis `dim`, every voxel's
coordinate lies between `min[dim]` and `max[dim]`, and both bounds are attained by some voxel of the set. -/
theorem computeBB_bounds (vs : List Voxel) (mn mx : Nat × Nat × Nat) (h : computeBB vs = some (mn, mx))
    (dim : Nat) :
    (∀ v ∈ vs, tget mn dim ≤ tget v.coords dim ∧ tget v.coords dim ≤ tget mx dim) ∧
    (∃ v ∈ vs, tget v.coords dim = tget mn dim) ∧ (∃ v ∈ vs, tget v.coords dim = tget mx dim) := by
  cases vs with
  | nil => simp [computeBB] at h
  | cons v0 rest =>
    simp only [computeBB, bb_proj, Option.some.injEq, Prod.mk.injEq] at h
    obtain ⟨rfl, rfl⟩ := h
    have ai := min_case (fun v : Voxel => v.i) v0 rest
    have aj := min_case (fun v : Voxel => v.j) v0 rest
    have ak := min_case (fun v : Voxel => v.k) v0 rest
    have bi := max_case (fun v : Voxel => v.i) v0 rest
    have bj := max_case (fun v : Voxel => v.j) v0 rest
    have bk := max_case (fun v : Voxel => v.k) v0 rest
    simp only [Voxel.coords, tget] at *
    split_ifs
    · exact ⟨fun v hv => ⟨ai.1 v hv, bi.1 v hv⟩, ai.2, bi.2⟩
    · exact ⟨fun v hv => ⟨aj.1 v hv, bj.1 v hv⟩, aj.2, bj.2⟩
    · exact ⟨fun v hv => ⟨ak.1 v hv, bk.1 v hv⟩, ak.2, bk.2⟩

example : computeBB [⟨1,5,2,true⟩, ⟨3,0,2,false⟩] = some ((1,0,2), (3,5,2)) := by decide

/-- `select_on_surface` returns exactly the voxels flagged `is_on_surface`, unchanged and in their original
order (a sublist of the input). -/
theorem selectOnSurface_spec (vs : List Voxel) :
    (selectOnSurface vs).Sublist vs ∧ (∀ v, v ∈ selectOnSurface vs ↔ v ∈ vs ∧ v.surf = true) ∧
    selectOnSurface vs = vs.filter (fun v => v.surf) := by
  refine ⟨List.filter_sublist, ?_, rfl⟩
  intro v; simp [selectOnSurface, List.mem_filter]

/-! ### 4a. indices produced by the plane generators (any `Num` instance) -/

private theorem foldl_push {α β} (f : α → β) (l : List α) (acc : List β) :
    l.foldl (fun acc i => acc ++ [f i]) acc = acc ++ l.map f := by
  induction l generalizing acc with
  | nil => simp
  | cons x xs ih => simp [ih]

private theorem mem_stepRange {i0 i1 st x : Nat} (h : x ∈ stepRange i0 i1 st) : i0 ≤ x ∧ x ≤ i1 := by
  unfold stepRange at h
  split_ifs at h with h0 h1
  · simp at h
  · simp at h
  · simp only [List.mem_map, List.mem_range] at h
    obtain ⟨k, hk, rfl⟩ := h
    have h2 : k * st ≤ (i1 - i0) / st * st := Nat.mul_le_mul_right _ (by omega)
    have h3 := Nat.div_mul_le_self (i1 - i0) st
    omega

private theorem computeAxes_eq (o : V3 K) (s : K) (mn mx : Nat × Nat × Nat) (ds : Nat)
    (planes : List (CutPlane K × Nat × Nat)) :
    computeAxesAlignedClippingPlanes o s mn mx ds planes =
      planes ++ ((stepRange (tget mn 0) (tget mx 0) ds).map (axisPlane o s 0)
        ++ (stepRange (tget mn 1) (tget mx 1) ds).map (axisPlane o s 1)
        ++ (stepRange (tget mn 2) (tget mx 2) ds).map (axisPlane o s 2)) := by
  simp only [computeAxesAlignedClippingPlanes, List.foldl_cons, List.foldl_nil, foldl_push, List.append_assoc]

/-- Every plane appended by `compute_axes_aligned_clipping_planes` is the literal `axisPlane axis index`
with `axis < 3` and `min[axis] ≤ index ≤ max[axis]`; the planes already in the vector are kept. -/
theorem axesAligned_indices (o : V3 K) (s : K) (mn mx : Nat × Nat × Nat) (ds : Nat)
    (planes : List (CutPlane K × Nat × Nat)) (e : CutPlane K × Nat × Nat)
    (he : e ∈ computeAxesAlignedClippingPlanes o s mn mx ds planes) :
    e ∈ planes ∨ (e.2.1 < 3 ∧ tget mn e.2.1 ≤ e.2.2 ∧ e.2.2 ≤ tget mx e.2.1 ∧
      e = axisPlane o s e.2.1 e.2.2) := by
  rw [computeAxes_eq] at he
  simp only [List.mem_append, List.mem_map] at he
  rcases he with he | (⟨i, hi, rfl⟩ | ⟨i, hi, rfl⟩) | ⟨i, hi, rfl⟩
  · left; exact he
  · right; have := mem_stepRange hi; simp [axisPlane, this]
  · right; have := mem_stepRange hi; simp [axisPlane, this]
  · right; have := mem_stepRange hi; simp [axisPlane, this]

/-- Every plane appended by `refine_axes_aligned_clipping_planes` has the axis of the best plane and an
index inside the bounding box `[min[axis], max[axis]]` and within `downsampling` of the best plane's index. -/
theorem refine_indices (o : V3 K) (s : K) (mn mx : Nat × Nat × Nat) (best : CutPlane K × Nat × Nat) (ds : Nat)
    (planes : List (CutPlane K × Nat × Nat)) (e : CutPlane K × Nat × Nat)
    (he : e ∈ refineAxesAlignedClippingPlanes o s mn mx best ds planes) :
    e ∈ planes ∨ (e.2.1 = best.2.1 ∧ tget mn best.2.1 ≤ e.2.2 ∧ e.2.2 ≤ tget mx best.2.1 ∧
      best.2.2 - ds ≤ e.2.2 ∧ e.2.2 ≤ best.2.2 + ds ∧ e = axisPlane o s best.2.1 e.2.2) := by
  simp only [refineAxesAlignedClippingPlanes, foldl_push, List.mem_append, List.mem_map] at he
  rcases he with he | ⟨i, hi, rfl⟩
  · left; exact he
  · right
    have := mem_stepRange hi
    simp only [axisPlane]
    exact ⟨trivial, by omega, by omega, by omega, by omega, trivial⟩

/-- with `downsampling = 1` and a non-degenerate box the coarse generator yields a plane for the index `min[0]`
(the hypothesis of `axesAligned_indices` is satisfiable). -/
example : (axisPlane (⟨0,0,0⟩ : V3 ℚ) 1 0 1) ∈
    computeAxesAlignedClippingPlanes (⟨0,0,0⟩ : V3 ℚ) 1 (1,0,0) (2,0,0) 1 [] := by
  rw [computeAxes_eq]; simp [stepRange, tget, List.range_succ]

private theorem mem_stepRange_one {i0 i1 x : Nat} (h0 : i0 ≤ x) (h1 : x ≤ i1) : x ∈ stepRange i0 i1 1 := by
  unfold stepRange
  have : ¬ i1 < i0 := by omega
  simp only [this, if_false, List.mem_map, List.mem_range, Nat.one_ne_zero, Nat.div_one, Nat.mul_one]
  exact ⟨x - i0, by omega, by omega⟩

private theorem mem_stepRange_first {i0 i1 st : Nat} (hst : st ≠ 0) (h : i0 ≤ i1) : i0 ∈ stepRange i0 i1 st := by
  unfold stepRange
  have : ¬ i1 < i0 := by omega
  simp only [hst, this, if_false, List.mem_map, List.mem_range]
  exact ⟨0, Nat.succ_pos _, by simp⟩

/-- Coverage of `compute_axes_aligned_clipping_planes`: for `downsampling ≥ 1` and every axis `dim < 3` with
`min[dim] ≤ max[dim]` the plane of index `min[dim]` is generated, and with `downsampling = 1` the plane of
every index in `[min[dim], max[dim]]` is generated. -/
theorem axesAligned_coverage (o : V3 K) (s : K) (mn mx : Nat × Nat × Nat) (ds : Nat)
    (planes : List (CutPlane K × Nat × Nat)) (dim : Nat) (hdim : dim < 3) (hds : ds ≠ 0)
    (hbox : tget mn dim ≤ tget mx dim) :
    axisPlane o s dim (tget mn dim) ∈ computeAxesAlignedClippingPlanes o s mn mx ds planes ∧
    (ds = 1 → ∀ i, tget mn dim ≤ i → i ≤ tget mx dim →
      axisPlane o s dim i ∈ computeAxesAlignedClippingPlanes o s mn mx ds planes) := by
  rw [computeAxes_eq]
  obtain rfl | rfl | rfl : dim = 0 ∨ dim = 1 ∨ dim = 2 := by omega
  all_goals
    refine ⟨?_, ?_⟩
    · have := mem_stepRange_first hds hbox
      simp only [List.mem_append, List.mem_map]
      first
        | exact Or.inr (Or.inl (Or.inl ⟨_, this, rfl⟩))
        | exact Or.inr (Or.inl (Or.inr ⟨_, this, rfl⟩))
        | exact Or.inr (Or.inr ⟨_, this, rfl⟩)
    · rintro rfl i h0 h1
      have := mem_stepRange_one h0 h1
      simp only [List.mem_append, List.mem_map]
      first
        | exact Or.inr (Or.inl (Or.inl ⟨_, this, rfl⟩))
        | exact Or.inr (Or.inl (Or.inr ⟨_, this, rfl⟩))
        | exact Or.inr (Or.inr ⟨_, this, rfl⟩)

example : (1 : Nat) < 3 ∧ (2 : Nat) ≠ 0 ∧ tget (1,0,2) 1 ≤ tget (3,5,2) 1 := by decide

/-- the hypothesis of `refine_indices` is satisfiable: refining around index 2 of axis 1 yields index 3 -/
example : axisPlane (⟨0,0,0⟩ : V3 ℚ) 1 1 3 ∈
    refineAxesAlignedClippingPlanes (⟨0,0,0⟩ : V3 ℚ) 1 (1,0,2) (3,5,2) (axisPlane (⟨0,0,0⟩ : V3 ℚ) 1 1 2) 2 [] := by
  simp only [refineAxesAlignedClippingPlanes, foldl_push, List.nil_append, List.mem_map]
  exact ⟨3, mem_stepRange_one (by decide) (by decide), rfl⟩

/-- `compute_preferred_cutting_direction` always returns one of the three coordinate axes as direction
(for every `Num` instance, also with NaN eigenvalues). -/
theorem preferredDirection_axis (ev : V3 K) :
    (computePreferredCuttingDirection ev).1 = ⟨1, 0, 0⟩ ∨ (computePreferredCuttingDirection ev).1 = ⟨0, 1, 0⟩ ∨
    (computePreferredCuttingDirection ev).1 = ⟨0, 0, 1⟩ := by
  unfold computePreferredCuttingDirection
  simp only []
  split_ifs <;> simp

/-! ### membership helpers for `clip` -/

private theorem mem_clip_fst (o : V3 K) (s : K) (pl : CutPlane K) (vs : List Voxel) (v : Voxel) (hv : v ∈ vs)
    (h : (clipVoxel o s pl v).1 = true) : (clipVoxel o s pl v).2 ∈ (clip o s pl vs).1 := by
  unfold clip
  simp only [List.mem_map, List.mem_filter]
  exact ⟨_, ⟨⟨v, hv, rfl⟩, h⟩, rfl⟩

private theorem mem_clip_snd (o : V3 K) (s : K) (pl : CutPlane K) (vs : List Voxel) (v : Voxel) (hv : v ∈ vs)
    (h : (clipVoxel o s pl v).1 = false) : (clipVoxel o s pl v).2 ∈ (clip o s pl vs).2 := by
  unfold clip
  simp only [List.mem_map, List.mem_filter]
  exact ⟨_, ⟨⟨v, hv, rfl⟩, by simp [h]⟩, rfl⟩

private theorem clip_fst_nil (o : V3 K) (s : K) (pl : CutPlane K) (vs : List Voxel)
    (h : ∀ v ∈ vs, (clipVoxel o s pl v).1 = false) : (clip o s pl vs).1 = [] := by
  unfold clip
  simp only [List.map_eq_nil_iff, List.filter_eq_nil_iff, List.mem_map]
  rintro t ⟨v, hv, rfl⟩
  simp [h v hv]

end anyNum

section lawful
variable {K : Type} [Field K] [LinearOrder K] [IsStrictOrderedRing K] (sq : K → K)

private theorem lit_nat (n : Nat) : @lit K (fieldNum K sq) (n : Int) 1 = (n : K) := by
  rw [fieldNum_lit, Rat.mkRat_one]; simp

/-- In exact arithmetic (any ordered field) the two clipped volumes add up to the volume of the whole
set, `scale³ · n`: no volume is lost or counted twice (also on the empty set). -/
theorem clippedVolumes_accounting (o : V3 K) (s : K) (pl : CutPlane K) (vs : List Voxel) :
    letI := fieldNum K sq
    (computeClippedVolumes o s pl vs).1 + (computeClippedVolumes o s pl vs).2 = computeVolume s vs ∧
    computeVolume s vs = s * s * s * (vs.length : K) := by
  let _ := fieldNum K sq
  constructor
  · by_cases hne : vs = []
    · subst hne
      simp only [clippedVolumes_nil, computeVolume, List.length_nil]
      rw [lit_nat]; simp
    · rw [clippedVolumes_counts o s pl vs hne]
      have hsum := (clip_one_side o s pl vs).1
      simp only [computeVolume, lit_nat]
      rw [← hsum]; push_cast; ring
  · simp only [computeVolume, voxelVolume, lit_nat]

/-- `intersect` in exact arithmetic: a voxel with `d < 0` and `-d ≤ scale` (centre strictly on the negative
side, within one voxel size of the plane) contributes all its 8 corners to the negative output and, by
`intersect_sides`, nothing to the positive output. -/
theorem intersect_near_neg (o : V3 K) (s : K) (pl : CutPlane K) (P N : List (V3 K)) (n : Nat) (vs : List Voxel)
    (v : Voxel) (hv : v ∈ vs) :
    letI := fieldNum K sq
    planeDist o s pl v < 0 → -planeDist o s pl v ≤ s →
      ∀ p ∈ mapVoxelPoints o s v, p ∈ (intersect o s pl P N n vs).2 := by
  letI := fieldNum K sq
  intro hd hs
  exact (intersect_near o s pl P N n vs v hv).2 (not_le.mpr hd) hs

/-- the hypotheses are satisfiable over ℚ: the voxel `(0,0,0)` against the plane `x = 1/2`, unit scale -/
example : (letI := fieldNum ℚ (fun x => x)
    planeDist (⟨0,0,0⟩ : V3 ℚ) 1 ⟨⟨1,0,0⟩, -1/2⟩ ⟨0,0,0,true⟩ < 0 ∧
    -planeDist (⟨0,0,0⟩ : V3 ℚ) 1 ⟨⟨1,0,0⟩, -1/2⟩ ⟨0,0,0,true⟩ ≤ 1) := by
  simp only [planeDist, voxelPoint, V3.dot, V3.add, V3.smul, fieldNum_lit]
  norm_num

/-! ### 4b. an axis-aligned plane splits the voxels by their integer coordinate -/

private theorem half_key (c i : Nat) (s : K) (hs : 0 < s) (x : K) (hx : x = ((c : K) - i - 1 / 2) * s) :
    0 ≤ x ↔ i + 1 ≤ c := by
  subst hx
  constructor
  · intro h
    by_contra hc
    have hc' : c ≤ i := by omega
    have : (c : K) ≤ i := by exact_mod_cast hc'
    have : ((c : K) - i - 1 / 2) * s < 0 := mul_neg_of_neg_of_pos (by linarith) hs
    linarith
  · intro h
    have : ((i : K) + 1) ≤ c := by exact_mod_cast h
    exact mul_nonneg (by linarith) hs.le

private theorem lit_half : @lit K (fieldNum K sq) 1 2 = 1 / 2 := by
  rw [fieldNum_lit]; norm_num

private theorem axis_dist (o : V3 K) (s : K) (dim i : Nat) (hdim : dim < 3) (v : Voxel) :
    letI := fieldNum K sq
    (axisPlane o s dim i).1.abc.dot (voxelPoint o s v) + (axisPlane o s dim i).1.d
      = ((tget v.coords dim : K) - i - 1 / 2) * s := by
  letI := fieldNum K sq
  have h2 := lit_half (K := K) sq
  obtain rfl | rfl | rfl : dim = 0 ∨ dim = 1 ∨ dim = 2 := by omega
  all_goals
    simp only [axisPlane, V3.set, V3.get, V3.zero, V3.dot, voxelPoint, V3.add, V3.smul, lit_nat, h2, tget,
      Voxel.coords]
    simp
    ring

/-- In exact arithmetic with `0 < scale`: for the plane generated for axis `dim < 3` and index `i`
(`abc = e_dim`, `d = -(origin[dim] + (i + 0.5)·scale)`), `clip` sends voxel `v` to the positive part exactly
when `i + 1 ≤ v.coords[dim]`, hence to the negative part exactly when `v.coords[dim] ≤ i`. -/
theorem axesAligned_split (o : V3 K) (s : K) (hs : 0 < s) (dim i : Nat) (hdim : dim < 3) (v : Voxel) :
    letI := fieldNum K sq
    ((clipVoxel o s (axisPlane o s dim i).1 v).1 = true ↔ i + 1 ≤ tget v.coords dim) ∧
    ((clipVoxel o s (axisPlane o s dim i).1 v).1 = false ↔ tget v.coords dim ≤ i) := by
  letI := fieldNum K sq
  have h1 : (clipVoxel o s (axisPlane o s dim i).1 v).1 = true ↔ i + 1 ≤ tget v.coords dim := by
    rw [(clip_one_side o s (axisPlane o s dim i).1 []).2.1 v]
    exact half_key (tget v.coords dim) i s hs _ (axis_dist sq o s dim i hdim v)
  refine ⟨h1, ?_⟩
  rw [← Bool.not_eq_true, h1]; omega

example : (0 : ℚ) < 1 ∧ (1 : Nat) < 3 := by norm_num

/-- In exact arithmetic with `0 < scale`, for the bounding box `(min, max)` returned by `compute_bb` and an
axis `dim < 3`: (a) cutting at an index `min[dim] ≤ i < max[dim]` makes progress: both parts of `clip` are
non-empty and strictly smaller than the input; (b) cutting at `i ≥ max[dim]` (in particular the last
generated index `i = max[dim]`) leaves the positive part empty and puts every voxel in the negative part. -/
theorem axesAligned_progress (o : V3 K) (s : K) (hs : 0 < s) (vs : List Voxel) (mn mx : Nat × Nat × Nat)
    (hbb : computeBB vs = some (mn, mx)) (dim i : Nat) (hdim : dim < 3) :
    letI := fieldNum K sq
    (tget mn dim ≤ i → i < tget mx dim →
      (clip o s (axisPlane o s dim i).1 vs).1 ≠ [] ∧ (clip o s (axisPlane o s dim i).1 vs).2 ≠ [] ∧
      (clip o s (axisPlane o s dim i).1 vs).1.length < vs.length ∧
      (clip o s (axisPlane o s dim i).1 vs).2.length < vs.length) ∧
    (tget mx dim ≤ i →
      (clip o s (axisPlane o s dim i).1 vs).1 = [] ∧ (clip o s (axisPlane o s dim i).1 vs).2.length = vs.length) := by
  letI := fieldNum K sq
  obtain ⟨hall, ⟨vmin, hvmin, emin⟩, ⟨vmax, hvmax, emax⟩⟩ := computeBB_bounds vs mn mx hbb dim
  have hsum := (clip_one_side o s (axisPlane o s dim i).1 vs).1
  constructor
  · intro h0 h1
    have hp : (clipVoxel o s (axisPlane o s dim i).1 vmax).1 = true :=
      (axesAligned_split sq o s hs dim i hdim vmax).1.mpr (by omega)
    have hn : (clipVoxel o s (axisPlane o s dim i).1 vmin).1 = false :=
      (axesAligned_split sq o s hs dim i hdim vmin).2.mpr (by omega)
    have m1 := mem_clip_fst o s (axisPlane o s dim i).1 vs vmax hvmax hp
    have m2 := mem_clip_snd o s (axisPlane o s dim i).1 vs vmin hvmin hn
    have l1 : 0 < (clip o s (axisPlane o s dim i).1 vs).1.length := List.length_pos_of_mem m1
    have l2 : 0 < (clip o s (axisPlane o s dim i).1 vs).2.length := List.length_pos_of_mem m2
    exact ⟨List.ne_nil_of_mem m1, List.ne_nil_of_mem m2, by omega, by omega⟩
  · intro h1
    have hnil : (clip o s (axisPlane o s dim i).1 vs).1 = [] := by
      apply clip_fst_nil
      intro v hv
      exact (axesAligned_split sq o s hs dim i hdim v).2.mpr (by have := (hall v hv).2; omega)
    rw [hnil] at hsum
    exact ⟨hnil, by simpa using hsum⟩

/-- the hypotheses of `axesAligned_progress` are satisfiable: a 2-voxel set, axis 0, cut index 1 -/
example : computeBB [⟨1,5,2,true⟩, ⟨3,0,2,false⟩] = some ((1,0,2), (3,5,2)) ∧
    tget (1,0,2) 0 ≤ 1 ∧ 1 < tget (3,5,2) 0 ∧ (0:ℚ) < 1 := by
  refine ⟨by decide, by decide, by decide, by norm_num⟩

end lawful

end C18
