import ParryModel.Vec
/-!
# C18 model, part 2: the 2-D voxelizer (`parry2d-f64`)

Literal transliteration of

* `query::details::intersection_test_aabb_segment` (`intersection_test_cuboid_segment.rs`) with the two SAT
  passes it calls (`sat_cuboid_support_map.rs: cuboid_support_map_find_local_separating_normal_oneway`,
  `sat_cuboid_segment.rs: segment_cuboid_find_local_separating_normal_oneway`,
  `sat_cuboid_point.rs: point_cuboid_find_local_separating_normal_oneway`), `Segment::normal`,
  `SupportMap::support_point_toward`, `Cuboid`/`Segment::local_support_point`, `copy_sign_to`;
* `query::clip::clip_aabb_line` (only the two parameters, which is all `clip_line_parameters` returns);
* `VoxelizedVolume::voxelize` (`voxelized_volume.rs`, `dim2`): `local_point_cloud_aabb`, origin / resolution /
  scale, the per-segment cell range, the surface marking in both marking modes
  (`detect_self_intersections = false / true`), `mark_outside_surface`, `walk_forward/backward`,
  `propagate_values`, `replace_value`, the three `FillMode`s;
* `impl From<VoxelizedVolume> for VoxelSet` (voxel list in scan order + the counting sort that builds the
  voxel-to-primitive map).

Conventions.  `u32` values are `Nat` (`saturating_sub` = truncated subtraction; no value comes near `2^32` for
resolutions in the property's domain).  `Vec` indexing `values[id]` is `Array.getD`/`setIfInBounds`; every index
the code forms is `voxel_index(i, j) = i + j * resolution[0]` with `i < resolution[0]`, `j < resolution[1]`, which
is in bounds (`C18.idx_lt`), so the out-of-bounds panic is unreachable and not represented.  The panics that *are*
reachable (the two `assert!`s and `points[tri[c]]`) set the `panic` flag.  The pointer walks of
`walk_forward/backward` (`ptr += stride`, at most `walk_distance = 64` steps, stop at the grid border) are written
as the list of the cells they visit.  The loops `loop { … if voxels_walked == 0 { break } }` get fuel
`resolution[0] * resolution[1] + 1`; `C18.propagate_fuel_suffices` proves the fuel is never exhausted.
`x as u32` is the extra operation `Cast.toU32` (not in `Num`).
-/
namespace Model.Vox
variable {K : Type} [Num K]

/-- Rust `x as u32` on a float: truncation toward zero, saturating, NaN ↦ 0. -/
class Cast (K : Type) where
  toU32 : K → Nat

instance : Cast Float := ⟨fun x => x.toUInt32.toNat⟩
/-- exact arithmetic: floor of the non-negative part -/
instance : Cast Rat := ⟨fun x => x.floor.toNat⟩

/-! ## scalar / nalgebra primitives (same text as the bit-exact-checked ones of `C10/Model.lean`) -/

/-- `f64::EPSILON` = `DEFAULT_EPSILON` -/
def eps : K := lit 1 4503599627370496
/-- `f64::MAX` = `Real::MAX` = `Bounded::max_value()` -/
def realMax : K := lit (2 ^ 1024 - 2 ^ 971)
/-- parry `sgn.copy_sign_to(mag)`: sign *bit* of `sgn` on the magnitude of `mag` (`1 / -0.0 = -∞ < 0`). -/
def copysign (mag sgn : K) : K := if sgn < 0 ∨ 1 / sgn < 0 then -(nabs mag) else nabs mag
/-- `Unit::try_new(v, min_norm)`: `sq = v.norm_squared(); if sq > min_norm² { Some(v / sqrt sq) }` -/
def tryNew2 (v : V2 K) (minNorm : K) : Option (V2 K) :=
  let sq := v.normSq
  if minNorm * minNorm < sq then some (v.sdiv (Num.sqrt sq)) else none
/-- `Cuboid::local_support_point`: `dir.copy_sign_to(half_extents)` -/
def cuboidLocal2 (he dir : V2 K) : V2 K := ⟨copysign he.x dir.x, copysign he.y dir.y⟩
/-- `Segment::local_support_point`: `if a·dir > b·dir { a } else { b }` -/
def segmentLocal2 (a b dir : V2 K) : V2 K := if b.dot dir < a.dot dir then a else b
/-- `SupportMap::support_point_toward(transform, dir)` -/
def supportToward2 (loc : V2 K → V2 K) (m : Iso2 K) (dir : V2 K) : V2 K := m.act (loc (m.invRot dir))
/-- `Vector::ith(i, s)` -/
def ith2 (i : Nat) (s : K) : V2 K := if i = 0 then ⟨s, 0⟩ else ⟨0, s⟩

/-! ## `intersection_test_aabb_segment` -/

/-- one `(i, sign)` iteration of `cuboid_support_map_find_local_separating_normal_oneway` (shape2 = segment) -/
def sepStep (he a b : V2 K) (pos12 : Iso2 K) (best : K) (i : Nat) (sign : K) : K :=
  let axis1 := ith2 i sign
  let pt2 := supportToward2 (segmentLocal2 a b) pos12 axis1.neg
  let separation := pt2.get i * sign - he.get i
  if best < separation then separation else best

/-- `cuboid_support_map_find_local_separating_normal_oneway(cube1, segment2, pos12).0` -/
def sepCuboidSeg (he a b : V2 K) (pos12 : Iso2 K) : K :=
  sepStep he a b pos12 (sepStep he a b pos12 (sepStep he a b pos12 (sepStep he a b pos12 (-realMax) 0 (-1)) 0 1) 1 (-1)) 1 1

/-- `Segment::normal` (2-D): `Unit::try_new((dir.y, -dir.x), DEFAULT_EPSILON)` -/
def segNormal (a b : V2 K) : Option (V2 K) :=
  let dir := b.sub a
  tryNew2 ⟨dir.y, -dir.x⟩ eps

/-- `point_cuboid_find_local_separating_normal_oneway(point1, normal1, shape2, pos12).0` -/
def sepPointCuboid (point1 : V2 K) (normal1 : Option (V2 K)) (he : V2 K) (pos12 : Iso2 K) : K :=
  match normal1 with
  | none => -realMax
  | some n =>
    let axis1 := if 0 ≤ (pos12.t.sub point1).dot n then n else n.neg
    let pt2 := supportToward2 (cuboidLocal2 he) pos12 axis1.neg
    let separation := (pt2.sub point1).dot axis1
    if -realMax < separation then separation else -realMax

/-- `intersection_test_cuboid_segment(pos12, cube1, segment2)` (2-D) -/
def testCuboidSegment (pos12 : Iso2 K) (he a b : V2 K) : Bool :=
  let sep1 := sepCuboidSeg he a b pos12
  if 0 < sep1 then false else
  let sep2 := sepPointCuboid a (segNormal a b) he pos12.inverse
  if 0 < sep2 then false else true

/-- `intersection_test_aabb_segment(aabb1, segment2)`:
`cuboid1 = Cuboid::new(aabb1.half_extents())`, `pos12 = (translation −center, identity rotation)` -/
def testAabbSegment (mins maxs a b : V2 K) : Bool :=
  let he := (maxs.sub mins).smul (lit 1 2)
  let c := V2.center mins maxs
  testCuboidSegment ⟨1, 0, c.neg⟩ he a b

/-! ## `clip_aabb_line` (parameters only) -/

/-- one axis of `clip_aabb_line`; `none` = `return None` -/
def clipAxis (mins maxs origin dir : V2 K) (acc : Option (K × K)) (i : Nat) : Option (K × K) :=
  match acc with
  | none => none
  | some (tmin, tmax) =>
    let d := dir.get i
    if neq d 0 then
      if origin.get i < mins.get i ∨ maxs.get i < origin.get i then none else some (tmin, tmax)
    else
      let denom := 1 / d
      let n0 := (mins.get i - origin.get i) * denom
      let f0 := (maxs.get i - origin.get i) * denom
      let n := if f0 < n0 then f0 else n0
      let f := if f0 < n0 then n0 else f0
      let tmin' := if tmin < n then n else tmin
      let tmax' := if f < tmax then f else tmax
      if tmax' < tmin' then none else some (tmin', tmax')

/-- `Aabb::clip_line_parameters(orig, dir)` -/
def clipLineParams (mins maxs origin dir : V2 K) : Option (K × K) :=
  clipAxis mins maxs origin dir (clipAxis mins maxs origin dir (some (-realMax, realMax)) 0) 1

/-! ## the volume -/

/-- `VoxelValue` -/
inductive VV
  | undef | outWalk | inWalk | surfNoWalk | surfWalk1 | surfWalk2 | outside | inside | surf
deriving DecidableEq, Repr, Inhabited

def VV.code : VV → Nat
  | .undef => 0 | .outWalk => 1 | .inWalk => 2 | .surfNoWalk => 3 | .surfWalk1 => 4 | .surfWalk2 => 5
  | .outside => 6 | .inside => 7 | .surf => 8

/-- `FillMode` (2-D) + `keep_voxel_to_primitives_map` -/
structure Cfg where
  /-- `FillMode::FloodFill { .. }` (false = `SurfaceOnly`) -/
  flood : Bool
  detectCavities : Bool
  detectSelfInter : Bool
  keepMap : Bool
deriving Repr

/-- `VoxelizedVolume` -/
structure Vol (K : Type) where
  origin : V2 K
  scale : K
  ni : Nat
  nj : Nat
  vals : Array VV
  /-- `data[..].multiplicity` -/
  mult : Array Nat
  /-- `data[..].num_primitive_intersections` -/
  numInter : Array Nat
  /-- `primitive_intersections`, in push order: (voxel id, primitive id) -/
  prims : Array (Nat × Nat)
  panic : Bool

/-- `voxel_index(i, j, _)` -/
@[inline] def idx (ni i j : Nat) : Nat := i + j * ni

/-- the cells `(i, j)`, `i0 ≤ i < i1`, `j0 ≤ j < j1`, in the order of `for i in i0..i1 { for j in j0..j1 {..} }` -/
def cellsIn (i0 j0 i1 j1 : Nat) : List (Nat × Nat) :=
  (List.range' i0 (i1 - i0)).flatMap fun i => (List.range' j0 (j1 - j0)).map fun j => (i, j)

/-- `local_point_cloud_aabb` (non-empty) -/
def cloudAabb (p0 : V2 K) (ps : List (V2 K)) : V2 K × V2 K :=
  ps.foldl (fun acc p => (acc.1.inf p, acc.2.sup p)) (p0, p0)

section
variable [Cast K]

/-- resolution / scale / inv_scale from the bounding box: `(ni, nj, scale, inv_scale)` -/
def gridParams (res : Nat) (mn mx : V2 K) : Nat × Nat × K × K :=
  let d := mx.sub mn
  let rr : K := lit res
  if d.y < d.x then
    (res, 2 + Cast.toU32 (rr * d.y / d.x), d.x / (rr - 1), (rr - 1) / d.x)
  else
    (2 + Cast.toU32 (rr * d.x / d.y), res, d.y / (rr - 1), (rr - 1) / d.y)

/-- `tri_pts[c] = (pt - origin) * inv_scale` -/
def gridPt (origin : V2 K) (invScale : K) (pt : V2 K) : V2 K := (pt.sub origin).smul invScale

/-- `((x + 0.5) as u32, (y + 0.5) as u32)` -/
def cellOf (g : V2 K) : Nat × Nat := (Cast.toU32 (g.x + lit 1 2), Cast.toU32 (g.y + lit 1 2))

/-- `ijk0.saturating_sub(1)` and `(ijk1 + 1).inf(resolution)` for a segment whose end points fall in cells `c0`, `c1` -/
def segRange (ni nj : Nat) (c0 c1 : Nat × Nat) : (Nat × Nat) × (Nat × Nat) :=
  ((min c0.1 c1.1 - 1, min c0.2 c1.2 - 1), (min (max c0.1 c1.1 + 1) ni, min (max c0.2 c1.2 + 1) nj))

/-- `Aabb::from_half_extents((i, j), (0.5, 0.5))` -/
def cellAabb (i j : Nat) : V2 K × V2 K :=
  let pt : V2 K := ⟨lit i, lit j⟩
  let h : V2 K := ⟨lit 1 2, lit 1 2⟩
  (pt.sub h, pt.add h)

/-- body of the `for i.. for j..` loop of the marking phase for segment `triId` = `(g0, g1)` (grid coordinates) -/
def markCell (cfg : Cfg) (g0 g1 : V2 K) (triId : Nat) (st : Vol K) (c : Nat × Nat) : Vol K :=
  let id := idx st.ni c.1 c.2
  let value := st.vals.getD id .undef
  if cfg.detectSelfInter || cfg.keepMap || value == .undef then
    let bx : V2 K × V2 K := cellAabb c.1 c.2
    if !cfg.detectSelfInter then
      if testAabbSegment bx.1 bx.2 g0 g1 then
        let st := if cfg.keepMap then
            { st with numInter := st.numInter.setIfInBounds id (st.numInter.getD id 0 + 1), prims := st.prims.push (id, triId) }
          else st
        { st with vals := st.vals.setIfInBounds id .surf }
      else st
    else
      match clipLineParams bx.1 bx.2 g0 (g1.sub g0) with
      | none => st
      | some (t0, t1) =>
        let e : K := 0
        if ¬ (t0 ≤ t1) then { st with panic := true } else
        if 1 + e < t0 ∨ t1 < 0 - e then st else
        let m0 := st.mult.getD id 0
        let m1 := m0 + (if (-e ≤ t0 ∧ t0 ≤ e) ∨ (1 - e ≤ t0 ∧ t0 ≤ 1 + e) then 1 else 0)
        let m2 := m1 + (if (-e ≤ t1 ∧ t1 ≤ e) ∨ (1 - e ≤ t1 ∧ t1 ≤ 1 + e) then 1 else 0)
        let m3 := m2 + (if e < t0 then 1 else 0) * 2
        let m4 := m3 + (if t1 < 1 - e then 1 else 0) * 2
        let st := { st with mult := st.mult.setIfInBounds id m4 }
        let st := if cfg.keepMap then
            { st with numInter := st.numInter.setIfInBounds id (st.numInter.getD id 0 + 1), prims := st.prims.push (id, triId) }
          else st
        if 4 < m4 && (cfg.detectCavities && cfg.detectSelfInter) then
          { st with vals := st.vals.setIfInBounds id .surfNoWalk }
        else { st with vals := st.vals.setIfInBounds id .surf }
  else st

/-- one iteration of `for (tri_id, tri) in indices.iter().enumerate()` -/
def markSeg (cfg : Cfg) (invScale : K) (pts : Array (V2 K)) (st : Vol K) (e : Nat × (Nat × Nat)) : Vol K :=
  if st.panic then st else
  match pts[e.2.1]?, pts[e.2.2]? with
  | some pa, some pb =>
    let g0 := gridPt st.origin invScale pa
    let g1 := gridPt st.origin invScale pb
    let c0 := cellOf g0
    let c1 := cellOf g1
    -- `assert!(i < resolution[0] && j < resolution[1])`, for c = 0 then c = 1
    if ¬ (c0.1 < st.ni ∧ c0.2 < st.nj ∧ c1.1 < st.ni ∧ c1.2 < st.nj) then { st with panic := true } else
    let r := segRange st.ni st.nj c0 c1
    (cellsIn r.1.1 r.1.2 r.2.1 r.2.2).foldl (markCell cfg g0 g1 e.1) st
  | _, _ => { st with panic := true }
end

/-! ## fill -/

/-- `mark_outside_surface(i0, j0, i1, j1)` -/
def markOutside (ni : Nat) (g : Array VV) (i0 j0 i1 j1 : Nat) : Array VV :=
  (cellsIn i0 j0 i1 j1).foldl (fun g c =>
    if g.getD (idx ni c.1 c.2) .undef = .undef then g.setIfInBounds (idx ni c.1 c.2) .outWalk else g) g

/-- `walk_forward` / `walk_backward` over the (at most 64, in-grid) cells they visit, in visiting order -/
def walkCells (uSet sSet : VV) (g : Array VV) : List Nat → Array VV
  | [] => g
  | c :: cs =>
    if g.getD c .undef = .undef then walkCells uSet sSet (g.setIfInBounds c uSet) cs
    else if g.getD c .undef = .surf then g.setIfInBounds c sSet
    else g

/-- `walk_distance` -/
def walkDistance : Nat := 64

/-- cells visited by the four walks from `(i, j)`, in the code's order: `+j`, `−j`, `+i`, `−i` -/
def walkLists (ni nj i j : Nat) : List (List Nat) :=
  [ (List.range' (j + 1) (min walkDistance (nj - (j + 1)))).map (fun j' => idx ni i j'),
    (List.range (min walkDistance j)).map (fun k => idx ni i (j - 1 - k)),
    (List.range' (i + 1) (min walkDistance (ni - (i + 1)))).map (fun i' => idx ni i' j),
    (List.range (min walkDistance i)).map (fun k => idx ni (i - 1 - k) j) ]

def walks (ni nj : Nat) (uSet sSet : VV) (g : Array VV) (c : Nat × Nat) : Array VV :=
  (walkLists ni nj c.1 c.2).foldl (walkCells uSet sSet) g

/-- state of one sweep of `propagate_values`: grid, `voxels_walked`, `walked_at_least_once` -/
structure PSt where
  g : Array VV
  walked : Nat
  once : Bool

/-- body of the `for i.. for j..` loop of `propagate_values` -/
def propCell (ni nj : Nat) (toWalk toSet : VV) (surfWalk : Option VV) (sSet : VV) (st : PSt) (c : Nat × Nat) : PSt :=
  let id := idx ni c.1 c.2
  let v := st.g.getD id .undef
  if v = toWalk then
    ⟨walks ni nj toWalk sSet (st.g.setIfInBounds id toSet) c, st.walked + 1, true⟩
  else if some v ≠ surfWalk then st
  else ⟨walks ni nj toWalk sSet st.g c, st.walked, st.once⟩

def sweep (ni nj : Nat) (toWalk toSet : VV) (surfWalk : Option VV) (sSet : VV) (g : Array VV) (once : Bool) : PSt :=
  (cellsIn 0 0 ni nj).foldl (propCell ni nj toWalk toSet surfWalk sSet) ⟨g, 0, once⟩

/-- `propagate_values`: `(grid, walked_at_least_once, fuel was sufficient)` -/
def propagate (ni nj : Nat) (toWalk toSet : VV) (surfWalk : Option VV) (sSet : VV) :
    Nat → Array VV → Bool → Array VV × Bool × Bool
  | 0, g, once => (g, once, false)
  | fuel + 1, g, once =>
    let st := sweep ni nj toWalk toSet surfWalk sSet g once
    if st.walked = 0 then (st.g, st.once, true) else propagate ni nj toWalk toSet surfWalk sSet fuel st.g st.once

/-- `replace_value` -/
def replaceValue (g : Array VV) (cur new : VV) : Array VV := g.map fun v => if v = cur then new else v

/-- the `loop { inside pass; outside pass }` of `detect_cavities` : `(grid, fuel ok)` -/
def cavityLoop (ni nj : Nat) : Nat → Array VV → Array VV × Bool
  | 0, g => (g, false)
  | fuel + 1, g =>
    let r1 := propagate ni nj .inWalk .inside (some .surfWalk1) .surfWalk2 (ni * nj + 1) g false
    if !r1.2.2 then (r1.1, false) else
    if !r1.2.1 then (r1.1, true) else
    let r2 := propagate ni nj .outWalk .outside (some .surfWalk2) .surfWalk1 (ni * nj + 1) r1.1 false
    if !r2.2.2 then (r2.1, false) else
    if !r2.2.1 then (r2.1, true) else
    cavityLoop ni nj fuel r2.1

/-- the four `mark_outside_surface` calls -/
def markBorder (ni nj : Nat) (g : Array VV) : Array VV :=
  let g := markOutside ni g 0 0 ni 1
  let g := markOutside ni g 0 (nj - 1) ni nj
  let g := markOutside ni g 0 0 1 nj
  markOutside ni g (ni - 1) 0 ni nj

/-- the `match fill_mode { .. }` block: `(grid, fuel ok)` -/
def fill (cfg : Cfg) (ni nj : Nat) (g : Array VV) : Array VV × Bool :=
  if !cfg.flood then (g.map fun v => if v ≠ .surf then .outside else v, true) else
  let g := markBorder ni nj g
  if cfg.detectCavities then
    let r0 := propagate ni nj .outWalk .outside none .surfWalk1 (ni * nj + 1) g false
    let r := cavityLoop ni nj (ni * nj + 1) r0.1
    (r.1.map fun v => if v = .surfWalk1 ∨ v = .surfWalk2 ∨ v = .surfNoWalk then .surf else v, r0.2.2 && r.2)
  else
    let r0 := propagate ni nj .outWalk .outside none .surf (ni * nj + 1) g false
    (replaceValue r0.1 .undef .inside, r0.2.2)

/-! ## `VoxelizedVolume::voxelize` -/
section
variable [Cast K]

/-- the volume after `allocate()` -/
def allocate (origin : V2 K) (scale : K) (ni nj : Nat) : Vol K :=
  ⟨origin, scale, ni, nj, Array.replicate (ni * nj) .undef, Array.replicate (ni * nj) 0, Array.replicate (ni * nj) 0, #[], false⟩

/-- the marking phase: everything before `match fill_mode` -/
def markAll (cfg : Cfg) (res : Nat) (pts : List (V2 K)) (edges : List (Nat × Nat)) : Vol K :=
  match pts with
  | [] => ⟨V2.zero, 1, 0, 0, #[], #[], #[], #[], false⟩
  | p0 :: ps =>
    let bb := cloudAabb p0 ps
    let gp := gridParams res bb.1 bb.2
    let st := allocate bb.1 gp.2.2.1 gp.1 gp.2.1
    edges.zipIdx.foldl (fun st e => markSeg cfg gp.2.2.2 pts.toArray st (e.2, e.1)) st

/-- `VoxelizedVolume::voxelize(points, indices, resolution, fill_mode, keep_voxel_to_primitives_map)`;
the second component is `false` iff a loop ran out of fuel (never: `C18.propagate_fuel_suffices`) -/
def voxelize (cfg : Cfg) (res : Nat) (pts : List (V2 K)) (edges : List (Nat × Nat)) : Vol K × Bool :=
  match pts with
  | [] => (markAll cfg res pts edges, true)
  | _ :: _ =>
    let st := markAll cfg res pts edges
    if st.panic then (st, true) else
    let r := fill cfg st.ni st.nj st.vals
    ({ st with vals := r.1 }, r.2)
end

/-! ## `impl From<VoxelizedVolume> for VoxelSet` -/

/-- a `Voxel` of the 2-D `VoxelSet`: coordinates, `is_on_surface`, `intersections_range` -/
structure Voxel2 where
  i : Nat
  j : Nat
  surf : Bool
  r0 : Nat
  r1 : Nat
deriving Repr, DecidableEq

/-- state of the first loop: voxels (reversed push order is avoided: `Array`), `curr_intersection_index`, `data[..].num` -/
structure FromSt where
  voxels : Array Voxel2
  curr : Nat
  num : Array Nat

def fromCell (ni : Nat) (vals : Array VV) (hasPrims : Bool) (st : FromSt) (c : Nat × Nat) : FromSt :=
  let id := idx ni c.1 c.2
  let value := vals.getD id .undef
  if value = .inside then { st with voxels := st.voxels.push ⟨c.1, c.2, false, st.curr, st.curr⟩ }
  else if value = .surf then
    if hasPrims then
      let n := st.num.getD id 0
      ⟨st.voxels.push ⟨c.1, c.2, true, st.curr, st.curr + n⟩, st.curr + n, st.num.setIfInBounds id st.curr⟩
    else { st with voxels := st.voxels.push ⟨c.1, c.2, true, st.curr, st.curr⟩ }
  else st

/-- second loop: `vset_intersections[num[voxel_id]] = prim_id; num[voxel_id] += 1` -/
def scatter (acc : Array Nat × Array Nat) (p : Nat × Nat) : Array Nat × Array Nat :=
  let k := acc.2.getD p.1 0
  (acc.1.setIfInBounds k p.2, acc.2.setIfInBounds p.1 (k + 1))

/-- `VoxelSet::from(volume)`: `(voxels, intersections)` -/
def toVoxelSet {K : Type} (v : Vol K) : Array Voxel2 × Array Nat :=
  let hasPrims := !v.prims.isEmpty
  let st := (cellsIn 0 0 v.ni v.nj).foldl (fromCell v.ni v.vals hasPrims) ⟨#[], 0, v.numInter⟩
  if hasPrims then
    (st.voxels, (v.prims.foldl scatter (Array.replicate v.prims.size 0, st.num)).1)
  else (st.voxels, #[])

/-- the primitives listed for a voxel: `intersections[r0..r1]` -/
def voxelPrims (inter : Array Nat) (v : Voxel2) : List Nat := (inter.toList.drop v.r0).take (v.r1 - v.r0)

end Model.Vox
