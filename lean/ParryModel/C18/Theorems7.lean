import ParryModel.C18.LemmasMark3
import ParryModel.C18.Theorems5
/-!
# C18 theorems, part 7: the 3-D voxelizer marks exactly the cells its triangles hit, then fills

`Model.Vox3.voxelize3` is the transliteration of `VoxelizedVolume::voxelize` (`parry3d-f64`, `dim3`): grid parameters
from the bounding box of the points, the triangle-marking loop (`markTri3`: grid coordinates, the cell of each vertex
with its `assert!`, the candidate range, `intersection_test_aabb_triangle` on every still-undefined candidate cell) and
the fill pass `fill3`.  The theorems are instance-generic (any `Num K`, any `Cast K`): the triangle/box test is a black
box.  `V` is the returned volume; `Hit3 pts origin invScale ni nj nk t q` = the three point indices of triangle `t` are
valid, `q` lies in the candidate range `triRange3` computed from the cells of its three grid-space vertices
`(p − origin) · inv_scale`, and `testAabbTriangle (cell q) a b c = true`; `TriOk3 … t` = the three indices are valid and
the three vertex cells lie inside the grid (the three `assert!`s).
-/
set_option linter.unusedSectionVars false
set_option linter.unusedVariables false
set_option linter.unusedSimpArgs false
namespace C18
open Model Model.Vox Model.Vox3

section generic3
variable {K : Type} [Num K] [Cast K]

private theorem voxelize3_eq (flood dc : Bool) (res : Nat) (p0 : V3 K) (ps : List (V3 K)) (tris : List (Nat × Nat × Nat)) :
    voxelize3 flood dc res p0 ps tris =
      if (markAll3 res p0 ps tris).panic then (markAll3 res p0 ps tris, true)
      else ({ markAll3 res p0 ps tris with
                vals := (fill3 flood dc (markAll3 res p0 ps tris).ni (markAll3 res p0 ps tris).nj (markAll3 res p0 ps tris).nk
                  (markAll3 res p0 ps tris).vals).1 },
            (fill3 flood dc (markAll3 res p0 ps tris).ni (markAll3 res p0 ps tris).nj (markAll3 res p0 ps tris).nk
                  (markAll3 res p0 ps tris).vals).2) := rfl

private theorem voxelize3_panic (flood dc : Bool) (res : Nat) (p0 : V3 K) (ps : List (V3 K)) (tris : List (Nat × Nat × Nat)) :
    (voxelize3 flood dc res p0 ps tris).1.panic = (markAll3 res p0 ps tris).panic := by
  rw [voxelize3_eq]
  split_ifs <;> rfl

/-- the result of `voxelize3` in terms of the marking loop: grid parameters, the grid `g0` after the marking phase (right
size, only `undef`/`surf`, `surf` exactly on the hit cells), the final grid is `fill3` of `g0` -/
private theorem vox3_master (flood dc : Bool) (res : Nat) (p0 : V3 K) (ps : List (V3 K)) (tris : List (Nat × Nat × Nat))
    (V : Vol3 K) (hV : (voxelize3 flood dc res p0 ps tris).1 = V) (hp : V.panic = false) :
    ∃ g0 : Array VV,
      V.ni = (gridParams3 res (cloudAabb3 p0 ps).1 (cloudAabb3 p0 ps).2).1 ∧
      V.nj = (gridParams3 res (cloudAabb3 p0 ps).1 (cloudAabb3 p0 ps).2).2.1 ∧
      V.nk = (gridParams3 res (cloudAabb3 p0 ps).1 (cloudAabb3 p0 ps).2).2.2.1 ∧
      V.origin = (cloudAabb3 p0 ps).1 ∧
      V.scale = (gridParams3 res (cloudAabb3 p0 ps).1 (cloudAabb3 p0 ps).2).2.2.2 ∧
      V.vals = (fill3 flood dc V.ni V.nj V.nk g0).1 ∧
      (voxelize3 flood dc res p0 ps tris).2 = (fill3 flood dc V.ni V.nj V.nk g0).2 ∧
      MGood3 V.ni V.nj V.nk g0 ∧
      (∀ t ∈ tris, TriOk3 (p0 :: ps).toArray V.origin (invScale3 res (cloudAabb3 p0 ps).1 (cloudAabb3 p0 ps).2) V.ni V.nj V.nk t) ∧
      ∀ q, InB3 V.ni V.nj V.nk q → (getC3 V.ni V.nj g0 q = .surf ↔
        ∃ t ∈ tris, Hit3 (p0 :: ps).toArray V.origin (invScale3 res (cloudAabb3 p0 ps).1 (cloudAabb3 p0 ps).2) V.ni V.nj V.nk t q) := by
  subst hV
  by_cases hpm : (markAll3 res p0 ps tris).panic = true
  · rw [voxelize3_panic, hpm] at hp; cases hp
  · have hpm' : (markAll3 res p0 ps tris).panic = false := by simpa using hpm
    rw [voxelize3_eq, if_neg hpm]
    obtain ⟨s1, s2⟩ := markFrom3_spec (p0 :: ps).toArray tris (cloudAabb3 p0 ps).1
      (invScale3 res (cloudAabb3 p0 ps).1 (cloudAabb3 p0 ps).2)
      (gridParams3 res (cloudAabb3 p0 ps).1 (cloudAabb3 p0 ps).2).1 (gridParams3 res (cloudAabb3 p0 ps).1 (cloudAabb3 p0 ps).2).2.1
      (gridParams3 res (cloudAabb3 p0 ps).1 (cloudAabb3 p0 ps).2).2.2.1
    have hpf : (markFrom3 (p0 :: ps).toArray tris (cloudAabb3 p0 ps).1
      (invScale3 res (cloudAabb3 p0 ps).1 (cloudAabb3 p0 ps).2)
      (gridParams3 res (cloudAabb3 p0 ps).1 (cloudAabb3 p0 ps).2).1 (gridParams3 res (cloudAabb3 p0 ps).1 (cloudAabb3 p0 ps).2).2.1
      (gridParams3 res (cloudAabb3 p0 ps).1 (cloudAabb3 p0 ps).2).2.2.1).panic = false := hpm'
    obtain ⟨g1, g2⟩ := s2 hpf
    exact ⟨(markAll3 res p0 ps tris).vals, rfl, rfl, rfl, rfl, rfl, rfl, rfl, g1, s1.mp hpf, g2⟩

/-- in every fill mode the set of surface cells is left alone -/
private theorem fill3_surf_iff (flood dc : Bool) (ni nj nk : Nat) (hi : 1 ≤ ni) (hj : 1 ≤ nj) (hk : 1 ≤ nk) (g : Array VV)
    (hg : MGood3 ni nj nk g) :
    ∀ p, InB3 ni nj nk p → (getC3 ni nj (fill3 flood dc ni nj nk g).1 p = .surf ↔ getC3 ni nj g p = .surf) := by
  intro p hp
  cases flood with
  | false => exact ((fill3_surface_only dc ni nj nk g hg.size).2.2 p hp).1
  | true =>
    cases dc with
    | false => exact ((fill3_spec ni nj nk hi hj hk g hg.size hg.vals).2.2 p hp).1
    | true => exact (fill3_cav_surf_iff ni nj nk g p).2 (hg.vals p hp)

/-- **vox3_params** (`dim3`, every `FillMode`, no panic; any `Num`/`Cast` instance).  The grid of the volume returned by
`voxelize3` is the one computed from the bounding box of the points: `resolution = (ni, nj, nk)` and `scale` are
`gridParams3 res aabb.mins aabb.maxs`, `origin = aabb.mins`; the value array has exactly `ni * nj * nk` entries; every
triangle passed the three index lookups and the three `assert!`s; and for `res ≥ 1` the three dimensions are `≥ 1`. -/
theorem vox3_params (flood dc : Bool) (res : Nat) (p0 : V3 K) (ps : List (V3 K)) (tris : List (Nat × Nat × Nat))
    (V : Vol3 K) (hV : (voxelize3 flood dc res p0 ps tris).1 = V) (hp : V.panic = false) :
    V.ni = (gridParams3 res (cloudAabb3 p0 ps).1 (cloudAabb3 p0 ps).2).1 ∧
    V.nj = (gridParams3 res (cloudAabb3 p0 ps).1 (cloudAabb3 p0 ps).2).2.1 ∧
    V.nk = (gridParams3 res (cloudAabb3 p0 ps).1 (cloudAabb3 p0 ps).2).2.2.1 ∧
    V.origin = (cloudAabb3 p0 ps).1 ∧
    V.scale = (gridParams3 res (cloudAabb3 p0 ps).1 (cloudAabb3 p0 ps).2).2.2.2 ∧
    V.vals.size = V.ni * V.nj * V.nk ∧
    (∀ t ∈ tris, TriOk3 (p0 :: ps).toArray V.origin (invScale3 res (cloudAabb3 p0 ps).1 (cloudAabb3 p0 ps).2) V.ni V.nj V.nk t) ∧
    (1 ≤ res → 1 ≤ V.ni ∧ 1 ≤ V.nj ∧ 1 ≤ V.nk) := by
  obtain ⟨g0, m1, m2, m3, m4, m5, m6, m7, m8, m9, m10⟩ := vox3_master flood dc res p0 ps tris V hV hp
  refine ⟨m1, m2, m3, m4, m5, ?_, m9, fun hres => ?_⟩
  · rw [m6, fill3_size, m8.size]
  · rw [m1, m2, m3]
    exact gridParams3_dims res hres _ _

/-- **vox3_surface_iff** (`dim3`, EVERY `FillMode` — `SurfaceOnly`, `FloodFill { detect_cavities: false }`,
`FloodFill { detect_cavities: true }` —, no panic; any `Num`/`Cast` instance).  In the volume returned by `voxelize3`,
an in-grid cell `q` is `PrimitiveOnSurface` **iff** some triangle `t` of the index buffer hits it (`Hit3`): the three
points of `t` exist, `q` lies in the candidate range computed from the cells of the three grid-space vertices, and
`intersection_test_aabb_triangle(cell q, triangle)` is `true`.  (The marking loop tests only cells that are still
`PrimitiveUndefined`; this does not change the set.) -/
theorem vox3_surface_iff (flood dc : Bool) (res : Nat) (hres : 1 ≤ res) (p0 : V3 K) (ps : List (V3 K))
    (tris : List (Nat × Nat × Nat)) (V : Vol3 K) (hV : (voxelize3 flood dc res p0 ps tris).1 = V) (hp : V.panic = false) :
    ∀ q, InB3 V.ni V.nj V.nk q →
      (getC3 V.ni V.nj V.vals q = .surf ↔
        ∃ t ∈ tris, Hit3 (p0 :: ps).toArray V.origin (invScale3 res (cloudAabb3 p0 ps).1 (cloudAabb3 p0 ps).2)
          V.ni V.nj V.nk t q) := by
  obtain ⟨g0, m1, m2, m3, m4, m5, m6, m7, m8, m9, m10⟩ := vox3_master flood dc res p0 ps tris V hV hp
  obtain ⟨d1, d2, d3⟩ := gridParams3_dims res hres (cloudAabb3 p0 ps).1 (cloudAabb3 p0 ps).2
  intro q hq
  rw [m6, fill3_surf_iff flood dc V.ni V.nj V.nk (by rw [m1]; exact d1) (by rw [m2]; exact d2) (by rw [m3]; exact d3) g0 m8 q hq]
  exact m10 q hq

/-- **vox3_surface_iff_points**: `vox3_surface_iff` with `Hit3` spelled out on the point list: a cell is
`PrimitiveOnSurface` iff there are a triangle `t ∈ tris` and points `a = pts[t.0]`, `b = pts[t.1]`, `c = pts[t.2]` such
that the cell is within the candidate range of the cells of `(a − origin)·inv_scale`, … and the box test on the cell
`[q − 0.5, q + 0.5]` and the grid-space triangle is positive. -/
theorem vox3_surface_iff_points (flood dc : Bool) (res : Nat) (hres : 1 ≤ res) (p0 : V3 K) (ps : List (V3 K))
    (tris : List (Nat × Nat × Nat)) (V : Vol3 K) (hV : (voxelize3 flood dc res p0 ps tris).1 = V) (hp : V.panic = false)
    (inv : K) (hinv : invScale3 res (cloudAabb3 p0 ps).1 (cloudAabb3 p0 ps).2 = inv) :
    ∀ q, InB3 V.ni V.nj V.nk q →
      (getC3 V.ni V.nj V.vals q = .surf ↔
        ∃ t ∈ tris, ∃ a b c : V3 K, (p0 :: ps)[t.1]? = some a ∧ (p0 :: ps)[t.2.1]? = some b ∧ (p0 :: ps)[t.2.2]? = some c ∧
          InRange3 (triRange3 V.ni V.nj V.nk (cellOf3 ((a.sub V.origin).smul inv)) (cellOf3 ((b.sub V.origin).smul inv))
            (cellOf3 ((c.sub V.origin).smul inv))) q ∧
          testAabbTriangle (cellAabb3 (K := K) q.1 q.2.1 q.2.2).1 (cellAabb3 (K := K) q.1 q.2.1 q.2.2).2
            ((a.sub V.origin).smul inv) ((b.sub V.origin).smul inv) ((c.sub V.origin).smul inv) = true) := by
  intro q hq
  rw [vox3_surface_iff flood dc res hres p0 ps tris V hV hp q hq, hinv]
  constructor
  · rintro ⟨t, ht, a, b, c, ha, hb, hc, h1, h2⟩
    exact ⟨t, ht, a, b, c, by simpa using ha, by simpa using hb, by simpa using hc, h1, h2⟩
  · rintro ⟨t, ht, a, b, c, ha, hb, hc, h1, h2⟩
    exact ⟨t, ht, a, b, c, by simpa using ha, by simpa using hb, by simpa using hc, h1, h2⟩

/-- **vox3_fill_spec** (`FloodFill { detect_cavities: false }`, `dim3`, no panic; any instance).  In the volume returned
by `voxelize3`, with `S` = its set of `PrimitiveOnSurface` cells: an in-grid cell is `PrimitiveOutsideSurface` iff it is
connected to a non-surface cell of one of the six faces of the grid through non-surface cells (`Reach3`,
6-connectivity), `PrimitiveInsideSurface` iff it is a non-surface cell **not** so connected — the inside is exactly the
set of enclosed cells — and every cell holds one of the three final values. -/
theorem vox3_fill_spec (res : Nat) (hres : 1 ≤ res) (p0 : V3 K) (ps : List (V3 K))
    (tris : List (Nat × Nat × Nat)) (V : Vol3 K) (hV : (voxelize3 true false res p0 ps tris).1 = V) (hp : V.panic = false) :
    ∀ q, InB3 V.ni V.nj V.nk q →
      (getC3 V.ni V.nj V.vals q = .outside ↔
        Reach3 V.ni V.nj V.nk (fun c => getC3 V.ni V.nj V.vals c = .surf) q) ∧
      (getC3 V.ni V.nj V.vals q = .inside ↔
        (getC3 V.ni V.nj V.vals q ≠ .surf ∧ ¬ Reach3 V.ni V.nj V.nk (fun c => getC3 V.ni V.nj V.vals c = .surf) q)) ∧
      (getC3 V.ni V.nj V.vals q = .surf ∨ getC3 V.ni V.nj V.vals q = .outside ∨ getC3 V.ni V.nj V.vals q = .inside) := by
  obtain ⟨g0, m1, m2, m3, m4, m5, m6, m7, m8, m9, m10⟩ := vox3_master true false res p0 ps tris V hV hp
  obtain ⟨d1, d2, d3⟩ := gridParams3_dims res hres (cloudAabb3 p0 ps).1 (cloudAabb3 p0 ps).2
  obtain ⟨_, _, f3⟩ := fill3_spec V.ni V.nj V.nk (by rw [m1]; exact d1) (by rw [m2]; exact d2) (by rw [m3]; exact d3) g0
    m8.size m8.vals
  intro q hq
  rw [m6]
  obtain ⟨a1, a2, a3, a4⟩ := f3 q hq
  -- the surface predicate of the result is that of the marking phase
  have hS : ∀ p, Reach3 V.ni V.nj V.nk (fun c => getC3 V.ni V.nj (fill3 true false V.ni V.nj V.nk g0).1 c = .surf) p ↔
      Reach3 V.ni V.nj V.nk (fun c => getC3 V.ni V.nj g0 c = .surf) p := by
    intro p
    constructor
    · intro h
      induction h with
      | border hb hbd hs => exact Reach3.border hb hbd (fun x => hs ((f3 _ hb).1.mpr x))
      | step _ hadj hq' hs ih => exact Reach3.step ih hadj hq' (fun x => hs ((f3 _ hq').1.mpr x))
    · intro h
      induction h with
      | border hb hbd hs => exact Reach3.border hb hbd (fun x => hs ((f3 _ hb).1.mp x))
      | step _ hadj hq' hs ih => exact Reach3.step ih hadj hq' (fun x => hs ((f3 _ hq').1.mp x))
  rw [hS q]
  refine ⟨a2, ?_, a4⟩
  rw [a3]
  constructor
  · rintro ⟨x, y⟩; exact ⟨fun z => x (a1.mp z), y⟩
  · rintro ⟨x, y⟩; exact ⟨fun z => x (a1.mpr z), y⟩

/-- **vox3_fuel_ok** (`dim3`, every `FillMode`, every input): the fuel the model gives to the `loop { .. }`s of
`propagate_values` and to the inside/outside alternation of `detect_cavities` is never exhausted — the model's result
is the result of the (terminating) Rust loops. -/
theorem vox3_fuel_ok (flood dc : Bool) (res : Nat) (p0 : V3 K) (ps : List (V3 K)) (tris : List (Nat × Nat × Nat)) :
    (voxelize3 flood dc res p0 ps tris).2 = true := by
  by_cases hp : (voxelize3 flood dc res p0 ps tris).1.panic = true
  · rw [voxelize3_panic] at hp
    rw [voxelize3_eq, if_pos hp]
  · have hp' : (voxelize3 flood dc res p0 ps tris).1.panic = false := by simpa using hp
    obtain ⟨g0, m1, m2, m3, m4, m5, m6, m7, m8, m9, m10⟩ := vox3_master flood dc res p0 ps tris _ rfl hp'
    rw [m7]
    exact fill3_fuel_all flood dc _ _ _ g0 m8.size

/-- **vox3_panic_iff** (`dim3`, every `FillMode`).  `voxelize3` hits a panic site **iff** some triangle of the index
buffer fails `TriOk3` on the grid computed from the bounding box: one of its three point indices is out of range
(`points[i]` panics) or one of its three vertices falls in a cell `cellOf3` outside `resolution` (an `assert!` fails).
In particular: no bad triangle ⇒ no panic. -/
theorem vox3_panic_iff (flood dc : Bool) (res : Nat) (p0 : V3 K) (ps : List (V3 K)) (tris : List (Nat × Nat × Nat)) :
    (voxelize3 flood dc res p0 ps tris).1.panic = true ↔
      ∃ t ∈ tris, ¬ TriOk3 (p0 :: ps).toArray (cloudAabb3 p0 ps).1 (invScale3 res (cloudAabb3 p0 ps).1 (cloudAabb3 p0 ps).2)
        (gridParams3 res (cloudAabb3 p0 ps).1 (cloudAabb3 p0 ps).2).1 (gridParams3 res (cloudAabb3 p0 ps).1 (cloudAabb3 p0 ps).2).2.1
        (gridParams3 res (cloudAabb3 p0 ps).1 (cloudAabb3 p0 ps).2).2.2.1 t := by
  rw [voxelize3_panic]
  obtain ⟨s1, _⟩ := markFrom3_spec (p0 :: ps).toArray tris (cloudAabb3 p0 ps).1
    (invScale3 res (cloudAabb3 p0 ps).1 (cloudAabb3 p0 ps).2)
    (gridParams3 res (cloudAabb3 p0 ps).1 (cloudAabb3 p0 ps).2).1 (gridParams3 res (cloudAabb3 p0 ps).1 (cloudAabb3 p0 ps).2).2.1
    (gridParams3 res (cloudAabb3 p0 ps).1 (cloudAabb3 p0 ps).2).2.2.1
  have e : (markAll3 res p0 ps tris).panic = (markFrom3 (p0 :: ps).toArray tris (cloudAabb3 p0 ps).1
    (invScale3 res (cloudAabb3 p0 ps).1 (cloudAabb3 p0 ps).2)
    (gridParams3 res (cloudAabb3 p0 ps).1 (cloudAabb3 p0 ps).2).1 (gridParams3 res (cloudAabb3 p0 ps).1 (cloudAabb3 p0 ps).2).2.1
    (gridParams3 res (cloudAabb3 p0 ps).1 (cloudAabb3 p0 ps).2).2.2.1).panic := rfl
  rw [e]
  constructor
  · intro h
    by_contra hc
    push Not at hc
    have := s1.mpr hc
    rw [h] at this; cases this
  · rintro ⟨t, ht, hbad⟩
    by_contra hc
    exact hbad (s1.mp (Bool.eq_false_iff.mpr hc) t ht)

/-- **vox3_panic_iff_points**: `vox3_panic_iff` spelled out.  With `(ni, nj, nk)`, `origin`, `inv_scale` computed from the
bounding box of the points, `voxelize3` panics **iff** there is a triangle `t ∈ tris` with a point index `≥` the number
of points, or with three valid indices and a vertex `p` whose cell `cellOf3 ((p − origin) · inv_scale)` is not inside
the `ni × nj × nk` grid. -/
theorem vox3_panic_iff_points (flood dc : Bool) (res : Nat) (p0 : V3 K) (ps : List (V3 K)) (tris : List (Nat × Nat × Nat))
    (O : V3 K) (hO : (cloudAabb3 p0 ps).1 = O) (inv : K) (hinv : invScale3 res (cloudAabb3 p0 ps).1 (cloudAabb3 p0 ps).2 = inv)
    (ni nj nk : Nat) (hni : (gridParams3 res (cloudAabb3 p0 ps).1 (cloudAabb3 p0 ps).2).1 = ni)
    (hnj : (gridParams3 res (cloudAabb3 p0 ps).1 (cloudAabb3 p0 ps).2).2.1 = nj)
    (hnk : (gridParams3 res (cloudAabb3 p0 ps).1 (cloudAabb3 p0 ps).2).2.2.1 = nk) :
    (voxelize3 flood dc res p0 ps tris).1.panic = true ↔
      ∃ t ∈ tris,
        ((p0 :: ps).length ≤ t.1 ∨ (p0 :: ps).length ≤ t.2.1 ∨ (p0 :: ps).length ≤ t.2.2) ∨
        ∃ a b c : V3 K, (p0 :: ps)[t.1]? = some a ∧ (p0 :: ps)[t.2.1]? = some b ∧ (p0 :: ps)[t.2.2]? = some c ∧
          (¬ InB3 ni nj nk (cellOf3 ((a.sub O).smul inv)) ∨ ¬ InB3 ni nj nk (cellOf3 ((b.sub O).smul inv)) ∨
           ¬ InB3 ni nj nk (cellOf3 ((c.sub O).smul inv))) := by
  rw [vox3_panic_iff, hinv, hni, hnj, hnk, hO]
  constructor
  · rintro ⟨t, ht, h⟩
    refine ⟨t, ht, ?_⟩
    rcases (not_triOk3_iff _ _ _ _ _ _ _).mp h with h | ⟨a, b, c, ha, hb, hc, r⟩
    · left; simpa using h
    · right; exact ⟨a, b, c, by simpa using ha, by simpa using hb, by simpa using hc, r⟩
  · rintro ⟨t, ht, h⟩
    refine ⟨t, ht, (not_triOk3_iff _ _ _ _ _ _ _).mpr ?_⟩
    rcases h with h | ⟨a, b, c, ha, hb, hc, r⟩
    · left; simpa using h
    · right; exact ⟨a, b, c, by simpa using ha, by simpa using hb, by simpa using hc, r⟩

/-- **vox3_no_panic**: if every triangle has three valid point indices and its three vertices fall in cells of the grid
(`TriOk3`), `voxelize3` does not hit a panic site. -/
theorem vox3_no_panic (flood dc : Bool) (res : Nat) (p0 : V3 K) (ps : List (V3 K)) (tris : List (Nat × Nat × Nat))
    (hok : ∀ t ∈ tris, TriOk3 (p0 :: ps).toArray (cloudAabb3 p0 ps).1 (invScale3 res (cloudAabb3 p0 ps).1 (cloudAabb3 p0 ps).2)
        (gridParams3 res (cloudAabb3 p0 ps).1 (cloudAabb3 p0 ps).2).1 (gridParams3 res (cloudAabb3 p0 ps).1 (cloudAabb3 p0 ps).2).2.1
        (gridParams3 res (cloudAabb3 p0 ps).1 (cloudAabb3 p0 ps).2).2.2.1 t) :
    (voxelize3 flood dc res p0 ps tris).1.panic = false := by
  apply Bool.eq_false_iff.mpr
  intro h
  obtain ⟨t, ht, hbad⟩ := (vox3_panic_iff flood dc res p0 ps tris).mp h
  exact hbad (hok t ht)

/-- **vox3_surface_only_spec** (`FillMode::SurfaceOnly`, `dim3`, no panic): every in-grid cell of the returned volume is
`PrimitiveOnSurface` or `PrimitiveOutsideSurface`. -/
theorem vox3_surface_only_spec (dc : Bool) (res : Nat) (p0 : V3 K) (ps : List (V3 K))
    (tris : List (Nat × Nat × Nat)) (V : Vol3 K) (hV : (voxelize3 false dc res p0 ps tris).1 = V) (hp : V.panic = false) :
    ∀ q, InB3 V.ni V.nj V.nk q → getC3 V.ni V.nj V.vals q = .surf ∨ getC3 V.ni V.nj V.vals q = .outside := by
  obtain ⟨g0, m1, m2, m3, m4, m5, m6, m7, m8, m9, m10⟩ := vox3_master false dc res p0 ps tris V hV hp
  intro q hq
  rw [m6]
  obtain ⟨f1, f2⟩ := (fill3_surface_only dc V.ni V.nj V.nk g0 m8.size).2.2 q hq
  by_cases h : getC3 V.ni V.nj g0 q = .surf
  · exact Or.inl (f1.mpr h)
  · exact Or.inr (f2 h)

end generic3
end C18
