import ParryModel.Vec
/-!
# C18 model: `VoxelSet::clip`, and the VHACD decomposition loop (`do_compute_acd` / `process_primitive_set`)
with the concavity test and the plane choice abstracted to an arbitrary *stateful* oracle
(`σ → voxels → σ × Option plane`).  The correspondence replays the oracle decisions recorded by the
`verif_tap` hook; the theorems hold for every oracle.
-/
namespace Model
variable {K : Type} [Num K]

structure Voxel where
  i : Nat
  j : Nat
  k : Nat
  surf : Bool
deriving DecidableEq, Repr

def Voxel.coords (v : Voxel) : Nat × Nat × Nat := (v.i, v.j, v.k)

structure CutPlane (K : Type) where
  abc : V3 K
  d : K

/-- `VoxelSet::get_voxel_point`: `origin + coords * scale` -/
def voxelPoint (origin : V3 K) (scale : K) (v : Voxel) : V3 K :=
  origin.add ((⟨lit v.i, lit v.j, lit v.k⟩ : V3 K).smul scale)

/-- one voxel of `VoxelSet::clip`: `(goes to the positive part?, voxel with possibly raised surface flag)` -/
def clipVoxel (origin : V3 K) (scale : K) (pl : CutPlane K) (v : Voxel) : Bool × Voxel :=
  let pt := voxelPoint origin scale v
  let d := pl.abc.dot pt + pl.d
  if 0 ≤ d then
    if v.surf || decide (d ≤ scale) then (true, { v with surf := true }) else (true, v)
  else if v.surf || decide (-d ≤ scale) then (false, { v with surf := true })
  else (false, v)

/-- `VoxelSet::clip`: `(positive_part, negative_part)` -/
def clip (origin : V3 K) (scale : K) (pl : CutPlane K) (vs : List Voxel) : List Voxel × List Voxel :=
  let tagged := vs.map (clipVoxel origin scale pl)
  ((tagged.filter (·.1)).map (·.2), (tagged.filter (fun t => !t.1)).map (·.2))

/-- stateful oracle: concavity test + best plane -/
abbrev Oracle (σ : Type) (K : Type) := σ → List Voxel → σ × Option (CutPlane K)

/-- one `process_primitive_set`: state `(oracle state, parts, temp)` -/
def process {σ} (origin : V3 K) (scale : K) (o : Oracle σ K)
    (acc : σ × List (List Voxel) × List (List Voxel)) (v : List Voxel) :
    σ × List (List Voxel) × List (List Voxel) :=
  match o acc.1 v with
  | (s, some pl) =>
    let (pos, neg) := clip origin scale pl v
    -- `voxels.clip(&best_plane, &mut best_right, &mut best_left); temp.push(best_left); temp.push(best_right)`
    (s, acc.2.1, acc.2.2 ++ [neg, pos])
  | (s, none) => (s, acc.2.1 ++ [v], acc.2.2)

/-- the `for _ in 0..depth` loop of `do_compute_acd` -/
def acdLoop {σ} (origin : V3 K) (scale : K) (o : Oracle σ K) :
    Nat → σ → List (List Voxel) → List (List Voxel) → List (List Voxel)
  | 0, _, input, parts => parts ++ input
  | d+1, s, input, parts =>
    if input.isEmpty then parts ++ input else
    let r := input.foldl (process origin scale o) (s, parts, [])
    acdLoop origin scale o d r.1 r.2.2 r.2.1

/-- depth derived from `max_convex_hulls` (`while max > hull_count {depth += 1; hull_count *= 2}; depth += 1`);
fuel 32 covers every `u32` (`hull_count` overflows beyond) -/
def depthGo (maxHulls : Nat) : Nat → Nat → Nat → Nat
  | 0, _, depth => depth
  | f+1, hull, depth => if hull < maxHulls then depthGo maxHulls f (hull * 2) (depth + 1) else depth
def depthOf (maxHulls : Nat) : Nat := depthGo maxHulls 32 2 1 + 1

def acd {σ} (origin : V3 K) (scale : K) (o : Oracle σ K) (s0 : σ) (maxHulls : Nat) (voxels : List Voxel) :
    List (List Voxel) :=
  acdLoop origin scale o (depthOf maxHulls) s0 [voxels] []

/-- replay oracle: pops recorded decisions -/
def replayOracle : Oracle (List (Option (CutPlane K))) K := fun s _ =>
  match s with
  | [] => ([], none)
  | d :: ds => (ds, d)

end Model
