import ParryModel.C18.LemmasMap3
import ParryModel.C18.Theorems10
/-!
# C18 theorems, part 11: the 3-D voxel-to-primitive map (`keep_voxel_to_primitives_map = true`, `parry3d-f64`)

About `Model.Vox3.voxelize3K` / `toVoxelSet3K` (`ModelMap3.lean`), instance-generic (any `Num K`, `Cast K`; the
triangle/box test is a black box):

* `vox3_keep_same_volume` — asking for the map does not change the `VoxelizedVolume`: grid values, resolution, origin,
  scale and the panic behaviour are those of the run without the map (every theorem about `voxelize3` carries over);
* `vox3_map_exact` — `primitive_intersections` is, triangle after triangle, the list of `(voxel_index(c), tri_id)` for the
  candidate cells `c` of the triangle with a positive `intersection_test_aabb_triangle`;
* `vox3_map_counts` — `data[id].num_primitive_intersections` is the number of entries with voxel id `id`;
* `vox3_set_keep_voxels` — the voxel list of the `VoxelSet` is the one built without the map;
* `vox3_set_map_exact` — for every surface voxel `w` of `VoxelSet::voxelize(.., true)` the slice
  `intersections[w.intersections_range]` written by the counting sort is exactly the increasing list of the triangle
  indices `k` whose triangle has the cell of `w` in its candidate range with a positive test;
* `vox3_set_map_mem_iff` / `vox3_set_map_sorted` — membership form (`Hit3`) and strict monotonicity of that list;
* `vox3_set_map_nonempty` — every surface voxel lists at least one triangle;
* `vox3_set_map_ranges` — the ranges are in bounds, have the length of the counters and do not overlap;
* `vox3_map_nonempty_iff` — the map is non-empty iff there is a surface cell.
-/
set_option linter.style.haveILetI false
set_option linter.unusedSectionVars false
set_option linter.unusedVariables false
set_option linter.unusedSimpArgs false
namespace C18
open Model Model.Vox Model.Vox3

section generic3K
variable {K : Type} [Num K] [Cast K]

private theorem voxelize3K_eq (flood dc : Bool) (res : Nat) (p0 : V3 K) (ps : List (V3 K)) (tris : List (Nat × Nat × Nat)) :
    voxelize3K flood dc res p0 ps tris =
      if (markAll3K res p0 ps tris).panic then (markAll3K res p0 ps tris, true)
      else ({ markAll3K res p0 ps tris with
                vals := (fill3 flood dc (markAll3K res p0 ps tris).ni (markAll3K res p0 ps tris).nj (markAll3K res p0 ps tris).nk
                  (markAll3K res p0 ps tris).vals).1 },
            (fill3 flood dc (markAll3K res p0 ps tris).ni (markAll3K res p0 ps tris).nj (markAll3K res p0 ps tris).nk
                  (markAll3K res p0 ps tris).vals).2) := rfl

private theorem voxelize3_eq' (flood dc : Bool) (res : Nat) (p0 : V3 K) (ps : List (V3 K)) (tris : List (Nat × Nat × Nat)) :
    voxelize3 flood dc res p0 ps tris =
      if (markAll3 res p0 ps tris).panic then (markAll3 res p0 ps tris, true)
      else ({ markAll3 res p0 ps tris with
                vals := (fill3 flood dc (markAll3 res p0 ps tris).ni (markAll3 res p0 ps tris).nj (markAll3 res p0 ps tris).nk
                  (markAll3 res p0 ps tris).vals).1 },
            (fill3 flood dc (markAll3 res p0 ps tris).ni (markAll3 res p0 ps tris).nj (markAll3 res p0 ps tris).nk
                  (markAll3 res p0 ps tris).vals).2) := rfl

/-- the marking phase with the map against the marking phase without it -/
private theorem markAll3K_fields (res : Nat) (p0 : V3 K) (ps : List (V3 K)) (tris : List (Nat × Nat × Nat)) :
    (markAll3K res p0 ps tris).vals = (markAll3 res p0 ps tris).vals ∧
    (markAll3K res p0 ps tris).panic = (markAll3 res p0 ps tris).panic ∧
    (markAll3K res p0 ps tris).ni = (markAll3 res p0 ps tris).ni ∧
    (markAll3K res p0 ps tris).nj = (markAll3 res p0 ps tris).nj ∧
    (markAll3K res p0 ps tris).nk = (markAll3 res p0 ps tris).nk ∧
    (markAll3K res p0 ps tris).origin = (markAll3 res p0 ps tris).origin ∧
    (markAll3K res p0 ps tris).scale = (markAll3 res p0 ps tris).scale ∧
    (markAll3K res p0 ps tris).origin = (cloudAabb3 p0 ps).1 ∧
    (markAll3K res p0 ps tris).num.size = (markAll3K res p0 ps tris).ni * (markAll3K res p0 ps tris).nj * (markAll3K res p0 ps tris).nk ∧
    (∀ id, (markAll3K res p0 ps tris).num.getD id 0 =
      ((markAll3K res p0 ps tris).prims.toList.filter (fun pr => pr.1 = id)).length) ∧
    ((markAll3K res p0 ps tris).panic = false →
      (markAll3K res p0 ps tris).prims.toList = (enumTris tris).flatMap (triPairs3 (p0 :: ps).toArray (cloudAabb3 p0 ps).1
        (invScale3 res (cloudAabb3 p0 ps).1 (cloudAabb3 p0 ps).2)
        (markAll3K res p0 ps tris).ni (markAll3K res p0 ps tris).nj (markAll3K res p0 ps tris).nk)) := by
  obtain ⟨i1, i2, i3, i4⟩ := markFrom3K_spec (p0 :: ps).toArray tris (cloudAabb3 p0 ps).1
    (invScale3 res (cloudAabb3 p0 ps).1 (cloudAabb3 p0 ps).2)
    (gridParams3 res (cloudAabb3 p0 ps).1 (cloudAabb3 p0 ps).2).1 (gridParams3 res (cloudAabb3 p0 ps).1 (cloudAabb3 p0 ps).2).2.1
    (gridParams3 res (cloudAabb3 p0 ps).1 (cloudAabb3 p0 ps).2).2.2.1
  rw [markAll3K_eq, markAll3_eq]
  exact ⟨i2, i3, rfl, rfl, rfl, rfl, rfl, rfl, i1.nsize, i1.cnt, i4⟩

/-- **vox3_keep_same_volume** (`dim3`, every `FillMode`, every input).  `keep_voxel_to_primitives_map = true` does not
change the `VoxelizedVolume`: the grid (every `VoxelValue`), the resolution, origin and scale, the panic flag and the fuel
flag are those of `voxelize3` (the run without the map) — although with the map every candidate cell is tested again even
when an earlier triangle already marked it.  Hence `vox3_surface_iff`, `vox3_fill_spec`, `vox3_panic_iff`,
`vox3_meets_imp_surface`, … hold verbatim for the volume computed with the map. -/
theorem vox3_keep_same_volume (flood dc : Bool) (res : Nat) (p0 : V3 K) (ps : List (V3 K)) (tris : List (Nat × Nat × Nat)) :
    (voxelize3K flood dc res p0 ps tris).1.vals = (voxelize3 flood dc res p0 ps tris).1.vals ∧
    (voxelize3K flood dc res p0 ps tris).1.panic = (voxelize3 flood dc res p0 ps tris).1.panic ∧
    (voxelize3K flood dc res p0 ps tris).1.ni = (voxelize3 flood dc res p0 ps tris).1.ni ∧
    (voxelize3K flood dc res p0 ps tris).1.nj = (voxelize3 flood dc res p0 ps tris).1.nj ∧
    (voxelize3K flood dc res p0 ps tris).1.nk = (voxelize3 flood dc res p0 ps tris).1.nk ∧
    (voxelize3K flood dc res p0 ps tris).1.origin = (voxelize3 flood dc res p0 ps tris).1.origin ∧
    (voxelize3K flood dc res p0 ps tris).1.scale = (voxelize3 flood dc res p0 ps tris).1.scale ∧
    (voxelize3K flood dc res p0 ps tris).2 = (voxelize3 flood dc res p0 ps tris).2 := by
  obtain ⟨f1, f2, f3, f4, f5, f6, f7, _⟩ := markAll3K_fields res p0 ps tris
  rw [voxelize3K_eq, voxelize3_eq']
  by_cases hp : (markAll3 res p0 ps tris).panic = true
  · rw [if_pos (by rw [f2]; exact hp), if_pos hp]
    exact ⟨f1, f2, f3, f4, f5, f6, f7, rfl⟩
  · rw [if_neg (by rw [f2]; exact hp), if_neg hp]
    simp only []
    rw [f1, f3, f4, f5]
    exact ⟨rfl, f2, rfl, rfl, rfl, f6, f7, rfl⟩

/-- the volume with the map, no panic: everything the later theorems need -/
private theorem vox3K_master (flood dc : Bool) (res : Nat) (p0 : V3 K) (ps : List (V3 K)) (tris : List (Nat × Nat × Nat))
    (V : Vol3K K) (hV : (voxelize3K flood dc res p0 ps tris).1 = V) (hp : V.panic = false) :
    V.origin = (cloudAabb3 p0 ps).1 ∧
    V.num.size = V.ni * V.nj * V.nk ∧
    (∀ id, V.num.getD id 0 = (V.prims.toList.filter (fun pr => pr.1 = id)).length) ∧
    V.prims.toList = (enumTris tris).flatMap (triPairs3 (p0 :: ps).toArray V.origin
      (invScale3 res (cloudAabb3 p0 ps).1 (cloudAabb3 p0 ps).2) V.ni V.nj V.nk) := by
  obtain ⟨f1, f2, f3, f4, f5, f6, f7, f8, f9, f10, f11⟩ := markAll3K_fields res p0 ps tris
  have hpm : (markAll3K res p0 ps tris).panic = false := by
    by_contra hc
    have hc' : (markAll3K res p0 ps tris).panic = true := by simpa using hc
    rw [voxelize3K_eq, if_pos hc'] at hV
    rw [← hV] at hp
    simp only [] at hp
    rw [hc'] at hp; cases hp
  rw [voxelize3K_eq, if_neg (by rw [hpm]; simp)] at hV
  subst hV
  simp only []
  exact ⟨f8, f9, f10, by rw [f8]; exact f11 hpm⟩

/-- **vox3_map_exact** (`dim3`, `keep_voxel_to_primitives_map = true`, every `FillMode`, no panic).
`primitive_intersections` of the returned volume is, in primitive order, the list of `(voxel_index(c), tri_id)` for the
candidate cells `c` of triangle `tri_id` (loop order) with a positive `intersection_test_aabb_triangle`: nothing else,
nothing missing, one entry per (candidate cell, triangle) pair. -/
theorem vox3_map_exact (flood dc : Bool) (res : Nat) (p0 : V3 K) (ps : List (V3 K)) (tris : List (Nat × Nat × Nat))
    (V : Vol3K K) (hV : (voxelize3K flood dc res p0 ps tris).1 = V) (hp : V.panic = false) :
    V.prims.toList = (enumTris tris).flatMap (triPairs3 (p0 :: ps).toArray V.origin
      (invScale3 res (cloudAabb3 p0 ps).1 (cloudAabb3 p0 ps).2) V.ni V.nj V.nk) :=
  (vox3K_master flood dc res p0 ps tris V hV hp).2.2.2

/-- **vox3_map_counts** (no panic): `data[id].num_primitive_intersections` is the number of entries of
`primitive_intersections` whose voxel id is `id` (what the counting sort of `From<VoxelizedVolume>` relies on). -/
theorem vox3_map_counts (flood dc : Bool) (res : Nat) (p0 : V3 K) (ps : List (V3 K)) (tris : List (Nat × Nat × Nat))
    (V : Vol3K K) (hV : (voxelize3K flood dc res p0 ps tris).1 = V) (hp : V.panic = false) :
    V.num.size = V.ni * V.nj * V.nk ∧
    ∀ id, V.num.getD id 0 = (V.prims.toList.filter (fun pr => pr.1 = id)).length :=
  ⟨(vox3K_master flood dc res p0 ps tris V hV hp).2.1, (vox3K_master flood dc res p0 ps tris V hV hp).2.2.1⟩

/-- an entry of `triPairs3` is a hit -/
private theorem mem_triPairs3 (pts : Array (V3 K)) (O : V3 K) (INV : K) (ni nj nk : Nat) (e : Nat × (Nat × Nat × Nat))
    (pr : Nat × Nat) (h : pr ∈ triPairs3 pts O INV ni nj nk e) :
    ∃ q, InB3 ni nj nk q ∧ Hit3 pts O INV ni nj nk e.2 q ∧ pr = (idx3 ni nj q.1 q.2.1 q.2.2, e.1) := by
  unfold triPairs3 at h
  cases h0 : pts[e.2.1]? with
  | none => simp [h0] at h
  | some p0 =>
    cases h1 : pts[e.2.2.1]? with
    | none => simp [h0, h1] at h
    | some p1 =>
      cases h2 : pts[e.2.2.2]? with
      | none => simp [h0, h1, h2] at h
      | some p2 =>
        simp only [h0, h1, h2] at h
        obtain ⟨q, hq, rfl⟩ := List.mem_map.mp h
        obtain ⟨hq1, hq2⟩ := List.mem_filter.mp hq
        exact ⟨q, triCells3_inB ni nj nk _ _ _ q hq1,
          ⟨p0, p1, p2, h0, h1, h2, (mem_triCells3 ni nj nk _ _ _ q).mp hq1, hq2⟩, rfl⟩

/-- **vox3_set_keep_voxels**: the voxel list (coordinates and `is_on_surface`) of `VoxelSet::voxelize(.., true)` is the
voxel list of `VoxelSet::voxelize(.., false)` (`voxelSet3`) — so `vox3_set_mem`, `vox3_set_nodup`, `vox3_set_is_fill`
describe it as well. -/
theorem vox3_set_keep_voxels (flood dc : Bool) (res : Nat) (p0 : V3 K) (ps : List (V3 K)) (tris : List (Nat × Nat × Nat)) :
    (toVoxelSet3K (voxelize3K flood dc res p0 ps tris).1).1.toList.map (fun w => (⟨w.i, w.j, w.k, w.surf⟩ : Voxel)) =
      voxelSet3 flood dc res p0 ps tris := by
  obtain ⟨k1, _, k3, k4, k5, _⟩ := vox3_keep_same_volume flood dc res p0 ps tris
  unfold voxelSet3
  rw [vox3_set_voxels]
  have h := toVoxelSet3K_voxels (voxelize3K flood dc res p0 ps tris).1
  have e : (toVoxelSet3K (voxelize3K flood dc res p0 ps tris).1).1.toList.map (fun w => (⟨w.i, w.j, w.k, w.surf⟩ : Voxel))
      = ((toVoxelSet3K (voxelize3K flood dc res p0 ps tris).1).1.toList.map (fun w => ((w.i, w.j, w.k), w.surf))).map
          (fun x => (⟨x.1.1, x.1.2.1, x.1.2.2, x.2⟩ : Voxel)) := by
    rw [List.map_map]; rfl
  rw [e, h, k1, k3, k4, k5, List.map_filterMap]
  apply List.filterMap_congr
  intro c _
  unfold classify3K classify3
  split_ifs <;> rfl

/-- **vox3_set_map_exact** (`dim3`, `keep_voxel_to_primitives_map = true`, every `FillMode`, `resolution ≥ 1`, no panic,
map not empty).  For every surface voxel `w` of `VoxelSet::voxelize(.., true)`, the slice
`intersections[w.intersections_range]` produced by the counting sort of `From<VoxelizedVolume>` is **exactly** the
increasing list of the triangle indices `k` whose triangle has the cell of `w` in its candidate range with a positive
`intersection_test_aabb_triangle` (`hitB3`) — no triangle missing, none extra, none repeated. -/
theorem vox3_set_map_exact (flood dc : Bool) (res : Nat) (hres : 1 ≤ res) (p0 : V3 K) (ps : List (V3 K))
    (tris : List (Nat × Nat × Nat)) (V : Vol3K K) (hV : (voxelize3K flood dc res p0 ps tris).1 = V) (hp : V.panic = false)
    (hne : V.prims.isEmpty = false) :
    ∀ w ∈ (toVoxelSet3K V).1.toList, w.surf = true →
      voxelPrims3 (toVoxelSet3K V).2 w =
        ((enumTris tris).filter (fun e => hitB3 (p0 :: ps).toArray V.origin
          (invScale3 res (cloudAabb3 p0 ps).1 (cloudAabb3 p0 ps).2) V.ni V.nj V.nk e (w.i, w.j, w.k))).map (·.1) := by
  obtain ⟨m1, m2, m3, m4⟩ := vox3K_master flood dc res p0 ps tris V hV hp
  obtain ⟨k1, k2, k3, k4, k5, k6, _⟩ := vox3_keep_same_volume flood dc res p0 ps tris
  rw [hV] at k1 k2 k3 k4 k5 k6
  have hp0 : (voxelize3 flood dc res p0 ps tris).1.panic = false := by rw [← k2]; exact hp
  have hsurfiff := vox3_surface_iff flood dc res hres p0 ps tris _ rfl hp0
  rw [← k1, ← k3, ← k4, ← k5, ← k6] at hsurfiff
  intro w hw hws
  have key := toVoxelSet3K_map V hne m2 m3
    (by
      intro pr hpr
      rw [m4] at hpr
      obtain ⟨e, he, hpe⟩ := List.mem_flatMap.mp hpr
      obtain ⟨q, hq, hhit, rfl⟩ := mem_triPairs3 _ _ _ _ _ _ e pr hpe
      refine ⟨q, hq, rfl, (hsurfiff q hq).mpr ⟨e.2, ?_, hhit⟩⟩
      exact List.mem_of_getElem? (mem_enumTris.mp he)) w hw hws
  rw [key, m4]
  have hwin : InB3 V.ni V.nj V.nk (w.i, w.j, w.k) := by
    have h1 : ((w.i, w.j, w.k), w.surf) ∈ (toVoxelSet3K V).1.toList.map (fun w => ((w.i, w.j, w.k), w.surf)) :=
      List.mem_map.mpr ⟨w, hw, rfl⟩
    rw [toVoxelSet3K_voxels] at h1
    obtain ⟨c, hc, e⟩ := List.mem_filterMap.mp h1
    have hcin := mem_cellsIn3_inB V.ni V.nj V.nk hc
    have : c = (w.i, w.j, w.k) := by
      unfold classify3K at e
      split_ifs at e <;> simp at e <;> exact e.1
    rw [← this]; exact hcin
  exact flatMap_filter_hits3 _ _ _ _ _ _ (w.i, w.j, w.k) hwin _

/-- **vox3_set_map_mem_iff** (same hypotheses): triangle index `k` is listed for the surface voxel `w` **iff** `k` names a
triangle `t` of the index buffer that marks the cell of `w` (`Hit3`: valid point indices, the cell inside the candidate
range of `t`, positive `intersection_test_aabb_triangle`). -/
theorem vox3_set_map_mem_iff (flood dc : Bool) (res : Nat) (hres : 1 ≤ res) (p0 : V3 K) (ps : List (V3 K))
    (tris : List (Nat × Nat × Nat)) (V : Vol3K K) (hV : (voxelize3K flood dc res p0 ps tris).1 = V) (hp : V.panic = false)
    (hne : V.prims.isEmpty = false) :
    ∀ w ∈ (toVoxelSet3K V).1.toList, w.surf = true → ∀ k,
      (k ∈ voxelPrims3 (toVoxelSet3K V).2 w ↔
        ∃ t, tris[k]? = some t ∧ Hit3 (p0 :: ps).toArray V.origin
          (invScale3 res (cloudAabb3 p0 ps).1 (cloudAabb3 p0 ps).2) V.ni V.nj V.nk t (w.i, w.j, w.k)) := by
  intro w hw hws k
  rw [vox3_set_map_exact flood dc res hres p0 ps tris V hV hp hne w hw hws]
  simp only [List.mem_map, List.mem_filter]
  constructor
  · rintro ⟨e, ⟨he, hh⟩, rfl⟩
    exact ⟨e.2, mem_enumTris.mp he, (hitB3_iff _ _ _ _ _ _ e _).mp hh⟩
  · rintro ⟨t, ht, hh⟩
    exact ⟨(k, t), ⟨mem_enumTris.mpr ht, (hitB3_iff _ _ _ _ _ _ (k, t) _).mpr hh⟩, rfl⟩

/-- the enumerated index buffer is strictly increasing in the index -/
private theorem enumTris_sorted (tris : List (Nat × Nat × Nat)) : ((enumTris tris).map (·.1)).Pairwise (· < ·) := by
  unfold enumTris
  rw [List.map_map]
  have : ((fun x : Nat × (Nat × Nat × Nat) => x.1) ∘ fun e : (Nat × Nat × Nat) × Nat => (e.2, e.1)) = Prod.snd := rfl
  rw [this, List.zipIdx_map_snd]
  exact List.pairwise_lt_range'

/-- **vox3_set_map_sorted** (same hypotheses): the list of a surface voxel is strictly increasing — no triangle is listed
twice for a voxel. -/
theorem vox3_set_map_sorted (flood dc : Bool) (res : Nat) (hres : 1 ≤ res) (p0 : V3 K) (ps : List (V3 K))
    (tris : List (Nat × Nat × Nat)) (V : Vol3K K) (hV : (voxelize3K flood dc res p0 ps tris).1 = V) (hp : V.panic = false)
    (hne : V.prims.isEmpty = false) :
    ∀ w ∈ (toVoxelSet3K V).1.toList, w.surf = true → (voxelPrims3 (toVoxelSet3K V).2 w).Pairwise (· < ·) := by
  intro w hw hws
  rw [vox3_set_map_exact flood dc res hres p0 ps tris V hV hp hne w hw hws]
  have h := enumTris_sorted tris
  rw [List.pairwise_map] at h ⊢
  exact h.sublist List.filter_sublist

/-- **vox3_set_map_nonempty** (same hypotheses): every surface voxel lists at least one triangle (a cell is only ever
marked `PrimitiveOnSurface` by a triangle that is then recorded for it). -/
theorem vox3_set_map_nonempty (flood dc : Bool) (res : Nat) (hres : 1 ≤ res) (p0 : V3 K) (ps : List (V3 K))
    (tris : List (Nat × Nat × Nat)) (V : Vol3K K) (hV : (voxelize3K flood dc res p0 ps tris).1 = V) (hp : V.panic = false)
    (hne : V.prims.isEmpty = false) :
    ∀ w ∈ (toVoxelSet3K V).1.toList, w.surf = true → voxelPrims3 (toVoxelSet3K V).2 w ≠ [] := by
  intro w hw hws
  obtain ⟨k1, k2, k3, k4, k5, k6, _⟩ := vox3_keep_same_volume flood dc res p0 ps tris
  rw [hV] at k1 k2 k3 k4 k5 k6
  have hp0 : (voxelize3 flood dc res p0 ps tris).1.panic = false := by rw [← k2]; exact hp
  have hsurfiff := vox3_surface_iff flood dc res hres p0 ps tris _ rfl hp0
  rw [← k1, ← k3, ← k4, ← k5, ← k6] at hsurfiff
  -- the cell of `w` is an in-grid surface cell
  have h1 : ((w.i, w.j, w.k), w.surf) ∈ (toVoxelSet3K V).1.toList.map (fun w => ((w.i, w.j, w.k), w.surf)) :=
    List.mem_map.mpr ⟨w, hw, rfl⟩
  rw [toVoxelSet3K_voxels] at h1
  obtain ⟨c, hc, e⟩ := List.mem_filterMap.mp h1
  have hcin := mem_cellsIn3_inB V.ni V.nj V.nk hc
  have hcs : c = (w.i, w.j, w.k) ∧ getC3 V.ni V.nj V.vals c = .surf := by
    unfold classify3K at e
    split_ifs at e with h1 h2
    · simp at e; rw [hws] at e; cases e.2
    · simp at e; exact ⟨e.1, h2⟩
  obtain ⟨t, ht, hh⟩ := (hsurfiff c hcin).mp hcs.2
  obtain ⟨k, hk⟩ := List.getElem?_of_mem ht
  have hmem := (vox3_set_map_mem_iff flood dc res hres p0 ps tris V hV hp hne w hw hws k).mpr ⟨t, hk, by rw [← hcs.1]; exact hh⟩
  intro hnil
  rw [hnil] at hmem
  cases hmem

/-- a hit is an entry of `triPairs3` -/
private theorem triPairs3_of_hit (pts : Array (V3 K)) (O : V3 K) (INV : K) (ni nj nk : Nat) (e : Nat × (Nat × Nat × Nat))
    (q : Nat × Nat × Nat) (h : Hit3 pts O INV ni nj nk e.2 q) :
    (idx3 ni nj q.1 q.2.1 q.2.2, e.1) ∈ triPairs3 pts O INV ni nj nk e := by
  obtain ⟨p0, p1, p2, h0, h1, h2, r1, r2⟩ := h
  unfold triPairs3
  simp only [h0, h1, h2]
  exact List.mem_map.mpr ⟨q, List.mem_filter.mpr ⟨(mem_triCells3 ni nj nk _ _ _ q).mpr r1, r2⟩, rfl⟩

/-- **vox3_map_nonempty_iff** (`resolution ≥ 1`, no panic): `primitive_intersections` is non-empty (the map is built by
`From<VoxelizedVolume>`) iff the volume has a surface cell. -/
theorem vox3_map_nonempty_iff (flood dc : Bool) (res : Nat) (hres : 1 ≤ res) (p0 : V3 K) (ps : List (V3 K))
    (tris : List (Nat × Nat × Nat)) (V : Vol3K K) (hV : (voxelize3K flood dc res p0 ps tris).1 = V) (hp : V.panic = false) :
    V.prims.isEmpty = false ↔ ∃ q, InB3 V.ni V.nj V.nk q ∧ getC3 V.ni V.nj V.vals q = .surf := by
  obtain ⟨m1, m2, m3, m4⟩ := vox3K_master flood dc res p0 ps tris V hV hp
  obtain ⟨k1, k2, k3, k4, k5, k6, _⟩ := vox3_keep_same_volume flood dc res p0 ps tris
  rw [hV] at k1 k2 k3 k4 k5 k6
  have hp0 : (voxelize3 flood dc res p0 ps tris).1.panic = false := by rw [← k2]; exact hp
  have hsurfiff := vox3_surface_iff flood dc res hres p0 ps tris _ rfl hp0
  rw [← k1, ← k3, ← k4, ← k5, ← k6] at hsurfiff
  have hem : V.prims.isEmpty = false ↔ V.prims.toList ≠ [] := by
    rw [← Array.isEmpty_toList]
    cases V.prims.toList <;> simp
  rw [hem]
  constructor
  · intro hne
    obtain ⟨pr, hpr⟩ := List.exists_mem_of_ne_nil _ hne
    rw [m4] at hpr
    obtain ⟨e, he, hpe⟩ := List.mem_flatMap.mp hpr
    obtain ⟨q, hq, hhit, _⟩ := mem_triPairs3 _ _ _ _ _ _ e pr hpe
    exact ⟨q, hq, (hsurfiff q hq).mpr ⟨e.2, List.mem_of_getElem? (mem_enumTris.mp he), hhit⟩⟩
  · rintro ⟨q, hq, hs⟩
    obtain ⟨t, ht, hh⟩ := (hsurfiff q hq).mp hs
    obtain ⟨k, hk⟩ := List.getElem?_of_mem ht
    have : (idx3 V.ni V.nj q.1 q.2.1 q.2.2, k) ∈ V.prims.toList := by
      rw [m4]
      exact List.mem_flatMap.mpr ⟨(k, t), mem_enumTris.mpr hk, triPairs3_of_hit _ _ _ _ _ _ (k, t) q hh⟩
    exact List.ne_nil_of_mem this

/-- **vox3_set_map_ranges** (`keep_voxel_to_primitives_map = true`, no panic, map not empty): `intersections` of the
`VoxelSet` has exactly one slot per entry of `primitive_intersections`; the `intersections_range` of every surface voxel
has the length of the voxel's counter and lies inside `intersections` (the slice
`&self.intersections[range.0..range.1]` of `compute_primitive_intersections` cannot panic); the ranges of the surface
voxels follow each other in voxel order and never overlap. -/
theorem vox3_set_map_ranges (flood dc : Bool) (res : Nat) (p0 : V3 K) (ps : List (V3 K))
    (tris : List (Nat × Nat × Nat)) (V : Vol3K K) (hV : (voxelize3K flood dc res p0 ps tris).1 = V) (hp : V.panic = false)
    (hne : V.prims.isEmpty = false) :
    (toVoxelSet3K V).2.size = V.prims.size ∧
    (∀ w ∈ (toVoxelSet3K V).1.toList, w.surf = true →
      w.r1 = w.r0 + (V.prims.toList.filter (fun pr => pr.1 = idx3 V.ni V.nj w.i w.j w.k)).length ∧ w.r1 ≤ (toVoxelSet3K V).2.size) ∧
    List.Pairwise (fun a b : Voxel3K => a.r1 ≤ b.r0) ((toVoxelSet3K V).1.toList.filter (·.surf)) := by
  obtain ⟨_, m2, m3, _⟩ := vox3K_master flood dc res p0 ps tris V hV hp
  obtain ⟨r1, r2, r3⟩ := toVoxelSet3K_ranges V hne m2 m3
  refine ⟨r1, fun w hw hws => ?_, r3⟩
  obtain ⟨a1, a2⟩ := r2 w hw hws
  rw [m3] at a1
  exact ⟨a1, by rw [r1]; exact a2⟩

end generic3K
end C18
