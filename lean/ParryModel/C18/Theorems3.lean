import ParryModel.C18.LemmasFill
/-!
# C18 theorems, part 3: the fill pass of the voxelizer computes the flood-fill specification

`Model.Vox.fill` is the transliteration of the `match fill_mode { .. }` block of `VoxelizedVolume::voxelize`
(`mark_outside_surface` ×4, `propagate_values` with its `walk_forward/backward` sweeps in memory order, `replace_value`).
These theorems are arithmetic-free (they hold for the grid as an array of `VoxelValue`s).
-/
set_option linter.unusedSectionVars false
set_option linter.unusedVariables false
namespace C18
open Model Model.Vox

/-- **the fuel of every `propagate_values` loop the voxelizer runs suffices** (fuel = number of cells + 1): each sweep
that walks a voxel turns at least one `…ToWalk` cell into its final value, which no walk ever overwrites.  Stated for
the three parameter sets the code uses (outside pass of the plain flood fill; inside and outside passes of
`detect_cavities`). -/
theorem propagate_fuel_suffices (ni nj : Nat) (g : Array VV) (once : Bool) (hs : g.size = ni * nj) :
    (propagate ni nj .outWalk .outside none .surf (ni * nj + 1) g once).2.2 = true ∧
    (propagate ni nj .outWalk .outside none .surfWalk1 (ni * nj + 1) g once).2.2 = true ∧
    (propagate ni nj .inWalk .inside (some .surfWalk1) .surfWalk2 (ni * nj + 1) g once).2.2 = true ∧
    (propagate ni nj .outWalk .outside (some .surfWalk2) .surfWalk1 (ni * nj + 1) g once).2.2 = true := by
  have hf : ∀ w, g.size - cnt w g < ni * nj + 1 := fun w => by rw [hs]; omega
  refine ⟨(propagate_fuel ni nj _ _ _ _ (by decide) (by decide) (by decide) (by decide) _ g once hs (hf _)).1,
    (propagate_fuel ni nj _ _ _ _ (by decide) (by decide) (by decide) (by decide) _ g once hs (hf _)).1,
    (propagate_fuel ni nj _ _ _ _ (by decide) (by decide) (by decide) (by decide) _ g once hs (hf _)).1,
    (propagate_fuel ni nj _ _ _ _ (by decide) (by decide) (by decide) (by decide) _ g once hs (hf _)).1⟩

/-- **fill_fuel_suffices**: every loop of the fill pass — the `propagate_values` sweeps and, with `detect_cavities`, the
inside/outside alternation (each completed round turns at least two cells into a final value) — stays within the fuel the
model gives it (number of cells + 1), in every `FillMode`, for every grid of the right size. -/
theorem fill_fuel_suffices (cfg : Cfg) (ni nj : Nat) (g : Array VV) (hs : g.size = ni * nj) :
    (fill cfg ni nj g).2 = true := fill_fuel_all cfg ni nj g hs

/-- a grid on which the hypotheses of `propagate_fuel_suffices` / `fill_spec` hold: a 3×3 grid with a surface ring -/
example : (#[VV.surf, .surf, .surf, .surf, .undef, .surf, .surf, .surf, .surf] : Array VV).size = 3 * 3 := rfl

/-- **fill_spec** (`FillMode::FloodFill { detect_cavities: false, .. }`).  Let `g0` be the grid after the marking phase
(every cell `PrimitiveUndefined` or `PrimitiveOnSurface`), `ni, nj ≥ 1`.  Then the fill pass as coded terminates within
its fuel and, for every cell `p` of the grid,
* `p` is `PrimitiveOnSurface` after the fill iff it was before (surface cells are untouched),
* `p` is `PrimitiveOutsideSurface` iff `Reach p`: `p` is a non-surface cell connected to a non-surface cell of the
  grid border through non-surface cells (4-connectivity) — the BFS/flood-fill specification,
* `p` is `PrimitiveInsideSurface` iff it is a non-surface cell that is **not** so connected (exactly the enclosed cells),
and no other value remains. -/
theorem fill_spec (cfg : Cfg) (hflood : cfg.flood = true) (hcav : cfg.detectCavities = false)
    (ni nj : Nat) (hi : 1 ≤ ni) (hj : 1 ≤ nj) (g0 : Array VV) (hs : g0.size = ni * nj)
    (hvals : ∀ p, InB ni nj p → getC ni g0 p = .undef ∨ getC ni g0 p = .surf) :
    (fill cfg ni nj g0).2 = true ∧ (fill cfg ni nj g0).1.size = ni * nj ∧
    ∀ p, InB ni nj p →
      (getC ni (fill cfg ni nj g0).1 p = .surf ↔ getC ni g0 p = .surf) ∧
      (getC ni (fill cfg ni nj g0).1 p = .outside ↔ Reach ni nj (fun q => getC ni g0 q = .surf) p) ∧
      (getC ni (fill cfg ni nj g0).1 p = .inside ↔
        (getC ni g0 p ≠ .surf ∧ ¬ Reach ni nj (fun q => getC ni g0 q = .surf) p)) ∧
      (getC ni (fill cfg ni nj g0).1 p = .surf ∨ getC ni (fill cfg ni nj g0).1 p = .outside ∨
        getC ni (fill cfg ni nj g0).1 p = .inside) := by
  set S : Nat × Nat → Prop := fun q => getC ni g0 q = .surf with hS
  obtain ⟨m1, m2⟩ := markBorder_get ni nj g0 hs hi hj
  -- the invariant holds after `mark_outside_surface`
  have inv0 : FInv ni nj S (markBorder ni nj g0) := by
    refine ⟨m1, ?_, ?_, ?_, ?_⟩
    · intro p hp; rw [m2 p hp]; split_ifs with h
      · right; left; rfl
      · rcases hvals p hp with v | v
        · left; exact v
        · right; right; right; exact v
    · intro p hp; rw [m2 p hp]; split_ifs with h
      · constructor
        · intro x; cases x
        · intro x; rw [hS] at x; rw [h.2] at x; cases x
      · rfl
    · intro p hp; rw [m2 p hp]; split_ifs with h
      · intro _
        exact Reach.border hp h.1 (by rw [hS]; intro x; rw [h.2] at x; cases x)
      · intro hv
        rcases hvals p hp with v | v <;> rw [v] at hv <;> rcases hv with x | x <;> cases x
    · intro p hp hb; rw [m2 p hp]; split_ifs with h
      · intro x; cases x
      · intro x; exact h ⟨hb, x⟩
  have cl0 : Closed ni nj (markBorder ni nj g0) := by
    intro p q hp _ _ hv
    rw [m2 p hp] at hv
    split_ifs at hv with h
    rcases hvals p hp with v | v <;> rw [v] at hv <;> cases hv
  have hfuel := (propagate_fuel ni nj .outWalk .outside none .surf (by decide) (by decide) (by decide) (by decide)
    (ni * nj + 1) (markBorder ni nj g0) false m1 (by rw [m1]; omega))
  obtain ⟨f1, f2, f3⟩ := propagate_inv ni nj S (ni * nj + 1) (markBorder ni nj g0) false inv0 cl0 hfuel.1
  have hfill : fill cfg ni nj g0 =
      (replaceValue (propagate ni nj .outWalk .outside none .surf (ni * nj + 1) (markBorder ni nj g0) false).1 .undef .inside,
       (propagate ni nj .outWalk .outside none .surf (ni * nj + 1) (markBorder ni nj g0) false).2.2) := by
    unfold fill; simp [hflood, hcav]
  rw [hfill]
  set gp := (propagate ni nj .outWalk .outside none .surf (ni * nj + 1) (markBorder ni nj g0) false).1 with hgp
  refine ⟨hfuel.1, by simp [replaceValue, f1.size], fun p hp => ?_⟩
  have hval : getC ni (replaceValue gp .undef .inside) p = if getC ni gp p = .undef then .inside else getC ni gp p := by
    unfold replaceValue; rw [getC_map ni nj gp _ f1.size p hp]
  have hspec := fixpoint_spec ni nj S f1 f2 f3 p hp
  have hsurf := f1.surf p hp
  rcases f1.vals p hp with v | v | v | v
  · -- undef → inside: not reachable, not surface
    have hfin : getC ni (replaceValue gp .undef .inside) p = .inside := by rw [hval, if_pos v]
    rw [v] at hspec hsurf
    have nr : ¬ Reach ni nj S p := fun r => by have := hspec.mpr r; cases this
    have ns : ¬ getC ni g0 p = .surf := fun s => by have := hsurf.mpr s; cases this
    rw [hfin]
    exact ⟨⟨fun x => (by cases x), fun x => absurd x ns⟩, ⟨fun x => (by cases x), fun r => absurd r nr⟩,
      ⟨fun _ => ⟨ns, nr⟩, fun _ => rfl⟩, Or.inr (Or.inr rfl)⟩
  · exact absurd v (f3 p hp)
  · have hfin : getC ni (replaceValue gp .undef .inside) p = .outside := by
      rw [hval, if_neg (by rw [v]; intro x; cases x), v]
    rw [v] at hspec hsurf
    have r : Reach ni nj S p := hspec.mp rfl
    have ns : ¬ getC ni g0 p = .surf := fun s => by have := hsurf.mpr s; cases this
    rw [hfin]
    exact ⟨⟨fun x => (by cases x), fun x => absurd x ns⟩, ⟨fun _ => r, fun _ => rfl⟩,
      ⟨fun x => (by cases x), fun x => absurd r x.2⟩, Or.inr (Or.inl rfl)⟩
  · have hfin : getC ni (replaceValue gp .undef .inside) p = .surf := by
      rw [hval, if_neg (by rw [v]; intro x; cases x), v]
    rw [v] at hspec hsurf
    have s : getC ni g0 p = .surf := hsurf.mp rfl
    have nr : ¬ Reach ni nj S p := fun r => by have := hspec.mpr r; cases this
    rw [hfin]
    exact ⟨⟨fun _ => s, fun _ => rfl⟩, ⟨fun x => (by cases x), fun r => absurd r nr⟩,
      ⟨fun x => (by cases x), fun x => absurd s x.1⟩, Or.inl rfl⟩

/-- non-vacuity of `fill_spec`: on the 3×3 grid with a surface ring the centre cell is not `Reach`-able (it ends up
`inside`), and on an open ring (one border cell free) it is. -/
example : ¬ Reach 3 3 (fun q => getC 3 (#[VV.surf, .surf, .surf, .surf, .undef, .surf, .surf, .surf, .surf] : Array VV) q = .surf) (1, 1) := by
  intro h
  generalize hp : ((1, 1) : Nat × Nat) = p at h
  induction h with
  | border hb hbd _ =>
    subst hp; simp [OnBorder] at hbd
  | step hr hadj hq hs ih =>
    rename_i a b
    subst hp
    -- the predecessor `a` is a neighbour of the centre, hence a surface cell: it cannot be reached
    obtain ⟨a1, a2⟩ := a
    have ha : (a1 = 1 ∧ a2 = 0) ∨ (a1 = 1 ∧ a2 = 2) ∨ (a1 = 0 ∧ a2 = 1) ∨ (a1 = 2 ∧ a2 = 1) := by
      simp only [Adj] at hadj; omega
    have hsurf : getC 3 (#[VV.surf, .surf, .surf, .surf, .undef, .surf, .surf, .surf, .surf] : Array VV) (a1, a2) = .surf := by
      rcases ha with ⟨rfl, rfl⟩ | ⟨rfl, rfl⟩ | ⟨rfl, rfl⟩ | ⟨rfl, rfl⟩ <;> rfl
    cases hr with
    | border _ _ x => exact x hsurf
    | step _ _ _ x => exact x hsurf

set_option linter.unusedSimpArgs false in
/-- the model evaluated on the closed ring: the centre cell is filled (`inside`) -/
example : (fill ⟨true, false, false, false⟩ 3 3 #[VV.surf, .surf, .surf, .surf, .undef, .surf, .surf, .surf, .surf]).1.toList
    = [VV.surf, .surf, .surf, .surf, .inside, .surf, .surf, .surf, .surf] := by
  simp [fill, markBorder, markOutside, cellsIn, propagate, sweep, propCell, walks, walkLists, walkCells, idx, replaceValue,
    walkDistance, List.range'_succ, List.range_succ]

set_option linter.unusedSimpArgs false in
/-- the model evaluated on the ring with one border cell open: the walk from the open border cell reaches the centre -/
example : (fill ⟨true, false, false, false⟩ 3 3 #[VV.surf, .undef, .surf, .surf, .undef, .surf, .surf, .surf, .surf]).1.toList
    = [VV.surf, .outside, .surf, .surf, .outside, .surf, .surf, .surf, .surf] := by
  simp [fill, markBorder, markOutside, cellsIn, propagate, sweep, propCell, walks, walkLists, walkCells, idx, replaceValue,
    walkDistance, List.range'_succ, List.range_succ]

end C18
