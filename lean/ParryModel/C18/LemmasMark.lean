import ParryModel.C18.LemmasFill
/-!
# C18 lemmas for the 2-D voxelizer model, part 3: the marking phase (`detect_self_intersections = false`)
These lemmas are instance-generic (any `Num K`, any `Cast K`): the cell/segment test is used as a black box.
-/
set_option linter.unusedSectionVars false
set_option linter.unusedVariables false
set_option linter.unusedSimpArgs false
namespace C18
open Model Model.Vox

section
variable {K : Type} [Num K] [Cast K]

/-- the cell/segment test of the marking phase for cell `c` and the grid-space segment `g0 g1` -/
def cellHit (g0 g1 : V2 K) (c : Nat × Nat) : Bool :=
  testAabbSegment (cellAabb (K := K) c.1 c.2).1 (cellAabb (K := K) c.1 c.2).2 g0 g1

/-- the state after a positive test on cell `c` for primitive `k` -/
def markHit (keep : Bool) (st : Vol K) (c : Nat × Nat) (k : Nat) : Vol K :=
  { (if keep then { st with numInter := st.numInter.setIfInBounds (idx st.ni c.1 c.2) (st.numInter.getD (idx st.ni c.1 c.2) 0 + 1),
                            prims := st.prims.push (idx st.ni c.1 c.2, k) } else st)
    with vals := setC st.ni st.vals c .surf }

/-- the marking step for one cell, `detect_self_intersections = false` -/
theorem markCell_eq (cfg : Cfg) (hsi : cfg.detectSelfInter = false) (g0 g1 : V2 K) (k : Nat) (st : Vol K) (c : Nat × Nat) :
    markCell cfg g0 g1 k st c =
      if (cfg.keepMap = true ∨ getC st.ni st.vals c = .undef) ∧ cellHit g0 g1 c = true then markHit cfg.keepMap st c k
      else st := by
  unfold markCell cellHit getC markHit setC
  simp only [hsi, Bool.false_or, Bool.not_false, if_true]
  by_cases hk : cfg.keepMap = true
  · simp [hk]
  · have hk' : cfg.keepMap = false := by simpa using hk
    simp [hk']
    split_ifs <;> simp_all

/-- state invariant of the marking phase (`detect_self_intersections = false`) -/
structure MGood (st : Vol K) : Prop where
  size : st.vals.size = st.ni * st.nj
  vals : ∀ q, InB st.ni st.nj q → getC st.ni st.vals q = .undef ∨ getC st.ni st.vals q = .surf

/-- the `for i.. for j..` loop of the marking phase over the cells `l` of one segment -/
theorem markCells_spec (cfg : Cfg) (hsi : cfg.detectSelfInter = false) (g0 g1 : V2 K) (k : Nat) :
    ∀ (l : List (Nat × Nat)) (st : Vol K), MGood st → (∀ c ∈ l, InB st.ni st.nj c) →
    (l.foldl (markCell cfg g0 g1 k) st).ni = st.ni ∧ (l.foldl (markCell cfg g0 g1 k) st).nj = st.nj ∧
    (l.foldl (markCell cfg g0 g1 k) st).origin = st.origin ∧ (l.foldl (markCell cfg g0 g1 k) st).scale = st.scale ∧
    (l.foldl (markCell cfg g0 g1 k) st).panic = st.panic ∧ MGood (l.foldl (markCell cfg g0 g1 k) st) ∧
    (∀ q, InB st.ni st.nj q → (getC st.ni (l.foldl (markCell cfg g0 g1 k) st).vals q = .surf ↔
        getC st.ni st.vals q = .surf ∨ (q ∈ l ∧ cellHit g0 g1 q = true))) ∧
    (l.foldl (markCell cfg g0 g1 k) st).prims.toList = st.prims.toList ++
        (if cfg.keepMap then (l.filter (fun c => cellHit g0 g1 c)).map (fun c => (idx st.ni c.1 c.2, k)) else [])
  | [], st, hg, _ => ⟨rfl, rfl, rfl, rfl, rfl, hg, fun q _ => by simp, by simp⟩
  | c :: l, st, hg, hl => by
    rw [List.foldl_cons]
    have hc := hl c List.mem_cons_self
    have hl' : ∀ x ∈ l, InB st.ni st.nj x := fun x hx => hl x (List.mem_cons_of_mem _ hx)
    rw [markCell_eq cfg hsi]
    by_cases hcond : (cfg.keepMap = true ∨ getC st.ni st.vals c = .undef) ∧ cellHit g0 g1 c = true
    · rw [if_pos hcond]
      set st1 : Vol K := markHit cfg.keepMap st c k with hst1
      have e_ni : st1.ni = st.ni := by rw [hst1]; unfold markHit; split_ifs <;> rfl
      have e_nj : st1.nj = st.nj := by rw [hst1]; unfold markHit; split_ifs <;> rfl
      have e_or : st1.origin = st.origin := by rw [hst1]; unfold markHit; split_ifs <;> rfl
      have e_sc : st1.scale = st.scale := by rw [hst1]; unfold markHit; split_ifs <;> rfl
      have e_pa : st1.panic = st.panic := by rw [hst1]; unfold markHit; split_ifs <;> rfl
      have e_va : st1.vals = setC st.ni st.vals c .surf := rfl
      have e_pr : st1.prims.toList = st.prims.toList ++ (if cfg.keepMap then [(idx st.ni c.1 c.2, k)] else []) := by
        rw [hst1]; unfold markHit; split_ifs <;> simp
      have hget : ∀ q, InB st.ni st.nj q → getC st.ni st1.vals q = if c = q then .surf else getC st.ni st.vals q :=
        fun q hq => by rw [e_va]; exact getC_setC hg.size .surf hc hq.1
      have hg1 : MGood st1 := by
        refine ⟨by rw [e_ni, e_nj, e_va, size_setC]; exact hg.size, ?_⟩
        intro q hq
        rw [e_ni, e_nj] at hq
        rw [e_ni, hget q hq]
        split_ifs
        · right; rfl
        · exact hg.vals q hq
      obtain ⟨i1, i2, i3, i4, i5, i6, i7, i8⟩ := markCells_spec cfg hsi g0 g1 k l st1 hg1 (by rw [e_ni, e_nj]; exact hl')
      refine ⟨by rw [i1, e_ni], by rw [i2, e_nj], by rw [i3, e_or], by rw [i4, e_sc], by rw [i5, e_pa], i6, ?_, ?_⟩
      · intro q hq
        have := i7 q (by rw [e_ni, e_nj]; exact hq)
        rw [e_ni] at this
        rw [this, hget q hq]
        by_cases e : c = q
        · subst e; simp [hcond.2]
        · have e' : ¬ q = c := fun x => e x.symm
          simp [e, e']
      · rw [i8, e_pr, e_ni]
        by_cases hk : cfg.keepMap = true
        · simp [hk, List.filter_cons, hcond.2]
        · simp [hk]
    · rw [if_neg hcond]
      obtain ⟨i1, i2, i3, i4, i5, i6, i7, i8⟩ := markCells_spec cfg hsi g0 g1 k l st hg hl'
      refine ⟨i1, i2, i3, i4, i5, i6, ?_, ?_⟩
      · intro q hq
        rw [i7 q hq]
        by_cases e : q = c
        · subst e
          by_cases ht : cellHit g0 g1 q = true
          · have hv : getC st.ni st.vals q = .surf := by
              rcases hg.vals q hq with v | v
              · exact absurd ⟨Or.inr v, ht⟩ hcond
              · exact v
            simp [hv]
          · simp [ht]
        · simp [e]
      · rw [i8]
        by_cases hk : cfg.keepMap = true
        · have ht : ¬ cellHit g0 g1 c = true := fun ht => hcond ⟨Or.inl hk, ht⟩
          simp [hk, List.filter_cons, ht]
        · simp [hk]

/-- the candidate cells of a segment: `for i in ijk0.x..ijk1.x { for j in ijk0.y..ijk1.y` -/
def segCells (ni nj : Nat) (g0 g1 : V2 K) : List (Nat × Nat) :=
  cellsIn (segRange ni nj (cellOf g0) (cellOf g1)).1.1 (segRange ni nj (cellOf g0) (cellOf g1)).1.2
    (segRange ni nj (cellOf g0) (cellOf g1)).2.1 (segRange ni nj (cellOf g0) (cellOf g1)).2.2

/-- the two `assert!(i < resolution[0] && j < resolution[1])` -/
def AssertOk (ni nj : Nat) (g0 g1 : V2 K) : Prop :=
  (cellOf g0).1 < ni ∧ (cellOf g0).2 < nj ∧ (cellOf g1).1 < ni ∧ (cellOf g1).2 < nj

theorem segCells_inB (ni nj : Nat) (g0 g1 : V2 K) : ∀ c ∈ segCells ni nj g0 g1, InB ni nj c := by
  intro c hc
  have := mem_cellsIn.mp hc
  simp only [segRange] at this
  exact ⟨by omega, by omega⟩

/-- one iteration of the loop over the primitives, `detect_self_intersections = false` -/
theorem markSeg_spec (cfg : Cfg) (hsi : cfg.detectSelfInter = false) (invScale : K) (pts : Array (V2 K))
    (st : Vol K) (hg : MGood st) (hp : st.panic = false) (k : Nat) (e : Nat × Nat) :
    (markSeg cfg invScale pts st (k, e)).ni = st.ni ∧ (markSeg cfg invScale pts st (k, e)).nj = st.nj ∧
    (markSeg cfg invScale pts st (k, e)).origin = st.origin ∧ (markSeg cfg invScale pts st (k, e)).scale = st.scale ∧
    ((markSeg cfg invScale pts st (k, e)).panic = false →
      ∃ a b, pts[e.1]? = some a ∧ pts[e.2]? = some b ∧
        AssertOk st.ni st.nj (gridPt st.origin invScale a) (gridPt st.origin invScale b) ∧
        MGood (markSeg cfg invScale pts st (k, e)) ∧
        (∀ q, InB st.ni st.nj q → (getC st.ni (markSeg cfg invScale pts st (k, e)).vals q = .surf ↔
          getC st.ni st.vals q = .surf ∨
            (q ∈ segCells st.ni st.nj (gridPt st.origin invScale a) (gridPt st.origin invScale b) ∧
             cellHit (gridPt st.origin invScale a) (gridPt st.origin invScale b) q = true))) ∧
        (markSeg cfg invScale pts st (k, e)).prims.toList = st.prims.toList ++
          (if cfg.keepMap then
            ((segCells st.ni st.nj (gridPt st.origin invScale a) (gridPt st.origin invScale b)).filter
              (fun c => cellHit (gridPt st.origin invScale a) (gridPt st.origin invScale b) c)).map
              (fun c => (idx st.ni c.1 c.2, k)) else [])) := by
  unfold markSeg
  simp only [hp, Bool.false_eq_true, if_false]
  cases ha : pts[e.1]? with
  | none => simp
  | some a =>
    cases hb : pts[e.2]? with
    | none => simp
    | some b =>
      simp only []
      by_cases hok : (cellOf (gridPt st.origin invScale a)).1 < st.ni ∧ (cellOf (gridPt st.origin invScale a)).2 < st.nj ∧
          (cellOf (gridPt st.origin invScale b)).1 < st.ni ∧ (cellOf (gridPt st.origin invScale b)).2 < st.nj
      · rw [if_neg (not_not.mpr hok)]
        obtain ⟨i1, i2, i3, i4, i5, i6, i7, i8⟩ := markCells_spec cfg hsi (gridPt st.origin invScale a) (gridPt st.origin invScale b) k
          (segCells st.ni st.nj (gridPt st.origin invScale a) (gridPt st.origin invScale b)) st hg (segCells_inB _ _ _ _)
        refine ⟨i1, i2, i3, i4, fun _ => ⟨a, b, rfl, rfl, hok, i6, i7, i8⟩⟩
      · rw [if_pos hok]
        simp

/-- primitive `ek = (edge, index)` marks cell `q`: its end points exist, `q` is in its candidate range and the test holds -/
def EdgeHits (pts : Array (V2 K)) (origin : V2 K) (invScale : K) (ni nj : Nat) (ek : (Nat × Nat) × Nat) (q : Nat × Nat) : Prop :=
  ∃ a b, pts[ek.1.1]? = some a ∧ pts[ek.1.2]? = some b ∧
    q ∈ segCells ni nj (gridPt origin invScale a) (gridPt origin invScale b) ∧
    cellHit (gridPt origin invScale a) (gridPt origin invScale b) q = true

/-- primitive `ek` passed the index lookup and the two `assert!`s -/
def EdgeOk (pts : Array (V2 K)) (origin : V2 K) (invScale : K) (ni nj : Nat) (ek : (Nat × Nat) × Nat) : Prop :=
  ∃ a b, pts[ek.1.1]? = some a ∧ pts[ek.1.2]? = some b ∧ AssertOk ni nj (gridPt origin invScale a) (gridPt origin invScale b)

/-- the entries primitive `ek` appends to `primitive_intersections` -/
def primsOf (keep : Bool) (pts : Array (V2 K)) (origin : V2 K) (invScale : K) (ni nj : Nat) (ek : (Nat × Nat) × Nat) : List (Nat × Nat) :=
  match pts[ek.1.1]?, pts[ek.1.2]? with
  | some a, some b =>
    if keep then ((segCells ni nj (gridPt origin invScale a) (gridPt origin invScale b)).filter
      (fun c => cellHit (gridPt origin invScale a) (gridPt origin invScale b) c)).map (fun c => (idx ni c.1 c.2, ek.2)) else []
  | _, _ => []

theorem markSeg_panic (cfg : Cfg) (invScale : K) (pts : Array (V2 K)) (st : Vol K) (hp : st.panic = true) (x : Nat × (Nat × Nat)) :
    markSeg cfg invScale pts st x = st := by
  unfold markSeg; simp [hp]

theorem foldl_panic (cfg : Cfg) (invScale : K) (pts : Array (V2 K)) : ∀ (es : List ((Nat × Nat) × Nat)) (st : Vol K),
    st.panic = true → (es.foldl (fun st e => markSeg cfg invScale pts st (e.2, e.1)) st) = st
  | [], _, _ => rfl
  | e :: es, st, hp => by
    rw [List.foldl_cons, markSeg_panic cfg invScale pts st hp]
    exact foldl_panic cfg invScale pts es st hp

/-- the whole loop over the primitives, `detect_self_intersections = false` -/
theorem markEdges_spec (cfg : Cfg) (hsi : cfg.detectSelfInter = false) (invScale : K) (pts : Array (V2 K)) :
    ∀ (es : List ((Nat × Nat) × Nat)) (st : Vol K), MGood st →
    (es.foldl (fun st e => markSeg cfg invScale pts st (e.2, e.1)) st).ni = st.ni ∧
    (es.foldl (fun st e => markSeg cfg invScale pts st (e.2, e.1)) st).nj = st.nj ∧
    (es.foldl (fun st e => markSeg cfg invScale pts st (e.2, e.1)) st).origin = st.origin ∧
    (es.foldl (fun st e => markSeg cfg invScale pts st (e.2, e.1)) st).scale = st.scale ∧
    ((es.foldl (fun st e => markSeg cfg invScale pts st (e.2, e.1)) st).panic = false →
      st.panic = false ∧ MGood (es.foldl (fun st e => markSeg cfg invScale pts st (e.2, e.1)) st) ∧
      (∀ ek ∈ es, EdgeOk pts st.origin invScale st.ni st.nj ek) ∧
      (∀ q, InB st.ni st.nj q →
        (getC st.ni (es.foldl (fun st e => markSeg cfg invScale pts st (e.2, e.1)) st).vals q = .surf ↔
          getC st.ni st.vals q = .surf ∨ ∃ ek ∈ es, EdgeHits pts st.origin invScale st.ni st.nj ek q)) ∧
      (es.foldl (fun st e => markSeg cfg invScale pts st (e.2, e.1)) st).prims.toList =
        st.prims.toList ++ es.flatMap (primsOf cfg.keepMap pts st.origin invScale st.ni st.nj))
  | [], st, hg => ⟨rfl, rfl, rfl, rfl, fun hp => ⟨hp, hg, fun _ h => (by cases h), fun q _ => (by simp), (by simp)⟩⟩
  | e :: es, st, hg => by
    rw [List.foldl_cons]
    by_cases hp : st.panic = true
    · rw [markSeg_panic cfg invScale pts st hp, foldl_panic cfg invScale pts es st hp]
      exact ⟨rfl, rfl, rfl, rfl, fun h => by rw [hp] at h; cases h⟩
    · have hp' : st.panic = false := by simpa using hp
      obtain ⟨s1, s2, s3, s4, s5⟩ := markSeg_spec cfg hsi invScale pts st hg hp' e.2 e.1
      set st1 := markSeg cfg invScale pts st (e.2, e.1) with hst1
      by_cases hp1 : st1.panic = true
      · rw [foldl_panic cfg invScale pts es st1 hp1]
        exact ⟨s1, s2, s3, s4, fun h => by rw [hp1] at h; cases h⟩
      · have hp1' : st1.panic = false := by simpa using hp1
        obtain ⟨a, b, ha, hb, hok, hg1, hv1, hpr1⟩ := s5 hp1'
        obtain ⟨i1, i2, i3, i4, i5⟩ := markEdges_spec cfg hsi invScale pts es st1 hg1
        refine ⟨by rw [i1, s1], by rw [i2, s2], by rw [i3, s3], by rw [i4, s4], fun hfin => ?_⟩
        obtain ⟨_, j2, j3, j4, j5⟩ := i5 hfin
        rw [s1, s2, s3] at j3 j4 j5
        refine ⟨hp', j2, ?_, ?_, ?_⟩
        · intro ek hek
          rcases List.mem_cons.mp hek with rfl | hek
          · exact ⟨a, b, ha, hb, hok⟩
          · exact j3 ek hek
        · intro q hq
          rw [j4 q hq, hv1 q hq]
          constructor
          · rintro ((h | h) | ⟨ek, hek, h⟩)
            · exact Or.inl h
            · exact Or.inr ⟨e, List.mem_cons_self, a, b, ha, hb, h.1, h.2⟩
            · exact Or.inr ⟨ek, List.mem_cons_of_mem _ hek, h⟩
          · rintro (h | ⟨ek, hek, h⟩)
            · exact Or.inl (Or.inl h)
            · rcases List.mem_cons.mp hek with rfl | hek
              · obtain ⟨a', b', ha', hb', h1, h2⟩ := h
                rw [ha] at ha'; rw [hb] at hb'
                cases ha'; cases hb'
                exact Or.inl (Or.inr ⟨h1, h2⟩)
              · exact Or.inr ⟨ek, hek, h⟩
        · rw [j5, hpr1, List.flatMap_cons, List.append_assoc]
          congr 2
          unfold primsOf
          rw [ha, hb]

theorem allocate_good (origin : V2 K) (scale : K) (ni nj : Nat) : MGood (allocate origin scale ni nj) := by
  refine ⟨by simp [allocate], fun q _ => Or.inl ?_⟩
  simp only [allocate, getC, Array.getD_eq_getD_getElem?, Array.getElem?_replicate]
  split_ifs <;> rfl

/-- the marking loop started from the freshly allocated volume -/
def markFrom (cfg : Cfg) (pts : Array (V2 K)) (edges : List (Nat × Nat)) (O : V2 K) (S INV : K) (NI NJ : Nat) : Vol K :=
  edges.zipIdx.foldl (fun st e => markSeg cfg INV pts st (e.2, e.1)) (allocate O S NI NJ)

theorem markAll_eq (cfg : Cfg) (res : Nat) (p0 : V2 K) (ps : List (V2 K)) (edges : List (Nat × Nat)) :
    markAll cfg res (p0 :: ps) edges = markFrom cfg (p0 :: ps).toArray edges (cloudAabb p0 ps).1
      (gridParams res (cloudAabb p0 ps).1 (cloudAabb p0 ps).2).2.2.1 (gridParams res (cloudAabb p0 ps).1 (cloudAabb p0 ps).2).2.2.2
      (gridParams res (cloudAabb p0 ps).1 (cloudAabb p0 ps).2).1 (gridParams res (cloudAabb p0 ps).1 (cloudAabb p0 ps).2).2.1 := rfl

/-- **the marking phase** (`detect_self_intersections = false`): grid parameters, and — unless a panic site was hit —
every primitive passed the index lookup and the `assert!`s, a cell is `PrimitiveOnSurface` iff some primitive has it in
its candidate range with a positive test, and `primitive_intersections` is the concatenation, in primitive order, of the
positively tested candidate cells of each primitive (when the map is kept). -/
theorem markFrom_spec (cfg : Cfg) (hsi : cfg.detectSelfInter = false) (pts : Array (V2 K)) (edges : List (Nat × Nat))
    (O : V2 K) (S INV : K) (NI NJ : Nat) :
    (markFrom cfg pts edges O S INV NI NJ).ni = NI ∧ (markFrom cfg pts edges O S INV NI NJ).nj = NJ ∧
    (markFrom cfg pts edges O S INV NI NJ).origin = O ∧ (markFrom cfg pts edges O S INV NI NJ).scale = S ∧
    ((markFrom cfg pts edges O S INV NI NJ).panic = false →
      MGood (markFrom cfg pts edges O S INV NI NJ) ∧
      (∀ ek ∈ edges.zipIdx, EdgeOk pts O INV NI NJ ek) ∧
      (∀ q, InB NI NJ q → (getC NI (markFrom cfg pts edges O S INV NI NJ).vals q = .surf ↔
          ∃ ek ∈ edges.zipIdx, EdgeHits pts O INV NI NJ ek q)) ∧
      (markFrom cfg pts edges O S INV NI NJ).prims.toList = edges.zipIdx.flatMap (primsOf cfg.keepMap pts O INV NI NJ)) := by
  unfold markFrom
  obtain ⟨i1, i2, i3, i4, i5⟩ := markEdges_spec cfg hsi INV pts edges.zipIdx _ (allocate_good O S NI NJ)
  refine ⟨i1, i2, i3, i4, fun hp => ?_⟩
  obtain ⟨_, j2, j3, j4, j5⟩ := i5 hp
  refine ⟨j2, j3, ?_, ?_⟩
  · intro q hq
    refine Iff.trans (j4 q hq) ?_
    have hu : getC NI (allocate O S NI NJ).vals q ≠ .surf := by
      intro v
      simp only [allocate, getC, Array.getD_eq_getD_getElem?, Array.getElem?_replicate] at v
      split_ifs at v <;> cases v
    constructor
    · rintro (h | h)
      · exact absurd h hu
      · exact h
    · exact Or.inr
  · refine Eq.trans j5 ?_
    simp [allocate]
end
end C18
