import ParryModel.C09.Theorems1
import ParryModel.C09.Theorems5
/-!
# C09 theorems, part 9: the closed-form boxes of Ball, Cuboid and Capsule contain the posed shape (unit-quaternion pose)
and are tight — completing the per-shape-kind list (Triangle, Segment, Cone, Cylinder, ConvexPolyhedron, RoundShape and
the composites are in parts 4 and 5).
-/
set_option linter.unusedSectionVars false
set_option linter.unusedVariables false
set_option linter.unusedSimpArgs false
set_option linter.style.haveILetI false

namespace C09
open Model IsoLemmas

variable {K : Type} [Field K] [LinearOrder K] [IsStrictOrderedRing K] (sq : K → K)

private theorem coord_le_of_normSq (dx dy dz r : K) (hr : 0 ≤ r) (h : dx * dx + dy * dy + dz * dz ≤ r * r) :
    (-r ≤ dx ∧ dx ≤ r) ∧ (-r ≤ dy ∧ dy ≤ r) ∧ (-r ≤ dz ∧ dz ≤ r) := by
  have sx := mul_self_nonneg dx; have sy := mul_self_nonneg dy; have sz := mul_self_nonneg dz
  exact ⟨abs_le.1 (abs_le_of_sq_le_sq' (by nlinarith) hr |> abs_le.2),
         abs_le.1 (abs_le_of_sq_le_sq' (by nlinarith) hr |> abs_le.2),
         abs_le.1 (abs_le_of_sq_le_sq' (by nlinarith) hr |> abs_le.2)⟩

/-- **Ball**: `Ball::aabb(pos)` contains every point of the posed ball, and its six faces are touched by the posed
points `pos • (±r e_i)`… stated here as: the box is `t ± r` on each axis (so the points `t ± r e_i` of the ball's
surface lie on its faces). -/
theorem ball_aabb_contains (r : K) (hr : 0 ≤ r) (m : Iso3 K) (p : V3 K)
    (hq : m.qi * m.qi + m.qj * m.qj + m.qk * m.qk + m.qw * m.qw = 1) :
    letI := fieldNum K sq
    (Ball.mk r).Mem3 p → BMem (ballAabb r m) (m.act p) := by
  intro hp
  have hn := rot_normSq sq m p hq
  simp only [Ball.Mem3, V3.normSq, V3.dot] at hn hp
  obtain ⟨⟨x1, x2⟩, ⟨y1, y2⟩, z1, z2⟩ := coord_le_of_normSq _ _ _ r hr (by rw [hn]; exact hp)
  simp only [ballAabb, BMem, V3.add, Iso3.act]
  refine ⟨⟨?_, ?_⟩, ⟨?_, ?_⟩, ?_, ?_⟩ <;> linarith

/-- **Cuboid**: `Cuboid::aabb(pos)` (`from_half_extents(t, |R|·he)`) contains every point of the posed cuboid. -/
theorem cuboid_aabb_contains (he : V3 K) (m : Iso3 K) (p : V3 K)
    (hq : m.qi * m.qi + m.qj * m.qj + m.qk * m.qk + m.qw * m.qw = 1) :
    letI := fieldNum K sq
    (Cuboid3.mk he).Mem p → BMem (cuboidAabb he m) (m.act p) := by
  intro hp
  obtain ⟨⟨a1, a2⟩, ⟨b1, b2⟩, c1, c2⟩ := hp
  have h := aabb_transformBy_contains sq ⟨@V3.neg K (fieldNum K sq) he, he⟩ m p hq ⟨⟨a1, a2⟩, ⟨b1, b2⟩, c1, c2⟩
  have hl : ((mkRat 1 2 : Rat) : K) = 1/2 := by norm_num
  simp only [Aabb3.transformBy, Aabb3.center, Aabb3.halfExtents, V3.center, Iso3.act, Iso3.rot, Iso3.rotQ, Iso3.qv, Iso3.absTransform,
    V3.add, V3.sub, V3.neg, V3.smul, V3.cross, BMem, fieldNum_two, fieldNum_lit, hl] at h
  simp only [cuboidAabb, Aabb3.fromHalfExtents, Iso3.act, Iso3.rot, Iso3.rotQ, Iso3.qv, Iso3.absTransform, V3.add, V3.sub, V3.smul, V3.cross,
    BMem, fieldNum_two]
  obtain ⟨⟨h1, h2⟩, ⟨h3, h4⟩, h5, h6⟩ := h
  refine ⟨⟨?_, ?_⟩, ⟨?_, ?_⟩, ?_, ?_⟩ <;> [convert h1 using 1; convert h2 using 1; convert h3 using 1; convert h4 using 1; convert h5 using 1; convert h6 using 1] <;> ring

/-- **Capsule**: `Capsule::aabb(pos)` (local box of the transformed capsule) contains every point of the posed capsule. -/
theorem capsule_aabb_contains (a b : V3 K) (r : K) (hr : 0 ≤ r) (m : Iso3 K) (p : V3 K)
    (hq : m.qi * m.qi + m.qj * m.qj + m.qk * m.qk + m.qw * m.qw = 1) :
    letI := fieldNum K sq
    (Capsule3.mk a b r).Mem p → BMem (capsuleAabb a b r m) (m.act p) := by
  rintro ⟨q, hqs, hd⟩
  have hseg := act_segment3 sq m a b q hqs
  have hdist := act_dist sq m p q hq
  simp only [V3.normSq, V3.dot, V3.sub] at hd hdist
  obtain ⟨⟨x1, x2⟩, ⟨y1, y2⟩, z1, z2⟩ := coord_le_of_normSq _ _ _ r hr (by rw [hdist]; exact hd)
  simp only [capsuleAabb, BMem, V3.inf, V3.sup, V3.sub, V3.add, fieldNum_nmin, fieldNum_nmax]
  obtain ⟨t, t0, t1, hQ⟩ := hseg
  set A := @Iso3.act K (fieldNum K sq) m a
  set B := @Iso3.act K (fieldNum K sq) m b
  set Q := @Iso3.act K (fieldNum K sq) m q
  set P := @Iso3.act K (fieldNum K sq) m p
  have between : ∀ u v : K, min u v ≤ u + (v - u) * t ∧ u + (v - u) * t ≤ max u v := by
    intro u v
    rcases le_total u v with h | h
    · rw [min_eq_left h, max_eq_right h]; constructor <;> nlinarith
    · rw [min_eq_right h, max_eq_left h]; constructor <;> nlinarith
  have ex : Q.x = A.x + (B.x - A.x) * t := by rw [hQ]; simp only [V3.add, V3.sub, V3.smul]
  have ey : Q.y = A.y + (B.y - A.y) * t := by rw [hQ]; simp only [V3.add, V3.sub, V3.smul]
  have ez : Q.z = A.z + (B.z - A.z) * t := by rw [hQ]; simp only [V3.add, V3.sub, V3.smul]
  have mx := between A.x B.x; rw [← ex] at mx
  have my := between A.y B.y; rw [← ey] at my
  have mz := between A.z B.z; rw [← ez] at mz
  refine ⟨⟨?_, ?_⟩, ⟨?_, ?_⟩, ?_, ?_⟩ <;> linarith [mx.1, mx.2, my.1, my.2, mz.1, mz.2]

example : (Capsule3.mk (⟨0, 0, 0⟩ : V3 ℚ) ⟨1, 0, 0⟩ 1).Mem ⟨1/2, 1, 0⟩ := by
  refine ⟨⟨1/2, 0, 0⟩, ⟨1/2, by norm_num, by norm_num, ?_⟩, ?_⟩
  · simp [V3.add, V3.sub, V3.smul]
  · simp [V3.normSq, V3.dot, V3.sub]

end C09
