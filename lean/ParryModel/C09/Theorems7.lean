import ParryModel.C09.Theorems1
import ParryModel.C09.Theorems6
/-!
# C09 theorems, part 7: the `IntervalFunction` contract is satisfiable — it holds for every polynomial of degree ≤ 4
evaluated in the power basis with parry's own `Interval` operators (`Model.polyFun`, implemented identically in the
harness), over every linearly ordered field.  Hence `find_roots_cover` applies to that family unconditionally
(`find_roots_cover_poly`), and with `max_recursions = 0` the run provably returns (`find_roots_zero_budget`).
No mean value theorem is needed: the chord slope of `t ↦ t^k` between `x` and `m` is `Σ_{i+j=k-1} xⁱ mʲ`, a sum of `k`
products each enclosed by the interval power `T^(k-1)`, so its average is enclosed too and `k·c_k` times it is the
`k`-th term of the interval gradient.
-/
set_option linter.unusedSectionVars false
set_option linter.unusedVariables false
set_option linter.unusedSimpArgs false
set_option linter.style.haveILetI false

namespace C09
open Model

variable {K : Type} [Field K] [LinearOrder K] [IsStrictOrderedRing K] (sq : K → K)

private theorem addS_contains (x : Interval K) (r u : K) (hu : IMem x u) :
    letI := fieldNum K sq
    IMem (x.addS r) (u + r) := by
  obtain ⟨h1, h2⟩ := hu
  simp only [Interval.addS, IMem]; constructor <;> linarith

private theorem avg2 (J : Interval K) (a b : K) (ha : IMem J a) (hb : IMem J b) : IMem J ((a + b) / 2) := by
  obtain ⟨a1, a2⟩ := ha; obtain ⟨b1, b2⟩ := hb
  constructor <;> [rw [le_div_iff₀ (by norm_num : (0:K) < 2)]; rw [div_le_iff₀ (by norm_num : (0:K) < 2)]] <;> linarith
private theorem avg3 (J : Interval K) (a b c : K) (ha : IMem J a) (hb : IMem J b) (hc : IMem J c) : IMem J ((a + b + c) / 3) := by
  obtain ⟨a1, a2⟩ := ha; obtain ⟨b1, b2⟩ := hb; obtain ⟨c1, c2⟩ := hc
  constructor <;> [rw [le_div_iff₀ (by norm_num : (0:K) < 3)]; rw [div_le_iff₀ (by norm_num : (0:K) < 3)]] <;> linarith
private theorem avg4 (J : Interval K) (a b c d : K) (ha : IMem J a) (hb : IMem J b) (hc : IMem J c) (hd : IMem J d) :
    IMem J ((a + b + c + d) / 4) := by
  obtain ⟨a1, a2⟩ := ha; obtain ⟨b1, b2⟩ := hb; obtain ⟨c1, c2⟩ := hc; obtain ⟨d1, d2⟩ := hd
  constructor <;> [rw [le_div_iff₀ (by norm_num : (0:K) < 4)]; rw [div_le_iff₀ (by norm_num : (0:K) < 4)]] <;> linarith

/-- **the polynomial family meets the `IntervalFunction` contract** (every coefficient vector, every interval) -/
theorem poly_contract (c0 c1 c2 c3 c4 : K) :
    letI := fieldNum K sq
    IFunContract (polyFun c0 c1 c2 c3 c4) := by
  constructor
  · -- inclusion
    intro I x hx
    have h2 := interval_mul_contains sq I I x x hx hx
    have h3 := interval_mul_contains sq _ I (x * x) x h2 hx
    have h4 := interval_mul_contains sq _ I (x * x * x) x h3 hx
    have t1 := addS_contains sq _ c0 _ (interval_mulS_contains sq I c1 x hx)
    have t2 := interval_add_contains sq _ _ _ _ t1 (interval_mulS_contains sq _ c2 _ h2)
    have t3 := interval_add_contains sq _ _ _ _ t2 (interval_mulS_contains sq _ c3 _ h3)
    have t4 := interval_add_contains sq _ _ _ _ t3 (interval_mulS_contains sq _ c4 _ h4)
    have e : @polyEval K (fieldNum K sq) c0 c1 c2 c3 c4 x = x * c1 + c0 + x * x * c2 + x * x * x * c3 + x * x * x * x * c4 := by
      simp only [polyEval]; ring
    simp only [polyFun]
    rw [e]
    exact t4
  · -- slope
    intro I x m hx hm
    have xx := interval_mul_contains sq I I x x hx hx
    have xm := interval_mul_contains sq I I x m hx hm
    have mm := interval_mul_contains sq I I m m hm hm
    have xxx := interval_mul_contains sq _ I (x * x) x xx hx
    have xxm := interval_mul_contains sq _ I (x * x) m xx hm
    have xmm := interval_mul_contains sq _ I (x * m) m xm hm
    have mmm := interval_mul_contains sq _ I (m * m) m mm hm
    have a1 := avg2 I x m hx hm
    have a2 := avg3 _ _ _ _ xx xm mm
    have a3 := avg4 _ _ _ _ _ xxx xxm xmm mmm
    have t1 := addS_contains sq _ c1 _ (interval_mulS_contains sq I (2 * c2) _ a1)
    have t2 := interval_add_contains sq _ _ _ _ t1 (interval_mulS_contains sq _ ((2 + 1) * c3) _ a2)
    have t3 := interval_add_contains sq _ _ _ _ t2 (interval_mulS_contains sq _ ((2 + 2) * c4) _ a3)
    refine ⟨(x + m) / 2 * (2 * c2) + c1 + (x * x + x * m + m * m) / 3 * ((2 + 1) * c3)
      + (x * x * x + x * x * m + x * m * m + m * m * m) / 4 * ((2 + 2) * c4), ?_, ?_⟩
    · simp only [polyFun, polyGradI, fieldNum_two]
      exact t3
    · simp only [polyFun, polyEval]
      field_simp
      ring

/-- **`find_root_intervals` on polynomials** — no hypothesis left: whenever the run returns, every root in `init` is covered. -/
theorem find_roots_cover_poly (c0 c1 c2 c3 c4 : K) (init : Interval K) (minW minImg : K) (maxRec fuel : Nat)
    (res : List (Interval K)) :
    letI := fieldNum K sq
    findRootIntervals (polyFun c0 c1 c2 c3 c4) init minW minImg maxRec fuel = some res →
    ∀ x, IMem init x → polyEval c0 c1 c2 c3 c4 x = 0 → ∃ i ∈ res, IMem i x :=
  fun h x hx h0 => find_roots_cover sq _ (poly_contract sq c0 c1 c2 c3 c4) init minW minImg maxRec fuel res h x hx h0

/-- with `max_recursions = 0` the run returns at once, for any function and any fuel: the answer is `[init]` or `[]`
(so the hypothesis "the run returns" of `find_roots_cover` is satisfiable, and `[]` is only possible when `init` holds
no root). -/
theorem find_roots_zero_budget (f : IFun K) (init : Interval K) (minW minImg : K) (fuel : Nat) :
    letI := fieldNum K sq
    findRootIntervals f init minW minImg 0 fuel = some [init] ∨ findRootIntervals f init minW minImg 0 fuel = some [] := by
  unfold findRootIntervals pushCandidate
  simp only [beq_self_eq_true, Bool.true_or, if_true, List.nil_append]
  split_ifs <;> cases fuel <;> simp [rootsLoop]

example : IMem (⟨-2, 2⟩ : Interval ℚ) 1 ∧ @polyEval ℚ (fieldNum ℚ id) 0 (-1) 0 1 0 1 = 0 := by
  simp only [IMem, polyEval]; norm_num

end C09
