import ParryModel.Vec
/-!
# C09 model: `utils/interval.rs`, `bounding_volume/aabb*.rs`, `bounding_sphere*.rs`
Literal transliteration (same branch order, comparison strictness and operation order).
-/
namespace Model
variable {K : Type} [Num K]

/-! ## Interval -/
structure Interval (K : Type) where
  lo : K
  hi : K

namespace Interval
/-- `Interval::sort` -/
def sort (a b : K) : Interval K := if a < b then ⟨a, b⟩ else ⟨b, a⟩
/-- `Interval::contains` : `self.0 <= t && self.1 >= t` -/
def contains (x : Interval K) (t : K) : Bool := decide (x.lo ≤ t) && decide (t ≤ x.hi)
def width (x : Interval K) : K := x.hi - x.lo
def midpoint (x : Interval K) : K := (x.lo + x.hi) / two
def split (x : Interval K) : Interval K × Interval K :=
  let mid := x.midpoint
  (⟨x.lo, mid⟩, ⟨mid, x.hi⟩)
/-- `Interval::enclose` -/
def enclose (x : Interval K) (t : K) : Interval K :=
  if t < x.lo then ⟨t, x.hi⟩ else if x.hi < t then ⟨x.lo, t⟩ else x
/-- `Interval::intersect` -/
def intersect (x y : Interval K) : Option (Interval K) :=
  let r : Interval K := ⟨nmax x.lo y.lo, nmin x.hi y.hi⟩
  if r.hi < r.lo then none else some r
def addS (x : Interval K) (r : K) : Interval K := ⟨x.lo + r, x.hi + r⟩
def add (x y : Interval K) : Interval K := ⟨x.lo + y.lo, x.hi + y.hi⟩
def subS (x : Interval K) (r : K) : Interval K := ⟨x.lo - r, x.hi - r⟩
def sub (x y : Interval K) : Interval K := ⟨x.lo - y.hi, x.hi - y.lo⟩
def neg (x : Interval K) : Interval K := ⟨-x.hi, -x.lo⟩
/-- `Mul<T> for Interval<T>` -/
def mulS (x : Interval K) (r : K) : Interval K :=
  if r < 0 then ⟨x.hi * r, x.lo * r⟩ else ⟨x.lo * r, x.hi * r⟩
/-- `Mul<Interval<T>> for Interval<T>` — transliterated from the working tree (see KNOWN_FINDINGS: the
mixed-sign lower bound). -/
def mul (x y : Interval K) : Interval K :=
  let a1 := x.lo; let a2 := x.hi; let b1 := y.lo; let b2 := y.hi
  if a2 ≤ 0 then
    if b2 ≤ 0 then ⟨a2 * b2, a1 * b1⟩
    else if b1 < 0 then ⟨a1 * b2, a1 * b1⟩
    else ⟨a1 * b2, a2 * b1⟩
  else if a1 < 0 then
    if b2 ≤ 0 then ⟨a2 * b1, a1 * b1⟩
    else if b1 < 0 then ⟨nmin (a1 * b2) (a2 * b1), nmax (a1 * b1) (a2 * b2)⟩
    else ⟨a1 * b2, a2 * b2⟩
  else if b2 ≤ 0 then ⟨a2 * b1, a1 * b2⟩
  else if b1 < 0 then ⟨a2 * b1, a2 * b2⟩
  else ⟨a1 * b1, a2 * b2⟩
end Interval

/-! ## Aabb (3-D and 2-D) -/
structure Aabb3 (K : Type) where
  mins : V3 K
  maxs : V3 K
structure Aabb2 (K : Type) where
  mins : V2 K
  maxs : V2 K
structure Sphere3 (K : Type) where
  center : V3 K
  radius : K

namespace Aabb3
def fromHalfExtents (c he : V3 K) : Aabb3 K := ⟨c.sub he, c.add he⟩
def center (b : Aabb3 K) : V3 K := V3.center b.mins b.maxs
def halfExtents (b : Aabb3 K) : V3 K := (b.maxs.sub b.mins).smul (lit 1 2)
def extents (b : Aabb3 K) : V3 K := b.maxs.sub b.mins
def volume (b : Aabb3 K) : K := let e := b.extents; e.x * e.y * e.z
def takePoint (b : Aabb3 K) (p : V3 K) : Aabb3 K := ⟨b.mins.inf p, b.maxs.sup p⟩
def merged (a b : Aabb3 K) : Aabb3 K := ⟨a.mins.inf b.mins, a.maxs.sup b.maxs⟩
def loosened (a : Aabb3 K) (m : K) : Aabb3 K :=
  ⟨a.mins.add ⟨-m, -m, -m⟩, a.maxs.add ⟨m, m, m⟩⟩
def tightened (a : Aabb3 K) (m : K) : Aabb3 K :=
  ⟨a.mins.add ⟨m, m, m⟩, a.maxs.add ⟨-m, -m, -m⟩⟩
/-- `na::partial_le(&a, &b)` on points: all components `≤` -/
def ple (a b : V3 K) : Bool := decide (a.x ≤ b.x) && decide (a.y ≤ b.y) && decide (a.z ≤ b.z)
def intersects (a b : Aabb3 K) : Bool := ple a.mins b.maxs && ple b.mins a.maxs
def contains (a b : Aabb3 K) : Bool := ple a.mins b.mins && ple b.maxs a.maxs
def containsLocalPoint (a : Aabb3 K) (p : V3 K) : Bool :=
  !(decide (p.x < a.mins.x) || decide (a.maxs.x < p.x)) &&
  !(decide (p.y < a.mins.y) || decide (a.maxs.y < p.y)) &&
  !(decide (p.z < a.mins.z) || decide (a.maxs.z < p.z))
def intersection (a b : Aabb3 K) : Option (Aabb3 K) :=
  let r : Aabb3 K := ⟨a.mins.sup b.mins, a.maxs.inf b.maxs⟩
  if r.maxs.x < r.mins.x then none
  else if r.maxs.y < r.mins.y then none
  else if r.maxs.z < r.mins.z then none
  else some r
def scaled (a : Aabb3 K) (s : V3 K) : Aabb3 K :=
  let p := a.mins.cmul s
  let q := a.maxs.cmul s
  ⟨p.inf q, p.sup q⟩
def scaledWrtCenter (a : Aabb3 K) (s : V3 K) : Aabb3 K :=
  let c := a.center
  let he := (a.halfExtents.cmul s).abs
  fromHalfExtents c he
end Aabb3

namespace Iso3
/-- `UnitQuaternion::to_rotation_matrix`, rows -/
def mat (m : Iso3 K) : V3 K × V3 K × V3 K :=
  let i := m.qi; let j := m.qj; let k := m.qk; let w := m.qw
  let ww := w * w; let ii := i * i; let jj := j * j; let kk := k * k
  let ij := i * j * two; let wk := w * k * two; let wj := w * j * two
  let ik := i * k * two; let jk := j * k * two; let wi := w * i * two
  (⟨ww + ii - jj - kk, ij - wk, wj + ik⟩,
   ⟨wk + ij, ww - ii + jj - kk, jk - wi⟩,
   ⟨ik - wj, wi + jk, ww - ii - jj + kk⟩)
/-- `absolute_transform_vector`: `|R| * v` (matrix-vector product accumulates column by column) -/
def absTransform (m : Iso3 K) (v : V3 K) : V3 K :=
  let r := m.mat
  ⟨nabs r.1.x * v.x + nabs r.1.y * v.y + nabs r.1.z * v.z,
   nabs r.2.1.x * v.x + nabs r.2.1.y * v.y + nabs r.2.1.z * v.z,
   nabs r.2.2.x * v.x + nabs r.2.2.y * v.y + nabs r.2.2.z * v.z⟩
end Iso3

namespace Iso2
def absTransform (m : Iso2 K) (v : V2 K) : V2 K :=
  ⟨nabs m.re * v.x + nabs (-m.im) * v.y, nabs m.im * v.x + nabs m.re * v.y⟩
end Iso2

namespace Aabb3
/-- `Aabb::transform_by` -/
def transformBy (a : Aabb3 K) (m : Iso3 K) : Aabb3 K :=
  let c := m.act a.center
  let he := m.absTransform a.halfExtents
  ⟨c.add he.neg, c.add he⟩
/-- `Aabb::bounding_sphere` -/
def boundingSphere (a : Aabb3 K) : Sphere3 K :=
  ⟨a.center, (a.maxs.sub a.mins).norm * lit 1 2⟩
/-- `local_point_cloud_aabb` (non-empty list) -/
def fromPoints (p0 : V3 K) (ps : List (V3 K)) : Aabb3 K :=
  ps.foldl (fun b p => ⟨b.mins.inf p, b.maxs.sup p⟩) ⟨p0, p0⟩
end Aabb3

namespace Aabb2
def fromHalfExtents (c he : V2 K) : Aabb2 K := ⟨c.sub he, c.add he⟩
def center (b : Aabb2 K) : V2 K := V2.center b.mins b.maxs
def halfExtents (b : Aabb2 K) : V2 K := (b.maxs.sub b.mins).smul (lit 1 2)
def merged (a b : Aabb2 K) : Aabb2 K := ⟨a.mins.inf b.mins, a.maxs.sup b.maxs⟩
def transformBy (a : Aabb2 K) (m : Iso2 K) : Aabb2 K :=
  let c := m.act a.center
  let he := m.absTransform a.halfExtents
  ⟨c.add he.neg, c.add he⟩
def containsLocalPoint (a : Aabb2 K) (p : V2 K) : Bool :=
  !(decide (p.x < a.mins.x) || decide (a.maxs.x < p.x)) &&
  !(decide (p.y < a.mins.y) || decide (a.maxs.y < p.y))
end Aabb2

/-! ## per-shape boxes -/
/-- `Ball::aabb(pos)` -/
def ballAabb (r : K) (m : Iso3 K) : Aabb3 K :=
  ⟨m.t.add ⟨-r, -r, -r⟩, m.t.add ⟨r, r, r⟩⟩
/-- `Cuboid::aabb(pos)` -/
def cuboidAabb (he : V3 K) (m : Iso3 K) : Aabb3 K :=
  Aabb3.fromHalfExtents m.t (m.absTransform he)
def cuboidAabb2 (he : V2 K) (m : Iso2 K) : Aabb2 K :=
  Aabb2.fromHalfExtents m.t (m.absTransform he)
/-- `Capsule::aabb(pos)` = `transform_by(pos).local_aabb()` -/
def capsuleAabb (a b : V3 K) (r : K) (m : Iso3 K) : Aabb3 K :=
  let a' := m.act a; let b' := m.act b
  ⟨(a'.inf b').sub ⟨r, r, r⟩, (a'.sup b').add ⟨r, r, r⟩⟩
/-- `Triangle::aabb(pos)` = `transformed(pos).local_aabb()` -/
def triangleAabb (a b c : V3 K) (m : Iso3 K) : Aabb3 K :=
  let a' := m.act a; let b' := m.act b; let c' := m.act c
  ⟨⟨nmin (nmin a'.x b'.x) c'.x, nmin (nmin a'.y b'.y) c'.y, nmin (nmin a'.z b'.z) c'.z⟩,
   ⟨nmax (nmax a'.x b'.x) c'.x, nmax (nmax a'.y b'.y) c'.y, nmax (nmax a'.z b'.z) c'.z⟩⟩

end Model
