import ParryModel.C09.DriverA
import ParryModel.C09.DriverB
import ParryModel.C09.Model5
/-!
# C09 protocol handlers, part D (round fu5): `SimdAabb::transform_by` with a different isometry in every lane,
`BoundingSphere::{transform_by, loosened, tightened}`, `Aabb::tightened`; histories of `scaled` on TriMesh / Polyline /
HeightField (2-D and 3-D), box read through `dyn Shape::compute_local_aabb` (oracle: exact support values of the parts
scaled by the product of the scale vectors — containment and tightness).

Oracles (exact `Rat`, independent of the model): (simd_transform_by) for every lane the images of the centre and the
eight corners under that lane's isometry lie in the returned lane box, and every face of the lane box is touched by a
corner image; (bsphere_transform_by) the images of the centre and of the six axis-extreme points of the sphere lie in the
returned sphere and the radius did not grow; (bsphere_loosened / tightened, aabb_tightened) the centre is kept, the
radius / every face moves by exactly the amount (up to rounding), in the right direction.
-/
namespace C09
open Model Proto

def spherePts (c : V3 Rat) (r : Rat) : List (V3 Rat) :=
  [c, ⟨c.x + r, c.y, c.z⟩, ⟨c.x - r, c.y, c.z⟩, ⟨c.x, c.y + r, c.z⟩, ⟨c.x, c.y - r, c.z⟩, ⟨c.x, c.y, c.z + r⟩, ⟨c.x, c.y, c.z - r⟩,
   ⟨c.x + r * 3 / 5, c.y + r * 4 / 5, c.z⟩, ⟨c.x, c.y - r * 3 / 5, c.z + r * 4 / 5⟩, ⟨c.x + r * 2 / 3, c.y - r * 1 / 3, c.z + r * 2 / 3⟩]

def eqTol (a b : Rat) : Bool := leTol a b tolDefault && leTol b a tolDefault

/-- model: `.scaled(s₁)….scaled(sₖ)` then `compute_local_aabb()` through `dyn Shape` -/
def Comp3.histAabb (ss : List (V3 Float)) : Comp3 Float → Option (Aabb3 Float)
  | .heightfield nr nc hs s => (Comp3.heightfield nr nc hs s).localAabb.map fun b => (heightfieldHist3 b s ss).1
  | .compound _ => none
  | c => c.localAabb.map (·.scaledHist ss)
def Comp2.histAabb (ss : List (V2 Float)) : Comp2 Float → Option (Aabb2 Float)
  | .heightfield hs s => (Comp2.heightfield hs s).localAabb.map fun b => (heightfieldHist2 b s ss).1
  | .compound _ => none
  | c => c.localAabb.map (·.scaledHist ss)

def handlerD (fn : String) : Option Handler :=
  match fn with
  | "simd_transform_by" => some {
      model := fun a => run (do let x ← psimd; let m0 ← piso3; let m1 ← piso3; let m2 ← piso3; let m3 ← piso3
                                 pure (fboxes (x.transformBy m0 m1 m2 m3))) a
      oracle := fun a o => match run (do let x ← psimd; let m0 ← piso3; let m1 ← piso3; let m2 ← piso3; let m3 ← piso3
                                         pure (x, [m0, m1, m2, m3])) a with
        | some (x, ms) => withOut poboxes4 o fun rs =>
            let res := (List.zip (List.zip x.lanes ms) rs).map fun ((b, m), r) =>
              let pts := (samplePts3 (qaabb3 b)).map (qiso3 m).act
              let c := allIn3 r pts
              if c != "pass" then c else if tight3 r pts then "pass" else "fail lane-not-tight"
            match res.filter (· != "pass") with
            | [] => if res.length == 4 then "pass" else "fail lane-count"
            | e :: _ => e
        | none => "skip bad-args" }
  | "bsphere_transform_by" => some {
      model := fun a => run (do let s ← psphere; let m ← piso3; pure (fsphere (s.transformBy m))) a
      oracle := fun a o => match run (do let s ← psphere; let m ← piso3; pure (s, m)) a with
        | some (s, m) => withOut posphere o fun r =>
            let res := ptsInSphere r ((spherePts (q3 s.center) (q s.radius)).map (qiso3 m).act)
            if res != "pass" then res else if eqTol (q r.radius) (q s.radius) then "pass" else "fail radius-changed"
        | none => "skip bad-args" }
  | "bsphere_loosened" => some {
      model := fun a => run (do let s ← psphere; let m ← pf; pure (fsphere (s.loosened m))) a
      oracle := fun a o => match run (do let s ← psphere; let m ← pf; pure (s, m)) a with
        | some (s, m) => withOut posphere o fun r =>
            if q m < 0 then "skip negative-amount" else
            let res := ptsInSphere r (spherePts (q3 s.center) (q s.radius + q m))
            if res != "pass" then res else if eqTol (q r.radius) (q s.radius + q m) then "pass" else "fail radius-not-r-plus-amount"
        | none => "skip bad-args" }
  | "bsphere_tightened" => some {
      model := fun a => run (do let s ← psphere; let m ← pf; pure (fsphere (s.tightened m))) a
      oracle := fun a o => match run (do let s ← psphere; let m ← pf; pure (s, m)) a with
        | some (s, m) => withOut posphere o fun r =>
            if q m < 0 || q s.radius < q m then "skip amount-outside-domain" else
            -- the tightened sphere lies inside the sphere, and loosening it again by the amount covers the sphere
            let inside := ptsInSphere s (spherePts (q3 r.center) (q r.radius))
            if inside != "pass" then "fail tightened-not-inside" else
            if !(eqTol (q r.radius + q m) (q s.radius)) then "fail radius-not-r-minus-amount" else
            let a := q3 r.center; let b := q3 s.center
            if a.x == b.x && a.y == b.y && a.z == b.z then "pass" else "fail centre-moved"
        | none => "skip bad-args" }
  | "aabb_tightened" => some {
      model := fun a => run (do let x ← paabb3; let m ← pf; pure (faabb3 (x.tightened m))) a
      oracle := fun a o => match run (do let x ← paabb3; let m ← pf; pure (x, m)) a with
        | some (x, m) => withOut poaabb3 o fun r =>
            if q m < 0 then "skip negative-amount" else
            let X := qaabb3 x; let R := qaabb3 r; let M := q m
            -- every face moved inwards by exactly the amount
            let ok := (List.range 3).all fun i =>
              eqTol (R.mins.get i) (X.mins.get i + M) && eqTol (R.maxs.get i + M) (X.maxs.get i)
            if !ok then "fail face-not-moved-by-amount" else
            -- (valid result) every corner of the result is in the box
            if (List.range 3).all (fun i => R.mins.get i ≤ R.maxs.get i) then allIn3 x (corners3 R) else "pass"
        | none => "skip bad-args" }
  | "aabb_take_point" => some {
      model := fun a => run (do let x ← paabb3; let p ← pv3; pure (faabb3 (x.takePoint p))) a
      oracle := fun a o => match run (do let x ← paabb3; let p ← pv3; pure (x, p)) a with
        | some (x, p) => withOut poaabb3 o fun r =>
            let X := qaabb3 x; let P := q3 p
            -- an invalid (inverted) box holds no point: the result must be the single point
            let valid := (List.range 3).all fun i => X.mins.get i ≤ X.maxs.get i
            let pts := if valid then P :: corners3 X else [P]
            let res := allIn3 r pts
            if res != "pass" then res else if tight3 r pts then "pass" else "fail not-tight"
        | none => "skip bad-args" }
  | "co3_hist_aabb" => some {
      model := fun a => run (do let c ← pcomp3; let ss ← plist pv3; pure (optS faabb3 (c.histAabb ss))) a
      oracle := fun a o => match run (do let c ← pcomp3; let ss ← plist pv3; pure (c, ss)) a with
        | some (c, ss) => withOut poaabb3 o fun b =>
            -- the shape after the history = the original parts scaled by the component-wise product of the scale vectors
            let tot : V3 Rat := ss.foldl (fun acc s => acc.cmul (q3 s)) ⟨1, 1, 1⟩
            let neg := isHeightfieldNeg3 c || (match c with | .heightfield .. => ss.any (fun s => s.x < 0 || s.y < 0 || s.z < 0) | _ => false)
            tagNeg neg (boxVsParts3 (c.parts.map fun (s, d) => (scaleShape3 tot s, d)) b true)
        | none => "skip bad-args" }
  | "co2_hist_aabb" => some {
      model := fun a => run (do let c ← pcomp2; let ss ← plist pv2; pure (optS faabb2 (c.histAabb ss))) a
      oracle := fun a o => match run (do let c ← pcomp2; let ss ← plist pv2; pure (c, ss)) a with
        | some (c, ss) => withOut poaabb2 o fun b =>
            let tot : V2 Rat := ss.foldl (fun acc s => acc.cmul (q2 s)) ⟨1, 1⟩
            let neg := isHeightfieldNeg2 c || (match c with | .heightfield .. => ss.any (fun s => s.x < 0 || s.y < 0) | _ => false)
            tagNeg neg (boxVsParts2 (c.parts.map fun (s, d) => (scaleShape2 tot s, d)) b true)
        | none => "skip bad-args" }
  | _ => none

end C09
