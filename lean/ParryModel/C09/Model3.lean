import ParryModel.C09.Model2
import ParryModel.C10.Model
/-!
# C09 model, part 3: boxes and spheres of *every* shape kind.

* `bounding_volume::details::{support_map_aabb, local_support_map_aabb}` (`aabb_utils.rs`), generic in the
  support function (the support-point models are those of `C10/Model.lean`, reused by import);
* `point_cloud_aabb` / `local_point_cloud_aabb`;
* every `aabb(pos)` / `local_aabb()` / `bounding_sphere(pos)` / `local_bounding_sphere()` of the convex shape
  kinds in 3-D and 2-D, including `RoundShape` (`inner box/sphere .loosened(border_radius)`), and the `Shape`
  trait defaults `compute_aabb`, `compute_bounding_sphere`, `compute_swept_aabb`;
* composite boxes: `TriMesh`/`Polyline` (QBVH root box built with dilation `0`: the lane-wise min / max of the
  leaf boxes, i.e. of the referenced vertices), `Compound` (`merge` of the parts' `compute_aabb(delta)` starting
  from the invalid sentinel), `HeightField` (closed form from the height range and the scale), and
  `Qbvh::scaled` = `Aabb::scaled` of the root box.
-/
namespace Model
variable {K : Type} [Num K]

/-! ## `support_map_aabb` -/

/-- `support_map_aabb(m, g)` with `sp = g.support_point(m, ·)` and `local_support_map_aabb(g)` with
`sp = g.local_support_point`: for each axis `d`, `max[d] = sp(e_d)[d]`, `min[d] = sp(-e_d)[d]`. -/
def supportMapAabb3 (sp : V3 K → V3 K) : Aabb3 K :=
  ⟨⟨(sp ⟨-1, 0, 0⟩).x, (sp ⟨0, -1, 0⟩).y, (sp ⟨0, 0, -1⟩).z⟩,
   ⟨(sp ⟨1, 0, 0⟩).x, (sp ⟨0, 1, 0⟩).y, (sp ⟨0, 0, 1⟩).z⟩⟩
def supportMapAabb2 (sp : V2 K → V2 K) : Aabb2 K :=
  ⟨⟨(sp ⟨-1, 0⟩).x, (sp ⟨0, -1⟩).y⟩, ⟨(sp ⟨1, 0⟩).x, (sp ⟨0, 1⟩).y⟩⟩

/-- `Cone::aabb(pos)` = `support_map_aabb(pos, self)` -/
def coneAabb (hh r : K) (m : Iso3 K) : Aabb3 K := supportMapAabb3 (C10.supportPoint3 (C10.coneLocal hh r) m)
/-- `Cone::local_aabb()` = `local_support_map_aabb(self)` -/
def coneLocalAabb (hh r : K) : Aabb3 K := supportMapAabb3 (C10.coneLocal hh r)
def cylinderAabb (hh r : K) (m : Iso3 K) : Aabb3 K := supportMapAabb3 (C10.supportPoint3 (C10.cylinderLocal hh r) m)
def cylinderLocalAabb (hh r : K) : Aabb3 K := supportMapAabb3 (C10.cylinderLocal hh r)
/-- `Segment::local_aabb()` = `local_support_map_aabb(self)`; `Segment::aabb(pos)` = `transformed(pos).local_aabb()` -/
def segmentLocalAabb3 (a b : V3 K) : Aabb3 K := supportMapAabb3 (C10.segmentLocal3 a b)
def segmentAabb3 (a b : V3 K) (m : Iso3 K) : Aabb3 K := segmentLocalAabb3 (m.act a) (m.act b)
def segmentLocalAabb2 (a b : V2 K) : Aabb2 K := supportMapAabb2 (C10.segmentLocal2 a b)
def segmentAabb2 (a b : V2 K) (m : Iso2 K) : Aabb2 K := segmentLocalAabb2 (m.act a) (m.act b)

/-! ## point clouds -/
/-- `point_cloud_aabb(m, pts)` (non-empty) -/
def pointCloudAabb3 (m : Iso3 K) (p0 : V3 K) (ps : List (V3 K)) : Aabb3 K :=
  let w0 := m.act p0
  ps.foldl (fun b p => let w := m.act p; ⟨b.mins.inf w, b.maxs.sup w⟩) ⟨w0, w0⟩
namespace Aabb2
/-- `local_point_cloud_aabb` (2-D, non-empty) -/
def fromPoints (p0 : V2 K) (ps : List (V2 K)) : Aabb2 K :=
  ps.foldl (fun b p => ⟨b.mins.inf p, b.maxs.sup p⟩) ⟨p0, p0⟩
def loosened (a : Aabb2 K) (m : K) : Aabb2 K := ⟨a.mins.add ⟨-m, -m⟩, a.maxs.add ⟨m, m⟩⟩
def scaled (a : Aabb2 K) (s : V2 K) : Aabb2 K :=
  let p := a.mins.cmul s
  let q := a.maxs.cmul s
  ⟨p.inf q, p.sup q⟩
/-- `Aabb::bounding_sphere` (2-D): centre, radius -/
def boundingSphere (a : Aabb2 K) : V2 K × K := (a.center, (a.maxs.sub a.mins).norm * lit 1 2)
end Aabb2
def pointCloudAabb2 (m : Iso2 K) (p0 : V2 K) (ps : List (V2 K)) : Aabb2 K :=
  let w0 := m.act p0
  ps.foldl (fun b p => let w := m.act p; ⟨b.mins.inf w, b.maxs.sup w⟩) ⟨w0, w0⟩

/-! ## remaining closed forms -/
/-- `local_ball_aabb` -/
def ballLocalAabb (r : K) : Aabb3 K := ⟨⟨-r, -r, -r⟩, ⟨r, r, r⟩⟩
def cuboidLocalAabb (he : V3 K) : Aabb3 K := ⟨he.neg, he⟩
/-- `Capsule::local_aabb` -/
def capsuleLocalAabb (a b : V3 K) (r : K) : Aabb3 K := ⟨(a.inf b).sub ⟨r, r, r⟩, (a.sup b).add ⟨r, r, r⟩⟩
/-- `Triangle::local_aabb` -/
def triangleLocalAabb (a b c : V3 K) : Aabb3 K :=
  ⟨⟨nmin (nmin a.x b.x) c.x, nmin (nmin a.y b.y) c.y, nmin (nmin a.z b.z) c.z⟩,
   ⟨nmax (nmax a.x b.x) c.x, nmax (nmax a.y b.y) c.y, nmax (nmax a.z b.z) c.z⟩⟩
/-- `HalfSpace::local_aabb` (= `aabb(pos)`): `±Real::MAX * 0.5`; `hm` is that constant. -/
def halfspaceAabb3 (hm : K) : Aabb3 K := ⟨⟨-hm, -hm, -hm⟩, ⟨hm, hm, hm⟩⟩

def ballAabb2 (r : K) (m : Iso2 K) : Aabb2 K := ⟨m.t.add ⟨-r, -r⟩, m.t.add ⟨r, r⟩⟩
def ballLocalAabb2 (r : K) : Aabb2 K := ⟨⟨-r, -r⟩, ⟨r, r⟩⟩
def cuboidLocalAabb2 (he : V2 K) : Aabb2 K := ⟨he.neg, he⟩
def capsuleLocalAabb2 (a b : V2 K) (r : K) : Aabb2 K := ⟨(a.inf b).sub ⟨r, r⟩, (a.sup b).add ⟨r, r⟩⟩
def capsuleAabb2 (a b : V2 K) (r : K) (m : Iso2 K) : Aabb2 K := capsuleLocalAabb2 (m.act a) (m.act b) r
def triangleLocalAabb2 (a b c : V2 K) : Aabb2 K :=
  ⟨⟨nmin (nmin a.x b.x) c.x, nmin (nmin a.y b.y) c.y⟩, ⟨nmax (nmax a.x b.x) c.x, nmax (nmax a.y b.y) c.y⟩⟩
def triangleAabb2 (a b c : V2 K) (m : Iso2 K) : Aabb2 K := triangleLocalAabb2 (m.act a) (m.act b) (m.act c)
def halfspaceAabb2 (hm : K) : Aabb2 K := ⟨⟨-hm, -hm⟩, ⟨hm, hm⟩⟩

/-! ## shape descriptors: one value per shape kind of `shape/shape.rs` (convex kinds) -/
inductive BShape3 (K : Type) where
  | ball (r : K)
  | cuboid (he : V3 K)
  | capsule (a b : V3 K) (r : K)
  | segment (a b : V3 K)
  | triangle (a b c : V3 K)
  | cone (hh r : K)
  | cylinder (hh r : K)
  /-- `ConvexPolyhedron`: its `points()` -/
  | poly (pts : List (V3 K))
  | halfspace (n : V3 K)
  /-- `RoundShape<inner>` (inner ∈ cuboid, triangle, cylinder, cone, poly) -/
  | round (inner : BShape3 K) (br : K)

inductive BShape2 (K : Type) where
  | ball (r : K)
  | cuboid (he : V2 K)
  | capsule (a b : V2 K) (r : K)
  | segment (a b : V2 K)
  | triangle (a b c : V2 K)
  /-- `ConvexPolygon`: its `points()` -/
  | poly (pts : List (V2 K))
  | halfspace (n : V2 K)
  | round (inner : BShape2 K) (br : K)

structure Sphere2 (K : Type) where
  center : V2 K
  radius : K
def Sphere2.transformBy (s : Sphere2 K) (m : Iso2 K) : Sphere2 K := ⟨m.act s.center, s.radius⟩

/-- 2-D `point_cloud_bounding_sphere` -/
def pointCloudSphere2 (p0 : V2 K) (ps : List (V2 K)) : Sphere2 K :=
  let denom : K := (1 : K) / (ps.foldl (fun n _ => n + 1) (1 : K))
  let c := ps.foldl (fun acc p => acc.add (p.smul denom)) (p0.smul denom)
  let sq := (p0 :: ps).foldl (fun acc p => let d := (c.sub p).normSq; if acc < d then d else acc) (0 : K)
  ⟨c, Num.sqrt sq⟩

namespace BShape3
/-- `Shape::compute_local_aabb` (`hm` = `Real::MAX * 0.5`, used by the half-space only); `none` = the
`expect`/index panic on an empty point cloud. -/
def localAabb (hm : K) : BShape3 K → Option (Aabb3 K)
  | ball r => some (ballLocalAabb r)
  | cuboid he => some (cuboidLocalAabb he)
  | capsule a b r => some (capsuleLocalAabb a b r)
  | segment a b => some (segmentLocalAabb3 a b)
  | triangle a b c => some (triangleLocalAabb a b c)
  | cone hh r => some (coneLocalAabb hh r)
  | cylinder hh r => some (cylinderLocalAabb hh r)
  | poly [] => none
  | poly (p :: ps) => some (Aabb3.fromPoints p ps)
  | halfspace _ => some (halfspaceAabb3 hm)
  | round inner br => (localAabb hm inner).map (·.loosened br)
/-- `Shape::compute_aabb(pos)` -/
def aabb (hm : K) (m : Iso3 K) : BShape3 K → Option (Aabb3 K)
  | ball r => some (ballAabb r m)
  | cuboid he => some (cuboidAabb he m)
  | capsule a b r => some (capsuleAabb a b r m)
  | segment a b => some (segmentAabb3 a b m)
  | triangle a b c => some (triangleAabb a b c m)
  | cone hh r => some (coneAabb hh r m)
  | cylinder hh r => some (cylinderAabb hh r m)
  | poly [] => none
  | poly (p :: ps) => some (pointCloudAabb3 m p ps)
  | halfspace _ => some (halfspaceAabb3 hm)
  | round inner br => (aabb hm m inner).map (·.loosened br)
/-- `Shape::compute_local_bounding_sphere` (`rmax` = `Real::MAX`, half-space only) -/
def localSphere (rmax : K) : BShape3 K → Option (Sphere3 K)
  | ball r => some ⟨V3.zero, r⟩
  | cuboid he => some ⟨V3.zero, he.norm⟩
  | capsule a b r => some ⟨V3.center a b, r + (b.sub a).norm / two⟩
  | segment a b => some (pointCloudSphere a [b])
  | triangle a b c => some (pointCloudSphere a [b, c])
  | cone hh r => some ⟨V3.zero, Num.sqrt (r * r + hh * hh)⟩
  | cylinder hh r => some ⟨V3.zero, Num.sqrt (r * r + hh * hh)⟩
  | poly [] => none
  | poly (p :: ps) => some (pointCloudSphere p ps)
  | halfspace _ => some ⟨V3.zero, rmax⟩
  | round inner br => (localSphere rmax inner).map (·.loosened br)
/-- `Shape::compute_bounding_sphere(pos)` = `compute_local_bounding_sphere().transform_by(pos)` -/
def sphere (rmax : K) (m : Iso3 K) (s : BShape3 K) : Option (Sphere3 K) := (s.localSphere rmax).map (·.transformBy m)
/-- `Shape::compute_swept_aabb(start, end)` -/
def swept (hm : K) (m1 m2 : Iso3 K) (s : BShape3 K) : Option (Aabb3 K) :=
  match s.aabb hm m1, s.aabb hm m2 with
  | some b1, some b2 => some (b1.merged b2)
  | _, _ => none
end BShape3

namespace BShape2
def localAabb (hm : K) : BShape2 K → Option (Aabb2 K)
  | ball r => some (ballLocalAabb2 r)
  | cuboid he => some (cuboidLocalAabb2 he)
  | capsule a b r => some (capsuleLocalAabb2 a b r)
  | segment a b => some (segmentLocalAabb2 a b)
  | triangle a b c => some (triangleLocalAabb2 a b c)
  | poly [] => none
  | poly (p :: ps) => some (Aabb2.fromPoints p ps)
  | halfspace _ => some (halfspaceAabb2 hm)
  | round inner br => (localAabb hm inner).map (·.loosened br)
def aabb (hm : K) (m : Iso2 K) : BShape2 K → Option (Aabb2 K)
  | ball r => some (ballAabb2 r m)
  | cuboid he => some (cuboidAabb2 he m)
  | capsule a b r => some (capsuleAabb2 a b r m)
  | segment a b => some (segmentAabb2 a b m)
  | triangle a b c => some (triangleAabb2 a b c m)
  | poly [] => none
  | poly (p :: ps) => some (pointCloudAabb2 m p ps)
  | halfspace _ => some (halfspaceAabb2 hm)
  | round inner br => (aabb hm m inner).map (·.loosened br)
def localSphere (rmax : K) : BShape2 K → Option (Sphere2 K)
  | ball r => some ⟨V2.zero, r⟩
  | cuboid he => some ⟨V2.zero, he.norm⟩
  | capsule a b r => some ⟨V2.center a b, r + (b.sub a).norm / two⟩
  | segment a b => some (pointCloudSphere2 a [b])
  | triangle a b c => some (pointCloudSphere2 a [b, c])
  | poly [] => none
  | poly (p :: ps) => some (pointCloudSphere2 p ps)
  | halfspace _ => some ⟨V2.zero, rmax⟩
  | round inner br => (localSphere rmax inner).map fun s => ⟨s.center, s.radius + br⟩
def sphere (rmax : K) (m : Iso2 K) (s : BShape2 K) : Option (Sphere2 K) := (s.localSphere rmax).map (·.transformBy m)
def swept (hm : K) (m1 m2 : Iso2 K) (s : BShape2 K) : Option (Aabb2 K) :=
  match s.aabb hm m1, s.aabb hm m2 with
  | some b1, some b2 => some (b1.merged b2)
  | _, _ => none
end BShape2

/-! ## composites -/

/-- `Aabb::new_invalid()`: `mins = +Real::MAX`, `maxs = -Real::MAX` (`rmax` = `Real::MAX`) -/
def Aabb3.invalid (rmax : K) : Aabb3 K := ⟨⟨rmax, rmax, rmax⟩, ⟨-rmax, -rmax, -rmax⟩⟩
def Aabb2.invalid (rmax : K) : Aabb2 K := ⟨⟨rmax, rmax⟩, ⟨-rmax, -rmax⟩⟩

/-- QBVH root box of a tree built by `clear_and_rebuild(leaves, 0.0)`: every node box is the lane-wise
`to_merged_aabb` of its children (dilation `0` adds `±0`), so the root is the min / max over all leaf boxes,
starting from the invalid sentinel lanes. -/
def rootAabb3 (rmax : K) (leaves : List (Aabb3 K)) : Aabb3 K :=
  leaves.foldl (fun acc b => acc.merged b) (Aabb3.invalid rmax)
def rootAabb2 (rmax : K) (leaves : List (Aabb2 K)) : Aabb2 K :=
  leaves.foldl (fun acc b => acc.merged b) (Aabb2.invalid rmax)

/-- `TriMesh::local_aabb` (3-D): leaves are `Triangle::local_aabb` of the indexed triangles; `none` = index panic -/
def trimeshLocalAabb3 (rmax : K) (vs : List (V3 K)) (idx : List (Nat × Nat × Nat)) : Option (Aabb3 K) :=
  (idx.mapM fun (t : Nat × Nat × Nat) => do
      let a ← vs[t.1]?; let b ← vs[t.2.1]?; let c ← vs[t.2.2]?; pure (triangleLocalAabb a b c)).map (rootAabb3 rmax)
def trimeshLocalAabb2 (rmax : K) (vs : List (V2 K)) (idx : List (Nat × Nat × Nat)) : Option (Aabb2 K) :=
  (idx.mapM fun (t : Nat × Nat × Nat) => do
      let a ← vs[t.1]?; let b ← vs[t.2.1]?; let c ← vs[t.2.2]?; pure (triangleLocalAabb2 a b c)).map (rootAabb2 rmax)
/-- `Polyline::local_aabb` -/
def polylineLocalAabb3 (rmax : K) (vs : List (V3 K)) (idx : List (Nat × Nat)) : Option (Aabb3 K) :=
  (idx.mapM fun (ij : Nat × Nat) => do let a ← vs[ij.1]?; let b ← vs[ij.2]?; pure (segmentLocalAabb3 a b)).map (rootAabb3 rmax)
def polylineLocalAabb2 (rmax : K) (vs : List (V2 K)) (idx : List (Nat × Nat)) : Option (Aabb2 K) :=
  (idx.mapM fun (ij : Nat × Nat) => do let a ← vs[ij.1]?; let b ← vs[ij.2]?; pure (segmentLocalAabb2 a b)).map (rootAabb2 rmax)
/-- `Compound::new`: `aabb = new_invalid(); for (delta, shape) { aabb.merge(&shape.compute_aabb(delta)) }` -/
def compoundLocalAabb3 (rmax hm : K) (parts : List (Iso3 K × BShape3 K)) : Option (Aabb3 K) :=
  (parts.mapM fun (ms : Iso3 K × BShape3 K) => ms.2.aabb hm ms.1).map (rootAabb3 rmax)
def compoundLocalAabb2 (rmax hm : K) (parts : List (Iso2 K × BShape2 K)) : Option (Aabb2 K) :=
  (parts.mapM fun (ms : Iso2 K × BShape2 K) => ms.2.aabb hm ms.1).map (rootAabb2 rmax)

/-- nalgebra `Matrix::max()` / `min()`: `fold(first, simd_max)` over the (non-empty) entries -/
def listMax (h0 : K) (hs : List K) : K := hs.foldl (fun a b => nmax a b) h0
def listMin (h0 : K) (hs : List K) : K := hs.foldl (fun a b => nmin a b) h0

/-- `HeightField::with_flags` (3-D), **corrected behaviour** (`fixes/C09-heightfield-negative-scale.diff`):
the two corners `(-s.x/2, min·s.y, -s.z/2)` and `(s.x/2, max·s.y, s.z/2)` are ordered component-wise, so that
the box is valid (and contains the vertices) for negative scale components too. -/
def heightfieldAabb3 (h0 : K) (hs : List K) (s : V3 K) : Aabb3 K :=
  let hscale := s.smul (lit 1 2)
  let p : V3 K := ⟨-hscale.x, listMin h0 hs * s.y, -hscale.z⟩
  let q : V3 K := ⟨hscale.x, listMax h0 hs * s.y, hscale.z⟩
  ⟨p.inf q, p.sup q⟩
def heightfieldAabb2 (h0 : K) (hs : List K) (s : V2 K) : Aabb2 K :=
  let hscale := s.smul (lit 1 2)
  let p : V2 K := ⟨-hscale.x, listMin h0 hs * s.y⟩
  let q : V2 K := ⟨hscale.x, listMax h0 hs * s.y⟩
  ⟨p.inf q, p.sup q⟩

/-- `HeightField::set_scale(old ∘ sc)` (= `scaled(sc)`) on the stored box: `ratio = new_scale / old_scale`,
both corners multiplied by `ratio`; **corrected behaviour**: re-ordered component-wise. -/
def heightfieldRescale3 (b : Aabb3 K) (old sc : V3 K) : Aabb3 K :=
  let nw := old.cmul sc
  let ratio : V3 K := ⟨nw.x / old.x, nw.y / old.y, nw.z / old.z⟩
  let p := b.mins.cmul ratio
  let q := b.maxs.cmul ratio
  ⟨p.inf q, p.sup q⟩
def heightfieldRescale2 (b : Aabb2 K) (old sc : V2 K) : Aabb2 K :=
  let nw := old.cmul sc
  let ratio : V2 K := ⟨nw.x / old.x, nw.y / old.y⟩
  let p := b.mins.cmul ratio
  let q := b.maxs.cmul ratio
  ⟨p.inf q, p.sup q⟩

end Model
