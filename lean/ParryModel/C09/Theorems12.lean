import ParryModel.C01.Lemmas
import ParryModel.C09.Theorems9
/-!
# C09 theorems, part 12: tightness of the closed-form boxes (the box is exact)

Every face of the box carries a point of the posed shape (`Touches3`, defined in part 4), for every unit-quaternion pose:
* `Aabb::transform_by`: every face of the transformed box carries the image of a corner of the box — together with
  `aabb_transformBy_contains` the result is the *least* box around the image of the box (`|R|·he` is exact, not just an
  enclosure);
* `Cuboid::aabb(pos)`, `Ball::aabb(pos)`, `Capsule::aabb(pos)`, `Triangle::aabb(pos)` / `local_aabb`.
(Cone, Cylinder, Segment, ConvexPolyhedron, RoundShape: parts 4 and 5.)
-/
set_option linter.unusedSectionVars false
set_option linter.unusedVariables false
set_option linter.unusedSimpArgs false
set_option linter.style.haveILetI false

namespace C09
open Model IsoLemmas

variable {K : Type} [Field K] [LinearOrder K] [IsStrictOrderedRing K] (sq : K → K)

/-! ## one row of `|R|` -/

private theorem pick_hi (r lo hi : K) :
    r * (if 0 ≤ r then hi else lo) = r * ((lo + hi) * (1/2)) + |r| * ((hi - lo) * (1/2)) := by
  split_ifs with h
  · rw [abs_of_nonneg h]; ring
  · rw [abs_of_neg (not_le.1 h)]; ring

private theorem pick_lo (r lo hi : K) :
    r * (if 0 ≤ r then lo else hi) = r * ((lo + hi) * (1/2)) - |r| * ((hi - lo) * (1/2)) := by
  split_ifs with h
  · rw [abs_of_nonneg h]; ring
  · rw [abs_of_neg (not_le.1 h)]; ring

/-- `c` is one of the eight corners of the box -/
def IsCorner (a : Aabb3 K) (c : V3 K) : Prop :=
  (c.x = a.mins.x ∨ c.x = a.maxs.x) ∧ (c.y = a.mins.y ∨ c.y = a.maxs.y) ∧ (c.z = a.mins.z ∨ c.z = a.maxs.z)

private theorem ite_corner (P : Prop) [Decidable P] (lo hi : K) :
    ((if P then hi else lo) = lo ∨ (if P then hi else lo) = hi) ∧ ((if P then lo else hi) = lo ∨ (if P then lo else hi) = hi) := by
  split_ifs <;> simp

/-- **`Aabb::transform_by` is exact**: for a unit quaternion, every face of `a.transform_by(m)` carries `m • c` for a
corner `c` of `a` (no validity hypothesis needed: the statement is an identity about the corners). -/
theorem aabb_transformBy_tight (a : Aabb3 K) (m : Iso3 K)
    (hq : m.qi * m.qi + m.qj * m.qj + m.qk * m.qk + m.qw * m.qw = 1) :
    letI := fieldNum K sq
    Touches3 (fun x => ∃ c, IsCorner a c ∧ x = m.act c) (a.transformBy m) := by
  have hl : ((mkRat 1 2 : Rat) : K) = 1/2 := by norm_num
  obtain ⟨cx, cy, cz⟩ := rot_eq_mat sq m (@Aabb3.center K (fieldNum K sq) a) hq
  generalize hr00 : (@Iso3.mat K (fieldNum K sq) m).1.x = r00 at cx
  generalize hr01 : (@Iso3.mat K (fieldNum K sq) m).1.y = r01 at cx
  generalize hr02 : (@Iso3.mat K (fieldNum K sq) m).1.z = r02 at cx
  generalize hr10 : (@Iso3.mat K (fieldNum K sq) m).2.1.x = r10 at cy
  generalize hr11 : (@Iso3.mat K (fieldNum K sq) m).2.1.y = r11 at cy
  generalize hr12 : (@Iso3.mat K (fieldNum K sq) m).2.1.z = r12 at cy
  generalize hr20 : (@Iso3.mat K (fieldNum K sq) m).2.2.x = r20 at cz
  generalize hr21 : (@Iso3.mat K (fieldNum K sq) m).2.2.y = r21 at cz
  generalize hr22 : (@Iso3.mat K (fieldNum K sq) m).2.2.z = r22 at cz
  have key : ∀ c : V3 K, (@Iso3.act K (fieldNum K sq) m c).x = r00 * c.x + r01 * c.y + r02 * c.z + m.t.x ∧
      (@Iso3.act K (fieldNum K sq) m c).y = r10 * c.x + r11 * c.y + r12 * c.z + m.t.y ∧
      (@Iso3.act K (fieldNum K sq) m c).z = r20 * c.x + r21 * c.y + r22 * c.z + m.t.z := by
    intro c
    obtain ⟨px, py, pz⟩ := rot_eq_mat sq m c hq
    rw [hr00, hr01, hr02] at px; rw [hr10, hr11, hr12] at py; rw [hr20, hr21, hr22] at pz
    simp only [Iso3.act, V3.add, px, py, pz, and_self]
  simp only [Touches3, Aabb3.transformBy, Iso3.absTransform, Aabb3.halfExtents, V3.add, V3.neg, V3.sub, V3.smul, fieldNum_nabs,
    fieldNum_lit, hl, hr00, hr01, hr02, hr10, hr11, hr12, hr20, hr21, hr22]
  simp only [Aabb3.center, V3.center, V3.add, V3.smul, fieldNum_lit, hl] at cx cy cz
  refine ⟨⟨_, ⟨⟨if 0 ≤ r00 then a.maxs.x else a.mins.x, if 0 ≤ r01 then a.maxs.y else a.mins.y, if 0 ≤ r02 then a.maxs.z else a.mins.z⟩,
      ⟨(ite_corner _ _ _).1, (ite_corner _ _ _).1, (ite_corner _ _ _).1⟩, rfl⟩, ?_⟩,
    ⟨_, ⟨⟨if 0 ≤ r00 then a.mins.x else a.maxs.x, if 0 ≤ r01 then a.mins.y else a.maxs.y, if 0 ≤ r02 then a.mins.z else a.maxs.z⟩,
      ⟨(ite_corner _ _ _).2, (ite_corner _ _ _).2, (ite_corner _ _ _).2⟩, rfl⟩, ?_⟩,
    ⟨_, ⟨⟨if 0 ≤ r10 then a.maxs.x else a.mins.x, if 0 ≤ r11 then a.maxs.y else a.mins.y, if 0 ≤ r12 then a.maxs.z else a.mins.z⟩,
      ⟨(ite_corner _ _ _).1, (ite_corner _ _ _).1, (ite_corner _ _ _).1⟩, rfl⟩, ?_⟩,
    ⟨_, ⟨⟨if 0 ≤ r10 then a.mins.x else a.maxs.x, if 0 ≤ r11 then a.mins.y else a.maxs.y, if 0 ≤ r12 then a.mins.z else a.maxs.z⟩,
      ⟨(ite_corner _ _ _).2, (ite_corner _ _ _).2, (ite_corner _ _ _).2⟩, rfl⟩, ?_⟩,
    ⟨_, ⟨⟨if 0 ≤ r20 then a.maxs.x else a.mins.x, if 0 ≤ r21 then a.maxs.y else a.mins.y, if 0 ≤ r22 then a.maxs.z else a.mins.z⟩,
      ⟨(ite_corner _ _ _).1, (ite_corner _ _ _).1, (ite_corner _ _ _).1⟩, rfl⟩, ?_⟩,
    ⟨_, ⟨⟨if 0 ≤ r20 then a.mins.x else a.maxs.x, if 0 ≤ r21 then a.mins.y else a.maxs.y, if 0 ≤ r22 then a.mins.z else a.maxs.z⟩,
      ⟨(ite_corner _ _ _).2, (ite_corner _ _ _).2, (ite_corner _ _ _).2⟩, rfl⟩, ?_⟩⟩
  · rw [(key _).1, (key (@Aabb3.center K (fieldNum K sq) a)).1]
    simp only [Aabb3.center, V3.center, V3.add, V3.smul, fieldNum_lit, hl]
    rw [pick_hi, pick_hi, pick_hi]; ring
  · rw [(key _).1, (key (@Aabb3.center K (fieldNum K sq) a)).1]
    simp only [Aabb3.center, V3.center, V3.add, V3.smul, fieldNum_lit, hl]
    rw [pick_lo, pick_lo, pick_lo]; ring
  · rw [(key _).2.1, (key (@Aabb3.center K (fieldNum K sq) a)).2.1]
    simp only [Aabb3.center, V3.center, V3.add, V3.smul, fieldNum_lit, hl]
    rw [pick_hi, pick_hi, pick_hi]; ring
  · rw [(key _).2.1, (key (@Aabb3.center K (fieldNum K sq) a)).2.1]
    simp only [Aabb3.center, V3.center, V3.add, V3.smul, fieldNum_lit, hl]
    rw [pick_lo, pick_lo, pick_lo]; ring
  · rw [(key _).2.2, (key (@Aabb3.center K (fieldNum K sq) a)).2.2]
    simp only [Aabb3.center, V3.center, V3.add, V3.smul, fieldNum_lit, hl]
    rw [pick_hi, pick_hi, pick_hi]; ring
  · rw [(key _).2.2, (key (@Aabb3.center K (fieldNum K sq) a)).2.2]
    simp only [Aabb3.center, V3.center, V3.add, V3.smul, fieldNum_lit, hl]
    rw [pick_lo, pick_lo, pick_lo]; ring

/-! ## Cuboid, Ball, Capsule, Triangle -/

private theorem pick_abs (r h : K) : r * (if 0 ≤ r then h else -h) = |r| * h ∧ r * (if 0 ≤ r then -h else h) = -(|r| * h) := by
  split_ifs with hr
  · rw [abs_of_nonneg hr]; exact ⟨rfl, by ring⟩
  · rw [abs_of_neg (not_le.1 hr)]; exact ⟨by ring, by ring⟩

private theorem ite_mem (P : Prop) [Decidable P] (h : K) (hh : 0 ≤ h) :
    (-h ≤ (if P then h else -h) ∧ (if P then h else -h) ≤ h) ∧ (-h ≤ (if P then -h else h) ∧ (if P then -h else h) ≤ h) := by
  split_ifs <;> exact ⟨⟨by linarith, by linarith⟩, by linarith, by linarith⟩

/-- **`Cuboid::aabb(pos)` is exact**: every face of the box carries a vertex of the posed cuboid (`he ≥ 0`, unit quaternion). -/
theorem cuboid_aabb_tight (he : V3 K) (hx : 0 ≤ he.x) (hy : 0 ≤ he.y) (hz : 0 ≤ he.z) (m : Iso3 K)
    (hq : m.qi * m.qi + m.qj * m.qj + m.qk * m.qk + m.qw * m.qw = 1) :
    letI := fieldNum K sq
    Touches3 (posed3 sq m (Cuboid3.mk he).Mem) (cuboidAabb he m) := by
  generalize hr00 : (@Iso3.mat K (fieldNum K sq) m).1.x = r00
  generalize hr01 : (@Iso3.mat K (fieldNum K sq) m).1.y = r01
  generalize hr02 : (@Iso3.mat K (fieldNum K sq) m).1.z = r02
  generalize hr10 : (@Iso3.mat K (fieldNum K sq) m).2.1.x = r10
  generalize hr11 : (@Iso3.mat K (fieldNum K sq) m).2.1.y = r11
  generalize hr12 : (@Iso3.mat K (fieldNum K sq) m).2.1.z = r12
  generalize hr20 : (@Iso3.mat K (fieldNum K sq) m).2.2.x = r20
  generalize hr21 : (@Iso3.mat K (fieldNum K sq) m).2.2.y = r21
  generalize hr22 : (@Iso3.mat K (fieldNum K sq) m).2.2.z = r22
  have key : ∀ c : V3 K, (@Iso3.act K (fieldNum K sq) m c).x = r00 * c.x + r01 * c.y + r02 * c.z + m.t.x ∧
      (@Iso3.act K (fieldNum K sq) m c).y = r10 * c.x + r11 * c.y + r12 * c.z + m.t.y ∧
      (@Iso3.act K (fieldNum K sq) m c).z = r20 * c.x + r21 * c.y + r22 * c.z + m.t.z := by
    intro c
    obtain ⟨px, py, pz⟩ := rot_eq_mat sq m c hq
    rw [hr00, hr01, hr02] at px; rw [hr10, hr11, hr12] at py; rw [hr20, hr21, hr22] at pz
    simp only [Iso3.act, V3.add, px, py, pz, and_self]
  simp only [Touches3, posed3, cuboidAabb, Aabb3.fromHalfExtents, Iso3.absTransform, V3.add, V3.sub, fieldNum_nabs,
    hr00, hr01, hr02, hr10, hr11, hr12, hr20, hr21, hr22]
  refine ⟨⟨_, ⟨⟨if 0 ≤ r00 then he.x else -he.x, if 0 ≤ r01 then he.y else -he.y, if 0 ≤ r02 then he.z else -he.z⟩,
      ⟨(ite_mem _ _ hx).1, (ite_mem _ _ hy).1, (ite_mem _ _ hz).1⟩, rfl⟩, ?_⟩,
    ⟨_, ⟨⟨if 0 ≤ r00 then -he.x else he.x, if 0 ≤ r01 then -he.y else he.y, if 0 ≤ r02 then -he.z else he.z⟩,
      ⟨(ite_mem _ _ hx).2, (ite_mem _ _ hy).2, (ite_mem _ _ hz).2⟩, rfl⟩, ?_⟩,
    ⟨_, ⟨⟨if 0 ≤ r10 then he.x else -he.x, if 0 ≤ r11 then he.y else -he.y, if 0 ≤ r12 then he.z else -he.z⟩,
      ⟨(ite_mem _ _ hx).1, (ite_mem _ _ hy).1, (ite_mem _ _ hz).1⟩, rfl⟩, ?_⟩,
    ⟨_, ⟨⟨if 0 ≤ r10 then -he.x else he.x, if 0 ≤ r11 then -he.y else he.y, if 0 ≤ r12 then -he.z else he.z⟩,
      ⟨(ite_mem _ _ hx).2, (ite_mem _ _ hy).2, (ite_mem _ _ hz).2⟩, rfl⟩, ?_⟩,
    ⟨_, ⟨⟨if 0 ≤ r20 then he.x else -he.x, if 0 ≤ r21 then he.y else -he.y, if 0 ≤ r22 then he.z else -he.z⟩,
      ⟨(ite_mem _ _ hx).1, (ite_mem _ _ hy).1, (ite_mem _ _ hz).1⟩, rfl⟩, ?_⟩,
    ⟨_, ⟨⟨if 0 ≤ r20 then -he.x else he.x, if 0 ≤ r21 then -he.y else he.y, if 0 ≤ r22 then -he.z else he.z⟩,
      ⟨(ite_mem _ _ hx).2, (ite_mem _ _ hy).2, (ite_mem _ _ hz).2⟩, rfl⟩, ?_⟩⟩
  · rw [(key _).1]; simp only [(pick_abs _ _).1]; ring
  · rw [(key _).1]; simp only [(pick_abs _ _).2]; ring
  · rw [(key _).2.1]; simp only [(pick_abs _ _).1]; ring
  · rw [(key _).2.1]; simp only [(pick_abs _ _).2]; ring
  · rw [(key _).2.2]; simp only [(pick_abs _ _).1]; ring
  · rw [(key _).2.2]; simp only [(pick_abs _ _).2]; ring

/-- every point `X` of space is the image `m • q` of a point `q` whose distance to any `s` is the distance from `X` to `m • s` -/
private theorem preimage (m : Iso3 K) (X s : V3 K)
    (hq : m.qi * m.qi + m.qj * m.qj + m.qk * m.qk + m.qw * m.qw = 1) :
    letI := fieldNum K sq
    ∃ q, m.act q = X ∧ (q.sub s).normSq = (X.sub (m.act s)).normSq := by
  refine ⟨@Iso3.invAct K (fieldNum K sq) m X, C01.act_invAct3 sq m X hq, ?_⟩
  rw [← act_dist sq m _ s hq, C01.act_invAct3 sq m X hq]

private theorem act_zero (m : Iso3 K) :
    letI := fieldNum K sq
    m.act V3.zero = m.t := by
  rcases m with ⟨qi, qj, qk, qw, ⟨tx, ty, tz⟩⟩
  simp only [Iso3.act, Iso3.rot, Iso3.rotQ, Iso3.qv, V3.add, V3.smul, V3.cross, V3.zero, fieldNum_two, V3.mk.injEq]
  refine ⟨?_, ?_, ?_⟩ <;> ring

/-- **`Ball::aabb(pos)` is exact**: each face `t ± r e_i` carries a point of the posed ball. -/
theorem ball_aabb_tight (r : K) (hr : 0 ≤ r) (m : Iso3 K)
    (hq : m.qi * m.qi + m.qj * m.qj + m.qk * m.qk + m.qw * m.qw = 1) :
    letI := fieldNum K sq
    Touches3 (posed3 sq m (Ball.mk r).Mem3) (ballAabb r m) := by
  have act0 := act_zero sq m
  have pt : letI := fieldNum K sq; ∀ d : V3 K, d.x * d.x + d.y * d.y + d.z * d.z = r * r →
      ∃ q, posed3 sq m (Ball.mk r).Mem3 q ∧ q = @V3.add K (fieldNum K sq) m.t d := by
    intro d hd
    obtain ⟨q, h1, h2⟩ := preimage sq m (@V3.add K (fieldNum K sq) m.t d) (@V3.zero K (fieldNum K sq)) hq
    refine ⟨_, ⟨q, ?_, h1.symm⟩, rfl⟩
    rw [act0] at h2
    simp only [Ball.Mem3, V3.normSq, V3.dot, V3.sub, V3.add, V3.zero] at h2 ⊢
    have e : ∀ t : K, t - 0 = t := sub_zero
    simp only [e] at h2
    rw [h2]
    have : m.t.x + d.x - m.t.x = d.x ∧ m.t.y + d.y - m.t.y = d.y ∧ m.t.z + d.z - m.t.z = d.z := ⟨by ring, by ring, by ring⟩
    rw [this.1, this.2.1, this.2.2, hd]
  simp only [Touches3, ballAabb, V3.add]
  refine ⟨?_, ?_, ?_, ?_, ?_, ?_⟩
  · obtain ⟨q, h1, h2⟩ := pt ⟨r, 0, 0⟩ (by ring); exact ⟨q, h1, by rw [h2]; simp [V3.add]⟩
  · obtain ⟨q, h1, h2⟩ := pt ⟨-r, 0, 0⟩ (by ring); exact ⟨q, h1, by rw [h2]; simp [V3.add]⟩
  · obtain ⟨q, h1, h2⟩ := pt ⟨0, r, 0⟩ (by ring); exact ⟨q, h1, by rw [h2]; simp [V3.add]⟩
  · obtain ⟨q, h1, h2⟩ := pt ⟨0, -r, 0⟩ (by ring); exact ⟨q, h1, by rw [h2]; simp [V3.add]⟩
  · obtain ⟨q, h1, h2⟩ := pt ⟨0, 0, r⟩ (by ring); exact ⟨q, h1, by rw [h2]; simp [V3.add]⟩
  · obtain ⟨q, h1, h2⟩ := pt ⟨0, 0, -r⟩ (by ring); exact ⟨q, h1, by rw [h2]; simp [V3.add]⟩

/-- **`Capsule::aabb(pos)` is exact**: each face carries the point `m•a ± r e_i` or `m•b ± r e_i` of the posed capsule. -/
theorem capsule_aabb_tight (a b : V3 K) (r : K) (hr : 0 ≤ r) (m : Iso3 K)
    (hq : m.qi * m.qi + m.qj * m.qj + m.qk * m.qk + m.qw * m.qw = 1) :
    letI := fieldNum K sq
    Touches3 (posed3 sq m (Capsule3.mk a b r).Mem) (capsuleAabb a b r m) := by
  have ma : letI := fieldNum K sq; (Segment3.mk a b).Mem a := ⟨0, le_refl _, zero_le_one, by
    obtain ⟨x, y, z⟩ := a; simp [V3.add, V3.sub, V3.smul]⟩
  have mb : letI := fieldNum K sq; (Segment3.mk a b).Mem b := ⟨1, zero_le_one, le_refl _, by
    obtain ⟨x, y, z⟩ := a; obtain ⟨x', y', z'⟩ := b; simp [V3.add, V3.sub, V3.smul]⟩
  -- a point at distance exactly r from the image of an end point is in the posed capsule
  have pt : letI := fieldNum K sq; ∀ s : V3 K, (Segment3.mk a b).Mem s → ∀ d : V3 K, d.x * d.x + d.y * d.y + d.z * d.z = r * r →
      posed3 sq m (Capsule3.mk a b r).Mem (@V3.add K (fieldNum K sq) (@Iso3.act K (fieldNum K sq) m s) d) := by
    intro s hs d hd
    obtain ⟨q, h1, h2⟩ := preimage sq m (@V3.add K (fieldNum K sq) (@Iso3.act K (fieldNum K sq) m s) d) s hq
    refine ⟨q, ⟨s, hs, ?_⟩, h1.symm⟩
    rw [h2]
    simp only [V3.normSq, V3.dot, V3.sub, V3.add]
    generalize (@Iso3.act K (fieldNum K sq) m s) = S
    have : S.x + d.x - S.x = d.x ∧ S.y + d.y - S.y = d.y ∧ S.z + d.z - S.z = d.z := ⟨by ring, by ring, by ring⟩
    rw [this.1, this.2.1, this.2.2, hd]
  simp only [Touches3, capsuleAabb, V3.add, V3.sub, V3.inf, V3.sup, fieldNum_nmin, fieldNum_nmax]
  set A := @Iso3.act K (fieldNum K sq) m a
  set B := @Iso3.act K (fieldNum K sq) m b
  refine ⟨?_, ?_, ?_, ?_, ?_, ?_⟩
  · rcases le_total A.x B.x with h | h
    · exact ⟨_, pt b mb ⟨r, 0, 0⟩ (by ring), by simp only [V3.add]; rw [max_eq_right h]⟩
    · exact ⟨_, pt a ma ⟨r, 0, 0⟩ (by ring), by simp only [V3.add]; rw [max_eq_left h]⟩
  · rcases le_total A.x B.x with h | h
    · exact ⟨_, pt a ma ⟨-r, 0, 0⟩ (by ring), by simp only [V3.add]; rw [min_eq_left h]; ring⟩
    · exact ⟨_, pt b mb ⟨-r, 0, 0⟩ (by ring), by simp only [V3.add]; rw [min_eq_right h]; ring⟩
  · rcases le_total A.y B.y with h | h
    · exact ⟨_, pt b mb ⟨0, r, 0⟩ (by ring), by simp only [V3.add]; rw [max_eq_right h]⟩
    · exact ⟨_, pt a ma ⟨0, r, 0⟩ (by ring), by simp only [V3.add]; rw [max_eq_left h]⟩
  · rcases le_total A.y B.y with h | h
    · exact ⟨_, pt a ma ⟨0, -r, 0⟩ (by ring), by simp only [V3.add]; rw [min_eq_left h]; ring⟩
    · exact ⟨_, pt b mb ⟨0, -r, 0⟩ (by ring), by simp only [V3.add]; rw [min_eq_right h]; ring⟩
  · rcases le_total A.z B.z with h | h
    · exact ⟨_, pt b mb ⟨0, 0, r⟩ (by ring), by simp only [V3.add]; rw [max_eq_right h]⟩
    · exact ⟨_, pt a ma ⟨0, 0, r⟩ (by ring), by simp only [V3.add]; rw [max_eq_left h]⟩
  · rcases le_total A.z B.z with h | h
    · exact ⟨_, pt a ma ⟨0, 0, -r⟩ (by ring), by simp only [V3.add]; rw [min_eq_left h]; ring⟩
    · exact ⟨_, pt b mb ⟨0, 0, -r⟩ (by ring), by simp only [V3.add]; rw [min_eq_right h]; ring⟩

private theorem min3_attained (x y z : K) : min (min x y) z = x ∨ min (min x y) z = y ∨ min (min x y) z = z := by
  rcases le_total x y with h | h <;> rcases le_total (min x y) z with h' | h'
  · left; rw [min_eq_left h', min_eq_left h]
  · right; right; rw [min_eq_right h']
  · right; left; rw [min_eq_left h', min_eq_right h]
  · right; right; rw [min_eq_right h']
private theorem max3_attained (x y z : K) : max (max x y) z = x ∨ max (max x y) z = y ∨ max (max x y) z = z := by
  rcases le_total x y with h | h <;> rcases le_total (max x y) z with h' | h'
  · right; right; rw [max_eq_right h']
  · right; left; rw [max_eq_left h', max_eq_right h]
  · right; right; rw [max_eq_right h']
  · left; rw [max_eq_left h', max_eq_left h]

/-- **`Triangle::local_aabb` / `aabb(pos)` is exact**: each face carries a vertex (for the posed form the vertices are
`m•a, m•b, m•c`; the box is the local box of the transformed triangle, so this holds for any quaternion). -/
theorem triangle_local_aabb_tight (a b c : V3 K) :
    letI := fieldNum K sq
    Touches3 (fun q => q = a ∨ q = b ∨ q = c) (triangleLocalAabb a b c) := by
  simp only [Touches3, triangleLocalAabb, fieldNum_nmin, fieldNum_nmax]
  refine ⟨?_, ?_, ?_, ?_, ?_, ?_⟩
  · rcases max3_attained a.x b.x c.x with h | h | h
    · exact ⟨a, Or.inl rfl, h.symm⟩
    · exact ⟨b, Or.inr (Or.inl rfl), h.symm⟩
    · exact ⟨c, Or.inr (Or.inr rfl), h.symm⟩
  · rcases min3_attained a.x b.x c.x with h | h | h
    · exact ⟨a, Or.inl rfl, h.symm⟩
    · exact ⟨b, Or.inr (Or.inl rfl), h.symm⟩
    · exact ⟨c, Or.inr (Or.inr rfl), h.symm⟩
  · rcases max3_attained a.y b.y c.y with h | h | h
    · exact ⟨a, Or.inl rfl, h.symm⟩
    · exact ⟨b, Or.inr (Or.inl rfl), h.symm⟩
    · exact ⟨c, Or.inr (Or.inr rfl), h.symm⟩
  · rcases min3_attained a.y b.y c.y with h | h | h
    · exact ⟨a, Or.inl rfl, h.symm⟩
    · exact ⟨b, Or.inr (Or.inl rfl), h.symm⟩
    · exact ⟨c, Or.inr (Or.inr rfl), h.symm⟩
  · rcases max3_attained a.z b.z c.z with h | h | h
    · exact ⟨a, Or.inl rfl, h.symm⟩
    · exact ⟨b, Or.inr (Or.inl rfl), h.symm⟩
    · exact ⟨c, Or.inr (Or.inr rfl), h.symm⟩
  · rcases min3_attained a.z b.z c.z with h | h | h
    · exact ⟨a, Or.inl rfl, h.symm⟩
    · exact ⟨b, Or.inr (Or.inl rfl), h.symm⟩
    · exact ⟨c, Or.inr (Or.inr rfl), h.symm⟩

theorem triangle_aabb_tight (a b c : V3 K) (m : Iso3 K) :
    letI := fieldNum K sq
    Touches3 (fun q => q = m.act a ∨ q = m.act b ∨ q = m.act c) (triangleAabb a b c m) :=
  triangle_local_aabb_tight sq _ _ _

end C09
