import ParryModel.C09.Theorems2
import ParryModel.C09.Theorems4
import ParryModel.C10.Lemmas
/-!
# C09 theorems, part 10: the remaining bounding spheres and the sphere algebra

* `Capsule::bounding_sphere`, `Triangle::bounding_sphere`, `Segment::bounding_sphere` (the last two through
  `point_cloud_bounding_sphere`): every point of the posed shape lies in the sphere, for every unit-quaternion pose;
* `BoundingSphere::transform_by`, `loosened`, `merged`: containment is preserved (`merged` contains both operands,
  `loosened(a)` contains every point within distance `a` of the sphere).

Everything is stated in squared form (`SMem`), the only place where `sqrt` matters is the radius (`LawfulSqrt`).
-/
set_option linter.unusedSectionVars false
set_option linter.unusedVariables false
set_option linter.unusedSimpArgs false
set_option linter.style.haveILetI false

namespace C09
open Model IsoLemmas

variable {K : Type} [Field K] [LinearOrder K] [IsStrictOrderedRing K] (sq : K → K)

/-! ## the triangle inequality and convexity of a ball, in squared coordinates -/

private theorem ss3 (x y z : K) : 0 ≤ x * x + y * y + z * z :=
  add_nonneg (add_nonneg (mul_self_nonneg _) (mul_self_nonneg _)) (mul_self_nonneg _)

private theorem cs3 (ux uy uz vx vy vz : K) :
    (ux * vx + uy * vy + uz * vz) ^ 2 ≤ (ux * ux + uy * uy + uz * uz) * (vx * vx + vy * vy + vz * vz) := by
  nlinarith [sq_nonneg (ux * vy - uy * vx), sq_nonneg (ux * vz - uz * vx), sq_nonneg (uy * vz - uz * vy)]

private theorem dot_le (ux uy uz vx vy vz r s : K) (hr : 0 ≤ r) (hs : 0 ≤ s)
    (hU : ux * ux + uy * uy + uz * uz ≤ r * r) (hV : vx * vx + vy * vy + vz * vz ≤ s * s) :
    ux * vx + uy * vy + uz * vz ≤ r * s := by
  have h1 := cs3 ux uy uz vx vy vz
  have hV0 : 0 ≤ vx * vx + vy * vy + vz * vz := ss3 _ _ _
  have h2 : (ux * ux + uy * uy + uz * uz) * (vx * vx + vy * vy + vz * vz) ≤ (r * r) * (s * s) :=
    mul_le_mul hU hV hV0 (mul_self_nonneg r)
  have h3 : (ux * vx + uy * vy + uz * vz) ^ 2 ≤ (r * s) ^ 2 := by nlinarith
  exact (abs_le_of_sq_le_sq' h3 (mul_nonneg hr hs)).2

/-- `|u| ≤ r`, `|v| ≤ s` ⇒ `|u + v| ≤ r + s` (squared) -/
private theorem tri_ineq (ux uy uz vx vy vz r s : K) (hr : 0 ≤ r) (hs : 0 ≤ s)
    (hU : ux * ux + uy * uy + uz * uz ≤ r * r) (hV : vx * vx + vy * vy + vz * vz ≤ s * s) :
    (ux + vx) * (ux + vx) + (uy + vy) * (uy + vy) + (uz + vz) * (uz + vz) ≤ (r + s) * (r + s) := by
  have := dot_le ux uy uz vx vy vz r s hr hs hU hV
  nlinarith

/-- a ball is convex (three points, barycentric weights `1-u-v, u, v`) -/
private theorem ball_convex3 (ax ay az bx b_y bz cx cy cz R u v : K) (hu : 0 ≤ u) (hv : 0 ≤ v) (huv : u + v ≤ 1)
    (hA : ax * ax + ay * ay + az * az ≤ R) (hB : bx * bx + b_y * b_y + bz * bz ≤ R) (hC : cx * cx + cy * cy + cz * cz ≤ R) :
    (ax + (bx - ax) * u + (cx - ax) * v) * (ax + (bx - ax) * u + (cx - ax) * v)
      + (ay + (b_y - ay) * u + (cy - ay) * v) * (ay + (b_y - ay) * u + (cy - ay) * v)
      + (az + (bz - az) * u + (cz - az) * v) * (az + (bz - az) * u + (cz - az) * v) ≤ R := by
  have hw : 0 ≤ 1 - u - v := by linarith
  have dAB : 0 ≤ (ax - bx) * (ax - bx) + (ay - b_y) * (ay - b_y) + (az - bz) * (az - bz) := ss3 _ _ _
  have dAC : 0 ≤ (ax - cx) * (ax - cx) + (ay - cy) * (ay - cy) + (az - cz) * (az - cz) := ss3 _ _ _
  have dBC : 0 ≤ (bx - cx) * (bx - cx) + (b_y - cy) * (b_y - cy) + (bz - cz) * (bz - cz) := ss3 _ _ _
  have h01 := mul_nonneg (mul_nonneg hw hu) dAB
  have h02 := mul_nonneg (mul_nonneg hw hv) dAC
  have h12 := mul_nonneg (mul_nonneg hu hv) dBC
  have hA' := mul_le_mul_of_nonneg_left hA hw
  have hB' := mul_le_mul_of_nonneg_left hB hu
  have hC' := mul_le_mul_of_nonneg_left hC hv
  linarith [h01, h02, h12, hA', hB', hC']

/-! ## `BoundingSphere::transform_by`, `loosened` -/

/-- **transform_by**: for every unit-quaternion pose `m`, `s.transform_by(m)` contains `m • p` for every `p` of `s`
(and nothing else: the squared distance to the centre is preserved, so it is an `iff`). -/
theorem sphere_transformBy_contains (s : Sphere3 K) (m : Iso3 K) (p : V3 K)
    (hq : m.qi * m.qi + m.qj * m.qj + m.qk * m.qk + m.qw * m.qw = 1) :
    letI := fieldNum K sq
    SMem (s.transformBy m) (m.act p) ↔ SMem s p := by
  have hd := act_dist sq m p s.center hq
  simp only [SMem, Sphere3.transformBy, V3.normSq, V3.dot, V3.sub] at hd ⊢
  rw [hd]

/-- **loosened**: `s.loosened(a)` (`a ≥ 0`, as the code asserts) contains every point within distance `a` of a point of
`s` — in particular (with `q = p`) every point of `s`. -/
theorem sphere_loosened_contains (s : Sphere3 K) (a : K) (p q : V3 K) (hr : 0 ≤ s.radius) (ha : 0 ≤ a)
    (hq : SMem s q) (hpq : (p.x - q.x) * (p.x - q.x) + (p.y - q.y) * (p.y - q.y) + (p.z - q.z) * (p.z - q.z) ≤ a * a) :
    letI := fieldNum K sq
    SMem (s.loosened a) p := by
  simp only [SMem, Sphere3.loosened] at hq ⊢
  have := tri_ineq _ _ _ _ _ _ _ _ hr ha hq hpq
  have e : ∀ x y z : K, x - z = (y - z) + (x - y) := by intros; ring
  rw [e p.x q.x, e p.y q.y, e p.z q.z]
  exact this

example : SMem (⟨⟨0, 0, 0⟩, 1⟩ : Sphere3 ℚ) ⟨1, 0, 0⟩ := by simp [SMem]

/-! ## `point_cloud_bounding_sphere` (Triangle, Segment) -/

private theorem foldmax_spec (g : V3 K → K) (l : List (V3 K)) :
    ∀ acc : K, acc ≤ l.foldl (fun acc p => if acc < g p then g p else acc) acc ∧
      ∀ q ∈ l, g q ≤ l.foldl (fun acc p => if acc < g p then g p else acc) acc := by
  induction l with
  | nil => intro acc; exact ⟨le_refl _, fun q hq => by simp at hq⟩
  | cons x xs ih =>
    intro acc
    simp only [List.foldl_cons, List.mem_cons]
    obtain ⟨h1, h2⟩ := ih (if acc < g x then g x else acc)
    have hacc : acc ≤ (if acc < g x then g x else acc) := by
      split_ifs with h
      · exact h.le
      · exact le_refl _
    have hx : g x ≤ (if acc < g x then g x else acc) := by
      split_ifs with h
      · exact le_refl _
      · exact not_lt.1 h
    refine ⟨le_trans hacc h1, ?_⟩
    rintro q (rfl | hq)
    · exact le_trans hx h1
    · exact h2 q hq

private theorem pcs_core (c : V3 K) (l : List (V3 K)) (hsq : LawfulSqrt sq) :
    ∀ q ∈ l, SMem ⟨c, sq (l.foldl (fun acc p =>
        if acc < (c.x - p.x) * (c.x - p.x) + (c.y - p.y) * (c.y - p.y) + (c.z - p.z) * (c.z - p.z)
        then (c.x - p.x) * (c.x - p.x) + (c.y - p.y) * (c.y - p.y) + (c.z - p.z) * (c.z - p.z) else acc) 0)⟩ q := by
  intro q hq
  obtain ⟨h0, h1⟩ := foldmax_spec (fun p => (c.x - p.x) * (c.x - p.x) + (c.y - p.y) * (c.y - p.y) + (c.z - p.z) * (c.z - p.z)) l 0
  simp only [SMem]
  rw [hsq.sq_mul _ h0]
  have := h1 q hq
  have e : ∀ a b : K, (a - b) * (a - b) = (b - a) * (b - a) := by intros; ring
  rw [e q.x, e q.y, e q.z]
  exact this

/-- `point_cloud_bounding_sphere` contains every point of the cloud (the radius is the largest distance from the
computed centre, whatever that centre is). -/
theorem pointCloudSphere_contains_points (p0 : V3 K) (ps : List (V3 K)) (hsq : LawfulSqrt sq) :
    letI := fieldNum K sq
    ∀ q ∈ p0 :: ps, SMem (pointCloudSphere p0 ps) q := by
  intro q hq
  exact pcs_core sq _ (p0 :: ps) hsq q hq

/-- the radius of `point_cloud_bounding_sphere` is non-negative -/
theorem pointCloudSphere_radius_nonneg (p0 : V3 K) (ps : List (V3 K)) (hsq : LawfulSqrt sq) :
    letI := fieldNum K sq
    0 ≤ (pointCloudSphere p0 ps).radius := by
  simp only [pointCloudSphere, fieldNum_sqrt]
  refine hsq.nonneg _ ?_
  exact (foldmax_spec _ _ 0).1

/-- **ConvexPolyhedron** (`point_cloud_bounding_sphere(points)`, posed): every point of the convex hull of the points —
the polyhedron as a set — lies in the sphere, for every unit-quaternion pose.  (A ball is convex: for `d = q - c`,
`d·d = (q - c)·d ≤ max_v (v - c)·d ≤ (R² + d·d)/2`.) -/
theorem polyhedron_sphere_contains (p0 : V3 K) (ps : List (V3 K)) (m : Iso3 K) (q : V3 K) (hsq : LawfulSqrt sq)
    (hq : m.qi * m.qi + m.qj * m.qj + m.qk * m.qk + m.qw * m.qw = 1) :
    letI := fieldNum K sq
    hullMem3 (p0 :: ps) q → SMem ((pointCloudSphere p0 ps).transformBy m) (m.act q) := by
  intro hh
  rw [sphere_transformBy_contains sq _ m q hq]
  have hpts := pointCloudSphere_contains_points sq p0 ps hsq
  generalize (@pointCloudSphere K (fieldNum K sq) p0 ps) = S at hpts ⊢
  have key := C10.hull3_le sq ⟨q.x - S.center.x, q.y - S.center.y, q.z - S.center.z⟩
    ((q.x - S.center.x) * S.center.x + (q.y - S.center.y) * S.center.y + (q.z - S.center.z) * S.center.z
      + (S.radius * S.radius + ((q.x - S.center.x) * (q.x - S.center.x) + (q.y - S.center.y) * (q.y - S.center.y)
      + (q.z - S.center.z) * (q.z - S.center.z))) / 2)
    (p0 :: ps) q hh (fun v hv => by
      have h := hpts v hv
      simp only [SMem] at h
      simp only [V3.dot, V3.sub, V3.normSq]
      nlinarith [sq_nonneg ((v.x - S.center.x) - (q.x - S.center.x)), sq_nonneg ((v.y - S.center.y) - (q.y - S.center.y)),
        sq_nonneg ((v.z - S.center.z) - (q.z - S.center.z))])
  simp only [V3.dot, V3.sub, V3.normSq, SMem] at key ⊢
  nlinarith [key]

/-- **Triangle**: every point of the posed triangle lies in `Triangle::bounding_sphere(pos)`, for every unit quaternion. -/
theorem triangle_sphere_contains (a b c : V3 K) (m : Iso3 K) (p : V3 K) (hsq : LawfulSqrt sq)
    (hq : m.qi * m.qi + m.qj * m.qj + m.qk * m.qk + m.qw * m.qw = 1) :
    letI := fieldNum K sq
    (Triangle3.mk a b c).Mem p → SMem (triangleSphere a b c m) (m.act p) := by
  rintro ⟨u, v, hu, hv, huv, hp⟩
  simp only [triangleSphere]
  rw [sphere_transformBy_contains sq _ m p hq, hp]
  have hA := pointCloudSphere_contains_points sq a [b, c] hsq a (by simp)
  have hB := pointCloudSphere_contains_points sq a [b, c] hsq b (by simp)
  have hC := pointCloudSphere_contains_points sq a [b, c] hsq c (by simp)
  simp only [SMem, V3.add, V3.sub, V3.smul] at hA hB hC ⊢
  generalize (@pointCloudSphere K (fieldNum K sq) a [b, c]).center = ce at hA hB hC ⊢
  generalize (@pointCloudSphere K (fieldNum K sq) a [b, c]).radius = ra at hA hB hC ⊢
  have := ball_convex3 (a.x - ce.x) (a.y - ce.y) (a.z - ce.z) (b.x - ce.x) (b.y - ce.y) (b.z - ce.z)
    (c.x - ce.x) (c.y - ce.y) (c.z - ce.z) (ra * ra) u v hu hv huv hA hB hC
  convert this using 2 <;> ring

/-- **Segment**: every point of the posed segment lies in `Segment::bounding_sphere(pos)`. -/
theorem segment_sphere_contains (a b : V3 K) (m : Iso3 K) (p : V3 K) (hsq : LawfulSqrt sq)
    (hq : m.qi * m.qi + m.qj * m.qj + m.qk * m.qk + m.qw * m.qw = 1) :
    letI := fieldNum K sq
    (Segment3.mk a b).Mem p → SMem (segmentSphere a b m) (m.act p) := by
  rintro ⟨t, h0, h1, hp⟩
  simp only [segmentSphere]
  rw [sphere_transformBy_contains sq _ m p hq, hp]
  have hA := pointCloudSphere_contains_points sq a [b] hsq a (by simp)
  have hB := pointCloudSphere_contains_points sq a [b] hsq b (by simp)
  simp only [SMem, V3.add, V3.sub, V3.smul] at hA hB ⊢
  generalize (@pointCloudSphere K (fieldNum K sq) a [b]).center = ce at hA hB ⊢
  generalize (@pointCloudSphere K (fieldNum K sq) a [b]).radius = ra at hA hB ⊢
  have := ball_convex3 (a.x - ce.x) (a.y - ce.y) (a.z - ce.z) (b.x - ce.x) (b.y - ce.y) (b.z - ce.z)
    (a.x - ce.x) (a.y - ce.y) (a.z - ce.z) (ra * ra) t 0 h0 (le_refl _) (by linarith) hA hB hA
  convert this using 2 <;> ring

/-! ## `Capsule::bounding_sphere` -/

/-- **Capsule**: every point of the posed capsule lies in `Capsule::bounding_sphere(pos)` (centre = midpoint of the
segment, radius = `r + |b-a|/2`), for every unit quaternion and every `r ≥ 0`. -/
theorem capsule_sphere_contains (a b : V3 K) (r : K) (hr : 0 ≤ r) (m : Iso3 K) (p : V3 K) (hsq : LawfulSqrt sq)
    (hq : m.qi * m.qi + m.qj * m.qj + m.qk * m.qk + m.qw * m.qw = 1) :
    letI := fieldNum K sq
    (Capsule3.mk a b r).Mem p → SMem (capsuleSphere a b r m) (m.act p) := by
  rintro ⟨q, ⟨t, h0, h1, hqe⟩, hd⟩
  simp only [capsuleSphere]
  rw [sphere_transformBy_contains sq _ m p hq]
  rw [hqe] at hd
  have hl : ((mkRat 1 2 : Rat) : K) = 1/2 := by norm_num
  have hn : 0 ≤ (b.x - a.x) * (b.x - a.x) + (b.y - a.y) * (b.y - a.y) + (b.z - a.z) * (b.z - a.z) := ss3 _ _ _
  have hs0 := hsq.nonneg _ hn
  have hs1 := hsq.sq_mul _ hn
  simp only [SMem, V3.center, V3.norm, V3.normSq, V3.dot, V3.add, V3.sub, V3.smul, fieldNum_sqrt, fieldNum_two, fieldNum_lit, hl] at hd ⊢
  set n := sq ((b.x - a.x) * (b.x - a.x) + (b.y - a.y) * (b.y - a.y) + (b.z - a.z) * (b.z - a.z)) with hn_def
  -- |q - mid|² = (t - 1/2)² |b - a|² ≤ (n/2)²
  have ht : (t - 1/2) * (t - 1/2) ≤ 1/4 := by nlinarith
  have hV : ((t - 1/2) * (b.x - a.x)) * ((t - 1/2) * (b.x - a.x)) + ((t - 1/2) * (b.y - a.y)) * ((t - 1/2) * (b.y - a.y))
      + ((t - 1/2) * (b.z - a.z)) * ((t - 1/2) * (b.z - a.z)) ≤ (n / 2) * (n / 2) := by
    have : (n / 2) * (n / 2) = 1/4 * ((b.x - a.x) * (b.x - a.x) + (b.y - a.y) * (b.y - a.y) + (b.z - a.z) * (b.z - a.z)) := by
      rw [← hs1]; ring
    rw [this]
    nlinarith [mul_le_mul_of_nonneg_right ht hn]
  have := tri_ineq _ _ _ _ _ _ r (n / 2) hr (by positivity) hd hV
  convert this using 2 <;> ring

example : (Capsule3.mk (⟨0, 0, 0⟩ : V3 ℚ) ⟨2, 0, 0⟩ 1).Mem ⟨3, 0, 0⟩ := by
  refine ⟨⟨2, 0, 0⟩, ⟨1, by norm_num, by norm_num, ?_⟩, ?_⟩
  · simp [V3.add, V3.sub, V3.smul]
  · simp [V3.normSq, V3.dot, V3.sub]; norm_num

/-! ## `BoundingSphere::merged` -/

private theorem sq_le_sq'' (x h : K) (h1 : -h ≤ x) (h2 : x ≤ h) : x * x ≤ h * h := by
  nlinarith [mul_nonneg (sub_nonneg.2 h2) (by linarith : (0:K) ≤ x + h)]

/-- both spheres have their centre on the line `A + t e` (`|e| = 1`): a sphere centred at parameter `s` with radius `r`
whose shadow `[s - r, s + r]` lies in `[tL, tR]` is contained in the sphere with centre at `(tL + tR)/2` through the
point `R = A + tR e`. -/
private theorem merged_core (Ax Ay Az ex ey ez px py pz Cx Cy Cz Rx Ry Rz tL tR rad s r : K)
    (he : ex * ex + ey * ey + ez * ez = 1)
    (hCx : Cx = Ax + ex * ((tL + tR) / 2)) (hCy : Cy = Ay + ey * ((tL + tR) / 2)) (hCz : Cz = Az + ez * ((tL + tR) / 2))
    (hRx : Rx = Ax + ex * tR) (hRy : Ry = Ay + ey * tR) (hRz : Rz = Az + ez * tR)
    (hrad0 : 0 ≤ rad) (hrad : rad * rad = (Rx - Cx) * (Rx - Cx) + (Ry - Cy) * (Ry - Cy) + (Rz - Cz) * (Rz - Cz))
    (hr : 0 ≤ r) (hL : tL ≤ s - r) (hR : s + r ≤ tR)
    (hp : (px - (Ax + ex * s)) * (px - (Ax + ex * s)) + (py - (Ay + ey * s)) * (py - (Ay + ey * s))
        + (pz - (Az + ez * s)) * (pz - (Az + ez * s)) ≤ r * r) :
    (px - Cx) * (px - Cx) + (py - Cy) * (py - Cy) + (pz - Cz) * (pz - Cz) ≤ rad * rad := by
  have h1 : rad * rad = ((tR - tL) / 2) * ((tR - tL) / 2) := by
    rw [hrad, hRx, hRy, hRz, hCx, hCy, hCz]
    linear_combination ((tR - tL) / 2) * ((tR - tL) / 2) * he
  have h3 : 0 ≤ (tR - tL) / 2 := by linarith
  have h2 : rad = (tR - tL) / 2 := by
    rcases mul_self_eq_mul_self_iff.1 h1 with h | h
    · exact h
    · linarith
  have hs : 0 ≤ rad - r := by rw [h2]; linarith
  have hV : (ex * (s - (tL + tR) / 2)) * (ex * (s - (tL + tR) / 2)) + (ey * (s - (tL + tR) / 2)) * (ey * (s - (tL + tR) / 2))
      + (ez * (s - (tL + tR) / 2)) * (ez * (s - (tL + tR) / 2)) ≤ (rad - r) * (rad - r) := by
    have : (ex * (s - (tL + tR) / 2)) * (ex * (s - (tL + tR) / 2)) + (ey * (s - (tL + tR) / 2)) * (ey * (s - (tL + tR) / 2))
      + (ez * (s - (tL + tR) / 2)) * (ez * (s - (tL + tR) / 2)) = (s - (tL + tR) / 2) * (s - (tL + tR) / 2) := by
      linear_combination (s - (tL + tR) / 2) * (s - (tL + tR) / 2) * he
    rw [this, h2]
    exact sq_le_sq'' _ _ (by linarith) (by linarith)
  have := tri_ineq _ _ _ _ _ _ r (rad - r) hr hs hp hV
  rw [hCx, hCy, hCz]
  convert this using 2 <;> ring

private theorem sumsq_zero (x y z : K) (h : x * x + y * y + z * z = 0) : x = 0 ∧ y = 0 ∧ z = 0 := by
  have hx := mul_self_nonneg x; have hy := mul_self_nonneg y; have hz := mul_self_nonneg z
  refine ⟨?_, ?_, ?_⟩ <;> apply mul_self_eq_zero.1 <;> linarith

/-- **merged**: `a.merged(b)` contains every point of `a` and every point of `b` (radii `≥ 0`; coincident centres and
the general position, whichever of the four left/right end-point selections the code takes). -/
theorem sphere_merged_contains (a b : Sphere3 K) (p : V3 K) (hsq : LawfulSqrt sq) (ha : 0 ≤ a.radius) (hb : 0 ≤ b.radius) :
    letI := fieldNum K sq
    (SMem a p ∨ SMem b p) → SMem (a.merged b) p := by
  intro hp
  obtain ⟨dx, hdx⟩ : ∃ dx, dx = b.center.x - a.center.x := ⟨_, rfl⟩
  obtain ⟨dy, hdy⟩ : ∃ dy, dy = b.center.y - a.center.y := ⟨_, rfl⟩
  obtain ⟨dz, hdz⟩ : ∃ dz, dz = b.center.z - a.center.z := ⟨_, rfl⟩
  obtain ⟨n, hn⟩ : ∃ n, n = sq (dx * dx + dy * dy + dz * dz) := ⟨_, rfl⟩
  have hD := ss3 dx dy dz
  have hn0 : 0 ≤ n := hn ▸ hsq.nonneg _ hD
  have hnn : n * n = dx * dx + dy * dy + dz * dz := hn ▸ hsq.sq_mul _ hD
  have hl : ((mkRat 1 2 : Rat) : K) = 1/2 := by norm_num
  simp only [SMem] at hp
  by_cases hz : n ≤ 0 ∧ 0 ≤ n
  · have hneq : @neq K (fieldNum K sq) (@V3.norm K (fieldNum K sq) (@V3.sub K (fieldNum K sq) b.center a.center)) 0 = true := by
      simp only [neq, V3.norm, V3.normSq, V3.dot, V3.sub, fieldNum_sqrt, Bool.and_eq_true, decide_eq_true_eq, ← hdx, ← hdy, ← hdz, ← hn]
      exact hz
    simp only [Sphere3.merged, hneq, ↓reduceIte]
    have hn00 : n = 0 := le_antisymm hz.1 hz.2
    rw [hn00] at hnn
    obtain ⟨ex, ey, ez⟩ := sumsq_zero dx dy dz (by linarith [hnn])
    have e1 : b.center.x = a.center.x := by linarith
    have e2 : b.center.y = a.center.y := by linarith
    have e3 : b.center.z = a.center.z := by linarith
    rw [e1, e2, e3] at hp
    split_ifs with hlt
    · simp only [SMem]
      rcases hp with hp | hp
      · have : a.radius * a.radius ≤ b.radius * b.radius := by nlinarith
        exact le_trans hp this
      · exact hp
    · push Not at hlt
      simp only [SMem]
      rcases hp with hp | hp
      · exact hp
      · have : b.radius * b.radius ≤ a.radius * a.radius := by nlinarith
        exact le_trans hp this
  · have hneq : @neq K (fieldNum K sq) (@V3.norm K (fieldNum K sq) (@V3.sub K (fieldNum K sq) b.center a.center)) 0 = false := by
      rw [Bool.eq_false_iff]
      simp only [neq, V3.norm, V3.normSq, V3.dot, V3.sub, fieldNum_sqrt, ne_eq, Bool.and_eq_true, decide_eq_true_eq, ← hdx, ← hdy, ← hdz, ← hn]
      exact hz
    simp only [Sphere3.merged, hneq, Bool.false_eq_true, ↓reduceIte]
    have hnpos : 0 < n := by
      rcases lt_or_eq_of_le hn0 with h | h
      · exact h
      · exact absurd ⟨h.symm.le, hn0⟩ hz
    have hne : n ≠ 0 := ne_of_gt hnpos
    have he : (dx / n) * (dx / n) + (dy / n) * (dy / n) + (dz / n) * (dz / n) = 1 := by
      field_simp
      linarith [hnn]
    have hdd : dx * (dx / n) + dy * (dy / n) + dz * (dz / n) = n := by
      field_simp
      linarith [hnn]
    have hoc : b.center.x * (dx / n) + b.center.y * (dy / n) + b.center.z * (dz / n)
        = a.center.x * (dx / n) + a.center.y * (dy / n) + a.center.z * (dz / n) + n := by
      rw [hdx, hdy, hdz] at hdd ⊢
      linarith
    have hbx : b.center.x = a.center.x + dx / n * n := by rw [div_mul_cancel₀ _ hne, hdx]; ring
    have hby : b.center.y = a.center.y + dy / n * n := by rw [div_mul_cancel₀ _ hne, hdy]; ring
    have hbz : b.center.z = a.center.z + dz / n * n := by rw [div_mul_cancel₀ _ hne, hdz]; ring
    have hpa : ∀ r : K, (p.x - a.center.x) * (p.x - a.center.x) + (p.y - a.center.y) * (p.y - a.center.y)
        + (p.z - a.center.z) * (p.z - a.center.z) ≤ r →
        (p.x - (a.center.x + dx / n * 0)) * (p.x - (a.center.x + dx / n * 0)) + (p.y - (a.center.y + dy / n * 0)) * (p.y - (a.center.y + dy / n * 0))
        + (p.z - (a.center.z + dz / n * 0)) * (p.z - (a.center.z + dz / n * 0)) ≤ r := by
      intro r h; simpa using h
    have hpb : ∀ r : K, (p.x - b.center.x) * (p.x - b.center.x) + (p.y - b.center.y) * (p.y - b.center.y)
        + (p.z - b.center.z) * (p.z - b.center.z) ≤ r →
        (p.x - (a.center.x + dx / n * n)) * (p.x - (a.center.x + dx / n * n)) + (p.y - (a.center.y + dy / n * n)) * (p.y - (a.center.y + dy / n * n))
        + (p.z - (a.center.z + dz / n * n)) * (p.z - (a.center.z + dz / n * n)) ≤ r := by
      intro r h; rw [← hbx, ← hby, ← hbz]; exact h
    split_ifs with h1 h2 h2
    · simp only [SMem, V3.center, V3.norm, V3.normSq, V3.dot, V3.add, V3.sub, V3.smul, V3.sdiv, fieldNum_sqrt, fieldNum_lit, hl, ← hdx, ← hdy, ← hdz, ← hn] at h1 h2 ⊢
      rcases hp with hp | hp
      · refine merged_core (Ax := a.center.x) (Ay := a.center.y) (Az := a.center.z) (ex := dx / n) (ey := dy / n) (ez := dz / n)
          (tL := -a.radius) (tR := a.radius) (s := 0) (r := a.radius) _ _ _ _ _ _ _ _ _ _ he ?_ ?_ ?_ ?_ ?_ ?_ (hsq.nonneg _ (ss3 _ _ _)) (hsq.sq_mul _ (ss3 _ _ _)) ha ?_ ?_ (hpa _ hp)
        · first | ring1 | (rw [hbx]; ring1)
        · first | ring1 | (rw [hby]; ring1)
        · first | ring1 | (rw [hbz]; ring1)
        · first | ring1 | (rw [hbx]; ring1)
        · first | ring1 | (rw [hby]; ring1)
        · first | ring1 | (rw [hbz]; ring1)
        · linarith
        · linarith
      · refine merged_core (Ax := a.center.x) (Ay := a.center.y) (Az := a.center.z) (ex := dx / n) (ey := dy / n) (ez := dz / n)
          (tL := -a.radius) (tR := a.radius) (s := n) (r := b.radius) _ _ _ _ _ _ _ _ _ _ he ?_ ?_ ?_ ?_ ?_ ?_ (hsq.nonneg _ (ss3 _ _ _)) (hsq.sq_mul _ (ss3 _ _ _)) hb ?_ ?_ (hpb _ hp)
        · first | ring1 | (rw [hbx]; ring1)
        · first | ring1 | (rw [hby]; ring1)
        · first | ring1 | (rw [hbz]; ring1)
        · first | ring1 | (rw [hbx]; ring1)
        · first | ring1 | (rw [hby]; ring1)
        · first | ring1 | (rw [hbz]; ring1)
        · linarith
        · linarith
    · push Not at h2
      simp only [SMem, V3.center, V3.norm, V3.normSq, V3.dot, V3.add, V3.sub, V3.smul, V3.sdiv, fieldNum_sqrt, fieldNum_lit, hl, ← hdx, ← hdy, ← hdz, ← hn] at h1 h2 ⊢
      rcases hp with hp | hp
      · refine merged_core (Ax := a.center.x) (Ay := a.center.y) (Az := a.center.z) (ex := dx / n) (ey := dy / n) (ez := dz / n)
          (tL := -a.radius) (tR := n + b.radius) (s := 0) (r := a.radius) _ _ _ _ _ _ _ _ _ _ he ?_ ?_ ?_ ?_ ?_ ?_ (hsq.nonneg _ (ss3 _ _ _)) (hsq.sq_mul _ (ss3 _ _ _)) ha ?_ ?_ (hpa _ hp)
        · first | ring1 | (rw [hbx]; ring1)
        · first | ring1 | (rw [hby]; ring1)
        · first | ring1 | (rw [hbz]; ring1)
        · first | ring1 | (rw [hbx]; ring1)
        · first | ring1 | (rw [hby]; ring1)
        · first | ring1 | (rw [hbz]; ring1)
        · linarith
        · linarith
      · refine merged_core (Ax := a.center.x) (Ay := a.center.y) (Az := a.center.z) (ex := dx / n) (ey := dy / n) (ez := dz / n)
          (tL := -a.radius) (tR := n + b.radius) (s := n) (r := b.radius) _ _ _ _ _ _ _ _ _ _ he ?_ ?_ ?_ ?_ ?_ ?_ (hsq.nonneg _ (ss3 _ _ _)) (hsq.sq_mul _ (ss3 _ _ _)) hb ?_ ?_ (hpb _ hp)
        · first | ring1 | (rw [hbx]; ring1)
        · first | ring1 | (rw [hby]; ring1)
        · first | ring1 | (rw [hbz]; ring1)
        · first | ring1 | (rw [hbx]; ring1)
        · first | ring1 | (rw [hby]; ring1)
        · first | ring1 | (rw [hbz]; ring1)
        · linarith
        · linarith
    · push Not at h1
      simp only [SMem, V3.center, V3.norm, V3.normSq, V3.dot, V3.add, V3.sub, V3.smul, V3.sdiv, fieldNum_sqrt, fieldNum_lit, hl, ← hdx, ← hdy, ← hdz, ← hn] at h1 h2 ⊢
      rcases hp with hp | hp
      · refine merged_core (Ax := a.center.x) (Ay := a.center.y) (Az := a.center.z) (ex := dx / n) (ey := dy / n) (ez := dz / n)
          (tL := n - b.radius) (tR := a.radius) (s := 0) (r := a.radius) _ _ _ _ _ _ _ _ _ _ he ?_ ?_ ?_ ?_ ?_ ?_ (hsq.nonneg _ (ss3 _ _ _)) (hsq.sq_mul _ (ss3 _ _ _)) ha ?_ ?_ (hpa _ hp)
        · first | ring1 | (rw [hbx]; ring1)
        · first | ring1 | (rw [hby]; ring1)
        · first | ring1 | (rw [hbz]; ring1)
        · first | ring1 | (rw [hbx]; ring1)
        · first | ring1 | (rw [hby]; ring1)
        · first | ring1 | (rw [hbz]; ring1)
        · linarith
        · linarith
      · refine merged_core (Ax := a.center.x) (Ay := a.center.y) (Az := a.center.z) (ex := dx / n) (ey := dy / n) (ez := dz / n)
          (tL := n - b.radius) (tR := a.radius) (s := n) (r := b.radius) _ _ _ _ _ _ _ _ _ _ he ?_ ?_ ?_ ?_ ?_ ?_ (hsq.nonneg _ (ss3 _ _ _)) (hsq.sq_mul _ (ss3 _ _ _)) hb ?_ ?_ (hpb _ hp)
        · first | ring1 | (rw [hbx]; ring1)
        · first | ring1 | (rw [hby]; ring1)
        · first | ring1 | (rw [hbz]; ring1)
        · first | ring1 | (rw [hbx]; ring1)
        · first | ring1 | (rw [hby]; ring1)
        · first | ring1 | (rw [hbz]; ring1)
        · linarith
        · linarith
    · push Not at h1 h2
      simp only [SMem, V3.center, V3.norm, V3.normSq, V3.dot, V3.add, V3.sub, V3.smul, V3.sdiv, fieldNum_sqrt, fieldNum_lit, hl, ← hdx, ← hdy, ← hdz, ← hn] at h1 h2 ⊢
      rcases hp with hp | hp
      · refine merged_core (Ax := a.center.x) (Ay := a.center.y) (Az := a.center.z) (ex := dx / n) (ey := dy / n) (ez := dz / n)
          (tL := n - b.radius) (tR := n + b.radius) (s := 0) (r := a.radius) _ _ _ _ _ _ _ _ _ _ he ?_ ?_ ?_ ?_ ?_ ?_ (hsq.nonneg _ (ss3 _ _ _)) (hsq.sq_mul _ (ss3 _ _ _)) ha ?_ ?_ (hpa _ hp)
        · first | ring1 | (rw [hbx]; ring1)
        · first | ring1 | (rw [hby]; ring1)
        · first | ring1 | (rw [hbz]; ring1)
        · first | ring1 | (rw [hbx]; ring1)
        · first | ring1 | (rw [hby]; ring1)
        · first | ring1 | (rw [hbz]; ring1)
        · linarith
        · linarith
      · refine merged_core (Ax := a.center.x) (Ay := a.center.y) (Az := a.center.z) (ex := dx / n) (ey := dy / n) (ez := dz / n)
          (tL := n - b.radius) (tR := n + b.radius) (s := n) (r := b.radius) _ _ _ _ _ _ _ _ _ _ he ?_ ?_ ?_ ?_ ?_ ?_ (hsq.nonneg _ (ss3 _ _ _)) (hsq.sq_mul _ (ss3 _ _ _)) hb ?_ ?_ (hpb _ hp)
        · first | ring1 | (rw [hbx]; ring1)
        · first | ring1 | (rw [hby]; ring1)
        · first | ring1 | (rw [hbz]; ring1)
        · first | ring1 | (rw [hbx]; ring1)
        · first | ring1 | (rw [hby]; ring1)
        · first | ring1 | (rw [hbz]; ring1)
        · linarith
        · linarith

example : SMem (⟨⟨0, 0, 0⟩, 1⟩ : Sphere3 ℚ) ⟨0, 1, 0⟩ ∨ SMem (⟨⟨3, 0, 0⟩, 2⟩ : Sphere3 ℚ) ⟨0, 1, 0⟩ := by left; simp [SMem]

/-! ## `BoundingSphere::contains`, `intersects` -/

/-- **contains** is sound: if `a.contains(b)` answers `true` (`|c_b - c_a| + r_b ≤ r_a`) and `r_b ≥ 0`, every point of `b` is a point of `a`. -/
theorem sphere_contains_sound (a b : Sphere3 K) (p : V3 K) (hsq : LawfulSqrt sq) (hb : 0 ≤ b.radius) :
    letI := fieldNum K sq
    a.contains b = true → SMem b p → SMem a p := by
  intro h hp
  have hD := ss3 (b.center.x - a.center.x) (b.center.y - a.center.y) (b.center.z - a.center.z)
  have hn0 := hsq.nonneg _ hD
  have hnn := hsq.sq_mul _ hD
  simp only [Sphere3.contains, decide_eq_true_eq] at h
  simp only [V3.norm, V3.normSq, V3.dot, V3.sub, fieldNum_sqrt] at h
  simp only [SMem] at hp ⊢
  set n := sq ((b.center.x - a.center.x) * (b.center.x - a.center.x) + (b.center.y - a.center.y) * (b.center.y - a.center.y)
    + (b.center.z - a.center.z) * (b.center.z - a.center.z)) with hn
  have t := tri_ineq (p.x - b.center.x) (p.y - b.center.y) (p.z - b.center.z) (b.center.x - a.center.x) (b.center.y - a.center.y)
    (b.center.z - a.center.z) b.radius n hb hn0 hp (le_of_eq hnn.symm)
  have e : ∀ x y z : K, x - z = (x - y) + (y - z) := by intros; ring
  rw [e p.x b.center.x a.center.x, e p.y b.center.y a.center.y, e p.z b.center.z a.center.z]
  have : (b.radius + n) * (b.radius + n) ≤ a.radius * a.radius := by
    have h0 : 0 ≤ b.radius + n := add_nonneg hb hn0
    have h1 : b.radius + n ≤ a.radius := by linarith
    nlinarith
  exact le_trans t this

/-- **intersects** is exact for non-negative radii: it answers `true` iff the two (closed) balls share a point. -/
theorem sphere_intersects_iff (a b : Sphere3 K) (ha : 0 ≤ a.radius) (hb : 0 ≤ b.radius) :
    letI := fieldNum K sq
    a.intersects b = true ↔ ∃ p, SMem a p ∧ SMem b p := by
  simp only [Sphere3.intersects, decide_eq_true_eq]
  simp only [V3.normSq, V3.dot, V3.sub, SMem]
  constructor
  · intro h
    rcases eq_or_lt_of_le (add_nonneg ha hb) with h0 | hpos
    · -- both radii are zero, so the centres coincide
      have hra : a.radius = 0 := by linarith
      have hrb : b.radius = 0 := by linarith
      rw [← h0] at h
      have hD := ss3 (b.center.x - a.center.x) (b.center.y - a.center.y) (b.center.z - a.center.z)
      have hz : (b.center.x - a.center.x) * (b.center.x - a.center.x) + (b.center.y - a.center.y) * (b.center.y - a.center.y)
          + (b.center.z - a.center.z) * (b.center.z - a.center.z) = 0 := by nlinarith
      refine ⟨b.center, ?_, ?_⟩
      · rw [hz, hra]; norm_num
      · rw [hrb]; norm_num
    · -- the point dividing the segment of centres in the ratio r_a : r_b
      set t := a.radius / (a.radius + b.radius) with ht
      have hne : a.radius + b.radius ≠ 0 := ne_of_gt hpos
      have ht0 : 0 ≤ t := div_nonneg ha hpos.le
      have ht1 : 1 - t = b.radius / (a.radius + b.radius) := by rw [ht]; field_simp; ring
      have hta : t * (a.radius + b.radius) = a.radius := by rw [ht]; field_simp
      have htb : (1 - t) * (a.radius + b.radius) = b.radius := by rw [ht1]; field_simp
      have h1t : 0 ≤ 1 - t := by rw [ht1]; exact div_nonneg hb hpos.le
      refine ⟨⟨a.center.x + (b.center.x - a.center.x) * t, a.center.y + (b.center.y - a.center.y) * t,
        a.center.z + (b.center.z - a.center.z) * t⟩, ?_, ?_⟩
      · have : (a.center.x + (b.center.x - a.center.x) * t - a.center.x) * (a.center.x + (b.center.x - a.center.x) * t - a.center.x)
            + (a.center.y + (b.center.y - a.center.y) * t - a.center.y) * (a.center.y + (b.center.y - a.center.y) * t - a.center.y)
            + (a.center.z + (b.center.z - a.center.z) * t - a.center.z) * (a.center.z + (b.center.z - a.center.z) * t - a.center.z)
            = (t * t) * ((b.center.x - a.center.x) * (b.center.x - a.center.x) + (b.center.y - a.center.y) * (b.center.y - a.center.y)
              + (b.center.z - a.center.z) * (b.center.z - a.center.z)) := by ring
        rw [this, ← hta]
        nlinarith [mul_le_mul_of_nonneg_left h (mul_self_nonneg t)]
      · have : (a.center.x + (b.center.x - a.center.x) * t - b.center.x) * (a.center.x + (b.center.x - a.center.x) * t - b.center.x)
            + (a.center.y + (b.center.y - a.center.y) * t - b.center.y) * (a.center.y + (b.center.y - a.center.y) * t - b.center.y)
            + (a.center.z + (b.center.z - a.center.z) * t - b.center.z) * (a.center.z + (b.center.z - a.center.z) * t - b.center.z)
            = ((1 - t) * (1 - t)) * ((b.center.x - a.center.x) * (b.center.x - a.center.x) + (b.center.y - a.center.y) * (b.center.y - a.center.y)
              + (b.center.z - a.center.z) * (b.center.z - a.center.z)) := by ring
        rw [this, ← htb]
        nlinarith [mul_le_mul_of_nonneg_left h (mul_self_nonneg (1 - t))]
  · rintro ⟨p, hpa, hpb⟩
    have t := tri_ineq (p.x - a.center.x) (p.y - a.center.y) (p.z - a.center.z) (b.center.x - p.x) (b.center.y - p.y) (b.center.z - p.z)
      a.radius b.radius ha hb hpa (by
        have e : ∀ x y : K, (x - y) * (x - y) = (y - x) * (y - x) := by intros; ring
        rw [e b.center.x, e b.center.y, e b.center.z]; exact hpb)
    have e : ∀ x y z : K, y - z = (x - z) + (y - x) := by intros; ring
    rw [e p.x b.center.x a.center.x, e p.y b.center.y a.center.y, e p.z b.center.z a.center.z]
    exact t

example : (0:ℚ) ≤ (⟨⟨0, 0, 0⟩, 1⟩ : Sphere3 ℚ).radius := by norm_num

end C09
