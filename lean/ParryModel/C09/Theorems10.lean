import ParryModel.C09.Theorems2
import ParryModel.C09.Theorems4
/-!
# C09 theorems, part 10: the remaining bounding spheres and the sphere algebra

* `Capsule::bounding_sphere`, `Triangle::bounding_sphere`, `Segment::bounding_sphere` (the last two through
  `point_cloud_bounding_sphere`): every point of the posed shape lies in the sphere, for every unit-quaternion pose;
* `BoundingSphere::transform_by`, `loosened`, `merged`: containment is preserved (`merged` contains both operands,
  `loosened(a)` contains every point within distance `a` of the sphere).

Everything is stated in squared form (`SMem`), the only place where `sqrt` matters is the radius (`LawfulSqrt`).
-/
set_option linter.unusedSectionVars false
set_option linter.unusedVariables false
set_option linter.unusedSimpArgs false
set_option linter.style.haveILetI false

namespace C09
open Model IsoLemmas

variable {K : Type} [Field K] [LinearOrder K] [IsStrictOrderedRing K] (sq : K → K)

/-! ## the triangle inequality and convexity of a ball, in squared coordinates -/

private theorem ss3 (x y z : K) : 0 ≤ x * x + y * y + z * z :=
  add_nonneg (add_nonneg (mul_self_nonneg _) (mul_self_nonneg _)) (mul_self_nonneg _)

private theorem cs3 (ux uy uz vx vy vz : K) :
    (ux * vx + uy * vy + uz * vz) ^ 2 ≤ (ux * ux + uy * uy + uz * uz) * (vx * vx + vy * vy + vz * vz) := by
  nlinarith [sq_nonneg (ux * vy - uy * vx), sq_nonneg (ux * vz - uz * vx), sq_nonneg (uy * vz - uz * vy)]

private theorem dot_le (ux uy uz vx vy vz r s : K) (hr : 0 ≤ r) (hs : 0 ≤ s)
    (hU : ux * ux + uy * uy + uz * uz ≤ r * r) (hV : vx * vx + vy * vy + vz * vz ≤ s * s) :
    ux * vx + uy * vy + uz * vz ≤ r * s := by
  have h1 := cs3 ux uy uz vx vy vz
  have hV0 : 0 ≤ vx * vx + vy * vy + vz * vz := ss3 _ _ _
  have h2 : (ux * ux + uy * uy + uz * uz) * (vx * vx + vy * vy + vz * vz) ≤ (r * r) * (s * s) :=
    mul_le_mul hU hV hV0 (mul_self_nonneg r)
  have h3 : (ux * vx + uy * vy + uz * vz) ^ 2 ≤ (r * s) ^ 2 := by nlinarith
  exact (abs_le_of_sq_le_sq' h3 (mul_nonneg hr hs)).2

/-- `|u| ≤ r`, `|v| ≤ s` ⇒ `|u + v| ≤ r + s` (squared) -/
private theorem tri_ineq (ux uy uz vx vy vz r s : K) (hr : 0 ≤ r) (hs : 0 ≤ s)
    (hU : ux * ux + uy * uy + uz * uz ≤ r * r) (hV : vx * vx + vy * vy + vz * vz ≤ s * s) :
    (ux + vx) * (ux + vx) + (uy + vy) * (uy + vy) + (uz + vz) * (uz + vz) ≤ (r + s) * (r + s) := by
  have := dot_le ux uy uz vx vy vz r s hr hs hU hV
  nlinarith

/-- a ball is convex (three points, barycentric weights `1-u-v, u, v`) -/
private theorem ball_convex3 (ax ay az bx b_y bz cx cy cz R u v : K) (hu : 0 ≤ u) (hv : 0 ≤ v) (huv : u + v ≤ 1)
    (hA : ax * ax + ay * ay + az * az ≤ R) (hB : bx * bx + b_y * b_y + bz * bz ≤ R) (hC : cx * cx + cy * cy + cz * cz ≤ R) :
    (ax + (bx - ax) * u + (cx - ax) * v) * (ax + (bx - ax) * u + (cx - ax) * v)
      + (ay + (b_y - ay) * u + (cy - ay) * v) * (ay + (b_y - ay) * u + (cy - ay) * v)
      + (az + (bz - az) * u + (cz - az) * v) * (az + (bz - az) * u + (cz - az) * v) ≤ R := by
  have hw : 0 ≤ 1 - u - v := by linarith
  have dAB : 0 ≤ (ax - bx) * (ax - bx) + (ay - b_y) * (ay - b_y) + (az - bz) * (az - bz) := ss3 _ _ _
  have dAC : 0 ≤ (ax - cx) * (ax - cx) + (ay - cy) * (ay - cy) + (az - cz) * (az - cz) := ss3 _ _ _
  have dBC : 0 ≤ (bx - cx) * (bx - cx) + (b_y - cy) * (b_y - cy) + (bz - cz) * (bz - cz) := ss3 _ _ _
  have h01 := mul_nonneg (mul_nonneg hw hu) dAB
  have h02 := mul_nonneg (mul_nonneg hw hv) dAC
  have h12 := mul_nonneg (mul_nonneg hu hv) dBC
  have hA' := mul_le_mul_of_nonneg_left hA hw
  have hB' := mul_le_mul_of_nonneg_left hB hu
  have hC' := mul_le_mul_of_nonneg_left hC hv
  linarith [h01, h02, h12, hA', hB', hC']

/-! ## `BoundingSphere::transform_by`, `loosened` -/

/-- **transform_by**: for every unit-quaternion pose `m`, `s.transform_by(m)` contains `m • p` for every `p` of `s`
(and nothing else: the squared distance to the centre is preserved, so it is an `iff`). -/
theorem sphere_transformBy_contains (s : Sphere3 K) (m : Iso3 K) (p : V3 K)
    (hq : m.qi * m.qi + m.qj * m.qj + m.qk * m.qk + m.qw * m.qw = 1) :
    letI := fieldNum K sq
    SMem (s.transformBy m) (m.act p) ↔ SMem s p := by
  have hd := act_dist sq m p s.center hq
  simp only [SMem, Sphere3.transformBy, V3.normSq, V3.dot, V3.sub] at hd ⊢
  rw [hd]

/-- **loosened**: `s.loosened(a)` (`a ≥ 0`, as the code asserts) contains every point within distance `a` of a point of
`s` — in particular (with `q = p`) every point of `s`. -/
theorem sphere_loosened_contains (s : Sphere3 K) (a : K) (p q : V3 K) (hr : 0 ≤ s.radius) (ha : 0 ≤ a)
    (hq : SMem s q) (hpq : (p.x - q.x) * (p.x - q.x) + (p.y - q.y) * (p.y - q.y) + (p.z - q.z) * (p.z - q.z) ≤ a * a) :
    letI := fieldNum K sq
    SMem (s.loosened a) p := by
  simp only [SMem, Sphere3.loosened] at hq ⊢
  have := tri_ineq _ _ _ _ _ _ _ _ hr ha hq hpq
  have e : ∀ x y z : K, x - z = (y - z) + (x - y) := by intros; ring
  rw [e p.x q.x, e p.y q.y, e p.z q.z]
  exact this

example : SMem (⟨⟨0, 0, 0⟩, 1⟩ : Sphere3 ℚ) ⟨1, 0, 0⟩ := by simp [SMem]

/-! ## `point_cloud_bounding_sphere` (Triangle, Segment) -/

private theorem foldmax_spec (g : V3 K → K) (l : List (V3 K)) :
    ∀ acc : K, acc ≤ l.foldl (fun acc p => if acc < g p then g p else acc) acc ∧
      ∀ q ∈ l, g q ≤ l.foldl (fun acc p => if acc < g p then g p else acc) acc := by
  induction l with
  | nil => intro acc; exact ⟨le_refl _, fun q hq => by simp at hq⟩
  | cons x xs ih =>
    intro acc
    simp only [List.foldl_cons, List.mem_cons]
    obtain ⟨h1, h2⟩ := ih (if acc < g x then g x else acc)
    have hacc : acc ≤ (if acc < g x then g x else acc) := by
      split_ifs with h
      · exact h.le
      · exact le_refl _
    have hx : g x ≤ (if acc < g x then g x else acc) := by
      split_ifs with h
      · exact le_refl _
      · exact not_lt.1 h
    refine ⟨le_trans hacc h1, ?_⟩
    rintro q (rfl | hq)
    · exact le_trans hx h1
    · exact h2 q hq

private theorem pcs_core (c : V3 K) (l : List (V3 K)) (hsq : LawfulSqrt sq) :
    ∀ q ∈ l, SMem ⟨c, sq (l.foldl (fun acc p =>
        if acc < (c.x - p.x) * (c.x - p.x) + (c.y - p.y) * (c.y - p.y) + (c.z - p.z) * (c.z - p.z)
        then (c.x - p.x) * (c.x - p.x) + (c.y - p.y) * (c.y - p.y) + (c.z - p.z) * (c.z - p.z) else acc) 0)⟩ q := by
  intro q hq
  obtain ⟨h0, h1⟩ := foldmax_spec (fun p => (c.x - p.x) * (c.x - p.x) + (c.y - p.y) * (c.y - p.y) + (c.z - p.z) * (c.z - p.z)) l 0
  simp only [SMem]
  rw [hsq.sq_mul _ h0]
  have := h1 q hq
  have e : ∀ a b : K, (a - b) * (a - b) = (b - a) * (b - a) := by intros; ring
  rw [e q.x, e q.y, e q.z]
  exact this

/-- `point_cloud_bounding_sphere` contains every point of the cloud (the radius is the largest distance from the
computed centre, whatever that centre is). -/
theorem pointCloudSphere_contains_points (p0 : V3 K) (ps : List (V3 K)) (hsq : LawfulSqrt sq) :
    letI := fieldNum K sq
    ∀ q ∈ p0 :: ps, SMem (pointCloudSphere p0 ps) q := by
  intro q hq
  exact pcs_core sq _ (p0 :: ps) hsq q hq

/-- **Triangle**: every point of the posed triangle lies in `Triangle::bounding_sphere(pos)`, for every unit quaternion. -/
theorem triangle_sphere_contains (a b c : V3 K) (m : Iso3 K) (p : V3 K) (hsq : LawfulSqrt sq)
    (hq : m.qi * m.qi + m.qj * m.qj + m.qk * m.qk + m.qw * m.qw = 1) :
    letI := fieldNum K sq
    (Triangle3.mk a b c).Mem p → SMem (triangleSphere a b c m) (m.act p) := by
  rintro ⟨u, v, hu, hv, huv, hp⟩
  simp only [triangleSphere]
  rw [sphere_transformBy_contains sq _ m p hq, hp]
  have hA := pointCloudSphere_contains_points sq a [b, c] hsq a (by simp)
  have hB := pointCloudSphere_contains_points sq a [b, c] hsq b (by simp)
  have hC := pointCloudSphere_contains_points sq a [b, c] hsq c (by simp)
  simp only [SMem, V3.add, V3.sub, V3.smul] at hA hB hC ⊢
  generalize (@pointCloudSphere K (fieldNum K sq) a [b, c]).center = ce at hA hB hC ⊢
  generalize (@pointCloudSphere K (fieldNum K sq) a [b, c]).radius = ra at hA hB hC ⊢
  have := ball_convex3 (a.x - ce.x) (a.y - ce.y) (a.z - ce.z) (b.x - ce.x) (b.y - ce.y) (b.z - ce.z)
    (c.x - ce.x) (c.y - ce.y) (c.z - ce.z) (ra * ra) u v hu hv huv hA hB hC
  convert this using 2 <;> ring

/-- **Segment**: every point of the posed segment lies in `Segment::bounding_sphere(pos)`. -/
theorem segment_sphere_contains (a b : V3 K) (m : Iso3 K) (p : V3 K) (hsq : LawfulSqrt sq)
    (hq : m.qi * m.qi + m.qj * m.qj + m.qk * m.qk + m.qw * m.qw = 1) :
    letI := fieldNum K sq
    (Segment3.mk a b).Mem p → SMem (segmentSphere a b m) (m.act p) := by
  rintro ⟨t, h0, h1, hp⟩
  simp only [segmentSphere]
  rw [sphere_transformBy_contains sq _ m p hq, hp]
  have hA := pointCloudSphere_contains_points sq a [b] hsq a (by simp)
  have hB := pointCloudSphere_contains_points sq a [b] hsq b (by simp)
  simp only [SMem, V3.add, V3.sub, V3.smul] at hA hB ⊢
  generalize (@pointCloudSphere K (fieldNum K sq) a [b]).center = ce at hA hB ⊢
  generalize (@pointCloudSphere K (fieldNum K sq) a [b]).radius = ra at hA hB ⊢
  have := ball_convex3 (a.x - ce.x) (a.y - ce.y) (a.z - ce.z) (b.x - ce.x) (b.y - ce.y) (b.z - ce.z)
    (a.x - ce.x) (a.y - ce.y) (a.z - ce.z) (ra * ra) t 0 h0 (le_refl _) (by linarith) hA hB hA
  convert this using 2 <;> ring

/-! ## `Capsule::bounding_sphere` -/

/-- **Capsule**: every point of the posed capsule lies in `Capsule::bounding_sphere(pos)` (centre = midpoint of the
segment, radius = `r + |b-a|/2`), for every unit quaternion and every `r ≥ 0`. -/
theorem capsule_sphere_contains (a b : V3 K) (r : K) (hr : 0 ≤ r) (m : Iso3 K) (p : V3 K) (hsq : LawfulSqrt sq)
    (hq : m.qi * m.qi + m.qj * m.qj + m.qk * m.qk + m.qw * m.qw = 1) :
    letI := fieldNum K sq
    (Capsule3.mk a b r).Mem p → SMem (capsuleSphere a b r m) (m.act p) := by
  rintro ⟨q, ⟨t, h0, h1, hqe⟩, hd⟩
  simp only [capsuleSphere]
  rw [sphere_transformBy_contains sq _ m p hq]
  rw [hqe] at hd
  have hl : ((mkRat 1 2 : Rat) : K) = 1/2 := by norm_num
  have hn : 0 ≤ (b.x - a.x) * (b.x - a.x) + (b.y - a.y) * (b.y - a.y) + (b.z - a.z) * (b.z - a.z) := ss3 _ _ _
  have hs0 := hsq.nonneg _ hn
  have hs1 := hsq.sq_mul _ hn
  simp only [SMem, V3.center, V3.norm, V3.normSq, V3.dot, V3.add, V3.sub, V3.smul, fieldNum_sqrt, fieldNum_two, fieldNum_lit, hl] at hd ⊢
  set n := sq ((b.x - a.x) * (b.x - a.x) + (b.y - a.y) * (b.y - a.y) + (b.z - a.z) * (b.z - a.z)) with hn_def
  -- |q - mid|² = (t - 1/2)² |b - a|² ≤ (n/2)²
  have ht : (t - 1/2) * (t - 1/2) ≤ 1/4 := by nlinarith
  have hV : ((t - 1/2) * (b.x - a.x)) * ((t - 1/2) * (b.x - a.x)) + ((t - 1/2) * (b.y - a.y)) * ((t - 1/2) * (b.y - a.y))
      + ((t - 1/2) * (b.z - a.z)) * ((t - 1/2) * (b.z - a.z)) ≤ (n / 2) * (n / 2) := by
    have : (n / 2) * (n / 2) = 1/4 * ((b.x - a.x) * (b.x - a.x) + (b.y - a.y) * (b.y - a.y) + (b.z - a.z) * (b.z - a.z)) := by
      rw [← hs1]; ring
    rw [this]
    nlinarith [mul_le_mul_of_nonneg_right ht hn]
  have := tri_ineq _ _ _ _ _ _ r (n / 2) hr (by positivity) hd hV
  convert this using 2 <;> ring

example : (Capsule3.mk (⟨0, 0, 0⟩ : V3 ℚ) ⟨2, 0, 0⟩ 1).Mem ⟨3, 0, 0⟩ := by
  refine ⟨⟨2, 0, 0⟩, ⟨1, by norm_num, by norm_num, ?_⟩, ?_⟩
  · simp [V3.add, V3.sub, V3.smul]
  · simp [V3.normSq, V3.dot, V3.sub]; norm_num

end C09
