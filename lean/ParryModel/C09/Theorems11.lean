import ParryModel.C09.Theorems1
import ParryModel.C09.Theorems2
/-!
# C09 theorems, part 11: the remaining `SimdAabb` lane laws, `Aabb::tightened`

`SimdAabb::{scaled, loosen, dilate_by_factor, contains_local_point, distance_to_local_point, to_merged_aabb}`:
each lane of the result is the scalar `Aabb` operation on that lane and keeps what it must contain.  (The lane laws of
`intersects`, `contains_local_point` monotonicity, the lower-bound property of `distance_to_local_point` and
`cast_local_ray` are proved in `C07/Theorems2` about the same formulas — not repeated here; what is added about the
distance is that the bound is *attained* and is zero exactly on the box.)
-/
set_option linter.unusedSectionVars false
set_option linter.unusedVariables false
set_option linter.unusedSimpArgs false
set_option linter.style.haveILetI false

namespace C09
open Model IsoLemmas

variable {K : Type} [Field K] [LinearOrder K] [IsStrictOrderedRing K] (sq : K → K)

private theorem ss3' (x y z : K) : 0 ≤ x * x + y * y + z * z :=
  add_nonneg (add_nonneg (mul_self_nonneg _) (mul_self_nonneg _)) (mul_self_nonneg _)

/-- the box is not an "invalid" sentinel: `mins ≤ maxs` on every axis -/
def BValid (b : Aabb3 K) : Prop := b.mins.x ≤ b.maxs.x ∧ b.mins.y ≤ b.maxs.y ∧ b.mins.z ≤ b.maxs.z

/-! ## `scaled`, `loosen`, `dilate_by_factor` -/

/-- **`SimdAabb::scaled`**: lane `i` is `Aabb::scaled` of lane `i` (same `inf`/`sup` of the two scaled corners), hence
contains `s∘p` for every point `p` of the lane and every scale vector, negative components included. -/
theorem simd_scaled_lanes (a : SimdAabb3 K) (s : V3 K) :
    letI := fieldNum K sq
    a.scaled s = [a.l0.scaled s, a.l1.scaled s, a.l2.scaled s, a.l3.scaled s] ∧
      ∀ b ∈ a.lanes, ∀ p, BMem b p → BMem (b.scaled s) (p.cmul s) :=
  ⟨rfl, fun b _ p h => aabb_scaled_contains sq b s p h⟩

/-- **`SimdAabb::loosen`**: lane `i` is `Aabb::loosened(margin)` of lane `i`; for `margin ≥ 0` it contains the lane. -/
theorem simd_loosen_lanes (a : SimdAabb3 K) (m : K) :
    letI := fieldNum K sq
    a.loosen m = [a.l0.loosened m, a.l1.loosened m, a.l2.loosened m, a.l3.loosened m] ∧
      (0 ≤ m → ∀ b ∈ a.lanes, ∀ p, BMem b p → BMem (b.loosened m) p) := by
  refine ⟨?_, fun hm b _ p h => aabb_loosened_contains sq b m hm p h⟩
  simp only [SimdAabb3.loosen, SimdAabb3.lanes, List.map, Aabb3.loosened, V3.sub, V3.add, sub_eq_add_neg]

/-- `Aabb::loosened(m)` contains every point within `m` (per axis) of a point of the box — the form the broad phase uses. -/
theorem aabb_loosened_contains_near (a : Aabb3 K) (m : K) (p q : V3 K) (h : BMem a q)
    (hx : |p.x - q.x| ≤ m) (hy : |p.y - q.y| ≤ m) (hz : |p.z - q.z| ≤ m) :
    letI := fieldNum K sq
    BMem (a.loosened m) p := by
  obtain ⟨⟨h1, h2⟩, ⟨h3, h4⟩, h5, h6⟩ := h
  rw [abs_le] at hx hy hz
  simp only [Aabb3.loosened, V3.add, BMem]
  refine ⟨⟨?_, ?_⟩, ⟨?_, ?_⟩, ?_, ?_⟩ <;> linarith [hx.1, hx.2, hy.1, hy.2, hz.1, hz.2]

/-- **`Aabb::tightened`**: the tightened box is inside the box (`m ≥ 0`), and `loosened(m)` undoes it. -/
theorem aabb_tightened_sub (a : Aabb3 K) (m : K) (hm : 0 ≤ m) (p : V3 K) :
    letI := fieldNum K sq
    (BMem (a.tightened m) p → BMem a p) ∧ (a.tightened m).loosened m = a := by
  constructor
  · rintro ⟨⟨h1, h2⟩, ⟨h3, h4⟩, h5, h6⟩
    simp only [Aabb3.tightened, V3.add] at h1 h2 h3 h4 h5 h6
    refine ⟨⟨?_, ?_⟩, ⟨?_, ?_⟩, ?_, ?_⟩ <;> linarith
  · obtain ⟨⟨x0, y0, z0⟩, ⟨x1, y1, z1⟩⟩ := a
    simp only [Aabb3.tightened, Aabb3.loosened, V3.add, Aabb3.mk.injEq, V3.mk.injEq]
    refine ⟨⟨?_, ?_, ?_⟩, ?_, ?_, ?_⟩ <;> ring

/-- **`SimdAabb::dilate_by_factor`**: a valid lane grows by `factor · extents` on every side (so for `factor ≥ 0` it
still contains the lane); an invalid sentinel lane (`mins.x > maxs.x`) is returned unchanged. -/
theorem simd_dilate_lane (b : Aabb3 K) (f : K) :
    letI := fieldNum K sq
    (BValid b → 0 ≤ f → ∀ p, BMem b p → BMem (SimdAabb3.dilateLane b f) p) ∧
    (b.mins.x ≤ b.maxs.x → SimdAabb3.dilateLane b f =
        ⟨b.mins.sub ((b.maxs.sub b.mins).smul f), b.maxs.add ((b.maxs.sub b.mins).smul f)⟩) ∧
    (b.maxs.x < b.mins.x → SimdAabb3.dilateLane b f = b) := by
  refine ⟨?_, ?_, ?_⟩
  · rintro ⟨v1, v2, v3⟩ hf p ⟨⟨h1, h2⟩, ⟨h3, h4⟩, h5, h6⟩
    simp only [SimdAabb3.dilateLane, if_pos v1, V3.sub, V3.add, V3.smul, BMem]
    have e1 := mul_nonneg (sub_nonneg.2 v1) hf
    have e2 := mul_nonneg (sub_nonneg.2 v2) hf
    have e3 := mul_nonneg (sub_nonneg.2 v3) hf
    refine ⟨⟨?_, ?_⟩, ⟨?_, ?_⟩, ?_, ?_⟩ <;> nlinarith
  · intro v1
    obtain ⟨⟨x0, y0, z0⟩, ⟨x1, y1, z1⟩⟩ := b
    simp only [SimdAabb3.dilateLane, if_pos v1, V3.sub, V3.add, V3.smul, Aabb3.mk.injEq, V3.mk.injEq]
    refine ⟨⟨?_, ?_, ?_⟩, ?_, ?_, ?_⟩ <;> ring
  · intro v1
    obtain ⟨⟨x0, y0, z0⟩, ⟨x1, y1, z1⟩⟩ := b
    simp only [SimdAabb3.dilateLane, if_neg (not_le.2 v1), V3.sub, V3.add, V3.smul, Aabb3.mk.injEq, V3.mk.injEq]
    refine ⟨⟨?_, ?_, ?_⟩, ?_, ?_, ?_⟩ <;> ring

example : BValid (⟨⟨0, 0, 0⟩, ⟨1, 2, 3⟩⟩ : Aabb3 ℚ) := by simp [BValid]

/-! ## `contains_local_point`, `distance_to_local_point`, `to_merged_aabb` -/

/-- **`SimdAabb::contains_local_point`** lane = closed membership (and therefore = `Aabb::contains_local_point`). -/
theorem simd_contains_point_lane (b : Aabb3 K) (p : V3 K) :
    letI := fieldNum K sq
    (SimdAabb3.lanePoint b p = true ↔ BMem b p) ∧ SimdAabb3.lanePoint b p = b.containsLocalPoint p := by
  have h1 : @SimdAabb3.lanePoint K (fieldNum K sq) b p = true ↔ BMem b p := by
    simp only [SimdAabb3.lanePoint, Aabb3.ple, Bool.and_eq_true, decide_eq_true_eq, BMem]
    tauto
  have h2 := aabb_containsLocalPoint_iff sq b p
  refine ⟨h1, ?_⟩
  rw [Bool.eq_iff_iff, h1]
  exact h2.symm

/-- the point of the box closest to `p` (component-wise clamp) -/
def clampPoint (b : Aabb3 K) (p : V3 K) : V3 K :=
  ⟨max b.mins.x (min p.x b.maxs.x), max b.mins.y (min p.y b.maxs.y), max b.mins.z (min p.z b.maxs.z)⟩

private theorem axis_clamp (lo hi p : K) (h : lo ≤ hi) :
    (lo ≤ max lo (min p hi) ∧ max lo (min p hi) ≤ hi) ∧
      max (max (lo - p) (p - hi)) 0 * max (max (lo - p) (p - hi)) 0 = (p - max lo (min p hi)) * (p - max lo (min p hi)) := by
  rcases le_total p lo with h1 | h1
  · have e1 : min p hi = p := min_eq_left (le_trans h1 h)
    have e2 : max lo p = lo := max_eq_left h1
    have e3 : max (lo - p) (p - hi) = lo - p := max_eq_left (by linarith)
    have e4 : max (lo - p) 0 = lo - p := max_eq_left (by linarith)
    rw [e1, e2, e3, e4]; exact ⟨⟨le_refl _, h⟩, by ring⟩
  · rcases le_total p hi with h2 | h2
    · have e1 : min p hi = p := min_eq_left h2
      have e2 : max lo p = p := max_eq_right h1
      have e4 : max (max (lo - p) (p - hi)) 0 = 0 := max_eq_right (max_le (by linarith) (by linarith))
      rw [e1, e2, e4]; exact ⟨⟨h1, h2⟩, by ring⟩
    · have e1 : min p hi = hi := min_eq_right h2
      have e2 : max lo hi = hi := max_eq_right h
      have e3 : max (lo - p) (p - hi) = p - hi := max_eq_right (by linarith)
      have e4 : max (p - hi) 0 = p - hi := max_eq_left (by linarith)
      rw [e1, e2, e3, e4]; exact ⟨⟨h, le_refl _⟩, by ring⟩

/-- **`SimdAabb::distance_to_local_point`** lane, valid box: the value is the distance from `p` to the point
`clampPoint b p` of the box (so the lower bound of `C07.distPoint3_lower_bound` is attained: it IS the distance to the
box), and it is `0` exactly when `p` is in the box. -/
theorem simd_dist_point_lane (b : Aabb3 K) (p : V3 K) (hv : BValid b) (hsq : LawfulSqrt sq) :
    letI := fieldNum K sq
    BMem b (clampPoint b p) ∧
    SimdAabb3.laneDistPoint b p * SimdAabb3.laneDistPoint b p = (p.sub (clampPoint b p)).normSq ∧
    (SimdAabb3.laneDistPoint b p = 0 ↔ BMem b p) := by
  obtain ⟨v1, v2, v3⟩ := hv
  obtain ⟨m1, q1⟩ := axis_clamp b.mins.x b.maxs.x p.x v1
  obtain ⟨m2, q2⟩ := axis_clamp b.mins.y b.maxs.y p.y v2
  obtain ⟨m3, q3⟩ := axis_clamp b.mins.z b.maxs.z p.z v3
  have hn := ss3' (max (max (b.mins.x - p.x) (p.x - b.maxs.x)) 0) (max (max (b.mins.y - p.y) (p.y - b.maxs.y)) 0)
    (max (max (b.mins.z - p.z) (p.z - b.maxs.z)) 0)
  have hmul := hsq.sq_mul _ hn
  have hd : @SimdAabb3.laneDistPoint K (fieldNum K sq) b p * @SimdAabb3.laneDistPoint K (fieldNum K sq) b p
      = @V3.normSq K (fieldNum K sq) (@V3.sub K (fieldNum K sq) p (clampPoint b p)) := by
    simp only [SimdAabb3.laneDistPoint, V3.norm, V3.normSq, V3.dot, V3.sup, V3.sub, V3.zero, fieldNum_nmax, fieldNum_sqrt, clampPoint]
    rw [hmul, q1, q2, q3]
  refine ⟨⟨m1, m2, m3⟩, hd, ?_⟩
  constructor
  · intro h0
    rw [h0] at hd
    simp only [V3.normSq, V3.dot, V3.sub, clampPoint] at hd
    have s1 := mul_self_nonneg (p.x - max b.mins.x (min p.x b.maxs.x))
    have s2 := mul_self_nonneg (p.y - max b.mins.y (min p.y b.maxs.y))
    have s3 := mul_self_nonneg (p.z - max b.mins.z (min p.z b.maxs.z))
    have z1 : p.x - max b.mins.x (min p.x b.maxs.x) = 0 := mul_self_eq_zero.1 (by linarith)
    have z2 : p.y - max b.mins.y (min p.y b.maxs.y) = 0 := mul_self_eq_zero.1 (by linarith)
    have z3 : p.z - max b.mins.z (min p.z b.maxs.z) = 0 := mul_self_eq_zero.1 (by linarith)
    have e1 : p.x = max b.mins.x (min p.x b.maxs.x) := by linarith
    have e2 : p.y = max b.mins.y (min p.y b.maxs.y) := by linarith
    have e3 : p.z = max b.mins.z (min p.z b.maxs.z) := by linarith
    refine ⟨?_, ?_, ?_⟩
    · rw [e1]; exact m1
    · rw [e2]; exact m2
    · rw [e3]; exact m3
  · rintro ⟨⟨a1, a2⟩, ⟨a3, a4⟩, a5, a6⟩
    have c1 : max b.mins.x (min p.x b.maxs.x) = p.x := by rw [min_eq_left a2, max_eq_right a1]
    have c2 : max b.mins.y (min p.y b.maxs.y) = p.y := by rw [min_eq_left a4, max_eq_right a3]
    have c3 : max b.mins.z (min p.z b.maxs.z) = p.z := by rw [min_eq_left a6, max_eq_right a5]
    simp only [V3.normSq, V3.dot, V3.sub, clampPoint, c1, c2, c3] at hd
    have : @SimdAabb3.laneDistPoint K (fieldNum K sq) b p * @SimdAabb3.laneDistPoint K (fieldNum K sq) b p = 0 := by
      rw [hd]; ring
    exact mul_self_eq_zero.1 this

/-- **`SimdAabb::to_merged_aabb`**: the merged box contains every point of every lane (all three axes), and it is the
least such box when the lanes are valid. -/
theorem simd_toMerged_contains (a : SimdAabb3 K) (p : V3 K) :
    letI := fieldNum K sq
    (∃ b ∈ a.lanes, BMem b p) → BMem a.toMerged p := by
  rintro ⟨b, hb, ⟨⟨h1, h2⟩, ⟨h3, h4⟩, h5, h6⟩⟩
  simp only [SimdAabb3.lanes, List.mem_cons, List.mem_nil_iff, or_false] at hb
  simp only [SimdAabb3.toMerged, BMem, fieldNum_nmin, fieldNum_nmax, min_le_iff, le_max_iff]
  rcases hb with rfl | rfl | rfl | rfl <;> tauto

theorem simd_toMerged_least (a : SimdAabb3 K) (c : Aabb3 K) (hv : ∀ b ∈ a.lanes, BValid b)
    (hc : ∀ b ∈ a.lanes, ∀ p, BMem b p → BMem c p) (p : V3 K) :
    letI := fieldNum K sq
    BMem a.toMerged p → BMem c p := by
  intro hp
  have corner : ∀ b ∈ @SimdAabb3.lanes K a, BMem c b.mins ∧ BMem c b.maxs := by
    intro b hb
    obtain ⟨v1, v2, v3⟩ := hv b hb
    exact ⟨hc b hb _ ⟨⟨le_refl _, v1⟩, ⟨le_refl _, v2⟩, le_refl _, v3⟩, hc b hb _ ⟨⟨v1, le_refl _⟩, ⟨v2, le_refl _⟩, v3, le_refl _⟩⟩
  obtain ⟨c0m, c0M⟩ := corner a.l0 (by simp [SimdAabb3.lanes])
  obtain ⟨c1m, c1M⟩ := corner a.l1 (by simp [SimdAabb3.lanes])
  obtain ⟨c2m, c2M⟩ := corner a.l2 (by simp [SimdAabb3.lanes])
  obtain ⟨c3m, c3M⟩ := corner a.l3 (by simp [SimdAabb3.lanes])
  simp only [SimdAabb3.toMerged, BMem, fieldNum_nmin, fieldNum_nmax, le_min_iff, max_le_iff, min_le_iff, le_max_iff] at hp
  simp only [BMem] at c0m c0M c1m c1M c2m c2M c3m c3M ⊢
  obtain ⟨⟨h1, h2⟩, ⟨h3, h4⟩, h5, h6⟩ := hp
  refine ⟨⟨?_, ?_⟩, ⟨?_, ?_⟩, ?_, ?_⟩
  · rcases h1 with ((h | h) | h) | h <;> linarith [c0m.1.1, c1m.1.1, c2m.1.1, c3m.1.1]
  · rcases h2 with ((h | h) | h) | h <;> linarith [c0M.1.2, c1M.1.2, c2M.1.2, c3M.1.2]
  · rcases h3 with ((h | h) | h) | h <;> linarith [c0m.2.1.1, c1m.2.1.1, c2m.2.1.1, c3m.2.1.1]
  · rcases h4 with ((h | h) | h) | h <;> linarith [c0M.2.1.2, c1M.2.1.2, c2M.2.1.2, c3M.2.1.2]
  · rcases h5 with ((h | h) | h) | h <;> linarith [c0m.2.2.1, c1m.2.2.1, c2m.2.2.1, c3m.2.2.1]
  · rcases h6 with ((h | h) | h) | h <;> linarith [c0M.2.2.2, c1M.2.2.2, c2M.2.2.2, c3M.2.2.2]

end C09
