import ParryModel.C09.Theorems5
/-!
# C09 theorems, part 19: `Aabb::scaled_wrt_center`, `Aabb::take_point`, tightness of the HeightField box
-/
set_option linter.unusedSectionVars false
set_option linter.unusedVariables false
set_option linter.unusedSimpArgs false
set_option linter.style.haveILetI false

namespace C09
open Model

variable {K : Type} [Field K] [LinearOrder K] [IsStrictOrderedRing K] (sq : K → K)

private theorem axis_wrt (lo hi s x : K) (h1 : lo ≤ x) (h2 : x ≤ hi) :
    (lo + hi) * (1/2) - |(hi - lo) * (1/2) * s| ≤ (lo + hi) * (1/2) + (x - (lo + hi) * (1/2)) * s ∧
    (lo + hi) * (1/2) + (x - (lo + hi) * (1/2)) * s ≤ (lo + hi) * (1/2) + |(hi - lo) * (1/2) * s| := by
  have hd : |x - (lo + hi) * (1/2)| ≤ (hi - lo) * (1/2) := by rw [abs_le]; constructor <;> linarith
  have hh : 0 ≤ (hi - lo) * (1/2) := le_trans (abs_nonneg _) hd
  have : |(x - (lo + hi) * (1/2)) * s| ≤ |(hi - lo) * (1/2) * s| := by
    rw [abs_mul, abs_mul, abs_of_nonneg hh]
    exact mul_le_mul_of_nonneg_right hd (abs_nonneg _)
  have := abs_le.1 this
  constructor <;> linarith [this.1, this.2]

/-- **`Aabb::scaled_wrt_center`**: for every scale vector, of any signs, the result contains `c + s∘(p − c)` for every
point `p` of the box (`c` = the centre): the box scaled about its own centre. -/
theorem aabb_scaledWrtCenter_contains (a : Aabb3 K) (s p : V3 K) (h : BMem a p) :
    letI := fieldNum K sq
    BMem (a.scaledWrtCenter s) (a.center.add ((p.sub a.center).cmul s)) := by
  obtain ⟨⟨h1, h2⟩, ⟨h3, h4⟩, h5, h6⟩ := h
  have hl : ((mkRat 1 2 : Rat) : K) = 1/2 := by norm_num
  simp only [Aabb3.scaledWrtCenter, Aabb3.fromHalfExtents, Aabb3.center, Aabb3.halfExtents, V3.center, V3.abs, V3.cmul, V3.add,
    V3.sub, V3.smul, BMem, fieldNum_nabs, fieldNum_lit, hl]
  have ax := axis_wrt a.mins.x a.maxs.x s.x p.x h1 h2
  have ay := axis_wrt a.mins.y a.maxs.y s.y p.y h3 h4
  have az := axis_wrt a.mins.z a.maxs.z s.z p.z h5 h6
  exact ⟨ax, ay, az⟩

/-- **`Aabb::take_point`**: the grown box contains the point and everything the box contained. -/
theorem aabb_takePoint_contains (b : Aabb3 K) (p q : V3 K) :
    letI := fieldNum K sq
    (b.mins.x ≤ b.maxs.x ∧ b.mins.y ≤ b.maxs.y ∧ b.mins.z ≤ b.maxs.z → BMem (b.takePoint p) p) ∧
      (BMem b q → BMem (b.takePoint p) q) := by
  constructor
  · rintro ⟨v1, v2, v3⟩
    simp only [Aabb3.takePoint, V3.inf, V3.sup, BMem, fieldNum_nmin, fieldNum_nmax]
    exact ⟨⟨min_le_right _ _, le_max_right _ _⟩, ⟨min_le_right _ _, le_max_right _ _⟩, min_le_right _ _, le_max_right _ _⟩
  · rintro ⟨⟨h1, h2⟩, ⟨h3, h4⟩, h5, h6⟩
    simp only [Aabb3.takePoint, V3.inf, V3.sup, BMem, fieldNum_nmin, fieldNum_nmax]
    exact ⟨⟨le_trans (min_le_left _ _) h1, le_trans h2 (le_max_left _ _)⟩, ⟨le_trans (min_le_left _ _) h3, le_trans h4 (le_max_left _ _)⟩,
      le_trans (min_le_left _ _) h5, le_trans h6 (le_max_left _ _)⟩

/-- `take_point` on the invalid sentinel box (`+MAX, −MAX`) gives the one-point box — how `Aabb::from_points` and the
composite constructors start. -/
theorem aabb_takePoint_invalid (rmax : K) (p : V3 K)
    (hx : -rmax ≤ p.x ∧ p.x ≤ rmax) (hy : -rmax ≤ p.y ∧ p.y ≤ rmax) (hz : -rmax ≤ p.z ∧ p.z ≤ rmax) :
    letI := fieldNum K sq
    (Aabb3.invalid rmax).takePoint p = ⟨p, p⟩ := by
  obtain ⟨x, y, z⟩ := p
  simp only [Aabb3.takePoint, Aabb3.invalid, V3.inf, V3.sup, fieldNum_nmin, fieldNum_nmax, Aabb3.mk.injEq, V3.mk.injEq]
  exact ⟨⟨min_eq_right hx.2, min_eq_right hy.2, min_eq_right hz.2⟩, max_eq_right hx.1, max_eq_right hy.1, max_eq_right hz.1⟩

/-! ## HeightField box: exact -/

private theorem foldl_max_attained (hs : List K) : ∀ acc : K, hs.foldl (fun a b => max a b) acc = acc ∨ hs.foldl (fun a b => max a b) acc ∈ hs := by
  induction hs with
  | nil => intro acc; exact Or.inl rfl
  | cons x xs ih =>
    intro acc
    simp only [List.foldl_cons, List.mem_cons]
    rcases ih (max acc x) with h | h
    · rcases le_total acc x with hle | hle
      · right; left; rw [h, max_eq_right hle]
      · left; rw [h, max_eq_left hle]
    · right; right; exact h
private theorem foldl_min_attained (hs : List K) : ∀ acc : K, hs.foldl (fun a b => min a b) acc = acc ∨ hs.foldl (fun a b => min a b) acc ∈ hs := by
  induction hs with
  | nil => intro acc; exact Or.inl rfl
  | cons x xs ih =>
    intro acc
    simp only [List.foldl_cons, List.mem_cons]
    rcases ih (min acc x) with h | h
    · rcases le_total acc x with hle | hle
      · left; rw [h, min_eq_left hle]
      · right; left; rw [h, min_eq_right hle]
    · right; right; exact h

/-- the abstract vertex set of a heightfield: `(u·s.x, h·s.y, w·s.z)` with `u, w ∈ [-1/2, 1/2]`, `h` one of the heights -/
def HFVertex (h0 : K) (hs : List K) (s : V3 K) (q : V3 K) : Prop :=
  ∃ u w h, (-(1/2) ≤ u ∧ u ≤ 1/2) ∧ (-(1/2) ≤ w ∧ w ≤ 1/2) ∧ h ∈ h0 :: hs ∧ q = ⟨u * s.x, h * s.y, w * s.z⟩

/-- **the HeightField box (as corrected) is exact**: for every scale vector, of any signs, each of the six faces carries
a vertex `(±s.x/2, h·s.y, ±s.z/2)` — the `x`/`z` faces a border vertex, the `y` faces a vertex of extreme height. -/
theorem heightfield_aabb_tight (h0 : K) (hs : List K) (s : V3 K) :
    letI := fieldNum K sq
    Touches3 (HFVertex h0 hs s) (heightfieldAabb3 h0 hs s) := by
  have hl : ((mkRat 1 2 : Rat) : K) = 1/2 := by norm_num
  have hmaxm : @listMax K (fieldNum K sq) h0 hs ∈ h0 :: hs := by
    have := foldl_max_attained hs h0
    simp only [listMax, fieldNum_nmax, List.mem_cons]
    rcases this with h | h
    · left; exact h
    · right; exact h
  have hminm : @listMin K (fieldNum K sq) h0 hs ∈ h0 :: hs := by
    have := foldl_min_attained hs h0
    simp only [listMin, fieldNum_nmin, List.mem_cons]
    rcases this with h | h
    · left; exact h
    · right; exact h
  have half : (-(1/2) ≤ (1/2 : K) ∧ (1/2 : K) ≤ 1/2) := ⟨by norm_num, le_refl _⟩
  have nhalf : (-(1/2) ≤ -(1/2 : K) ∧ -(1/2 : K) ≤ 1/2) := ⟨le_refl _, by norm_num⟩
  have vtx : ∀ u w h : K, (-(1/2) ≤ u ∧ u ≤ 1/2) → (-(1/2) ≤ w ∧ w ≤ 1/2) → h ∈ h0 :: hs → HFVertex h0 hs s ⟨u * s.x, h * s.y, w * s.z⟩ :=
    fun u w h hu hw hh => ⟨u, w, h, hu, hw, hh, rfl⟩
  simp only [Touches3, heightfieldAabb3, V3.inf, V3.sup, V3.smul, fieldNum_nmin, fieldNum_nmax, fieldNum_lit, hl]
  set mx := @listMax K (fieldNum K sq) h0 hs
  set mn := @listMin K (fieldNum K sq) h0 hs
  refine ⟨?_, ?_, ?_, ?_, ?_, ?_⟩
  · rcases le_total 0 s.x with h | h
    · exact ⟨_, vtx (1/2) (1/2) h0 half half (by simp), by show (1/2 : K) * s.x = _; rw [max_eq_right (by linarith)]; ring⟩
    · exact ⟨_, vtx (-(1/2)) (1/2) h0 nhalf half (by simp), by show (-(1/2) : K) * s.x = _; rw [max_eq_left (by linarith)]; ring⟩
  · rcases le_total 0 s.x with h | h
    · exact ⟨_, vtx (-(1/2)) (1/2) h0 nhalf half (by simp), by show (-(1/2) : K) * s.x = _; rw [min_eq_left (by linarith)]; ring⟩
    · exact ⟨_, vtx (1/2) (1/2) h0 half half (by simp), by show (1/2 : K) * s.x = _; rw [min_eq_right (by linarith)]; ring⟩
  · rcases le_total (mn * s.y) (mx * s.y) with h | h
    · exact ⟨_, vtx (1/2) (1/2) mx half half hmaxm, by show mx * s.y = _; rw [max_eq_right h]⟩
    · exact ⟨_, vtx (1/2) (1/2) mn half half hminm, by show mn * s.y = _; rw [max_eq_left h]⟩
  · rcases le_total (mn * s.y) (mx * s.y) with h | h
    · exact ⟨_, vtx (1/2) (1/2) mn half half hminm, by show mn * s.y = _; rw [min_eq_left h]⟩
    · exact ⟨_, vtx (1/2) (1/2) mx half half hmaxm, by show mx * s.y = _; rw [min_eq_right h]⟩
  · rcases le_total 0 s.z with h | h
    · exact ⟨_, vtx (1/2) (1/2) h0 half half (by simp), by show (1/2 : K) * s.z = _; rw [max_eq_right (by linarith)]; ring⟩
    · exact ⟨_, vtx (1/2) (-(1/2)) h0 half nhalf (by simp), by show (-(1/2) : K) * s.z = _; rw [max_eq_left (by linarith)]; ring⟩
  · rcases le_total 0 s.z with h | h
    · exact ⟨_, vtx (1/2) (-(1/2)) h0 half nhalf (by simp), by show (-(1/2) : K) * s.z = _; rw [min_eq_left (by linarith)]; ring⟩
    · exact ⟨_, vtx (1/2) (1/2) h0 half half (by simp), by show (1/2 : K) * s.z = _; rw [min_eq_right (by linarith)]; ring⟩

end C09
