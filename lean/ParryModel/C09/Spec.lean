import ParryModel.Field
import ParryModel.C09.Model
/-!
# C09 specifications shared by the theorem files: membership in an interval and in a box.
(moved here unchanged from `Theorems.lean` so that the later theorem files can use them)
-/
namespace C09
open Model

variable {K : Type} [Field K] [LinearOrder K] [IsStrictOrderedRing K]

/-- membership in an interval (the specification) -/
def IMem (x : Interval K) (u : K) : Prop := x.lo ≤ u ∧ u ≤ x.hi

/-- point membership in a 3-D box (the specification) -/
def BMem (b : Aabb3 K) (p : V3 K) : Prop :=
  (b.mins.x ≤ p.x ∧ p.x ≤ b.maxs.x) ∧ (b.mins.y ≤ p.y ∧ p.y ≤ b.maxs.y) ∧ (b.mins.z ≤ p.z ∧ p.z ≤ b.maxs.z)

/-- point membership in a 2-D box (the specification) -/
def BMem2 (b : Aabb2 K) (p : V2 K) : Prop :=
  (b.mins.x ≤ p.x ∧ p.x ≤ b.maxs.x) ∧ (b.mins.y ≤ p.y ∧ p.y ≤ b.maxs.y)

end C09
