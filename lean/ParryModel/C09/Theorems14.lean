import ParryModel.C09.Theorems6
import ParryModel.C09.Theorems8
import Mathlib.Analysis.Calculus.Deriv.MeanValue
import Mathlib.Analysis.SpecialFunctions.Trigonometric.Deriv
/-!
# C09 theorems, part 14: `find_root_intervals` beyond polynomials — the sine over ℝ

The `IntervalFunction` used by parry's own test `roots_sin` (`eval = sin`, `eval_interval = Interval::sin`,
`eval_interval_gradient = Interval::cos`, `Model.sinFun`) satisfies the contract `IFunContract` over the reals:
the inclusion half is `interval_sin_contains`, the slope half is the mean value theorem (`exists_deriv_eq_slope`,
`deriv sin = cos`) together with `interval_cos_contains`.  Hence `find_roots_cover` applies with no hypothesis left:
whenever the run returns, every real zero of `sin` in `init` — every multiple of `π` — lies in a returned interval.
-/
set_option linter.unusedSectionVars false
set_option linter.unusedVariables false
set_option linter.unusedSimpArgs false
set_option linter.style.haveILetI false

namespace C09
open Model Real

/-- **the sine satisfies the `IntervalFunction` contract** (over ℝ, with parry's `Interval::sin` / `Interval::cos`). -/
theorem sin_contract :
    letI := fieldNum ℝ Real.sqrt
    IFunContract (sinFun realTrig) := by
  refine ⟨?_, ?_⟩
  · intro I x hx
    exact interval_sin_contains I.lo I.hi x hx.1 hx.2
  · intro I x m hx hm
    -- chord slope = cos ξ for some ξ between m and x, and ξ ∈ I
    have hcos : ∀ ξ : ℝ, I.lo ≤ ξ → ξ ≤ I.hi → IMem (@Interval.cos ℝ (fieldNum ℝ Real.sqrt) realTrig I) (Real.cos ξ) :=
      fun ξ h1 h2 => interval_cos_contains I.lo I.hi ξ h1 h2
    rcases lt_trichotomy m x with h | h | h
    · obtain ⟨c, ⟨hc1, hc2⟩, hc⟩ := exists_deriv_eq_slope Real.sin h Real.continuous_sin.continuousOn
        Real.differentiable_sin.differentiableOn
      rw [Real.deriv_sin] at hc
      refine ⟨Real.cos c, hcos c (by linarith [hm.1]) (by linarith [hx.2]), ?_⟩
      have hne : x - m ≠ 0 := by linarith
      show Real.sin x - Real.sin m = Real.cos c * (x - m)
      rw [hc, div_mul_cancel₀ _ hne]
    · subst h
      exact ⟨Real.cos m, hcos m hm.1 hm.2, by show Real.sin m - Real.sin m = _; ring⟩
    · obtain ⟨c, ⟨hc1, hc2⟩, hc⟩ := exists_deriv_eq_slope Real.sin h Real.continuous_sin.continuousOn
        Real.differentiable_sin.differentiableOn
      rw [Real.deriv_sin] at hc
      refine ⟨Real.cos c, hcos c (by linarith [hx.1]) (by linarith [hm.2]), ?_⟩
      have hne : m - x ≠ 0 := by linarith
      show Real.sin x - Real.sin m = Real.cos c * (x - m)
      have : Real.sin m - Real.sin x = Real.cos c * (m - x) := by rw [hc, div_mul_cancel₀ _ hne]
      linarith

/-- **`find_root_intervals` on the sine** — no hypothesis left: whenever the run returns (it does for
`fuel ≥ (4^(max_recursions+1)-1)/3`, `find_roots_terminates`), every real `x ∈ init` with `sin x = 0` lies in a
returned interval, for every `max_recursions` and every thresholds. -/
theorem find_roots_cover_sin (init : Interval ℝ) (minW minImg : ℝ) (maxRec fuel : Nat) (res : List (Interval ℝ)) :
    letI := fieldNum ℝ Real.sqrt
    findRootIntervals (sinFun realTrig) init minW minImg maxRec fuel = some res →
    ∀ x, IMem init x → Real.sin x = 0 → ∃ i ∈ res, IMem i x :=
  fun h x hx h0 => find_roots_cover Real.sqrt _ sin_contract init minW minImg maxRec fuel res h x hx h0

/-- in particular every multiple of `π` inside `init` is covered -/
theorem find_roots_cover_sin_pi (init : Interval ℝ) (minW minImg : ℝ) (maxRec fuel : Nat) (res : List (Interval ℝ)) (k : ℤ) :
    letI := fieldNum ℝ Real.sqrt
    findRootIntervals (sinFun realTrig) init minW minImg maxRec fuel = some res →
    IMem init (k * π) → ∃ i ∈ res, IMem i (k * π) :=
  fun h hx => find_roots_cover_sin init minW minImg maxRec fuel res h _ hx (Real.sin_int_mul_pi k)

example : IMem (⟨-1, 4⟩ : Interval ℝ) ((1 : ℤ) * π) := by
  constructor <;> simp <;> linarith [Real.pi_pos, Real.pi_le_four]

end C09
