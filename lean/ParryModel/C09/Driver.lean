import ParryModel.C09.DriverA
import ParryModel.C09.DriverB
import ParryModel.C09.DriverC
import ParryModel.C09.DriverD
/-! C09 protocol handlers: `DriverA` (intervals, box algebra, closed forms, spheres, SIMD lanes),
`DriverB` (boxes / spheres of every shape kind, composites, swept boxes),
`DriverC` (`find_root_intervals`, `Interval::sin/cos`),
`DriverD` (`SimdAabb::transform_by`, sphere `transform_by/loosened/tightened`, `Aabb::tightened`). -/
namespace C09
open Proto

def handler (fn : String) : Option Handler :=
  match handlerA fn with
  | some h => some h
  | none => match handlerB fn with
    | some h => some h
    | none => match handlerC fn with
      | some h => some h
      | none => handlerD fn

end C09
