import ParryModel.C09.Model2
/-!
# C09 model, part 4: `find_root_intervals_to` (interval Newton + bisection, `utils/interval.rs`) and
`Interval::sin` / `Interval::cos`.

`IFun` is the `IntervalFunction` trait (three methods).  The work list `candidates` is a stack (`Vec::pop`), the
result list is in push order.  The `while let Some(..) = candidates.pop()` loop is fuel-bounded: `none` = fuel
exhausted (the code itself has no iteration cap; every candidate carries a recursion counter `≤ max_recursions`,
so the loop ends after at most `4^max_recursions` pops).
-/
namespace Model
variable {K : Type} [Num K]

/-- `trait IntervalFunction<T>` -/
structure IFun (K : Type) where
  eval : K → K
  evalI : Interval K → Interval K
  gradI : Interval K → Interval K

/-- `Real::default_epsilon().sqrt()` -/
def sqrtEps : K := Num.sqrt (lit 1 4503599627370496)

/-- results (push order), candidates (stack, top first) -/
abbrev RootState (K : Type) := List (Interval K) × List (Interval K × Nat)

/-- the `push_candidate` closure -/
def pushCandidate (f : IFun K) (minW minImg : K) (maxRec : Nat) (cand : Interval K) (recursion : Nat)
    (st : RootState K) : RootState K :=
  let image := f.evalI cand
  let isSmall : Bool := decide (cand.width < minW) || decide (image.width < minImg)
  if image.contains 0 then
    if recursion == maxRec || isSmall then (st.1 ++ [cand], st.2)
    else (st.1, (cand, recursion + 1) :: st.2)
  else if isSmall && decide (nabs (f.eval cand.midpoint) < sqrtEps) then (st.1 ++ [cand], st.2)
  else st

/-- `mid - e` on extended values -/
def Ext.subFrom (mid : K) : Ext K → Ext K
  | .negInf => .posInf
  | .fin v => .fin (mid - v)
  | .posInf => .negInf

/-- `(Interval(mid, mid) - shift).intersect(candidate)` with the extended endpoints of `shift`
(`Sub`: `(mid - shift.1, mid - shift.0)`; `intersect`: `(max(self.0, rhs.0), min(self.1, rhs.1))`, `None` when
the first exceeds the second). -/
def newtonPiece (mid : K) (shift : EInterval K) (cand : Interval K) : Option (Interval K) :=
  let lo := Ext.subFrom mid shift.hi
  let hi := Ext.subFrom mid shift.lo
  match lo, hi with
  | .posInf, _ => none
  | _, .negInf => none
  | .negInf, .posInf => if cand.hi < cand.lo then none else some cand
  | .negInf, .fin h => let r : Interval K := ⟨cand.lo, nmin h cand.hi⟩; if r.hi < r.lo then none else some r
  | .fin l, .posInf => let r : Interval K := ⟨nmax l cand.lo, cand.hi⟩; if r.hi < r.lo then none else some r
  | .fin l, .fin h => let r : Interval K := ⟨nmax l cand.lo, nmin h cand.hi⟩; if r.hi < r.lo then none else some r

/-- the body of the `for new_candidate in …` loop -/
def pushNew (f : IFun K) (minW minImg : K) (maxRec : Nat) (prevWidth : K) (recursion : Nat)
    (nc : Option (Interval K)) (st : RootState K) : RootState K :=
  match nc with
  | none => st
  | some nc =>
    if prevWidth * lit 3 4 < nc.width then
      let ab := nc.split
      pushCandidate f minW minImg maxRec ab.2 recursion (pushCandidate f minW minImg maxRec ab.1 recursion st)
    else pushCandidate f minW minImg maxRec nc recursion st

/-- one iteration of the `while let` loop on the popped `(candidate, recursion)` -/
def rootStep (f : IFun K) (minW minImg : K) (maxRec : Nat) (cand : Interval K) (recursion : Nat)
    (st : RootState K) : RootState K :=
  let mid := cand.midpoint
  let fMid := f.eval mid
  let gradient := f.gradI cand
  let shifts := Interval.div ⟨fMid, fMid⟩ gradient
  let n1 := newtonPiece mid shifts.1 cand
  let n2 := match shifts.2 with | none => none | some s => newtonPiece mid s cand
  let prevWidth := cand.width
  pushNew f minW minImg maxRec prevWidth recursion n2 (pushNew f minW minImg maxRec prevWidth recursion n1 st)

def rootsLoop (f : IFun K) (minW minImg : K) (maxRec : Nat) : Nat → RootState K → Option (List (Interval K))
  | _, (res, []) => some res
  | 0, (_, _ :: _) => none
  | fuel + 1, (res, (c, r) :: rest) => rootsLoop f minW minImg maxRec fuel (rootStep f minW minImg maxRec c r (res, rest))

/-- `find_root_intervals(function, init, min_interval_width, min_image_width, max_recursions)` -/
def findRootIntervals (f : IFun K) (init : Interval K) (minW minImg : K) (maxRec : Nat) (fuel : Nat) :
    Option (List (Interval K)) :=
  rootsLoop f minW minImg maxRec fuel (pushCandidate f minW minImg maxRec init 0 ([], []))

/-! ## a concrete `IntervalFunction`: polynomials of degree ≤ 4 in the power basis (implemented identically in the
harness, `c09d.rs`), evaluated with parry's own `Interval` operators -/

/-- `c0 + t*(c1 + t*(c2 + t*(c3 + t*c4)))` -/
def polyEval (c0 c1 c2 c3 c4 : K) (t : K) : K := c0 + t * (c1 + t * (c2 + t * (c3 + t * c4)))
/-- `t2 = t*t; t3 = t2*t; t4 = t3*t; (((t*c1 + c0) + t2*c2) + t3*c3) + t4*c4` -/
def polyEvalI (c0 c1 c2 c3 c4 : K) (t : Interval K) : Interval K :=
  let t2 := t.mul t
  let t3 := t2.mul t
  let t4 := t3.mul t
  ((((t.mulS c1).addS c0).add (t2.mulS c2)).add (t3.mulS c3)).add (t4.mulS c4)
/-- `((t*(2*c2) + c1) + t2*(3*c3)) + t3*(4*c4)` -/
def polyGradI (c1 c2 c3 c4 : K) (t : Interval K) : Interval K :=
  let t2 := t.mul t
  let t3 := t2.mul t
  (((t.mulS (two * c2)).addS c1).add (t2.mulS ((two + 1) * c3))).add (t3.mulS ((two + two) * c4))
def polyFun (c0 c1 c2 c3 c4 : K) : IFun K :=
  ⟨polyEval c0 c1 c2 c3 c4, polyEvalI c0 c1 c2 c3 c4, polyGradI c1 c2 c3 c4⟩

/-! ## `Interval::sin`, `Interval::cos` -/

/-- the `RealField` operations and constants the two functions use -/
structure TrigOps (K : Type) where
  sin : K → K
  cos : K → K
  floor : K → K
  pi : K
  twoPi : K
  fracPi2 : K

/-- `Interval::sin` -/
def Interval.sin (T : TrigOps K) (x : Interval K) : Interval K :=
  if T.twoPi ≤ x.width then ⟨-1, 1⟩ else
    let sin0 := T.sin x.lo
    let sin1 := T.sin x.hi
    let r0 := Interval.sort sin0 sin1
    let orig := T.floor (x.lo / T.twoPi) * T.twoPi
    let c0 := orig + T.fracPi2
    let c1 := orig + T.pi + T.fracPi2
    let r1 := if x.contains c0 || x.contains (c0 + T.twoPi) then r0.enclose 1 else r0
    if x.contains c1 || x.contains (c1 + T.twoPi) then r1.enclose (-1) else r1

/-- `Interval::cos` -/
def Interval.cos (T : TrigOps K) (x : Interval K) : Interval K :=
  if T.twoPi ≤ x.width then ⟨-1, 1⟩ else
    let cos0 := T.cos x.lo
    let cos1 := T.cos x.hi
    let r0 := Interval.sort cos0 cos1
    let orig := T.floor (x.lo / T.twoPi) * T.twoPi
    let c0 := orig
    let c1 := orig + T.pi
    let r1 := if x.contains c0 || x.contains (c0 + T.twoPi) then r0.enclose 1 else r0
    if x.contains c1 || x.contains (c1 + T.twoPi) then r1.enclose (-1) else r1

/-- `sin` as an `IntervalFunction` (the test `roots_sin` of `interval.rs`): `eval = sin`, `eval_interval = Interval::sin`,
`eval_interval_gradient = Interval::cos` -/
def sinFun (T : TrigOps K) : IFun K := ⟨T.sin, Interval.sin T, Interval.cos T⟩

end Model
