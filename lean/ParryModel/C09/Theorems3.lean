import ParryModel.Field
import ParryModel.C09.Model2
/-!
# C09 theorems, part 3: `Interval / Interval` encloses every quotient `u / v`, `u ∈ X`, `v ∈ Y`, `v ≠ 0`,
in one of the (at most two) returned pieces — every sign pattern, including divisors that contain zero.
-/
namespace C09
open Model

variable {K : Type} [Field K] [LinearOrder K] [IsStrictOrderedRing K] (sq : K → K)

/-- membership in an extended interval (`-∞`/`+∞` endpoints allowed) -/
def EMem (i : EInterval K) (w : K) : Prop :=
  (match i.lo with | .negInf => True | .fin l => l ≤ w | .posInf => False) ∧
  (match i.hi with | .negInf => False | .fin h => w ≤ h | .posInf => True)

/-- for a positive divisor: `a/b ≤ u/v ↔ a*v ≤ u*b` when `b > 0` -/
private theorem le_pp {a b u v : K} (hb : 0 < b) (hv : 0 < v) : a / b ≤ u / v ↔ a * v ≤ u * b :=
  div_le_div_iff₀ hb hv
private theorem le_nn {a b u v : K} (hb : b < 0) (hv : v < 0) : a / b ≤ u / v ↔ a * v ≤ u * b := by
  have e1 : a / b = (-a) / (-b) := (neg_div_neg_eq a b).symm
  have e2 : u / v = (-u) / (-v) := (neg_div_neg_eq u v).symm
  rw [e1, e2, div_le_div_iff₀ (neg_pos.mpr hb) (neg_pos.mpr hv)]
  constructor <;> intro h <;> nlinarith
private theorem le_np {a b u v : K} (hb : b < 0) (hv : 0 < v) : a / b ≤ u / v ↔ u * b ≤ a * v := by
  have e1 : a / b = (-a) / (-b) := (neg_div_neg_eq a b).symm
  rw [e1, div_le_div_iff₀ (neg_pos.mpr hb) hv]
  constructor <;> intro h <;> nlinarith
private theorem le_pn {a b u v : K} (hb : 0 < b) (hv : v < 0) : a / b ≤ u / v ↔ u * b ≤ a * v := by
  have e2 : u / v = (-u) / (-v) := (neg_div_neg_eq u v).symm
  rw [e2, div_le_div_iff₀ hb (neg_pos.mpr hv)]
  constructor <;> intro h <;> nlinarith

/-- closes `a/b ≤ u/v` for quotients whose denominators have signs derivable by `linarith` -/
macro "qle" : tactic => `(tactic| first
  | (rw [le_pp (by linarith) (by linarith)]; nlinarith)
  | (rw [le_nn (by linarith) (by linarith)]; nlinarith)
  | (rw [le_np (by linarith) (by linarith)]; nlinarith)
  | (rw [le_pn (by linarith) (by linarith)]; nlinarith))

/-- **C09 (interval division)**: for finite intervals `X = [a1,a2]`, `Y = [b1,b2]`, every quotient
`u / v` with `u ∈ X`, `v ∈ Y`, `v ≠ 0` lies in the first returned piece or in the second one (when there is one). -/
theorem interval_div_contains (x y : Interval K) (u v : K)
    (hu : x.lo ≤ u ∧ u ≤ x.hi) (hv : y.lo ≤ v ∧ v ≤ y.hi) (hv0 : v ≠ 0) :
    letI := fieldNum K sq
    EMem (x.div y).1 (u / v) ∨ ∃ p, (x.div y).2 = some p ∧ EMem p (u / v) := by
  obtain ⟨h1, h2⟩ := hu; obtain ⟨h3, h4⟩ := hv
  rcases lt_or_gt_of_ne hv0 with hvn | hvp
  all_goals
    simp only [Interval.div, neq, Bool.and_eq_true, decide_eq_true_eq, Bool.not_eq_true', Bool.and_eq_false_iff,
      decide_eq_false_iff_not, not_le]
    split_ifs <;> simp only [EMem, true_and, and_true, Option.some.injEq, exists_eq_left', reduceCtorEq, false_and,
      exists_false, or_false, exists_const, and_self, or_true, true_or] <;>
    (try simp only [not_and_or, not_or, not_le, not_lt] at *) <;>
    (try casesm* _ ∧ _) <;> (try casesm* _ ∨ _) <;>
    first
      | done
      | (exfalso; linarith)
      | qle
      | (left; qle)
      | (right; qle)
      | (constructor <;> qle)

example : ((-1:ℚ) ≤ 3 ∧ (3:ℚ) ≤ 10) ∧ ((-2:ℚ) ≤ -1 ∧ (-1:ℚ) ≤ 1) ∧ (-1:ℚ) ≠ 0 := by norm_num

end C09
