import ParryModel.C09.DriverA
import ParryModel.C09.Model4
import ParryModel.C09.Model5
/-!
# C09 protocol handlers, part C: `find_root_intervals(_to)` on concrete `IntervalFunction`s (polynomials of degree ≤ 4
with known rational roots; `sin`), `Interval::sin` / `Interval::cos`.

Oracles: (roots) every exact root listed by the generator — re-verified here by exact `Rat` evaluation of the
polynomial with the actual `f64` coefficients — that lies in `init` must lie in some returned interval; every returned
interval lies in `init`.  (sin/cos) for rational sample points `x ∈ [a, b]` (end points, interior points, every
multiple of `π/2` inside) a certified rational enclosure of `sin x` (fixed-point Taylor series after range reduction
with a 50-digit rational `π`, total error < 1e-25) must lie in the returned interval up to 1e-12.
-/
namespace C09
open Model Proto

/-! ## the `f64` instance of `TrigOps` (same libm as `f64::sin`, `f64::cos`, `f64::floor`) -/
def piF : Float := Float.ofBits 0x400921FB54442D18
def trigF : TrigOps Float := ⟨Float.sin, Float.cos, Float.floor, piF, piF + piF, Float.ofBits 0x3FF921FB54442D18⟩

/-! ## certified rational sine -/
/-- π to 50 decimals (error < 1e-50) -/
def piQ : Rat := 314159265358979323846264338327950288419716939937510 / 100000000000000000000000000000000000000000000000000
def fxBits : Nat := 120
def fxOne : Int := (2 : Int) ^ fxBits
/-- round a rational to the fixed-point grid `2⁻¹²⁰` -/
def toFx (x : Rat) : Int := (x * (fxOne : Rat)).floor
/-- Taylor series of `sin y`, `|y| ≤ 4`, in fixed point (each step floors: error < 100·2⁻¹²⁰) -/
def sinFx (y : Int) : Int :=
  let y2 := y * y / fxOne
  let rec go (n : Nat) (k : Nat) (term acc : Int) : Int :=
    match n with
    | 0 => acc
    | n + 1 =>
      let term' := - (term * y2 / fxOne) / (((2 * k + 2) * (2 * k + 3) : Nat) : Int)
      go n (k + 1) term' (acc + term')
  go 30 0 y y
/-- `sin x` for rational `x`: reduce by the nearest multiple of `2π`, then Taylor; absolute error < 1e-25 for `|x| ≤ 1e6` -/
def sinQ (x : Rat) : Rat :=
  let k : Int := (x / (2 * piQ) + 1/2).floor
  let y := x - (k : Rat) * (2 * piQ)
  ((sinFx (toFx y) : Int) : Rat) / (fxOne : Rat)
def cosQ (x : Rat) : Rat := sinQ (x + piQ / 2)

/-- sample points of `[a, b]`: ends, interior points, every multiple of `π/2` inside (clipped into the interval) -/
def trigSamples (a b : Rat) : List Rat :=
  let base := [a, b, (a + b) / 2, (3 * a + b) / 4, (a + 3 * b) / 4, (7 * a + b) / 8, (a + 7 * b) / 8]
  let h := piQ / 2
  let k0 : Int := (a / h).floor
  let n : Nat := (((b - a) / h).floor + 2).toNat
  let crit := (List.range (min n 40)).filterMap fun (i : Nat) =>
    let c := ((k0 + Int.ofNat i : Int) : Rat) * h
    if a ≤ c ∧ c ≤ b then some c else none
  base ++ crit

def trigOracle (f : Rat → Rat) (x : Interval Float) (out : Interval Float) (what : String) : String :=
  if !(FloatIO.isFinite x.lo && FloatIO.isFinite x.hi) then "skip nonfinite-input" else
  if !(FloatIO.isFinite out.lo && FloatIO.isFinite out.hi) then s!"fail nonfinite-output {what}" else
  let a := q x.lo; let b := q x.hi
  if b < a then "skip empty-interval" else
  let tol : Rat := 1 / 1000000000000
  let lo := q out.lo; let hi := q out.hi
  if lo < -1 - tol || 1 + tol < hi then s!"fail {what}-interval-exceeds-[-1,1]" else
  match (trigSamples a b).filter (fun t => let s := f t; !(lo - tol ≤ s && s ≤ hi + tol)) with
  | [] => "pass"
  | t :: _ => s!"fail {what}-value-not-enclosed x={Float.ofInt t.num / Float.ofNat t.den} value={Float.ofInt (f t).num / Float.ofNat (f t).den} out=[{out.lo},{out.hi}]"

/-! ## root finding -/
def fuelF : Nat := 400000
def fres (r : List (Interval Float)) : String :=
  String.intercalate " " (toString r.length :: r.map fint)
def pores : P (List (Interval Float)) := do
  let n ← pnat
  let rec go : Nat → P (List (Interval Float))
    | 0 => pure []
    | k + 1 => do let a ← pfo; let b ← pfo; let xs ← go k; pure (⟨a, b⟩ :: xs)
  go n

structure PolyCase where
  c : List Float
  init : Interval Float
  mw : Float
  mi : Float
  mr : Nat
  roots : List Float
def ppoly : P PolyCase := do
  let c0 ← pf; let c1 ← pf; let c2 ← pf; let c3 ← pf; let c4 ← pf
  let init ← pinterval; let mw ← pf; let mi ← pf; let mr ← pnat
  let roots ← plist pf
  pure ⟨[c0, c1, c2, c3, c4], init, mw, mi, mr, roots⟩
def PolyCase.fn (p : PolyCase) : IFun Float :=
  polyFun (p.c.getD 0 0) (p.c.getD 1 0) (p.c.getD 2 0) (p.c.getD 3 0) (p.c.getD 4 0)
def PolyCase.evalQ (p : PolyCase) (t : Rat) : Rat :=
  (p.c.map q).foldr (fun c acc => c + t * acc) 0

/-- every root of `roots` inside `init` is covered by some returned interval; returned intervals lie in `init`.
parry's `Interval` arithmetic does not round outward, so in floating point the enclosures of `f` and `f'` are only
accurate up to the rounding error of their evaluation; near a root of multiplicity `m` that error moves / hides the root
by `O(ε^(1/m))` (a perturbation of the coefficients by `ε` moves an `m`-fold root by `ε^(1/m)`).  The coverage tolerance
therefore depends on the multiplicity: `1e-9` (simple), `1e-4` (double), `1e-2` (triple or more), relative to `1 + |root|`. -/
def coverOracle (init : Interval Float) (roots : List Rat) (res : List (Interval Float)) : String :=
  let lo := q init.lo; let hi := q init.hi
  if res.any fun i => !(FloatIO.isFinite i.lo && FloatIO.isFinite i.hi) then "fail nonfinite-result-interval" else
  if res.any fun i => q i.hi < q i.lo then "fail inverted-result-interval" else
  if res.any fun i => q i.lo < lo || hi < q i.hi then "fail result-interval-outside-init" else
  let inside := roots.filter fun r => lo ≤ r ∧ r ≤ hi
  let tolOf (r : Rat) : Rat :=
    let m := (roots.filter (· == r)).length
    (if m ≤ 1 then 1 / 1000000000 else if m = 2 then 1 / 10000 else 1 / 100) * (1 + rabs r)
  match inside.filter (fun r => !(res.any fun i => q i.lo - tolOf r ≤ r && r ≤ q i.hi + tolOf r)) with
  | [] => if inside.isEmpty && res.isEmpty then "pass no-root-no-interval" else "pass"
  | r :: _ => s!"fail root-not-covered root={Float.ofInt r.num / Float.ofNat r.den} multiplicity={(roots.filter (· == r)).length} intervals={res.length}"

def handlerC (fn : String) : Option Handler :=
  match fn with
  | "roots_poly" => some {
      model := fun a => run (do let p ← ppoly
                                pure (match findRootIntervals p.fn p.init p.mw p.mi p.mr fuelF with
                                      | some r => fres r | none => "fuel")) a
      oracle := fun a o => match run ppoly a with
        | some p => withOut pores o fun res =>
            let exact := (p.roots.map q).filter fun r => p.evalQ r == 0
            if q p.init.hi < q p.init.lo then "skip inverted-init" else coverOracle p.init exact res
        | none => "skip bad-args" }
  | "roots_poly_to" => some {
      model := fun a => run (do let p ← ppoly
                                pure (match findRootIntervalsTo p.fn p.init p.mw p.mi p.mr fuelF [(⟨7.0, 7.5⟩ : Interval Float)]
                                              [((⟨-1000.0, 1000.0⟩ : Interval Float), 0), (p.init, 1)] with
                                      | some r => "0 " ++ fres r | none => "fuel")) a
      oracle := fun a o => match run ppoly a with
        | some p => (match o with
          | "0" :: rest => withOut pores rest fun res =>
              match res with
              | s :: res' =>
                if !(s.lo == 7.0 && s.hi == 7.5) then "fail previous-results-not-kept" else
                let exact := (p.roots.map q).filter fun r => p.evalQ r == 0
                if q p.init.hi < q p.init.lo then "skip inverted-init" else coverOracle p.init exact res'
              | [] => "fail previous-results-not-kept"
          | "panic" :: _ => "fail panic"
          | _ => "fail candidates-workspace-not-emptied")
        | none => "skip bad-args" }
  | "roots_sin" => some {
      model := fun a => run (do let init ← pinterval; let mw ← pf; let mi ← pf; let mr ← pnat
                                pure (match findRootIntervals (sinFun trigF) init mw mi mr fuelF with
                                      | some r => fres r | none => "fuel")) a
      oracle := fun a o => match run (do let init ← pinterval; let mw ← pf; let mi ← pf; let mr ← pnat; pure (init, mw, mi, mr)) a with
        | some (init, _, _, _) => withOut pores o fun res =>
            let lo := q init.lo; let hi := q init.hi
            if hi < lo then "skip inverted-init" else
            let k0 : Int := (lo / piQ).floor
            let n : Nat := (((hi - lo) / piQ).floor + 2).toNat
            let roots := (List.range (min n 60)).filterMap fun (i : Nat) =>
              let c := ((k0 + Int.ofNat i : Int) : Rat) * piQ
              -- roots at least 1e-9 inside (a root within rounding distance of an end of `init` may or may not count)
              if lo + 1 / 1000000000 ≤ c ∧ c ≤ hi - 1 / 1000000000 then some c else none
            coverOracle init roots res
        | none => "skip bad-args" }
  | "interval_sin" => some {
      model := fun a => run (do let x ← pinterval; pure (fint (x.sin trigF))) a
      oracle := fun a o => match run pinterval a with
        | some x => withOut (do let a ← pfo; let b ← pfo; pure (⟨a, b⟩ : Interval Float)) o fun r => trigOracle sinQ x r "sin"
        | none => "skip bad-args" }
  | "interval_cos" => some {
      model := fun a => run (do let x ← pinterval; pure (fint (x.cos trigF))) a
      oracle := fun a o => match run pinterval a with
        | some x => withOut (do let a ← pfo; let b ← pfo; pure (⟨a, b⟩ : Interval Float)) o fun r => trigOracle cosQ x r "cos"
        | none => "skip bad-args" }
  | "interval_sin_cos" => some {
      model := fun a => run (do let x ← pinterval; pure (fint (x.sin trigF) ++ " " ++ fint (x.cos trigF))) a
      oracle := fun a o => match run pinterval a with
        | some x => withOut (do let a ← pfo; let b ← pfo; let c ← pfo; let d ← pfo; pure ((⟨a, b⟩ : Interval Float), (⟨c, d⟩ : Interval Float))) o fun (s, c) =>
            let r1 := trigOracle sinQ x s "sin"
            if r1 != "pass" then r1 else trigOracle cosQ x c "cos"
        | none => "skip bad-args" }
  | _ => none

end C09
