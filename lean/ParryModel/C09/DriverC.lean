import ParryModel.C09.DriverA
/-! C09 protocol handlers, part C (placeholder, filled below). -/
namespace C09
open Model Proto
def handlerC (_fn : String) : Option Handler := none
end C09
