import ParryModel.C09.Spec
import ParryModel.C09.Model3
import ParryModel.C10.Theorems
/-!
# C09 theorems, part 4: `support_map_aabb` and the boxes built on it.

`support_map_aabb` / `local_support_map_aabb` (`bounding_volume/aabb_utils.rs`) are modelled generically over a
support function `sp` (`Model.supportMapAabb3/2`).  From the hypothesis that `sp` returns a *support point* of
a set `S` along the six (four) axis directions (`C10.IsSupport3`: a member of `S` maximising `dir·p`), the box
* contains every point of `S` (`support_map_aabb_contains`), and
* touches `S` on every face: for every axis and sign some point of `S` lies on that face
  (`support_map_aabb_tight`) — so it is the least box containing `S`.
The hypothesis is discharged by the support-map theorems of C10 (reused by import) for the shapes whose boxes
go through these functions: Cone, Cylinder (posed and local), Segment (local; posed = local box of the transformed
segment), and for any shape wrapped in `RoundShape` when `support_map_aabb` is applied to it.  The boxes parry
actually computes for point clouds (`point_cloud_aabb`) and for `RoundShape` (`inner box .loosened(border_radius)`)
get their own contains / tight theorems, as does the swept box.
-/
set_option linter.unusedSectionVars false
set_option linter.unusedVariables false
set_option linter.unusedSimpArgs false
set_option linter.style.haveILetI false

namespace C09
open Model Model.C10 C10

variable {K : Type} [Field K] [LinearOrder K] [IsStrictOrderedRing K] (sq : K → K)

/-- `sp` returns a support point of `S` along each of the six axis directions `±e_x, ±e_y, ±e_z`. -/
def AxisSupport3 (S : V3 K → Prop) (sp : V3 K → V3 K) : Prop :=
  IsSupport3 sq S ⟨1, 0, 0⟩ (sp ⟨1, 0, 0⟩) ∧ IsSupport3 sq S ⟨-1, 0, 0⟩ (sp ⟨-1, 0, 0⟩) ∧
  IsSupport3 sq S ⟨0, 1, 0⟩ (sp ⟨0, 1, 0⟩) ∧ IsSupport3 sq S ⟨0, -1, 0⟩ (sp ⟨0, -1, 0⟩) ∧
  IsSupport3 sq S ⟨0, 0, 1⟩ (sp ⟨0, 0, 1⟩) ∧ IsSupport3 sq S ⟨0, 0, -1⟩ (sp ⟨0, 0, -1⟩)
def AxisSupport2 (S : V2 K → Prop) (sp : V2 K → V2 K) : Prop :=
  IsSupport2 sq S ⟨1, 0⟩ (sp ⟨1, 0⟩) ∧ IsSupport2 sq S ⟨-1, 0⟩ (sp ⟨-1, 0⟩) ∧
  IsSupport2 sq S ⟨0, 1⟩ (sp ⟨0, 1⟩) ∧ IsSupport2 sq S ⟨0, -1⟩ (sp ⟨0, -1⟩)

/-- every face of the 3-D box `b` carries a point of `S` -/
def Touches3 (S : V3 K → Prop) (b : Aabb3 K) : Prop :=
  (∃ q, S q ∧ q.x = b.maxs.x) ∧ (∃ q, S q ∧ q.x = b.mins.x) ∧
  (∃ q, S q ∧ q.y = b.maxs.y) ∧ (∃ q, S q ∧ q.y = b.mins.y) ∧
  (∃ q, S q ∧ q.z = b.maxs.z) ∧ (∃ q, S q ∧ q.z = b.mins.z)
def Touches2 (S : V2 K → Prop) (b : Aabb2 K) : Prop :=
  (∃ q, S q ∧ q.x = b.maxs.x) ∧ (∃ q, S q ∧ q.x = b.mins.x) ∧
  (∃ q, S q ∧ q.y = b.maxs.y) ∧ (∃ q, S q ∧ q.y = b.mins.y)

/-- the image of a set under an isometry (the *posed shape*) -/
def posed3 (m : Iso3 K) (S : V3 K → Prop) : V3 K → Prop :=
  letI := fieldNum K sq
  fun p => ∃ q, S q ∧ p = m.act q
def posed2 (m : Iso2 K) (S : V2 K → Prop) : V2 K → Prop :=
  letI := fieldNum K sq
  fun p => ∃ q, S q ∧ p = m.act q

/-- **C09 (support-map box, containment)**: if `sp` is a support function of `S` along the six axis
directions then `support_map_aabb` contains every point of `S`. -/
theorem support_map_aabb_contains (S : V3 K → Prop) (sp : V3 K → V3 K) (h : AxisSupport3 sq S sp)
    (p : V3 K) (hp : S p) :
    letI := fieldNum K sq
    BMem (supportMapAabb3 sp) p := by
  obtain ⟨⟨_, h1⟩, ⟨_, h2⟩, ⟨_, h3⟩, ⟨_, h4⟩, ⟨_, h5⟩, ⟨_, h6⟩⟩ := h
  have a1 := h1 p hp; have a2 := h2 p hp; have a3 := h3 p hp
  have a4 := h4 p hp; have a5 := h5 p hp; have a6 := h6 p hp
  simp only [V3.dot] at a1 a2 a3 a4 a5 a6
  simp only [supportMapAabb3, BMem]
  refine ⟨⟨?_, ?_⟩, ⟨?_, ?_⟩, ?_, ?_⟩ <;> linarith

/-- **C09 (support-map box, tightness)**: under the same hypothesis every face of `support_map_aabb` carries a
point of `S` (the support point along that axis): the box touches the shape on all sides. -/
theorem support_map_aabb_tight (S : V3 K → Prop) (sp : V3 K → V3 K) (h : AxisSupport3 sq S sp) :
    letI := fieldNum K sq
    Touches3 S (supportMapAabb3 sp) := by
  obtain ⟨⟨m1, _⟩, ⟨m2, _⟩, ⟨m3, _⟩, ⟨m4, _⟩, ⟨m5, _⟩, ⟨m6, _⟩⟩ := h
  exact ⟨⟨_, m1, rfl⟩, ⟨_, m2, rfl⟩, ⟨_, m3, rfl⟩, ⟨_, m4, rfl⟩, ⟨_, m5, rfl⟩, ⟨_, m6, rfl⟩⟩

/-- consequence: `support_map_aabb` is the *least* box containing `S` -/
theorem support_map_aabb_least (S : V3 K → Prop) (sp : V3 K → V3 K) (h : AxisSupport3 sq S sp)
    (c : Aabb3 K) (hc : ∀ p, S p → BMem c p) :
    letI := fieldNum K sq
    BMem c (supportMapAabb3 sp).mins ∧ BMem c (supportMapAabb3 sp).maxs := by
  obtain ⟨⟨m1, _⟩, ⟨m2, _⟩, ⟨m3, _⟩, ⟨m4, _⟩, ⟨m5, _⟩, ⟨m6, _⟩⟩ := h
  have b1 := hc _ m1; have b2 := hc _ m2; have b3 := hc _ m3
  have b4 := hc _ m4; have b5 := hc _ m5; have b6 := hc _ m6
  have c1 := support_map_aabb_contains sq S sp ⟨⟨m1, ‹_›⟩, ⟨m2, ‹_›⟩, ⟨m3, ‹_›⟩, ⟨m4, ‹_›⟩, ⟨m5, ‹_›⟩, ⟨m6, ‹_›⟩⟩
  simp only [BMem, supportMapAabb3] at b1 b2 b3 b4 b5 b6 ⊢
  have x1 := c1 _ m1; have x2 := c1 _ m2; have x3 := c1 _ m3
  have x4 := c1 _ m4; have x5 := c1 _ m5; have x6 := c1 _ m6
  simp only [BMem, supportMapAabb3] at x1 x2 x3 x4 x5 x6
  refine ⟨⟨⟨?_, ?_⟩, ⟨?_, ?_⟩, ?_, ?_⟩, ⟨?_, ?_⟩, ⟨?_, ?_⟩, ?_, ?_⟩ <;> linarith [b1.1.1, b1.1.2, b2.1.1, b2.1.2, b3.2.1.1, b3.2.1.2,
    b4.2.1.1, b4.2.1.2, b5.2.2.1, b5.2.2.2, b6.2.2.1, b6.2.2.2, x1.1.1, x2.1.2, x3.2.1.1, x4.2.1.2, x5.2.2.1, x6.2.2.2]

theorem support_map_aabb2_contains (S : V2 K → Prop) (sp : V2 K → V2 K) (h : AxisSupport2 sq S sp)
    (p : V2 K) (hp : S p) :
    letI := fieldNum K sq
    BMem2 (supportMapAabb2 sp) p := by
  obtain ⟨⟨_, h1⟩, ⟨_, h2⟩, ⟨_, h3⟩, ⟨_, h4⟩⟩ := h
  have a1 := h1 p hp; have a2 := h2 p hp; have a3 := h3 p hp; have a4 := h4 p hp
  simp only [V2.dot] at a1 a2 a3 a4
  simp only [supportMapAabb2, BMem2]
  refine ⟨⟨?_, ?_⟩, ?_, ?_⟩ <;> linarith

theorem support_map_aabb2_tight (S : V2 K → Prop) (sp : V2 K → V2 K) (h : AxisSupport2 sq S sp) :
    letI := fieldNum K sq
    Touches2 S (supportMapAabb2 sp) := by
  obtain ⟨⟨m1, _⟩, ⟨m2, _⟩, ⟨m3, _⟩, ⟨m4, _⟩⟩ := h
  exact ⟨⟨_, m1, rfl⟩, ⟨_, m2, rfl⟩, ⟨_, m3, rfl⟩, ⟨_, m4, rfl⟩⟩

/-! ## discharging the hypothesis: posed support maps -/

/-- if `loc` is a support function of `S` in *every* direction, the trait default `support_point(m, ·)` is a
support function of the posed set along the axes — for every quaternion and translation. -/
theorem posed_axis_support3 (S : V3 K → Prop) (loc : V3 K → V3 K) (m : Iso3 K)
    (h : ∀ d, IsSupport3 sq S d (loc d)) :
    letI := fieldNum K sq
    AxisSupport3 sq (posed3 sq m S) (supportPoint3 loc m) :=
  ⟨(posed_support3 sq S loc m _).2 (h _), (posed_support3 sq S loc m _).2 (h _),
   (posed_support3 sq S loc m _).2 (h _), (posed_support3 sq S loc m _).2 (h _),
   (posed_support3 sq S loc m _).2 (h _), (posed_support3 sq S loc m _).2 (h _)⟩

/-- **Cone**: `Cone::aabb(pos)` contains every point of the posed cone (`half_height > 0`, `radius ≥ 0`, any pose). -/
theorem cone_aabb_contains (hs : LawfulSqrt sq) (hh r : K) (m : Iso3 K) (hh0 : 0 < hh) (hr : 0 ≤ r) (q : V3 K) :
    letI := fieldNum K sq
    (Cone.mk hh r).Mem q → BMem (coneAabb hh r m) (m.act q) := fun hq =>
  support_map_aabb_contains sq _ _
    (posed_axis_support3 sq _ _ m fun d => cone_support sq hs hh r d hh0 hr) _ ⟨q, hq, rfl⟩

/-- **Cone**: `Cone::aabb(pos)` touches the posed cone on all six faces. -/
theorem cone_aabb_tight (hs : LawfulSqrt sq) (hh r : K) (m : Iso3 K) (hh0 : 0 < hh) (hr : 0 ≤ r) :
    letI := fieldNum K sq
    Touches3 (posed3 sq m (Cone.mk hh r).Mem) (coneAabb hh r m) :=
  support_map_aabb_tight sq _ _ (posed_axis_support3 sq _ _ m fun d => cone_support sq hs hh r d hh0 hr)

/-- **Cone**, local box -/
theorem cone_local_aabb_contains_tight (hs : LawfulSqrt sq) (hh r : K) (hh0 : 0 < hh) (hr : 0 ≤ r) :
    letI := fieldNum K sq
    (∀ q, (Cone.mk hh r).Mem q → BMem (coneLocalAabb hh r) q) ∧ Touches3 (Cone.mk hh r).Mem (coneLocalAabb hh r) := by
  have h : AxisSupport3 sq (@Cone.Mem K (fieldNum K sq) (Cone.mk hh r)) (@coneLocal K (fieldNum K sq) hh r) :=
    ⟨cone_support sq hs hh r _ hh0 hr, cone_support sq hs hh r _ hh0 hr, cone_support sq hs hh r _ hh0 hr,
     cone_support sq hs hh r _ hh0 hr, cone_support sq hs hh r _ hh0 hr, cone_support sq hs hh r _ hh0 hr⟩
  exact ⟨fun q hq => support_map_aabb_contains sq _ _ h q hq, support_map_aabb_tight sq _ _ h⟩

example : (0:ℝ) < 2 ∧ (0:ℝ) ≤ 1/2 := by norm_num

/-- **Cylinder**: `Cylinder::aabb(pos)` contains every point of the posed cylinder. -/
theorem cylinder_aabb_contains (hs : LawfulSqrt sq) (hh r : K) (m : Iso3 K) (hh0 : 0 ≤ hh) (hr : 0 ≤ r) (q : V3 K) :
    letI := fieldNum K sq
    (Cylinder.mk hh r).Mem q → BMem (cylinderAabb hh r m) (m.act q) := fun hq =>
  support_map_aabb_contains sq _ _
    (posed_axis_support3 sq _ _ m fun d => cylinder_support sq hs hh r d hh0 hr) _ ⟨q, hq, rfl⟩

/-- **Cylinder**: `Cylinder::aabb(pos)` touches the posed cylinder on all six faces. -/
theorem cylinder_aabb_tight (hs : LawfulSqrt sq) (hh r : K) (m : Iso3 K) (hh0 : 0 ≤ hh) (hr : 0 ≤ r) :
    letI := fieldNum K sq
    Touches3 (posed3 sq m (Cylinder.mk hh r).Mem) (cylinderAabb hh r m) :=
  support_map_aabb_tight sq _ _ (posed_axis_support3 sq _ _ m fun d => cylinder_support sq hs hh r d hh0 hr)

/-- **Cylinder**, local box -/
theorem cylinder_local_aabb_contains_tight (hs : LawfulSqrt sq) (hh r : K) (hh0 : 0 ≤ hh) (hr : 0 ≤ r) :
    letI := fieldNum K sq
    (∀ q, (Cylinder.mk hh r).Mem q → BMem (cylinderLocalAabb hh r) q) ∧
      Touches3 (Cylinder.mk hh r).Mem (cylinderLocalAabb hh r) := by
  have h : AxisSupport3 sq (@Cylinder.Mem K (fieldNum K sq) (Cylinder.mk hh r)) (@cylinderLocal K (fieldNum K sq) hh r) :=
    ⟨cylinder_support sq hs hh r _ hh0 hr, cylinder_support sq hs hh r _ hh0 hr, cylinder_support sq hs hh r _ hh0 hr,
     cylinder_support sq hs hh r _ hh0 hr, cylinder_support sq hs hh r _ hh0 hr, cylinder_support sq hs hh r _ hh0 hr⟩
  exact ⟨fun q hq => support_map_aabb_contains sq _ _ h q hq, support_map_aabb_tight sq _ _ h⟩

/-! ## Segment -/

/-- **Segment (3-D)**: `Segment::local_aabb` contains the segment and touches it on all faces. -/
theorem segment_local_aabb3_contains_tight (a b : V3 K) :
    letI := fieldNum K sq
    (∀ q, (Segment3.mk a b).Mem q → BMem (segmentLocalAabb3 a b) q) ∧
      Touches3 (Segment3.mk a b).Mem (segmentLocalAabb3 a b) := by
  have h : AxisSupport3 sq (@Segment3.Mem K (fieldNum K sq) (Segment3.mk a b)) (@segmentLocal3 K (fieldNum K sq) a b) :=
    ⟨segment_support3 sq a b _, segment_support3 sq a b _, segment_support3 sq a b _,
     segment_support3 sq a b _, segment_support3 sq a b _, segment_support3 sq a b _⟩
  exact ⟨fun q hq => support_map_aabb_contains sq _ _ h q hq, support_map_aabb_tight sq _ _ h⟩

/-- **Segment (2-D)** -/
theorem segment_local_aabb2_contains_tight (a b : V2 K) :
    letI := fieldNum K sq
    (∀ q, (Segment2.mk a b).Mem q → BMem2 (segmentLocalAabb2 a b) q) ∧
      Touches2 (Segment2.mk a b).Mem (segmentLocalAabb2 a b) := by
  have h : AxisSupport2 sq (@Segment2.Mem K (fieldNum K sq) (Segment2.mk a b)) (@segmentLocal2 K (fieldNum K sq) a b) :=
    ⟨segment_support2 sq a b _, segment_support2 sq a b _, segment_support2 sq a b _, segment_support2 sq a b _⟩
  exact ⟨fun q hq => support_map_aabb2_contains sq _ _ h q hq, support_map_aabb2_tight sq _ _ h⟩

/-- an isometry maps the segment `[a,b]` onto the segment `[m•a, m•b]` (affine map; any quaternion) -/
theorem act_segment3 (m : Iso3 K) (a b p : V3 K) :
    letI := fieldNum K sq
    (Segment3.mk a b).Mem p → (Segment3.mk (m.act a) (m.act b)).Mem (m.act p) := by
  rintro ⟨t, h0, h1, rfl⟩
  refine ⟨t, h0, h1, ?_⟩
  simp only [Iso3.act, Iso3.rot, Iso3.rotQ, Iso3.qv, V3.add, V3.sub, V3.smul, V3.cross, fieldNum_two]
  congr 1 <;> ring
theorem act_segment2 (m : Iso2 K) (a b p : V2 K) :
    letI := fieldNum K sq
    (Segment2.mk a b).Mem p → (Segment2.mk (m.act a) (m.act b)).Mem (m.act p) := by
  rintro ⟨t, h0, h1, rfl⟩
  refine ⟨t, h0, h1, ?_⟩
  simp only [Iso2.act, Iso2.rot, V2.add, V2.sub, V2.smul]
  congr 1 <;> ring

/-- **Segment, posed (3-D)**: `Segment::aabb(pos)` contains every point of the posed segment and touches it. -/
theorem segment_aabb3_contains_tight (a b : V3 K) (m : Iso3 K) :
    letI := fieldNum K sq
    (∀ q, (Segment3.mk a b).Mem q → BMem (segmentAabb3 a b m) (m.act q)) ∧
      Touches3 (Segment3.mk (m.act a) (m.act b)).Mem (segmentAabb3 a b m) := by
  obtain ⟨h1, h2⟩ := segment_local_aabb3_contains_tight sq (@Iso3.act K (fieldNum K sq) m a) (@Iso3.act K (fieldNum K sq) m b)
  exact ⟨fun q hq => h1 _ (act_segment3 sq m a b q hq), h2⟩

/-- **Segment, posed (2-D)** -/
theorem segment_aabb2_contains_tight (a b : V2 K) (m : Iso2 K) :
    letI := fieldNum K sq
    (∀ q, (Segment2.mk a b).Mem q → BMem2 (segmentAabb2 a b m) (m.act q)) ∧
      Touches2 (Segment2.mk (m.act a) (m.act b)).Mem (segmentAabb2 a b m) := by
  obtain ⟨h1, h2⟩ := segment_local_aabb2_contains_tight sq (@Iso2.act K (fieldNum K sq) m a) (@Iso2.act K (fieldNum K sq) m b)
  exact ⟨fun q hq => h1 _ (act_segment2 sq m a b q hq), h2⟩

/-! ## `support_map_aabb` applied to a `RoundShape` (generic function; instance: rounded cuboid) -/

/-- `support_map_aabb(pos, &RoundShape{cuboid, br})` contains every point of the posed rounded cuboid
`pos • (cuboid ⊕ B(br))` and touches it on all faces. -/
theorem round_cuboid_support_map_aabb (hs : LawfulSqrt sq) (he : V3 K) (br : K) (m : Iso3 K)
    (hx : 0 ≤ he.x) (hy : 0 ≤ he.y) (hz : 0 ≤ he.z) (hbr : 0 ≤ br)
    (hq : m.qi * m.qi + m.qj * m.qj + m.qk * m.qk + m.qw * m.qw = 1) :
    letI := fieldNum K sq
    let box := supportMapAabb3 (supportPoint3 (roundLocal3 (cuboidLocal3 he) br) m)
    (∀ q, roundMem3 (Cuboid3.mk he).Mem br q → BMem box (m.act q)) ∧
      Touches3 (posed3 sq m (roundMem3 (Cuboid3.mk he).Mem br)) box := by
  intro box
  -- the inverse rotation of an axis direction is non-zero for a unit quaternion
  have nz : ∀ d : V3 K, (d.x * d.x + d.y * d.y + d.z * d.z = 1) →
      (@Iso3.invRot K (fieldNum K sq) m d).x ≠ 0 ∨ (@Iso3.invRot K (fieldNum K sq) m d).y ≠ 0 ∨ (@Iso3.invRot K (fieldNum K sq) m d).z ≠ 0 := by
    intro d hd
    by_contra hcon
    push Not at hcon
    obtain ⟨e1, e2, e3⟩ := hcon
    have hn : (@Iso3.invRot K (fieldNum K sq) m d).x * (@Iso3.invRot K (fieldNum K sq) m d).x
        + (@Iso3.invRot K (fieldNum K sq) m d).y * (@Iso3.invRot K (fieldNum K sq) m d).y
        + (@Iso3.invRot K (fieldNum K sq) m d).z * (@Iso3.invRot K (fieldNum K sq) m d).z = d.x * d.x + d.y * d.y + d.z * d.z := by
      simp only [Iso3.invRot, Iso3.rotQ, Iso3.qv, V3.add, V3.smul, V3.cross, V3.neg, fieldNum_two]
      linear_combination (4 * (d.x ^ 2 * m.qj ^ 2 + d.x ^ 2 * m.qk ^ 2 - 2 * d.x * d.y * m.qi * m.qj - 2 * d.x * d.z * m.qi * m.qk
        + d.y ^ 2 * m.qi ^ 2 + d.y ^ 2 * m.qk ^ 2 - 2 * d.y * d.z * m.qj * m.qk + d.z ^ 2 * m.qi ^ 2 + d.z ^ 2 * m.qj ^ 2)) * hq
    rw [e1, e2, e3, hd] at hn
    norm_num at hn
  have ax : AxisSupport3 sq (posed3 sq m (@roundMem3 K (fieldNum K sq) (@Cuboid3.Mem K (fieldNum K sq) (Cuboid3.mk he)) br))
      (@supportPoint3 K (fieldNum K sq) (@roundLocal3 K (fieldNum K sq) (@cuboidLocal3 K (fieldNum K sq) he) br) m) := by
    refine ⟨?_, ?_, ?_, ?_, ?_, ?_⟩ <;>
      exact (posed_support3 sq _ _ m _).2 (round_cuboid_support3 sq hs he br _ hx hy hz hbr (nz _ (by norm_num)))
  exact ⟨fun q hq' => support_map_aabb_contains sq _ _ ax _ ⟨q, hq', rfl⟩, support_map_aabb_tight sq _ _ ax⟩

end C09
