import ParryModel.C09.Model2
import ParryModel.C09.Model3
import ParryModel.C09.Model4
/-!
# C09 model, part 5 (round fu5): `SimdAabb::transform_by`, `BoundingSphere::tightened`
-/
namespace Model
variable {K : Type} [Num K]

namespace Sphere3
/-- `BoundingSphere::tightened(amount)`: `new(center, radius - amount)` (the code asserts `0 ≤ amount ≤ radius`) -/
def tightened (a : Sphere3 K) (m : K) : Sphere3 K := ⟨a.center, a.radius - m⟩
end Sphere3

namespace SimdAabb3
/-- `SimdAabb::transform_by(&Isometry<SimdReal>)`: `center = m * self.center(); he = m.absolute_transform_vector(half_extents);
mins = center + (-he); maxs = center + he` — the same expressions as `Aabb::transform_by`, lane by lane, each lane with
its own isometry. -/
def transformBy (a : SimdAabb3 K) (m0 m1 m2 m3 : Iso3 K) : List (Aabb3 K) :=
  [a.l0.transformBy m0, a.l1.transformBy m1, a.l2.transformBy m2, a.l3.transformBy m3]
end SimdAabb3

/-! ## histories of `scaled(s₁) … scaled(sₖ)` on composites -/

/-- TriMesh / Polyline: every `scaled(s)` replaces the QBVH root box by `root.scaled(s)` -/
def Aabb3.scaledHist (b : Aabb3 K) (ss : List (V3 K)) : Aabb3 K := ss.foldl Aabb3.scaled b
def Aabb2.scaledHist (b : Aabb2 K) (ss : List (V2 K)) : Aabb2 K := ss.foldl Aabb2.scaled b
/-- HeightField: the state is `(stored box, current scale)`; `scaled(s)` = `set_scale(scale ∘ s)` -/
def heightfieldHist3 (b : Aabb3 K) (s0 : V3 K) (ss : List (V3 K)) : Aabb3 K × V3 K :=
  ss.foldl (fun st sc => (heightfieldRescale3 st.1 st.2 sc, st.2.cmul sc)) (b, s0)
def heightfieldHist2 (b : Aabb2 K) (s0 : V2 K) (ss : List (V2 K)) : Aabb2 K × V2 K :=
  ss.foldl (fun st sc => (heightfieldRescale2 st.1 st.2 sc, st.2.cmul sc)) (b, s0)

/-! ## `find_root_intervals_to` -/

/-- `find_root_intervals_to(function, init, …, results, candidates)`: `candidates.clear()` (whatever the caller left in
the workspace is dropped), then the same `push_candidate(init, 0)` + work-list loop, pushing onto the caller's `results`.
Returns the final `results` (the final `candidates` is empty: the loop ends when the stack is). -/
def findRootIntervalsTo (f : IFun K) (init : Interval K) (minW minImg : K) (maxRec : Nat) (fuel : Nat)
    (results0 : List (Interval K)) (_candidates0 : List (Interval K × Nat)) : Option (List (Interval K)) :=
  rootsLoop f minW minImg maxRec fuel (pushCandidate f minW minImg maxRec init 0 (results0, []))

end Model
