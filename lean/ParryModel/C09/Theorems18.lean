import ParryModel.C09.Model5
import ParryModel.C09.Theorems6
/-!
# C09 theorems, part 18: `find_root_intervals_to` — the caller's buffers

`find_root_intervals_to` clears the `candidates` workspace and pushes onto the caller's `results`.  For every scalar
type (`Num`, so also at `Float`), every function, budget and fuel: the answer is the caller's `results` followed by
exactly what `find_root_intervals` returns on the same arguments (`find_roots_to_eq`) — previous results are kept, in
order, the junk in `candidates` has no influence — hence all the cover / termination theorems of part 6 transfer
(`find_roots_to_cover`).
-/
set_option linter.unusedSectionVars false
set_option linter.unusedVariables false
set_option linter.unusedSimpArgs false
set_option linter.style.haveILetI false

namespace C09
open Model

section generic
variable {K : Type} [Num K]

/-- prefix the results of a state -/
def preSt (r0 : List (Interval K)) (st : RootState K) : RootState K := (r0 ++ st.1, st.2)

private theorem push_pre (f : IFun K) (minW minImg : K) (maxRec : Nat) (cand : Interval K) (r : Nat) (r0 : List (Interval K))
    (st : RootState K) :
    pushCandidate f minW minImg maxRec cand r (preSt r0 st) = preSt r0 (pushCandidate f minW minImg maxRec cand r st) := by
  unfold pushCandidate preSt
  dsimp only
  split_ifs <;> simp [List.append_assoc]

private theorem pushNew_pre (f : IFun K) (minW minImg : K) (maxRec : Nat) (pw : K) (r : Nat) (nc : Option (Interval K))
    (r0 : List (Interval K)) (st : RootState K) :
    pushNew f minW minImg maxRec pw r nc (preSt r0 st) = preSt r0 (pushNew f minW minImg maxRec pw r nc st) := by
  unfold pushNew
  cases nc with
  | none => rfl
  | some nc =>
    dsimp only
    split_ifs
    · rw [push_pre, push_pre]
    · rw [push_pre]

private theorem step_pre (f : IFun K) (minW minImg : K) (maxRec : Nat) (c : Interval K) (r : Nat) (r0 : List (Interval K))
    (st : RootState K) :
    rootStep f minW minImg maxRec c r (preSt r0 st) = preSt r0 (rootStep f minW minImg maxRec c r st) := by
  unfold rootStep
  dsimp only
  rw [pushNew_pre, pushNew_pre]

private theorem loop_pre (f : IFun K) (minW minImg : K) (maxRec : Nat) (r0 : List (Interval K)) :
    ∀ (fuel : Nat) (st : RootState K),
      rootsLoop f minW minImg maxRec fuel (preSt r0 st) = (rootsLoop f minW minImg maxRec fuel st).map (r0 ++ ·) := by
  intro fuel
  induction fuel with
  | zero =>
    rintro ⟨res, cands⟩
    cases cands with
    | nil => simp [rootsLoop, preSt]
    | cons c cs => simp [rootsLoop, preSt]
  | succ n ih =>
    rintro ⟨res, cands⟩
    cases cands with
    | nil => simp [rootsLoop, preSt]
    | cons c cs =>
      obtain ⟨ci, cr⟩ := c
      have : preSt r0 ((res, (ci, cr) :: cs) : RootState K) = (r0 ++ res, (ci, cr) :: cs) := rfl
      rw [this]
      simp only [rootsLoop]
      have e : ((r0 ++ res, cs) : RootState K) = preSt r0 (res, cs) := rfl
      rw [e, step_pre, ih]

/-- **`find_root_intervals_to`** = the caller's `results`, then the answer of `find_root_intervals` (any scalar type). -/
theorem find_roots_to_eq (f : IFun K) (init : Interval K) (minW minImg : K) (maxRec fuel : Nat)
    (results0 : List (Interval K)) (cands0 : List (Interval K × Nat)) :
    findRootIntervalsTo f init minW minImg maxRec fuel results0 cands0
      = (findRootIntervals f init minW minImg maxRec fuel).map (results0 ++ ·) := by
  unfold findRootIntervalsTo findRootIntervals
  have e : ((results0, []) : RootState K) = preSt results0 ([], []) := by simp [preSt]
  rw [e, push_pre, loop_pre]

end generic

variable {K : Type} [Field K] [LinearOrder K] [IsStrictOrderedRing K] (sq : K → K)

/-- **cover, through the `_to` entry point**: under the `IntervalFunction` contract every root in `init` lies in one of
the returned intervals *after* the caller's previous results, which are all kept. -/
theorem find_roots_to_cover (f : IFun K) (hc : IFunContract f) (init : Interval K) (minW minImg : K) (maxRec fuel : Nat)
    (results0 : List (Interval K)) (cands0 : List (Interval K × Nat)) (res : List (Interval K)) :
    letI := fieldNum K sq
    findRootIntervalsTo f init minW minImg maxRec fuel results0 cands0 = some res →
    (∃ r, res = results0 ++ r ∧ ∀ x, IMem init x → f.eval x = 0 → ∃ i ∈ r, IMem i x) := by
  intro h
  rw [@find_roots_to_eq K (fieldNum K sq)] at h
  simp only [Option.map_eq_some_iff] at h
  obtain ⟨r, hr, rfl⟩ := h
  exact ⟨r, rfl, fun x hx h0 => find_roots_cover sq f hc init minW minImg maxRec fuel r hr x hx h0⟩

end C09
