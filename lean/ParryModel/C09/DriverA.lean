import ParryModel.Proto
import ParryModel.C09.Model
import ParryModel.C09.Model2
/-! C09 protocol handlers: model evaluation at `Float` and exact-`Rat` oracles on implementation output. -/
namespace C09
open Model Proto

def pinterval : P (Interval Float) := do let a ← pf; let b ← pf; pure ⟨a, b⟩
def fint (x : Interval Float) : String := s!"{ff x.lo} {ff x.hi}"
def paabb3 : P (Aabb3 Float) := do let a ← pv3; let b ← pv3; pure ⟨a, b⟩
def paabb2 : P (Aabb2 Float) := do let a ← pv2; let b ← pv2; pure ⟨a, b⟩
def faabb3 (b : Aabb3 Float) : String := s!"{fv3 b.mins} {fv3 b.maxs}"
def faabb2 (b : Aabb2 Float) : String := s!"{fv2 b.mins} {fv2 b.maxs}"
def qaabb3 (b : Aabb3 Float) : Aabb3 Rat := ⟨q3 b.mins, q3 b.maxs⟩
def qaabb2 (b : Aabb2 Float) : Aabb2 Rat := ⟨q2 b.mins, q2 b.maxs⟩
def poaabb3 : P (Aabb3 Float) := do
  let a ← pfo; let b ← pfo; let c ← pfo; let d ← pfo; let e ← pfo; let f ← pfo; pure ⟨⟨a,b,c⟩,⟨d,e,f⟩⟩
def poaabb2 : P (Aabb2 Float) := do
  let a ← pfo; let b ← pfo; let d ← pfo; let e ← pfo; pure ⟨⟨a,b⟩,⟨d,e⟩⟩

/-- sample points of an interval: endpoints, midpoint, quarter points, zero if inside -/
def samples (x : Interval Rat) : List Rat :=
  let m := (x.lo + x.hi) / 2
  let base := [x.lo, x.hi, m, (x.lo + m) / 2, (m + x.hi) / 2]
  if x.lo ≤ 0 ∧ 0 ≤ x.hi then 0 :: base else base

def inTol (r : Interval Rat) (v : Rat) : Bool := leTol r.lo v tolDefault && leTol v r.hi tolDefault

/-- oracle for a binary interval operation: `f u v ∈ out` for all sample pairs -/
def binOracle (f : Rat → Rat → Rat) (x y : Interval Float) (out : Interval Float) : String :=
  if !(FloatIO.isFinite out.lo && FloatIO.isFinite out.hi) then "fail nonfinite-output" else
  let X : Interval Rat := ⟨q x.lo, q x.hi⟩
  let Y : Interval Rat := ⟨q y.lo, q y.hi⟩
  let O : Interval Rat := ⟨q out.lo, q out.hi⟩
  let bad := (samples X).flatMap fun u => (samples Y).filterMap fun v =>
    if inTol O (f u v) then none else some (u, v)
  match bad with
  | [] => "pass"
  | (u, v) :: _ => s!"fail not-enclosed u={u} v={v} f={f u v} out=[{O.lo},{O.hi}]"

def corners3 (b : Aabb3 Rat) : List (V3 Rat) :=
  [b.mins.x, b.maxs.x].flatMap fun x => [b.mins.y, b.maxs.y].flatMap fun y =>
    [b.mins.z, b.maxs.z].map fun z => ⟨x, y, z⟩
def corners2 (b : Aabb2 Rat) : List (V2 Rat) :=
  [b.mins.x, b.maxs.x].flatMap fun x => [b.mins.y, b.maxs.y].map fun y => ⟨x, y⟩
def samplePts3 (b : Aabb3 Rat) : List (V3 Rat) := b.center :: corners3 b

def inBox3 (b : Aabb3 Rat) (p : V3 Rat) : Bool :=
  leTol b.mins.x p.x tolDefault && leTol p.x b.maxs.x tolDefault &&
  leTol b.mins.y p.y tolDefault && leTol p.y b.maxs.y tolDefault &&
  leTol b.mins.z p.z tolDefault && leTol p.z b.maxs.z tolDefault
def inBox2 (b : Aabb2 Rat) (p : V2 Rat) : Bool :=
  leTol b.mins.x p.x tolDefault && leTol p.x b.maxs.x tolDefault &&
  leTol b.mins.y p.y tolDefault && leTol p.y b.maxs.y tolDefault
def validBox3 (b : Aabb3 Float) : Bool :=
  finite3 b.mins && finite3 b.maxs
def allIn3 (b : Aabb3 Float) (pts : List (V3 Rat)) : String :=
  if !validBox3 b then "fail nonfinite-output" else
  match pts.filter (fun p => !inBox3 (qaabb3 b) p) with
  | [] => "pass"
  | p :: _ => s!"fail point-outside ({p.x},{p.y},{p.z})"
def allIn2 (b : Aabb2 Float) (pts : List (V2 Rat)) : String :=
  match pts.filter (fun p => !inBox2 (qaabb2 b) p) with
  | [] => "pass"
  | p :: _ => s!"fail point-outside ({p.x},{p.y})"

/-- the box touches the point set on every side (tightness) -/
def tight3 (b : Aabb3 Float) (pts : List (V3 Rat)) : Bool :=
  let B := qaabb3 b
  let t : Rat := 1 / 1000000
  (List.range 3).all fun i =>
    pts.any (fun p => leTol (B.maxs.get i) (p.get i) t) && pts.any (fun p => leTol (p.get i) (B.mins.get i) t)


/-! ### part 2 helpers -/
def fsphere (s : Sphere3 Float) : String := s!"{fv3 s.center} {ff s.radius}"
def psphere : P (Sphere3 Float) := do let c ← pv3; let r ← pf; pure ⟨c, r⟩
def posphere : P (Sphere3 Float) := do let x ← pfo; let y ← pfo; let z ← pfo; let r ← pfo; pure ⟨⟨x, y, z⟩, r⟩
def tol9 : Rat := 1 / 1000000000
/-- all points within the sphere (squared comparison, relative tolerance) -/
def ptsInSphere (s : Sphere3 Float) (pts : List (V3 Rat)) (pad : Rat := 0) : String :=
  if !(finite3 s.center && FloatIO.isFinite s.radius) then "fail nonfinite-output" else
  let C := q3 s.center; let R := q s.radius - pad
  if R < -(tol9) then "fail radius-smaller-than-shape-radius" else
  match pts.filter (fun p => !(leTol ((p.sub C).normSq) (R * R) tol9)) with
  | [] => "pass"
  | p :: _ => s!"fail shape-point-outside-sphere ({p.x},{p.y},{p.z})"
def psimd : P (SimdAabb3 Float) := do let a ← paabb3; let b ← paabb3; let c ← paabb3; let d ← paabb3; pure ⟨a, b, c, d⟩
def fbools (l : List Bool) : String := String.intercalate " " (l.map fb)
def fboxes (l : List (Aabb3 Float)) : String := String.intercalate " " (l.map faabb3)
def poboxes4 : P (List (Aabb3 Float)) := do let a ← poaabb3; let b ← poaabb3; let c ← poaabb3; let d ← poaabb3; pure [a, b, c, d]
def fext (e : Ext Float) : String := match e with
  | .negInf => "fff0000000000000" | .posInf => "7ff0000000000000" | .fin v => ff v
def feint (i : EInterval Float) : String := s!"{fext i.lo} {fext i.hi}"
/-- extended rational: none = -inf / +inf by position -/
def qext (t : String) : Option (Option Rat) :=
  if t = "fff0000000000000" || t = "7ff0000000000000" then some none
  else match FloatIO.ofHex? t with | some x => if FloatIO.isFinite x then some (some (q x)) else none | none => none
def inPiece (lo hi : Option Rat) (w : Rat) : Bool :=
  (match lo with | none => true | some l => leTol l w tol9) && (match hi with | none => true | some h => leTol w h tol9)

def withOut {α} (p : P α) (out : List String) (k : α → String) : String :=
  match out with
  | "panic" :: _ => "fail panic"
  | _ => match run p out with
    | some a => k a
    | none => "fail unparsable-output"

/-- the protocol functions of the first two rounds (intervals, box algebra, closed-form shape boxes, spheres, SIMD lanes) -/
def handlerA (fn : String) : Option Handler :=
  match fn with
  | "interval_add" => some {
      model := fun a => run (do let x ← pinterval; let y ← pinterval; pure (fint (x.add y))) a
      oracle := fun a o => match run (do let x ← pinterval; let y ← pinterval; pure (x, y)) a with
        | some (x, y) => withOut (do let a ← pfo; let b ← pfo; pure (⟨a, b⟩ : Interval Float)) o (binOracle (· + ·) x y)
        | none => "skip bad-args" }
  | "interval_sub" => some {
      model := fun a => run (do let x ← pinterval; let y ← pinterval; pure (fint (x.sub y))) a
      oracle := fun a o => match run (do let x ← pinterval; let y ← pinterval; pure (x, y)) a with
        | some (x, y) => withOut (do let a ← pfo; let b ← pfo; pure (⟨a, b⟩ : Interval Float)) o (binOracle (· - ·) x y)
        | none => "skip bad-args" }
  | "interval_mul" => some {
      model := fun a => run (do let x ← pinterval; let y ← pinterval; pure (fint (x.mul y))) a
      oracle := fun a o => match run (do let x ← pinterval; let y ← pinterval; pure (x, y)) a with
        | some (x, y) => withOut (do let a ← pfo; let b ← pfo; pure (⟨a, b⟩ : Interval Float)) o (binOracle (· * ·) x y)
        | none => "skip bad-args" }
  | "interval_muls" => some {
      model := fun a => run (do let x ← pinterval; let r ← pf; pure (fint (x.mulS r))) a
      oracle := fun a o => match run (do let x ← pinterval; let r ← pf; pure (x, r)) a with
        | some (x, r) => withOut (do let a ← pfo; let b ← pfo; pure (⟨a, b⟩ : Interval Float)) o (binOracle (· * ·) x ⟨r, r⟩)
        | none => "skip bad-args" }
  | "interval_neg" => some {
      model := fun a => run (do let x ← pinterval; pure (fint x.neg)) a
      oracle := fun a o => match run pinterval a with
        | some x => withOut (do let a ← pfo; let b ← pfo; pure (⟨a, b⟩ : Interval Float)) o (binOracle (fun u _ => -u) x ⟨0, 0⟩)
        | none => "skip bad-args" }
  | "interval_intersect" => some {
      model := fun a => run (do let x ← pinterval; let y ← pinterval
                                pure (match x.intersect y with | none => "none" | some r => "some " ++ fint r)) a
      oracle := fun a o => match run (do let x ← pinterval; let y ← pinterval; pure (x, y)) a with
        | some (x, y) =>
          let lo := max (q x.lo) (q y.lo); let hi := min (q x.hi) (q y.hi)
          match o with
          | ["none"] => if lo ≤ hi then s!"fail none-but-overlap [{lo},{hi}]" else "pass"
          | "some" :: rest => withOut (do let a ← pfo; let b ← pfo; pure (⟨a, b⟩ : Interval Float)) rest fun r =>
              if lo ≤ hi ∧ q r.lo = lo ∧ q r.hi = hi then "pass" else "fail wrong-intersection"
          | _ => "fail unparsable-output"
        | none => "skip bad-args" }
  | "aabb_merged" => some {
      model := fun a => run (do let x ← paabb3; let y ← paabb3; pure (faabb3 (x.merged y))) a
      oracle := fun a o => match run (do let x ← paabb3; let y ← paabb3; pure (x, y)) a with
        | some (x, y) => withOut poaabb3 o fun r => allIn3 r (corners3 (qaabb3 x) ++ corners3 (qaabb3 y))
        | none => "skip bad-args" }
  | "aabb_loosened" => some {
      model := fun a => run (do let x ← paabb3; let m ← pf; pure (faabb3 (x.loosened m))) a
      oracle := fun a o => match run (do let x ← paabb3; let m ← pf; pure (x, m)) a with
        | some (x, _) => withOut poaabb3 o fun r => allIn3 r (corners3 (qaabb3 x))
        | none => "skip bad-args" }
  | "aabb_intersects" => some {
      model := fun a => run (do let x ← paabb3; let y ← paabb3; pure (fb (x.intersects y))) a
      oracle := fun a o => match run (do let x ← paabb3; let y ← paabb3; pure (x, y)) a with
        | some (x, y) =>
          let X := qaabb3 x; let Y := qaabb3 y
          let ex := (List.range 3).all fun i => X.mins.get i ≤ Y.maxs.get i ∧ Y.mins.get i ≤ X.maxs.get i
          if o = [fb ex] then "pass" else s!"fail intersects-verdict expected={ex}"
        | none => "skip bad-args" }
  | "aabb_contains" => some {
      model := fun a => run (do let x ← paabb3; let y ← paabb3; pure (fb (x.contains y))) a
      oracle := fun a o => match run (do let x ← paabb3; let y ← paabb3; pure (x, y)) a with
        | some (x, y) =>
          let X := qaabb3 x; let Y := qaabb3 y
          let ex := (List.range 3).all fun i => X.mins.get i ≤ Y.mins.get i ∧ Y.maxs.get i ≤ X.maxs.get i
          if o = [fb ex] then "pass" else s!"fail contains-verdict expected={ex}"
        | none => "skip bad-args" }
  | "aabb_contains_point" => some {
      model := fun a => run (do let x ← paabb3; let p ← pv3; pure (fb (x.containsLocalPoint p))) a
      oracle := fun a o => match run (do let x ← paabb3; let p ← pv3; pure (x, p)) a with
        | some (x, p) =>
          let X := qaabb3 x; let P := q3 p
          let ex := (List.range 3).all fun i => X.mins.get i ≤ P.get i ∧ P.get i ≤ X.maxs.get i
          if o = [fb ex] then "pass" else s!"fail contains-point-verdict expected={ex}"
        | none => "skip bad-args" }
  | "aabb_intersection" => some {
      model := fun a => run (do let x ← paabb3; let y ← paabb3
                                pure (match x.intersection y with | none => "none" | some r => "some " ++ faabb3 r)) a
      oracle := fun a o => match run (do let x ← paabb3; let y ← paabb3; pure (x, y)) a with
        | some (x, y) =>
          let X := qaabb3 x; let Y := qaabb3 y
          let lo : V3 Rat := ⟨max X.mins.x Y.mins.x, max X.mins.y Y.mins.y, max X.mins.z Y.mins.z⟩
          let hi : V3 Rat := ⟨min X.maxs.x Y.maxs.x, min X.maxs.y Y.maxs.y, min X.maxs.z Y.maxs.z⟩
          let nonempty := lo.x ≤ hi.x ∧ lo.y ≤ hi.y ∧ lo.z ≤ hi.z
          match o with
          | ["none"] => if nonempty then "fail none-but-overlap" else "pass"
          | "some" :: rest => withOut poaabb3 rest fun r =>
              let R := qaabb3 r
              if nonempty ∧ R.mins.x = lo.x ∧ R.mins.y = lo.y ∧ R.mins.z = lo.z ∧ R.maxs.x = hi.x ∧ R.maxs.y = hi.y ∧ R.maxs.z = hi.z
              then "pass" else "fail wrong-intersection"
          | _ => "fail unparsable-output"
        | none => "skip bad-args" }
  | "aabb_scaled" => some {
      model := fun a => run (do let x ← paabb3; let s ← pv3; pure (faabb3 (x.scaled s))) a
      oracle := fun a o => match run (do let x ← paabb3; let s ← pv3; pure (x, s)) a with
        | some (x, s) => withOut poaabb3 o fun r => allIn3 r ((samplePts3 (qaabb3 x)).map (·.cmul (q3 s)))
        | none => "skip bad-args" }
  | "aabb_scaled_wrt_center" => some {
      model := fun a => run (do let x ← paabb3; let s ← pv3; pure (faabb3 (x.scaledWrtCenter s))) a
      oracle := fun a o => match run (do let x ← paabb3; let s ← pv3; pure (x, s)) a with
        | some (x, s) => withOut poaabb3 o fun r =>
            let X := qaabb3 x; let c := X.center
            allIn3 r ((samplePts3 X).map fun p => c.add ((p.sub c).cmul (q3 s)))
        | none => "skip bad-args" }
  | "aabb_transform" => some {
      model := fun a => run (do let x ← paabb3; let m ← piso3; pure (faabb3 (x.transformBy m))) a
      oracle := fun a o => match run (do let x ← paabb3; let m ← piso3; pure (x, m)) a with
        | some (x, m) => withOut poaabb3 o fun r =>
            let pts := (samplePts3 (qaabb3 x)).map (qiso3 m).act
            let res := allIn3 r pts
            if res != "pass" then res else if tight3 r pts then "pass" else "fail not-tight"
        | none => "skip bad-args" }
  | "aabb2_transform" => some {
      model := fun a => run (do let x ← paabb2; let m ← piso2; pure (faabb2 (x.transformBy m))) a
      oracle := fun a o => match run (do let x ← paabb2; let m ← piso2; pure (x, m)) a with
        | some (x, m) => withOut poaabb2 o fun r => allIn2 r ((corners2 (qaabb2 x)).map (qiso2 m).act)
        | none => "skip bad-args" }
  | "aabb_bounding_sphere" => some {
      model := fun a => run (do let x ← paabb3; let s := x.boundingSphere; pure s!"{fv3 s.center} {ff s.radius}") a
      oracle := fun a o => match run paabb3 a with
        | some x => withOut (do let c ← pv3; let r ← pfo; pure (c, r)) o fun (c, r) =>
            let C := q3 c; let R := q r
            if R < 0 then "fail negative-radius" else
            match (corners3 (qaabb3 x)).filter (fun p => !leTol ((p.sub C).normSq) (R * R) tolDefault) with
            | [] => "pass"
            | _ => "fail corner-outside-sphere"
        | none => "skip bad-args" }
  | "aabb_from_points" => some {
      model := fun a => run (do let ps ← plist pv3
                                match ps with
                                | [] => pure "panic"
                                | p :: ps => pure (faabb3 (Aabb3.fromPoints p ps))) a
      oracle := fun a o => match run (plist pv3) a with
        | some ps => withOut poaabb3 o fun r =>
            let pts := ps.map q3
            let res := allIn3 r pts
            if res != "pass" then res else if tight3 r pts then "pass" else "fail not-tight"
        | none => "skip bad-args" }
  | "ball_aabb" => some {
      model := fun a => run (do let r ← pf; let m ← piso3; pure (faabb3 (ballAabb r m))) a
      oracle := fun a o => match run (do let r ← pf; let m ← piso3; pure (r, m)) a with
        | some (r, m) => withOut poaabb3 o fun b =>
            let c := q3 m.t; let R := q r
            let pts : List (V3 Rat) := [⟨c.x+R,c.y,c.z⟩,⟨c.x-R,c.y,c.z⟩,⟨c.x,c.y+R,c.z⟩,⟨c.x,c.y-R,c.z⟩,⟨c.x,c.y,c.z+R⟩,⟨c.x,c.y,c.z-R⟩]
            let res := allIn3 b pts
            if res != "pass" then res else if tight3 b pts then "pass" else "fail not-tight"
        | none => "skip bad-args" }
  | "cuboid_aabb" => some {
      model := fun a => run (do let he ← pv3; let m ← piso3; pure (faabb3 (cuboidAabb he m))) a
      oracle := fun a o => match run (do let he ← pv3; let m ← piso3; pure (he, m)) a with
        | some (he, m) => withOut poaabb3 o fun b =>
            let H := q3 he
            let pts := (corners3 ⟨H.neg, H⟩).map (qiso3 m).act
            let res := allIn3 b pts
            if res != "pass" then res else if tight3 b pts then "pass" else "fail not-tight"
        | none => "skip bad-args" }
  | "cuboid_aabb2" => some {
      model := fun a => run (do let he ← pv2; let m ← piso2; pure (faabb2 (cuboidAabb2 he m))) a
      oracle := fun a o => match run (do let he ← pv2; let m ← piso2; pure (he, m)) a with
        | some (he, m) => withOut poaabb2 o fun b =>
            let H := q2 he
            allIn2 b ((corners2 ⟨H.neg, H⟩).map (qiso2 m).act)
        | none => "skip bad-args" }
  | "capsule_aabb" => some {
      model := fun a => run (do let p ← pv3; let p' ← pv3; let r ← pf; let m ← piso3; pure (faabb3 (capsuleAabb p p' r m))) a
      oracle := fun a o => match run (do let p ← pv3; let p' ← pv3; let r ← pf; let m ← piso3; pure (p, p', r, m)) a with
        | some (p, p', r, m) => withOut poaabb3 o fun b =>
            let M := qiso3 m; let R := q r
            let ends := [M.act (q3 p), M.act (q3 p')]
            let pts := ends.flatMap fun c => ([⟨c.x+R,c.y,c.z⟩,⟨c.x-R,c.y,c.z⟩,⟨c.x,c.y+R,c.z⟩,⟨c.x,c.y-R,c.z⟩,⟨c.x,c.y,c.z+R⟩,⟨c.x,c.y,c.z-R⟩] : List (V3 Rat))
            let res := allIn3 b pts
            if res != "pass" then res else if tight3 b pts then "pass" else "fail not-tight"
        | none => "skip bad-args" }
  | "triangle_aabb" => some {
      model := fun a => run (do let p ← pv3; let p' ← pv3; let p'' ← pv3; let m ← piso3; pure (faabb3 (triangleAabb p p' p'' m))) a
      oracle := fun a o => match run (do let p ← pv3; let p' ← pv3; let p'' ← pv3; let m ← piso3; pure (p, p', p'', m)) a with
        | some (p, p', p'', m) => withOut poaabb3 o fun b =>
            let M := qiso3 m
            let pts := [M.act (q3 p), M.act (q3 p'), M.act (q3 p'')]
            let res := allIn3 b pts
            if res != "pass" then res else if tight3 b pts then "pass" else "fail not-tight"
        | none => "skip bad-args" }
  | "ball_bsphere" => some {
      model := fun a => run (do let r ← pf; let m ← piso3; pure (fsphere (ballSphere r m))) a
      oracle := fun a o => match run (do let r ← pf; let m ← piso3; pure (r, m)) a with
        | some (r, m) => withOut posphere o fun s => ptsInSphere s [q3 m.t] (q r)
        | none => "skip bad-args" }
  | "cuboid_bsphere" => some {
      model := fun a => run (do let he ← pv3; let m ← piso3; pure (fsphere (cuboidSphere he m))) a
      oracle := fun a o => match run (do let he ← pv3; let m ← piso3; pure (he, m)) a with
        | some (he, m) => withOut posphere o fun s => let H := q3 he; ptsInSphere s ((corners3 ⟨H.neg, H⟩).map (qiso3 m).act)
        | none => "skip bad-args" }
  | "capsule_bsphere" => some {
      model := fun a => run (do let p ← pv3; let p' ← pv3; let r ← pf; let m ← piso3; pure (fsphere (capsuleSphere p p' r m))) a
      oracle := fun a o => match run (do let p ← pv3; let p' ← pv3; let r ← pf; let m ← piso3; pure (p, p', r, m)) a with
        | some (p, p', r, m) => withOut posphere o fun s => ptsInSphere s [(qiso3 m).act (q3 p), (qiso3 m).act (q3 p')] (q r)
        | none => "skip bad-args" }
  | "cone_bsphere" => some {
      model := fun a => run (do let hh ← pf; let r ← pf; let m ← piso3; pure (fsphere (coneSphere hh r m))) a
      oracle := fun a o => match run (do let hh ← pf; let r ← pf; let m ← piso3; pure (hh, r, m)) a with
        | some (hh, r, m) => withOut posphere o fun s =>
            let H := q hh; let R := q r
            ptsInSphere s (([⟨0, H, 0⟩, ⟨R, -H, 0⟩, ⟨-R, -H, 0⟩, ⟨0, -H, R⟩, ⟨0, -H, -R⟩, ⟨R * 3 / 5, -H, R * 4 / 5⟩] : List (V3 Rat)).map (qiso3 m).act)
        | none => "skip bad-args" }
  | "cyl_bsphere" => some {
      model := fun a => run (do let hh ← pf; let r ← pf; let m ← piso3; pure (fsphere (cylinderSphere hh r m))) a
      oracle := fun a o => match run (do let hh ← pf; let r ← pf; let m ← piso3; pure (hh, r, m)) a with
        | some (hh, r, m) => withOut posphere o fun s =>
            let H := q hh; let R := q r
            ptsInSphere s (([⟨R, H, 0⟩, ⟨-R, -H, 0⟩, ⟨0, H, R⟩, ⟨0, -H, -R⟩, ⟨R * 3 / 5, H, R * 4 / 5⟩, ⟨-R * 3 / 5, -H, R * 4 / 5⟩] : List (V3 Rat)).map (qiso3 m).act)
        | none => "skip bad-args" }
  | "triangle_bsphere" => some {
      model := fun a => run (do let p ← pv3; let p' ← pv3; let p'' ← pv3; let m ← piso3; pure (fsphere (triangleSphere p p' p'' m))) a
      oracle := fun a o => match run (do let p ← pv3; let p' ← pv3; let p'' ← pv3; let m ← piso3; pure ([p, p', p''], m)) a with
        | some (ps, m) => withOut posphere o fun s => ptsInSphere s (ps.map fun p => (qiso3 m).act (q3 p))
        | none => "skip bad-args" }
  | "segment_bsphere" => some {
      model := fun a => run (do let p ← pv3; let p' ← pv3; let m ← piso3; pure (fsphere (segmentSphere p p' m))) a
      oracle := fun a o => match run (do let p ← pv3; let p' ← pv3; let m ← piso3; pure ([p, p'], m)) a with
        | some (ps, m) => withOut posphere o fun s => ptsInSphere s (ps.map fun p => (qiso3 m).act (q3 p))
        | none => "skip bad-args" }
  | "bsphere_merged" => some {
      model := fun a => run (do let x ← psphere; let y ← psphere; pure (fsphere (x.merged y))) a
      oracle := fun a o => match run (do let x ← psphere; let y ← psphere; pure (x, y)) a with
        | some (x, y) => withOut posphere o fun s =>
            let r1 := ptsInSphere s [q3 x.center] (q x.radius)
            if r1 != "pass" then r1 else ptsInSphere s [q3 y.center] (q y.radius)
        | none => "skip bad-args" }
  | "bsphere_intersects" => some {
      model := fun a => run (do let x ← psphere; let y ← psphere; pure (fb (x.intersects y))) a
      oracle := fun a o => match run (do let x ← psphere; let y ← psphere; pure (x, y)) a with
        | some (x, y) =>
          let d2 := ((q3 y.center).sub (q3 x.center)).normSq; let sr := q x.radius + q y.radius
          -- skip the rounding-sensitive band around tangency
          if rabs (d2 - sr * sr) ≤ tol9 * (1 + d2 + sr * sr) then "skip near-tangent" else
          if o = [fb (decide (d2 ≤ sr * sr))] then "pass" else "fail intersects-verdict"
        | none => "skip bad-args" }
  | "bsphere_contains" => some {
      model := fun a => run (do let x ← psphere; let y ← psphere; pure (fb (x.contains y))) a
      oracle := fun a o => match run (do let x ← psphere; let y ← psphere; pure (x, y)) a with
        | some (x, y) =>
          let d2 := ((q3 y.center).sub (q3 x.center)).normSq; let dr := q x.radius - q y.radius
          if rabs (d2 - dr * dr) ≤ tol9 * (1 + d2 + dr * dr) then "skip near-tangent" else
          let ex := decide (0 ≤ dr) && decide (d2 ≤ dr * dr)
          if o = [fb ex] then "pass" else "fail contains-verdict"
        | none => "skip bad-args" }
  | "simd_contains" => some {
      model := fun a => run (do let x ← psimd; let y ← psimd; pure (fbools (x.contains y))) a
      oracle := fun a o => match run (do let x ← psimd; let y ← psimd; pure (x, y)) a with
        | some (x, y) =>
          let ex := (x.lanes.zip y.lanes).map fun (X, Y) =>
            let X := qaabb3 X; let Y := qaabb3 Y
            (List.range 3).all fun i => decide (X.mins.get i ≤ Y.mins.get i) && decide (Y.maxs.get i ≤ X.maxs.get i)
          if o = ex.map fb then "pass" else s!"fail lane-differs-from-scalar-contains expected={fbools ex}"
        | none => "skip bad-args" }
  | "simd_intersects" => some {
      model := fun a => run (do let x ← psimd; let y ← psimd; pure (fbools (x.intersects y))) a
      oracle := fun a o => match run (do let x ← psimd; let y ← psimd; pure (x, y)) a with
        | some (x, y) =>
          let ex := (x.lanes.zip y.lanes).map fun (X, Y) =>
            let X := qaabb3 X; let Y := qaabb3 Y
            (List.range 3).all fun i => decide (X.mins.get i ≤ Y.maxs.get i) && decide (Y.mins.get i ≤ X.maxs.get i)
          if o = ex.map fb then "pass" else s!"fail lane-differs-from-scalar-intersects expected={fbools ex}"
        | none => "skip bad-args" }
  | "simd_contains_point" => some {
      model := fun a => run (do let x ← psimd; let p ← pv3; pure (fbools (x.lanes.map (SimdAabb3.lanePoint · p)))) a
      oracle := fun a o => match run (do let x ← psimd; let p ← pv3; pure (x, p)) a with
        | some (x, p) =>
          let P := q3 p
          let ex := x.lanes.map fun X => let X := qaabb3 X
            (List.range 3).all fun i => decide (X.mins.get i ≤ P.get i) && decide (P.get i ≤ X.maxs.get i)
          if o = ex.map fb then "pass" else s!"fail lane-differs-from-scalar-contains-point expected={fbools ex}"
        | none => "skip bad-args" }
  | "simd_scaled" => some {
      model := fun a => run (do let x ← psimd; let s ← pv3; pure (fboxes (x.scaled s))) a
      oracle := fun a o => match run (do let x ← psimd; let s ← pv3; pure (x, s)) a with
        | some (x, s) => withOut poboxes4 o fun rs =>
            match ((x.lanes.zip rs).map fun (X, r) => allIn3 r ((samplePts3 (qaabb3 X)).map (·.cmul (q3 s)))).filter (· != "pass") with
            | [] => "pass" | e :: _ => e
        | none => "skip bad-args" }
  | "simd_loosen" => some {
      model := fun a => run (do let x ← psimd; let m ← pf; pure (fboxes (x.loosen m))) a
      oracle := fun a o => match run (do let x ← psimd; let m ← pf; pure (x, m)) a with
        | some (x, _) => withOut poboxes4 o fun rs =>
            match ((x.lanes.zip rs).map fun (X, r) => allIn3 r (corners3 (qaabb3 X))).filter (· != "pass") with
            | [] => "pass" | e :: _ => e
        | none => "skip bad-args" }
  | "simd_dilate" => some {
      model := fun a => run (do let x ← psimd; let f ← pf; pure (fboxes (x.lanes.map (SimdAabb3.dilateLane · f)))) a
      oracle := fun a o => match run (do let x ← psimd; let f ← pf; pure (x, f)) a with
        | some (x, _) => withOut poboxes4 o fun rs =>
            match ((x.lanes.zip rs).map fun (X, r) =>
                -- valid lanes must still contain the original box; invalid sentinel lanes must be left unchanged
                if q X.mins.x ≤ q X.maxs.x then allIn3 r (corners3 (qaabb3 X))
                else if faabb3 r == faabb3 X then "pass" else "fail invalid-lane-modified").filter (· != "pass") with
            | [] => "pass" | e :: _ => e
        | none => "skip bad-args" }
  | "simd_merged" => some {
      model := fun a => run (do let x ← psimd; pure (faabb3 x.toMerged)) a
      oracle := fun a o => match run psimd a with
        | some x => withOut poaabb3 o fun r =>
            -- invalid sentinel lanes (mins > maxs) are the neutral element of the merge and contribute no point
            let pts := (x.lanes.filter fun X => q X.mins.x ≤ q X.maxs.x).flatMap fun X => corners3 (qaabb3 X)
            if pts.isEmpty then "skip all-lanes-invalid" else
            let res := allIn3 r pts
            if res != "pass" then res else if tight3 r pts then "pass" else "fail not-tight"
        | none => "skip bad-args" }
  | "simd_dist_point" => some {
      model := fun a => run (do let x ← psimd; let p ← pv3; pure (String.intercalate " " (x.lanes.map fun b => ff (SimdAabb3.laneDistPoint b p)))) a
      oracle := fun a o => match run (do let x ← psimd; let p ← pv3; pure (x, p)) a with
        | some (x, p) => withOut (do let a ← pfo; let b ← pfo; let c ← pfo; let d ← pfo; pure [a, b, c, d]) o fun ds =>
            let P := q3 p
            let bad := (x.lanes.zip ds).filter fun (X, d) =>
              let X := qaabb3 X
              let cl (v lo hi : Rat) : Rat := if v < lo then lo - v else if v > hi then v - hi else 0
              let d2 := cl P.x X.mins.x X.maxs.x ^ 2 + cl P.y X.mins.y X.maxs.y ^ 2 + cl P.z X.mins.z X.maxs.z ^ 2
              !(FloatIO.isFinite d) || q d < 0 || !(rabs (q d * q d - d2) ≤ tol9 * (1 + d2))
            if bad.isEmpty then "pass" else "fail lane-distance-wrong"
        | none => "skip bad-args" }
  | "interval_div" => some {
      model := fun a => run (do let x ← pinterval; let y ← pinterval
                                let (p1, p2) := x.div y
                                pure (match p2 with | none => feint p1 ++ " none" | some p => feint p1 ++ " " ++ feint p)) a
      oracle := fun a o => match run (do let x ← pinterval; let y ← pinterval; pure (x, y)) a with
        | some (x, y) =>
          let pieces : Option (List (Option Rat × Option Rat)) := match o with
            | [a, b, "none"] => (do let l ← qext a; let h ← qext b; pure [(l, h)])
            | [a, b, c, d] => (do let l ← qext a; let h ← qext b; let l2 ← qext c; let h2 ← qext d; pure [(l, h), (l2, h2)])
            | _ => none
          match pieces with
          | none => "fail unparsable-or-nan-output"
          | some ps =>
            let X : Interval Rat := ⟨q x.lo, q x.hi⟩; let Y : Interval Rat := ⟨q y.lo, q y.hi⟩
            let bad := (samples X).flatMap fun u => (samples Y).filterMap fun v =>
              if v = 0 then none else if ps.any (fun (l, h) => inPiece l h (u / v)) then none else some (u, v)
            match bad with
            | [] => "pass"
            | (u, v) :: _ => s!"fail quotient-not-enclosed u={u} v={v} u/v={u / v}"
        | none => "skip bad-args" }
  | _ => none

end C09
