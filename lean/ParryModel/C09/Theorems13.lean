import ParryModel.C09.Model5
import ParryModel.C09.Theorems10
import ParryModel.C09.Theorems12
/-!
# C09 theorems, part 13: `SimdAabb::transform_by` (one isometry per lane), `BoundingSphere::tightened`
-/
set_option linter.unusedSectionVars false
set_option linter.unusedVariables false
set_option linter.unusedSimpArgs false
set_option linter.style.haveILetI false

namespace C09
open Model IsoLemmas

variable {K : Type} [Field K] [LinearOrder K] [IsStrictOrderedRing K] (sq : K → K)

/-- **`SimdAabb::transform_by`**: lane `i` of the result is `Aabb::transform_by` of lane `i` with the `i`-th isometry;
hence (unit quaternion in that lane) it contains `mᵢ • p` for every point `p` of the lane box, and each of its faces
carries the image of a corner of the lane box (it is the least such box). -/
theorem simd_transformBy_lanes (a : SimdAabb3 K) (m0 m1 m2 m3 : Iso3 K) :
    letI := fieldNum K sq
    a.transformBy m0 m1 m2 m3 = [a.l0.transformBy m0, a.l1.transformBy m1, a.l2.transformBy m2, a.l3.transformBy m3] ∧
    ∀ (b : Aabb3 K) (m : Iso3 K), (b, m) ∈ [(a.l0, m0), (a.l1, m1), (a.l2, m2), (a.l3, m3)] →
      m.qi * m.qi + m.qj * m.qj + m.qk * m.qk + m.qw * m.qw = 1 →
      (∀ p, BMem b p → BMem (b.transformBy m) (m.act p)) ∧
      Touches3 (fun x => ∃ c, IsCorner b c ∧ x = m.act c) (b.transformBy m) :=
  ⟨rfl, fun b m _ hq => ⟨fun p hp => aabb_transformBy_contains sq b m p hq hp, aabb_transformBy_tight sq b m hq⟩⟩

/-- **`BoundingSphere::tightened`** (`0 ≤ amount ≤ radius`, as the code asserts): the tightened sphere lies inside the
sphere, and `loosened(amount)` gives the sphere back. -/
theorem sphere_tightened_sub (s : Sphere3 K) (a : K) (ha : 0 ≤ a) (har : a ≤ s.radius) (p : V3 K) :
    letI := fieldNum K sq
    (SMem (s.tightened a) p → SMem s p) ∧ (s.tightened a).loosened a = s := by
  constructor
  · intro h
    simp only [SMem, Sphere3.tightened] at h ⊢
    have : (s.radius - a) * (s.radius - a) ≤ s.radius * s.radius := by nlinarith
    exact le_trans h this
  · obtain ⟨c, r⟩ := s
    simp only [Sphere3.tightened, Sphere3.loosened, Sphere3.mk.injEq, true_and]
    ring

example : (0:ℚ) ≤ 1 ∧ (1:ℚ) ≤ (⟨⟨0, 0, 0⟩, 2⟩ : Sphere3 ℚ).radius := by norm_num

end C09
