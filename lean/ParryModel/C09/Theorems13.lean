import ParryModel.C09.Model5
import ParryModel.C09.Theorems10
import ParryModel.C09.Theorems12
import ParryModel.C09.Theorems5
/-!
# C09 theorems, part 13: `SimdAabb::transform_by` (one isometry per lane), `BoundingSphere::tightened`
-/
set_option linter.unusedSectionVars false
set_option linter.unusedVariables false
set_option linter.unusedSimpArgs false
set_option linter.style.haveILetI false

namespace C09
open Model IsoLemmas

variable {K : Type} [Field K] [LinearOrder K] [IsStrictOrderedRing K] (sq : K → K)

/-- **`SimdAabb::transform_by`**: lane `i` of the result is `Aabb::transform_by` of lane `i` with the `i`-th isometry;
hence (unit quaternion in that lane) it contains `mᵢ • p` for every point `p` of the lane box, and each of its faces
carries the image of a corner of the lane box (it is the least such box). -/
theorem simd_transformBy_lanes (a : SimdAabb3 K) (m0 m1 m2 m3 : Iso3 K) :
    letI := fieldNum K sq
    a.transformBy m0 m1 m2 m3 = [a.l0.transformBy m0, a.l1.transformBy m1, a.l2.transformBy m2, a.l3.transformBy m3] ∧
    ∀ (b : Aabb3 K) (m : Iso3 K), (b, m) ∈ [(a.l0, m0), (a.l1, m1), (a.l2, m2), (a.l3, m3)] →
      m.qi * m.qi + m.qj * m.qj + m.qk * m.qk + m.qw * m.qw = 1 →
      (∀ p, BMem b p → BMem (b.transformBy m) (m.act p)) ∧
      Touches3 (fun x => ∃ c, IsCorner b c ∧ x = m.act c) (b.transformBy m) :=
  ⟨rfl, fun b m _ hq => ⟨fun p hp => aabb_transformBy_contains sq b m p hq hp, aabb_transformBy_tight sq b m hq⟩⟩

/-- **`BoundingSphere::tightened`** (`0 ≤ amount ≤ radius`, as the code asserts): the tightened sphere lies inside the
sphere, and `loosened(amount)` gives the sphere back. -/
theorem sphere_tightened_sub (s : Sphere3 K) (a : K) (ha : 0 ≤ a) (har : a ≤ s.radius) (p : V3 K) :
    letI := fieldNum K sq
    (SMem (s.tightened a) p → SMem s p) ∧ (s.tightened a).loosened a = s := by
  constructor
  · intro h
    simp only [SMem, Sphere3.tightened] at h ⊢
    have : (s.radius - a) * (s.radius - a) ≤ s.radius * s.radius := by nlinarith
    exact le_trans h this
  · obtain ⟨c, r⟩ := s
    simp only [Sphere3.tightened, Sphere3.loosened, Sphere3.mk.injEq, true_and]
    ring

example : (0:ℚ) ≤ 1 ∧ (1:ℚ) ≤ (⟨⟨0, 0, 0⟩, 2⟩ : Sphere3 ℚ).radius := by norm_num

/-! ## histories of `scaled` on composites -/

/-- **TriMesh / Polyline after `scaled(s₁)….scaled(sₖ)`**: the root box after the history contains the point
`p ∘ s₁ ∘ … ∘ sₖ` for every point `p` of the original root box, for scale vectors of any signs (mirrorings back and
forth included). -/
theorem aabb_scaledHist_contains (ss : List (V3 K)) :
    letI := fieldNum K sq
    ∀ (b : Aabb3 K) (p : V3 K), BMem b p → BMem (b.scaledHist ss) (ss.foldl V3.cmul p) := by
  induction ss with
  | nil => intro b p h; exact h
  | cons s ss ih =>
    intro b p h
    simp only [Aabb3.scaledHist, List.foldl_cons]
    exact ih _ _ (aabb_scaled_contains sq b s p h)

/-- hence every point of every indexed triangle of a `TriMesh`, pushed through the history, is in the box the scaled mesh reports -/
theorem trimesh_scaledHist_aabb_contains (rmax : K) (vs : List (V3 K)) (idx : List (Nat × Nat × Nat)) (box : Aabb3 K) (ss : List (V3 K)) :
    letI := fieldNum K sq
    trimeshLocalAabb3 rmax vs idx = some box →
    ∀ t ∈ idx, ∀ a b c, vs[t.1]? = some a → vs[t.2.1]? = some b → vs[t.2.2]? = some c →
      ∀ p, (Triangle3.mk a b c).Mem p → BMem (box.scaledHist ss) (ss.foldl V3.cmul p) :=
  fun h t ht a b c ha hb hc p hp =>
    aabb_scaledHist_contains sq ss box p (trimesh_local_aabb_contains sq rmax vs idx box h t ht a b c ha hb hc p hp)

theorem polyline_scaledHist_aabb_contains (rmax : K) (vs : List (V3 K)) (idx : List (Nat × Nat)) (box : Aabb3 K) (ss : List (V3 K)) :
    letI := fieldNum K sq
    polylineLocalAabb3 rmax vs idx = some box →
    ∀ t ∈ idx, ∀ a b, vs[t.1]? = some a → vs[t.2]? = some b →
      ∀ p, (Segment3.mk a b).Mem p → BMem (box.scaledHist ss) (ss.foldl V3.cmul p) :=
  fun h t ht a b ha hb p hp =>
    aabb_scaledHist_contains sq ss box p (polyline_local_aabb_contains sq rmax vs idx box h t ht a b ha hb p hp)

/-- all three components are non-zero (a HeightField scale must be: `set_scale` divides by the old scale) -/
def NZ3 (s : V3 K) : Prop := s.x ≠ 0 ∧ s.y ≠ 0 ∧ s.z ≠ 0

/-- **`HeightField::set_scale` / `scaled(sc)`** (corrected behaviour): with a non-zero old scale the stored box, rescaled
by `ratio = (old ∘ sc) / old`, contains `p ∘ sc` for every point `p` of the stored box — any signs of `sc`. -/
theorem heightfield_rescale_contains (b : Aabb3 K) (old sc p : V3 K) (ho : NZ3 old) (h : BMem b p) :
    letI := fieldNum K sq
    BMem (heightfieldRescale3 b old sc) (p.cmul sc) := by
  obtain ⟨hx, hy, hz⟩ := ho
  have e : @heightfieldRescale3 K (fieldNum K sq) b old sc = @Aabb3.scaled K (fieldNum K sq) b sc := by
    simp only [heightfieldRescale3, Aabb3.scaled, V3.cmul]
    rw [mul_div_cancel_left₀ _ hx, mul_div_cancel_left₀ _ hy, mul_div_cancel_left₀ _ hz]
  rw [e]
  exact aabb_scaled_contains sq b sc p h

/-- **HeightField after a history of `scaled`**: if the initial scale and every scale vector of the history have non-zero
components (any signs), the stored box after the history contains `p ∘ s₁ ∘ … ∘ sₖ` for every point `p` of the initial box
(which contains every grid vertex: `heightfield_aabb_contains`), and the stored scale is `s₀ ∘ s₁ ∘ … ∘ sₖ`. -/
theorem heightfield_hist_contains (ss : List (V3 K)) :
    letI := fieldNum K sq
    ∀ (b : Aabb3 K) (s0 p : V3 K), NZ3 s0 → (∀ s ∈ ss, NZ3 s) → BMem b p →
      BMem (heightfieldHist3 b s0 ss).1 (ss.foldl V3.cmul p) ∧ (heightfieldHist3 b s0 ss).2 = ss.foldl V3.cmul s0 := by
  induction ss with
  | nil => intro b s0 p _ _ h; exact ⟨h, rfl⟩
  | cons s ss ih =>
    intro b s0 p h0 hs h
    simp only [heightfieldHist3, List.foldl_cons]
    have hs1 : NZ3 s := hs s (by simp)
    have hnz : NZ3 (@V3.cmul K (fieldNum K sq) s0 s) :=
      ⟨mul_ne_zero h0.1 hs1.1, mul_ne_zero h0.2.1 hs1.2.1, mul_ne_zero h0.2.2 hs1.2.2⟩
    exact ih _ _ _ hnz (fun t ht => hs t (by simp [ht])) (heightfield_rescale_contains sq b s0 s p h0 h)

example : NZ3 (⟨-1, 2, -3⟩ : V3 ℚ) := by simp [NZ3]

end C09
