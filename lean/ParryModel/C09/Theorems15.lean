import ParryModel.C09.Theorems5
import ParryModel.C09.Theorems9
import ParryModel.C09.Theorems10
/-!
# C09 theorems, part 15: the dispatch of `dyn Shape` — one statement for every convex shape kind

`BShape3.aabb` / `sphere` / `swept` model `Shape::compute_aabb`, `compute_bounding_sphere`, `compute_swept_aabb` as the
trait dispatches them (one arm per shape kind, `RoundShape` recursively).  `shapeMem` is the point set of each kind
(the `Mem` predicates of `Shapes.lean`; `RoundShape` = Minkowski sum with a ball), `shapeOk` the parameter domain
(radii `≥ 0`, cone half-height `> 0`; the half-space is excluded: its box/sphere is the whole representable range by
design).  The three theorems say: **whatever the kind**, for every unit-quaternion pose the returned box / sphere /
swept box contains every point of the posed shape.  They are assembled from the per-kind theorems of parts 2, 4, 5, 9, 10.
-/
set_option linter.unusedSectionVars false
set_option linter.unusedVariables false
set_option linter.unusedSimpArgs false
set_option linter.style.haveILetI false

namespace C09
open Model IsoLemmas

variable {K : Type} [Field K] [LinearOrder K] [IsStrictOrderedRing K] (sq : K → K)

/-- the point set of a shape descriptor -/
def shapeMem : BShape3 K → V3 K → Prop
  | .ball r => @Ball.Mem3 K (fieldNum K sq) ⟨r⟩
  | .cuboid he => @Cuboid3.Mem K (fieldNum K sq) ⟨he⟩
  | .capsule a b r => @Capsule3.Mem K (fieldNum K sq) ⟨a, b, r⟩
  | .segment a b => @Segment3.Mem K (fieldNum K sq) ⟨a, b⟩
  | .triangle a b c => @Triangle3.Mem K (fieldNum K sq) ⟨a, b, c⟩
  | .cone hh r => @Cone.Mem K (fieldNum K sq) ⟨hh, r⟩
  | .cylinder hh r => @Cylinder.Mem K (fieldNum K sq) ⟨hh, r⟩
  | .poly pts => @hullMem3 K (fieldNum K sq) pts
  | .halfspace n => @HalfSpace3.Mem K (fieldNum K sq) ⟨n⟩
  | .round inner br => @roundMem3 K (fieldNum K sq) (shapeMem inner) br

/-- the parameter domain of a shape descriptor -/
def shapeOk : BShape3 K → Prop
  | .ball r => 0 ≤ r
  | .cuboid _ => True
  | .capsule _ _ r => 0 ≤ r
  | .segment _ _ => True
  | .triangle _ _ _ => True
  | .cone hh r => 0 < hh ∧ 0 ≤ r
  | .cylinder hh r => 0 ≤ hh ∧ 0 ≤ r
  | .poly _ => True
  | .halfspace _ => False
  | .round inner br => 0 ≤ br ∧ shapeOk inner

private theorem ss3'' (x y z : K) : 0 ≤ x * x + y * y + z * z :=
  add_nonneg (add_nonneg (mul_self_nonneg _) (mul_self_nonneg _)) (mul_self_nonneg _)

/-- local form: `compute_local_bounding_sphere` contains the shape and has a non-negative radius -/
theorem shape_local_sphere_contains (hsq : LawfulSqrt sq) (rmax : K) (m : Iso3 K)
    (hq : m.qi * m.qi + m.qj * m.qj + m.qk * m.qk + m.qw * m.qw = 1) :
    letI := fieldNum K sq
    ∀ (s : BShape3 K) (S : Sphere3 K), shapeOk s → s.localSphere rmax = some S →
      0 ≤ S.radius ∧ ∀ p, shapeMem sq s p → SMem S p := by
  intro s
  induction s with
  | ball r =>
    intro S hok h; simp only [BShape3.localSphere, Option.some.injEq] at h; subst h
    refine ⟨hok, fun p hp => ?_⟩
    exact (sphere_transformBy_contains sq _ m p hq).1 (ball_sphere_contains sq ⟨r⟩ m p hq hp)
  | cuboid he =>
    intro S _ h; simp only [BShape3.localSphere, Option.some.injEq] at h; subst h
    refine ⟨hsq.nonneg _ (ss3'' _ _ _), fun p hp => ?_⟩
    exact (sphere_transformBy_contains sq _ m p hq).1 (cuboid_sphere_contains sq ⟨he⟩ m p hsq hq hp)
  | capsule a b r =>
    intro S hok h; simp only [BShape3.localSphere, Option.some.injEq] at h; subst h
    refine ⟨?_, fun p hp => ?_⟩
    · have := hsq.nonneg _ (ss3'' (b.x - a.x) (b.y - a.y) (b.z - a.z))
      simp only [V3.norm, V3.normSq, V3.dot, V3.sub, fieldNum_sqrt, fieldNum_two]
      have h2 : 0 ≤ sq ((b.x - a.x) * (b.x - a.x) + (b.y - a.y) * (b.y - a.y) + (b.z - a.z) * (b.z - a.z)) / 2 := by positivity
      exact add_nonneg hok h2
    · exact (sphere_transformBy_contains sq _ m p hq).1 (capsule_sphere_contains sq a b r hok m p hsq hq hp)
  | segment a b =>
    intro S _ h; simp only [BShape3.localSphere, Option.some.injEq] at h; subst h
    exact ⟨pointCloudSphere_radius_nonneg sq a [b] hsq,
      fun p hp => (sphere_transformBy_contains sq _ m p hq).1 (segment_sphere_contains sq a b m p hsq hq hp)⟩
  | triangle a b c =>
    intro S _ h; simp only [BShape3.localSphere, Option.some.injEq] at h; subst h
    exact ⟨pointCloudSphere_radius_nonneg sq a [b, c] hsq,
      fun p hp => (sphere_transformBy_contains sq _ m p hq).1 (triangle_sphere_contains sq a b c m p hsq hq hp)⟩
  | cone hh r =>
    intro S hok h; simp only [BShape3.localSphere, Option.some.injEq] at h; subst h
    refine ⟨hsq.nonneg _ (add_nonneg (mul_self_nonneg _) (mul_self_nonneg _)), fun p hp => ?_⟩
    exact (sphere_transformBy_contains sq _ m p hq).1 (cone_sphere_contains sq ⟨hh, r⟩ m p hsq hq hok.1 hp)
  | cylinder hh r =>
    intro S _ h; simp only [BShape3.localSphere, Option.some.injEq] at h; subst h
    refine ⟨hsq.nonneg _ (add_nonneg (mul_self_nonneg _) (mul_self_nonneg _)), fun p hp => ?_⟩
    exact (sphere_transformBy_contains sq _ m p hq).1 (cylinder_sphere_contains sq ⟨hh, r⟩ m p hsq hq hp)
  | poly pts =>
    intro S _ h
    cases pts with
    | nil => simp [BShape3.localSphere] at h
    | cons p0 ps =>
      simp only [BShape3.localSphere, Option.some.injEq] at h; subst h
      exact ⟨pointCloudSphere_radius_nonneg sq p0 ps hsq,
        fun p hp => (sphere_transformBy_contains sq _ m p hq).1 (polyhedron_sphere_contains sq p0 ps m p hsq hq hp)⟩
  | halfspace n => intro S hok; exact absurd hok id
  | round inner br ih =>
    intro S hok h
    simp only [BShape3.localSphere, Option.map_eq_some_iff] at h
    obtain ⟨S', hS', rfl⟩ := h
    obtain ⟨hr, hin⟩ := ih S' hok.2 hS'
    refine ⟨add_nonneg hr hok.1, ?_⟩
    rintro p ⟨q, hqm, hd⟩
    exact sphere_loosened_contains sq S' br p q hr hok.1 (hin q hqm) (by simpa only [V3.normSq, V3.dot, V3.sub] using hd)

/-- **`Shape::compute_bounding_sphere(pos)`, every convex kind**: the returned sphere contains every point of the posed shape. -/
theorem shape_sphere_contains (hsq : LawfulSqrt sq) (rmax : K) (m : Iso3 K)
    (hq : m.qi * m.qi + m.qj * m.qj + m.qk * m.qk + m.qw * m.qw = 1) (s : BShape3 K) (S : Sphere3 K) (hok : shapeOk s) :
    letI := fieldNum K sq
    s.sphere rmax m = some S → ∀ p, shapeMem sq s p → SMem S (m.act p) := by
  intro h p hp
  simp only [BShape3.sphere, Option.map_eq_some_iff] at h
  obtain ⟨S', hS', rfl⟩ := h
  exact (sphere_transformBy_contains sq S' m p hq).2 ((shape_local_sphere_contains sq hsq rmax m hq s S' hok hS').2 p hp)

/-- **`Shape::compute_aabb(pos)`, every convex kind**: the returned box contains every point of the posed shape. -/
theorem shape_aabb_contains (hsq : LawfulSqrt sq) (hm : K) (m : Iso3 K)
    (hq : m.qi * m.qi + m.qj * m.qj + m.qk * m.qk + m.qw * m.qw = 1) :
    letI := fieldNum K sq
    ∀ (s : BShape3 K) (B : Aabb3 K), shapeOk s → s.aabb hm m = some B → ∀ p, shapeMem sq s p → BMem B (m.act p) := by
  intro s
  induction s with
  | ball r =>
    intro B hok h p hp; simp only [BShape3.aabb, Option.some.injEq] at h; subst h
    exact ball_aabb_contains sq r hok m p hq hp
  | cuboid he =>
    intro B _ h p hp; simp only [BShape3.aabb, Option.some.injEq] at h; subst h
    exact cuboid_aabb_contains sq he m p hq hp
  | capsule a b r =>
    intro B hok h p hp; simp only [BShape3.aabb, Option.some.injEq] at h; subst h
    exact capsule_aabb_contains sq a b r hok m p hq hp
  | segment a b =>
    intro B _ h p hp; simp only [BShape3.aabb, Option.some.injEq] at h; subst h
    exact (segment_aabb3_contains_tight sq a b m).1 p hp
  | triangle a b c =>
    intro B _ h p hp; simp only [BShape3.aabb, Option.some.injEq] at h; subst h
    exact triangle_aabb_contains sq a b c p m hp
  | cone hh r =>
    intro B hok h p hp; simp only [BShape3.aabb, Option.some.injEq] at h; subst h
    exact cone_aabb_contains sq hsq hh r m hok.1 hok.2 p hp
  | cylinder hh r =>
    intro B hok h p hp; simp only [BShape3.aabb, Option.some.injEq] at h; subst h
    exact cylinder_aabb_contains sq hsq hh r m hok.1 hok.2 p hp
  | poly pts =>
    intro B _ h p hp
    cases pts with
    | nil => simp [BShape3.aabb] at h
    | cons p0 ps =>
      simp only [BShape3.aabb, Option.some.injEq] at h; subst h
      exact (polyhedron_aabb_contains_tight sq m p0 ps).1 p hp
  | halfspace n => intro B hok; exact absurd hok id
  | round inner br ih =>
    intro B hok h p hp
    simp only [BShape3.aabb, Option.map_eq_some_iff] at h
    obtain ⟨B', hB', rfl⟩ := h
    exact round_posed_aabb_contains sq (shapeMem sq inner) B' br hok.1 m hq (fun q hqm => ih B' hok.2 hB' q hqm) p hp

/-- **`Shape::compute_swept_aabb(start, end)`, every convex kind**: the swept box exists whenever the two boxes do,
contains the shape at both poses and every straight segment between a point at the start pose and a point at the end pose. -/
theorem shape_swept_contains (hsq : LawfulSqrt sq) (hm : K) (m1 m2 : Iso3 K)
    (hq1 : m1.qi * m1.qi + m1.qj * m1.qj + m1.qk * m1.qk + m1.qw * m1.qw = 1)
    (hq2 : m2.qi * m2.qi + m2.qj * m2.qj + m2.qk * m2.qk + m2.qw * m2.qw = 1)
    (s : BShape3 K) (hok : shapeOk s) (b1 b2 : Aabb3 K) :
    letI := fieldNum K sq
    s.aabb hm m1 = some b1 → s.aabb hm m2 = some b2 →
    ∃ b, s.swept hm m1 m2 = some b ∧
      (∀ p, shapeMem sq s p → BMem b (m1.act p) ∧ BMem b (m2.act p)) ∧
      (∀ p1 p2 t, shapeMem sq s p1 → shapeMem sq s p2 → 0 ≤ t → t ≤ 1 →
        BMem b ((m1.act p1).add (((m2.act p2).sub (m1.act p1)).smul t))) := by
  intro e1 e2
  obtain ⟨b, hb, h1, h2⟩ := swept_aabb_contains sq s hm m1 m2
    (fun x => ∃ p, shapeMem sq s p ∧ x = @Iso3.act K (fieldNum K sq) m1 p)
    (fun x => ∃ p, shapeMem sq s p ∧ x = @Iso3.act K (fieldNum K sq) m2 p) b1 b2 e1 e2
    (by rintro x ⟨p, hp, rfl⟩; exact shape_aabb_contains sq hsq hm m1 hq1 s b1 hok e1 p hp)
    (by rintro x ⟨p, hp, rfl⟩; exact shape_aabb_contains sq hsq hm m2 hq2 s b2 hok e2 p hp)
  refine ⟨b, hb, fun p hp => ⟨h1 _ (Or.inl ⟨p, hp, rfl⟩), h1 _ (Or.inr ⟨p, hp, rfl⟩)⟩, ?_⟩
  intro p1 p2 t hp1 hp2 t0 t1
  exact h2 _ _ t ⟨p1, hp1, rfl⟩ ⟨p2, hp2, rfl⟩ t0 t1

example : shapeOk (BShape3.round (BShape3.cone (1:ℚ) 2) (1/2)) := by simp [shapeOk]

/-! ## composites: `compute_bounding_sphere(pos) = local_aabb().bounding_sphere().transform_by(pos)` -/

/-- **`Aabb::bounding_sphere`** contains every point of the box. -/
theorem aabb_boundingSphere_contains (a : Aabb3 K) (p : V3 K) (hsq : LawfulSqrt sq) :
    letI := fieldNum K sq
    BMem a p → SMem a.boundingSphere p := by
  rintro ⟨⟨h1, h2⟩, ⟨h3, h4⟩, h5, h6⟩
  have hl : ((mkRat 1 2 : Rat) : K) = 1/2 := by norm_num
  have hn := ss3'' (a.maxs.x - a.mins.x) (a.maxs.y - a.mins.y) (a.maxs.z - a.mins.z)
  have hmul := hsq.sq_mul _ hn
  simp only [Aabb3.boundingSphere, Aabb3.center, V3.center, SMem, V3.norm, V3.normSq, V3.dot, V3.add, V3.sub, V3.smul,
    fieldNum_sqrt, fieldNum_lit, hl]
  have e : ∀ n : K, n * (1/2) * (n * (1/2)) = (n * n) * (1/4) := by intro n; ring
  rw [e, hmul]
  have b1 : (p.x - (a.mins.x + a.maxs.x) * (1/2)) * (p.x - (a.mins.x + a.maxs.x) * (1/2)) ≤ (a.maxs.x - a.mins.x) * (a.maxs.x - a.mins.x) * (1/4) := by
    nlinarith [mul_nonneg (sub_nonneg.2 h1) (sub_nonneg.2 h2)]
  have b2 : (p.y - (a.mins.y + a.maxs.y) * (1/2)) * (p.y - (a.mins.y + a.maxs.y) * (1/2)) ≤ (a.maxs.y - a.mins.y) * (a.maxs.y - a.mins.y) * (1/4) := by
    nlinarith [mul_nonneg (sub_nonneg.2 h3) (sub_nonneg.2 h4)]
  have b3 : (p.z - (a.mins.z + a.maxs.z) * (1/2)) * (p.z - (a.mins.z + a.maxs.z) * (1/2)) ≤ (a.maxs.z - a.mins.z) * (a.maxs.z - a.mins.z) * (1/4) := by
    nlinarith [mul_nonneg (sub_nonneg.2 h5) (sub_nonneg.2 h6)]
  linarith

/-- **TriMesh / Polyline / Compound / HeightField `compute_bounding_sphere(pos)`**: whenever the local box contains a
set `S` (parts 5 and 13 prove that for every triangle / segment / part / grid cell), the sphere of the box, moved by a
unit-quaternion pose, contains the posed set. -/
theorem composite_sphere_contains (S : V3 K → Prop) (box : Aabb3 K) (m : Iso3 K) (hsq : LawfulSqrt sq)
    (hq : m.qi * m.qi + m.qj * m.qj + m.qk * m.qk + m.qw * m.qw = 1) (h : ∀ p, S p → BMem box p) :
    letI := fieldNum K sq
    ∀ p, S p → SMem (box.boundingSphere.transformBy m) (m.act p) :=
  fun p hp => (sphere_transformBy_contains sq _ m p hq).2 (aabb_boundingSphere_contains sq box p hsq (h p hp))

/-- instance: every point of every indexed triangle of a `TriMesh` is in `TriMesh::bounding_sphere(pos)` -/
theorem trimesh_sphere_contains (rmax : K) (vs : List (V3 K)) (idx : List (Nat × Nat × Nat)) (box : Aabb3 K) (m : Iso3 K)
    (hsq : LawfulSqrt sq) (hq : m.qi * m.qi + m.qj * m.qj + m.qk * m.qk + m.qw * m.qw = 1) :
    letI := fieldNum K sq
    trimeshLocalAabb3 rmax vs idx = some box →
    ∀ t ∈ idx, ∀ a b c, vs[t.1]? = some a → vs[t.2.1]? = some b → vs[t.2.2]? = some c →
      ∀ p, (Triangle3.mk a b c).Mem p → SMem (box.boundingSphere.transformBy m) (m.act p) :=
  fun h t ht a b c ha hb hc p hp =>
    (sphere_transformBy_contains sq _ m p hq).2
      (aabb_boundingSphere_contains sq box p hsq (trimesh_local_aabb_contains sq rmax vs idx box h t ht a b c ha hb hc p hp))

/-- **`Compound::local_aabb` / `compute_aabb(pos)`**: for every part `(delta, shape)` of the compound (unit-quaternion
`delta`, parameters in the domain), every point of the part posed by `delta` lies in the compound's local box; and in
`local_aabb().transform_by(pos)` after `pos`. -/
theorem compound_aabb_contains_parts (hsq : LawfulSqrt sq) (rmax hm : K) (parts : List (Iso3 K × BShape3 K)) (box : Aabb3 K)
    (pos : Iso3 K) (hpos : pos.qi * pos.qi + pos.qj * pos.qj + pos.qk * pos.qk + pos.qw * pos.qw = 1) :
    letI := fieldNum K sq
    compoundLocalAabb3 rmax hm parts = some box →
    ∀ ms ∈ parts, ms.1.qi * ms.1.qi + ms.1.qj * ms.1.qj + ms.1.qk * ms.1.qk + ms.1.qw * ms.1.qw = 1 → shapeOk ms.2 →
      ∀ p, shapeMem sq ms.2 p → BMem box (ms.1.act p) ∧ BMem (box.transformBy pos) (pos.act (ms.1.act p)) := by
  intro h ms hms hu hok p hp
  obtain ⟨l, hl, hsub⟩ := compound_local_aabb_contains sq rmax hm parts box h ms hms
  have h1 := hsub _ (shape_aabb_contains sq hsq hm ms.1 hu ms.2 l hok hl p hp)
  exact ⟨h1, aabb_transformBy_contains sq box pos _ hpos h1⟩

/-- **composite `compute_swept_aabb(start, end)`** (`local_aabb().transform_by(start).merged(local_aabb().transform_by(end))`):
whenever the local box contains a set `S`, the swept box contains `S` at both poses. -/
theorem composite_swept_contains (S : V3 K → Prop) (box : Aabb3 K) (m1 m2 : Iso3 K)
    (hq1 : m1.qi * m1.qi + m1.qj * m1.qj + m1.qk * m1.qk + m1.qw * m1.qw = 1)
    (hq2 : m2.qi * m2.qi + m2.qj * m2.qj + m2.qk * m2.qk + m2.qw * m2.qw = 1) (h : ∀ p, S p → BMem box p) :
    letI := fieldNum K sq
    ∀ p, S p → BMem ((box.transformBy m1).merged (box.transformBy m2)) (m1.act p) ∧
      BMem ((box.transformBy m1).merged (box.transformBy m2)) (m2.act p) :=
  fun p hp => ⟨aabb_merged_contains sq _ _ _ (Or.inl (aabb_transformBy_contains sq box m1 p hq1 (h p hp))),
    aabb_merged_contains sq _ _ _ (Or.inr (aabb_transformBy_contains sq box m2 p hq2 (h p hp)))⟩

end C09
