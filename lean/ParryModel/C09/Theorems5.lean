import ParryModel.C09.Spec
import ParryModel.C09.Model3
import ParryModel.IsoLemmas
import ParryModel.C10.Lemmas
import ParryModel.C09.Theorems4
/-!
# C09 theorems, part 5: point-cloud boxes (ConvexPolyhedron / ConvexPolygon), `RoundShape` boxes, triangle boxes,
swept boxes and composite boxes (QBVH root of TriMesh / Polyline, Compound, HeightField).
-/
set_option linter.unusedSectionVars false
set_option linter.unusedVariables false
set_option linter.unusedSimpArgs false
set_option linter.style.haveILetI false

namespace C09
open Model

variable {K : Type} [Field K] [LinearOrder K] [IsStrictOrderedRing K] (sq : K → K)

/-! ## growing a box by points (`min.inf(pt)`, `max.sup(pt)`) -/

/-- one step of the point-cloud loops -/
def grow3 (b : Aabb3 K) (w : V3 K) : Aabb3 K :=
  letI := fieldNum K sq
  ⟨b.mins.inf w, b.maxs.sup w⟩

private theorem grow3_mono (b : Aabb3 K) (w x : V3 K) : BMem b x → BMem (grow3 sq b w) x := by
  rintro ⟨⟨h1, h2⟩, ⟨h3, h4⟩, h5, h6⟩
  simp only [grow3, V3.inf, V3.sup, BMem, fieldNum_nmin, fieldNum_nmax, min_le_iff, le_max_iff]
  tauto
private theorem grow3_self (b : Aabb3 K) (w : V3 K) : BMem (grow3 sq b w) w := by
  simp only [grow3, V3.inf, V3.sup, BMem, fieldNum_nmin, fieldNum_nmax, min_le_iff, le_max_iff, le_refl, or_true, and_self]
private theorem foldl_grow3_mono (ws : List (V3 K)) : ∀ (b : Aabb3 K) (x : V3 K), BMem b x → BMem (ws.foldl (grow3 sq) b) x := by
  induction ws with
  | nil => intro b x h; exact h
  | cons w ws ih => intro b x h; exact ih _ _ (grow3_mono sq b w x h)
private theorem foldl_grow3_mem (ws : List (V3 K)) : ∀ (b : Aabb3 K), ∀ w ∈ ws, BMem (ws.foldl (grow3 sq) b) w := by
  induction ws with
  | nil => intro b w h; cases h
  | cons v ws ih =>
    intro b w h
    rcases List.mem_cons.1 h with rfl | h
    · exact foldl_grow3_mono sq ws _ _ (grow3_self sq b _)
    · exact ih _ w h

/-- every face coordinate of `b` is the coordinate of some point of `L` -/
def Attained3 (L : List (V3 K)) (b : Aabb3 K) : Prop :=
  (∃ w ∈ L, w.x = b.maxs.x) ∧ (∃ w ∈ L, w.x = b.mins.x) ∧ (∃ w ∈ L, w.y = b.maxs.y) ∧ (∃ w ∈ L, w.y = b.mins.y) ∧
  (∃ w ∈ L, w.z = b.maxs.z) ∧ (∃ w ∈ L, w.z = b.mins.z)

private theorem grow3_attained (L : List (V3 K)) (b : Aabb3 K) (w : V3 K) (hw : w ∈ L) :
    Attained3 L b → Attained3 L (grow3 sq b w) := by
  rintro ⟨a1, a2, a3, a4, a5, a6⟩
  simp only [Attained3, grow3, V3.inf, V3.sup, fieldNum_nmin, fieldNum_nmax]
  refine ⟨?_, ?_, ?_, ?_, ?_, ?_⟩
  · rcases max_choice b.maxs.x w.x with e | e <;> rw [e]; exacts [a1, ⟨w, hw, rfl⟩]
  · rcases min_choice b.mins.x w.x with e | e <;> rw [e]; exacts [a2, ⟨w, hw, rfl⟩]
  · rcases max_choice b.maxs.y w.y with e | e <;> rw [e]; exacts [a3, ⟨w, hw, rfl⟩]
  · rcases min_choice b.mins.y w.y with e | e <;> rw [e]; exacts [a4, ⟨w, hw, rfl⟩]
  · rcases max_choice b.maxs.z w.z with e | e <;> rw [e]; exacts [a5, ⟨w, hw, rfl⟩]
  · rcases min_choice b.mins.z w.z with e | e <;> rw [e]; exacts [a6, ⟨w, hw, rfl⟩]
private theorem foldl_grow3_attained (L : List (V3 K)) (ws : List (V3 K)) (hws : ∀ w ∈ ws, w ∈ L) :
    ∀ b, Attained3 L b → Attained3 L (ws.foldl (grow3 sq) b) := by
  induction ws with
  | nil => intro b h; exact h
  | cons w ws ih =>
    intro b h
    exact ih (fun v hv => hws v (List.mem_cons_of_mem _ hv)) _ (grow3_attained sq L b w (hws w (List.mem_cons_self ..)) h)

/-- `local_point_cloud_aabb` as a fold of `grow3` -/
private theorem fromPoints_eq (p0 : V3 K) (ps : List (V3 K)) :
    letI := fieldNum K sq
    Aabb3.fromPoints p0 ps = ps.foldl (grow3 sq) ⟨p0, p0⟩ := rfl
private theorem pointCloud_eq (m : Iso3 K) (p0 : V3 K) (ps : List (V3 K)) :
    letI := fieldNum K sq
    pointCloudAabb3 m p0 ps = (ps.map m.act).foldl (grow3 sq) ⟨m.act p0, m.act p0⟩ := by
  simp only [pointCloudAabb3, List.foldl_map]; rfl

private theorem dot_rot3' (m : Iso3 K) (dir q : V3 K) :
    letI := fieldNum K sq
    dir.dot (m.rot q) = (m.invRot dir).dot q := by
  simp only [Iso3.rot, Iso3.invRot, Iso3.rotQ, Iso3.qv, V3.dot, V3.cross, V3.smul, V3.add, V3.neg, fieldNum_two]
  ring

/-- a box that contains the images `m•v` of the generators contains the image of every point of their hull -/
theorem hull_in_box_posed (m : Iso3 K) (pts : List (V3 K)) (b : Aabb3 K) :
    letI := fieldNum K sq
    (∀ v ∈ pts, BMem b (m.act v)) → ∀ q, hullMem3 pts q → BMem b (m.act q) := by
  intro hV q hq
  have key : ∀ (d : V3 K) (M : K), (∀ v ∈ pts, @V3.dot K (fieldNum K sq) d (@Iso3.rot K (fieldNum K sq) m v) ≤ M) →
      @V3.dot K (fieldNum K sq) d (@Iso3.rot K (fieldNum K sq) m q) ≤ M := by
    intro d M h
    rw [dot_rot3' sq]
    exact C10.hull3_le sq _ M pts q hq (fun v hv => by rw [← dot_rot3' sq]; exact h v hv)
  have k1 := key ⟨1, 0, 0⟩ (b.maxs.x - m.t.x) (fun v hv => by have := (hV v hv).1.2; simp only [Iso3.act, V3.add, V3.dot] at this ⊢; linarith)
  have k2 := key ⟨-1, 0, 0⟩ (-(b.mins.x - m.t.x)) (fun v hv => by have := (hV v hv).1.1; simp only [Iso3.act, V3.add, V3.dot] at this ⊢; linarith)
  have k3 := key ⟨0, 1, 0⟩ (b.maxs.y - m.t.y) (fun v hv => by have := (hV v hv).2.1.2; simp only [Iso3.act, V3.add, V3.dot] at this ⊢; linarith)
  have k4 := key ⟨0, -1, 0⟩ (-(b.mins.y - m.t.y)) (fun v hv => by have := (hV v hv).2.1.1; simp only [Iso3.act, V3.add, V3.dot] at this ⊢; linarith)
  have k5 := key ⟨0, 0, 1⟩ (b.maxs.z - m.t.z) (fun v hv => by have := (hV v hv).2.2.2; simp only [Iso3.act, V3.add, V3.dot] at this ⊢; linarith)
  have k6 := key ⟨0, 0, -1⟩ (-(b.mins.z - m.t.z)) (fun v hv => by have := (hV v hv).2.2.1; simp only [Iso3.act, V3.add, V3.dot] at this ⊢; linarith)
  simp only [V3.dot] at k1 k2 k3 k4 k5 k6
  simp only [BMem, Iso3.act, V3.add]
  refine ⟨⟨?_, ?_⟩, ⟨?_, ?_⟩, ?_, ?_⟩ <;> linarith

/-- local version -/
theorem hull_in_box (pts : List (V3 K)) (b : Aabb3 K) :
    letI := fieldNum K sq
    (∀ v ∈ pts, BMem b v) → ∀ q, hullMem3 pts q → BMem b q := by
  intro hv q hq
  have k1 := C10.hull3_le sq ⟨1, 0, 0⟩ b.maxs.x pts q hq (fun v h => by have := (hv v h).1.2; simp only [V3.dot]; linarith)
  have k2 := C10.hull3_le sq ⟨-1, 0, 0⟩ (-b.mins.x) pts q hq (fun v h => by have := (hv v h).1.1; simp only [V3.dot]; linarith)
  have k3 := C10.hull3_le sq ⟨0, 1, 0⟩ b.maxs.y pts q hq (fun v h => by have := (hv v h).2.1.2; simp only [V3.dot]; linarith)
  have k4 := C10.hull3_le sq ⟨0, -1, 0⟩ (-b.mins.y) pts q hq (fun v h => by have := (hv v h).2.1.1; simp only [V3.dot]; linarith)
  have k5 := C10.hull3_le sq ⟨0, 0, 1⟩ b.maxs.z pts q hq (fun v h => by have := (hv v h).2.2.2; simp only [V3.dot]; linarith)
  have k6 := C10.hull3_le sq ⟨0, 0, -1⟩ (-b.mins.z) pts q hq (fun v h => by have := (hv v h).2.2.1; simp only [V3.dot]; linarith)
  simp only [V3.dot] at k1 k2 k3 k4 k5 k6
  simp only [BMem]
  refine ⟨⟨?_, ?_⟩, ⟨?_, ?_⟩, ?_, ?_⟩ <;> linarith

/-- **ConvexPolyhedron, posed**: `point_cloud_aabb(pos, points)` contains the image of every point of the convex hull
of the points (the polyhedron as a set), for every pose; and every face of the box carries the image of one of the
points (tightness). -/
theorem polyhedron_aabb_contains_tight (m : Iso3 K) (p0 : V3 K) (ps : List (V3 K)) :
    letI := fieldNum K sq
    (∀ q, hullMem3 (p0 :: ps) q → BMem (pointCloudAabb3 m p0 ps) (m.act q)) ∧
      Attained3 ((p0 :: ps).map m.act) (pointCloudAabb3 m p0 ps) := by
  rw [pointCloud_eq]
  constructor
  · refine hull_in_box_posed sq m (p0 :: ps) _ ?_
    intro v hv
    rcases List.mem_cons.1 hv with rfl | hv
    · exact foldl_grow3_mono sq _ _ _ ⟨⟨le_refl _, le_refl _⟩, ⟨le_refl _, le_refl _⟩, le_refl _, le_refl _⟩
    · exact foldl_grow3_mem sq _ _ _ (List.mem_map_of_mem hv)
  · refine foldl_grow3_attained sq _ _ (fun w hw => by simp only [List.map_cons]; exact List.mem_cons_of_mem _ hw) _ ?_
    have h0 : @Iso3.act K (fieldNum K sq) m p0 ∈ List.map (@Iso3.act K (fieldNum K sq) m) (p0 :: ps) := by simp
    exact ⟨⟨_, h0, rfl⟩, ⟨_, h0, rfl⟩, ⟨_, h0, rfl⟩, ⟨_, h0, rfl⟩, ⟨_, h0, rfl⟩, ⟨_, h0, rfl⟩⟩

/-- **ConvexPolyhedron, local**: `local_point_cloud_aabb` -/
theorem polyhedron_local_aabb_contains_tight (p0 : V3 K) (ps : List (V3 K)) :
    letI := fieldNum K sq
    (∀ q, hullMem3 (p0 :: ps) q → BMem (Aabb3.fromPoints p0 ps) q) ∧ Attained3 (p0 :: ps) (Aabb3.fromPoints p0 ps) := by
  rw [fromPoints_eq]
  constructor
  · refine hull_in_box sq (p0 :: ps) _ ?_
    intro v hv
    rcases List.mem_cons.1 hv with rfl | hv
    · exact foldl_grow3_mono sq _ _ _ ⟨⟨le_refl _, le_refl _⟩, ⟨le_refl _, le_refl _⟩, le_refl _, le_refl _⟩
    · exact foldl_grow3_mem sq _ _ _ hv
  · refine foldl_grow3_attained sq _ _ (fun w hw => List.mem_cons_of_mem _ hw) _ ?_
    have h0 : p0 ∈ p0 :: ps := List.mem_cons_self ..
    exact ⟨⟨_, h0, rfl⟩, ⟨_, h0, rfl⟩, ⟨_, h0, rfl⟩, ⟨_, h0, rfl⟩, ⟨_, h0, rfl⟩, ⟨_, h0, rfl⟩⟩

example : hullMem3 [(⟨0, 0, 0⟩ : V3 ℚ), ⟨2, 0, 0⟩] ⟨1, 0, 0⟩ := by
  refine ⟨[1/2, 1/2], rfl, ?_, ?_, ?_⟩
  · intro x hx; simp at hx; rcases hx with rfl | rfl <;> norm_num
  · norm_num [List.foldl]
  · simp [List.zipWith, List.foldl, V3.add, V3.smul, V3.zero]

/-! ### 2-D (ConvexPolygon) -/
def grow2 (b : Aabb2 K) (w : V2 K) : Aabb2 K :=
  letI := fieldNum K sq
  ⟨b.mins.inf w, b.maxs.sup w⟩
private theorem grow2_mono (b : Aabb2 K) (w x : V2 K) : BMem2 b x → BMem2 (grow2 sq b w) x := by
  rintro ⟨⟨h1, h2⟩, h3, h4⟩
  simp only [grow2, V2.inf, V2.sup, BMem2, fieldNum_nmin, fieldNum_nmax, min_le_iff, le_max_iff]
  tauto
private theorem grow2_self (b : Aabb2 K) (w : V2 K) : BMem2 (grow2 sq b w) w := by
  simp only [grow2, V2.inf, V2.sup, BMem2, fieldNum_nmin, fieldNum_nmax, min_le_iff, le_max_iff, le_refl, or_true, and_self]
private theorem foldl_grow2_mono (ws : List (V2 K)) : ∀ (b : Aabb2 K) (x : V2 K), BMem2 b x → BMem2 (ws.foldl (grow2 sq) b) x := by
  induction ws with
  | nil => intro b x h; exact h
  | cons w ws ih => intro b x h; exact ih _ _ (grow2_mono sq b w x h)
private theorem foldl_grow2_mem (ws : List (V2 K)) : ∀ (b : Aabb2 K), ∀ w ∈ ws, BMem2 (ws.foldl (grow2 sq) b) w := by
  induction ws with
  | nil => intro b w h; cases h
  | cons v ws ih =>
    intro b w h
    rcases List.mem_cons.1 h with rfl | h
    · exact foldl_grow2_mono sq ws _ _ (grow2_self sq b _)
    · exact ih _ w h
private theorem dot_rot2' (m : Iso2 K) (dir q : V2 K) :
    letI := fieldNum K sq
    dir.dot (m.rot q) = (m.invRot dir).dot q := by
  simp only [Iso2.rot, Iso2.invRot, V2.dot]
  ring

/-- **ConvexPolygon, posed**: `point_cloud_aabb(pos, points)` contains the image of every point of the hull. -/
theorem polygon_aabb_contains (m : Iso2 K) (p0 : V2 K) (ps : List (V2 K)) :
    letI := fieldNum K sq
    ∀ q, hullMem2 (p0 :: ps) q → BMem2 (pointCloudAabb2 m p0 ps) (m.act q) := by
  intro q hq
  have e : @pointCloudAabb2 K (fieldNum K sq) m p0 ps
      = (ps.map (@Iso2.act K (fieldNum K sq) m)).foldl (grow2 sq) ⟨@Iso2.act K (fieldNum K sq) m p0, @Iso2.act K (fieldNum K sq) m p0⟩ := by
    simp only [pointCloudAabb2, List.foldl_map]; rfl
  rw [e]
  set b := (ps.map (@Iso2.act K (fieldNum K sq) m)).foldl (grow2 sq) ⟨@Iso2.act K (fieldNum K sq) m p0, @Iso2.act K (fieldNum K sq) m p0⟩ with hb
  have hv : ∀ v ∈ p0 :: ps, BMem2 b (@Iso2.act K (fieldNum K sq) m v) := by
    intro v hv
    rcases List.mem_cons.1 hv with rfl | hv
    · exact foldl_grow2_mono sq _ _ _ ⟨⟨le_refl _, le_refl _⟩, le_refl _, le_refl _⟩
    · exact foldl_grow2_mem sq _ _ _ (List.mem_map_of_mem hv)
  have key : ∀ (d : V2 K) (M : K), (∀ v ∈ p0 :: ps, @V2.dot K (fieldNum K sq) d (@Iso2.rot K (fieldNum K sq) m v) ≤ M) →
      @V2.dot K (fieldNum K sq) d (@Iso2.rot K (fieldNum K sq) m q) ≤ M := by
    intro d M h
    rw [dot_rot2' sq]
    exact C10.hull2_le sq _ M (p0 :: ps) q hq (fun v hv => by rw [← dot_rot2' sq]; exact h v hv)
  have k1 := key ⟨1, 0⟩ (b.maxs.x - m.t.x) (fun v h => by have := (hv v h).1.2; simp only [Iso2.act, V2.add, V2.dot] at this ⊢; linarith)
  have k2 := key ⟨-1, 0⟩ (-(b.mins.x - m.t.x)) (fun v h => by have := (hv v h).1.1; simp only [Iso2.act, V2.add, V2.dot] at this ⊢; linarith)
  have k3 := key ⟨0, 1⟩ (b.maxs.y - m.t.y) (fun v h => by have := (hv v h).2.2; simp only [Iso2.act, V2.add, V2.dot] at this ⊢; linarith)
  have k4 := key ⟨0, -1⟩ (-(b.mins.y - m.t.y)) (fun v h => by have := (hv v h).2.1; simp only [Iso2.act, V2.add, V2.dot] at this ⊢; linarith)
  simp only [V2.dot] at k1 k2 k3 k4
  simp only [BMem2, Iso2.act, V2.add]
  refine ⟨⟨?_, ?_⟩, ?_, ?_⟩ <;> linarith

/-! ## `RoundShape`: `inner box .loosened(border_radius)` -/

/-- **RoundShape box, containment** (generic in the inner set `S` and its box `b`): if `b` contains `S` then
`b.loosened(br)` contains the Minkowski sum `S ⊕ B(br)`. -/
theorem round_aabb_contains (S : V3 K → Prop) (b : Aabb3 K) (br : K) (hbr : 0 ≤ br)
    (h : ∀ q, S q → BMem b q) (p : V3 K) :
    letI := fieldNum K sq
    roundMem3 S br p → BMem (b.loosened br) p := by
  rintro ⟨q, hq, hd⟩
  obtain ⟨⟨h1, h2⟩, ⟨h3, h4⟩, h5, h6⟩ := h q hq
  simp only [V3.normSq, V3.dot, V3.sub] at hd
  have sx := mul_self_nonneg (p.x - q.x); have sy := mul_self_nonneg (p.y - q.y); have sz := mul_self_nonneg (p.z - q.z)
  have ax : |p.x - q.x| ≤ br := abs_le_of_sq_le_sq' (by nlinarith) hbr |> abs_le.2
  have ay : |p.y - q.y| ≤ br := abs_le_of_sq_le_sq' (by nlinarith) hbr |> abs_le.2
  have az : |p.z - q.z| ≤ br := abs_le_of_sq_le_sq' (by nlinarith) hbr |> abs_le.2
  rw [abs_le] at ax ay az
  simp only [Aabb3.loosened, V3.add, BMem]
  refine ⟨⟨?_, ?_⟩, ⟨?_, ?_⟩, ?_, ?_⟩ <;> linarith [ax.1, ax.2, ay.1, ay.2, az.1, az.2]

/-- **RoundShape box, tightness**: if every face of `b` carries a point of `S` then every face of `b.loosened(br)`
carries a point of `S ⊕ B(br)` (that point pushed out by `br` along the axis). -/
theorem round_aabb_tight (S : V3 K → Prop) (b : Aabb3 K) (br : K) (hbr : 0 ≤ br) :
    letI := fieldNum K sq
    ((∃ q, S q ∧ q.x = b.maxs.x) → ∃ p, roundMem3 S br p ∧ p.x = (b.loosened br).maxs.x) ∧
    ((∃ q, S q ∧ q.x = b.mins.x) → ∃ p, roundMem3 S br p ∧ p.x = (b.loosened br).mins.x) ∧
    ((∃ q, S q ∧ q.y = b.maxs.y) → ∃ p, roundMem3 S br p ∧ p.y = (b.loosened br).maxs.y) ∧
    ((∃ q, S q ∧ q.y = b.mins.y) → ∃ p, roundMem3 S br p ∧ p.y = (b.loosened br).mins.y) ∧
    ((∃ q, S q ∧ q.z = b.maxs.z) → ∃ p, roundMem3 S br p ∧ p.z = (b.loosened br).maxs.z) ∧
    ((∃ q, S q ∧ q.z = b.mins.z) → ∃ p, roundMem3 S br p ∧ p.z = (b.loosened br).mins.z) := by
  refine ⟨?_, ?_, ?_, ?_, ?_, ?_⟩
  · rintro ⟨q, hq, e⟩
    refine ⟨⟨q.x + br, q.y, q.z⟩, ⟨q, hq, ?_⟩, ?_⟩
    · simp only [V3.normSq, V3.dot, V3.sub]; nlinarith
    · simp only [Aabb3.loosened, V3.add]; rw [e]
  · rintro ⟨q, hq, e⟩
    refine ⟨⟨q.x + -br, q.y, q.z⟩, ⟨q, hq, ?_⟩, ?_⟩
    · simp only [V3.normSq, V3.dot, V3.sub]; nlinarith
    · simp only [Aabb3.loosened, V3.add]; rw [e]
  · rintro ⟨q, hq, e⟩
    refine ⟨⟨q.x, q.y + br, q.z⟩, ⟨q, hq, ?_⟩, ?_⟩
    · simp only [V3.normSq, V3.dot, V3.sub]; nlinarith
    · simp only [Aabb3.loosened, V3.add]; rw [e]
  · rintro ⟨q, hq, e⟩
    refine ⟨⟨q.x, q.y + -br, q.z⟩, ⟨q, hq, ?_⟩, ?_⟩
    · simp only [V3.normSq, V3.dot, V3.sub]; nlinarith
    · simp only [Aabb3.loosened, V3.add]; rw [e]
  · rintro ⟨q, hq, e⟩
    refine ⟨⟨q.x, q.y, q.z + br⟩, ⟨q, hq, ?_⟩, ?_⟩
    · simp only [V3.normSq, V3.dot, V3.sub]; nlinarith
    · simp only [Aabb3.loosened, V3.add]; rw [e]
  · rintro ⟨q, hq, e⟩
    refine ⟨⟨q.x, q.y, q.z + -br⟩, ⟨q, hq, ?_⟩, ?_⟩
    · simp only [V3.normSq, V3.dot, V3.sub]; nlinarith
    · simp only [Aabb3.loosened, V3.add]; rw [e]

/-- **RoundShape box, posed** (`compute_aabb(pos) = inner.aabb(pos).loosened(br)`): for a unit-quaternion pose, if
the inner box contains the posed inner shape then the loosened box contains the posed rounded shape
`pos • (S ⊕ B(br))` (an isometry maps the Minkowski sum with a ball onto the Minkowski sum of the image). -/
theorem round_posed_aabb_contains (S : V3 K → Prop) (b : Aabb3 K) (br : K) (hbr : 0 ≤ br) (m : Iso3 K)
    (hq : m.qi * m.qi + m.qj * m.qj + m.qk * m.qk + m.qw * m.qw = 1) :
    letI := fieldNum K sq
    (∀ q, S q → BMem b (m.act q)) → ∀ p, roundMem3 S br p → BMem (b.loosened br) (m.act p) := by
  intro h p ⟨q, hS, hd⟩
  refine round_aabb_contains sq (fun x => ∃ q, S q ∧ x = @Iso3.act K (fieldNum K sq) m q) b br hbr ?_ _ ⟨_, ⟨q, hS, rfl⟩, ?_⟩
  · rintro x ⟨q', hq', rfl⟩; exact h q' hq'
  · rw [IsoLemmas.act_dist sq m p q hq]; exact hd

/-- **RoundShape box, 2-D** (`RoundCuboid`, `RoundTriangle`, `RoundConvexPolygon` in `parry2d`): containment and
tightness of `inner box .loosened(br)` for the Minkowski sum with a disc. -/
theorem round_aabb2_contains_tight (S : V2 K → Prop) (b : Aabb2 K) (br : K) (hbr : 0 ≤ br) :
    letI := fieldNum K sq
    ((∀ q, S q → BMem2 b q) → ∀ p, roundMem2 S br p → BMem2 (b.loosened br) p) ∧
    ((∃ q, S q ∧ q.x = b.maxs.x) → ∃ p, roundMem2 S br p ∧ p.x = (b.loosened br).maxs.x) ∧
    ((∃ q, S q ∧ q.x = b.mins.x) → ∃ p, roundMem2 S br p ∧ p.x = (b.loosened br).mins.x) ∧
    ((∃ q, S q ∧ q.y = b.maxs.y) → ∃ p, roundMem2 S br p ∧ p.y = (b.loosened br).maxs.y) ∧
    ((∃ q, S q ∧ q.y = b.mins.y) → ∃ p, roundMem2 S br p ∧ p.y = (b.loosened br).mins.y) := by
  refine ⟨?_, ?_, ?_, ?_, ?_⟩
  · rintro h p ⟨q, hq, hd⟩
    obtain ⟨⟨h1, h2⟩, h3, h4⟩ := h q hq
    simp only [V2.normSq, V2.dot, V2.sub] at hd
    have sx := mul_self_nonneg (p.x - q.x); have sy := mul_self_nonneg (p.y - q.y)
    have ax : |p.x - q.x| ≤ br := abs_le_of_sq_le_sq' (by nlinarith) hbr |> abs_le.2
    have ay : |p.y - q.y| ≤ br := abs_le_of_sq_le_sq' (by nlinarith) hbr |> abs_le.2
    rw [abs_le] at ax ay
    simp only [Aabb2.loosened, V2.add, BMem2]
    refine ⟨⟨?_, ?_⟩, ?_, ?_⟩ <;> linarith [ax.1, ax.2, ay.1, ay.2]
  · rintro ⟨q, hq, e⟩
    refine ⟨⟨q.x + br, q.y⟩, ⟨q, hq, ?_⟩, ?_⟩
    · simp only [V2.normSq, V2.dot, V2.sub]; nlinarith
    · simp only [Aabb2.loosened, V2.add]; rw [e]
  · rintro ⟨q, hq, e⟩
    refine ⟨⟨q.x + -br, q.y⟩, ⟨q, hq, ?_⟩, ?_⟩
    · simp only [V2.normSq, V2.dot, V2.sub]; nlinarith
    · simp only [Aabb2.loosened, V2.add]; rw [e]
  · rintro ⟨q, hq, e⟩
    refine ⟨⟨q.x, q.y + br⟩, ⟨q, hq, ?_⟩, ?_⟩
    · simp only [V2.normSq, V2.dot, V2.sub]; nlinarith
    · simp only [Aabb2.loosened, V2.add]; rw [e]
  · rintro ⟨q, hq, e⟩
    refine ⟨⟨q.x, q.y + -br⟩, ⟨q, hq, ?_⟩, ?_⟩
    · simp only [V2.normSq, V2.dot, V2.sub]; nlinarith
    · simp only [Aabb2.loosened, V2.add]; rw [e]

/-- **RoundCone / RoundCylinder / …, the real code path** (`compute_aabb(pos) = inner.aabb(pos).loosened(br)`), instance
for the cone: the loosened support-map box contains every point of the posed rounded cone. -/
theorem round_cone_aabb_contains (hs : LawfulSqrt sq) (hh r br : K) (m : Iso3 K) (hh0 : 0 < hh) (hr : 0 ≤ r) (hbr : 0 ≤ br)
    (hq : m.qi * m.qi + m.qj * m.qj + m.qk * m.qk + m.qw * m.qw = 1) :
    letI := fieldNum K sq
    ∀ p, roundMem3 (Cone.mk hh r).Mem br p → BMem ((coneAabb hh r m).loosened br) (m.act p) :=
  round_posed_aabb_contains sq _ _ br hbr m hq (fun q hq' => cone_aabb_contains sq hs hh r m hh0 hr q hq')

/-! ## triangles -/

private theorem conv3 (a b c u v lo hi : K) (hu : 0 ≤ u) (hv : 0 ≤ v) (huv : u + v ≤ 1)
    (ha : lo ≤ a ∧ a ≤ hi) (hb : lo ≤ b ∧ b ≤ hi) (hc : lo ≤ c ∧ c ≤ hi) :
    lo ≤ a + (b - a) * u + (c - a) * v ∧ a + (b - a) * u + (c - a) * v ≤ hi := by
  have hw : 0 ≤ 1 - u - v := by linarith
  constructor
  · nlinarith [mul_nonneg hu (sub_nonneg.2 hb.1), mul_nonneg hv (sub_nonneg.2 hc.1), mul_nonneg hw (sub_nonneg.2 ha.1)]
  · nlinarith [mul_nonneg hu (sub_nonneg.2 hb.2), mul_nonneg hv (sub_nonneg.2 hc.2), mul_nonneg hw (sub_nonneg.2 ha.2)]

/-- **Triangle, local**: `Triangle::local_aabb` contains every point of the triangle. -/
theorem triangle_local_aabb_contains (a b c p : V3 K) :
    letI := fieldNum K sq
    (Triangle3.mk a b c).Mem p → BMem (triangleLocalAabb a b c) p := by
  rintro ⟨u, v, hu, hv, huv, rfl⟩
  simp only [triangleLocalAabb, BMem, V3.add, V3.sub, V3.smul, fieldNum_nmin, fieldNum_nmax]
  refine ⟨conv3 _ _ _ u v _ _ hu hv huv ?_ ?_ ?_, conv3 _ _ _ u v _ _ hu hv huv ?_ ?_ ?_, conv3 _ _ _ u v _ _ hu hv huv ?_ ?_ ?_⟩ <;>
    simp only [min_le_iff, le_max_iff, le_refl, true_or, or_true, and_self]

/-- **Triangle, posed**: `Triangle::aabb(pos)` (= local box of the transformed triangle) contains the image of every
point of the triangle, for every pose. -/
theorem triangle_aabb_contains (a b c p : V3 K) (m : Iso3 K) :
    letI := fieldNum K sq
    (Triangle3.mk a b c).Mem p → BMem (triangleAabb a b c m) (m.act p) := by
  rintro ⟨u, v, hu, hv, huv, rfl⟩
  show BMem (@triangleLocalAabb K (fieldNum K sq) (@Iso3.act K (fieldNum K sq) m a) (@Iso3.act K (fieldNum K sq) m b)
    (@Iso3.act K (fieldNum K sq) m c)) _
  refine triangle_local_aabb_contains sq _ _ _ _ ⟨u, v, hu, hv, huv, ?_⟩
  simp only [Iso3.act, Iso3.rot, Iso3.rotQ, Iso3.qv, V3.add, V3.sub, V3.smul, V3.cross, fieldNum_two]
  congr 1 <;> ring

/-! ## swept boxes -/

/-- **C09 (swept box)**: `compute_swept_aabb(start, end) = compute_aabb(start).merged(compute_aabb(end))`.  If the two
boxes contain the shape at the two poses (sets `S1`, `S2`), the swept box contains the shape at both poses and, boxes
being convex, every point of every straight segment from a point of `S1` to a point of `S2` (the linear sweep). -/
theorem swept_aabb_contains (s : BShape3 K) (hm : K) (m1 m2 : Iso3 K) (S1 S2 : V3 K → Prop) (b1 b2 : Aabb3 K) :
    letI := fieldNum K sq
    s.aabb hm m1 = some b1 → s.aabb hm m2 = some b2 → (∀ p, S1 p → BMem b1 p) → (∀ p, S2 p → BMem b2 p) →
    ∃ b, s.swept hm m1 m2 = some b ∧ (∀ p, S1 p ∨ S2 p → BMem b p) ∧
      (∀ p1 p2 t, S1 p1 → S2 p2 → 0 ≤ t → t ≤ 1 → BMem b (p1.add ((p2.sub p1).smul t))) := by
  intro e1 e2 c1 c2
  refine ⟨@Aabb3.merged K (fieldNum K sq) b1 b2, by simp only [BShape3.swept, e1, e2], ?_, ?_⟩
  · rintro p (h | h)
    · obtain ⟨⟨h1, h2⟩, ⟨h3, h4⟩, h5, h6⟩ := c1 p h
      simp only [Aabb3.merged, V3.inf, V3.sup, BMem, fieldNum_nmin, fieldNum_nmax, min_le_iff, le_max_iff]; tauto
    · obtain ⟨⟨h1, h2⟩, ⟨h3, h4⟩, h5, h6⟩ := c2 p h
      simp only [Aabb3.merged, V3.inf, V3.sup, BMem, fieldNum_nmin, fieldNum_nmax, min_le_iff, le_max_iff]; tauto
  · intro p1 p2 t h1 h2 t0 t1
    obtain ⟨⟨a1, a2⟩, ⟨a3, a4⟩, a5, a6⟩ := c1 p1 h1
    obtain ⟨⟨d1, d2⟩, ⟨d3, d4⟩, d5, d6⟩ := c2 p2 h2
    have s0 : 0 ≤ 1 - t := by linarith
    simp only [Aabb3.merged, V3.inf, V3.sup, BMem, V3.add, V3.sub, V3.smul, fieldNum_nmin, fieldNum_nmax]
    have lo : ∀ (x y l1 l2 : K), l1 ≤ x → l2 ≤ y → min l1 l2 ≤ x + (y - x) * t := by
      intro x y l1 l2 hx hy
      have := min_le_left l1 l2; have := min_le_right l1 l2
      nlinarith [mul_nonneg t0 (sub_nonneg.2 (le_trans ‹min l1 l2 ≤ l2› hy)), mul_nonneg s0 (sub_nonneg.2 (le_trans ‹min l1 l2 ≤ l1› hx))]
    have hi : ∀ (x y u1 u2 : K), x ≤ u1 → y ≤ u2 → x + (y - x) * t ≤ max u1 u2 := by
      intro x y u1 u2 hx hy
      have := le_max_left u1 u2; have := le_max_right u1 u2
      nlinarith [mul_nonneg t0 (sub_nonneg.2 (le_trans hy ‹u2 ≤ max u1 u2›)), mul_nonneg s0 (sub_nonneg.2 (le_trans hx ‹u1 ≤ max u1 u2›))]
    exact ⟨⟨lo _ _ _ _ a1 d1, hi _ _ _ _ a2 d2⟩, ⟨lo _ _ _ _ a3 d3, hi _ _ _ _ a4 d4⟩, lo _ _ _ _ a5 d5, hi _ _ _ _ a6 d6⟩

/-! ## composites -/

private theorem merged_mono (a b : Aabb3 K) (p : V3 K) :
    letI := fieldNum K sq
    BMem a p ∨ BMem b p → BMem (a.merged b) p := by
  intro h
  simp only [Aabb3.merged, V3.inf, V3.sup, BMem, fieldNum_nmin, fieldNum_nmax, min_le_iff, le_max_iff]
  rcases h with ⟨⟨h1, h2⟩, ⟨h3, h4⟩, h5, h6⟩ | ⟨⟨h1, h2⟩, ⟨h3, h4⟩, h5, h6⟩ <;> tauto

private theorem foldl_merged_mono (ls : List (Aabb3 K)) :
    letI := fieldNum K sq
    ∀ (acc : Aabb3 K) (p : V3 K), BMem acc p → BMem (ls.foldl (fun a b => a.merged b) acc) p := by
  induction ls with
  | nil => intro acc p h; exact h
  | cons l ls ih => intro acc p h; exact ih _ _ (merged_mono sq acc l p (Or.inl h))

/-- **QBVH root box (dilation 0)**: the root box (lane-wise min / max of all leaf boxes, starting from the invalid
sentinel) contains every point of every leaf box — whatever the sentinel value. -/
theorem root_aabb_contains_leaves (rmax : K) (leaves : List (Aabb3 K)) :
    letI := fieldNum K sq
    ∀ l ∈ leaves, ∀ p, BMem l p → BMem (rootAabb3 rmax leaves) p := by
  unfold rootAabb3
  generalize @Aabb3.invalid K (fieldNum K sq) rmax = acc
  induction leaves generalizing acc with
  | nil => intro l h; cases h
  | cons x xs ih =>
    intro l h p hp
    rcases List.mem_cons.1 h with rfl | h
    · exact foldl_merged_mono sq xs _ _ (merged_mono sq acc l p (Or.inr hp))
    · exact ih _ l h p hp

private theorem mapM_some_mem {α β : Type} (f : α → Option β) :
    ∀ (l : List α) (r : List β), l.mapM f = some r → ∀ x ∈ l, ∃ y ∈ r, f x = some y := by
  intro l
  induction l with
  | nil => intro r _ x hx; cases hx
  | cons a as ih =>
    intro r h x hx
    rw [List.mapM_cons] at h
    cases hfa : f a with
    | none => simp [hfa] at h
    | some y =>
      cases hrest : as.mapM f with
      | none => simp [hfa, hrest] at h
      | some ys =>
        simp [hfa, hrest] at h
        subst h
        rcases List.mem_cons.1 hx with rfl | hx
        · exact ⟨y, List.mem_cons_self .., hfa⟩
        · obtain ⟨y', hy', e⟩ := ih ys hrest x hx
          exact ⟨y', List.mem_cons_of_mem _ hy', e⟩

/-- **TriMesh::local_aabb**: when the index buffer is in range (no panic), the root box contains every point of
every indexed triangle. -/
theorem trimesh_local_aabb_contains (rmax : K) (vs : List (V3 K)) (idx : List (Nat × Nat × Nat)) (box : Aabb3 K) :
    letI := fieldNum K sq
    trimeshLocalAabb3 rmax vs idx = some box →
    ∀ t ∈ idx, ∀ a b c, vs[t.1]? = some a → vs[t.2.1]? = some b → vs[t.2.2]? = some c →
      ∀ p, (Triangle3.mk a b c).Mem p → BMem box p := by
  intro h t ht a b c ha hb hc p hp
  simp only [trimeshLocalAabb3, Option.map_eq_some_iff] at h
  obtain ⟨leaves, hl, rfl⟩ := h
  obtain ⟨l, hlm, hl'⟩ := mapM_some_mem _ _ _ hl t ht
  simp only [ha, hb, hc, Option.bind_eq_bind, Option.bind_some, Option.pure_def, Option.some.injEq] at hl'
  subst hl'
  exact root_aabb_contains_leaves sq rmax leaves _ hlm p (triangle_local_aabb_contains sq a b c p hp)

/-- **Polyline::local_aabb**: the root box contains every point of every indexed segment. -/
theorem polyline_local_aabb_contains (rmax : K) (vs : List (V3 K)) (idx : List (Nat × Nat)) (box : Aabb3 K) :
    letI := fieldNum K sq
    polylineLocalAabb3 rmax vs idx = some box →
    ∀ t ∈ idx, ∀ a b, vs[t.1]? = some a → vs[t.2]? = some b → ∀ p, (Segment3.mk a b).Mem p → BMem box p := by
  intro h t ht a b ha hb p hp
  simp only [polylineLocalAabb3, Option.map_eq_some_iff] at h
  obtain ⟨leaves, hl, rfl⟩ := h
  obtain ⟨l, hlm, hl'⟩ := mapM_some_mem _ _ _ hl t ht
  simp only [ha, hb, Option.bind_eq_bind, Option.bind_some, Option.pure_def, Option.some.injEq] at hl'
  subst hl'
  exact root_aabb_contains_leaves sq rmax leaves _ hlm p ((segment_local_aabb3_contains_tight sq a b).1 p hp)

/-- **Compound::local_aabb**: the merged box contains every point of every part's `compute_aabb(delta)`. -/
theorem compound_local_aabb_contains (rmax hm : K) (parts : List (Iso3 K × BShape3 K)) (box : Aabb3 K) :
    letI := fieldNum K sq
    compoundLocalAabb3 rmax hm parts = some box →
    ∀ ms ∈ parts, ∃ l, ms.2.aabb hm ms.1 = some l ∧ ∀ p, BMem l p → BMem box p := by
  intro h ms hms
  simp only [compoundLocalAabb3, Option.map_eq_some_iff] at h
  obtain ⟨leaves, hl, rfl⟩ := h
  obtain ⟨l, hlm, hl'⟩ := mapM_some_mem _ _ _ hl ms hms
  exact ⟨l, hl', fun p hp => root_aabb_contains_leaves sq rmax leaves _ hlm p hp⟩

/-! ### HeightField -/
private theorem foldl_max_ge (hs : List K) : ∀ (acc : K), acc ≤ hs.foldl max acc ∧ ∀ h ∈ hs, h ≤ hs.foldl max acc := by
  induction hs with
  | nil => intro acc; exact ⟨le_refl _, fun h hh => by cases hh⟩
  | cons x xs ih =>
    intro acc
    obtain ⟨i1, i2⟩ := ih (max acc x)
    refine ⟨le_trans (le_max_left _ _) i1, ?_⟩
    intro h hh
    rcases List.mem_cons.1 hh with rfl | hh
    · exact le_trans (le_max_right _ _) i1
    · exact i2 h hh
private theorem foldl_min_le (hs : List K) : ∀ (acc : K), hs.foldl min acc ≤ acc ∧ ∀ h ∈ hs, hs.foldl min acc ≤ h := by
  induction hs with
  | nil => intro acc; exact ⟨le_refl _, fun h hh => by cases hh⟩
  | cons x xs ih =>
    intro acc
    obtain ⟨i1, i2⟩ := ih (min acc x)
    refine ⟨le_trans i1 (min_le_left _ _), ?_⟩
    intro h hh
    rcases List.mem_cons.1 hh with rfl | hh
    · exact le_trans i1 (min_le_right _ _)
    · exact i2 h hh

private theorem listMax_ge (h0 : K) (hs : List K) : letI := fieldNum K sq; ∀ h ∈ h0 :: hs, h ≤ listMax h0 hs := by
  intro h hh
  have e : @listMax K (fieldNum K sq) h0 hs = hs.foldl max h0 := by
    unfold listMax; congr 1; funext a b; exact fieldNum_nmax sq a b
  rw [e]
  rcases List.mem_cons.1 hh with rfl | hh
  · exact (foldl_max_ge hs _).1
  · exact (foldl_max_ge hs _).2 h hh
private theorem listMin_le (h0 : K) (hs : List K) : letI := fieldNum K sq; ∀ h ∈ h0 :: hs, listMin h0 hs ≤ h := by
  intro h hh
  have e : @listMin K (fieldNum K sq) h0 hs = hs.foldl min h0 := by
    unfold listMin; congr 1; funext a b; exact fieldNum_nmin sq a b
  rw [e]
  rcases List.mem_cons.1 hh with rfl | hh
  · exact (foldl_min_le hs _).1
  · exact (foldl_min_le hs _).2 h hh

private theorem scaled_between (lo hi s x : K) (h1 : lo ≤ x) (h2 : x ≤ hi) :
    min (lo * s) (hi * s) ≤ x * s ∧ x * s ≤ max (lo * s) (hi * s) := by
  rcases le_total 0 s with hs | hs
  · exact ⟨(min_le_left _ _).trans (mul_le_mul_of_nonneg_right h1 hs),
           le_trans (mul_le_mul_of_nonneg_right h2 hs) (le_max_right _ _)⟩
  · exact ⟨(min_le_right _ _).trans (mul_le_mul_of_nonpos_right h2 hs),
           le_trans (mul_le_mul_of_nonpos_right h1 hs) (le_max_left _ _)⟩

/-- **HeightField box (as corrected, `fixes/C09-heightfield-negative-scale.diff`)**: for **every** scale vector (any
signs), every grid vertex `((u)·s.x, h·s.y, (w)·s.z)` with `u, w ∈ [-1/2, 1/2]` and `h` one of the heights lies in
the box; hence (boxes are convex) so does every triangle of the heightfield. -/
theorem heightfield_aabb_contains (h0 : K) (hs : List K) (s : V3 K) (u w h : K)
    (hu : -(1/2) ≤ u ∧ u ≤ 1/2) (hw : -(1/2) ≤ w ∧ w ≤ 1/2) (hh : h ∈ h0 :: hs) :
    letI := fieldNum K sq
    BMem (heightfieldAabb3 h0 hs s) ⟨u * s.x, h * s.y, w * s.z⟩ := by
  have hl : ((mkRat 1 2 : Rat) : K) = 1/2 := by norm_num
  have hmax := listMax_ge sq h0 hs h hh
  have hmin := listMin_le sq h0 hs h hh
  have bx := scaled_between (-(1/2)) (1/2) s.x u hu.1 hu.2
  have bz := scaled_between (-(1/2)) (1/2) s.z w hw.1 hw.2
  have by' := scaled_between _ _ s.y h hmin hmax
  simp only [heightfieldAabb3, BMem, V3.inf, V3.sup, V3.smul, fieldNum_nmin, fieldNum_nmax, fieldNum_lit, hl]
  have e1 : -(s.x * (1/2)) = -(1/2) * s.x := by ring
  have e2 : s.x * (1/2) = 1/2 * s.x := by ring
  have e3 : -(s.z * (1/2)) = -(1/2) * s.z := by ring
  have e4 : s.z * (1/2) = 1/2 * s.z := by ring
  rw [e1, e2, e3, e4]
  exact ⟨bx, by', bz⟩

example : (-(1/2) : ℚ) ≤ 1/4 ∧ (1/4 : ℚ) ≤ 1/2 ∧ (3 : ℚ) ∈ [1, 3, 2] := by
  refine ⟨by norm_num, by norm_num, by simp⟩

end C09
