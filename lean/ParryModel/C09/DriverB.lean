import ParryModel.C09.DriverA
import ParryModel.C09.Model3
/-!
# C09 protocol handlers, part B: boxes / spheres of every shape kind (`sh3_*`, `sh2_*`), composite boxes
(`co3_*`, `co2_*`), swept boxes.

Oracles are exact-`Rat` and independent of the model functions: the *support value*
`H(d) = max { d·p | p ∈ posed shape }` of every convex kind is computed from its closed form (a rational
square root with error < 2⁻⁶⁰ where a norm is needed); a box contains the shape iff `maxs_i ≥ H(e_i)` and
`mins_i ≤ -H(-e_i)`, and touches it iff these are equalities.  Explicit sample points of the shape (vertices,
rim points at Pythagorean angles, ball points along rational unit vectors) are checked as well.
-/
namespace C09
open Model Proto

/-! ## constants -/
/-- `f64::MAX` -/
def rmaxF : Float := Float.ofBits 0x7FEFFFFFFFFFFFFF
/-- `f64::MAX * 0.5` -/
def hmF : Float := Float.ofBits 0x7FDFFFFFFFFFFFFF

/-- rational square root, absolute error below `2⁻⁶⁰` -/
def rsqrt (x : Rat) : Rat :=
  if x ≤ 0 then 0 else
    let s : Nat := 2 ^ 120
    let n := (x * (s : Rat)).floor.toNat
    (Nat.sqrt n : Rat) / ((2 ^ 60 : Nat) : Rat)

def rmax2 (a b : Rat) : Rat := if a < b then b else a
def rmin2 (a b : Rat) : Rat := if b < a then b else a
def listMaxR (l : List Rat) : Rat := match l with | [] => 0 | x :: xs => xs.foldl rmax2 x
def listMinR (l : List Rat) : Rat := match l with | [] => 0 | x :: xs => xs.foldl rmin2 x

/-! ## parsing shapes -/
def pshape3base : P (BShape3 Float) := do
  let k ← tok
  match k with
  | "ball" => do let r ← pf; pure (.ball r)
  | "cuboid" => do let he ← pv3; pure (.cuboid he)
  | "capsule" => do let a ← pv3; let b ← pv3; let r ← pf; pure (.capsule a b r)
  | "segment" => do let a ← pv3; let b ← pv3; pure (.segment a b)
  | "triangle" => do let a ← pv3; let b ← pv3; let c ← pv3; pure (.triangle a b c)
  | "cone" => do let hh ← pf; let r ← pf; pure (.cone hh r)
  | "cyl" => do let hh ← pf; let r ← pf; pure (.cylinder hh r)
  | "poly" => do let ps ← plist pv3; pure (.poly ps)
  | "halfspace" => do let n ← pv3; pure (.halfspace n)
  | _ => failure
def pshape3 : P (BShape3 Float) := fun s =>
  match s with
  | "round" :: rest => (do let i ← pshape3base; let br ← pf; pure (BShape3.round i br)) rest
  | _ => pshape3base s
def pshape2base : P (BShape2 Float) := do
  let k ← tok
  match k with
  | "ball" => do let r ← pf; pure (.ball r)
  | "cuboid" => do let he ← pv2; pure (.cuboid he)
  | "capsule" => do let a ← pv2; let b ← pv2; let r ← pf; pure (.capsule a b r)
  | "segment" => do let a ← pv2; let b ← pv2; pure (.segment a b)
  | "triangle" => do let a ← pv2; let b ← pv2; let c ← pv2; pure (.triangle a b c)
  | "poly" => do let ps ← plist pv2; pure (.poly ps)
  | "halfspace" => do let n ← pv2; pure (.halfspace n)
  | _ => failure
def pshape2 : P (BShape2 Float) := fun s =>
  match s with
  | "round" :: rest => (do let i ← pshape2base; let br ← pf; pure (BShape2.round i br)) rest
  | _ => pshape2base s

/-- the real `ConvexPolyhedron` / `ConvexPolygon` holds the hull of the input cloud, in its own order: the harness
reports those points (`<n> <pts> ;;` prefix of the output = trailing arguments here) and they replace the input cloud -/
def observed3 (s : BShape3 Float) : P (BShape3 Float) :=
  match s with
  | .poly _ => do let ps ← plist pv3; pure (.poly ps)
  | .round (.poly _) br => do let ps ← plist pv3; pure (.round (.poly ps) br)
  | s => pure s
def observed2 (s : BShape2 Float) : P (BShape2 Float) :=
  match s with
  | .poly _ => do let ps ← plist pv2; pure (.poly ps)
  | .round (.poly _) br => do let ps ← plist pv2; pure (.round (.poly ps) br)
  | s => pure s

def qshape3 : BShape3 Float → BShape3 Rat
  | .ball r => .ball (q r)
  | .cuboid he => .cuboid (q3 he)
  | .capsule a b r => .capsule (q3 a) (q3 b) (q r)
  | .segment a b => .segment (q3 a) (q3 b)
  | .triangle a b c => .triangle (q3 a) (q3 b) (q3 c)
  | .cone hh r => .cone (q hh) (q r)
  | .cylinder hh r => .cylinder (q hh) (q r)
  | .poly ps => .poly (ps.map q3)
  | .halfspace n => .halfspace (q3 n)
  | .round i br => .round (qshape3 i) (q br)
def qshape2 : BShape2 Float → BShape2 Rat
  | .ball r => .ball (q r)
  | .cuboid he => .cuboid (q2 he)
  | .capsule a b r => .capsule (q2 a) (q2 b) (q r)
  | .segment a b => .segment (q2 a) (q2 b)
  | .triangle a b c => .triangle (q2 a) (q2 b) (q2 c)
  | .poly ps => .poly (ps.map q2)
  | .halfspace n => .halfspace (q2 n)
  | .round i br => .round (qshape2 i) (q br)

def isHalfspace3 : BShape3 Float → Bool | .halfspace _ => true | _ => false
def isHalfspace2 : BShape2 Float → Bool | .halfspace _ => true | _ => false
def emptyPoly3 : BShape3 Float → Bool | .poly [] => true | .round (.poly []) _ => true | _ => false
def emptyPoly2 : BShape2 Float → Bool | .poly [] => true | .round (.poly []) _ => true | _ => false

/-! ## exact support values and sample points (the specification side of the oracles) -/

/-- rational unit vectors -/
def dirs3 : List (V3 Rat) :=
  let base : List (V3 Rat) := [⟨1,0,0⟩, ⟨0,1,0⟩, ⟨0,0,1⟩, ⟨1/3,2/3,2/3⟩, ⟨2/3,-1/3,2/3⟩, ⟨2/3,2/3,-1/3⟩, ⟨2/7,3/7,6/7⟩, ⟨-6/7,2/7,3/7⟩, ⟨3/5,0,4/5⟩, ⟨0,-4/5,3/5⟩]
  base ++ base.map V3.neg
def dirs2 : List (V2 Rat) :=
  let base : List (V2 Rat) := [⟨1,0⟩, ⟨0,1⟩, ⟨3/5,4/5⟩, ⟨4/5,-3/5⟩, ⟨5/13,12/13⟩, ⟨-12/13,5/13⟩, ⟨7/25,24/25⟩, ⟨24/25,-7/25⟩]
  base ++ base.map V2.neg

/-- `max { d·p | p ∈ s }` (local frame); the half-space is unbounded and handled separately -/
def hval3 : BShape3 Rat → V3 Rat → Rat
  | .ball r, d => r * rsqrt d.normSq
  | .cuboid he, d => he.x * rabs d.x + he.y * rabs d.y + he.z * rabs d.z
  | .capsule a b r, d => rmax2 (a.dot d) (b.dot d) + r * rsqrt d.normSq
  | .segment a b, d => rmax2 (a.dot d) (b.dot d)
  | .triangle a b c, d => rmax2 (rmax2 (a.dot d) (b.dot d)) (c.dot d)
  | .cone hh r, d => rmax2 (hh * d.y) (-hh * d.y + r * rsqrt (d.x * d.x + d.z * d.z))
  | .cylinder hh r, d => hh * rabs d.y + r * rsqrt (d.x * d.x + d.z * d.z)
  | .poly ps, d => listMaxR (ps.map (·.dot d))
  | .halfspace _, _ => 0
  | .round i br, d => hval3 i d + br * rsqrt d.normSq
def hval2 : BShape2 Rat → V2 Rat → Rat
  | .ball r, d => r * rsqrt d.normSq
  | .cuboid he, d => he.x * rabs d.x + he.y * rabs d.y
  | .capsule a b r, d => rmax2 (a.dot d) (b.dot d) + r * rsqrt d.normSq
  | .segment a b, d => rmax2 (a.dot d) (b.dot d)
  | .triangle a b c, d => rmax2 (rmax2 (a.dot d) (b.dot d)) (c.dot d)
  | .poly ps, d => listMaxR (ps.map (·.dot d))
  | .halfspace _, _ => 0
  | .round i br, d => hval2 i d + br * rsqrt d.normSq

def nrm1_3 (v : V3 Rat) : Rat := rmax2 (rabs v.x) (rmax2 (rabs v.y) (rabs v.z))
def nrm1_2 (v : V2 Rat) : Rat := rmax2 (rabs v.x) (rabs v.y)
/-- a bound on the distance of the shape's points from the local origin (the scale of the tolerance) -/
def size3 : BShape3 Rat → Rat
  | .ball r => r
  | .cuboid he => he.x + he.y + he.z
  | .capsule a b r => rmax2 (nrm1_3 a) (nrm1_3 b) * 2 + r
  | .segment a b => rmax2 (nrm1_3 a) (nrm1_3 b) * 2
  | .triangle a b c => rmax2 (rmax2 (nrm1_3 a) (nrm1_3 b)) (nrm1_3 c) * 2
  | .cone hh r => hh + r
  | .cylinder hh r => hh + r
  | .poly ps => listMaxR (ps.map nrm1_3) * 2
  | .halfspace _ => 1
  | .round i br => size3 i + br
def size2 : BShape2 Rat → Rat
  | .ball r => r
  | .cuboid he => he.x + he.y
  | .capsule a b r => rmax2 (nrm1_2 a) (nrm1_2 b) * 2 + r
  | .segment a b => rmax2 (nrm1_2 a) (nrm1_2 b) * 2
  | .triangle a b c => rmax2 (rmax2 (nrm1_2 a) (nrm1_2 b)) (nrm1_2 c) * 2
  | .poly ps => listMaxR (ps.map nrm1_2) * 2
  | .halfspace _ => 1
  | .round i br => size2 i + br

/-- points that belong to the shape by definition (local frame) -/
def samples3 : BShape3 Rat → List (V3 Rat)
  | .ball r => dirs3.map (·.smul r)
  | .cuboid he => corners3 ⟨he.neg, he⟩
  | .capsule a b r => [a, b, V3.center a b] ++ dirs3.flatMap fun u => [a.add (u.smul r), b.add (u.smul r)]
  | .segment a b => [a, b, V3.center a b]
  | .triangle a b c => [a, b, c, V3.center a b, ((a.add b).add c).smul (1/3)]
  | .cone hh r => ⟨0, hh, 0⟩ :: ⟨0, -hh, 0⟩ :: ⟨0, 0, 0⟩ :: dirs2.map fun u => ⟨u.x * r, -hh, u.y * r⟩
  | .cylinder hh r => ⟨0, hh, 0⟩ :: ⟨0, -hh, 0⟩ :: dirs2.flatMap fun u => [⟨u.x * r, -hh, u.y * r⟩, ⟨u.x * r, hh, u.y * r⟩]
  | .poly ps => ps
  | .halfspace _ => []
  | .round i br => (samples3 i).flatMap fun p => p :: (dirs3.take 4 ++ (dirs3.drop 10).take 4).map fun u => p.add (u.smul br)
def samples2 : BShape2 Rat → List (V2 Rat)
  | .ball r => dirs2.map (·.smul r)
  | .cuboid he => corners2 ⟨he.neg, he⟩
  | .capsule a b r => [a, b, V2.center a b] ++ dirs2.flatMap fun u => [a.add (u.smul r), b.add (u.smul r)]
  | .segment a b => [a, b, V2.center a b]
  | .triangle a b c => [a, b, c, V2.center a b, ((a.add b).add c).smul (1/3)]
  | .poly ps => ps
  | .halfspace _ => []
  | .round i br => (samples2 i).flatMap fun p => p :: dirs2.map fun u => p.add (u.smul br)

def e3 (i : Nat) (s : Rat) : V3 Rat := (V3.zero : V3 Rat).set i s
def e2 (i : Nat) (s : Rat) : V2 Rat := (V2.zero : V2 Rat).set i s

/-- support value of the posed shape `{m•p}` along `d`: `t·d + H_s(Rᵀd)` (a polynomial identity of the quaternion
sandwich, no unit-norm assumption) -/
def hposed3 (s : BShape3 Rat) (m : Iso3 Rat) (d : V3 Rat) : Rat := m.t.dot d + hval3 s (m.invRot d)
def hposed2 (s : BShape2 Rat) (m : Iso2 Rat) (d : V2 Rat) : Rat := m.t.dot d + hval2 s (m.invRot d)

def showR (x : Rat) : String := toString (Float.ofInt x.num / Float.ofNat x.den)

/-- containment (always) and tightness (when `tight`) of a 3-D box against a list of posed convex shapes (the union):
for each axis and sign compare the box face with the exact extreme value. -/
def boxVsParts3 (parts : List (BShape3 Rat × Iso3 Rat)) (b : Aabb3 Float) (tight : Bool) : String :=
  if !validBox3 b then "fail nonfinite-output" else
  if parts.isEmpty then "skip no-parts" else
  let B := qaabb3 b
  let scale : Rat := listMaxR (parts.map fun (s, m) => size3 s + nrm1_3 m.t)
  let tol : Rat := scale / 1000000000 + 1 / 1000000000000
  let bad := (List.range 3).filterMap fun i =>
    let hi := listMaxR (parts.map fun (s, m) => hposed3 s m (e3 i 1))
    let lo := - listMaxR (parts.map fun (s, m) => hposed3 s m (e3 i (-1)))
    if B.maxs.get i < hi - tol then some s!"fail shape-sticks-out axis=+{i} by={showR (hi - B.maxs.get i)}"
    else if lo + tol < B.mins.get i then some s!"fail shape-sticks-out axis=-{i} by={showR (B.mins.get i - lo)}"
    else if tight && hi + tol < B.maxs.get i then some s!"fail box-not-tight axis=+{i} excess={showR (B.maxs.get i - hi)}"
    else if tight && B.mins.get i < lo - tol then some s!"fail box-not-tight axis=-{i} excess={showR (lo - B.mins.get i)}"
    else none
  match bad with
  | e :: _ => e
  | [] =>
    let pts := parts.flatMap fun (s, m) => (samples3 s).map m.act
    match pts.filter (fun p => !((List.range 3).all fun i => B.mins.get i ≤ p.get i + tol && p.get i ≤ B.maxs.get i + tol)) with
    | [] => "pass"
    | p :: _ => s!"fail sample-point-outside ({showR p.x},{showR p.y},{showR p.z})"

def validBox2 (b : Aabb2 Float) : Bool :=
  FloatIO.isFinite b.mins.x && FloatIO.isFinite b.mins.y && FloatIO.isFinite b.maxs.x && FloatIO.isFinite b.maxs.y
def boxVsParts2 (parts : List (BShape2 Rat × Iso2 Rat)) (b : Aabb2 Float) (tight : Bool) : String :=
  if !validBox2 b then "fail nonfinite-output" else
  if parts.isEmpty then "skip no-parts" else
  let B := qaabb2 b
  let scale : Rat := listMaxR (parts.map fun (s, m) => size2 s + nrm1_2 m.t)
  let tol : Rat := scale / 1000000000 + 1 / 1000000000000
  let bad := (List.range 2).filterMap fun i =>
    let hi := listMaxR (parts.map fun (s, m) => hposed2 s m (e2 i 1))
    let lo := - listMaxR (parts.map fun (s, m) => hposed2 s m (e2 i (-1)))
    if B.maxs.get i < hi - tol then some s!"fail shape-sticks-out axis=+{i} by={showR (hi - B.maxs.get i)}"
    else if lo + tol < B.mins.get i then some s!"fail shape-sticks-out axis=-{i} by={showR (B.mins.get i - lo)}"
    else if tight && hi + tol < B.maxs.get i then some s!"fail box-not-tight axis=+{i} excess={showR (B.maxs.get i - hi)}"
    else if tight && B.mins.get i < lo - tol then some s!"fail box-not-tight axis=-{i} excess={showR (lo - B.mins.get i)}"
    else none
  match bad with
  | e :: _ => e
  | [] =>
    let pts := parts.flatMap fun (s, m) => (samples2 s).map m.act
    match pts.filter (fun p => !((List.range 2).all fun i => B.mins.get i ≤ p.get i + tol && p.get i ≤ B.maxs.get i + tol)) with
    | [] => "pass"
    | p :: _ => s!"fail sample-point-outside ({showR p.x},{showR p.y})"

/-- the half-space is unbounded: its box must be the whole usable range `±MAX/2` -/
def halfspaceBox3 (b : Aabb3 Float) : String :=
  let ok := (List.range 3).all fun i => b.mins.get i ≤ -hmF && hmF ≤ b.maxs.get i
  if ok then "pass" else "fail halfspace-box-not-the-whole-space"
def halfspaceBox2 (b : Aabb2 Float) : String :=
  let ok := (List.range 2).all fun i => b.mins.get i ≤ -hmF && hmF ≤ b.maxs.get i
  if ok then "pass" else "fail halfspace-box-not-the-whole-space"

/-- every sample point of the posed parts lies in the sphere (squared comparison) -/
def sphereVsParts3 (parts : List (BShape3 Rat × Iso3 Rat)) (s : Sphere3 Float) : String :=
  ptsInSphere s (parts.flatMap fun (sh, m) => (samples3 sh).map m.act)
structure Sphere2F where
  c : V2 Float
  r : Float
def sphereVsParts2 (parts : List (BShape2 Rat × Iso2 Rat)) (c : V2 Float) (r : Float) : String :=
  if !(FloatIO.isFinite c.x && FloatIO.isFinite c.y && FloatIO.isFinite r) then "fail nonfinite-output" else
  let C := q2 c; let R := q r
  if R < 0 then "fail negative-radius" else
  match (parts.flatMap fun (sh, m) => (samples2 sh).map m.act).filter (fun p => !(leTol ((p.sub C).normSq) (R * R) tol9)) with
  | [] => "pass"
  | p :: _ => s!"fail shape-point-outside-sphere ({showR p.x},{showR p.y})"

def fsphere2 (s : Sphere2 Float) : String := s!"{fv2 s.center} {ff s.radius}"
def posphere2 : P (V2 Float × Float) := do let x ← pfo; let y ← pfo; let r ← pfo; pure (⟨x, y⟩, r)

def optS {α} (f : α → String) (o : Option α) : String := match o with | some a => f a | none => "panic"

/-! ## composites -/
inductive Comp3 (K : Type) where
  | trimesh (vs : List (V3 K)) (idx : List (Nat × Nat × Nat))
  | polyline (vs : List (V3 K)) (idx : List (Nat × Nat))
  | compound (parts : List (Iso3 K × BShape3 K))
  | heightfield (nr nc : Nat) (hs : List K) (s : V3 K)
inductive Comp2 (K : Type) where
  | trimesh (vs : List (V2 K)) (idx : List (Nat × Nat × Nat))
  | polyline (vs : List (V2 K)) (idx : List (Nat × Nat))
  | compound (parts : List (Iso2 K × BShape2 K))
  | heightfield (hs : List K) (s : V2 K)

def pfs (n : Nat) : P (List Float) :=
  match n with
  | 0 => pure []
  | k + 1 => do let x ← pf; let xs ← pfs k; pure (x :: xs)

def pcomp3 : P (Comp3 Float) := do
  let k ← tok
  match k with
  | "trimesh" => do
      let vs ← plist pv3
      let idx ← plist (do let i ← pnat; let j ← pnat; let k ← pnat; pure (i, j, k))
      pure (.trimesh vs idx)
  | "polyline" => do
      let vs ← plist pv3
      let idx ← plist (do let i ← pnat; let j ← pnat; pure (i, j))
      pure (.polyline vs idx)
  | "compound" => do
      let ps ← plist (do let m ← piso3; let s ← pshape3; pure (m, s))
      pure (.compound ps)
  | "heightfield" => do
      let nr ← pnat; let nc ← pnat; let hs ← pfs (nr * nc); let s ← pv3
      pure (.heightfield nr nc hs s)
  | _ => failure
def pcomp2 : P (Comp2 Float) := do
  let k ← tok
  match k with
  | "trimesh" => do
      let vs ← plist pv2
      let idx ← plist (do let i ← pnat; let j ← pnat; let k ← pnat; pure (i, j, k))
      pure (.trimesh vs idx)
  | "polyline" => do
      let vs ← plist pv2
      let idx ← plist (do let i ← pnat; let j ← pnat; pure (i, j))
      pure (.polyline vs idx)
  | "compound" => do
      let ps ← plist (do let m ← piso2; let s ← pshape2; pure (m, s))
      pure (.compound ps)
  | "heightfield" => do
      let hs ← plist pf; let s ← pv2
      pure (.heightfield hs s)
  | _ => failure

/-- model: `compute_local_aabb` of a composite -/
def Comp3.localAabb : Comp3 Float → Option (Aabb3 Float)
  | .trimesh vs idx => trimeshLocalAabb3 rmaxF vs idx
  | .polyline vs idx => polylineLocalAabb3 rmaxF vs idx
  | .compound ps => if ps.isEmpty then none else compoundLocalAabb3 rmaxF hmF ps
  | .heightfield nr nc hs s => if nr < 2 || nc < 2 then none else
      match hs with | [] => none | h :: t => some (heightfieldAabb3 h t s)
def Comp2.localAabb : Comp2 Float → Option (Aabb2 Float)
  | .trimesh vs idx => trimeshLocalAabb2 rmaxF vs idx
  | .polyline vs idx => polylineLocalAabb2 rmaxF vs idx
  | .compound ps => if ps.isEmpty then none else compoundLocalAabb2 rmaxF hmF ps
  | .heightfield hs s => match hs with | h :: h' :: t => some (heightfieldAabb2 h (h' :: t) s) | _ => none

/-- model: `.scaled(s).local_aabb()` (TriMesh / Polyline: `Qbvh::scaled` = `Aabb::scaled` of the root box;
HeightField: `set_scale`) -/
def Comp3.scaledAabb (sc : V3 Float) : Comp3 Float → Option (Aabb3 Float)
  | .heightfield nr nc hs s => (Comp3.heightfield nr nc hs s).localAabb.map fun b => heightfieldRescale3 b s sc
  | .compound _ => none
  | c => c.localAabb.map (·.scaled sc)
def Comp2.scaledAabb (sc : V2 Float) : Comp2 Float → Option (Aabb2 Float)
  | .heightfield hs s => (Comp2.heightfield hs s).localAabb.map fun b => heightfieldRescale2 b s sc
  | .compound _ => none
  | c => c.localAabb.map (·.scaled sc)

/-- oracle side: the parts of a composite as exact convex shapes with their poses (triangles / segments as such;
heightfield cells as triangles / segments of the scaled grid vertices) -/
def Comp3.parts : Comp3 Float → List (BShape3 Rat × Iso3 Rat)
  | .trimesh vs idx => idx.filterMap fun (i, j, k) => do
      let a ← vs[i]?; let b ← vs[j]?; let c ← vs[k]?; pure (BShape3.triangle (q3 a) (q3 b) (q3 c), Iso3.identity)
  | .polyline vs idx => idx.filterMap fun (i, j) => do
      let a ← vs[i]?; let b ← vs[j]?; pure (BShape3.segment (q3 a) (q3 b), Iso3.identity)
  | .compound ps => ps.map fun (m, s) => (qshape3 s, qiso3 m)
  | .heightfield nr nc hs s =>
      -- column-major heights: entry (i, j) = hs[j * nr + i]; vertex (i, j) = ((-1/2 + j/(nc-1))·sx, h·sy, (-1/2 + i/(nr-1))·sz)
      let S := q3 s
      let vert (i j : Nat) : V3 Rat :=
        ⟨(-(1:Rat)/2 + (j : Rat) / ((nc : Rat) - 1)) * S.x, q (hs.getD (j * nr + i) 0) * S.y, (-(1:Rat)/2 + (i : Rat) / ((nr : Rat) - 1)) * S.z⟩
      (List.range (nr - 1)).flatMap fun i => (List.range (nc - 1)).flatMap fun j =>
        [(BShape3.triangle (vert i j) (vert (i+1) j) (vert i (j+1)), Iso3.identity),
         (BShape3.triangle (vert (i+1) (j+1)) (vert (i+1) j) (vert i (j+1)), Iso3.identity)]
def Comp2.parts : Comp2 Float → List (BShape2 Rat × Iso2 Rat)
  | .trimesh vs idx => idx.filterMap fun (i, j, k) => do
      let a ← vs[i]?; let b ← vs[j]?; let c ← vs[k]?; pure (BShape2.triangle (q2 a) (q2 b) (q2 c), Iso2.identity)
  | .polyline vs idx => idx.filterMap fun (i, j) => do
      let a ← vs[i]?; let b ← vs[j]?; pure (BShape2.segment (q2 a) (q2 b), Iso2.identity)
  | .compound ps => ps.map fun (m, s) => (qshape2 s, qiso2 m)
  | .heightfield hs s =>
      let S := q2 s; let n := hs.length
      let vert (i : Nat) : V2 Rat := ⟨(-(1:Rat)/2 + (i : Rat) / ((n : Rat) - 1)) * S.x, q (hs.getD i 0) * S.y⟩
      (List.range (n - 1)).map fun i => (BShape2.segment (vert i) (vert (i+1)), Iso2.identity)

def isHeightfieldNeg3 : Comp3 Float → Bool
  | .heightfield _ _ _ s => s.x < 0 || s.y < 0 || s.z < 0
  | _ => false
def isHeightfieldNeg2 : Comp2 Float → Bool
  | .heightfield _ s => s.x < 0 || s.y < 0
  | _ => false

def scaleShape3 (sc : V3 Rat) : BShape3 Rat → BShape3 Rat
  | .triangle a b c => .triangle (a.cmul sc) (b.cmul sc) (c.cmul sc)
  | .segment a b => .segment (a.cmul sc) (b.cmul sc)
  | s => s
def scaleShape2 (sc : V2 Rat) : BShape2 Rat → BShape2 Rat
  | .triangle a b c => .triangle (a.cmul sc) (b.cmul sc) (c.cmul sc)
  | .segment a b => .segment (a.cmul sc) (b.cmul sc)
  | s => s

/-- tag a failing verdict on a heightfield with a negative scale component (the known inverted-box defect) -/
def tagNeg (neg : Bool) (v : String) : String :=
  if neg && v.startsWith "fail" then "fail heightfield-negative-scale-box-inverted (" ++ (v.drop 5).toString ++ ")" else v

def handlerB (fn : String) : Option Handler :=
  let box3 (tight : Bool) (local_ : Bool) : Handler := {
      model := fun a => run (do let s ← pshape3; let m ← (if local_ then pure Iso3.identity else piso3); let s ← observed3 s
                                pure (optS faabb3 (if local_ then s.localAabb hmF else s.aabb hmF m))) a
      oracle := fun a o => match run (do let s ← pshape3; let m ← (if local_ then pure Iso3.identity else piso3); let s ← observed3 s; pure (s, m)) a with
        | some (s, m) =>
          if emptyPoly3 s then "skip degenerate-hull" else
          withOut poaabb3 o fun b =>
            if isHalfspace3 s then halfspaceBox3 b else boxVsParts3 [(qshape3 s, qiso3 m)] b tight
        | none => "skip bad-args" }
  let sph3 (local_ : Bool) : Handler := {
      model := fun a => run (do let s ← pshape3; let m ← (if local_ then pure Iso3.identity else piso3); let s ← observed3 s
                                pure (optS fsphere (if local_ then s.localSphere rmaxF else s.sphere rmaxF m))) a
      oracle := fun a o => match run (do let s ← pshape3; let m ← (if local_ then pure Iso3.identity else piso3); let s ← observed3 s; pure (s, m)) a with
        | some (s, m) =>
          if emptyPoly3 s then "skip degenerate-hull" else
          withOut posphere o fun sp =>
            if isHalfspace3 s then (if hmF ≤ sp.radius then "pass" else "fail halfspace-sphere-not-the-whole-space")
            else sphereVsParts3 [(qshape3 s, qiso3 m)] sp
        | none => "skip bad-args" }
  let box2 (tight : Bool) (local_ : Bool) : Handler := {
      model := fun a => run (do let s ← pshape2; let m ← (if local_ then pure Iso2.identity else piso2); let s ← observed2 s
                                pure (optS faabb2 (if local_ then s.localAabb hmF else s.aabb hmF m))) a
      oracle := fun a o => match run (do let s ← pshape2; let m ← (if local_ then pure Iso2.identity else piso2); let s ← observed2 s; pure (s, m)) a with
        | some (s, m) =>
          if emptyPoly2 s then "skip degenerate-hull" else
          withOut poaabb2 o fun b =>
            if isHalfspace2 s then halfspaceBox2 b else boxVsParts2 [(qshape2 s, qiso2 m)] b tight
        | none => "skip bad-args" }
  let sph2 (local_ : Bool) : Handler := {
      model := fun a => run (do let s ← pshape2; let m ← (if local_ then pure Iso2.identity else piso2); let s ← observed2 s
                                pure (optS fsphere2 (if local_ then s.localSphere rmaxF else s.sphere rmaxF m))) a
      oracle := fun a o => match run (do let s ← pshape2; let m ← (if local_ then pure Iso2.identity else piso2); let s ← observed2 s; pure (s, m)) a with
        | some (s, m) =>
          if emptyPoly2 s then "skip degenerate-hull" else
          withOut posphere2 o fun (c, r) =>
            if isHalfspace2 s then (if hmF ≤ r then "pass" else "fail halfspace-sphere-not-the-whole-space")
            else sphereVsParts2 [(qshape2 s, qiso2 m)] c r
        | none => "skip bad-args" }
  match fn with
  | "sh3_aabb" => some (box3 true false)
  | "sh3_aabb_inh" => some (box3 true false)
  | "sh3_local_aabb" => some (box3 true true)
  | "sh3_local_aabb_inh" => some (box3 true true)
  | "sh3_bsphere" => some (sph3 false)
  | "sh3_bsphere_inh" => some (sph3 false)
  | "sh3_local_bsphere" => some (sph3 true)
  | "sh3_swept" => some {
      model := fun a => run (do let s ← pshape3; let m1 ← piso3; let m2 ← piso3; let s ← observed3 s
                                pure (optS faabb3 (s.swept hmF m1 m2))) a
      oracle := fun a o => match run (do let s ← pshape3; let m1 ← piso3; let m2 ← piso3; let s ← observed3 s; pure (s, m1, m2)) a with
        | some (s, m1, m2) =>
          if emptyPoly3 s then "skip degenerate-hull" else
          withOut poaabb3 o fun b =>
            if isHalfspace3 s then halfspaceBox3 b
            else boxVsParts3 [(qshape3 s, qiso3 m1), (qshape3 s, qiso3 m2)] b true
        | none => "skip bad-args" }
  | "sh2_aabb" => some (box2 true false)
  | "sh2_aabb_inh" => some (box2 true false)
  | "sh2_local_aabb" => some (box2 true true)
  | "sh2_local_aabb_inh" => some (box2 true true)
  | "sh2_bsphere" => some (sph2 false)
  | "sh2_bsphere_inh" => some (sph2 false)
  | "sh2_local_bsphere" => some (sph2 true)
  | "sh2_swept" => some {
      model := fun a => run (do let s ← pshape2; let m1 ← piso2; let m2 ← piso2; let s ← observed2 s
                                pure (optS faabb2 (s.swept hmF m1 m2))) a
      oracle := fun a o => match run (do let s ← pshape2; let m1 ← piso2; let m2 ← piso2; let s ← observed2 s; pure (s, m1, m2)) a with
        | some (s, m1, m2) =>
          if emptyPoly2 s then "skip degenerate-hull" else
          withOut poaabb2 o fun b =>
            if isHalfspace2 s then halfspaceBox2 b
            else boxVsParts2 [(qshape2 s, qiso2 m1), (qshape2 s, qiso2 m2)] b true
        | none => "skip bad-args" }
  | "co3_local_aabb" => some {
      model := fun a => run (do let c ← pcomp3; pure (optS faabb3 c.localAabb)) a
      oracle := fun a o => match run pcomp3 a with
        | some c => withOut poaabb3 o fun b => tagNeg (isHeightfieldNeg3 c) (boxVsParts3 c.parts b true)
        | none => "skip bad-args" }
  | "co3_aabb" => some {
      model := fun a => run (do let c ← pcomp3; let m ← piso3; pure (optS faabb3 (c.localAabb.map (·.transformBy m)))) a
      oracle := fun a o => match run (do let c ← pcomp3; let m ← piso3; pure (c, m)) a with
        | some (c, m) => withOut poaabb3 o fun b =>
            tagNeg (isHeightfieldNeg3 c) (boxVsParts3 (c.parts.map fun (s, d) => (s, (qiso3 m).mul d)) b false)
        | none => "skip bad-args" }
  | "co3_swept" => some {
      model := fun a => run (do let c ← pcomp3; let m1 ← piso3; let m2 ← piso3
                                pure (optS faabb3 (c.localAabb.map fun b => (b.transformBy m1).merged (b.transformBy m2)))) a
      oracle := fun a o => match run (do let c ← pcomp3; let m1 ← piso3; let m2 ← piso3; pure (c, m1, m2)) a with
        | some (c, m1, m2) => withOut poaabb3 o fun b =>
            tagNeg (isHeightfieldNeg3 c) (boxVsParts3 ((c.parts.map fun (s, d) => (s, (qiso3 m1).mul d)) ++ (c.parts.map fun (s, d) => (s, (qiso3 m2).mul d))) b false)
        | none => "skip bad-args" }
  | "co3_bsphere" => some {
      model := fun a => run (do let c ← pcomp3; let m ← piso3; pure (optS fsphere (c.localAabb.map fun b => b.boundingSphere.transformBy m))) a
      oracle := fun a o => match run (do let c ← pcomp3; let m ← piso3; pure (c, m)) a with
        | some (c, m) => withOut posphere o fun sp =>
            tagNeg (isHeightfieldNeg3 c) (sphereVsParts3 (c.parts.map fun (s, d) => (s, (qiso3 m).mul d)) sp)
        | none => "skip bad-args" }
  | "co3_scaled_aabb" => some {
      model := fun a => run (do let c ← pcomp3; let sc ← pv3; pure (optS faabb3 (c.scaledAabb sc))) a
      oracle := fun a o => match run (do let c ← pcomp3; let sc ← pv3; pure (c, sc)) a with
        | some (c, sc) => withOut poaabb3 o fun b =>
            let neg := isHeightfieldNeg3 c || (match c with | .heightfield .. => sc.x < 0 || sc.y < 0 || sc.z < 0 | _ => false)
            tagNeg neg (boxVsParts3 (c.parts.map fun (s, d) => (scaleShape3 (q3 sc) s, d)) b true)
        | none => "skip bad-args" }
  | "co2_local_aabb" => some {
      model := fun a => run (do let c ← pcomp2; pure (optS faabb2 c.localAabb)) a
      oracle := fun a o => match run pcomp2 a with
        | some c => withOut poaabb2 o fun b => tagNeg (isHeightfieldNeg2 c) (boxVsParts2 c.parts b true)
        | none => "skip bad-args" }
  | "co2_aabb" => some {
      model := fun a => run (do let c ← pcomp2; let m ← piso2; pure (optS faabb2 (c.localAabb.map (·.transformBy m)))) a
      oracle := fun a o => match run (do let c ← pcomp2; let m ← piso2; pure (c, m)) a with
        | some (c, m) => withOut poaabb2 o fun b =>
            tagNeg (isHeightfieldNeg2 c) (boxVsParts2 (c.parts.map fun (s, d) => (s, (qiso2 m).mul d)) b false)
        | none => "skip bad-args" }
  | "co2_swept" => some {
      model := fun a => run (do let c ← pcomp2; let m1 ← piso2; let m2 ← piso2
                                pure (optS faabb2 (c.localAabb.map fun b => (b.transformBy m1).merged (b.transformBy m2)))) a
      oracle := fun a o => match run (do let c ← pcomp2; let m1 ← piso2; let m2 ← piso2; pure (c, m1, m2)) a with
        | some (c, m1, m2) => withOut poaabb2 o fun b =>
            tagNeg (isHeightfieldNeg2 c) (boxVsParts2 ((c.parts.map fun (s, d) => (s, (qiso2 m1).mul d)) ++ (c.parts.map fun (s, d) => (s, (qiso2 m2).mul d))) b false)
        | none => "skip bad-args" }
  | "co2_bsphere" => some {
      model := fun a => run (do let c ← pcomp2; let m ← piso2
                                pure (optS (fun (b : Aabb2 Float) => let s := b.boundingSphere; s!"{fv2 (m.act s.1)} {ff s.2}") c.localAabb)) a
      oracle := fun a o => match run (do let c ← pcomp2; let m ← piso2; pure (c, m)) a with
        | some (c, m) => withOut posphere2 o fun (ce, r) =>
            tagNeg (isHeightfieldNeg2 c) (sphereVsParts2 (c.parts.map fun (s, d) => (s, (qiso2 m).mul d)) ce r)
        | none => "skip bad-args" }
  | "co2_scaled_aabb" => some {
      model := fun a => run (do let c ← pcomp2; let sc ← pv2; pure (optS faabb2 (c.scaledAabb sc))) a
      oracle := fun a o => match run (do let c ← pcomp2; let sc ← pv2; pure (c, sc)) a with
        | some (c, sc) => withOut poaabb2 o fun b =>
            let neg := isHeightfieldNeg2 c || (match c with | .heightfield .. => sc.x < 0 || sc.y < 0 | _ => false)
            tagNeg neg (boxVsParts2 (c.parts.map fun (s, d) => (scaleShape2 (q2 sc) s, d)) b true)
        | none => "skip bad-args" }
  | "aabb2_scaled" => some {
      model := fun a => run (do let x ← paabb2; let s ← pv2; pure (faabb2 (x.scaled s))) a
      oracle := fun a o => match run (do let x ← paabb2; let s ← pv2; pure (x, s)) a with
        | some (x, s) => withOut poaabb2 o fun r =>
            let X := qaabb2 x
            let pts := (X.center :: corners2 X).map (·.cmul (q2 s))
            let res := allIn2 r pts
            if res != "pass" then res else
            -- tight: every face is touched by a scaled corner
            let R := qaabb2 r
            if (List.range 2).all fun i => pts.any (fun p => leTol (R.maxs.get i) (p.get i) tol9) && pts.any (fun p => leTol (p.get i) (R.mins.get i) tol9)
            then "pass" else "fail not-tight"
        | none => "skip bad-args" }
  | _ => none

end C09
