import ParryModel.C09.Theorems17
import ParryModel.C09.Theorems20
/-!
# C09 theorems, part 21: parry2d composites — the cached root box contains every part

2-D `TriMesh` / `Polyline` / `Compound` `local_aabb` (QBVH root box, dilation 0, or the merge loop of `Compound::new`):
the box contains every point of every indexed triangle / segment / posed part, and `local_aabb().transform_by(pos)`
contains their images (`composite2_aabb_contains`).
-/
set_option linter.unusedSectionVars false
set_option linter.unusedVariables false
set_option linter.unusedSimpArgs false
set_option linter.style.haveILetI false

namespace C09
open Model

variable {K : Type} [Field K] [LinearOrder K] [IsStrictOrderedRing K] (sq : K → K)

private theorem merged_mono2 (a b : Aabb2 K) (p : V2 K) :
    letI := fieldNum K sq
    BMem2 a p ∨ BMem2 b p → BMem2 (a.merged b) p := by
  intro h
  simp only [Aabb2.merged, V2.inf, V2.sup, BMem2, fieldNum_nmin, fieldNum_nmax, min_le_iff, le_max_iff]
  rcases h with ⟨⟨h1, h2⟩, h3, h4⟩ | ⟨⟨h1, h2⟩, h3, h4⟩ <;> tauto

private theorem foldl_merged_mono2 (ls : List (Aabb2 K)) :
    letI := fieldNum K sq
    ∀ (acc : Aabb2 K) (p : V2 K), BMem2 acc p → BMem2 (ls.foldl (fun a b => a.merged b) acc) p := by
  induction ls with
  | nil => intro acc p h; exact h
  | cons l ls ih => intro acc p h; exact ih _ _ (merged_mono2 sq acc l p (Or.inl h))

/-- **QBVH root box (2-D)** contains every point of every leaf box. -/
theorem root_aabb2_contains_leaves (rmax : K) (leaves : List (Aabb2 K)) :
    letI := fieldNum K sq
    ∀ l ∈ leaves, ∀ p, BMem2 l p → BMem2 (rootAabb2 rmax leaves) p := by
  unfold rootAabb2
  generalize @Aabb2.invalid K (fieldNum K sq) rmax = acc
  induction leaves generalizing acc with
  | nil => intro l h; cases h
  | cons x xs ih =>
    intro l h p hp
    rcases List.mem_cons.1 h with rfl | h
    · exact foldl_merged_mono2 sq xs _ _ (merged_mono2 sq acc l p (Or.inr hp))
    · exact ih _ l h p hp

private theorem mapM_fwd2 {α β : Type} (f : α → Option β) :
    ∀ (l : List α) (r : List β), l.mapM f = some r → ∀ x ∈ l, ∃ y ∈ r, f x = some y := by
  intro l
  induction l with
  | nil => intro r _ x hx; cases hx
  | cons a as ih =>
    intro r h x hx
    rw [List.mapM_cons] at h
    cases hfa : f a with
    | none => simp [hfa] at h
    | some y =>
      cases hrest : as.mapM f with
      | none => simp [hfa, hrest] at h
      | some ys =>
        simp [hfa, hrest] at h
        subst h
        rcases List.mem_cons.1 hx with rfl | hx
        · exact ⟨y, List.mem_cons_self .., hfa⟩
        · obtain ⟨y', hy', e⟩ := ih ys hrest x hx
          exact ⟨y', List.mem_cons_of_mem _ hy', e⟩

private theorem conv3'' (a b c u v lo hi : K) (hu : 0 ≤ u) (hv : 0 ≤ v) (huv : u + v ≤ 1)
    (ha : lo ≤ a ∧ a ≤ hi) (hb : lo ≤ b ∧ b ≤ hi) (hc : lo ≤ c ∧ c ≤ hi) :
    lo ≤ a + (b - a) * u + (c - a) * v ∧ a + (b - a) * u + (c - a) * v ≤ hi := by
  have hw : 0 ≤ 1 - u - v := by linarith
  constructor
  · nlinarith [mul_nonneg hw (sub_nonneg.2 ha.1), mul_nonneg hu (sub_nonneg.2 hb.1), mul_nonneg hv (sub_nonneg.2 hc.1)]
  · nlinarith [mul_nonneg hw (sub_nonneg.2 ha.2), mul_nonneg hu (sub_nonneg.2 hb.2), mul_nonneg hv (sub_nonneg.2 hc.2)]

/-- `Triangle::local_aabb` (2-D) contains the triangle -/
theorem triangle2_local_aabb_contains (a b c p : V2 K) :
    letI := fieldNum K sq
    (Triangle2.mk a b c).Mem p → BMem2 (triangleLocalAabb2 a b c) p := by
  rintro ⟨u, v, hu, hv, huv, rfl⟩
  simp only [triangleLocalAabb2, BMem2, V2.add, V2.sub, V2.smul, fieldNum_nmin, fieldNum_nmax]
  refine ⟨conv3'' _ _ _ u v _ _ hu hv huv ?_ ?_ ?_, conv3'' _ _ _ u v _ _ hu hv huv ?_ ?_ ?_⟩ <;>
    simp only [min_le_iff, le_max_iff, le_refl, true_or, or_true, and_self]

/-- **`TriMesh::local_aabb` (2-D)** -/
theorem trimesh2_local_aabb_contains (rmax : K) (vs : List (V2 K)) (idx : List (Nat × Nat × Nat)) (box : Aabb2 K) :
    letI := fieldNum K sq
    trimeshLocalAabb2 rmax vs idx = some box →
    ∀ t ∈ idx, ∀ a b c, vs[t.1]? = some a → vs[t.2.1]? = some b → vs[t.2.2]? = some c →
      ∀ p, (Triangle2.mk a b c).Mem p → BMem2 box p := by
  intro h t ht a b c ha hb hc p hp
  simp only [trimeshLocalAabb2, Option.map_eq_some_iff] at h
  obtain ⟨leaves, hl, rfl⟩ := h
  obtain ⟨l, hlm, hl'⟩ := mapM_fwd2 _ _ _ hl t ht
  simp only [ha, hb, hc, Option.bind_eq_bind, Option.bind_some, Option.pure_def, Option.some.injEq] at hl'
  subst hl'
  exact root_aabb2_contains_leaves sq rmax leaves _ hlm p (triangle2_local_aabb_contains sq a b c p hp)

/-- **`Polyline::local_aabb` (2-D)** -/
theorem polyline2_local_aabb_contains (rmax : K) (vs : List (V2 K)) (idx : List (Nat × Nat)) (box : Aabb2 K) :
    letI := fieldNum K sq
    polylineLocalAabb2 rmax vs idx = some box →
    ∀ t ∈ idx, ∀ a b, vs[t.1]? = some a → vs[t.2]? = some b → ∀ p, (Segment2.mk a b).Mem p → BMem2 box p := by
  intro h t ht a b ha hb p hp
  simp only [polylineLocalAabb2, Option.map_eq_some_iff] at h
  obtain ⟨leaves, hl, rfl⟩ := h
  obtain ⟨l, hlm, hl'⟩ := mapM_fwd2 _ _ _ hl t ht
  simp only [ha, hb, Option.bind_eq_bind, Option.bind_some, Option.pure_def, Option.some.injEq] at hl'
  subst hl'
  exact root_aabb2_contains_leaves sq rmax leaves _ hlm p ((segment_local_aabb2_contains_tight sq a b).1 p hp)

/-- **`Compound::local_aabb` (2-D)**: every point of every posed part (unit-complex `delta`, parameters in the domain). -/
theorem compound2_aabb_contains_parts (hsq : LawfulSqrt sq) (rmax hm : K) (parts : List (Iso2 K × BShape2 K)) (box : Aabb2 K) :
    letI := fieldNum K sq
    compoundLocalAabb2 rmax hm parts = some box →
    ∀ ms ∈ parts, ms.1.re * ms.1.re + ms.1.im * ms.1.im = 1 → shapeOk2 ms.2 →
      ∀ p, shapeMem2 sq ms.2 p → BMem2 box (ms.1.act p) := by
  intro h ms hms hu hok p hp
  simp only [compoundLocalAabb2, Option.map_eq_some_iff] at h
  obtain ⟨leaves, hl, rfl⟩ := h
  obtain ⟨l, hlm, hl'⟩ := mapM_fwd2 _ _ _ hl ms hms
  exact root_aabb2_contains_leaves sq rmax leaves _ hlm _ (shape2_aabb_contains sq hsq hm ms.1 hu ms.2 l hok hl' p hp)

/-- **2-D composite `compute_aabb(pos)`** = `local_aabb().transform_by(pos)` contains the posed set. -/
theorem composite2_aabb_contains (S : V2 K → Prop) (box : Aabb2 K) (m : Iso2 K) (h : ∀ p, S p → BMem2 box p) :
    letI := fieldNum K sq
    ∀ p, S p → BMem2 (box.transformBy m) (m.act p) :=
  fun p hp => aabb2_transformBy_contains sq box m p (h p hp)

/-! ## HeightField (2-D) -/

private theorem fmax_ge (hs : List K) : ∀ acc : K, acc ≤ hs.foldl (fun a b => max a b) acc ∧ ∀ h ∈ hs, h ≤ hs.foldl (fun a b => max a b) acc := by
  induction hs with
  | nil => intro acc; exact ⟨le_refl _, (fun h hh => by cases hh)⟩
  | cons x xs ih =>
    intro acc
    obtain ⟨i1, i2⟩ := ih (max acc x)
    refine ⟨le_trans (le_max_left _ _) i1, ?_⟩
    intro h hh
    rcases List.mem_cons.1 hh with rfl | hh
    · exact le_trans (le_max_right _ _) i1
    · exact i2 h hh
private theorem fmin_le (hs : List K) : ∀ acc : K, hs.foldl (fun a b => min a b) acc ≤ acc ∧ ∀ h ∈ hs, hs.foldl (fun a b => min a b) acc ≤ h := by
  induction hs with
  | nil => intro acc; exact ⟨le_refl _, (fun h hh => by cases hh)⟩
  | cons x xs ih =>
    intro acc
    obtain ⟨i1, i2⟩ := ih (min acc x)
    refine ⟨le_trans i1 (min_le_left _ _), ?_⟩
    intro h hh
    rcases List.mem_cons.1 hh with rfl | hh
    · exact le_trans i1 (min_le_right _ _)
    · exact i2 h hh
private theorem sbetween (lo hi s x : K) (h1 : lo ≤ x) (h2 : x ≤ hi) :
    min (lo * s) (hi * s) ≤ x * s ∧ x * s ≤ max (lo * s) (hi * s) := by
  rcases le_total 0 s with hs | hs
  · exact ⟨(min_le_left _ _).trans (mul_le_mul_of_nonneg_right h1 hs),
           le_trans (mul_le_mul_of_nonneg_right h2 hs) (le_max_right _ _)⟩
  · exact ⟨(min_le_right _ _).trans (mul_le_mul_of_nonpos_right h2 hs),
           le_trans (mul_le_mul_of_nonpos_right h1 hs) (le_max_left _ _)⟩

/-- **HeightField box (2-D, as corrected)**: for every scale vector, of any signs, every vertex `(u·s.x, h·s.y)`
(`u ∈ [-1/2, 1/2]`, `h` one of the heights) lies in the box; hence so does every segment of the heightfield. -/
theorem heightfield2_aabb_contains (h0 : K) (hs : List K) (s : V2 K) (u h : K)
    (hu : -(1/2) ≤ u ∧ u ≤ 1/2) (hh : h ∈ h0 :: hs) :
    letI := fieldNum K sq
    BMem2 (heightfieldAabb2 h0 hs s) ⟨u * s.x, h * s.y⟩ := by
  have hl : ((mkRat 1 2 : Rat) : K) = 1/2 := by norm_num
  have hmax : h ≤ hs.foldl (fun a b => max a b) h0 := by
    rcases List.mem_cons.1 hh with rfl | hh
    · exact (fmax_ge hs _).1
    · exact (fmax_ge hs _).2 h hh
  have hmin : hs.foldl (fun a b => min a b) h0 ≤ h := by
    rcases List.mem_cons.1 hh with rfl | hh
    · exact (fmin_le hs _).1
    · exact (fmin_le hs _).2 h hh
  have bx := sbetween (-(1/2)) (1/2) s.x u hu.1 hu.2
  have by' := sbetween _ _ s.y h hmin hmax
  simp only [heightfieldAabb2, listMax, listMin, BMem2, V2.inf, V2.sup, V2.smul, fieldNum_nmin, fieldNum_nmax, fieldNum_lit, hl]
  have e1 : -(s.x * (1/2)) = -(1/2) * s.x := by ring
  have e2 : s.x * (1/2) = 1/2 * s.x := by ring
  rw [e1, e2]
  exact ⟨bx, by'⟩

/-! ## tightness of the 2-D root box, TriMesh, Polyline -/

private theorem foldl_merged_phi2 (φ : Aabb2 K → K)
    (hφ : ∀ a b : Aabb2 K, φ (@Aabb2.merged K (fieldNum K sq) a b) = max (φ a) (φ b)) (ls : List (Aabb2 K)) :
    ∀ acc : Aabb2 K,
      (φ (ls.foldl (fun a b => @Aabb2.merged K (fieldNum K sq) a b) acc) = φ acc ∨
        ∃ l ∈ ls, φ (ls.foldl (fun a b => @Aabb2.merged K (fieldNum K sq) a b) acc) = φ l) ∧
      (∀ l ∈ ls, φ l ≤ φ (ls.foldl (fun a b => @Aabb2.merged K (fieldNum K sq) a b) acc)) ∧
      φ acc ≤ φ (ls.foldl (fun a b => @Aabb2.merged K (fieldNum K sq) a b) acc) := by
  induction ls with
  | nil => intro acc; exact ⟨Or.inl rfl, (fun l h => by cases h), le_refl _⟩
  | cons x xs ih =>
    intro acc
    obtain ⟨h1, h2, h3⟩ := ih (@Aabb2.merged K (fieldNum K sq) acc x)
    simp only [List.foldl_cons]
    rw [hφ] at h1 h3
    refine ⟨?_, ?_, le_trans (le_max_left _ _) h3⟩
    · rcases h1 with h | ⟨l, hl, h⟩
      · rcases le_total (φ acc) (φ x) with hle | hle
        · right; exact ⟨x, List.mem_cons_self .., by rw [h, max_eq_right hle]⟩
        · left; rw [h, max_eq_left hle]
      · right; exact ⟨l, List.mem_cons_of_mem _ hl, h⟩
    · intro l hl
      rcases List.mem_cons.1 hl with rfl | hl
      · exact le_trans (le_max_right _ _) h3
      · exact h2 l hl

private theorem root_phi2 (φ : Aabb2 K → K)
    (hφ : ∀ a b : Aabb2 K, φ (@Aabb2.merged K (fieldNum K sq) a b) = max (φ a) (φ b)) (rmax : K) (leaves : List (Aabb2 K))
    (hne : leaves ≠ []) (hb : ∀ l ∈ leaves, φ (@Aabb2.invalid K (fieldNum K sq) rmax) ≤ φ l) :
    ∃ l ∈ leaves, φ (@rootAabb2 K (fieldNum K sq) rmax leaves) = φ l := by
  obtain ⟨h1, h2, _⟩ := foldl_merged_phi2 sq φ hφ leaves (@Aabb2.invalid K (fieldNum K sq) rmax)
  rcases h1 with h | h
  · obtain ⟨l0, hl0⟩ := List.exists_mem_of_ne_nil leaves hne
    refine ⟨l0, hl0, le_antisymm ?_ (h2 l0 hl0)⟩
    show φ (leaves.foldl (fun a b => @Aabb2.merged K (fieldNum K sq) a b) (@Aabb2.invalid K (fieldNum K sq) rmax)) ≤ φ l0
    rw [h]; exact hb l0 hl0
  · exact h

def InRange2 (rmax : K) (l : Aabb2 K) : Prop := (l.mins.x ≤ rmax ∧ l.mins.y ≤ rmax) ∧ (-rmax ≤ l.maxs.x ∧ -rmax ≤ l.maxs.y)

/-- **the 2-D QBVH root box is tight**: each of its four faces is the corresponding face of one of the leaf boxes. -/
theorem root_aabb2_tight (rmax : K) (leaves : List (Aabb2 K)) (hne : leaves ≠ []) (hb : ∀ l ∈ leaves, InRange2 rmax l) :
    letI := fieldNum K sq
    (∃ l ∈ leaves, (rootAabb2 rmax leaves).maxs.x = l.maxs.x) ∧ (∃ l ∈ leaves, (rootAabb2 rmax leaves).mins.x = l.mins.x) ∧
    (∃ l ∈ leaves, (rootAabb2 rmax leaves).maxs.y = l.maxs.y) ∧ (∃ l ∈ leaves, (rootAabb2 rmax leaves).mins.y = l.mins.y) := by
  have mx : ∀ a b : K, -(min a b) = max (-a) (-b) := fun a b => (max_neg_neg a b).symm
  refine ⟨?_, ?_, ?_, ?_⟩
  · exact root_phi2 sq (fun b => b.maxs.x) (fun a b => by simp only [Aabb2.merged, V2.sup, fieldNum_nmax]) rmax leaves hne
      (fun l hl => by simp only [Aabb2.invalid]; exact (hb l hl).2.1)
  · obtain ⟨l, hl, h⟩ := root_phi2 sq (fun b => -b.mins.x) (fun a b => by simp only [Aabb2.merged, V2.inf, fieldNum_nmin, mx]) rmax leaves hne
      (fun l hl => by simp only [Aabb2.invalid]; linarith [(hb l hl).1.1])
    exact ⟨l, hl, neg_injective h⟩
  · exact root_phi2 sq (fun b => b.maxs.y) (fun a b => by simp only [Aabb2.merged, V2.sup, fieldNum_nmax]) rmax leaves hne
      (fun l hl => by simp only [Aabb2.invalid]; exact (hb l hl).2.2)
  · obtain ⟨l, hl, h⟩ := root_phi2 sq (fun b => -b.mins.y) (fun a b => by simp only [Aabb2.merged, V2.inf, fieldNum_nmin, mx]) rmax leaves hne
      (fun l hl => by simp only [Aabb2.invalid]; linarith [(hb l hl).1.2])
    exact ⟨l, hl, neg_injective h⟩

private theorem mapM_rev2 {α β : Type} (f : α → Option β) :
    ∀ (l : List α) (r : List β), l.mapM f = some r → ∀ y ∈ r, ∃ x ∈ l, f x = some y := by
  intro l
  induction l with
  | nil => intro r h y hy; simp at h; subst h; cases hy
  | cons a as ih =>
    intro r h y hy
    rw [List.mapM_cons] at h
    cases hfa : f a with
    | none => simp [hfa] at h
    | some y0 =>
      cases hrest : as.mapM f with
      | none => simp [hfa, hrest] at h
      | some ys =>
        simp [hfa, hrest] at h
        subst h
        rcases List.mem_cons.1 hy with rfl | hy
        · exact ⟨a, List.mem_cons_self .., hfa⟩
        · obtain ⟨x, hx, e⟩ := ih ys hrest y hy
          exact ⟨x, List.mem_cons_of_mem _ hx, e⟩

/-- **`Polyline::local_aabb` (2-D) is exact**: each face of the cached root box carries a point of an indexed segment. -/
theorem polyline2_local_aabb_tight (rmax : K) (vs : List (V2 K)) (idx : List (Nat × Nat)) (box : Aabb2 K) (hne : idx ≠ [])
    (hr : ∀ v ∈ vs, (-rmax ≤ v.x ∧ v.x ≤ rmax) ∧ (-rmax ≤ v.y ∧ v.y ≤ rmax)) :
    letI := fieldNum K sq
    polylineLocalAabb2 rmax vs idx = some box →
    Touches2 (fun q => ∃ t ∈ idx, ∃ a b, vs[t.1]? = some a ∧ vs[t.2]? = some b ∧ (Segment2.mk a b).Mem q) box := by
  intro h
  simp only [polylineLocalAabb2, Option.map_eq_some_iff] at h
  obtain ⟨leaves, hl, rfl⟩ := h
  have leaf : ∀ l ∈ leaves, ∃ t ∈ idx, ∃ a b, vs[t.1]? = some a ∧ vs[t.2]? = some b ∧
      l = @segmentLocalAabb2 K (fieldNum K sq) a b := by
    intro l hlm
    obtain ⟨t, ht, e⟩ := mapM_rev2 _ _ _ hl l hlm
    cases ha : vs[t.1]? with
    | none => simp [ha] at e
    | some a =>
      cases hb : vs[t.2]? with
      | none => simp [ha, hb] at e
      | some b =>
        simp only [ha, hb, Option.bind_eq_bind, Option.bind_some, Option.pure_def, Option.some.injEq] at e
        exact ⟨t, ht, a, b, ha, hb, e.symm⟩
  have hne' : leaves ≠ [] := by
    obtain ⟨t, ht⟩ := List.exists_mem_of_ne_nil idx hne
    obtain ⟨y, hy, _⟩ := mapM_fwd2 _ _ _ hl t ht
    exact List.ne_nil_of_mem hy
  have hin : ∀ l ∈ leaves, InRange2 rmax l := by
    intro l hlm
    obtain ⟨t, _, a, b, ha, hb, rfl⟩ := leaf l hlm
    have ma := hr a (List.mem_of_getElem? ha)
    have hmem : @Segment2.Mem K (fieldNum K sq) ⟨a, b⟩ a := ⟨0, le_refl _, zero_le_one, by
      obtain ⟨x, y⟩ := a; simp [V2.add, V2.sub, V2.smul]⟩
    obtain ⟨⟨x1, x2⟩, y1, y2⟩ := (segment_local_aabb2_contains_tight sq a b).1 a hmem
    exact ⟨⟨le_trans x1 ma.1.2, le_trans y1 ma.2.2⟩, le_trans ma.1.1 x2, le_trans ma.2.1 y2⟩
  obtain ⟨f1, f2, f3, f4⟩ := root_aabb2_tight sq rmax leaves hne' hin
  have face : ∀ l ∈ leaves, Touches2 (fun q => ∃ t ∈ idx, ∃ a b, vs[t.1]? = some a ∧ vs[t.2]? = some b ∧
      @Segment2.Mem K (fieldNum K sq) ⟨a, b⟩ q) l := by
    intro l hlm
    obtain ⟨t, ht, a, b, ha, hb, rfl⟩ := leaf l hlm
    obtain ⟨⟨q1, m1, e1⟩, ⟨q2, m2, e2⟩, ⟨q3, m3, e3⟩, ⟨q4, m4, e4⟩⟩ := (segment_local_aabb2_contains_tight sq a b).2
    exact ⟨⟨q1, ⟨t, ht, a, b, ha, hb, m1⟩, e1⟩, ⟨q2, ⟨t, ht, a, b, ha, hb, m2⟩, e2⟩, ⟨q3, ⟨t, ht, a, b, ha, hb, m3⟩, e3⟩,
      ⟨q4, ⟨t, ht, a, b, ha, hb, m4⟩, e4⟩⟩
  obtain ⟨l1, hl1, e1⟩ := f1; obtain ⟨l2, hl2, e2⟩ := f2; obtain ⟨l3, hl3, e3⟩ := f3; obtain ⟨l4, hl4, e4⟩ := f4
  refine ⟨?_, ?_, ?_, ?_⟩
  · obtain ⟨q, hq, e⟩ := (face l1 hl1).1; exact ⟨q, hq, by rw [e, e1]⟩
  · obtain ⟨q, hq, e⟩ := (face l2 hl2).2.1; exact ⟨q, hq, by rw [e, e2]⟩
  · obtain ⟨q, hq, e⟩ := (face l3 hl3).2.2.1; exact ⟨q, hq, by rw [e, e3]⟩
  · obtain ⟨q, hq, e⟩ := (face l4 hl4).2.2.2; exact ⟨q, hq, by rw [e, e4]⟩

private theorem min3_att' (x y z : K) : min (min x y) z = x ∨ min (min x y) z = y ∨ min (min x y) z = z := by
  rcases le_total x y with h | h <;> rcases le_total (min x y) z with h' | h'
  · left; rw [min_eq_left h', min_eq_left h]
  · right; right; rw [min_eq_right h']
  · right; left; rw [min_eq_left h', min_eq_right h]
  · right; right; rw [min_eq_right h']
private theorem max3_att' (x y z : K) : max (max x y) z = x ∨ max (max x y) z = y ∨ max (max x y) z = z := by
  rcases le_total x y with h | h <;> rcases le_total (max x y) z with h' | h'
  · right; right; rw [max_eq_right h']
  · right; left; rw [max_eq_left h', max_eq_right h]
  · right; right; rw [max_eq_right h']
  · left; rw [max_eq_left h', max_eq_left h]

/-- `Triangle::local_aabb` (2-D): each face carries a vertex -/
theorem triangle2_local_aabb_tight (a b c : V2 K) :
    letI := fieldNum K sq
    Touches2 (fun q => q = a ∨ q = b ∨ q = c) (triangleLocalAabb2 a b c) := by
  simp only [Touches2, triangleLocalAabb2, fieldNum_nmin, fieldNum_nmax]
  refine ⟨?_, ?_, ?_, ?_⟩
  · rcases max3_att' a.x b.x c.x with h | h | h
    · exact ⟨a, Or.inl rfl, h.symm⟩
    · exact ⟨b, Or.inr (Or.inl rfl), h.symm⟩
    · exact ⟨c, Or.inr (Or.inr rfl), h.symm⟩
  · rcases min3_att' a.x b.x c.x with h | h | h
    · exact ⟨a, Or.inl rfl, h.symm⟩
    · exact ⟨b, Or.inr (Or.inl rfl), h.symm⟩
    · exact ⟨c, Or.inr (Or.inr rfl), h.symm⟩
  · rcases max3_att' a.y b.y c.y with h | h | h
    · exact ⟨a, Or.inl rfl, h.symm⟩
    · exact ⟨b, Or.inr (Or.inl rfl), h.symm⟩
    · exact ⟨c, Or.inr (Or.inr rfl), h.symm⟩
  · rcases min3_att' a.y b.y c.y with h | h | h
    · exact ⟨a, Or.inl rfl, h.symm⟩
    · exact ⟨b, Or.inr (Or.inl rfl), h.symm⟩
    · exact ⟨c, Or.inr (Or.inr rfl), h.symm⟩

/-- **`TriMesh::local_aabb` (2-D) is exact**: each face of the cached root box carries a vertex of an indexed triangle. -/
theorem trimesh2_local_aabb_tight (rmax : K) (vs : List (V2 K)) (idx : List (Nat × Nat × Nat)) (box : Aabb2 K) (hne : idx ≠ [])
    (hr : ∀ v ∈ vs, (-rmax ≤ v.x ∧ v.x ≤ rmax) ∧ (-rmax ≤ v.y ∧ v.y ≤ rmax)) :
    letI := fieldNum K sq
    trimeshLocalAabb2 rmax vs idx = some box →
    Touches2 (fun q => ∃ t ∈ idx, ∃ a b c, vs[t.1]? = some a ∧ vs[t.2.1]? = some b ∧ vs[t.2.2]? = some c ∧
      (q = a ∨ q = b ∨ q = c)) box := by
  intro h
  simp only [trimeshLocalAabb2, Option.map_eq_some_iff] at h
  obtain ⟨leaves, hl, rfl⟩ := h
  have leaf : ∀ l ∈ leaves, ∃ t ∈ idx, ∃ a b c, vs[t.1]? = some a ∧ vs[t.2.1]? = some b ∧ vs[t.2.2]? = some c ∧
      l = @triangleLocalAabb2 K (fieldNum K sq) a b c := by
    intro l hlm
    obtain ⟨t, ht, e⟩ := mapM_rev2 _ _ _ hl l hlm
    cases ha : vs[t.1]? with
    | none => simp [ha] at e
    | some a =>
      cases hb : vs[t.2.1]? with
      | none => simp [ha, hb] at e
      | some b =>
        cases hc : vs[t.2.2]? with
        | none => simp [ha, hb, hc] at e
        | some c =>
          simp only [ha, hb, hc, Option.bind_eq_bind, Option.bind_some, Option.pure_def, Option.some.injEq] at e
          exact ⟨t, ht, a, b, c, ha, hb, hc, e.symm⟩
  have hne' : leaves ≠ [] := by
    obtain ⟨t, ht⟩ := List.exists_mem_of_ne_nil idx hne
    obtain ⟨y, hy, _⟩ := mapM_fwd2 _ _ _ hl t ht
    exact List.ne_nil_of_mem hy
  have hin : ∀ l ∈ leaves, InRange2 rmax l := by
    intro l hlm
    obtain ⟨t, _, a, b, c, ha, hb, hc, rfl⟩ := leaf l hlm
    have ma := hr a (List.mem_of_getElem? ha)
    simp only [InRange2, triangleLocalAabb2, fieldNum_nmin, fieldNum_nmax]
    refine ⟨⟨?_, ?_⟩, ?_, ?_⟩
    · exact le_trans (le_trans (min_le_left _ _) (min_le_left _ _)) ma.1.2
    · exact le_trans (le_trans (min_le_left _ _) (min_le_left _ _)) ma.2.2
    · exact le_trans ma.1.1 (le_trans (le_max_left _ _) (le_max_left _ _))
    · exact le_trans ma.2.1 (le_trans (le_max_left _ _) (le_max_left _ _))
  obtain ⟨f1, f2, f3, f4⟩ := root_aabb2_tight sq rmax leaves hne' hin
  have face : ∀ l ∈ leaves, Touches2 (fun q => ∃ t ∈ idx, ∃ a b c, vs[t.1]? = some a ∧ vs[t.2.1]? = some b ∧ vs[t.2.2]? = some c ∧
      (q = a ∨ q = b ∨ q = c)) l := by
    intro l hlm
    obtain ⟨t, ht, a, b, c, ha, hb, hc, rfl⟩ := leaf l hlm
    obtain ⟨⟨q1, m1, e1⟩, ⟨q2, m2, e2⟩, ⟨q3, m3, e3⟩, ⟨q4, m4, e4⟩⟩ := triangle2_local_aabb_tight sq a b c
    exact ⟨⟨q1, ⟨t, ht, a, b, c, ha, hb, hc, m1⟩, e1⟩, ⟨q2, ⟨t, ht, a, b, c, ha, hb, hc, m2⟩, e2⟩,
      ⟨q3, ⟨t, ht, a, b, c, ha, hb, hc, m3⟩, e3⟩, ⟨q4, ⟨t, ht, a, b, c, ha, hb, hc, m4⟩, e4⟩⟩
  obtain ⟨l1, hl1, e1⟩ := f1; obtain ⟨l2, hl2, e2⟩ := f2; obtain ⟨l3, hl3, e3⟩ := f3; obtain ⟨l4, hl4, e4⟩ := f4
  refine ⟨?_, ?_, ?_, ?_⟩
  · obtain ⟨q, hq, e⟩ := (face l1 hl1).1; exact ⟨q, hq, by rw [e, e1]⟩
  · obtain ⟨q, hq, e⟩ := (face l2 hl2).2.1; exact ⟨q, hq, by rw [e, e2]⟩
  · obtain ⟨q, hq, e⟩ := (face l3 hl3).2.2.1; exact ⟨q, hq, by rw [e, e3]⟩
  · obtain ⟨q, hq, e⟩ := (face l4 hl4).2.2.2; exact ⟨q, hq, by rw [e, e4]⟩

example : InRange2 (10:ℚ) ⟨⟨0, 1⟩, ⟨3, 4⟩⟩ := by simp [InRange2]; norm_num

/-- **`Compound::local_aabb` (2-D)**: each face of the compound box is the corresponding face of the box of one of the parts. -/
theorem compound2_local_aabb_tight (rmax hm : K) (parts : List (Iso2 K × BShape2 K)) (box : Aabb2 K) (hne : parts ≠ []) :
    letI := fieldNum K sq
    compoundLocalAabb2 rmax hm parts = some box →
    (∀ ms ∈ parts, ∀ l, ms.2.aabb hm ms.1 = some l → InRange2 rmax l) →
    (∃ ms ∈ parts, ∃ l, ms.2.aabb hm ms.1 = some l ∧ box.maxs.x = l.maxs.x) ∧
    (∃ ms ∈ parts, ∃ l, ms.2.aabb hm ms.1 = some l ∧ box.mins.x = l.mins.x) ∧
    (∃ ms ∈ parts, ∃ l, ms.2.aabb hm ms.1 = some l ∧ box.maxs.y = l.maxs.y) ∧
    (∃ ms ∈ parts, ∃ l, ms.2.aabb hm ms.1 = some l ∧ box.mins.y = l.mins.y) := by
  intro h hr
  simp only [compoundLocalAabb2, Option.map_eq_some_iff] at h
  obtain ⟨leaves, hl, rfl⟩ := h
  have leaf : ∀ l ∈ leaves, ∃ ms ∈ parts, @BShape2.aabb K (fieldNum K sq) hm ms.1 ms.2 = some l := fun l hlm => mapM_rev2 _ _ _ hl l hlm
  have hne' : leaves ≠ [] := by
    obtain ⟨t, ht⟩ := List.exists_mem_of_ne_nil parts hne
    obtain ⟨y, hy, _⟩ := mapM_fwd2 _ _ _ hl t ht
    exact List.ne_nil_of_mem hy
  have hin : ∀ l ∈ leaves, InRange2 rmax l := by
    intro l hlm
    obtain ⟨ms, hms, e⟩ := leaf l hlm
    exact hr ms hms l e
  obtain ⟨⟨l1, h1, e1⟩, ⟨l2, h2, e2⟩, ⟨l3, h3, e3⟩, ⟨l4, h4, e4⟩⟩ := root_aabb2_tight sq rmax leaves hne' hin
  refine ⟨?_, ?_, ?_, ?_⟩
  · obtain ⟨ms, hms, e⟩ := leaf l1 h1; exact ⟨ms, hms, l1, e, e1⟩
  · obtain ⟨ms, hms, e⟩ := leaf l2 h2; exact ⟨ms, hms, l2, e, e2⟩
  · obtain ⟨ms, hms, e⟩ := leaf l3 h3; exact ⟨ms, hms, l3, e, e3⟩
  · obtain ⟨ms, hms, e⟩ := leaf l4 h4; exact ⟨ms, hms, l4, e, e4⟩

private theorem fmax_att (hs : List K) : ∀ acc : K, hs.foldl (fun a b => max a b) acc = acc ∨ hs.foldl (fun a b => max a b) acc ∈ hs := by
  induction hs with
  | nil => intro acc; exact Or.inl rfl
  | cons x xs ih =>
    intro acc
    simp only [List.foldl_cons, List.mem_cons]
    rcases ih (max acc x) with h | h
    · rcases le_total acc x with hle | hle
      · right; left; rw [h, max_eq_right hle]
      · left; rw [h, max_eq_left hle]
    · right; right; exact h
private theorem fmin_att (hs : List K) : ∀ acc : K, hs.foldl (fun a b => min a b) acc = acc ∨ hs.foldl (fun a b => min a b) acc ∈ hs := by
  induction hs with
  | nil => intro acc; exact Or.inl rfl
  | cons x xs ih =>
    intro acc
    simp only [List.foldl_cons, List.mem_cons]
    rcases ih (min acc x) with h | h
    · rcases le_total acc x with hle | hle
      · left; rw [h, min_eq_left hle]
      · right; left; rw [h, min_eq_right hle]
    · right; right; exact h

/-- **the HeightField box (2-D, as corrected) is exact**: for every scale vector, of any signs, each of the four faces
carries a vertex `(±s.x/2, h·s.y)` resp. a vertex of extreme height. -/
theorem heightfield2_aabb_tight (h0 : K) (hs : List K) (s : V2 K) :
    letI := fieldNum K sq
    Touches2 (fun q => ∃ u h, (-(1/2) ≤ u ∧ u ≤ 1/2) ∧ h ∈ h0 :: hs ∧ q = ⟨u * s.x, h * s.y⟩) (heightfieldAabb2 h0 hs s) := by
  have hl : ((mkRat 1 2 : Rat) : K) = 1/2 := by norm_num
  have hmaxm : hs.foldl (fun a b => max a b) h0 ∈ h0 :: hs := by
    rcases fmax_att hs h0 with h | h
    · rw [h]; exact List.mem_cons_self ..
    · exact List.mem_cons_of_mem _ h
  have hminm : hs.foldl (fun a b => min a b) h0 ∈ h0 :: hs := by
    rcases fmin_att hs h0 with h | h
    · rw [h]; exact List.mem_cons_self ..
    · exact List.mem_cons_of_mem _ h
  have half : (-(1/2) ≤ (1/2 : K) ∧ (1/2 : K) ≤ 1/2) := ⟨by norm_num, le_refl _⟩
  have nhalf : (-(1/2) ≤ -(1/2 : K) ∧ -(1/2 : K) ≤ 1/2) := ⟨le_refl _, by norm_num⟩
  simp only [Touches2, heightfieldAabb2, listMax, listMin, V2.inf, V2.sup, V2.smul, fieldNum_nmin, fieldNum_nmax, fieldNum_lit, hl]
  set mx := hs.foldl (fun a b => max a b) h0
  set mn := hs.foldl (fun a b => min a b) h0
  refine ⟨?_, ?_, ?_, ?_⟩
  · rcases le_total 0 s.x with h | h
    · exact ⟨_, ⟨1/2, h0, half, List.mem_cons_self .., rfl⟩, by show (1/2 : K) * s.x = _; rw [max_eq_right (by linarith)]; ring⟩
    · exact ⟨_, ⟨-(1/2), h0, nhalf, List.mem_cons_self .., rfl⟩, by show (-(1/2) : K) * s.x = _; rw [max_eq_left (by linarith)]; ring⟩
  · rcases le_total 0 s.x with h | h
    · exact ⟨_, ⟨-(1/2), h0, nhalf, List.mem_cons_self .., rfl⟩, by show (-(1/2) : K) * s.x = _; rw [min_eq_left (by linarith)]; ring⟩
    · exact ⟨_, ⟨1/2, h0, half, List.mem_cons_self .., rfl⟩, by show (1/2 : K) * s.x = _; rw [min_eq_right (by linarith)]; ring⟩
  · rcases le_total (mn * s.y) (mx * s.y) with h | h
    · exact ⟨_, ⟨1/2, mx, half, hmaxm, rfl⟩, by show mx * s.y = _; rw [max_eq_right h]⟩
    · exact ⟨_, ⟨1/2, mn, half, hminm, rfl⟩, by show mn * s.y = _; rw [max_eq_left h]⟩
  · rcases le_total (mn * s.y) (mx * s.y) with h | h
    · exact ⟨_, ⟨1/2, mn, half, hminm, rfl⟩, by show mn * s.y = _; rw [min_eq_left h]⟩
    · exact ⟨_, ⟨1/2, mx, half, hmaxm, rfl⟩, by show mx * s.y = _; rw [min_eq_right h]⟩

end C09
