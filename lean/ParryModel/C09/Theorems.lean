import ParryModel.C09.Theorems1
import ParryModel.C09.Theorems6
import ParryModel.C09.Theorems7
import ParryModel.C09.Theorems8
import ParryModel.C09.Theorems9
import ParryModel.C09.Theorems10
import ParryModel.C09.Theorems11
import ParryModel.C09.Theorems12
import ParryModel.C09.Theorems13
import ParryModel.C09.Theorems14
import ParryModel.C09.Theorems15
import ParryModel.C09.Theorems16
import ParryModel.C09.Theorems17
import ParryModel.C09.Theorems18
import ParryModel.C09.Theorems19
import ParryModel.C09.Theorems20
import ParryModel.C09.Theorems21
/-!
# C09 property theorems (index).
* `Theorems1` — interval enclosures (`+ - neg *`, enclose, intersect), box algebra, `scaled`, `transform_by`, composites
  under `scaled` (this was `Theorems.lean` in the first rounds; it imports parts 2–5)
* `Theorems2` — bounding spheres of posed shapes, `SimdAabb` lanes
* `Theorems3` — `Interval / Interval`
* `Theorems4` — `support_map_aabb` contains / tight / least, Cone, Cylinder, Segment, RoundShape instances
* `Theorems5` — point-cloud boxes, `RoundShape` boxes, triangles, swept boxes, composite boxes, HeightField
* `Theorems6` — `find_root_intervals` covers every root (any budget, any thresholds)
* `Theorems7` — the `IntervalFunction` contract holds for the polynomial family (non-vacuity of `Theorems6`)
* `Theorems8` — `Interval::sin` / `Interval::cos` over ℝ
* `Theorems9` — Ball, Cuboid, Capsule boxes contain the posed shape
* `Theorems10` — Capsule / Triangle / Segment bounding spheres, `BoundingSphere::{transform_by, loosened, merged}`
* `Theorems11` — `SimdAabb::{scaled, loosen, dilate_by_factor, contains_local_point, distance_to_local_point, to_merged_aabb}` lanes, `Aabb::tightened`
* `Theorems12` — tightness: `Aabb::transform_by` is exact; Cuboid, Ball, Capsule, Triangle boxes touch the posed shape on every face
* `Theorems13` — `SimdAabb::transform_by` lanes (contain, tight), `BoundingSphere::tightened`, histories of `scaled` on TriMesh / Polyline / HeightField
* `Theorems14` — the sine satisfies the `IntervalFunction` contract over ℝ (mean value theorem): `find_root_intervals` covers every multiple of π
* `Theorems15` — the `dyn Shape` dispatch: `compute_aabb` / `compute_bounding_sphere` / `compute_swept_aabb` contain the posed shape for EVERY convex kind (RoundShape recursively); `Aabb::bounding_sphere`, composite spheres
* `Theorems16` — composite tightness: each face of the cached QBVH root box is a face of a leaf; TriMesh / Polyline boxes touch a vertex / segment point on every face
* `Theorems17` — parry2d: `compute_aabb` / `compute_bounding_sphere` / `compute_swept_aabb` contain the posed shape for every 2-D convex kind
* `Theorems18` — `find_root_intervals_to` = caller's results ++ `find_root_intervals` (any scalar type); cover transfers
* `Theorems19` — `Aabb::scaled_wrt_center`, `Aabb::take_point`, the HeightField box is exact (every face carries a vertex)
* `Theorems20` — parry2d: `Aabb::transform_by` contains / exact, Cuboid / Ball / Capsule / Triangle boxes tight, `Aabb::scaled` and histories in 2-D, ConvexPolygon box exact
* `Theorems21` — parry2d composites: TriMesh / Polyline / Compound root boxes contain every part
-/
