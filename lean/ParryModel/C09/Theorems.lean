import ParryModel.C09.Theorems1
import ParryModel.C09.Theorems6
import ParryModel.C09.Theorems7
import ParryModel.C09.Theorems8
import ParryModel.C09.Theorems9
/-!
# C09 property theorems (index).
* `Theorems1` — interval enclosures (`+ - neg *`, enclose, intersect), box algebra, `scaled`, `transform_by`, composites
  under `scaled` (this was `Theorems.lean` in the first rounds; it imports parts 2–5)
* `Theorems2` — bounding spheres of posed shapes, `SimdAabb` lanes
* `Theorems3` — `Interval / Interval`
* `Theorems4` — `support_map_aabb` contains / tight / least, Cone, Cylinder, Segment, RoundShape instances
* `Theorems5` — point-cloud boxes, `RoundShape` boxes, triangles, swept boxes, composite boxes, HeightField
* `Theorems6` — `find_root_intervals` covers every root (any budget, any thresholds)
* `Theorems7` — the `IntervalFunction` contract holds for the polynomial family (non-vacuity of `Theorems6`)
* `Theorems8` — `Interval::sin` / `Interval::cos` over ℝ
* `Theorems9` — Ball, Cuboid, Capsule boxes contain the posed shape
-/
