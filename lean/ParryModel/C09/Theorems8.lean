import ParryModel.C09.Spec
import ParryModel.C09.Model4
import Mathlib.Analysis.SpecialFunctions.Trigonometric.Basic
/-!
# C09 theorems, part 8: `Interval::sin` and `Interval::cos` enclose the sine / cosine of every point of the interval —
over the reals, with Mathlib's `Real.sin`, `Real.cos`, `Real.pi` and `Int.floor`.

The model (`Model.Interval.sin/cos`) is parametrised by a `TrigOps` record (the `RealField` operations the code calls);
`realTrig` instantiates it with the real functions and the exact constants.  `interval_sin_contains` /
`interval_cos_contains`: for all reals `a ≤ x ≤ b`, the returned interval contains `sin x` (`cos x`) — every
width, every position (the range reduction `orig = ⌊a / 2π⌋·2π` and the two critical-point tests each are shown to
detect every maximum / minimum of the function inside an interval shorter than `2π`; between consecutive critical
points the function is monotone, so its extrema over `[a, b]` are at the end points).
-/
set_option linter.unusedSectionVars false
set_option linter.unusedVariables false
set_option linter.unusedSimpArgs false
set_option linter.style.haveILetI false

namespace C09
open Model Real

/-- the real instance of the `RealField` operations used by `Interval::sin/cos`; `two_pi() = PI + PI` as in simba -/
noncomputable def realTrig : TrigOps ℝ := ⟨Real.sin, Real.cos, fun t => (⌊t⌋ : ℝ), π, π + π, π / 2⟩

/-! ## monotone pieces -/

/-- if no maximum `2πk` of `cos` lies in `[a, b]`, the maximum of `cos` over `[a, b]` is at an end point -/
private theorem cos_le_max (a b x : ℝ) (hax : a ≤ x) (hxb : x ≤ b)
    (hno : ∀ k : ℤ, ¬ (a ≤ 2 * π * k ∧ 2 * π * k ≤ b)) : cos x ≤ max (cos a) (cos b) := by
  have hpi := Real.pi_pos
  have h2pi : (0:ℝ) < 2 * π := by linarith
  set k : ℤ := ⌊x / (2 * π)⌋ with hk
  have hk1 : 2 * π * k ≤ x := by
    have := Int.floor_le (x / (2 * π))
    rw [← hk, le_div_iff₀ h2pi] at this; linarith
  have hk2 : x < 2 * π * (k + 1) := by
    have := Int.lt_floor_add_one (x / (2 * π))
    rw [← hk, div_lt_iff₀ h2pi] at this; linarith
  have ha : 2 * π * k < a := by
    by_contra h; push Not at h; exact hno k ⟨h, hk1.trans hxb⟩
  have hb : b < 2 * π * (k + 1) := by
    by_contra h; push Not at h
    exact hno (k + 1) ⟨by push_cast; linarith, by push_cast; exact h⟩
  by_cases hy : x - 2 * π * k ≤ π
  · have := Real.cos_le_cos_of_nonneg_of_le_pi (x := a - k * (2 * π)) (y := x - k * (2 * π)) (by linarith) (by linarith) (by linarith)
    rw [Real.cos_sub_int_mul_two_pi, Real.cos_sub_int_mul_two_pi] at this
    exact le_max_of_le_left this
  · push Not at hy
    have := Real.cos_le_cos_of_nonneg_of_le_pi (x := 2 * π - (b - k * (2 * π))) (y := 2 * π - (x - k * (2 * π)))
      (by linarith) (by linarith) (by linarith)
    rw [Real.cos_two_pi_sub, Real.cos_two_pi_sub, Real.cos_sub_int_mul_two_pi, Real.cos_sub_int_mul_two_pi] at this
    exact le_max_of_le_right this

/-- shifted form: `g t = cos (t - c)` has its maxima at `c + 2πk` and its minima at `c + π + 2πk` -/
private theorem shifted_le_max (c a b x : ℝ) (hax : a ≤ x) (hxb : x ≤ b)
    (hno : ∀ k : ℤ, ¬ (a ≤ c + 2 * π * k ∧ c + 2 * π * k ≤ b)) :
    cos (x - c) ≤ max (cos (a - c)) (cos (b - c)) :=
  cos_le_max (a - c) (b - c) (x - c) (by linarith) (by linarith)
    (fun k ⟨h1, h2⟩ => hno k ⟨by linarith, by linarith⟩)

private theorem shifted_min_le (c a b x : ℝ) (hax : a ≤ x) (hxb : x ≤ b)
    (hno : ∀ k : ℤ, ¬ (a ≤ c + π + 2 * π * k ∧ c + π + 2 * π * k ≤ b)) :
    min (cos (a - c)) (cos (b - c)) ≤ cos (x - c) := by
  have h := cos_le_max (a - c - π) (b - c - π) (x - c - π) (by linarith) (by linarith)
    (fun k ⟨h1, h2⟩ => hno k ⟨by linarith, by linarith⟩)
  rw [Real.cos_sub_pi, Real.cos_sub_pi, Real.cos_sub_pi] at h
  rcases le_total (cos (a - c)) (cos (b - c)) with hab | hab
  · rw [min_eq_left hab]
    rw [max_eq_left (by linarith)] at h; linarith
  · rw [min_eq_right hab]
    rw [max_eq_right (by linarith)] at h; linarith

/-! ## the range reduction finds every critical point -/

/-- in an interval shorter than `2π` a point `c0 + 2πk` (`0 ≤ c0 < 2π`) can only be `orig + c0` or `orig + c0 + 2π`,
`orig = ⌊a / 2π⌋·2π` -/
private theorem crit_cases (a b c0 : ℝ) (hw : b - a < 2 * π) (hc0 : 0 ≤ c0) (hc1 : c0 < 2 * π) (k : ℤ)
    (hp1 : a ≤ c0 + 2 * π * k) (hp2 : c0 + 2 * π * k ≤ b) :
    c0 + 2 * π * k = (⌊a / (2 * π)⌋ : ℝ) * (2 * π) + c0 ∨ c0 + 2 * π * k = (⌊a / (2 * π)⌋ : ℝ) * (2 * π) + c0 + 2 * π := by
  have hpi := Real.pi_pos
  have h2pi : (0:ℝ) < 2 * π := by linarith
  set n : ℤ := ⌊a / (2 * π)⌋ with hn
  have hn1 : (n:ℝ) * (2 * π) ≤ a := by
    have := Int.floor_le (a / (2 * π))
    rw [← hn, le_div_iff₀ h2pi] at this; exact this
  have hn2 : a < ((n:ℝ) + 1) * (2 * π) := by
    have := Int.lt_floor_add_one (a / (2 * π))
    rw [← hn, div_lt_iff₀ h2pi] at this; exact this
  have hk1 : n ≤ k := by
    by_contra h; push Not at h
    have : (k:ℝ) ≤ n - 1 := by exact_mod_cast Int.le_sub_one_of_lt h
    nlinarith
  have hk2 : k ≤ n + 1 := by
    by_contra h; push Not at h
    have : (n:ℝ) + 1 + 1 ≤ k := by exact_mod_cast Int.add_one_le_of_lt h
    nlinarith
  rcases (by omega : k = n ∨ k = n + 1) with rfl | rfl
  · left; ring
  · right; push_cast; ring

/-! ## the final assembly of `sort` / `enclose` -/

private theorem assemble (u0 u1 v : ℝ) (T1 T2 : Bool) (hv1 : -1 ≤ v) (hv2 : v ≤ 1)
    (hu0 : -1 ≤ u0 ∧ u0 ≤ 1) (hu1 : -1 ≤ u1 ∧ u1 ≤ 1)
    (h1 : T1 = false → v ≤ max u0 u1) (h2 : T2 = false → min u0 u1 ≤ v) :
    letI := fieldNum ℝ Real.sqrt
    IMem (let r0 := Interval.sort u0 u1
          let r1 := if T1 then r0.enclose 1 else r0
          if T2 then r1.enclose (-1) else r1) v := by
  have hs : ∀ p q : ℝ, (@Interval.sort ℝ (fieldNum ℝ Real.sqrt) p q).lo = min p q ∧ (@Interval.sort ℝ (fieldNum ℝ Real.sqrt) p q).hi = max p q := by
    intro p q
    unfold Interval.sort
    split_ifs with h
    · exact ⟨(min_eq_left h.le).symm, (max_eq_right h.le).symm⟩
    · push Not at h; exact ⟨(min_eq_right h).symm, (max_eq_left h).symm⟩
  obtain ⟨e1, e2⟩ := hs u0 u1
  have m1 : min u0 u1 ≤ 1 := le_trans (min_le_left _ _) hu0.2
  have m2 : -1 ≤ min u0 u1 := le_min hu0.1 hu1.1
  have m3 : max u0 u1 ≤ 1 := max_le hu0.2 hu1.2
  have m4 : -1 ≤ max u0 u1 := le_trans hu0.1 (le_max_left _ _)
  have hmm : min u0 u1 ≤ max u0 u1 := le_trans (min_le_left _ _) (le_max_left _ _)
  generalize @Interval.sort ℝ (fieldNum ℝ Real.sqrt) u0 u1 = r0 at e1 e2
  obtain ⟨l, h⟩ := r0
  simp only at e1 e2
  subst e1 e2
  cases T1 <;> cases T2 <;> simp only [Interval.enclose, IMem, if_true, if_false, Bool.false_eq_true] <;>
    (try have a1 := h1 rfl) <;> (try have a2 := h2 rfl) <;> (try split_ifs) <;> (try dsimp only at *) <;> constructor <;> linarith

/-! ## the theorems -/

private theorem two_pi_eq : π + π = 2 * π := by ring

/-- **C09 (`Interval::cos`)**: for all reals `a ≤ x ≤ b`, `cos x` lies in `Interval(a, b).cos()`. -/
theorem interval_cos_contains (a b x : ℝ) (hax : a ≤ x) (hxb : x ≤ b) :
    letI := fieldNum ℝ Real.sqrt
    IMem (Interval.cos realTrig ⟨a, b⟩) (Real.cos x) := by
  have hpi := Real.pi_pos
  unfold Interval.cos
  simp only [realTrig, Interval.width, two_pi_eq]
  by_cases hw : 2 * π ≤ b - a
  · rw [if_pos hw]; exact ⟨Real.neg_one_le_cos x, Real.cos_le_one x⟩
  · rw [if_neg hw]
    push Not at hw
    have key := assemble (cos a) (cos b) (cos x)
      (@Interval.contains ℝ (fieldNum ℝ Real.sqrt) ⟨a, b⟩ ((⌊a / (2 * π)⌋ : ℝ) * (2 * π))
        || @Interval.contains ℝ (fieldNum ℝ Real.sqrt) ⟨a, b⟩ ((⌊a / (2 * π)⌋ : ℝ) * (2 * π) + 2 * π))
      (@Interval.contains ℝ (fieldNum ℝ Real.sqrt) ⟨a, b⟩ ((⌊a / (2 * π)⌋ : ℝ) * (2 * π) + π)
        || @Interval.contains ℝ (fieldNum ℝ Real.sqrt) ⟨a, b⟩ ((⌊a / (2 * π)⌋ : ℝ) * (2 * π) + π + 2 * π))
      (Real.neg_one_le_cos x) (Real.cos_le_one x) ⟨Real.neg_one_le_cos a, Real.cos_le_one a⟩ ⟨Real.neg_one_le_cos b, Real.cos_le_one b⟩ ?_ ?_
    · exact key
    · intro hT
      simp only [Interval.contains, Bool.or_eq_false_iff, Bool.and_eq_false_iff, decide_eq_false_iff_not, not_le] at hT
      have := shifted_le_max 0 a b x hax hxb (fun k ⟨h1, h2⟩ => by
        rcases crit_cases a b 0 hw (le_refl _) (by linarith) k h1 h2 with e | e
        · rw [e] at h1 h2; rcases hT.1 with h | h <;> linarith
        · rw [e] at h1 h2; rcases hT.2 with h | h <;> linarith)
      simpa using this
    · intro hT
      simp only [Interval.contains, Bool.or_eq_false_iff, Bool.and_eq_false_iff, decide_eq_false_iff_not, not_le] at hT
      have := shifted_min_le 0 a b x hax hxb (fun k ⟨h1, h2⟩ => by
        have h1' : a ≤ π + 2 * π * k := by linarith
        have h2' : π + 2 * π * k ≤ b := by linarith
        rcases crit_cases a b π hw hpi.le (by linarith) k h1' h2' with e | e
        · rw [e] at h1' h2'; rcases hT.1 with h | h <;> linarith
        · rw [e] at h1' h2'; rcases hT.2 with h | h <;> linarith)
      simpa using this

/-- **C09 (`Interval::sin`)**: for all reals `a ≤ x ≤ b`, `sin x` lies in `Interval(a, b).sin()`. -/
theorem interval_sin_contains (a b x : ℝ) (hax : a ≤ x) (hxb : x ≤ b) :
    letI := fieldNum ℝ Real.sqrt
    IMem (Interval.sin realTrig ⟨a, b⟩) (Real.sin x) := by
  have hpi := Real.pi_pos
  have hs : ∀ t : ℝ, cos (t - π / 2) = sin t := fun t => Real.cos_sub_pi_div_two t
  unfold Interval.sin
  simp only [realTrig, Interval.width, two_pi_eq]
  by_cases hw : 2 * π ≤ b - a
  · rw [if_pos hw]; exact ⟨Real.neg_one_le_sin x, Real.sin_le_one x⟩
  · rw [if_neg hw]
    push Not at hw
    have key := assemble (sin a) (sin b) (sin x)
      (@Interval.contains ℝ (fieldNum ℝ Real.sqrt) ⟨a, b⟩ ((⌊a / (2 * π)⌋ : ℝ) * (2 * π) + π / 2)
        || @Interval.contains ℝ (fieldNum ℝ Real.sqrt) ⟨a, b⟩ ((⌊a / (2 * π)⌋ : ℝ) * (2 * π) + π / 2 + 2 * π))
      (@Interval.contains ℝ (fieldNum ℝ Real.sqrt) ⟨a, b⟩ ((⌊a / (2 * π)⌋ : ℝ) * (2 * π) + π + π / 2)
        || @Interval.contains ℝ (fieldNum ℝ Real.sqrt) ⟨a, b⟩ ((⌊a / (2 * π)⌋ : ℝ) * (2 * π) + π + π / 2 + 2 * π))
      (Real.neg_one_le_sin x) (Real.sin_le_one x) ⟨Real.neg_one_le_sin a, Real.sin_le_one a⟩ ⟨Real.neg_one_le_sin b, Real.sin_le_one b⟩ ?_ ?_
    · exact key
    · intro hT
      simp only [Interval.contains, Bool.or_eq_false_iff, Bool.and_eq_false_iff, decide_eq_false_iff_not, not_le] at hT
      have := shifted_le_max (π / 2) a b x hax hxb (fun k ⟨h1, h2⟩ => by
        rcases crit_cases a b (π / 2) hw (by linarith) (by linarith) k h1 h2 with e | e
        · rw [e] at h1 h2; rcases hT.1 with h | h <;> linarith
        · rw [e] at h1 h2; rcases hT.2 with h | h <;> linarith)
      rw [hs, hs, hs] at this; exact this
    · intro hT
      simp only [Interval.contains, Bool.or_eq_false_iff, Bool.and_eq_false_iff, decide_eq_false_iff_not, not_le] at hT
      have := shifted_min_le (π / 2) a b x hax hxb (fun k ⟨h1, h2⟩ => by
        have h1' : a ≤ (π + π / 2) + 2 * π * k := by linarith
        have h2' : (π + π / 2) + 2 * π * k ≤ b := by linarith
        rcases crit_cases a b (π + π / 2) hw (by linarith) (by linarith) k h1' h2' with e | e
        · rw [e] at h1' h2'; rcases hT.1 with h | h <;> linarith
        · rw [e] at h1' h2'; rcases hT.2 with h | h <;> linarith)
      rw [hs, hs, hs] at this; exact this

example : (0:ℝ) ≤ 1 ∧ (1:ℝ) ≤ 7 := by norm_num

end C09
