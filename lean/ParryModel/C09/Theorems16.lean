import ParryModel.C09.Theorems5
import ParryModel.C09.Theorems12
/-!
# C09 theorems, part 16: tightness of the composite boxes (the cached QBVH root box is exact)

The root box of a QBVH built with dilation 0 is the lane-wise min / max over the leaf boxes, starting from the invalid
sentinel `(+MAX, −MAX)`.  When there is at least one leaf and every leaf coordinate lies in `[−MAX, MAX]` (always the case
for finite floats), **each face of the root box is a face of some leaf box** (`root_aabb_tight`), hence
* `TriMesh::local_aabb`: each face carries a vertex of an indexed triangle (`trimesh_local_aabb_tight`);
* `Polyline::local_aabb`: each face carries a point of an indexed segment (`polyline_local_aabb_tight`).
Together with the containment theorems of part 5 the cached box equals the brute-force box of the parts.
-/
set_option linter.unusedSectionVars false
set_option linter.unusedVariables false
set_option linter.unusedSimpArgs false
set_option linter.style.haveILetI false

namespace C09
open Model IsoLemmas

variable {K : Type} [Field K] [LinearOrder K] [IsStrictOrderedRing K] (sq : K → K)

/-- generic fold lemma: for a "height" `φ` with `φ (a.merged b) = max (φ a) (φ b)` -/
private theorem foldl_merged_phi (φ : Aabb3 K → K)
    (hφ : ∀ a b : Aabb3 K, φ (@Aabb3.merged K (fieldNum K sq) a b) = max (φ a) (φ b)) (ls : List (Aabb3 K)) :
    ∀ acc : Aabb3 K,
      (φ (ls.foldl (fun a b => @Aabb3.merged K (fieldNum K sq) a b) acc) = φ acc ∨
        ∃ l ∈ ls, φ (ls.foldl (fun a b => @Aabb3.merged K (fieldNum K sq) a b) acc) = φ l) ∧
      (∀ l ∈ ls, φ l ≤ φ (ls.foldl (fun a b => @Aabb3.merged K (fieldNum K sq) a b) acc)) ∧
      φ acc ≤ φ (ls.foldl (fun a b => @Aabb3.merged K (fieldNum K sq) a b) acc) := by
  induction ls with
  | nil => intro acc; exact ⟨Or.inl rfl, (fun l h => by cases h), le_refl _⟩
  | cons x xs ih =>
    intro acc
    obtain ⟨h1, h2, h3⟩ := ih (@Aabb3.merged K (fieldNum K sq) acc x)
    simp only [List.foldl_cons]
    rw [hφ] at h1 h3
    refine ⟨?_, ?_, le_trans (le_max_left _ _) h3⟩
    · rcases h1 with h | ⟨l, hl, h⟩
      · rcases le_total (φ acc) (φ x) with hle | hle
        · right; exact ⟨x, List.mem_cons_self .., by rw [h, max_eq_right hle]⟩
        · left; rw [h, max_eq_left hle]
      · right; exact ⟨l, List.mem_cons_of_mem _ hl, h⟩
    · intro l hl
      rcases List.mem_cons.1 hl with rfl | hl
      · exact le_trans (le_max_right _ _) h3
      · exact h2 l hl

private theorem root_phi (φ : Aabb3 K → K)
    (hφ : ∀ a b : Aabb3 K, φ (@Aabb3.merged K (fieldNum K sq) a b) = max (φ a) (φ b)) (rmax : K) (leaves : List (Aabb3 K))
    (hne : leaves ≠ []) (hb : ∀ l ∈ leaves, φ (@Aabb3.invalid K (fieldNum K sq) rmax) ≤ φ l) :
    ∃ l ∈ leaves, φ (@rootAabb3 K (fieldNum K sq) rmax leaves) = φ l := by
  obtain ⟨h1, h2, _⟩ := foldl_merged_phi sq φ hφ leaves (@Aabb3.invalid K (fieldNum K sq) rmax)
  rcases h1 with h | h
  · obtain ⟨l0, hl0⟩ := List.exists_mem_of_ne_nil leaves hne
    refine ⟨l0, hl0, le_antisymm ?_ (h2 l0 hl0)⟩
    show φ (leaves.foldl (fun a b => @Aabb3.merged K (fieldNum K sq) a b) (@Aabb3.invalid K (fieldNum K sq) rmax)) ≤ φ l0
    rw [h]; exact hb l0 hl0
  · exact h

/-- all six coordinates of both corners lie in `[-rmax, rmax]` -/
def InRange (rmax : K) (l : Aabb3 K) : Prop :=
  (l.mins.x ≤ rmax ∧ l.mins.y ≤ rmax ∧ l.mins.z ≤ rmax) ∧ (-rmax ≤ l.maxs.x ∧ -rmax ≤ l.maxs.y ∧ -rmax ≤ l.maxs.z)

/-- **the QBVH root box is tight**: each of its six faces is the corresponding face of one of the leaf boxes. -/
theorem root_aabb_tight (rmax : K) (leaves : List (Aabb3 K)) (hne : leaves ≠ []) (hb : ∀ l ∈ leaves, InRange rmax l) :
    letI := fieldNum K sq
    (∃ l ∈ leaves, (rootAabb3 rmax leaves).maxs.x = l.maxs.x) ∧ (∃ l ∈ leaves, (rootAabb3 rmax leaves).mins.x = l.mins.x) ∧
    (∃ l ∈ leaves, (rootAabb3 rmax leaves).maxs.y = l.maxs.y) ∧ (∃ l ∈ leaves, (rootAabb3 rmax leaves).mins.y = l.mins.y) ∧
    (∃ l ∈ leaves, (rootAabb3 rmax leaves).maxs.z = l.maxs.z) ∧ (∃ l ∈ leaves, (rootAabb3 rmax leaves).mins.z = l.mins.z) := by
  have mx : ∀ a b : K, -(min a b) = max (-a) (-b) := fun a b => (max_neg_neg a b).symm
  refine ⟨?_, ?_, ?_, ?_, ?_, ?_⟩
  · exact root_phi sq (fun b => b.maxs.x) (fun a b => by simp only [Aabb3.merged, V3.sup, fieldNum_nmax]) rmax leaves hne
      (fun l hl => by simp only [Aabb3.invalid]; exact (hb l hl).2.1)
  · obtain ⟨l, hl, h⟩ := root_phi sq (fun b => -b.mins.x) (fun a b => by simp only [Aabb3.merged, V3.inf, fieldNum_nmin, mx]) rmax leaves hne
      (fun l hl => by simp only [Aabb3.invalid]; linarith [(hb l hl).1.1])
    exact ⟨l, hl, neg_injective h⟩
  · exact root_phi sq (fun b => b.maxs.y) (fun a b => by simp only [Aabb3.merged, V3.sup, fieldNum_nmax]) rmax leaves hne
      (fun l hl => by simp only [Aabb3.invalid]; exact (hb l hl).2.2.1)
  · obtain ⟨l, hl, h⟩ := root_phi sq (fun b => -b.mins.y) (fun a b => by simp only [Aabb3.merged, V3.inf, fieldNum_nmin, mx]) rmax leaves hne
      (fun l hl => by simp only [Aabb3.invalid]; linarith [(hb l hl).1.2.1])
    exact ⟨l, hl, neg_injective h⟩
  · exact root_phi sq (fun b => b.maxs.z) (fun a b => by simp only [Aabb3.merged, V3.sup, fieldNum_nmax]) rmax leaves hne
      (fun l hl => by simp only [Aabb3.invalid]; exact (hb l hl).2.2.2)
  · obtain ⟨l, hl, h⟩ := root_phi sq (fun b => -b.mins.z) (fun a b => by simp only [Aabb3.merged, V3.inf, fieldNum_nmin, mx]) rmax leaves hne
      (fun l hl => by simp only [Aabb3.invalid]; linarith [(hb l hl).1.2.2])
    exact ⟨l, hl, neg_injective h⟩

example : InRange (10:ℚ) ⟨⟨0, 1, 2⟩, ⟨3, 4, 5⟩⟩ := by simp [InRange]; norm_num

/-! ## TriMesh, Polyline -/

private theorem mapM_fwd {α β : Type} (f : α → Option β) :
    ∀ (l : List α) (r : List β), l.mapM f = some r → ∀ x ∈ l, ∃ y ∈ r, f x = some y := by
  intro l
  induction l with
  | nil => intro r _ x hx; cases hx
  | cons a as ih =>
    intro r h x hx
    rw [List.mapM_cons] at h
    cases hfa : f a with
    | none => simp [hfa] at h
    | some y =>
      cases hrest : as.mapM f with
      | none => simp [hfa, hrest] at h
      | some ys =>
        simp [hfa, hrest] at h
        subst h
        rcases List.mem_cons.1 hx with rfl | hx
        · exact ⟨y, List.mem_cons_self .., hfa⟩
        · obtain ⟨y', hy', e⟩ := ih ys hrest x hx
          exact ⟨y', List.mem_cons_of_mem _ hy', e⟩

private theorem mapM_rev {α β : Type} (f : α → Option β) :
    ∀ (l : List α) (r : List β), l.mapM f = some r → ∀ y ∈ r, ∃ x ∈ l, f x = some y := by
  intro l
  induction l with
  | nil => intro r h y hy; simp at h; subst h; cases hy
  | cons a as ih =>
    intro r h y hy
    rw [List.mapM_cons] at h
    cases hfa : f a with
    | none => simp [hfa] at h
    | some y0 =>
      cases hrest : as.mapM f with
      | none => simp [hfa, hrest] at h
      | some ys =>
        simp [hfa, hrest] at h
        subst h
        rcases List.mem_cons.1 hy with rfl | hy
        · exact ⟨a, List.mem_cons_self .., hfa⟩
        · obtain ⟨x, hx, e⟩ := ih ys hrest y hy
          exact ⟨x, List.mem_cons_of_mem _ hx, e⟩

/-- every coordinate of every vertex lies in `[-rmax, rmax]` (`rmax = Real::MAX`: true of every finite float) -/
def VertsInRange (rmax : K) (vs : List (V3 K)) : Prop :=
  ∀ v ∈ vs, (-rmax ≤ v.x ∧ v.x ≤ rmax) ∧ (-rmax ≤ v.y ∧ v.y ≤ rmax) ∧ (-rmax ≤ v.z ∧ v.z ≤ rmax)

/-- **`TriMesh::local_aabb` is exact**: with a non-empty in-range index buffer, each face of the cached root box carries
a vertex of an indexed triangle — the cached box is the brute-force box of the triangles. -/
theorem trimesh_local_aabb_tight (rmax : K) (vs : List (V3 K)) (idx : List (Nat × Nat × Nat)) (box : Aabb3 K)
    (hne : idx ≠ []) (hr : VertsInRange rmax vs) :
    letI := fieldNum K sq
    trimeshLocalAabb3 rmax vs idx = some box →
    Touches3 (fun q => ∃ t ∈ idx, ∃ a b c, vs[t.1]? = some a ∧ vs[t.2.1]? = some b ∧ vs[t.2.2]? = some c ∧
      (q = a ∨ q = b ∨ q = c)) box := by
  intro h
  simp only [trimeshLocalAabb3, Option.map_eq_some_iff] at h
  obtain ⟨leaves, hl, rfl⟩ := h
  -- every leaf is the box of an indexed triangle
  have leaf : ∀ l ∈ leaves, ∃ t ∈ idx, ∃ a b c, vs[t.1]? = some a ∧ vs[t.2.1]? = some b ∧ vs[t.2.2]? = some c ∧
      l = @triangleLocalAabb K (fieldNum K sq) a b c := by
    intro l hlm
    obtain ⟨t, ht, e⟩ := mapM_rev _ _ _ hl l hlm
    cases ha : vs[t.1]? with
    | none => simp [ha] at e
    | some a =>
      cases hb : vs[t.2.1]? with
      | none => simp [ha, hb] at e
      | some b =>
        cases hc : vs[t.2.2]? with
        | none => simp [ha, hb, hc] at e
        | some c =>
          simp only [ha, hb, hc, Option.bind_eq_bind, Option.bind_some, Option.pure_def, Option.some.injEq] at e
          exact ⟨t, ht, a, b, c, ha, hb, hc, e.symm⟩
  have hne' : leaves ≠ [] := by
    obtain ⟨t, ht⟩ := List.exists_mem_of_ne_nil idx hne
    obtain ⟨y, hy, _⟩ := mapM_fwd _ _ _ hl t ht
    exact List.ne_nil_of_mem hy
  have hin : ∀ l ∈ leaves, InRange rmax l := by
    intro l hlm
    obtain ⟨t, _, a, b, c, ha, hb, hc, rfl⟩ := leaf l hlm
    have ma := hr a (List.mem_of_getElem? ha)
    simp only [InRange, triangleLocalAabb, fieldNum_nmin, fieldNum_nmax]
    refine ⟨⟨?_, ?_, ?_⟩, ?_, ?_, ?_⟩
    · exact le_trans (le_trans (min_le_left _ _) (min_le_left _ _)) ma.1.2
    · exact le_trans (le_trans (min_le_left _ _) (min_le_left _ _)) ma.2.1.2
    · exact le_trans (le_trans (min_le_left _ _) (min_le_left _ _)) ma.2.2.2
    · exact le_trans ma.1.1 (le_trans (le_max_left _ _) (le_max_left _ _))
    · exact le_trans ma.2.1.1 (le_trans (le_max_left _ _) (le_max_left _ _))
    · exact le_trans ma.2.2.1 (le_trans (le_max_left _ _) (le_max_left _ _))
  obtain ⟨f1, f2, f3, f4, f5, f6⟩ := root_aabb_tight sq rmax leaves hne' hin
  have face : ∀ l ∈ leaves, Touches3 (fun q => ∃ t ∈ idx, ∃ a b c, vs[t.1]? = some a ∧ vs[t.2.1]? = some b ∧ vs[t.2.2]? = some c ∧
      (q = a ∨ q = b ∨ q = c)) l := by
    intro l hlm
    obtain ⟨t, ht, a, b, c, ha, hb, hc, rfl⟩ := leaf l hlm
    obtain ⟨⟨q1, m1, e1⟩, ⟨q2, m2, e2⟩, ⟨q3, m3, e3⟩, ⟨q4, m4, e4⟩, ⟨q5, m5, e5⟩, ⟨q6, m6, e6⟩⟩ := triangle_local_aabb_tight sq a b c
    exact ⟨⟨q1, ⟨t, ht, a, b, c, ha, hb, hc, m1⟩, e1⟩, ⟨q2, ⟨t, ht, a, b, c, ha, hb, hc, m2⟩, e2⟩, ⟨q3, ⟨t, ht, a, b, c, ha, hb, hc, m3⟩, e3⟩,
      ⟨q4, ⟨t, ht, a, b, c, ha, hb, hc, m4⟩, e4⟩, ⟨q5, ⟨t, ht, a, b, c, ha, hb, hc, m5⟩, e5⟩, ⟨q6, ⟨t, ht, a, b, c, ha, hb, hc, m6⟩, e6⟩⟩
  obtain ⟨l1, hl1, e1⟩ := f1; obtain ⟨l2, hl2, e2⟩ := f2; obtain ⟨l3, hl3, e3⟩ := f3
  obtain ⟨l4, hl4, e4⟩ := f4; obtain ⟨l5, hl5, e5⟩ := f5; obtain ⟨l6, hl6, e6⟩ := f6
  refine ⟨?_, ?_, ?_, ?_, ?_, ?_⟩
  · obtain ⟨q, hq, e⟩ := (face l1 hl1).1; exact ⟨q, hq, by rw [e, e1]⟩
  · obtain ⟨q, hq, e⟩ := (face l2 hl2).2.1; exact ⟨q, hq, by rw [e, e2]⟩
  · obtain ⟨q, hq, e⟩ := (face l3 hl3).2.2.1; exact ⟨q, hq, by rw [e, e3]⟩
  · obtain ⟨q, hq, e⟩ := (face l4 hl4).2.2.2.1; exact ⟨q, hq, by rw [e, e4]⟩
  · obtain ⟨q, hq, e⟩ := (face l5 hl5).2.2.2.2.1; exact ⟨q, hq, by rw [e, e5]⟩
  · obtain ⟨q, hq, e⟩ := (face l6 hl6).2.2.2.2.2; exact ⟨q, hq, by rw [e, e6]⟩

/-- **`Polyline::local_aabb` is exact**: each face of the cached root box carries a point of an indexed segment. -/
theorem polyline_local_aabb_tight (rmax : K) (vs : List (V3 K)) (idx : List (Nat × Nat)) (box : Aabb3 K)
    (hne : idx ≠ []) (hr : VertsInRange rmax vs) :
    letI := fieldNum K sq
    polylineLocalAabb3 rmax vs idx = some box →
    Touches3 (fun q => ∃ t ∈ idx, ∃ a b, vs[t.1]? = some a ∧ vs[t.2]? = some b ∧ (Segment3.mk a b).Mem q) box := by
  intro h
  simp only [polylineLocalAabb3, Option.map_eq_some_iff] at h
  obtain ⟨leaves, hl, rfl⟩ := h
  have leaf : ∀ l ∈ leaves, ∃ t ∈ idx, ∃ a b, vs[t.1]? = some a ∧ vs[t.2]? = some b ∧
      l = @segmentLocalAabb3 K (fieldNum K sq) a b := by
    intro l hlm
    obtain ⟨t, ht, e⟩ := mapM_rev _ _ _ hl l hlm
    cases ha : vs[t.1]? with
    | none => simp [ha] at e
    | some a =>
      cases hb : vs[t.2]? with
      | none => simp [ha, hb] at e
      | some b =>
        simp only [ha, hb, Option.bind_eq_bind, Option.bind_some, Option.pure_def, Option.some.injEq] at e
        exact ⟨t, ht, a, b, ha, hb, e.symm⟩
  have hne' : leaves ≠ [] := by
    obtain ⟨t, ht⟩ := List.exists_mem_of_ne_nil idx hne
    obtain ⟨y, hy, _⟩ := mapM_fwd _ _ _ hl t ht
    exact List.ne_nil_of_mem hy
  have hin : ∀ l ∈ leaves, InRange rmax l := by
    intro l hlm
    obtain ⟨t, _, a, b, ha, hb, rfl⟩ := leaf l hlm
    have ma := hr a (List.mem_of_getElem? ha)
    have hmem : @Segment3.Mem K (fieldNum K sq) ⟨a, b⟩ a := ⟨0, le_refl _, zero_le_one, by
      obtain ⟨x, y, z⟩ := a; simp [V3.add, V3.sub, V3.smul]⟩
    obtain ⟨⟨x1, x2⟩, ⟨y1, y2⟩, z1, z2⟩ := (segment_local_aabb3_contains_tight sq a b).1 a hmem
    exact ⟨⟨le_trans x1 ma.1.2, le_trans y1 ma.2.1.2, le_trans z1 ma.2.2.2⟩, le_trans ma.1.1 x2, le_trans ma.2.1.1 y2, le_trans ma.2.2.1 z2⟩
  obtain ⟨f1, f2, f3, f4, f5, f6⟩ := root_aabb_tight sq rmax leaves hne' hin
  have face : ∀ l ∈ leaves, Touches3 (fun q => ∃ t ∈ idx, ∃ a b, vs[t.1]? = some a ∧ vs[t.2]? = some b ∧
      @Segment3.Mem K (fieldNum K sq) ⟨a, b⟩ q) l := by
    intro l hlm
    obtain ⟨t, ht, a, b, ha, hb, rfl⟩ := leaf l hlm
    obtain ⟨⟨q1, m1, e1⟩, ⟨q2, m2, e2⟩, ⟨q3, m3, e3⟩, ⟨q4, m4, e4⟩, ⟨q5, m5, e5⟩, ⟨q6, m6, e6⟩⟩ := (segment_local_aabb3_contains_tight sq a b).2
    exact ⟨⟨q1, ⟨t, ht, a, b, ha, hb, m1⟩, e1⟩, ⟨q2, ⟨t, ht, a, b, ha, hb, m2⟩, e2⟩, ⟨q3, ⟨t, ht, a, b, ha, hb, m3⟩, e3⟩,
      ⟨q4, ⟨t, ht, a, b, ha, hb, m4⟩, e4⟩, ⟨q5, ⟨t, ht, a, b, ha, hb, m5⟩, e5⟩, ⟨q6, ⟨t, ht, a, b, ha, hb, m6⟩, e6⟩⟩
  obtain ⟨l1, hl1, e1⟩ := f1; obtain ⟨l2, hl2, e2⟩ := f2; obtain ⟨l3, hl3, e3⟩ := f3
  obtain ⟨l4, hl4, e4⟩ := f4; obtain ⟨l5, hl5, e5⟩ := f5; obtain ⟨l6, hl6, e6⟩ := f6
  refine ⟨?_, ?_, ?_, ?_, ?_, ?_⟩
  · obtain ⟨q, hq, e⟩ := (face l1 hl1).1; exact ⟨q, hq, by rw [e, e1]⟩
  · obtain ⟨q, hq, e⟩ := (face l2 hl2).2.1; exact ⟨q, hq, by rw [e, e2]⟩
  · obtain ⟨q, hq, e⟩ := (face l3 hl3).2.2.1; exact ⟨q, hq, by rw [e, e3]⟩
  · obtain ⟨q, hq, e⟩ := (face l4 hl4).2.2.2.1; exact ⟨q, hq, by rw [e, e4]⟩
  · obtain ⟨q, hq, e⟩ := (face l5 hl5).2.2.2.2.1; exact ⟨q, hq, by rw [e, e5]⟩
  · obtain ⟨q, hq, e⟩ := (face l6 hl6).2.2.2.2.2; exact ⟨q, hq, by rw [e, e6]⟩

example : VertsInRange (10:ℚ) [⟨0, 1, 2⟩, ⟨3, 4, 5⟩] := by
  intro v hv; simp at hv; rcases hv with rfl | rfl <;> norm_num

/-- **`Compound::local_aabb` is exact w.r.t. its parts' boxes**: each face of the compound box is the corresponding face of
the `compute_aabb(delta)` of one of the parts (which, for the closed-form kinds, touches the posed part: parts 4, 5, 12). -/
theorem compound_local_aabb_tight (rmax hm : K) (parts : List (Iso3 K × BShape3 K)) (box : Aabb3 K) (hne : parts ≠ []) :
    letI := fieldNum K sq
    compoundLocalAabb3 rmax hm parts = some box →
    (∀ ms ∈ parts, ∀ l, ms.2.aabb hm ms.1 = some l → InRange rmax l) →
    (∃ ms ∈ parts, ∃ l, ms.2.aabb hm ms.1 = some l ∧ box.maxs.x = l.maxs.x) ∧
    (∃ ms ∈ parts, ∃ l, ms.2.aabb hm ms.1 = some l ∧ box.mins.x = l.mins.x) ∧
    (∃ ms ∈ parts, ∃ l, ms.2.aabb hm ms.1 = some l ∧ box.maxs.y = l.maxs.y) ∧
    (∃ ms ∈ parts, ∃ l, ms.2.aabb hm ms.1 = some l ∧ box.mins.y = l.mins.y) ∧
    (∃ ms ∈ parts, ∃ l, ms.2.aabb hm ms.1 = some l ∧ box.maxs.z = l.maxs.z) ∧
    (∃ ms ∈ parts, ∃ l, ms.2.aabb hm ms.1 = some l ∧ box.mins.z = l.mins.z) := by
  intro h hr
  simp only [compoundLocalAabb3, Option.map_eq_some_iff] at h
  obtain ⟨leaves, hl, rfl⟩ := h
  have leaf : ∀ l ∈ leaves, ∃ ms ∈ parts, @BShape3.aabb K (fieldNum K sq) hm ms.1 ms.2 = some l := fun l hlm => mapM_rev _ _ _ hl l hlm
  have hne' : leaves ≠ [] := by
    obtain ⟨t, ht⟩ := List.exists_mem_of_ne_nil parts hne
    obtain ⟨y, hy, _⟩ := mapM_fwd _ _ _ hl t ht
    exact List.ne_nil_of_mem hy
  have hin : ∀ l ∈ leaves, InRange rmax l := by
    intro l hlm
    obtain ⟨ms, hms, e⟩ := leaf l hlm
    exact hr ms hms l e
  obtain ⟨⟨l1, h1, e1⟩, ⟨l2, h2, e2⟩, ⟨l3, h3, e3⟩, ⟨l4, h4, e4⟩, ⟨l5, h5, e5⟩, ⟨l6, h6, e6⟩⟩ := root_aabb_tight sq rmax leaves hne' hin
  refine ⟨?_, ?_, ?_, ?_, ?_, ?_⟩
  · obtain ⟨ms, hms, e⟩ := leaf l1 h1; exact ⟨ms, hms, l1, e, e1⟩
  · obtain ⟨ms, hms, e⟩ := leaf l2 h2; exact ⟨ms, hms, l2, e, e2⟩
  · obtain ⟨ms, hms, e⟩ := leaf l3 h3; exact ⟨ms, hms, l3, e, e3⟩
  · obtain ⟨ms, hms, e⟩ := leaf l4 h4; exact ⟨ms, hms, l4, e, e4⟩
  · obtain ⟨ms, hms, e⟩ := leaf l5 h5; exact ⟨ms, hms, l5, e, e5⟩
  · obtain ⟨ms, hms, e⟩ := leaf l6 h6; exact ⟨ms, hms, l6, e, e6⟩

end C09
