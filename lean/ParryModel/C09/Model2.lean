import ParryModel.C09.Model
/-!
# C09 model, part 2: bounding spheres, `SimdAabb` lanes, `Interval` division.
-/
namespace Model
variable {K : Type} [Num K]

/-! ## bounding spheres of shapes (posed) -/
namespace Sphere3
def transformBy (s : Sphere3 K) (m : Iso3 K) : Sphere3 K := ⟨m.act s.center, s.radius⟩
def intersects (a b : Sphere3 K) : Bool :=
  let d := (b.center.sub a.center).normSq
  let sr := a.radius + b.radius
  decide (d ≤ sr * sr)
def contains (a b : Sphere3 K) : Bool :=
  decide ((b.center.sub a.center).norm + b.radius ≤ a.radius)
def loosened (a : Sphere3 K) (m : K) : Sphere3 K := ⟨a.center, a.radius + m⟩
/-- `BoundingSphere::merge` -/
def merged (a b : Sphere3 K) : Sphere3 K :=
  let d := b.center.sub a.center
  let norm := d.norm
  let dir := d.sdiv norm
  if neq norm 0 then
    if a.radius < b.radius then ⟨a.center, b.radius⟩ else a
  else
    let sc := a.center.dot dir
    let oc := b.center.dot dir
    let right := if oc + b.radius < sc + a.radius then a.center.add (dir.smul a.radius) else b.center.add (dir.smul b.radius)
    let left := if -oc + b.radius < -sc + a.radius then a.center.sub (dir.smul a.radius) else b.center.sub (dir.smul b.radius)
    let c := V3.center left right
    ⟨c, (right.sub c).norm⟩
end Sphere3

def ballSphere (r : K) (m : Iso3 K) : Sphere3 K := (Sphere3.mk V3.zero r).transformBy m
def cuboidSphere (he : V3 K) (m : Iso3 K) : Sphere3 K := (Sphere3.mk V3.zero he.norm).transformBy m
/-- `Capsule::bounding_sphere`: centre = midpoint of the segment, radius = r + |b-a|/2 -/
def capsuleSphere (a b : V3 K) (r : K) (m : Iso3 K) : Sphere3 K :=
  (Sphere3.mk (V3.center a b) (r + (b.sub a).norm / two)).transformBy m
def coneSphere (hh r : K) (m : Iso3 K) : Sphere3 K := (Sphere3.mk V3.zero (Num.sqrt (r * r + hh * hh))).transformBy m
def cylinderSphere (hh r : K) (m : Iso3 K) : Sphere3 K := (Sphere3.mk V3.zero (Num.sqrt (r * r + hh * hh))).transformBy m
/-- `utils::center` + `point_cloud_bounding_sphere_with_center` -/
def pointCloudSphere (p0 : V3 K) (ps : List (V3 K)) : Sphere3 K :=
  let denom : K := (1 : K) / (ps.foldl (fun n _ => n + 1) (1 : K))
  let c := ps.foldl (fun acc p => acc.add (p.smul denom)) (p0.smul denom)
  let sq := (p0 :: ps).foldl (fun acc p => let d := (c.sub p).normSq; if acc < d then d else acc) (0 : K)
  ⟨c, Num.sqrt sq⟩
def triangleSphere (a b c : V3 K) (m : Iso3 K) : Sphere3 K := (pointCloudSphere a [b, c]).transformBy m
def segmentSphere (a b : V3 K) (m : Iso3 K) : Sphere3 K := (pointCloudSphere a [b]).transformBy m

/-! ## `SimdAabb`: four lanes; every operation is the scalar operation on each lane -/
structure SimdAabb3 (K : Type) where
  l0 : Aabb3 K
  l1 : Aabb3 K
  l2 : Aabb3 K
  l3 : Aabb3 K
namespace SimdAabb3
def lanes (s : SimdAabb3 K) : List (Aabb3 K) := [s.l0, s.l1, s.l2, s.l3]
def map2 {β} (f : Aabb3 K → Aabb3 K → β) (a b : SimdAabb3 K) : List β :=
  [f a.l0 b.l0, f a.l1 b.l1, f a.l2 b.l2, f a.l3 b.l3]
def contains (a b : SimdAabb3 K) : List Bool := map2 Aabb3.contains a b
def intersects (a b : SimdAabb3 K) : List Bool := map2 Aabb3.intersects a b
/-- scalar `SimdAabb::contains_local_point` lane: `mins ≤ p ∧ maxs ≥ p` -/
def lanePoint (b : Aabb3 K) (p : V3 K) : Bool := Aabb3.ple b.mins p && Aabb3.ple p b.maxs
def scaled (a : SimdAabb3 K) (s : V3 K) : List (Aabb3 K) := a.lanes.map (·.scaled s)
/-- `loosen`: `mins -= margin; maxs += margin` -/
def loosen (a : SimdAabb3 K) (m : K) : List (Aabb3 K) :=
  a.lanes.map fun b => ⟨b.mins.sub ⟨m, m, m⟩, b.maxs.add ⟨m, m, m⟩⟩
/-- `dilate_by_factor` lane: invalid boxes (mins.x > maxs.x) are left alone -/
def dilateLane (b : Aabb3 K) (factor : K) : Aabb3 K :=
  let f := if b.mins.x ≤ b.maxs.x then factor else 0
  let dil := (b.maxs.smul f).sub (b.mins.smul f)
  ⟨b.mins.sub dil, b.maxs.add dil⟩
/-- `to_merged_aabb`: horizontal min / max over the lanes -/
def toMerged (a : SimdAabb3 K) : Aabb3 K :=
  let hmin (f : Aabb3 K → K) := nmin (nmin (nmin (f a.l0) (f a.l1)) (f a.l2)) (f a.l3)
  let hmax (f : Aabb3 K → K) := nmax (nmax (nmax (f a.l0) (f a.l1)) (f a.l2)) (f a.l3)
  ⟨⟨hmin (·.mins.x), hmin (·.mins.y), hmin (·.mins.z)⟩, ⟨hmax (·.maxs.x), hmax (·.maxs.y), hmax (·.maxs.z)⟩⟩
/-- `distance_to_local_point` lane -/
def laneDistPoint (b : Aabb3 K) (p : V3 K) : K :=
  (((b.mins.sub p).sup (p.sub b.maxs)).sup V3.zero).norm
end SimdAabb3

/-! ## Interval division (extended values) -/
inductive Ext (K : Type) where
  | negInf : Ext K
  | fin : K → Ext K
  | posInf : Ext K

structure EInterval (K : Type) where
  lo : Ext K
  hi : Ext K

/-- `Div<Interval<T>> for Interval<T>`: `(first piece, optional second piece)` -/
def Interval.div (x y : Interval K) : EInterval K × Option (EInterval K) :=
  let a1 := x.lo; let a2 := x.hi; let b1 := y.lo; let b2 := y.hi
  let f (v : K) : Ext K := Ext.fin v
  if b1 ≤ 0 ∧ 0 ≤ b2 then
    if a2 < 0 then
      if neq b2 0 then (⟨f (a2 / b1), .posInf⟩, none)
      else if !(neq b1 0) then (⟨.negInf, f (a2 / b2)⟩, some ⟨f (a2 / b1), .posInf⟩)
      else (⟨.negInf, f (a2 / b2)⟩, none)
    else if a1 ≤ 0 then (⟨.negInf, .posInf⟩, none)
    else if neq b2 0 then (⟨.negInf, f (a1 / b1)⟩, none)
    else if !(neq b1 0) then (⟨.negInf, f (a1 / b1)⟩, some ⟨f (a1 / b2), .posInf⟩)
    else (⟨f (a1 / b2), .posInf⟩, none)
  else if a2 ≤ 0 then
    if b2 < 0 then (⟨f (a2 / b1), f (a1 / b2)⟩, none)
    else (⟨f (a1 / b1), f (a2 / b2)⟩, none)
  else if a1 < 0 then
    if b2 < 0 then (⟨f (a2 / b2), f (a1 / b2)⟩, none)
    else (⟨f (a1 / b1), f (a2 / b1)⟩, none)
  else if b2 < 0 then (⟨f (a2 / b2), f (a1 / b1)⟩, none)
  else (⟨f (a1 / b2), f (a2 / b1)⟩, none)

end Model
