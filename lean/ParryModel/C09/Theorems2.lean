import ParryModel.IsoLemmas
import ParryModel.Shapes
import ParryModel.C09.Model2
/-!
# C09 theorems, part 2: bounding spheres of posed shapes contain the shape; `SimdAabb` lanes are the scalar operations.
(imported by `C09/Theorems.lean`)
-/
namespace C09
open Model IsoLemmas

variable {K : Type} [Field K] [LinearOrder K] [IsStrictOrderedRing K] (sq : K → K)

/-- point of a sphere (specification) -/
def SMem (s : Sphere3 K) (p : V3 K) : Prop :=
  (p.x - s.center.x) * (p.x - s.center.x) + (p.y - s.center.y) * (p.y - s.center.y) + (p.z - s.center.z) * (p.z - s.center.z)
    ≤ s.radius * s.radius

private theorem sq_le_of_abs_le (x h : K) (h1 : -h ≤ x) (h2 : x ≤ h) : x * x ≤ h * h := by
  nlinarith [mul_nonneg (sub_nonneg.2 h2) (by linarith : (0:K) ≤ x + h)]

/-- **cuboid**: for every unit-quaternion pose, every point of the posed cuboid lies in `Cuboid::bounding_sphere(pos)`. -/
theorem cuboid_sphere_contains (c : Cuboid3 K) (m : Iso3 K) (p : V3 K) (hsq : LawfulSqrt sq)
    (hq : m.qi * m.qi + m.qj * m.qj + m.qk * m.qk + m.qw * m.qw = 1) :
    letI := fieldNum K sq
    c.Mem p → SMem (cuboidSphere c.he m) (m.act p) := by
  intro hp
  obtain ⟨⟨a1, a2⟩, ⟨b1, b2⟩, c1, c2⟩ := hp
  have hd := act_dist sq m p (@V3.zero K (fieldNum K sq)) hq
  have hn : 0 ≤ c.he.x * c.he.x + c.he.y * c.he.y + c.he.z * c.he.z := by
    have := mul_self_nonneg c.he.x; have := mul_self_nonneg c.he.y; have := mul_self_nonneg c.he.z; linarith
  have hr := hsq.sq_mul _ hn
  simp only [SMem, cuboidSphere, Sphere3.transformBy, V3.norm, V3.normSq, V3.dot, V3.sub, V3.zero, fieldNum_sqrt] at hd ⊢
  rw [hr]
  have e : ∀ t : K, t - 0 = t := sub_zero
  simp only [e] at hd
  have := sq_le_of_abs_le _ _ a1 a2; have := sq_le_of_abs_le _ _ b1 b2; have := sq_le_of_abs_le _ _ c1 c2
  linarith

/-- **ball** -/
theorem ball_sphere_contains (b : Ball K) (m : Iso3 K) (p : V3 K)
    (hq : m.qi * m.qi + m.qj * m.qj + m.qk * m.qk + m.qw * m.qw = 1) :
    letI := fieldNum K sq
    b.Mem3 p → SMem (ballSphere b.r m) (m.act p) := by
  intro hp
  have hd := act_dist sq m p (@V3.zero K (fieldNum K sq)) hq
  simp only [SMem, ballSphere, Sphere3.transformBy, Ball.Mem3, V3.normSq, V3.dot, V3.sub, V3.zero] at hd hp ⊢
  have e : ∀ t : K, t - 0 = t := sub_zero
  simp only [e] at hd
  linarith

/-- **cylinder** and **cone** (same sphere): radius² = r² + hh² -/
theorem cylinder_sphere_contains (c : Cylinder K) (m : Iso3 K) (p : V3 K) (hsq : LawfulSqrt sq)
    (hq : m.qi * m.qi + m.qj * m.qj + m.qk * m.qk + m.qw * m.qw = 1) :
    letI := fieldNum K sq
    c.Mem p → SMem (cylinderSphere c.hh c.r m) (m.act p) := by
  intro hp
  obtain ⟨⟨a1, a2⟩, hr2⟩ := hp
  have hd := act_dist sq m p (@V3.zero K (fieldNum K sq)) hq
  have hn : 0 ≤ c.r * c.r + c.hh * c.hh := by
    have := mul_self_nonneg c.r; have := mul_self_nonneg c.hh; linarith
  have hr := hsq.sq_mul _ hn
  simp only [SMem, cylinderSphere, Sphere3.transformBy, V3.normSq, V3.dot, V3.sub, V3.zero, fieldNum_sqrt] at hd ⊢
  rw [hr]
  have e : ∀ t : K, t - 0 = t := sub_zero
  simp only [e] at hd
  have := sq_le_of_abs_le _ _ a1 a2
  linarith

theorem cone_sphere_contains (c : Cone K) (m : Iso3 K) (p : V3 K) (hsq : LawfulSqrt sq)
    (hq : m.qi * m.qi + m.qj * m.qj + m.qk * m.qk + m.qw * m.qw = 1) (hhh : 0 < c.hh) :
    letI := fieldNum K sq
    c.Mem p → SMem (coneSphere c.hh c.r m) (m.act p) := by
  intro hp
  obtain ⟨⟨a1, a2⟩, hr2⟩ := hp
  have hd := act_dist sq m p (@V3.zero K (fieldNum K sq)) hq
  have hn : 0 ≤ c.r * c.r + c.hh * c.hh := by
    have := mul_self_nonneg c.r; have := mul_self_nonneg c.hh; linarith
  have hr := hsq.sq_mul _ hn
  simp only [SMem, coneSphere, Sphere3.transformBy, V3.normSq, V3.dot, V3.sub, V3.zero, fieldNum_sqrt, fieldNum_two] at hd hr2 ⊢
  rw [hr]
  have e : ∀ t : K, t - 0 = t := sub_zero
  simp only [e] at hd
  have hy := sq_le_of_abs_le _ _ a1 a2
  -- (x²+z²)(2hh)² ≤ r²(hh-y)² ≤ r²(2hh)²  ⇒ x²+z² ≤ r²
  have h4 : 0 < (2 * c.hh) * (2 * c.hh) := by positivity
  have h5 : (c.hh - p.y) * (c.hh - p.y) ≤ (2 * c.hh) * (2 * c.hh) := by nlinarith
  have h6 : (p.x * p.x + p.z * p.z) * ((2 * c.hh) * (2 * c.hh)) ≤ (c.r * c.r) * ((2 * c.hh) * (2 * c.hh)) := by
    have : 0 ≤ c.r * c.r := mul_self_nonneg _
    nlinarith
  have h7 : p.x * p.x + p.z * p.z ≤ c.r * c.r := le_of_mul_le_mul_right h6 h4
  linarith

example : (0:ℚ) < 1 ∧ (Cone.mk (1:ℚ) 2).hh = 1 := by norm_num

/-- `SimdAabb::contains` / `intersects`: lane `i` of the result is the scalar `Aabb` operation on lane `i`
(definitional in the model; the correspondence check is what ties the real SIMD code to it). -/
theorem simd_contains_lanes (a b : SimdAabb3 K) :
    letI := fieldNum K sq
    a.contains b = [a.l0.contains b.l0, a.l1.contains b.l1, a.l2.contains b.l2, a.l3.contains b.l3] := rfl

theorem simd_intersects_lanes (a b : SimdAabb3 K) :
    letI := fieldNum K sq
    a.intersects b = [a.l0.intersects b.l0, a.l1.intersects b.l1, a.l2.intersects b.l2, a.l3.intersects b.l3] := rfl

/-- `to_merged_aabb` contains every point of every lane -/
theorem simd_merged_contains (a : SimdAabb3 K) (p : V3 K)
    (h : (a.l0.mins.x ≤ p.x ∧ p.x ≤ a.l0.maxs.x) ∨ (a.l1.mins.x ≤ p.x ∧ p.x ≤ a.l1.maxs.x) ∨
         (a.l2.mins.x ≤ p.x ∧ p.x ≤ a.l2.maxs.x) ∨ (a.l3.mins.x ≤ p.x ∧ p.x ≤ a.l3.maxs.x)) :
    letI := fieldNum K sq
    a.toMerged.mins.x ≤ p.x ∧ p.x ≤ a.toMerged.maxs.x := by
  simp only [SimdAabb3.toMerged, fieldNum_nmin, fieldNum_nmax, min_le_iff, le_max_iff]
  tauto

end C09
