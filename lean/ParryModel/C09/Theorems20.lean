import ParryModel.C01.Lemmas
import ParryModel.C09.Theorems17
import ParryModel.C09.Model5
/-!
# C09 theorems, part 20: parry2d — `Aabb::transform_by` contains and is exact; the closed-form 2-D boxes are tight

* `aabb2_transformBy_contains` / `_tight`: for a unit complex pose, `a.transform_by(m)` contains `m • p` for every point of
  the box, and each of its four faces carries the image of a corner (`|R|·he` is exact in 2-D too);
* `cuboid2_aabb_tight`, `ball2_aabb_tight`, `capsule2_aabb_tight`, `triangle2_aabb_tight`: every face of the box
  carries a point of the posed shape.
-/
set_option linter.unusedSectionVars false
set_option linter.unusedVariables false
set_option linter.unusedSimpArgs false
set_option linter.style.haveILetI false

namespace C09
open Model

variable {K : Type} [Field K] [LinearOrder K] [IsStrictOrderedRing K] (sq : K → K)

private theorem pick_hi2 (r lo hi : K) :
    r * (if 0 ≤ r then hi else lo) = r * ((lo + hi) * (1/2)) + |r| * ((hi - lo) * (1/2)) := by
  split_ifs with h
  · rw [abs_of_nonneg h]; ring
  · rw [abs_of_neg (not_le.1 h)]; ring
private theorem pick_lo2 (r lo hi : K) :
    r * (if 0 ≤ r then lo else hi) = r * ((lo + hi) * (1/2)) - |r| * ((hi - lo) * (1/2)) := by
  split_ifs with h
  · rw [abs_of_nonneg h]; ring
  · rw [abs_of_neg (not_le.1 h)]; ring
private theorem ite_corner2 (P : Prop) [Decidable P] (lo hi : K) :
    ((if P then hi else lo) = lo ∨ (if P then hi else lo) = hi) ∧ ((if P then lo else hi) = lo ∨ (if P then lo else hi) = hi) := by
  split_ifs <;> simp
private theorem half2 (lo hi x : K) (h1 : lo ≤ x) (h2 : x ≤ hi) :
    -((hi - lo) * (1/2)) ≤ x - (lo + hi) * (1/2) ∧ x - (lo + hi) * (1/2) ≤ (hi - lo) * (1/2) := by
  constructor <;> linarith
private theorem lin2' (r1 r2 d1 d2 h1 h2 : K) (e1 : -h1 ≤ d1 ∧ d1 ≤ h1) (e2 : -h2 ≤ d2 ∧ d2 ≤ h2) :
    -(|r1| * h1 + |r2| * h2) ≤ r1 * d1 + r2 * d2 ∧ r1 * d1 + r2 * d2 ≤ |r1| * h1 + |r2| * h2 := by
  have a1 : |r1 * d1| ≤ |r1| * h1 := by rw [abs_mul]; exact mul_le_mul_of_nonneg_left (abs_le.2 e1) (abs_nonneg _)
  have a2 : |r2 * d2| ≤ |r2| * h2 := by rw [abs_mul]; exact mul_le_mul_of_nonneg_left (abs_le.2 e2) (abs_nonneg _)
  rw [abs_le] at a1 a2
  constructor <;> linarith [a1.1, a1.2, a2.1, a2.2]

/-- **`Aabb::transform_by` (2-D) contains** `m • p` for every point `p` of the box (any `re, im`: the bound is linear). -/
theorem aabb2_transformBy_contains (a : Aabb2 K) (m : Iso2 K) (p : V2 K) (h : BMem2 a p) :
    letI := fieldNum K sq
    BMem2 (a.transformBy m) (m.act p) := by
  obtain ⟨⟨h1, h2⟩, h3, h4⟩ := h
  have hl : ((mkRat 1 2 : Rat) : K) = 1/2 := by norm_num
  have ex := half2 _ _ _ h1 h2
  have ey := half2 _ _ _ h3 h4
  have bx := lin2' m.re (-m.im) _ _ _ _ ex ey
  have by' := lin2' m.im m.re _ _ _ _ ex ey
  simp only [Aabb2.transformBy, Aabb2.center, Aabb2.halfExtents, Iso2.absTransform, Iso2.act, Iso2.rot, V2.center, V2.add, V2.sub,
    V2.smul, V2.neg, BMem2, fieldNum_nabs, fieldNum_lit, hl]
  refine ⟨⟨?_, ?_⟩, ?_, ?_⟩ <;> nlinarith [bx.1, bx.2, by'.1, by'.2]

/-- `c` is one of the four corners -/
def IsCorner2 (a : Aabb2 K) (c : V2 K) : Prop := (c.x = a.mins.x ∨ c.x = a.maxs.x) ∧ (c.y = a.mins.y ∨ c.y = a.maxs.y)

/-- **`Aabb::transform_by` (2-D) is exact**: every face carries the image of a corner. -/
theorem aabb2_transformBy_tight (a : Aabb2 K) (m : Iso2 K) :
    letI := fieldNum K sq
    Touches2 (fun x => ∃ c, IsCorner2 a c ∧ x = m.act c) (a.transformBy m) := by
  have hl : ((mkRat 1 2 : Rat) : K) = 1/2 := by norm_num
  simp only [Touches2, Aabb2.transformBy, Aabb2.center, Aabb2.halfExtents, Iso2.absTransform, V2.center, V2.add, V2.sub,
    V2.smul, V2.neg, fieldNum_nabs, fieldNum_lit, hl]
  refine ⟨⟨_, ⟨⟨if 0 ≤ m.re then a.maxs.x else a.mins.x, if 0 ≤ -m.im then a.maxs.y else a.mins.y⟩,
      ⟨(ite_corner2 _ _ _).1, (ite_corner2 _ _ _).1⟩, rfl⟩, ?_⟩,
    ⟨_, ⟨⟨if 0 ≤ m.re then a.mins.x else a.maxs.x, if 0 ≤ -m.im then a.mins.y else a.maxs.y⟩,
      ⟨(ite_corner2 _ _ _).2, (ite_corner2 _ _ _).2⟩, rfl⟩, ?_⟩,
    ⟨_, ⟨⟨if 0 ≤ m.im then a.maxs.x else a.mins.x, if 0 ≤ m.re then a.maxs.y else a.mins.y⟩,
      ⟨(ite_corner2 _ _ _).1, (ite_corner2 _ _ _).1⟩, rfl⟩, ?_⟩,
    ⟨_, ⟨⟨if 0 ≤ m.im then a.mins.x else a.maxs.x, if 0 ≤ m.re then a.mins.y else a.maxs.y⟩,
      ⟨(ite_corner2 _ _ _).2, (ite_corner2 _ _ _).2⟩, rfl⟩, ?_⟩⟩
  · simp only [Iso2.act, Iso2.rot, V2.add]
    have e : m.re * (if 0 ≤ m.re then a.maxs.x else a.mins.x) - m.im * (if 0 ≤ -m.im then a.maxs.y else a.mins.y)
        = m.re * (if 0 ≤ m.re then a.maxs.x else a.mins.x) + (-m.im) * (if 0 ≤ -m.im then a.maxs.y else a.mins.y) := by ring
    rw [e, pick_hi2, pick_hi2]; ring
  · simp only [Iso2.act, Iso2.rot, V2.add]
    have e : m.re * (if 0 ≤ m.re then a.mins.x else a.maxs.x) - m.im * (if 0 ≤ -m.im then a.mins.y else a.maxs.y)
        = m.re * (if 0 ≤ m.re then a.mins.x else a.maxs.x) + (-m.im) * (if 0 ≤ -m.im then a.mins.y else a.maxs.y) := by ring
    rw [e, pick_lo2, pick_lo2]; ring
  · simp only [Iso2.act, Iso2.rot, V2.add]
    rw [pick_hi2, pick_hi2]; ring
  · simp only [Iso2.act, Iso2.rot, V2.add]
    rw [pick_lo2, pick_lo2]; ring

/-! ## closed forms -/

private theorem pick_abs2 (r h : K) : r * (if 0 ≤ r then h else -h) = |r| * h ∧ r * (if 0 ≤ r then -h else h) = -(|r| * h) := by
  split_ifs with hr
  · rw [abs_of_nonneg hr]; exact ⟨rfl, by ring⟩
  · rw [abs_of_neg (not_le.1 hr)]; exact ⟨by ring, by ring⟩
private theorem ite_mem2 (P : Prop) [Decidable P] (h : K) (hh : 0 ≤ h) :
    (-h ≤ (if P then h else -h) ∧ (if P then h else -h) ≤ h) ∧ (-h ≤ (if P then -h else h) ∧ (if P then -h else h) ≤ h) := by
  split_ifs <;> exact ⟨⟨by linarith, by linarith⟩, by linarith, by linarith⟩

/-- **`Cuboid::aabb(pos)` (2-D) is exact**: every face carries a vertex of the posed rectangle. -/
theorem cuboid2_aabb_tight (he : V2 K) (hx : 0 ≤ he.x) (hy : 0 ≤ he.y) (m : Iso2 K) :
    letI := fieldNum K sq
    Touches2 (posed2 sq m (Cuboid2.mk he).Mem) (cuboidAabb2 he m) := by
  simp only [Touches2, posed2, cuboidAabb2, Aabb2.fromHalfExtents, Iso2.absTransform, V2.add, V2.sub, fieldNum_nabs]
  refine ⟨⟨_, ⟨⟨if 0 ≤ m.re then he.x else -he.x, if 0 ≤ -m.im then he.y else -he.y⟩,
      ⟨(ite_mem2 _ _ hx).1, (ite_mem2 _ _ hy).1⟩, rfl⟩, ?_⟩,
    ⟨_, ⟨⟨if 0 ≤ m.re then -he.x else he.x, if 0 ≤ -m.im then -he.y else he.y⟩,
      ⟨(ite_mem2 _ _ hx).2, (ite_mem2 _ _ hy).2⟩, rfl⟩, ?_⟩,
    ⟨_, ⟨⟨if 0 ≤ m.im then he.x else -he.x, if 0 ≤ m.re then he.y else -he.y⟩,
      ⟨(ite_mem2 _ _ hx).1, (ite_mem2 _ _ hy).1⟩, rfl⟩, ?_⟩,
    ⟨_, ⟨⟨if 0 ≤ m.im then -he.x else he.x, if 0 ≤ m.re then -he.y else he.y⟩,
      ⟨(ite_mem2 _ _ hx).2, (ite_mem2 _ _ hy).2⟩, rfl⟩, ?_⟩⟩
  · simp only [Iso2.act, Iso2.rot, V2.add]
    have e : m.re * (if 0 ≤ m.re then he.x else -he.x) - m.im * (if 0 ≤ -m.im then he.y else -he.y)
        = m.re * (if 0 ≤ m.re then he.x else -he.x) + (-m.im) * (if 0 ≤ -m.im then he.y else -he.y) := by ring
    rw [e, (pick_abs2 _ _).1, (pick_abs2 _ _).1]; ring
  · simp only [Iso2.act, Iso2.rot, V2.add]
    have e : m.re * (if 0 ≤ m.re then -he.x else he.x) - m.im * (if 0 ≤ -m.im then -he.y else he.y)
        = m.re * (if 0 ≤ m.re then -he.x else he.x) + (-m.im) * (if 0 ≤ -m.im then -he.y else he.y) := by ring
    rw [e, (pick_abs2 _ _).2, (pick_abs2 _ _).2]; ring
  · simp only [Iso2.act, Iso2.rot, V2.add]
    rw [(pick_abs2 _ _).1, (pick_abs2 _ _).1]; ring
  · simp only [Iso2.act, Iso2.rot, V2.add]
    rw [(pick_abs2 _ _).2, (pick_abs2 _ _).2]; ring

private theorem preimage2 (m : Iso2 K) (X s : V2 K) (hq : m.re * m.re + m.im * m.im = 1) :
    letI := fieldNum K sq
    ∃ q, m.act q = X ∧ (q.sub s).normSq = (X.sub (m.act s)).normSq := by
  refine ⟨@Iso2.invAct K (fieldNum K sq) m X, C01.act_invAct2 sq m X hq, ?_⟩
  rw [← act_dist2 sq m _ s hq, C01.act_invAct2 sq m X hq]

private theorem act_zero2 (m : Iso2 K) :
    letI := fieldNum K sq
    m.act V2.zero = m.t := by
  rcases m with ⟨re, im, ⟨tx, ty⟩⟩
  simp only [Iso2.act, Iso2.rot, V2.add, V2.zero, V2.mk.injEq]
  refine ⟨?_, ?_⟩ <;> ring

/-- **`Ball::aabb(pos)` (2-D) is exact** -/
theorem ball2_aabb_tight (r : K) (hr : 0 ≤ r) (m : Iso2 K) (hq : m.re * m.re + m.im * m.im = 1) :
    letI := fieldNum K sq
    Touches2 (posed2 sq m (Ball.mk r).Mem2) (ballAabb2 r m) := by
  have act0 := act_zero2 sq m
  have pt : letI := fieldNum K sq; ∀ d : V2 K, d.x * d.x + d.y * d.y = r * r →
      ∃ q, posed2 sq m (Ball.mk r).Mem2 q ∧ q = @V2.add K (fieldNum K sq) m.t d := by
    intro d hd
    obtain ⟨q, h1, h2⟩ := preimage2 sq m (@V2.add K (fieldNum K sq) m.t d) (@V2.zero K (fieldNum K sq)) hq
    refine ⟨_, ⟨q, ?_, h1.symm⟩, rfl⟩
    rw [act0] at h2
    simp only [Ball.Mem2, V2.normSq, V2.dot, V2.sub, V2.add, V2.zero] at h2 ⊢
    have e : ∀ t : K, t - 0 = t := sub_zero
    simp only [e] at h2
    rw [h2]
    have : m.t.x + d.x - m.t.x = d.x ∧ m.t.y + d.y - m.t.y = d.y := ⟨by ring, by ring⟩
    rw [this.1, this.2, hd]
  simp only [Touches2, ballAabb2, V2.add]
  refine ⟨?_, ?_, ?_, ?_⟩
  · obtain ⟨q, h1, h2⟩ := pt ⟨r, 0⟩ (by ring); exact ⟨q, h1, by rw [h2]; simp [V2.add]⟩
  · obtain ⟨q, h1, h2⟩ := pt ⟨-r, 0⟩ (by ring); exact ⟨q, h1, by rw [h2]; simp [V2.add]⟩
  · obtain ⟨q, h1, h2⟩ := pt ⟨0, r⟩ (by ring); exact ⟨q, h1, by rw [h2]; simp [V2.add]⟩
  · obtain ⟨q, h1, h2⟩ := pt ⟨0, -r⟩ (by ring); exact ⟨q, h1, by rw [h2]; simp [V2.add]⟩

/-- **`Capsule::aabb(pos)` (2-D) is exact** -/
theorem capsule2_aabb_tight (a b : V2 K) (r : K) (hr : 0 ≤ r) (m : Iso2 K) (hq : m.re * m.re + m.im * m.im = 1) :
    letI := fieldNum K sq
    Touches2 (posed2 sq m (Capsule2.mk a b r).Mem) (capsuleAabb2 a b r m) := by
  have ma : letI := fieldNum K sq; (Segment2.mk a b).Mem a := ⟨0, le_refl _, zero_le_one, by
    obtain ⟨x, y⟩ := a; simp [V2.add, V2.sub, V2.smul]⟩
  have mb : letI := fieldNum K sq; (Segment2.mk a b).Mem b := ⟨1, zero_le_one, le_refl _, by
    obtain ⟨x, y⟩ := a; obtain ⟨x', y'⟩ := b; simp [V2.add, V2.sub, V2.smul]⟩
  have pt : letI := fieldNum K sq; ∀ s : V2 K, (Segment2.mk a b).Mem s → ∀ d : V2 K, d.x * d.x + d.y * d.y = r * r →
      posed2 sq m (Capsule2.mk a b r).Mem (@V2.add K (fieldNum K sq) (@Iso2.act K (fieldNum K sq) m s) d) := by
    intro s hs d hd
    obtain ⟨q, h1, h2⟩ := preimage2 sq m (@V2.add K (fieldNum K sq) (@Iso2.act K (fieldNum K sq) m s) d) s hq
    refine ⟨q, ⟨s, hs, ?_⟩, h1.symm⟩
    rw [h2]
    simp only [V2.normSq, V2.dot, V2.sub, V2.add]
    generalize (@Iso2.act K (fieldNum K sq) m s) = S
    have : S.x + d.x - S.x = d.x ∧ S.y + d.y - S.y = d.y := ⟨by ring, by ring⟩
    rw [this.1, this.2, hd]
  simp only [Touches2, capsuleAabb2, capsuleLocalAabb2, V2.add, V2.sub, V2.inf, V2.sup, fieldNum_nmin, fieldNum_nmax]
  set A := @Iso2.act K (fieldNum K sq) m a
  set B := @Iso2.act K (fieldNum K sq) m b
  refine ⟨?_, ?_, ?_, ?_⟩
  · rcases le_total A.x B.x with h | h
    · exact ⟨_, pt b mb ⟨r, 0⟩ (by ring), by simp only [V2.add]; rw [max_eq_right h]⟩
    · exact ⟨_, pt a ma ⟨r, 0⟩ (by ring), by simp only [V2.add]; rw [max_eq_left h]⟩
  · rcases le_total A.x B.x with h | h
    · exact ⟨_, pt a ma ⟨-r, 0⟩ (by ring), by simp only [V2.add]; rw [min_eq_left h]; ring⟩
    · exact ⟨_, pt b mb ⟨-r, 0⟩ (by ring), by simp only [V2.add]; rw [min_eq_right h]; ring⟩
  · rcases le_total A.y B.y with h | h
    · exact ⟨_, pt b mb ⟨0, r⟩ (by ring), by simp only [V2.add]; rw [max_eq_right h]⟩
    · exact ⟨_, pt a ma ⟨0, r⟩ (by ring), by simp only [V2.add]; rw [max_eq_left h]⟩
  · rcases le_total A.y B.y with h | h
    · exact ⟨_, pt a ma ⟨0, -r⟩ (by ring), by simp only [V2.add]; rw [min_eq_left h]; ring⟩
    · exact ⟨_, pt b mb ⟨0, -r⟩ (by ring), by simp only [V2.add]; rw [min_eq_right h]; ring⟩

private theorem min3_att (x y z : K) : min (min x y) z = x ∨ min (min x y) z = y ∨ min (min x y) z = z := by
  rcases le_total x y with h | h <;> rcases le_total (min x y) z with h' | h'
  · left; rw [min_eq_left h', min_eq_left h]
  · right; right; rw [min_eq_right h']
  · right; left; rw [min_eq_left h', min_eq_right h]
  · right; right; rw [min_eq_right h']
private theorem max3_att (x y z : K) : max (max x y) z = x ∨ max (max x y) z = y ∨ max (max x y) z = z := by
  rcases le_total x y with h | h <;> rcases le_total (max x y) z with h' | h'
  · right; right; rw [max_eq_right h']
  · right; left; rw [max_eq_left h', max_eq_right h]
  · right; right; rw [max_eq_right h']
  · left; rw [max_eq_left h', max_eq_left h]

/-- **`Triangle::aabb(pos)` (2-D) is exact**: each face carries one of the vertices `m•a, m•b, m•c`. -/
theorem triangle2_aabb_tight (a b c : V2 K) (m : Iso2 K) :
    letI := fieldNum K sq
    Touches2 (fun q => q = m.act a ∨ q = m.act b ∨ q = m.act c) (triangleAabb2 a b c m) := by
  simp only [Touches2, triangleAabb2, triangleLocalAabb2, fieldNum_nmin, fieldNum_nmax]
  set A := @Iso2.act K (fieldNum K sq) m a
  set B := @Iso2.act K (fieldNum K sq) m b
  set C := @Iso2.act K (fieldNum K sq) m c
  refine ⟨?_, ?_, ?_, ?_⟩
  · rcases max3_att A.x B.x C.x with h | h | h
    · exact ⟨A, Or.inl rfl, h.symm⟩
    · exact ⟨B, Or.inr (Or.inl rfl), h.symm⟩
    · exact ⟨C, Or.inr (Or.inr rfl), h.symm⟩
  · rcases min3_att A.x B.x C.x with h | h | h
    · exact ⟨A, Or.inl rfl, h.symm⟩
    · exact ⟨B, Or.inr (Or.inl rfl), h.symm⟩
    · exact ⟨C, Or.inr (Or.inr rfl), h.symm⟩
  · rcases max3_att A.y B.y C.y with h | h | h
    · exact ⟨A, Or.inl rfl, h.symm⟩
    · exact ⟨B, Or.inr (Or.inl rfl), h.symm⟩
    · exact ⟨C, Or.inr (Or.inr rfl), h.symm⟩
  · rcases min3_att A.y B.y C.y with h | h | h
    · exact ⟨A, Or.inl rfl, h.symm⟩
    · exact ⟨B, Or.inr (Or.inl rfl), h.symm⟩
    · exact ⟨C, Or.inr (Or.inr rfl), h.symm⟩

/-! ## `Aabb::scaled` (2-D), histories of `scaled` on 2-D composites, composite bounding circle / swept box -/

private theorem scale1' (lo hi s x : K) (h1 : lo ≤ x) (h2 : x ≤ hi) :
    min (lo * s) (hi * s) ≤ x * s ∧ x * s ≤ max (lo * s) (hi * s) := by
  rcases le_total 0 s with hs | hs
  · exact ⟨(min_le_left _ _).trans (mul_le_mul_of_nonneg_right h1 hs),
           le_trans (mul_le_mul_of_nonneg_right h2 hs) (le_max_right _ _)⟩
  · exact ⟨(min_le_right _ _).trans (mul_le_mul_of_nonpos_right h2 hs),
           le_trans (mul_le_mul_of_nonpos_right h1 hs) (le_max_left _ _)⟩

/-- **`Aabb::scaled` (2-D)** contains `s∘p` for every point of the box, any signs of `s`. -/
theorem aabb2_scaled_contains (a : Aabb2 K) (s p : V2 K) (h : BMem2 a p) :
    letI := fieldNum K sq
    BMem2 (a.scaled s) (p.cmul s) := by
  obtain ⟨⟨h1, h2⟩, h3, h4⟩ := h
  simp only [Aabb2.scaled, V2.cmul, V2.inf, V2.sup, BMem2, fieldNum_nmin, fieldNum_nmax]
  exact ⟨scale1' _ _ _ _ h1 h2, scale1' _ _ _ _ h3 h4⟩

/-- 2-D TriMesh / Polyline after a history of `scaled` -/
theorem aabb2_scaledHist_contains (ss : List (V2 K)) :
    letI := fieldNum K sq
    ∀ (b : Aabb2 K) (p : V2 K), BMem2 b p → BMem2 (b.scaledHist ss) (ss.foldl V2.cmul p) := by
  induction ss with
  | nil => intro b p h; exact h
  | cons s ss ih =>
    intro b p h
    simp only [Aabb2.scaledHist, List.foldl_cons]
    exact ih _ _ (aabb2_scaled_contains sq b s p h)

/-- 2-D `HeightField::set_scale` (corrected) and its histories, non-zero scales of any signs -/
theorem heightfield2_hist_contains (ss : List (V2 K)) :
    letI := fieldNum K sq
    ∀ (b : Aabb2 K) (s0 p : V2 K), (s0.x ≠ 0 ∧ s0.y ≠ 0) → (∀ s ∈ ss, s.x ≠ 0 ∧ s.y ≠ 0) → BMem2 b p →
      BMem2 (heightfieldHist2 b s0 ss).1 (ss.foldl V2.cmul p) ∧ (heightfieldHist2 b s0 ss).2 = ss.foldl V2.cmul s0 := by
  induction ss with
  | nil => intro b s0 p _ _ h; exact ⟨h, rfl⟩
  | cons s ss ih =>
    intro b s0 p h0 hs h
    simp only [heightfieldHist2, List.foldl_cons]
    have hs1 := hs s (by simp)
    have hnz : (@V2.cmul K (fieldNum K sq) s0 s).x ≠ 0 ∧ (@V2.cmul K (fieldNum K sq) s0 s).y ≠ 0 :=
      ⟨mul_ne_zero h0.1 hs1.1, mul_ne_zero h0.2 hs1.2⟩
    have e : @heightfieldRescale2 K (fieldNum K sq) b s0 s = @Aabb2.scaled K (fieldNum K sq) b s := by
      simp only [heightfieldRescale2, Aabb2.scaled, V2.cmul]
      rw [mul_div_cancel_left₀ _ h0.1, mul_div_cancel_left₀ _ h0.2]
    refine ih _ _ _ hnz (fun t ht => hs t (by simp [ht])) ?_
    rw [e]; exact aabb2_scaled_contains sq b s p h

/-! ## ConvexPolygon box (2-D): exact -/

/-- every face coordinate of `b` is the coordinate of some point of `L` -/
def Attained2 (L : List (V2 K)) (b : Aabb2 K) : Prop :=
  (∃ w ∈ L, w.x = b.maxs.x) ∧ (∃ w ∈ L, w.x = b.mins.x) ∧ (∃ w ∈ L, w.y = b.maxs.y) ∧ (∃ w ∈ L, w.y = b.mins.y)

private theorem grow2_attained (L : List (V2 K)) (b : Aabb2 K) (w : V2 K) (hw : w ∈ L) :
    Attained2 L b → Attained2 L (grow2 sq b w) := by
  rintro ⟨a1, a2, a3, a4⟩
  simp only [Attained2, grow2, V2.inf, V2.sup, fieldNum_nmin, fieldNum_nmax]
  refine ⟨?_, ?_, ?_, ?_⟩
  · rcases max_choice b.maxs.x w.x with e | e <;> rw [e]; exacts [a1, ⟨w, hw, rfl⟩]
  · rcases min_choice b.mins.x w.x with e | e <;> rw [e]; exacts [a2, ⟨w, hw, rfl⟩]
  · rcases max_choice b.maxs.y w.y with e | e <;> rw [e]; exacts [a3, ⟨w, hw, rfl⟩]
  · rcases min_choice b.mins.y w.y with e | e <;> rw [e]; exacts [a4, ⟨w, hw, rfl⟩]
private theorem foldl_grow2_attained (L : List (V2 K)) (ws : List (V2 K)) (hws : ∀ w ∈ ws, w ∈ L) :
    ∀ b, Attained2 L b → Attained2 L (ws.foldl (grow2 sq) b) := by
  induction ws with
  | nil => intro b h; exact h
  | cons w ws ih =>
    intro b h
    exact ih (fun v hv => hws v (List.mem_cons_of_mem _ hv)) _ (grow2_attained sq L b w (hws w (List.mem_cons_self ..)) h)

/-- **`ConvexPolygon::aabb(pos)` is exact** (`point_cloud_aabb`): every face of the box carries the image of one of the
polygon's points (with `polygon_aabb_contains`: the box is the least box around the posed polygon). -/
theorem polygon_aabb_tight (m : Iso2 K) (p0 : V2 K) (ps : List (V2 K)) :
    letI := fieldNum K sq
    Attained2 ((p0 :: ps).map m.act) (pointCloudAabb2 m p0 ps) := by
  have e : @pointCloudAabb2 K (fieldNum K sq) m p0 ps
      = (ps.map (@Iso2.act K (fieldNum K sq) m)).foldl (grow2 sq) ⟨@Iso2.act K (fieldNum K sq) m p0, @Iso2.act K (fieldNum K sq) m p0⟩ := by
    simp only [pointCloudAabb2, List.foldl_map]; rfl
  rw [e]
  refine foldl_grow2_attained sq _ _ (fun w hw => by simp only [List.map_cons, List.mem_cons]; exact Or.inr hw) _ ?_
  have h0 : @Iso2.act K (fieldNum K sq) m p0 ∈ (p0 :: ps).map (@Iso2.act K (fieldNum K sq) m) := by simp
  exact ⟨⟨_, h0, rfl⟩, ⟨_, h0, rfl⟩, ⟨_, h0, rfl⟩, ⟨_, h0, rfl⟩⟩

end C09
